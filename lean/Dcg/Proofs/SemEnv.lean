import Dcg.Proofs.SemBase
/-
C14: the verdict of a generated model depends on the definitions environment only through lookups
(`acceptsTy_congr_defs`); hence the ORDER in which the classes of a module are written
(`--keep-model-order`, the sorting passes) cannot change what the models accept, and two names bound to
the same class (`--reuse-model`: `class Dog(Cat): pass`) are interchangeable.
-/
namespace Dcg.Proofs.Sem
open Dcg.Sem Dcg.Sem.Pyd Dcg.Model.Constraints Dcg.Model.Translate

theorem tri_all_congr {α : Type} (xs : List α) (f f' : α → Tri) (h : ∀ x ∈ xs, f x = f' x) :
    Tri.all (xs.map f) = Tri.all (xs.map f') := by
  rw [List.map_congr_left h]

theorem tri_any_congr {α : Type} (xs : List α) (f f' : α → Tri) (h : ∀ x ∈ xs, f x = f' x) :
    Tri.any (xs.map f) = Tri.any (xs.map f') := by
  rw [List.map_congr_left h]

/-- two environments with the same lookups give the same verdict — every type, value, fuel -/
theorem acceptsTy_congr_defs (st : Style) (re : Regex) (D D' : IRDefs)
    (h : ∀ n, D.lookup n = D'.lookup n) :
    ∀ (g : Nat) (t : Ty) (v : Json), acceptsTy st re g D t v = acceptsTy st re g D' t v := by
  intro g
  induction g with
  | zero => intro t v; simp [acceptsTy]
  | succ g ih =>
    intro t v
    cases t with
    | any => simp [acceptsTy]
    | null => simp [acceptsTy]
    | scalar p kw => simp [acceptsTy]
    | const a => simp [acceptsTy]
    | enumCls vals => simp [acceptsTy]
    | list item =>
      cases v <;> simp only [acceptsTy]
      rename_i xs
      exact tri_all_congr xs _ _ (fun x _ => ih item x)
    | dict val =>
      cases v <;> simp only [acceptsTy]
      rename_i kvs
      exact tri_all_congr kvs _ _ (fun kv _ => ih val kv.2)
    | model fields extra =>
      cases v <;> simp only [acceptsTy]
      rename_i kvs
      congr 1
      apply tri_all_congr
      intro fld _
      cases kvs.lookup fld.1 with
      | none => rfl
      | some x => simp only [ih]
    | derived bases fields extra =>
      cases v <;> simp only [acceptsTy]
      rename_i kvs
      congr 1
      · apply tri_all_congr
        intro b _
        rw [h b]
        cases D'.lookup b with
        | none => rfl
        | some d => simp only [ih]
      · apply tri_all_congr
        intro fld _
        cases kvs.lookup fld.1 with
        | none => rfl
        | some x => simp only [ih]
    | root c inner => simp only [acceptsTy, ih]
    | ref n =>
      simp only [acceptsTy, h n]
      cases D'.lookup n with
      | none => rfl
      | some d => simp only [ih]
    | opt inner => simp only [acceptsTy, ih]
    | union ts =>
      simp only [acceptsTy]
      exact tri_any_congr ts _ _ (fun u _ => ih u v)
    | tagged prop branches =>
      cases v <;> simp only [acceptsTy]
      rename_i kvs
      cases kvs.lookup prop with
      | none => rfl
      | some x =>
        cases x <;> simp only
        rename_i tag
        cases branches.find? (fun b => b.1.any (fun a => a.matches (.str tag))) with
        | none => rfl
        | some b =>
          simp only [h b.2]
          cases D'.lookup b.2 with
          | none => rfl
          | some d => simp only [ih]

/-- lookups in a list of definitions with distinct names do not depend on the order -/
theorem lookup_perm {α : Type} {l l' : List (List Char × α)} (hp : l.Perm l')
    (hn : namesNodup (l.map (·.1)) = true) (n : List Char) : l.lookup n = l'.lookup n := by
  induction hp with
  | nil => rfl
  | cons x _ ih =>
    obtain ⟨k, v⟩ := x
    simp only [List.map, namesNodup, Bool.and_eq_true] at hn
    simp only [List.lookup]
    cases (n == k) <;> simp [ih hn.2]
  | swap x y l =>
    obtain ⟨k1, v1⟩ := x
    obtain ⟨k2, v2⟩ := y
    simp only [List.map, namesNodup, Bool.and_eq_true, Bool.not_eq_true', List.contains_cons,
      Bool.or_eq_false_iff] at hn
    simp only [List.lookup]
    cases h1 : (n == k1) <;> cases h2 : (n == k2) <;> simp
    -- both match: then k1 = k2, excluded by distinctness
    have e1 : n = k1 := by simpa using h1
    have e2 : n = k2 := by simpa using h2
    have : (k2 == k1) = true := by rw [← e1, ← e2]; simp
    rw [this] at hn
    exact absurd hn.1.1 (by simp)
  | trans _ _ ih1 ih2 =>
    rename_i l1 l2 l3 p12 p23
    have hn2 : namesNodup (l2.map (·.1)) = true := by
      -- distinctness is a property of the multiset of names
      have hp' : (l1.map (·.1)).Perm (l2.map (·.1)) := p12.map _
      exact (namesNodup_perm hp').mp hn
    rw [ih1 hn, ih2 hn2]
where
  namesNodup_perm {a b : List (List Char)} (hp : a.Perm b) : namesNodup a = true ↔ namesNodup b = true := by
    have key : ∀ l : List (List Char), namesNodup l = true ↔ l.Nodup := by
      intro l
      induction l with
      | nil => simp [namesNodup]
      | cons x xs ih => simp [namesNodup, ih, List.nodup_cons]
    rw [key, key]
    exact hp.nodup_iff

end Dcg.Proofs.Sem
