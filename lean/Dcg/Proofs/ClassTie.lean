import Dcg.Proofs.ClassRender
import Dcg.Proofs.Cover
import Dcg.Props.C11
/-
Dcg.Proofs.ClassTie — where the side conditions of `wellBound_render` come from:
(i) the typing names of a rendered hint are imported (`imports_cover_hint_partial`, Proofs/Cover),
(iii) base classes precede derived classes in the order `sort_data_models` returns (C11).
-/
namespace Dcg.Proofs.ClassTie
open Dcg.Model.ClassScope Dcg.Model.ClassRender Dcg.Proofs.ClassRender
open Dcg.Sem.Typing (TExpr)

mutual
/-- the evaluation skeleton reads no name the hint does not write -/
theorem names_ofT_subset : (e : TExpr) → ∀ n ∈ (ofT e).names, n ∈ Dcg.Proofs.Cover.namesOf e
  | .atom s, n, h => by simpa [ofT, Expr.names, Dcg.Proofs.Cover.namesOf] using h
  | .app hd args, n, h => by
    unfold ofT at h
    simp only [Dcg.Proofs.Cover.namesOf, List.mem_cons]
    split at h
    · simp only [Expr.names, Expr.namesL, List.append_nil, List.mem_singleton] at h
      exact Or.inl h
    · simp only [Expr.names, List.singleton_append, List.mem_cons] at h
      rcases h with h | h
      · exact Or.inl h
      · exact Or.inr (namesL_ofTL_subset args n h)
  | .bor args, n, h => by
    simp only [ofT, Expr.names] at h
    simpa [Dcg.Proofs.Cover.namesOf] using namesL_ofTL_subset args n h
theorem namesL_ofTL_subset : (es : List TExpr) → ∀ n ∈ Expr.namesL (ofTL es), n ∈ Dcg.Proofs.Cover.namesOfL es
  | [], n, h => by simp [ofTL, Expr.namesL] at h
  | e :: es, n, h => by
    simp only [ofTL, Expr.namesL, List.mem_append] at h
    simp only [Dcg.Proofs.Cover.namesOfL, List.mem_append]
    rcases h with h | h
    · exact Or.inl (names_ofT_subset e n h)
    · exact Or.inr (namesL_ofTL_subset es n h)
end

open Dcg.Model.Sort in
/-- classes written in the order `sort_data_models` returns: every base class name is bound by an
earlier class statement (`mk` = how a model becomes a class: its name and base-class names are
those of its path and base paths under the resolver's naming `nm`) -/
theorem bases_precede_of_sort (rc : Nat) (ms : List Dcg.Model.Sort.Model) (out : Out)
    (hd : Dcg.Props.C11.DistinctPaths ms) (hwf : ∀ m ∈ ms, Dcg.Proofs.Sort.WF m)
    (h : sortDataModels rc ms = .ok out) (nm : Path → Name) (mk : Dcg.Model.Sort.Model → GClass)
    (hname : ∀ m, (mk m).name = nm m.path) (hbases : ∀ m, (mk m).bases = m.bases.map nm) :
    ∀ pre c post, out.sorted.map mk = pre ++ c :: post → ∀ b ∈ c.bases, b ∈ pre.map (·.name) := by
  intro pre c post hsplit b hb
  obtain ⟨l1, rest, hs, hpre, hrest⟩ := List.map_eq_append_iff.mp hsplit
  obtain ⟨m, l2, hr, hc, -⟩ := List.map_eq_cons_iff.mp hrest
  subst hpre hc hr
  rw [hbases] at hb
  obtain ⟨p, hp, rfl⟩ := List.mem_map.mp hb
  have := Dcg.Props.C11.sort_base_before_derived rc ms out hd hwf h l1 m l2 hs p hp
  obtain ⟨m0, hm0, rfl⟩ := List.mem_map.mp this
  simp only [List.map_map, List.mem_map, Function.comp]
  exact ⟨m0, hm0, hname m0⟩

end Dcg.Proofs.ClassTie
