import Dcg.Sem.Typing
/-
Dcg.Proofs.Dedup — the normal-form equality `Ty.beq` is equality, and what `dedup` (keep the first
occurrence of each alternative of a union) does to concatenations.  Used by the spelling theorems:
the alternatives of a union are compared up to repetition.
-/
namespace Dcg.Proofs.Dedup
open Dcg.Sem.Typing

theorem Ty.ind {P : Ty → Prop} (hatom : ∀ s, P (.atom s))
    (happ : ∀ h args, (∀ a ∈ args, P a) → P (.app h args))
    (hunion : ∀ as n, (∀ a ∈ as, P a) → P (.union as n)) : ∀ t, P t := by
  intro t
  induction t using Ty.rec (motive_2 := fun l => ∀ a ∈ l, P a) with
  | atom s => exact hatom s
  | app h args ih => exact happ h args ih
  | union as n ih => exact hunion as n ih
  | nil => rename_i hc; cases hc
  | cons hd tl ih1 ih2 =>
    rename_i c hc
    cases hc with
    | head => exact ih1
    | tail _ h' => exact ih2 c h'

theorem beqL_iff : ∀ (as bs : List Ty), (∀ a ∈ as, ∀ b, Ty.beq a b = true ↔ a = b) →
    (Ty.beqL as bs = true ↔ as = bs) := by
  intro as
  induction as with
  | nil => intro bs _; cases bs <;> simp [Ty.beqL]
  | cons a l ih =>
    intro bs h
    cases bs with
    | nil => simp [Ty.beqL]
    | cons b r =>
      simp only [Ty.beqL, Bool.and_eq_true, List.cons.injEq]
      rw [h a (List.mem_cons_self ..) b, ih r (fun x hx => h x (List.mem_cons_of_mem _ hx))]

theorem beq_iff : ∀ (a b : Ty), Ty.beq a b = true ↔ a = b := by
  apply Ty.ind
  · intro s b
    cases b <;> simp [Ty.beq]
  · intro h args ih b
    cases b with
    | atom _ => simp [Ty.beq]
    | union _ _ => simp [Ty.beq]
    | app h' args' =>
      simp only [Ty.beq, Bool.and_eq_true, Ty.app.injEq, beq_iff_eq]
      rw [beqL_iff args args' ih]
  · intro as n ih b
    cases b with
    | atom _ => simp [Ty.beq]
    | app _ _ => simp [Ty.beq]
    | union as' n' =>
      simp only [Ty.beq, Bool.and_eq_true, Ty.union.injEq, beq_iff_eq]
      rw [beqL_iff as as' ih]
      exact ⟨fun h => ⟨h.2, h.1⟩, fun h => ⟨h.2, h.1⟩⟩

instance : LawfulBEq Ty where
  eq_of_beq := fun {a b} h => (beq_iff a b).mp h
  rfl := fun {a} => (beq_iff a a).mpr rfl

/-! ### `dedup` -/

theorem dedup_congr_seen : ∀ (l S S' : List Ty), (∀ t, t ∈ S ↔ t ∈ S') → dedup l S = dedup l S' := by
  intro l
  induction l with
  | nil => intro _ _ _; rfl
  | cons x xs ih =>
    intro S S' h
    simp only [dedup, List.contains_iff_mem]
    by_cases hx : x ∈ S
    · rw [if_pos hx, if_pos ((h x).mp hx)]; exact ih S S' h
    · rw [if_neg hx, if_neg (fun hc => hx ((h x).mpr hc))]
      congr 1
      exact ih _ _ (fun t => by simp [h t])

theorem dedup_append_seen : ∀ (l S S' : List Ty),
    dedup l (S ++ S') = (dedup l S).filter (fun t => !S'.contains t) := by
  intro l
  induction l with
  | nil => intro _ _; rfl
  | cons x xs ih =>
    intro S S'
    simp only [dedup, List.contains_iff_mem, List.mem_append]
    by_cases hx : x ∈ S
    · rw [if_pos (Or.inl hx), if_pos hx]; exact ih S S'
    · rw [if_neg hx]
      by_cases hx' : x ∈ S'
      · rw [if_pos (Or.inr hx')]
        have hc : S'.contains x = true := List.contains_iff_mem.mpr hx'
        rw [List.filter_cons]
        simp only [hc, Bool.not_true, Bool.false_eq_true, if_false]
        rw [← ih (x :: S) S']
        apply dedup_congr_seen
        intro t
        simp only [List.mem_append, List.cons_append, List.mem_cons]
        constructor
        · intro h; exact Or.inr h
        · rintro (rfl | h)
          · exact Or.inr hx'
          · exact h
      · rw [if_neg (by rintro (h | h); exact hx h; exact hx' h)]
        have hc : S'.contains x = false := by
          cases h : S'.contains x with
          | false => rfl
          | true => exact absurd (List.contains_iff_mem.mp h) hx'
        rw [List.filter_cons]
        simp only [hc, Bool.not_false, if_true]
        congr 1
        exact ih (x :: S) S'

/-- the alternatives without repetition -/
def dd (l : List Ty) : List Ty := dedup l []

theorem dedup_eq_filter (l S : List Ty) : dedup l S = (dd l).filter (fun t => !S.contains t) := by
  have := dedup_append_seen l [] S
  simpa [dd] using this

theorem mem_dedup : ∀ (l S : List Ty) (t : Ty), t ∈ dedup l S ↔ t ∈ l ∧ t ∉ S := by
  intro l
  induction l with
  | nil => intro S t; simp [dedup]
  | cons x xs ih =>
    intro S t
    simp only [dedup, List.contains_iff_mem]
    by_cases hx : x ∈ S
    · rw [if_pos hx, ih]
      constructor
      · intro h; exact ⟨List.mem_cons_of_mem _ h.1, h.2⟩
      · rintro ⟨h1, h2⟩
        rcases List.mem_cons.mp h1 with rfl | h1
        · exact absurd hx h2
        · exact ⟨h1, h2⟩
    · rw [if_neg hx, List.mem_cons, ih]
      constructor
      · rintro (rfl | h)
        · exact ⟨List.mem_cons_self .., hx⟩
        · exact ⟨List.mem_cons_of_mem _ h.1, fun hc => h.2 (List.mem_cons_of_mem _ hc)⟩
      · rintro ⟨h1, h2⟩
        rcases List.mem_cons.mp h1 with rfl | h1
        · exact Or.inl rfl
        · by_cases ht : t = x
          · exact Or.inl ht
          · exact Or.inr ⟨h1, by simp [ht, h2]⟩

theorem mem_dd (l : List Ty) (t : Ty) : t ∈ dd l ↔ t ∈ l := by
  simp [dd, mem_dedup]

theorem dedup_append : ∀ (xs ys S : List Ty), dedup (xs ++ ys) S = dedup xs S ++ dedup ys (xs ++ S) := by
  intro xs
  induction xs with
  | nil => intro ys S; simp [dedup]
  | cons x xs ih =>
    intro ys S
    simp only [List.cons_append, dedup, List.contains_iff_mem]
    by_cases hx : x ∈ S
    · rw [if_pos hx, if_pos hx, ih]
      congr 1
      apply dedup_congr_seen
      intro t
      simp only [List.mem_append, List.mem_cons]
      constructor
      · intro h; exact Or.inr h
      · rintro (rfl | h)
        · exact Or.inr hx
        · exact h
    · rw [if_neg hx, if_neg hx, ih]
      simp only [List.cons_append]
      congr 2
      apply dedup_congr_seen
      intro t
      simp only [List.mem_append, List.mem_cons]
      constructor
      · rintro (h | rfl | h)
        · exact Or.inr (Or.inl h)
        · exact Or.inl rfl
        · exact Or.inr (Or.inr h)
      · rintro (rfl | h | h)
        · exact Or.inr (Or.inl rfl)
        · exact Or.inl h
        · exact Or.inr (Or.inr h)

theorem dd_append (xs ys : List Ty) : dd (xs ++ ys) = dd xs ++ (dd ys).filter (fun t => !xs.contains t) := by
  show dedup (xs ++ ys) [] = dedup xs [] ++ (dd ys).filter _
  rw [dedup_append, dedup_eq_filter ys (xs ++ []), List.append_nil]

/-- `dd` of a concatenation depends only on the `dd`s of the pieces -/
theorem dd_append_congr {xs xs' ys ys' : List Ty} (hx : dd xs = dd xs') (hy : dd ys = dd ys') :
    dd (xs ++ ys) = dd (xs' ++ ys') := by
  rw [dd_append, dd_append, hx, hy]
  congr 1
  apply List.filter_congr
  intro t _
  have : t ∈ xs ↔ t ∈ xs' := by rw [← mem_dd xs, ← mem_dd xs', hx]
  have hb : xs.contains t = xs'.contains t := by
    rw [Bool.eq_iff_iff]; simp only [List.contains_iff_mem]; exact this
  rw [hb]

/-- alternatives that are already there do not count -/
theorem dd_absorb (xs m ys : List Ty) (h : ∀ t ∈ m, t ∈ xs) : dd (xs ++ m ++ ys) = dd (xs ++ ys) := by
  have h1 : dd (xs ++ m) = dd xs := by
    rw [dd_append]
    have : (dd m).filter (fun t => !xs.contains t) = [] := by
      apply List.filter_eq_nil_iff.mpr
      intro t ht
      have := h t ((mem_dd m t).mp ht)
      simp [this]
    rw [this]; simp
  exact dd_append_congr h1 rfl

theorem mkTy_congr {xs ys : List Ty} (n : Bool) (h : dd xs = dd ys) : mkTy xs n = mkTy ys n := by
  unfold mkTy
  unfold dd at h
  rw [h]

end Dcg.Proofs.Dedup
