import Dcg.Model.KeyValue
/-! Lemmas about `Dcg.Model.KeyValue`: cutting at the first separator, `lstrip`. -/
namespace Dcg.Proofs.KeyValue
open Dcg.Model.KeyValue

/-- a separator-free prefix followed by the separator is cut exactly there -/
theorem splitFirst_append (sep : Char) (name value : Str) (h : sep ∉ name) :
    splitFirst sep (name ++ sep :: value) = some (name, value) := by
  induction name with
  | nil => simp [splitFirst]
  | cons c cs ih =>
    have hc : c ≠ sep := by intro e; exact h (by simp [e])
    have hcs : sep ∉ cs := by intro e; exact h (by simp [e])
    simp [splitFirst, hc, ih hcs]

/-- whatever `splitFirst` returns is a decomposition of the text at a separator that the name
does not contain -/
theorem splitFirst_some (sep : Char) (s n v : Str) (h : splitFirst sep s = some (n, v)) :
    sep ∉ n ∧ s = n ++ sep :: v := by
  induction s generalizing n v with
  | nil => simp [splitFirst] at h
  | cons c cs ih =>
    unfold splitFirst at h
    split at h
    · rename_i hc
      cases h
      exact ⟨by simp, by simp [hc]⟩
    · rename_i hc
      cases hr : splitFirst sep cs with
      | none => simp [hr] at h
      | some p =>
        obtain ⟨n', v'⟩ := p
        simp [hr] at h
        obtain ⟨rfl, rfl⟩ := h
        obtain ⟨h1, h2⟩ := ih n' v' hr
        refine ⟨?_, by simp [h2]⟩
        intro hm
        rcases List.mem_cons.mp hm with e | e
        · exact hc e.symm
        · exact h1 e

theorem splitFirst_none_iff (sep : Char) (s : Str) : splitFirst sep s = none ↔ sep ∉ s := by
  induction s with
  | nil => simp [splitFirst]
  | cons c cs ih =>
    unfold splitFirst
    by_cases hc : c = sep
    · simp [hc]
    · have hc' : ¬ sep = c := fun e => hc e.symm
      simp [hc, hc', ih]

/-- blanks in front of the value are removed, and only those -/
theorem lstrip_pad (pad value : Str) (hp : ∀ c ∈ pad, isSpace c = true) :
    lstrip (pad ++ value) = lstrip value := by
  induction pad with
  | nil => rfl
  | cons c cs ih =>
    have h1 : isSpace c = true := hp c (by simp)
    have h2 : ∀ d ∈ cs, isSpace d = true := fun d hd => hp d (by simp [hd])
    simp only [lstrip, List.cons_append, List.dropWhile_cons, h1, if_true]
    exact ih h2

/-- a value that does not begin with a blank is left alone -/
theorem lstrip_id (value : Str) (h : ∀ c, value.head? = some c → isSpace c = false) :
    lstrip value = value := by
  cases value with
  | nil => rfl
  | cons c cs => simp [lstrip, h c rfl]

/-- `lstrip` never begins with a blank (so it is idempotent) -/
theorem lstrip_head (value : Str) : ∀ c, (lstrip value).head? = some c → isSpace c = false := by
  induction value with
  | nil => intro c h; simp [lstrip] at h
  | cons d ds ih =>
    intro c h
    by_cases hd : isSpace d = true
    · simp only [lstrip, List.dropWhile_cons, hd, if_true] at h
      exact ih c h
    · simp only [lstrip, List.dropWhile_cons, hd] at h
      simp at h
      subst h
      simpa using hd

end Dcg.Proofs.KeyValue
