import Dcg.Model.TemplateBlock
import Dcg.Proofs.TemplateAbs
/-
The block-shape analysis (`Model/TemplateBlock.blockAuto`) is sound: under the value invariants
`BlockHyp` each interpolation site moves the block automaton only as `bslot` says.
-/
namespace Dcg.Proofs.TemplateBlock
open Dcg.Model.TemplateSyntax Dcg.Model.Template Dcg.Model.TemplateAbs Dcg.Model.TemplateBlock
open Dcg.Proofs.TemplateAbs Dcg.Proofs.TemplateIndent

/-! ### value invariants -/

def NoBreak (v : List Char) : Prop := ∀ c ∈ v, isBreak c = false

/-- the value does not end the line of the rendered text -/
def NoNL (v : List Char) : Prop := ∀ c ∈ v, c ≠ '\n'

/-- the value is the keyword `class` or starts with `class ` -/
def startsClass (v : List Char) : Bool := v == classKw || (classKw ++ [' ']).isPrefixOf v

/-- shape of `… | indent(4)` output: every line after the first is empty or starts with 4 blanks.
`atStart` = we are at the beginning of a line that is not the first. -/
def docShape : Bool → List Char → Bool
  | _, [] => true
  | _, '\n' :: r => docShape true r
  | true, ' ' :: ' ' :: ' ' :: ' ' :: r => docShape false r
  | true, _ :: _ => false
  | false, _ :: r => docShape false r

structure WordHyp (header : Bool) (v : List Char) : Prop where
  noNL : NoNL v
  noLeadingBlank : v.head? ≠ some ' '
  notClass : startsClass v = false
  noHash : header = true → '#' ∉ v

/-- what is assumed of the value written at a site, by the reviewed class of the site:
identifiers, type hints, repr values, base lists, keys, decorators are ONE line (no `\n`) that does
not start with a blank and is not the keyword `class` (sites of class header lines contain no `#`);
comment text is one line; docstring text has the shape `indent(4)` produces. -/
def BlockHypCore (e : Expr) (v : List Char) : Prop :=
  match slotKind e with
  | .word h => WordHyp h v
  | .line => NoNL v
  | .doc => docShape false v = true
  | .none => True

/-- … and a value written inside a `{% filter indent(4) %}` block (`filterBlockSites`: the names and
values of the pydantic config) contains none of the line boundaries of `str.splitlines`.  (Other
values may: an enum value keeps a raw U+000B inside its quotes, which neither Python nor the block
shape minds.) -/
def BlockHyp (e : Expr) (v : List Char) : Prop :=
  BlockHypCore e v ∧ (boneLine e = true → NoBreak v)

theorem ne_nl_of_noBreak {c : Char} (h : isBreak c = false) : c ≠ '\n' := by
  intro e; subst e; simp [isBreak] at h

/-! ### runs of the automaton over one-line values -/

theorem brun_cons (b : BSt) (c : Char) (r : List Char) :
    blockAuto.run b (c :: r) = blockAuto.run (bstep b c) r := rfl

theorem brun_nil (b : BSt) : blockAuto.run b [] = b := rfl

/-- in the body of a line that is not a header, or behind a `#`, nothing is tracked -/
theorem run_body_idle : ∀ (v : List Char) (b : BSt), b.pos = .body → (b.hdr && !b.cmt) = false →
    (∀ c ∈ v, c ≠ '\n') → blockAuto.run b v = b := by
  intro v
  induction v with
  | nil => intro b _ _ _; rfl
  | cons c r ih =>
    intro b hp hh hv
    have hc : c ≠ '\n' := hv c List.mem_cons_self
    rw [brun_cons]
    have : bstep b c = b := by
      unfold bstep
      simp only [hc, if_false, hp, hh]
      split <;> rfl
    rw [this]
    exact ih b hp hh (fun d hd => hv d (List.mem_cons_of_mem _ hd))

/-- header line, no `#` yet, value without `#`: only the colon flag moves -/
theorem run_header_nohash : ∀ (v : List Char) (b : BSt), b.pos = .body → b.hdr = true → b.cmt = false →
    (∀ c ∈ v, c ≠ '\n') → '#' ∉ v → ∃ x, blockAuto.run b v = { b with colon := x } := by
  intro v
  induction v with
  | nil => intro b _ _ _ _ _; exact ⟨b.colon, rfl⟩
  | cons c r ih =>
    intro b hp hh hc hv hhash
    have hcn : c ≠ '\n' := hv c List.mem_cons_self
    have hch : c ≠ '#' := fun e => hhash (e ▸ List.mem_cons_self)
    rw [brun_cons]
    have hv' : ∀ d ∈ r, d ≠ '\n' := fun d hd => hv d (List.mem_cons_of_mem _ hd)
    have hhash' : '#' ∉ r := fun h => hhash (List.mem_cons_of_mem _ h)
    by_cases hsp : c = ' '
    · have : bstep b c = b := by
        unfold bstep; simp [hcn, hsp, hp]
      rw [this]; exact ih b hp hh hc hv' hhash'
    · have : bstep b c = { b with colon := c == ':' } := by
        unfold bstep; simp [hcn, hsp, hp, hh, hc, hch]
      rw [this]
      obtain ⟨x, hx⟩ := ih { b with colon := c == ':' } hp hh hc hv' hhash'
      exact ⟨x, hx⟩

/-- header line, arbitrary one-line value: the colon and comment flags move -/
theorem run_header_any : ∀ (v : List Char) (b : BSt), b.pos = .body → b.hdr = true →
    (∀ c ∈ v, c ≠ '\n') → ∃ x y, blockAuto.run b v = { b with colon := x, cmt := y } := by
  intro v
  induction v with
  | nil => intro b _ _ _; exact ⟨b.colon, b.cmt, rfl⟩
  | cons c r ih =>
    intro b hp hh hv
    have hcn : c ≠ '\n' := hv c List.mem_cons_self
    have hv' : ∀ d ∈ r, d ≠ '\n' := fun d hd => hv d (List.mem_cons_of_mem _ hd)
    rw [brun_cons]
    have : ∃ x y, bstep b c = { b with colon := x, cmt := y } := by
      obtain ⟨ind, pos, hdr, colon, cmt, phase, bad⟩ := b
      simp only at hp hh
      subst hp hh
      unfold bstep
      simp only [hcn, if_false, Bool.true_and]
      by_cases hsp : c = ' '
      · simp only [hsp, if_true]; exact ⟨colon, cmt, rfl⟩
      · simp only [hsp, if_false]
        cases cmt
        · simp only [Bool.not_false, if_true]
          by_cases hch : c = '#'
          · simp only [hch, if_true]; exact ⟨colon, true, rfl⟩
          · simp only [hch, if_false]; exact ⟨c == ':', false, rfl⟩
        · simp only [Bool.not_true, Bool.false_eq_true, if_false]; exact ⟨colon, true, rfl⟩
    obtain ⟨x, y, hxy⟩ := this
    rw [hxy]
    obtain ⟨x', y', h'⟩ := ih { b with colon := x, cmt := y } hp hh hv'
    exact ⟨x', y', h'⟩

/-! ### a word at the start of a line: the keyword matcher -/

def kwOK (k : Nat) (r : List Char) : Prop :=
  r ≠ classKw.drop k ∧ (classKw.drop k ++ [' ']).isPrefixOf r = false

theorem kwOK_step {k : Nat} {c : Char} {r : List Char} (hk : classKw[k]? = some c)
    (h : kwOK k (c :: r)) : kwOK (k + 1) r := by
  have hlt : k < classKw.length := by
    rcases Nat.lt_or_ge k classKw.length with h | h
    · exact h
    · rw [List.getElem?_eq_none h] at hk; cases hk
  have hget : classKw[k] = c := by
    rw [List.getElem?_eq_getElem hlt] at hk; exact Option.some.inj hk
  have hd : classKw.drop k = c :: classKw.drop (k + 1) := by
    rw [List.drop_eq_getElem_cons hlt, hget]
  obtain ⟨h1, h2⟩ := h
  rw [hd] at h1 h2
  constructor
  · intro e; apply h1; rw [e]
  · simpa using h2

theorem run_kw (b1 : BSt) (hh : b1.hdr = false) :
    ∀ (r : List Char) (k : Nat), 1 ≤ k → k ≤ 5 → (∀ c ∈ r, c ≠ '\n') → kwOK k r →
      (∃ j, 1 ≤ j ∧ j ≤ 4 ∧ blockAuto.run { b1 with pos := .kw k } r = { b1 with pos := .kw j }) ∨
      blockAuto.run { b1 with pos := .kw k } r = { b1 with pos := .body } := by
  intro r
  induction r with
  | nil =>
    intro k h1 h5 _ hok
    left
    refine ⟨k, h1, ?_, rfl⟩
    rcases Nat.lt_or_ge k 5 with h | h
    · omega
    · have : k = 5 := by omega
      subst this
      exact absurd rfl hok.1
  | cons c r ih =>
    intro k h1 h5 hv hok
    have hcn : c ≠ '\n' := hv c List.mem_cons_self
    have hv' : ∀ d ∈ r, d ≠ '\n' := fun d hd => hv d (List.mem_cons_of_mem _ hd)
    rw [brun_cons]
    have hidle : blockAuto.run { b1 with pos := .body } r = { b1 with pos := .body } :=
      run_body_idle r _ rfl (by simp [hh]) hv'
    by_cases hsp : c = ' '
    · subst hsp
      by_cases hk5 : k = 5
      · subst hk5
        exfalso
        have := hok.2
        simp [classKw] at this
      · right
        have : bstep { b1 with pos := .kw k } ' ' = { b1 with pos := .body } := by
          unfold bstep; simp [hk5]
        rw [this]; exact hidle
    · by_cases hm : classKw[k]? = some c
      · have : bstep { b1 with pos := .kw k } c = { b1 with pos := .kw (k + 1) } := by
          unfold bstep; simp [hcn, hsp, hm]
        rw [this]
        have hk4 : k + 1 ≤ 5 := by
          rcases Nat.lt_or_ge k 5 with h | h
          · omega
          · rw [List.getElem?_eq_none (by simpa [classKw] using h)] at hm; cases hm
        exact ih (k + 1) (by omega) hk4 hv' (kwOK_step hm hok)
      · right
        have : bstep { b1 with pos := .kw k } c = { b1 with pos := .body } := by
          unfold bstep; simp [hcn, hsp, hm]
        rw [this]; exact hidle

theorem startContent_x (b : BSt) : (b.startContent 'x').pos = .body := by
  simp [BSt.startContent]

theorem run_word_lead (b : BSt) (hp : b.pos = .lead) (hh : b.hdr = false) {h : Bool} (v : List Char)
    (hw : WordHyp h v) : blockAuto.run b v ∈ wordAtLead b := by
  cases v with
  | nil =>
    rw [brun_nil]; unfold wordAtLead; split <;> exact List.mem_cons_self
  | cons c r =>
    have hcn : c ≠ '\n' := hw.noNL c List.mem_cons_self
    have hsp : c ≠ ' ' := by
      intro e; apply hw.noLeadingBlank; simp [e]
    have hv' : ∀ d ∈ r, d ≠ '\n' := fun d hd => hw.noNL d (List.mem_cons_of_mem _ hd)
    rw [brun_cons]
    have hstep : bstep b c = b.startContent c := by
      unfold bstep; simp [hcn, hsp, hp]
    rw [hstep]
    have hb1 : (b.startContent 'x').hdr = false := by simp [BSt.startContent, hh]
    by_cases hkw : (b.ind == 0 && c == 'c') = true
    · have hc : c = 'c' := by simp at hkw; exact hkw.2
      have hi : (b.ind == 0) = true := by simp at hkw; simp [hkw.1]
      subst hc
      have e1 : b.startContent 'c' = { b.startContent 'x' with pos := .kw 1 } := by
        simp [BSt.startContent, hi]
      rw [e1]
      have hok : kwOK 1 r := by
        have := hw.notClass
        simp only [startsClass, Bool.or_eq_false_iff] at this
        constructor
        · intro e; subst e; simp [classKw] at this
        · have h2 := this.2
          simp only [classKw, List.cons_append, List.nil_append, List.isPrefixOf_cons₂, beq_self_eq_true, Bool.true_and] at h2
          simpa [classKw] using h2
      rcases run_kw (b.startContent 'x') hb1 r 1 (by omega) (by omega) hv' hok with ⟨j, hj1, hj4, hj⟩ | hbody
      · rw [hj]
        unfold wordAtLead
        simp only [hi, if_true]
        have : j = 1 ∨ j = 2 ∨ j = 3 ∨ j = 4 := by omega
        rcases this with rfl | rfl | rfl | rfl
        · exact List.mem_cons_of_mem _ (List.mem_cons_of_mem _ List.mem_cons_self)
        · exact List.mem_cons_of_mem _ (List.mem_cons_of_mem _ (List.mem_cons_of_mem _ List.mem_cons_self))
        · exact List.mem_cons_of_mem _ (List.mem_cons_of_mem _ (List.mem_cons_of_mem _ (List.mem_cons_of_mem _ List.mem_cons_self)))
        · exact List.mem_cons_of_mem _ (List.mem_cons_of_mem _ (List.mem_cons_of_mem _ (List.mem_cons_of_mem _ (List.mem_cons_of_mem _ List.mem_cons_self))))
      · rw [hbody]
        have : { b.startContent 'x' with pos := Pos.body } = b.startContent 'x' := by
          simp [BSt.startContent]
        rw [this]
        unfold wordAtLead; split <;> exact List.mem_cons_of_mem _ List.mem_cons_self
    · have e1 : b.startContent c = b.startContent 'x' := by
        simp only [BSt.startContent]
        simp only [Bool.not_eq_true] at hkw
        simp [hkw]
      rw [e1, run_body_idle r _ (startContent_x b) (by simp [hb1]) hv']
      unfold wordAtLead; split <;> exact List.mem_cons_of_mem _ List.mem_cons_self

/-! ### docstring text behind the 4 blanks the template writes -/

def advPhase (p : Phase) : Phase := if p == .first then .inBody else p

/-- states inside a line of the docstring text -/
def InLine (ph : Phase) (bad : Bool) (s : BSt) : Prop :=
  s = ⟨4, .lead, false, false, false, ph, bad⟩ ∨ s = ⟨4, .lead, false, false, false, advPhase ph, bad⟩ ∨
  s = ⟨4, .body, false, false, false, advPhase ph, bad⟩

/-- states at the start of a later line -/
def AtStart (ph : Phase) (bad : Bool) (s : BSt) : Prop :=
  s = ⟨0, .lead, false, false, false, ph, bad⟩ ∨ s = ⟨0, .lead, false, false, false, advPhase ph, bad⟩

theorem inLine_nl {ph bad s} (h : InLine ph bad s) : AtStart ph bad (bstep s '\n') := by
  rcases h with rfl | rfl | rfl
  · left; simp [bstep]
  · right; simp [bstep]
  · right; simp [bstep]

theorem atStart_nl {ph bad s} (h : AtStart ph bad s) : AtStart ph bad (bstep s '\n') := by
  rcases h with rfl | rfl
  · left; simp [bstep]
  · right; simp [bstep]

theorem atStart_blanks {ph bad s} (h : AtStart ph bad s) :
    InLine ph bad (bstep (bstep (bstep (bstep s ' ') ' ') ' ') ' ') := by
  rcases h with rfl | rfl
  · left; simp [bstep]
  · right; left; simp [bstep]

theorem inLine_char {ph bad s} {c : Char} (h : InLine ph bad s) (hc : c ≠ '\n') :
    InLine ph bad (bstep s c) := by
  by_cases hsp : c = ' '
  · subst hsp
    rcases h with rfl | rfl | rfl
    · left; simp [bstep]
    · right; left; simp [bstep]
    · right; right; simp [bstep]
  · rcases h with rfl | rfl | rfl
    · right; right
      cases ph <;> simp [bstep, hc, hsp, BSt.startContent, advPhase]
    · right; right
      cases ph <;> simp [bstep, hc, hsp, BSt.startContent, advPhase]
    · right; right; simp [bstep, hc, hsp]

theorem run_doc (ph : Phase) (bad : Bool) : ∀ (atStart : Bool) (v : List Char), docShape atStart v = true →
    ∀ s, (if atStart then AtStart ph bad s else InLine ph bad s) →
      (AtStart ph bad (blockAuto.run s v) ∨ InLine ph bad (blockAuto.run s v)) := by
  intro atStart v
  fun_induction docShape atStart v with
  | case1 a =>
    intro _ s hs
    rw [brun_nil]
    cases a
    · exact Or.inr hs
    · exact Or.inl hs
  | case2 a r ih =>
    intro hd s hs
    rw [brun_cons]
    apply ih hd
    simp only [if_true]
    cases a
    · exact inLine_nl hs
    · exact atStart_nl hs
  | case3 r ih =>
    intro hd s hs
    rw [brun_cons, brun_cons, brun_cons, brun_cons]
    apply ih hd
    exact atStart_blanks hs
  | case4 c r h1 h2 =>
    intro hd; cases hd
  | case5 c r h1 ih =>
    intro hd s hs
    rw [brun_cons]
    apply ih hd
    have hc : c ≠ '\n' := by
      intro e; subst e; exact h1 rfl
    exact inLine_char hs hc

/-! ### the analysis is sound -/

theorem six_mem (b : BSt) (hc : b.cmt = false) (x y : Bool) :
    ({ b with colon := x, cmt := y } : BSt) ∈
      [b, { b with colon := true }, { b with colon := false },
       { b with cmt := true }, { b with cmt := true, colon := true }, { b with cmt := true, colon := false }] := by
  obtain ⟨ind, pos, hdr, colon, cmt, phase, bad⟩ := b
  simp only at hc
  subst hc
  cases x <;> cases y <;> simp

theorem three_mem (b : BSt) (x : Bool) :
    ({ b with colon := x } : BSt) ∈ [b, { b with colon := true }, { b with colon := false }] := by
  cases x <;> simp

theorem mem_at {α} (a : α) : ∀ (l : List α) (i : Nat), l[i]? = some a → a ∈ l := by
  intro l i h
  exact List.mem_of_getElem? h

theorem bslot_sound (e : Expr) (b : BSt) (qs : List BSt) (v : List Char)
    (hv : BlockHyp e v) (hs : bslot e b = some qs) : blockAuto.run b v ∈ qs := by
  replace hv := hv.1
  unfold BlockHypCore at hv
  unfold bslot at hs
  obtain ⟨ind, pos, hdr, colon, cmt, phase, bad⟩ := b
  cases hk : slotKind e with
  | none => simp [hk] at hs
  | word h =>
    rw [hk] at hv hs
    have hnl : ∀ c ∈ v, c ≠ '\n' := hv.noNL
    cases pos with
    | kw k => cases hs
    | lead =>
      dsimp only at hs
      split at hs
      · cases hs
      · rename_i hh
        cases hs
        exact run_word_lead _ rfl (by simpa using hh) v hv
    | body =>
      dsimp only at hs
      split at hs
      · rename_i hc
        cases hs
        rw [run_body_idle v _ rfl (by cases hdr <;> cases cmt <;> simp_all) hnl]
        exact List.mem_cons_self
      · rename_i hc
        have hh : hdr = true := by cases hdr <;> simp_all
        have hm : cmt = false := by cases cmt <;> simp_all
        subst hh hm
        split at hs
        · rename_i hhd
          cases hs
          obtain ⟨x, hx⟩ := run_header_nohash v ⟨ind, .body, true, colon, false, phase, bad⟩ rfl rfl rfl hnl (hv.noHash hhd)
          rw [hx]
          exact three_mem _ x
        · cases hs
          obtain ⟨x, y, hxy⟩ := run_header_any v ⟨ind, .body, true, colon, false, phase, bad⟩ rfl rfl hnl
          rw [hxy]
          exact six_mem _ rfl x y
  | line =>
    rw [hk] at hv hs
    have hnl : ∀ c ∈ v, c ≠ '\n' := hv
    cases pos with
    | kw k => cases hs
    | lead => cases hs
    | body =>
      dsimp only at hs
      split at hs
      · rename_i hc
        cases hs
        rw [run_body_idle v _ rfl (by cases hdr <;> cases cmt <;> simp_all) hnl]
        exact List.mem_cons_self
      · rename_i hc
        have hh : hdr = true := by cases hdr <;> simp_all
        have hm : cmt = false := by cases cmt <;> simp_all
        subst hh hm
        cases hs
        obtain ⟨x, y, hxy⟩ := run_header_any v ⟨ind, .body, true, colon, false, phase, bad⟩ rfl rfl hnl
        rw [hxy]
        exact six_mem _ rfl x y
  | doc =>
    rw [hk] at hv hs
    cases pos with
    | kw k => cases hs
    | body => cases hs
    | lead =>
      dsimp only at hs
      split at hs
      · rename_i hc
        cases hs
        simp only [Bool.and_eq_true, beq_iff_eq, Bool.not_eq_true'] at hc
        obtain ⟨⟨⟨hi, hh⟩, hcol⟩, hcm⟩ := hc
        subst hi hh hcol hcm
        have := run_doc phase bad false v hv ⟨4, .lead, false, false, false, phase, bad⟩ (Or.inl rfl)
        rcases this with (h | h) | (h | h | h)
        · rw [h]; exact mem_at _ _ 2 rfl
        · rw [h]; exact mem_at _ _ 3 rfl
        · rw [h]; exact mem_at _ _ 0 rfl
        · rw [h]; exact mem_at _ _ 4 rfl
        · rw [h]; exact mem_at _ _ 1 rfl
      · cases hs

theorem boneLine_sound (e : Expr) (v : List Char) (h1 : boneLine e = true) (hv : BlockHyp e v) :
    ∀ c ∈ v, isBreak c = false := hv.2 h1

/-- the block-shape analysis with its value invariants -/
def blockSound : Sound blockAuto where
  Hyp := BlockHyp
  slot_sound := fun e q qs v hv hs => bslot_sound e q qs v hv hs
  oneLine_sound := boneLine_sound

/-! ### docstring sites need no hypothesis: `indent(4)` always produces the docstring shape -/

theorem splitlines_noNL : ∀ (s : List Char), ∀ l ∈ splitlines s, ∀ c ∈ l, c ≠ '\n' := by
  intro s
  fun_induction splitlines s with
  | case1 => intro l hl; cases hl
  | case2 r ih =>
    intro l hl
    rcases List.mem_cons.mp hl with rfl | h
    · intro c hc; cases hc
    · exact ih l h
  | case3 c r hne hb ih =>
    intro l hl
    rcases List.mem_cons.mp hl with rfl | h
    · intro c hc; cases hc
    · exact ih l h
  | case4 c r hne hb hs ih =>
    intro l hl
    have : l = [c] := by simpa using hl
    subst this
    intro d hd
    have : d = c := by simpa using hd
    subst this
    intro e; subst e; simp [isBreak] at hb
  | case5 c r hne hb l0 ls hs ih =>
    intro l hl
    rcases List.mem_cons.mp hl with rfl | h
    · intro d hd
      rcases List.mem_cons.mp hd with rfl | hd'
      · intro e; subst e; simp [isBreak] at hb
      · exact ih l0 (by rw [hs]; exact List.mem_cons_self) d hd'
    · exact ih l (by rw [hs]; exact List.mem_cons_of_mem _ h)

theorem docShape_nl (a : Bool) (r : List Char) : docShape a ('\n' :: r) = docShape true r := by
  cases a <;> simp [docShape]

theorem docShape_false_cons {c : Char} (r : List Char) (hc : c ≠ '\n') :
    docShape false (c :: r) = docShape false r := by
  rw [docShape]
  intro h; exact absurd h hc

theorem docShape_false_line : ∀ (l s : List Char), (∀ c ∈ l, c ≠ '\n') →
    docShape false (l ++ s) = docShape false s := by
  intro l
  induction l with
  | nil => intro s _; rfl
  | cons c r ih =>
    intro s h
    show docShape false (c :: (r ++ s)) = _
    rw [docShape_false_cons _ (h c List.mem_cons_self)]
    exact ih s (fun d hd => h d (List.mem_cons_of_mem _ hd))

theorem docShape_false_plain (l : List Char) (h : ∀ c ∈ l, c ≠ '\n') : docShape false l = true := by
  have := docShape_false_line l [] h
  simpa [docShape] using this

theorem docShape_true_ind (l s : List Char) (h : ∀ c ∈ l, c ≠ '\n') :
    docShape true (ind 4 l ++ '\n' :: s) = docShape true s := by
  unfold ind
  cases l with
  | nil => simp [docShape]
  | cons c r =>
    simp only [List.isEmpty_cons, Bool.false_eq_true, if_false]
    show docShape true (' ' :: ' ' :: ' ' :: ' ' :: ((c :: r) ++ '\n' :: s)) = _
    rw [docShape]
    rw [docShape_false_line (c :: r) _ h, docShape_nl]

theorem docShape_true_ind_last (l : List Char) (h : ∀ c ∈ l, c ≠ '\n') : docShape true (ind 4 l) = true := by
  unfold ind
  cases l with
  | nil => simp [docShape]
  | cons c r =>
    simp only [List.isEmpty_cons, Bool.false_eq_true, if_false]
    show docShape true (' ' :: ' ' :: ' ' :: ' ' :: (c :: r)) = _
    rw [docShape]
    exact docShape_false_plain _ h

theorem docShape_joinNL : ∀ (ls : List (List Char)), (∀ l ∈ ls, ∀ c ∈ l, c ≠ '\n') →
    docShape true (joinNL (ls.map (ind 4))) = true := by
  intro ls
  induction ls with
  | nil => intro _; simp [joinNL, docShape]
  | cons l r ih =>
    intro h
    cases r with
    | nil => simpa [joinNL] using docShape_true_ind_last l (h l List.mem_cons_self)
    | cons l2 r2 =>
      simp only [List.map_cons, joinNL_cons2]
      rw [docShape_true_ind _ _ (h l List.mem_cons_self)]
      exact ih (fun x hx => h x (List.mem_cons_of_mem _ hx))

/-- whatever the text, `indent(4)` leaves every later line empty or indented by 4 blanks -/
theorem docShape_indentStr (x : List Char) : docShape false (indentStr 4 x) = true := by
  rw [indentStr_eq]
  have hnl := splitlines_noNL (x ++ ['\n'])
  cases hL : splitlines (x ++ ['\n']) with
  | nil => simp [fin, docShape]
  | cons first rest =>
    rw [hL] at hnl
    simp only [fin]
    split
    · exact docShape_false_plain _ (hnl first List.mem_cons_self)
    · rw [docShape_false_line _ _ (hnl first List.mem_cons_self), docShape_nl]
      exact docShape_joinNL rest (fun l hl => hnl l (List.mem_cons_of_mem _ hl))

end Dcg.Proofs.TemplateBlock
