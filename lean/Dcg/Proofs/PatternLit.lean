import Dcg.Py.Lex
import Dcg.Py.Repr
import Dcg.Proofs.Repr
import Dcg.Proofs.Escape
import Dcg.Py.Chars
import Dcg.Gen.Printable
/-
`model/pydantic/types.py pattern_literal` as a FUNCTION TO TEXT (C10 models the choice of the
branch, `patternRawOK`; C01 needs the text that is written into `constr(regex=…)` /
`constr(pattern=…)` because that text is part of the module that has to parse), a reader for one
string-literal token with an optional `r` prefix, and the facts about raw literals behind the
family "a raw literal is written with a delimiter that the pattern itself contains".
Core Lean only (the driver links this file).
-/
namespace Dcg.Proofs.PatternLit
open Dcg.Py.Lex Dcg.Py.Repr Dcg.Proofs.Repr Dcg.Proofs.Escape

/-- the source text `pattern_literal(p)` returns: `r'` p `'` when `p` has no single quote, no
dangling backslash and only printable characters (`pr` = `str.isprintable` of one character, the
same parameter `repr` takes), else `repr(p)`.
Compared character by character with the real function by the campaign `patlit.text`. -/
def patternLiteral (pr : Char → Bool) (p : List Char) : List Char :=
  if patternRawOK pr p then 'r' :: '\'' :: p ++ ['\''] else reprStr pr p

/-- ONE string-literal token at the head of the text, as the tokenizer reads it where an expression
is expected: an optional `r` prefix, then a short literal in either quote (cooked: also the
triple-quoted form). `none` = the text does not start with a complete literal. -/
def strToken : List Char → Option (List Char × List Char)
  | 'r' :: q :: l => if q = '\'' ∨ q = '"' then litRaw q (q :: l) else none
  | q :: l => if q = '\'' ∨ q = '"' then lit q (q :: l) else none
  | [] => none

/-- a unit of a raw literal whose value has no backslash is the one plain character at the head -/
theorem unitRaw_plain {l cs r : List Char} (h : unitRaw l = some (cs, r)) (hb : '\\' ∉ cs) :
    ∃ c, cs = [c] ∧ l.head? = some c := by
  cases l with
  | nil => simp [unitRaw] at h
  | cons c t =>
    by_cases h0 : c = '\n' ∨ c = '\r' ∨ c = Char.ofNat 0
    · simp [unitRaw, h0] at h
    · by_cases h1 : c = '\\'
      · exfalso
        subst h1
        cases t with
        | nil => simp [unitRaw] at h
        | cons e t' =>
          by_cases h2 : e = Char.ofNat 0
          · simp [unitRaw, h2] at h
          · by_cases h3 : e = '\r'
            · subst h3
              simp only [unitRaw, if_neg h0, if_true, if_neg h2] at h
              split at h <;>
              · simp only [Option.some.injEq, Prod.mk.injEq] at h
                rw [← h.1] at hb; simp at hb
            · simp only [unitRaw, if_neg h0, if_true, if_neg h2, if_neg h3, Option.some.injEq,
                Prod.mk.injEq] at h
              rw [← h.1] at hb; simp at hb
      · simp only [unitRaw, if_neg h0, if_neg h1, Option.some.injEq, Prod.mk.injEq] at h
        exact ⟨c, h.1.symm, rfl⟩

/-- the decoded value of a raw literal WITHOUT a backslash never contains the delimiter: whatever
the scanner returns, it stopped at the first delimiter it met -/
theorem scanRaw_value_no_delim (q : Char) :
    ∀ (l s r : List Char), scanRaw q l = some (s, r) → '\\' ∉ s → q ∉ s := by
  intro l
  induction l using scanRaw.induct q with
  | case1 l h =>
    intro s r hs _
    rw [scanRaw, if_pos h] at hs
    simp only [Option.some.injEq, Prod.mk.injEq] at hs
    rw [← hs.1]; simp
  | case2 l h hu =>
    intro s r hs _
    rw [scanRaw, if_neg h] at hs
    split at hs
    · cases hs
    · rename_i cs r' hu'; rw [hu] at hu'; cases hu'
  | case3 l h cs r' hu _ ih =>
    intro s r hs hb
    rw [scanRaw, if_neg h] at hs
    split at hs
    · cases hs
    · rename_i cs2 r2 hu2
      rw [hu] at hu2
      simp only [Option.some.injEq, Prod.mk.injEq] at hu2
      obtain ⟨rfl, rfl⟩ := hu2
      cases hrec : scanRaw q r' with
      | none => rw [hrec] at hs; cases hs
      | some p =>
        rw [hrec] at hs
        simp only [Option.map_some, Option.some.injEq, Prod.mk.injEq] at hs
        obtain ⟨rfl, rfl⟩ := hs
        have hb2 : '\\' ∉ p.1 := fun hm => hb (List.mem_append_right _ hm)
        have hb1 : '\\' ∉ cs := fun hm => hb (List.mem_append_left _ hm)
        have h2 := ih p.1 p.2 (by rw [hrec]) hb2
        intro hm
        rcases List.mem_append.mp hm with hm | hm
        · obtain ⟨c, rfl, hc⟩ := unitRaw_plain hu hb1
          simp only [List.mem_singleton] at hm
          subst hm
          exact h hc
        · exact h2 hm

/-- **A raw literal cannot hold its own delimiter.** For EITHER quote `q`, every pattern without a
backslash that contains `q`, and every continuation: `r q p q` is NOT read back as `p` (the
literal ends early or not at all). This is why `pattern_literal` may choose the raw form only
when the delimiter does not occur — whichever delimiter it writes. -/
theorem raw_literal_with_own_delimiter_inexact (q : Char) (p rest : List Char)
    (hq : q ∈ p) (hb : '\\' ∉ p) :
    litRaw q (q :: p ++ [q] ++ rest) ≠ some (p, rest) := by
  intro h
  have hs : scanRaw q (p ++ [q] ++ rest) = some (p, rest) := by
    simp only [List.cons_append, litRaw, ne_eq, not_true_eq_false, if_false] at h
    split at h
    · split at h
      · cases h
      · exact h
    · exact h
  exact scanRaw_value_no_delim q _ _ _ hs hb hq

/-- a pattern that holds BOTH quote characters and no backslash has no exact raw short literal at
all: neither `r'…'` nor `r"…"` -/
theorem both_quotes_no_raw_literal (p rest : List Char) (h1 : '\'' ∈ p) (h2 : '"' ∈ p)
    (hb : '\\' ∉ p) (q : Char) (hq : q = '\'' ∨ q = '"') :
    litRaw q (q :: p ++ [q] ++ rest) ≠ some (p, rest) := by
  rcases hq with rfl | rfl
  · exact raw_literal_with_own_delimiter_inexact _ p rest h1 hb
  · exact raw_literal_with_own_delimiter_inexact _ p rest h2 hb

/-- `repr` picks the single quote for a string that holds a double quote -/
theorem reprQuote_both (p : List Char) (h2 : '"' ∈ p) : reprQuote p = '\'' := by
  unfold reprQuote
  have : p.contains '"' = true := List.contains_iff_mem.mpr h2
  rw [this]; simp

/-- the written literal is one token that evaluates to the pattern, both branches -/
theorem strToken_patternLiteral (pr : Char → Bool) (hpr : printableOK pr = true) (p rest : List Char)
    (h1 : rest.head? ≠ some '\'') (h2 : rest.head? ≠ some '"') :
    strToken (patternLiteral pr p ++ rest) = some (p, rest) := by
  unfold patternLiteral
  split
  · rename_i h
    have := litRaw_plain (q := '\'') (t := []) (by decide) p rest (rawSafe_of_patternRawOK hpr p h) h1
    simp only [List.cons_append, strToken, true_or, if_true]
    simpa using this
  · have hr := repr_roundtrip pr p rest (by
      rcases reprQuote_cases p with h | h <;> rw [h] <;> assumption)
    rcases reprQuote_cases p with h | h
    · rw [h] at hr
      have hne : Dcg.Py.Repr.reprStr pr p = '\'' :: (p.flatMap (reprChar pr '\'') ++ ['\'']) := by
        simp [Dcg.Py.Repr.reprStr, h]
      rw [hne] at hr ⊢
      simpa [strToken] using hr
    · rw [h] at hr
      have hne : Dcg.Py.Repr.reprStr pr p = '"' :: (p.flatMap (reprChar pr '"') ++ ['"']) := by
        simp [Dcg.Py.Repr.reprStr, h]
      rw [hne] at hr ⊢
      simpa [strToken] using hr

/-! ### Line boundaries -/

/-- the characters at which Python's `str.splitlines` splits (Objects/unicodeobject.c
`_PyUnicode_IsLinebreak`: LF, VT, FF, CR, FS, GS, RS, NEL, LINE SEPARATOR, PARAGRAPH SEPARATOR) —
isort and black cut the module into lines there -/
def lineBoundaries : List Char :=
  [10, 11, 12, 13, 28, 29, 30, 0x85, 0x2028, 0x2029].map Char.ofNat

/-- `pr` calls no line boundary printable (decidable for a concrete `pr`) -/
def noBoundaryPrintable (pr : Char → Bool) : Bool := lineBoundaries.all (fun b => !pr b)

theorem not_boundary_of_printable {pr : Char → Bool} (hpr : noBoundaryPrintable pr = true) {c : Char}
    (h : pr c = true) : c ∉ lineBoundaries := by
  intro hm
  simp only [noBoundaryPrintable, List.all_eq_true, Bool.not_eq_true'] at hpr
  have := hpr c hm
  rw [h] at this; cases this

/-- every character of a raw-branch literal is `r`, the quote, or a printable character of the pattern -/
theorem mem_patternLiteral_raw {pr : Char → Bool} {p : List Char} (h : patternRawOK pr p = true)
    {c : Char} (hc : c ∈ patternLiteral pr p) : c = 'r' ∨ c = '\'' ∨ pr c = true := by
  unfold patternLiteral at hc
  rw [if_pos h] at hc
  simp only [patternRawOK, Bool.and_eq_true, List.all_eq_true] at h
  simp only [List.mem_cons, List.mem_append, List.not_mem_nil, or_false] at hc
  rcases hc with (rfl | rfl | hc) | rfl
  · exact Or.inl rfl
  · exact Or.inr (Or.inl rfl)
  · exact Or.inr (Or.inr (h.2 c hc))
  · exact Or.inr (Or.inl rfl)

/-- hex digits are `0-9a-f` -/
theorem hexK_not_boundary (k n : Nat) : ∀ c ∈ hexK k n, c ∉ lineBoundaries := by
  intro c hc
  simp only [hexK, List.mem_map] at hc
  obtain ⟨d, hd, rfl⟩ := hc
  have hlt : d < 16 := by
    induction k generalizing n with
    | zero => simp [hexDigits] at hd
    | succ k ih =>
      simp only [hexDigits, List.mem_append, List.mem_singleton] at hd
      rcases hd with hd | rfl
      · exact ih _ hd
      · omega
  have : ∀ d, d < 16 → hexDigit d ∉ lineBoundaries := by decide
  exact this d hlt

/-- what `repr` writes for one character holds no line boundary when `pr` calls none printable -/
theorem reprChar_not_boundary {pr : Char → Bool} (hpr : noBoundaryPrintable pr = true) (q : Char)
    (hq : q ∉ lineBoundaries) (c : Char) : ∀ x ∈ reprChar pr q c, x ∉ lineBoundaries := by
  intro x hx
  unfold reprChar at hx
  have hbs : ('\\' : Char) ∉ lineBoundaries := by decide
  have hxx : ('x' : Char) ∉ lineBoundaries := by decide
  split at hx
  · rename_i h
    simp only [List.mem_cons, List.not_mem_nil, or_false] at hx
    rcases hx with rfl | rfl
    · exact hbs
    · rcases h with rfl | rfl
      · exact hq
      · exact hbs
  · split at hx
    · simp only [List.mem_cons, List.not_mem_nil, or_false] at hx
      rcases hx with rfl | rfl <;> decide
    · split at hx
      · simp only [List.mem_cons, List.not_mem_nil, or_false] at hx
        rcases hx with rfl | rfl <;> decide
      · split at hx
        · simp only [List.mem_cons, List.not_mem_nil, or_false] at hx
          rcases hx with rfl | rfl <;> decide
        · split at hx
          · simp only [List.mem_cons] at hx
            rcases hx with rfl | rfl | hx
            · exact hbs
            · exact hxx
            · exact hexK_not_boundary _ _ x hx
          · rename_i hctl
            split at hx
            · rename_i hlt
              simp only [List.mem_singleton] at hx
              subst hx
              intro hm
              simp only [lineBoundaries, List.map_cons, List.map_nil, List.mem_cons,
                List.not_mem_nil, or_false] at hm
              rcases hm with rfl | rfl | rfl | rfl | rfl | rfl | rfl | rfl | rfl | rfl <;>
                simp_all (config := { decide := true })
            · split at hx
              · rename_i hp
                simp only [List.mem_singleton] at hx
                subst hx
                exact not_boundary_of_printable hpr hp
              · split at hx
                · simp only [List.mem_cons] at hx
                  rcases hx with rfl | rfl | hx
                  · exact hbs
                  · exact hxx
                  · exact hexK_not_boundary _ _ x hx
                · split at hx
                  · simp only [List.mem_cons] at hx
                    rcases hx with rfl | rfl | hx
                    · exact hbs
                    · decide
                    · exact hexK_not_boundary _ _ x hx
                  · simp only [List.mem_cons] at hx
                    rcases hx with rfl | rfl | hx
                    · exact hbs
                    · decide
                    · exact hexK_not_boundary _ _ x hx

/-- **No line boundary in the written literal, either branch.** -/
theorem patternLiteral_no_line_boundary {pr : Char → Bool} (hpr : noBoundaryPrintable pr = true)
    (p : List Char) : ∀ c ∈ patternLiteral pr p, c ∉ lineBoundaries := by
  intro c hc
  by_cases h : patternRawOK pr p = true
  · rcases mem_patternLiteral_raw h hc with rfl | rfl | hp
    · decide
    · decide
    · exact not_boundary_of_printable hpr hp
  · unfold patternLiteral at hc
    rw [if_neg h] at hc
    have hq : reprQuote p ∉ lineBoundaries := by
      rcases reprQuote_cases p with h | h <;> rw [h] <;> decide
    simp only [Dcg.Py.Repr.reprStr, List.mem_cons, List.mem_append, List.mem_flatMap,
      List.not_mem_nil, or_false] at hc
    rcases hc with (rfl | ⟨a, _, hx⟩) | rfl
    · exact hq
    · exact reprChar_not_boundary hpr _ hq a c hx
    · exact hq

/-! ### CPython's `str.isprintable` (generated table) -/

/-- `c.isprintable()` of the running CPython: the complement of `Gen/Printable.nonPrintable`
(regenerated from the interpreter on every run by `vlib/translate/printable.py`; the driver handler
`patlit.cpython` uses it, so the campaign `patlit.text` compares table AND rule with the real function) -/
def cpythonPrintable (c : Char) : Bool := !Dcg.Py.Chars.inRanges Dcg.Gen.Printable.nonPrintable c.toNat

/-- **The hypothesis of `pattern_literal_one_token` is necessary**: for EVERY predicate that calls
one of LF / CR / NUL printable there is a pattern whose written literal is not one token. -/
theorem printableOK_necessary (pr : Char → Bool) (h : printableOK pr = false) :
    ∃ p, strToken (patternLiteral pr p ++ [')']) ≠ some (p, [')']) := by
  have : ∃ b ∈ rawBreakers, pr b = true := by
    simp only [printableOK, List.all_eq_false, Bool.not_eq_true', Bool.not_eq_false] at h
    simpa using h
  obtain ⟨b, hb, hp⟩ := this
  refine ⟨[b], ?_⟩
  simp only [rawBreakers, List.mem_cons, List.not_mem_nil, or_false] at hb
  rcases hb with rfl | rfl | rfl <;>
    simp [patternLiteral, patternRawOK, quoteFreePaired, hp, strToken, litRaw, scanRaw, unitRaw]

end Dcg.Proofs.PatternLit
