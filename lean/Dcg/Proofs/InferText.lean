import Dcg.Model.InferText
import Dcg.Sem.Pyd
/-
Helper lemmas for the C16 theorems about `Model.InferText` (type lists with `null`).
-/
namespace Dcg.Proofs.InferText
open Dcg.Sem Dcg.Sem.Pyd Dcg.Model.Infer Dcg.Model.InferBridge Dcg.Model.InferText Dcg.Model.Translate
open Dcg.Model.Constraints

theorem any_cons_accept (xs : List Tri) : Tri.any (.accept :: xs) = .accept := by
  simp [Tri.any, List.foldr, Tri.or]

/-- the type names of a node that has absorbed a `null` contain `null` -/
theorem typeNames_null (bo st : Bool) (nm : Option NumT) (ba bob : Bool) :
    (typeNames true bo st nm ba bob).contains .null = true := by
  simp [typeNames]

/-- a type list (or single type) with `null` accepts `None`: the entry is the `Optional` of the data type -/
theorem typesTy_null (st : Style) (re : Regex) (g : Nat) (ts : List TName) (h : ts.contains .null = true) :
    acceptsTy st re (g + 1) [] (typesTy ts) .null = .accept := by
  match ts, h with
  | [], h => simp at h
  | [t], h =>
    have ht : t = .null := by
      cases t <;> simp_all
    subst ht
    simp [typesTy, tyOfName, acceptsTy, Json.isNull]
  | t :: u :: r, h =>
    simp only [typesTy, h, if_true]
    simp [acceptsTy, Json.isNull]

/-- … also as the first member of an `anyOf`, whatever stands beside it -/
theorem joinText_null (st : Style) (re : Regex) (g : Nat) (ts : List TName) (others : List TSchema)
    (h : ts.contains .null = true) :
    acceptsTy st re (g + 2) [] (trT st (joinText ts others)) .null = .accept := by
  have hne : ts.isEmpty = false := by
    cases ts with
    | nil => simp at h
    | cons _ _ => rfl
  unfold joinText
  simp only [hne]
  match others with
  | [] =>
    simp only [Bool.false_eq_true, if_false, List.append_nil, trT]
    exact typesTy_null st re (g + 1) ts h
  | o :: os =>
    simp only [Bool.false_eq_true, if_false, List.cons_append, List.nil_append, trT, trTAlts]
    rw [acceptsTy]
    simp only [List.map_cons]
    rw [typesTy_null st re g ts h]
    exact any_cons_accept _

end Dcg.Proofs.InferText
