import Dcg.Model.Determinism
/-
Dcg.Proofs.Determinism — the order facts behind `Props/C08.iterSource_perm_invariant`: Python's `<=` on `str`
(`strLe`) is a total order, hence so is `<=` on the tuples `(p.name, p.as_posix())` (`keyLe`), whose second component
is the sorted entry itself: two entries that compare equal ARE equal, whatever `name` is.
-/
namespace Dcg.Proofs.Determinism
open Dcg.Model.Determinism

theorem strLe_refl (a : Str) : strLe a a = true := by
  induction a with
  | nil => rfl
  | cons x xs ih => simp [strLe, ih]

theorem strLe_total (a b : Str) : (strLe a b || strLe b a) = true := by
  induction a generalizing b with
  | nil => simp [strLe]
  | cons x xs ih =>
    cases b with
    | nil => simp [strLe]
    | cons y ys =>
      have h := ih ys
      simp only [strLe, Bool.or_eq_true, Bool.and_eq_true, decide_eq_true_eq, beq_iff_eq] at h ⊢
      rcases Nat.lt_trichotomy x y with hxy | hxy | hxy
      · exact Or.inl (Or.inl hxy)
      · subst hxy
        rcases h with h | h
        · exact Or.inl (Or.inr ⟨rfl, h⟩)
        · exact Or.inr (Or.inr ⟨rfl, h⟩)
      · exact Or.inr (Or.inl hxy)

theorem strLe_trans (a b c : Str) (hab : strLe a b = true) (hbc : strLe b c = true) : strLe a c = true := by
  induction a generalizing b c with
  | nil => simp [strLe]
  | cons x xs ih =>
    cases b with
    | nil => simp [strLe] at hab
    | cons y ys =>
      cases c with
      | nil => simp [strLe] at hbc
      | cons z zs =>
        simp only [strLe, Bool.or_eq_true, Bool.and_eq_true, decide_eq_true_eq, beq_iff_eq] at hab hbc ⊢
        rcases hab with hab | ⟨rfl, hab⟩
        · rcases hbc with hbc | ⟨rfl, _⟩
          · exact Or.inl (by omega)
          · exact Or.inl hab
        · rcases hbc with hbc | ⟨rfl, hbc⟩
          · exact Or.inl hbc
          · exact Or.inr ⟨rfl, ih ys zs hab hbc⟩

theorem strLe_antisymm (a b : Str) (hab : strLe a b = true) (hba : strLe b a = true) : a = b := by
  induction a generalizing b with
  | nil => cases b with
    | nil => rfl
    | cons y ys => simp [strLe] at hba
  | cons x xs ih =>
    cases b with
    | nil => simp [strLe] at hab
    | cons y ys =>
      simp only [strLe, Bool.or_eq_true, Bool.and_eq_true, decide_eq_true_eq, beq_iff_eq] at hab hba
      rcases hab with hab | ⟨rfl, hab⟩
      · rcases hba with hba | ⟨rfl, _⟩ <;> omega
      · rcases hba with hba | ⟨_, hba⟩
        · omega
        · rw [ih ys hab hba]

/-- the tuple order is total … -/
theorem keyLe_total (name : Str → Str) (a b : Str) : (keyLe name a b || keyLe name b a) = true := by
  unfold keyLe
  by_cases h : name a = name b
  · rw [if_pos h, if_pos h.symm]; exact strLe_total a b
  · rw [if_neg h, if_neg (Ne.symm h)]; exact strLe_total _ _

/-- … transitive … -/
theorem keyLe_trans (name : Str → Str) (a b c : Str) (hab : keyLe name a b = true) (hbc : keyLe name b c = true) :
    keyLe name a c = true := by
  unfold keyLe at *
  by_cases h1 : name a = name b <;> by_cases h2 : name b = name c
  · rw [if_pos h1] at hab; rw [if_pos h2] at hbc; rw [if_pos (h1.trans h2)]; exact strLe_trans _ _ _ hab hbc
  · rw [if_pos h1] at hab; rw [if_neg h2] at hbc; rw [if_neg (h1 ▸ h2), h1]; exact hbc
  · rw [if_neg h1] at hab; rw [if_pos h2] at hbc; rw [if_neg (h2 ▸ h1), ← h2]; exact hab
  · rw [if_neg h1] at hab; rw [if_neg h2] at hbc
    by_cases h3 : name a = name c
    · exact absurd (strLe_antisymm _ _ hab (h3 ▸ hbc)) h1
    · rw [if_neg h3]; exact strLe_trans _ _ _ hab hbc

/-- … and antisymmetric on the ENTRIES (not only on their keys): the second component of the key is the entry -/
theorem keyLe_antisymm (name : Str → Str) (a b : Str) (hab : keyLe name a b = true) (hba : keyLe name b a = true) : a = b := by
  unfold keyLe at *
  by_cases h : name a = name b
  · rw [if_pos h] at hab; rw [if_pos h.symm] at hba; exact strLe_antisymm a b hab hba
  · rw [if_neg h] at hab; rw [if_neg (Ne.symm h)] at hba; exact absurd (strLe_antisymm _ _ hab hba) h

/-- the tuple order refines the order by basename -/
theorem keyLe_imp_nameLe (name : Str → Str) (a b : Str) (h : keyLe name a b = true) : strLe (name a) (name b) = true := by
  unfold keyLe at h
  by_cases hn : name a = name b
  · rw [hn]; exact strLe_refl _
  · rw [if_neg hn] at h; exact h

end Dcg.Proofs.Determinism
