import Dcg.Model.TemplateInv
import Dcg.Proofs.TemplateBlockTop
import Dcg.Proofs.TemplateLex
/-
An identifier that is not a keyword satisfies, at every one-line code site, the value hypotheses
that the template theorems assume (`BlockHyp` of C01, `LexHyp` of C10).
-/
namespace Dcg.Proofs.TemplateInv
open Dcg.Model.TemplateSyntax Dcg.Model.Template Dcg.Model.TemplateBlock Dcg.Model.TemplateInv
open Dcg.Proofs.TemplateBlock Dcg.Proofs.TemplateBlockTop Dcg.Proofs.TemplateLex Dcg.Py.Ident Dcg.Py.Chars

/-- the characters that matter to the block automaton and to the lexer -/
def special (c : Char) : Bool := !plainCh c || c == ' '

/-- none of them can occur in an identifier (kernel evaluation of the generated XID tables on the
14 characters) -/
theorem specials_not_idCont :
    ['\'', '"', '\\', '#', ' ', '\n', '\r', Char.ofNat 0x0b, Char.ofNat 0x0c, Char.ofNat 0x1c, Char.ofNat 0x1d,
     Char.ofNat 0x1e, Char.ofNat 0x85, Char.ofNat 0x2028, Char.ofNat 0x2029].all
      (fun c => !isIdCont c && !isIdStart c) = true := by decide +kernel

theorem not_special_of_not_mem {c : Char}
    (h : c ∉ ['\'', '"', '\\', '#', ' ', '\n', '\r', Char.ofNat 0x0b, Char.ofNat 0x0c, Char.ofNat 0x1c, Char.ofNat 0x1d,
     Char.ofNat 0x1e, Char.ofNat 0x85, Char.ofNat 0x2028, Char.ofNat 0x2029]) : special c = false := by
  simp only [List.mem_cons, List.not_mem_nil, or_false, not_or] at h
  obtain ⟨h1, h2, h3, h4, h5, h6, h7, h8, h9, h10, h11, h12, h13, h14, h15⟩ := h
  simp [special, plainCh, isBreak, h1, h2, h3, h4, h5, h6, h7, h8, h9, h10, h11, h12, h13, h14, h15]

theorem special_cases {c : Char} (h : special c = true) :
    c ∈ ['\'', '"', '\\', '#', ' ', '\n', '\r', Char.ofNat 0x0b, Char.ofNat 0x0c, Char.ofNat 0x1c, Char.ofNat 0x1d,
     Char.ofNat 0x1e, Char.ofNat 0x85, Char.ofNat 0x2028, Char.ofNat 0x2029] := by
  apply Decidable.byContradiction
  intro hn
  rw [not_special_of_not_mem hn] at h
  cases h

theorem idChar_not_special {c : Char} (h : isIdCont c = true ∨ isIdStart c = true) : special c = false := by
  cases hs : special c with
  | false => rfl
  | true =>
    have hm := special_cases hs
    have hall := List.all_eq_true.mp specials_not_idCont c hm
    simp only [Bool.and_eq_true, Bool.not_eq_true'] at hall
    rcases h with h | h
    · rw [hall.1] at h; cases h
    · rw [hall.2] at h; cases h

theorem ident_chars {v : List Char} (h : isIdentifier v = true) : ∀ c ∈ v, special c = false := by
  cases v with
  | nil => intro c hc; cases hc
  | cons a r =>
    simp only [isIdentifier, Bool.and_eq_true, List.all_eq_true] at h
    intro c hc
    rcases List.mem_cons.mp hc with rfl | hc
    · exact idChar_not_special (Or.inr h.1)
    · exact idChar_not_special (Or.inl (h.2 c hc))

theorem plain_of_not_special {c : Char} (h : special c = false) : plainCh c = true ∧ c ≠ ' ' := by
  unfold special at h
  simp only [Bool.or_eq_false_iff, Bool.not_eq_false', beq_eq_false_iff_ne, ne_eq] at h
  exact h

theorem class_is_keyword : isKeyword classKw = true := by decide +kernel

/-- **An identifier that is not a keyword satisfies the value hypotheses of both template theorems
at every code site of one-line (`word`) kind** — one line, no leading blank, not the keyword
`class`, no `#`, and lexically neutral in every state. -/
theorem identValue_hyps (e : Expr) (v : List Char) (hd : Bool) (hk : slotKind e = .word hd)
    (hv : identValueB v = true) : BlockHyp e v ∧ LexHyp e v := by
  unfold identValueB at hv
  simp only [Bool.and_eq_true, Bool.not_eq_true'] at hv
  have hch := ident_chars hv.1
  have hplain : ∀ c ∈ v, plainCh c = true := fun c hc => (plain_of_not_special (hch c hc)).1
  refine ⟨?_, lexHyp_of_plain e v hplain⟩
  have hnb : NoBreak v := by
    intro c hc
    have := hplain c hc
    unfold plainCh at this
    simp only [Bool.and_eq_true, Bool.not_eq_true'] at this
    exact this.2
  refine ⟨?_, fun _ => hnb⟩
  unfold BlockHypCore
  rw [hk]
  refine ⟨?_, ?_, ?_, ?_⟩
  · intro c hc
    exact ne_nl_of_noBreak (hnb c hc)
  · intro hh
    cases v with
    | nil => cases hh
    | cons a r =>
      simp only [List.head?_cons, Option.some.injEq] at hh
      exact (plain_of_not_special (hch a List.mem_cons_self)).2 hh
  · unfold startsClass
    simp only [Bool.or_eq_false_iff, beq_eq_false_iff_ne, ne_eq]
    constructor
    · intro he
      rw [he, class_is_keyword] at hv
      cases hv.2
    · cases hp : (classKw ++ [' ']).isPrefixOf v with
      | false => rfl
      | true =>
        exfalso
        obtain ⟨t, ht⟩ := List.isPrefixOf_iff_prefix.mp hp
        have hm : ' ' ∈ v := by rw [← ht]; simp [classKw]
        exact (plain_of_not_special (hch ' ' hm)).2 rfl
  · intro _ hm
    have := hplain '#' hm
    simp [plainCh] at this

end Dcg.Proofs.TemplateInv
