import Dcg.Model.KwFlow
/-
Soundness of the abstract evaluation of Dcg.Model.KwFlow (core Lean only).
-/
namespace Dcg.Proofs.KwFlow
open Dcg.Model.KwFlow

/-- In every environment in which the flag reads false and the target is below `bound`: an expression
abstractly `F` is false and an expression abstractly `T` is true — whatever the opaque parts do. -/
theorem abs_sound (since : Nat → Option Nat) (bound : Nat) (env : Env)
    (hflag : env.flag = false) (htarget : env.target < bound) (e : KExpr) :
    (abs since bound e = .F → eval since env e = false) ∧
    (abs since bound e = .T → eval since env e = true) := by
  induction e with
  | flag => simp [abs, eval, hflag]
  | const b => cases b <;> simp [abs, eval]
  | guard p =>
    simp only [abs, eval]
    cases h : since p with
    | none => simp
    | some v =>
      simp only
      by_cases hb : bound ≤ v
      · simp only [if_pos hb, forall_const, reduceCtorEq, false_implies, and_true, decide_eq_false_iff_not]
        omega
      · simp [if_neg hb]
  | other i => simp [abs]
  | not e ih =>
    simp only [abs, eval]
    cases h : abs since bound e <;> simp_all [A.not]
  | and a b iha ihb =>
    simp only [abs, eval]
    cases ha : abs since bound a <;> cases hb : abs since bound b <;> simp_all [A.and]
  | or a b iha ihb =>
    simp only [abs, eval]
    cases ha : abs since bound a <;> cases hb : abs since bound b <;> simp_all [A.or]

/-- a safe expression is true only if somebody asked (the flag reads true) or the target reaches `bound` -/
theorem safe_true_needs (since : Nat → Option Nat) (bound : Nat) (env : Env) (e : KExpr)
    (hs : safe since bound e = true) (ht : eval since env e = true) :
    env.flag = true ∨ bound ≤ env.target := by
  by_cases hf : env.flag = true
  · exact Or.inl hf
  · by_cases hb : bound ≤ env.target
    · exact Or.inr hb
    · have := (abs_sound since bound env (by simpa using hf) (by omega) e).1 (by simpa [safe] using hs)
      simp [this] at ht

/-- the analysis is not trivially `U`: `flag or (flag and opaque)` is safe, `flag or opaque` is not -/
example : safe (fun _ => none) 10 (.or .flag (.and .flag (.other 1))) = true := by decide
example : safe (fun _ => none) 10 (.or .flag (.other 1)) = false := by decide
example : safe (fun _ => some 10) 10 (.and (.other 1) (.guard 7)) = true := by decide
example : safe (fun _ => some 9) 10 (.and (.other 1) (.guard 7)) = false := by decide

end Dcg.Proofs.KwFlow
