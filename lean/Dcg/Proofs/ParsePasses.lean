import Dcg.Model.ParsePasses
/-
Helper lemmas for the pass-order theorems of Dcg/Props/C09.lean (section "order of the post-passes of Parser.parse").
-/
namespace Dcg.Proofs.ParsePasses
open Dcg.Model.ParsePasses

/-! ### the order predicate -/

theorem before_iff (a b : Pass) (l : List Pass) :
    before a b l = true ↔ count a l = 1 ∧ count b l = 1 ∧ noneFrom a b l = true := by
  simp [before, Bool.and_eq_true, and_assoc]

theorem count_eq_zero_not_mem (p : Pass) : ∀ l : List Pass, count p l = 0 → p ∉ l
  | [], _ => by simp
  | q :: qs, h => by
    simp only [count] at h
    by_cases hq : q = p
    · simp [hq] at h
    · simp only [hq, if_false, Nat.zero_add] at h
      have := count_eq_zero_not_mem p qs h
      simp only [List.mem_cons, not_or]
      exact ⟨fun e => hq e.symm, this⟩

theorem count_eq_zero_of_not_mem (p : Pass) : ∀ l : List Pass, p ∉ l → count p l = 0
  | [], _ => rfl
  | q :: qs, h => by
    simp only [List.mem_cons, not_or] at h
    have hq : q ≠ p := fun e => h.1 e.symm
    simp only [count, hq, if_false, Nat.zero_add]
    exact count_eq_zero_of_not_mem p qs h.2

theorem count_cons_ne (p q : Pass) (qs : List Pass) (h : q ≠ p) : count p (q :: qs) = count p qs := by
  simp [count, h]

theorem count_cons_self (p : Pass) (qs : List Pass) : count p (p :: qs) = 1 + count p qs := by
  simp [count]

theorem noneFrom_cons_ne (a b q : Pass) (qs : List Pass) (h : q ≠ b) : noneFrom a b (q :: qs) = noneFrom a b qs := by
  simp [noneFrom, h]

theorem noneFrom_cons_self (a b : Pass) (qs : List Pass) (h : noneFrom a b (b :: qs) = true) : a ≠ b ∧ a ∉ qs := by
  simp only [noneFrom, if_true, Bool.and_eq_true, Bool.not_eq_true', decide_eq_false_iff_not] at h
  refine ⟨h.1, ?_⟩
  intro hm
  have : qs.contains a = true := List.contains_iff_mem.mpr hm
  rw [this] at h
  exact Bool.noConfusion h.2

/-- the part of the order predicate the semantics needs follows from the predicate itself -/
theorem orderOk_core (cs : List Call) (h : orderOk cs = true) : coreOk (cs.map (·.pass)) = true := by
  simp only [orderOk, constraints, List.all_cons, List.all_nil, Bool.and_true, Bool.and_eq_true] at h
  simp only [coreOk, Bool.and_eq_true]
  obtain ⟨_, _, h2, h3, h4, _, h6, _⟩ := h
  exact ⟨⟨⟨h2, h3⟩, h4⟩, h6⟩

/-! ### passes that do not touch what a default refers to -/

def inert (p : Pass) : Bool :=
  p != .reuseModel && p != .collapseRootModels && p != .setReferenceDefaultValueToField && p != .setDefaultEnumMember

theorem step_inert (o : Opts) (p : Pass) (s : St) (h : inert p = true) : step o p s = s := by
  cases p <;> first | rfl | (simp [inert] at h)

theorem run_inert (o : Opts) : ∀ (ps : List Pass) (s : St), (∀ q ∈ ps, inert q = true) → run o ps s = s
  | [], _, _ => rfl
  | p :: ps, s, h => by
    simp only [run]
    rw [step_inert o p s (h p (List.mem_cons_self ..))]
    exact run_inert o ps s (fun q hq => h q (List.mem_cons_of_mem _ hq))

theorem inert_of_ne (q : Pass) (h1 : q ≠ .reuseModel) (h2 : q ≠ .collapseRootModels)
    (h3 : q ≠ .setReferenceDefaultValueToField) (h4 : q ≠ .setDefaultEnumMember) : inert q = true := by
  simp [inert, h1, h2, h3, h4]

/-! ### the invariant before the conversion: every type refers to a live class, no default is a member -/

theorem live_map_surv (cls : List Cls) (c : Nat) (h : live cls c = true) :
    live (cls.map (fun k => { k with id := surv cls k.id })) (surv cls c) = true := by
  simp only [live, List.any_eq_true] at h ⊢
  obtain ⟨k, hk, hc⟩ := h
  refine ⟨{ k with id := surv cls k.id }, List.mem_map.mpr ⟨k, hk, rfl⟩, ?_⟩
  have : k.id = c := by simpa using hc
  simp [this]

theorem fieldWf_reuse (cls : List Cls) (f : Field) (h : fieldWf cls f = true)
    (hn : (match f.ty with | .copy _ => false | _ => true) = true) :
    fieldWf (cls.map (fun k => { k with id := surv cls k.id })) { f with ty := survTy cls f.ty } = true := by
  obtain ⟨ty, d⟩ := f
  cases ty with
  | enum c =>
    simp only [fieldWf, Bool.and_eq_true] at h ⊢
    exact ⟨live_map_surv cls c h.1, h.2⟩
  | root r => simpa [fieldWf, survTy] using h
  | copy c => simp at hn

/-- `__reuse_model` keeps the invariant as long as no data type is an unregistered copy -/
theorem wf_reuse (s : St) (h : wf s = true) (hn : noCopies s = true) : wf (reuseStep s) = true := by
  simp only [wf, Bool.and_eq_true, List.all_eq_true] at h
  simp only [noCopies, List.all_eq_true] at hn
  simp only [wf, reuseStep, Bool.and_eq_true, List.all_eq_true, List.mem_map]
  constructor
  · rintro f ⟨g, hg, rfl⟩
    exact fieldWf_reuse s.classes g (h.1 g hg) (hn g hg)
  · rintro r ⟨q, hq, rfl⟩
    exact live_map_surv s.classes q.target (h.2 q hq)

theorem findRoot_mem (rs : List Root) (r : Nat) (rt : Root) (h : findRoot rs r = some rt) : rt ∈ rs :=
  List.mem_of_find?_eq_some h

theorem fieldWf_collapse (cls : List Cls) (rs : List Root) (hr : ∀ r ∈ rs, live cls r.target = true) (f : Field)
    (h : fieldWf cls f = true) : fieldWf cls (collapseField rs f) = true := by
  obtain ⟨ty, d⟩ := f
  cases ty with
  | enum c => simpa [collapseField] using h
  | copy c => simpa [collapseField] using h
  | root r =>
    simp only [collapseField]
    cases hf : findRoot rs r with
    | none => simpa using h
    | some rt =>
      simp only [fieldWf, Bool.and_eq_true] at h ⊢
      exact ⟨hr rt (findRoot_mem rs r rt hf), h.2⟩

theorem wf_collapse (s : St) (h : wf s = true) : wf (collapseStep s) = true := by
  simp only [wf, Bool.and_eq_true, List.all_eq_true] at h
  simp only [wf, collapseStep, Bool.and_eq_true, List.all_eq_true, List.mem_map]
  refine ⟨?_, h.2⟩
  rintro f ⟨g, hg, rfl⟩
  exact fieldWf_collapse s.classes s.roots h.2 g (h.1 g hg)

theorem setRefField_ty (rs : List Root) (f : Field) : (setRefField rs f).ty = f.ty := by
  obtain ⟨ty, d⟩ := f
  cases ty with
  | enum c => cases d <;> rfl
  | copy c => cases d <;> rfl
  | root r =>
    cases d with
    | none =>
      simp only [setRefField]
      cases findRoot rs r with
      | none => rfl
      | some rt =>
        obtain ⟨i, t, dv⟩ := rt
        cases dv <;> rfl
    | raw v => rfl
    | member c v => rfl

theorem fieldWf_setRef (cls : List Cls) (rs : List Root) (f : Field) (h : fieldWf cls f = true) :
    fieldWf cls (setRefField rs f) = true := by
  obtain ⟨ty, d⟩ := f
  cases ty with
  | enum c => cases d <;> simpa [setRefField] using h
  | copy c => cases d <;> simpa [setRefField] using h
  | root r =>
    cases d with
    | none =>
      simp only [setRefField]
      cases findRoot rs r with
      | none => simpa using h
      | some rt =>
        obtain ⟨i, t, dv⟩ := rt
        cases dv with
        | none => simpa using h
        | some v => simp [fieldWf]
    | raw v => simpa [setRefField] using h
    | member c v => simpa [setRefField] using h

theorem wf_setRef (s : St) (h : wf s = true) : wf (setRefStep s) = true := by
  simp only [wf, Bool.and_eq_true, List.all_eq_true] at h
  simp only [wf, setRefStep, Bool.and_eq_true, List.all_eq_true, List.mem_map]
  refine ⟨?_, h.2⟩
  rintro f ⟨g, hg, rfl⟩
  exact fieldWf_setRef s.classes s.roots g (h.1 g hg)

/-- every pass but the conversion and the merge keeps the invariant -/
theorem wf_step (o : Opts) (p : Pass) (s : St) (hp : p ≠ .setDefaultEnumMember) (hr : p ≠ .reuseModel) (h : wf s = true) :
    wf (step o p s) = true := by
  cases p with
  | reuseModel => exact absurd rfl hr
  | collapseRootModels =>
    simp only [step]
    split
    · exact wf_collapse s h
    · exact h
  | setReferenceDefaultValueToField => exact wf_setRef s h
  | setDefaultEnumMember => exact absurd rfl hp
  | _ => exact h

theorem wf_step_reuse (o : Opts) (s : St) (h : wf s = true) (hn : noCopies s = true) : wf (step o .reuseModel s) = true := by
  simp only [step]
  split
  · exact wf_reuse s h hn
  · exact h

/-! ### no copies yet -/

theorem noCopies_reuse (s : St) (h : noCopies s = true) : noCopies (reuseStep s) = true := by
  simp only [noCopies, List.all_eq_true] at h
  simp only [noCopies, reuseStep, List.all_eq_true, List.mem_map]
  rintro f ⟨g, hg, rfl⟩
  have := h g hg
  obtain ⟨ty, d⟩ := g
  cases ty <;> simp_all [survTy]

theorem noCopies_setRef (s : St) (h : noCopies s = true) : noCopies (setRefStep s) = true := by
  simp only [noCopies, List.all_eq_true] at h
  simp only [noCopies, setRefStep, List.all_eq_true, List.mem_map]
  rintro f ⟨g, hg, rfl⟩
  rw [setRefField_ty]
  exact h g hg

/-- every pass but the conversion and the fold keeps "no copies" -/
theorem noCopies_step (o : Opts) (p : Pass) (s : St) (hp : p ≠ .setDefaultEnumMember) (hq : p ≠ .collapseRootModels)
    (h : noCopies s = true) : noCopies (step o p s) = true := by
  cases p with
  | reuseModel =>
    simp only [step]
    split
    · exact noCopies_reuse s h
    · exact h
  | collapseRootModels => exact absurd rfl hq
  | setReferenceDefaultValueToField => exact noCopies_setRef s h
  | setDefaultEnumMember => exact absurd rfl hp
  | _ => exact h

/-! ### the conversion on a state that satisfies the invariant -/

theorem fieldGood_sdem (cls : List Cls) (f : Field) (h : fieldWf cls f = true) : fieldGood cls (sdemField f) = true := by
  obtain ⟨ty, d⟩ := f
  cases ty <;> cases d <;> simp_all [fieldWf, fieldGood, sdemField]

theorem good_sdem (s : St) (h : wf s = true) : good (sdemStep s) = true := by
  simp only [wf, Bool.and_eq_true, List.all_eq_true] at h
  simp only [good, sdemStep, List.all_eq_true, List.mem_map]
  rintro f ⟨g, hg, rfl⟩
  exact fieldGood_sdem s.classes g (h.1 g hg)

/-- after the conversion only inert passes remain -/
theorem rest_inert (ps : List Pass)
    (hc : count .setDefaultEnumMember ps = 0)
    (h1 : Pass.reuseModel ∉ ps) (h2 : Pass.collapseRootModels ∉ ps) (h3 : Pass.setReferenceDefaultValueToField ∉ ps) :
    ∀ q ∈ ps, inert q = true := by
  intro q hq
  apply inert_of_ne
  · intro e; exact h1 (e ▸ hq)
  · intro e; exact h2 (e ▸ hq)
  · intro e; exact h3 (e ▸ hq)
  · intro e; exact count_eq_zero_not_mem _ ps hc (e ▸ hq)

/-! ### with --collapse-root-models: no field is left behind a root model -/

def noRootFields (s : St) : Bool :=
  s.fields.all (fun f => match f.ty with
    | .root _ => false
    | _ => true)

theorem noRoot_collapse (s : St) (hk : rootsKnown s = true) : noRootFields (collapseStep s) = true := by
  simp only [rootsKnown, List.all_eq_true] at hk
  simp only [noRootFields, collapseStep, List.all_eq_true, List.mem_map]
  rintro f ⟨g, hg, rfl⟩
  have := hk g hg
  obtain ⟨ty, d⟩ := g
  cases ty with
  | enum c => simp [collapseField]
  | copy c => simp [collapseField]
  | root r =>
    simp only [collapseField]
    cases hf : findRoot s.roots r with
    | none => simp [hf] at this
    | some rt => simp

theorem noRoot_reuse (s : St) (h : noRootFields s = true) : noRootFields (reuseStep s) = true := by
  simp only [noRootFields, List.all_eq_true] at h
  simp only [noRootFields, reuseStep, List.all_eq_true, List.mem_map]
  rintro f ⟨g, hg, rfl⟩
  have := h g hg
  obtain ⟨ty, d⟩ := g
  cases ty <;> simp_all [survTy]

theorem noRoot_setRef (s : St) (h : noRootFields s = true) : noRootFields (setRefStep s) = true := by
  simp only [noRootFields, List.all_eq_true] at h
  simp only [noRootFields, setRefStep, List.all_eq_true, List.mem_map]
  rintro f ⟨g, hg, rfl⟩
  rw [setRefField_ty]
  exact h g hg

theorem noRoot_collapseStep' (s : St) (h : noRootFields s = true) : noRootFields (collapseStep s) = true := by
  simp only [noRootFields, List.all_eq_true] at h
  simp only [noRootFields, collapseStep, List.all_eq_true, List.mem_map]
  rintro f ⟨g, hg, rfl⟩
  have := h g hg
  obtain ⟨ty, d⟩ := g
  cases ty with
  | enum c => simp [collapseField]
  | copy c => simp [collapseField]
  | root r => simp at this

theorem noRoot_step (o : Opts) (p : Pass) (s : St) (hp : p ≠ .setDefaultEnumMember) (h : noRootFields s = true) :
    noRootFields (step o p s) = true := by
  cases p with
  | reuseModel =>
    simp only [step]
    split
    · exact noRoot_reuse s h
    · exact h
  | collapseRootModels =>
    simp only [step]
    split
    · exact noRoot_collapseStep' s h
    · exact h
  | setReferenceDefaultValueToField => exact noRoot_setRef s h
  | setDefaultEnumMember => exact absurd rfl hp
  | _ => exact h

theorem rootsKnown_reuse (s : St) (h : rootsKnown s = true) : rootsKnown (reuseStep s) = true := by
  simp only [rootsKnown, List.all_eq_true] at h
  simp only [rootsKnown, reuseStep, List.all_eq_true, List.mem_map]
  rintro f ⟨g, hg, rfl⟩
  have := h g hg
  obtain ⟨ty, d⟩ := g
  cases ty with
  | enum c => simp [survTy]
  | copy c => simp [survTy]
  | root r =>
    simp only [survTy]
    simp only [findRoot, Option.isSome_iff_exists] at this ⊢
    obtain ⟨rt, hrt⟩ := this
    have hp := List.find?_some hrt
    have hm := List.mem_of_find?_eq_some hrt
    have : (List.map (fun r => { r with target := surv s.classes r.target }) s.roots).any (fun x => x.id == r) = true := by
      simp only [List.any_eq_true, List.mem_map]
      exact ⟨{ rt with target := surv s.classes rt.target }, ⟨rt, hm, rfl⟩, by simpa using hp⟩
    cases hf : List.find? (fun x => x.id == r) (List.map (fun r => { r with target := surv s.classes r.target }) s.roots) with
    | some x => exact ⟨x, rfl⟩
    | none =>
      rw [List.find?_eq_none] at hf
      simp only [List.any_eq_true] at this
      obtain ⟨x, hx, hxr⟩ := this
      exact absurd hxr (hf x hx)

theorem rootsKnown_setRef (s : St) (h : rootsKnown s = true) : rootsKnown (setRefStep s) = true := by
  simp only [rootsKnown, List.all_eq_true] at h
  simp only [rootsKnown, setRefStep, List.all_eq_true, List.mem_map]
  rintro f ⟨g, hg, rfl⟩
  rw [setRefField_ty]
  exact h g hg

/-- before the roots are folded, the passes keep "every root a field refers to is known" -/
theorem rootsKnown_step (o : Opts) (p : Pass) (s : St) (hp : p ≠ .setDefaultEnumMember) (hq : p ≠ .collapseRootModels)
    (h : rootsKnown s = true) : rootsKnown (step o p s) = true := by
  cases p with
  | reuseModel =>
    simp only [step]
    split
    · exact rootsKnown_reuse s h
    · exact h
  | collapseRootModels => exact absurd rfl hq
  | setReferenceDefaultValueToField => exact rootsKnown_setRef s h
  | setDefaultEnumMember => exact absurd rfl hp
  | _ => exact h

theorem fieldAllMember_sdem (cls : List Cls) (f : Field) (h : fieldWf cls f = true)
    (hn : (match f.ty with | .root _ => false | _ => true) = true) : fieldAllMember cls (sdemField f) = true := by
  obtain ⟨ty, d⟩ := f
  cases ty <;> cases d <;> simp_all [fieldWf, fieldAllMember, sdemField]

theorem allMember_sdem (s : St) (h : wf s = true) (hn : noRootFields s = true) : allMember (sdemStep s) = true := by
  simp only [wf, Bool.and_eq_true, List.all_eq_true] at h
  simp only [noRootFields, List.all_eq_true] at hn
  simp only [allMember, sdemStep, List.all_eq_true, List.mem_map]
  rintro f ⟨g, hg, rfl⟩
  exact fieldAllMember_sdem s.classes g (h.1 g hg) (hn g hg)

/-! ### the run up to the conversion -/

/-- MAIN LEMMA. Any pass list in which the conversion runs once, none of the three restructuring passes runs at or after
it, and the merge of duplicates does not run after the fold of the roots: the run IS the conversion applied to a state that
satisfies the invariant (every data type — registered or copied — refers to a live class, no member yet); and when the
fold happens on the way (or no field was behind a root to begin with), no field of that state is behind a root. -/
theorem run_factor (o : Opts) (ho : o.sdem = true) :
    ∀ (ps : List Pass) (s : St), wf s = true →
      ((noCopies s = true ∧ noneFrom .reuseModel .collapseRootModels ps = true) ∨ Pass.reuseModel ∉ ps) →
      count .setDefaultEnumMember ps = 1 →
      noneFrom .reuseModel .setDefaultEnumMember ps = true →
      noneFrom .collapseRootModels .setDefaultEnumMember ps = true →
      noneFrom .setReferenceDefaultValueToField .setDefaultEnumMember ps = true →
      ∃ s', run o ps s = sdemStep s' ∧ wf s' = true ∧
        ((noRootFields s = true ∨ (o.collapse = true ∧ rootsKnown s = true ∧ count .collapseRootModels ps = 1)) →
          noRootFields s' = true)
  | [], _, _, _, hc, _, _, _ => by simp [count] at hc
  | p :: ps, s, hw, hd, hc, h1, h2, h3 => by
    by_cases hp : p = .setDefaultEnumMember
    · subst hp
      rw [count_cons_self] at hc
      have hc0 : count .setDefaultEnumMember ps = 0 := by omega
      have r1 := (noneFrom_cons_self _ _ ps h1).2
      have r2 := (noneFrom_cons_self _ _ ps h2).2
      have r3 := (noneFrom_cons_self _ _ ps h3).2
      refine ⟨s, ?_, hw, ?_⟩
      · simp only [run, step, ho, if_true]
        exact run_inert o ps _ (rest_inert ps hc0 r1 r2 r3)
      · rintro (h | ⟨_, _, hcc⟩)
        · exact h
        · rw [count_cons_ne _ _ _ (by intro e; cases e)] at hcc
          rw [count_eq_zero_of_not_mem _ ps r2] at hcc
          omega
    · rw [count_cons_ne _ _ _ hp] at hc
      rw [noneFrom_cons_ne _ _ _ _ hp] at h1 h2 h3
      simp only [run]
      by_cases hr : p = .reuseModel
      · -- the merge: only while no data type is a copy
        subst hr
        have hl : noCopies s = true ∧ noneFrom .reuseModel .collapseRootModels ps = true := by
          rcases hd with ⟨hn, hnf⟩ | hnot
          · rw [noneFrom_cons_ne _ _ _ _ (by intro e; cases e)] at hnf
            exact ⟨hn, hnf⟩
          · exact absurd (List.mem_cons_self ..) hnot
        obtain ⟨s', hrun, hw', hnr⟩ := run_factor o ho ps (step o .reuseModel s) (wf_step_reuse o s hw hl.1)
          (Or.inl ⟨noCopies_step o _ s hp (by intro e; cases e) hl.1, hl.2⟩) hc h1 h2 h3
        refine ⟨s', hrun, hw', ?_⟩
        rintro (h | ⟨hcol, hk, hcc⟩)
        · exact hnr (Or.inl (noRoot_step o _ s hp h))
        · rw [count_cons_ne _ _ _ (by intro e; cases e)] at hcc
          exact hnr (Or.inr ⟨hcol, rootsKnown_step o _ s hp (by intro e; cases e) hk, hcc⟩)
      · by_cases hq : p = .collapseRootModels
        · -- the fold: from here on the merge must not run
          subst hq
          have hnot : Pass.reuseModel ∉ ps := by
            rcases hd with ⟨_, hnf⟩ | hnot
            · exact (noneFrom_cons_self _ _ ps hnf).2
            · exact fun hm => hnot (List.mem_cons_of_mem _ hm)
          obtain ⟨s', hrun, hw', hnr⟩ := run_factor o ho ps (step o .collapseRootModels s) (wf_step o _ s hp hr hw)
            (Or.inr hnot) hc h1 h2 h3
          refine ⟨s', hrun, hw', ?_⟩
          rintro (h | ⟨hcol, hk, _⟩)
          · exact hnr (Or.inl (noRoot_step o _ s hp h))
          · refine hnr (Or.inl ?_)
            simp only [step, hcol, if_true]
            exact noRoot_collapse s hk
        · have hd' : (noCopies (step o p s) = true ∧ noneFrom .reuseModel .collapseRootModels ps = true) ∨ Pass.reuseModel ∉ ps := by
            rcases hd with ⟨hn, hnf⟩ | hnot
            · rw [noneFrom_cons_ne _ _ _ _ hq] at hnf
              exact Or.inl ⟨noCopies_step o p s hp hq hn, hnf⟩
            · exact Or.inr (fun hm => hnot (List.mem_cons_of_mem _ hm))
          obtain ⟨s', hrun, hw', hnr⟩ := run_factor o ho ps (step o p s) (wf_step o p s hp hr hw) hd' hc h1 h2 h3
          refine ⟨s', hrun, hw', ?_⟩
          rintro (h | ⟨hcol, hk, hcc⟩)
          · exact hnr (Or.inl (noRoot_step o p s hp h))
          · rw [count_cons_ne _ _ _ hq] at hcc
            exact hnr (Or.inr ⟨hcol, rootsKnown_step o p s hp hq hk, hcc⟩)

theorem coreOk_iff (ps : List Pass) (h : coreOk ps = true) :
    count .setDefaultEnumMember ps = 1 ∧ count .collapseRootModels ps = 1 ∧
    noneFrom .reuseModel .setDefaultEnumMember ps = true ∧
    noneFrom .collapseRootModels .setDefaultEnumMember ps = true ∧
    noneFrom .setReferenceDefaultValueToField .setDefaultEnumMember ps = true ∧
    noneFrom .reuseModel .collapseRootModels ps = true := by
  simp only [coreOk, Bool.and_eq_true, before_iff] at h
  obtain ⟨⟨⟨⟨_, hc, h3⟩, ⟨_, _, h1⟩⟩, ⟨hcc, _, h2⟩⟩, ⟨_, _, h4⟩⟩ := h
  exact ⟨hc, hcc, h1, h2, h3, h4⟩

end Dcg.Proofs.ParsePasses
