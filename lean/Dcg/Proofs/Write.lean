import Dcg.Model.Write
/-
Helper lemmas for C20: what a segment of steps can and cannot change, given decidable facts
about the step table.
-/
namespace Dcg.Proofs.Write
open Dcg.Model.Write

/-! ### one step -/

theorem failState_files (env : Env) (c : Bool) (st : St) : (failState env c st).files = st.files := by
  unfold failState; split <;> rfl

theorem step1_files_noEffect (env : Env) (fh : Bool) (cur : Option (Path × Content)) (c : Bool) (st : St)
    (s : Step) (h : s.kind.isFsEffect = false) :
    (∀ c' st', step1 env fh cur c st s = .next c' st' → st'.files = st.files) ∧
    (∀ st', step1 env fh cur c st s = .fail st' → st'.files = st.files) := by
  constructor
  · intro c' st' hs
    unfold step1 at hs
    cases hk : s.kind <;> simp only [hk, Kind.isFsEffect] at h hs
    case mayRaise => cases fh <;> simp at hs; rw [← hs.2]
    case raise => cases fh <;> simp at hs; rw [← hs.2]
    case unknown => cases fh <;> simp at hs; rw [← hs.2]
    case encodeCheck => split at hs <;> (cases hs; try rfl)
    all_goals first | (simp at h; done) | (cases hs; rfl)
  · intro st' hs
    unfold step1 at hs
    cases hk : s.kind <;> simp only [hk, Kind.isFsEffect] at h hs
    case mayRaise => cases fh <;> simp at hs; rw [← hs, failState_files]
    case raise => cases fh <;> simp at hs; rw [← hs, failState_files]
    case unknown => cases fh <;> simp at hs; rw [← hs, failState_files]
    case encodeCheck => split at hs <;> (cases hs; try rw [failState_files])
    all_goals first | (simp at h; done) | (cases hs)

theorem step1_next_noRaise (env : Env) (fh : Bool) (cur : Option (Path × Content)) (c : Bool) (st : St)
    (s : Step) (h : s.kind.canRaise = false) (henc : ∀ m, cur = some m → env.encodable m.2 = true) :
    ∃ c' st', step1 env fh cur c st s = .next c' st' := by
  unfold step1
  cases hk : s.kind <;> simp only [hk, Kind.canRaise] at h ⊢ <;> try (first | exact ⟨_, _, rfl⟩ | (simp at h; done))
  · -- openW
    split <;> exact ⟨_, _, rfl⟩
  · -- write
    split
    · rename_i p hp
      cases cur with
      | none => cases ht : s.target <;> simp [targetPath, ht] at hp
      | some m =>
        have := henc m rfl
        simp only [textOf, Option.map_some, Option.getD_some, this, if_true]
        exact ⟨_, _, rfl⟩
    · exact ⟨_, _, rfl⟩

/-! ### segments without file-system effects leave the files alone -/

theorem exec_files_noEffect (env : Env) (fault : Nat → Bool) (cur : Option (Path × Content))
    (steps : List Step) (h : steps.all (fun s => !s.kind.isFsEffect) = true) :
    ∀ (i : Nat) (inChdir : Bool) (st : St), (exec env fault cur i inChdir st steps).st.files = st.files := by
  induction steps with
  | nil => intro i c st; rfl
  | cons s rest ih =>
    simp only [List.all_cons, Bool.and_eq_true, Bool.not_eq_eq_eq_not, Bool.not_true] at h
    obtain ⟨hs, hrest⟩ := h
    have ih := ih (by simpa using hrest)
    intro i c st
    have h1 := step1_files_noEffect env (fault i) cur c st s hs
    unfold exec
    cases hr : step1 env (fault i) cur c st s with
    | next c' st' => simp only; rw [ih]; exact h1.1 c' st' hr
    | fail st' => exact h1.2 st' hr

/-! ### segments without may-raise steps do not fail when the text is encodable -/

theorem exec_done_noRaise (env : Env) (fault : Nat → Bool) (cur : Option (Path × Content))
    (henc : ∀ m, cur = some m → env.encodable m.2 = true)
    (steps : List Step) (h : steps.all (fun s => !s.kind.canRaise) = true) :
    ∀ (i : Nat) (inChdir : Bool) (st : St), ∃ st', exec env fault cur i inChdir st steps = .done st' := by
  induction steps with
  | nil => intro i c st; exact ⟨st, rfl⟩
  | cons s rest ih =>
    simp only [List.all_cons, Bool.and_eq_true, Bool.not_eq_eq_eq_not, Bool.not_true] at h
    obtain ⟨hs, hrest⟩ := h
    have ih := ih (by simpa using hrest)
    intro i c st
    obtain ⟨c', st', hn⟩ := step1_next_noRaise env (fault i) cur c st s hs henc
    unfold exec
    rw [hn]
    exact ih _ _ _

theorem all_append_left {α} {p : α → Bool} {a b : List α} (h : (a ++ b).all p = true) : a.all p = true := by
  simp only [List.all_append, Bool.and_eq_true] at h; exact h.1

theorem all_append_right {α} {p : α → Bool} {a b : List α} (h : (a ++ b).all p = true) : b.all p = true := by
  simp only [List.all_append, Bool.and_eq_true] at h; exact h.2

theorem execLoop_done (env : Env) (fault : Nat → Nat → Bool) (body : List Step)
    (h : body.all (fun s => !s.kind.canRaise) = true) :
    ∀ (mods : List (Path × Content)) (_ : ∀ m ∈ mods, env.encodable m.2 = true) (k : Nat) (st : St),
      ∃ st', execLoop env fault body k st mods = .done st' := by
  intro mods
  induction mods with
  | nil => intro _ k st; exact ⟨st, rfl⟩
  | cons m rest ih =>
    intro henc k st
    obtain ⟨st1, h1⟩ := exec_done_noRaise env (fault k) (some m)
      (fun m' hm' => by cases hm'; exact henc m (by simp)) body h 0 false st
    simp only [execLoop, h1]
    exact ih (fun m hm => henc m (List.mem_cons_of_mem _ hm)) (k + 1) st1

/-- A failed run changed no file — provided the table keeps every may-raise step before the
first file-system effect and every text is encodable. -/
theorem failed_run_files (env : Env) (f : Faults) (pre body post : List Step)
    (htab : raisesBeforeWrites pre body post = true) (henc : EncodableAll env)
    (st st' : St) (hrun : run env f pre body post st = .failed st') : st'.files = st.files := by
  simp only [raisesBeforeWrites, Bool.and_eq_true] at htab
  obtain ⟨hpre, hrest⟩ := htab
  have hfiles := exec_files_noEffect env f.pre none pre hpre 0 false st
  unfold run at hrun
  cases h1 : exec env f.pre none 0 false st pre with
  | failed s1 =>
    rw [h1] at hrun hfiles
    cases hrun
    exact hfiles
  | done s1 =>
    rw [h1] at hrun
    simp only at hrun
    obtain ⟨s2, h2⟩ := execLoop_done env f.loop body (all_append_left hrest) env.mods henc 0 s1
    rw [h2] at hrun
    simp only at hrun
    obtain ⟨s3, h3⟩ := exec_done_noRaise env f.post none (by intro m hm; cases hm) post
      (all_append_right hrest) 0 false s2
    rw [h3] at hrun; cases hrun


/-! ### the encode check of `pre` establishes EncodableAll -/

theorem step1_encodeCheck_next (env : Env) (fh : Bool) (cur : Option (Path × Content)) (c : Bool) (st : St)
    (s : Step) (hk : s.kind = .encodeCheck) (ht : s.target = .perModule) (c' : Bool) (st' : St)
    (h : step1 env fh cur c st s = .next c' st') : env.mods.all (fun m => env.encodable m.2) = true := by
  unfold step1 at h
  simp only [hk, ht] at h
  split at h
  · cases h
  · rename_i hcond
    simp only [beq_self_eq_true, Bool.true_and, Bool.or_eq_true, Bool.not_eq_eq_eq_not, Bool.not_true, not_or] at hcond
    simpa using hcond.2

theorem exec_done_encodable (env : Env) (fault : Nat → Bool) (cur : Option (Path × Content))
    (steps : List Step) (h : hasEncodeCheck steps = true) :
    ∀ (i : Nat) (c : Bool) (st st' : St), exec env fault cur i c st steps = .done st' →
      EncodableAll env := by
  induction steps with
  | nil => simp [hasEncodeCheck] at h
  | cons s rest ih =>
    intro i c st st' hrun
    unfold exec at hrun
    cases hres : step1 env (fault i) cur c st s with
    | fail s1 => rw [hres] at hrun; cases hrun
    | next c1 s1 =>
      rw [hres] at hrun
      simp only [hasEncodeCheck, List.any_cons, Bool.or_eq_true, Bool.and_eq_true, beq_iff_eq] at h
      rcases h with ⟨hk, ht⟩ | hrest
      · have hall := step1_encodeCheck_next env (fault i) cur c st s hk ht c1 s1 hres
        intro m hm
        simp only [List.all_eq_true] at hall
        exact hall m hm
      · exact ih (by simpa [hasEncodeCheck] using hrest) _ _ _ _ hrun

/-- A failed run changed no file: every may-raise step — the encode check of every module's text
included — precedes the first file-system effect. No hypothesis on the text is left. -/
theorem failed_run_files_checked (env : Env) (f : Faults) (pre body post : List Step)
    (htab : raisesBeforeWrites pre body post = true) (hchk : hasEncodeCheck pre = true)
    (st st' : St) (hrun : run env f pre body post st = .failed st') : st'.files = st.files := by
  cases h1 : exec env f.pre none 0 false st pre with
  | failed s1 =>
    have hpre : pre.all (fun s => !s.kind.isFsEffect) = true := by
      simp only [raisesBeforeWrites, Bool.and_eq_true] at htab; exact htab.1
    have hfiles := exec_files_noEffect env f.pre none pre hpre 0 false st
    unfold run at hrun
    rw [h1] at hrun hfiles
    cases hrun
    exact hfiles
  | done s1 =>
    exact failed_run_files env f pre body post htab (exec_done_encodable env f.pre none pre hchk 0 false st s1 h1) st st' hrun

/-! ### the working directory -/

theorem yieldIndex_le (steps : List CStep) : yieldIndex steps ≤ steps.length := by
  unfold yieldIndex
  generalize (fun (x : CStep) => decide (x.kind ≠ CKind.yield)) = p
  induction steps with
  | nil => simp
  | cons a t ih =>
    simp only [List.takeWhile_cons]
    split
    · simp only [List.length_cons]; omega
    · simp

theorem restores_spec {steps : List CStep} (h : restoresCwd steps = true) :
    cwdAfter steps none = .orig ∧ ∀ i, i ≤ steps.length → cwdAfter steps (some i) = .orig := by
  simp only [restoresCwd, Bool.and_eq_true, List.all_eq_true, List.mem_range, beq_iff_eq] at h
  exact ⟨h.1, fun i hi => h.2 i (by omega)⟩

theorem step1_cwd (env : Env) (fh : Bool) (cur : Option (Path × Content)) (c : Bool) (st : St)
    (s : Step) (rest : List Step)
    (hI : c = false → st.cwd = .orig) (hk : s.kind ≠ .osChdir)
    (hr : restoresCwd env.chdirSteps = true) (hb : chdirBalanced c (s :: rest) = true) :
    (∀ c' st', step1 env fh cur c st s = .next c' st' →
        (c' = false → st'.cwd = .orig) ∧ chdirBalanced c' rest = true) ∧
    (∀ st', step1 env fh cur c st s = .fail st' → st'.cwd = .orig) := by
  obtain ⟨hnone, hsome⟩ := restores_spec hr
  have hfail : (failState env c st).cwd = .orig := by
    unfold failState
    cases c with
    | true => simp only [if_true]; exact hsome _ (yieldIndex_le _)
    | false => simp only [Bool.false_eq_true, if_false]; exact hI rfl
  unfold chdirBalanced at hb
  constructor
  · intro c' st' h
    unfold step1 at h
    cases hkind : s.kind <;> simp only [hkind] at hb h hk
    case mayRaise => cases fh <;> simp at h; obtain ⟨rfl, rfl⟩ := h; exact ⟨hI, hb⟩
    case raise => cases fh <;> simp at h; obtain ⟨rfl, rfl⟩ := h; exact ⟨hI, hb⟩
    case unknown => cases fh <;> simp at h; obtain ⟨rfl, rfl⟩ := h; exact ⟨hI, hb⟩
    case encodeCheck => split at h <;> (cases h; try exact ⟨hI, hb⟩)
    case openW => split at h <;> (cases h; exact ⟨hI, hb⟩)
    case write =>
      split at h
      · split at h
        · cases h; exact ⟨hI, hb⟩
        · cases h
      · cases h; exact ⟨hI, hb⟩
    case chdirEnter =>
      simp only [Bool.and_eq_true] at hb
      cases h; exact ⟨by simp, hb.2⟩
    case chdirExit =>
      simp only [Bool.and_eq_true] at hb
      cases h; exact ⟨fun _ => hnone, hb.2⟩
    case osChdir => exact absurd rfl hk
    all_goals (cases h; exact ⟨hI, hb⟩)
  · intro st' h
    unfold step1 at h
    cases hkind : s.kind <;> simp only [hkind] at h
    case mayRaise => cases fh <;> simp at h; rw [← h]; exact hfail
    case raise => cases fh <;> simp at h; rw [← h]; exact hfail
    case unknown => cases fh <;> simp at h; rw [← h]; exact hfail
    case encodeCheck => split at h <;> (cases h; try exact hfail)
    case openW => split at h <;> cases h
    case write =>
      split at h
      · split at h
        · cases h
        · cases h; exact hfail
      · cases h
    all_goals cases h

theorem exec_cwd (env : Env) (fault : Nat → Bool) (cur : Option (Path × Content))
    (hr : restoresCwd env.chdirSteps = true) (steps : List Step)
    (hn : noDirectChdir steps = true) :
    ∀ (i : Nat) (c : Bool) (st : St), (c = false → st.cwd = .orig) → chdirBalanced c steps = true →
      (exec env fault cur i c st steps).st.cwd = .orig := by
  induction steps with
  | nil =>
    intro i c st hI hb
    simp only [chdirBalanced, Bool.not_eq_eq_eq_not, Bool.not_true] at hb
    exact hI hb
  | cons s rest ih =>
    simp only [noDirectChdir, List.all_cons, Bool.and_eq_true, bne_iff_ne, ne_eq] at hn
    have ih := ih (by simpa [noDirectChdir] using hn.2)
    intro i c st hI hb
    have h1 := step1_cwd env (fault i) cur c st s rest hI hn.1 hr hb
    unfold exec
    cases hres : step1 env (fault i) cur c st s with
    | next c' st' => have := h1.1 c' st' hres; exact ih _ _ _ this.1 this.2
    | fail st' => exact h1.2 st' hres

theorem execLoop_cwd (env : Env) (fault : Nat → Nat → Bool) (body : List Step)
    (hr : restoresCwd env.chdirSteps = true) (hn : noDirectChdir body = true)
    (hb : chdirBalanced false body = true) :
    ∀ (mods : List (Path × Content)) (k : Nat) (st : St), st.cwd = .orig →
      (execLoop env fault body k st mods).st.cwd = .orig := by
  intro mods
  induction mods with
  | nil => intro k st h; exact h
  | cons m rest ih =>
    intro k st h
    have h1 := exec_cwd env (fault k) (some m) hr body hn 0 false st (fun _ => h) hb
    simp only [execLoop]
    cases hres : exec env (fault k) (some m) 0 false st body with
    | done st' => rw [hres] at h1; exact ih _ _ h1
    | failed st' => rw [hres] at h1; exact h1

/-- decidable facts about the tables that make the working directory come back -/
def cwdTablesOK (chdirSteps : List CStep) (pre body post : List Step) : Bool :=
  restoresCwd chdirSteps && noDirectChdir pre && noDirectChdir body && noDirectChdir post &&
  chdirBalanced false pre && chdirBalanced false body && chdirBalanced false post

theorem run_cwd (env : Env) (f : Faults) (pre body post : List Step)
    (h : cwdTablesOK env.chdirSteps pre body post = true) (st : St) (h0 : st.cwd = .orig) :
    (run env f pre body post st).st.cwd = .orig := by
  simp only [cwdTablesOK, Bool.and_eq_true] at h
  obtain ⟨⟨⟨⟨⟨⟨hr, hn1⟩, hn2⟩, hn3⟩, hb1⟩, hb2⟩, hb3⟩ := h
  have h1 := exec_cwd env f.pre none hr pre hn1 0 false st (fun _ => h0) hb1
  unfold run
  cases hp : exec env f.pre none 0 false st pre with
  | failed s1 => rw [hp] at h1; exact h1
  | done s1 =>
    rw [hp] at h1
    simp only
    have h2 := execLoop_cwd env f.loop body hr hn2 hb2 env.mods 0 s1 h1
    cases hl : execLoop env f.loop body 0 s1 env.mods with
    | failed s2 => rw [hl] at h2; exact h2
    | done s2 =>
      rw [hl] at h2
      exact exec_cwd env f.post none hr post hn3 0 false s2 (fun _ => h2) hb3


/-! ### only the module's own path is written -/

theorem getFile_setFile (files : List (Path × Content)) (q p : Path) (c : Content) :
    getFile (setFile files q c) p = if p = q then some c else getFile files p := by
  induction files with
  | nil =>
    simp only [setFile, getFile, List.lookup]
    by_cases h : p = q
    · simp [h]
    · have h' : (p == q) = false := by simpa using h
      simp [h, h']
  | cons e rest ih =>
    obtain ⟨k, v⟩ := e
    simp only [setFile]
    by_cases hk : k = q
    · subst hk
      simp only [if_true, getFile, List.lookup]
      by_cases h : p = k
      · simp [h]
      · have h' : (p == k) = false := by simpa using h
        simp [h, h']
    · simp only [if_neg hk, getFile, List.lookup]
      by_cases h : p = k
      · subst h
        simp [hk]
      · have h' : (p == k) = false := by simpa using h
        simp only [h']
        exact ih

theorem step1_outside (env : Env) (fh : Bool) (cur : Option (Path × Content)) (c : Bool) (st : St)
    (s : Step)
    (hs : (!s.kind.isFsEffect || s.target == .loopPath || (s.kind == .mkdir && s.target == .loopPathParent)) = true)
    (p : Path) (hp : ¬ env.out <+: p) :
    (∀ c' st', step1 env fh cur c st s = .next c' st' → getFile st'.files p = getFile st.files p) ∧
    (∀ st', step1 env fh cur c st s = .fail st' → getFile st'.files p = getFile st.files p) := by
  have hne : ∀ m : Path × Content, p ≠ env.out ++ m.1 := by
    intro m h; exact hp (h ▸ List.prefix_append _ _)
  have htgt : ∀ q, (s.kind = .openW ∨ s.kind = .write) → targetPath env cur s.target = some q → p ≠ q := by
    intro q hk hq
    have : s.target = .loopPath := by
      rcases hk with hk | hk <;> simpa [hk, Kind.isFsEffect] using hs
    rw [this] at hq
    cases cur with
    | none => simp [targetPath] at hq
    | some m => simp only [targetPath, Option.map_some, Option.some.injEq] at hq; rw [← hq]; exact hne m
  constructor
  · intro c' st' h
    unfold step1 at h
    cases hkind : s.kind <;> simp only [hkind] at h
    case mayRaise => cases fh <;> simp at h; rw [← h.2]
    case raise => cases fh <;> simp at h; rw [← h.2]
    case unknown => cases fh <;> simp at h; rw [← h.2]
    case encodeCheck => split at h <;> (cases h; try rfl)
    case openW =>
      split at h
      · rename_i q hq
        cases h
        simp only [getFile_setFile, if_neg (htgt q (Or.inl hkind) hq)]
      · cases h; rfl
    case write =>
      split at h
      · rename_i q hq
        split at h
        · cases h
          simp only [getFile_setFile, if_neg (htgt q (Or.inr hkind) hq)]
        · cases h
      · cases h; rfl
    all_goals (cases h; rfl)
  · intro st' h
    unfold step1 at h
    cases hkind : s.kind <;> simp only [hkind] at h
    case mayRaise => cases fh <;> simp at h; rw [← h, failState_files]
    case raise => cases fh <;> simp at h; rw [← h, failState_files]
    case unknown => cases fh <;> simp at h; rw [← h, failState_files]
    case encodeCheck => split at h <;> (cases h; try rw [failState_files])
    case openW => split at h <;> cases h
    case write =>
      split at h
      · split at h
        · cases h
        · cases h; rw [failState_files]
      · cases h
    all_goals cases h

theorem exec_outside (env : Env) (fault : Nat → Bool) (cur : Option (Path × Content))
    (steps : List Step) (hs : effectsOnLoopPath steps = true) (p : Path) (hp : ¬ env.out <+: p) :
    ∀ (i : Nat) (c : Bool) (st : St),
      getFile (exec env fault cur i c st steps).st.files p = getFile st.files p := by
  induction steps with
  | nil => intro i c st; rfl
  | cons s rest ih =>
    simp only [effectsOnLoopPath, List.all_cons, Bool.and_eq_true] at hs
    have ih := ih (by simpa [effectsOnLoopPath] using hs.2)
    intro i c st
    have h1 := step1_outside env (fault i) cur c st s hs.1 p hp
    unfold exec
    cases hres : step1 env (fault i) cur c st s with
    | next c' st' => simp only; rw [ih, h1.1 c' st' hres]
    | fail st' => exact h1.2 st' hres

theorem noEffect_effectsOnLoopPath {steps : List Step}
    (h : steps.all (fun s => !s.kind.isFsEffect) = true) : effectsOnLoopPath steps = true := by
  simp only [effectsOnLoopPath, List.all_eq_true] at h ⊢
  intro s hs
  have := h s hs
  simp [this]

theorem execLoop_outside (env : Env) (fault : Nat → Nat → Bool) (body : List Step)
    (hs : effectsOnLoopPath body = true) (p : Path) (hp : ¬ env.out <+: p) :
    ∀ (mods : List (Path × Content)) (k : Nat) (st : St),
      getFile (execLoop env fault body k st mods).st.files p = getFile st.files p := by
  intro mods
  induction mods with
  | nil => intro k st; rfl
  | cons m rest ih =>
    intro k st
    have h1 := exec_outside env (fault k) (some m) body hs p hp 0 false st
    simp only [execLoop]
    cases hres : exec env (fault k) (some m) 0 false st body with
    | done st' =>
      rw [hres] at h1
      simp only [Outcome.st] at h1
      exact (ih _ _).trans h1
    | failed st' => rw [hres] at h1; exact h1

/-- whatever happens (success or failure), no path outside the requested output changes -/
theorem run_outside (env : Env) (f : Faults) (pre body post : List Step)
    (h : writesOnlyInLoop pre body post = true) (st : St) (p : Path) (hp : ¬ env.out <+: p) :
    getFile (run env f pre body post st).st.files p = getFile st.files p := by
  simp only [writesOnlyInLoop, Bool.and_eq_true] at h
  obtain ⟨⟨h1, h3⟩, h2⟩ := h
  have e1 := exec_outside env f.pre none pre (noEffect_effectsOnLoopPath h1) p hp 0 false st
  unfold run
  cases hp1 : exec env f.pre none 0 false st pre with
  | failed s1 => rw [hp1] at e1; exact e1
  | done s1 =>
    rw [hp1] at e1
    simp only
    have e2 := execLoop_outside env f.loop body h2 p hp env.mods 0 s1
    cases hl : execLoop env f.loop body 0 s1 env.mods with
    | failed s2 => rw [hl] at e2; exact e2.trans e1
    | done s2 =>
      rw [hl] at e2
      exact ((exec_outside env f.post none post (noEffect_effectsOnLoopPath h3) p hp 0 false s2).trans e2).trans e1

/-! ### the working directory while the parse runs -/

theorem targetPath_none (env : Env) (t : Target) : targetPath env none t = none := by
  cases t <;> rfl

/-- without a fault and outside the write loop a step that is not an encode check goes on, leaves the files alone and moves
the working directory exactly as `cwdTrack` says -/
theorem step1_noFault_track (env : Env) (c : Bool) (st : St) (s : Step) (h : s.kind ≠ .encodeCheck) :
    ∃ c', step1 env false none c st s = .next c' ⟨st.files, cwdTrack env.chdirSteps st.cwd [s]⟩ := by
  unfold step1
  cases hk : s.kind <;> simp only [hk, cwdTrack, targetPath_none, Bool.false_eq_true, if_false] at h ⊢
  case encodeCheck => exact absurd rfl h
  all_goals exact ⟨_, rfl⟩

theorem cwdTrack_cons (cs : List CStep) (cwd : Cwd) (s : Step) (rest : List Step) :
    cwdTrack cs cwd (s :: rest) = cwdTrack cs (cwdTrack cs cwd [s]) rest := by
  simp only [cwdTrack]
  cases s.kind <;> rfl

/-- a fault-free execution of steps that contain no encode check (everything before `parser.parse()`): it completes, no file
changes, and the working directory is what `cwdTrack` computes — for every environment, file system and starting state -/
theorem exec_noFault_track (env : Env) (steps : List Step) (hne : noEncodeCheck steps = true) :
    ∀ (i : Nat) (c : Bool) (st : St),
      exec env (fun _ => false) none i c st steps = .done ⟨st.files, cwdTrack env.chdirSteps st.cwd steps⟩ := by
  induction steps with
  | nil => intro i c st; rfl
  | cons s rest ih =>
    intro i c st
    simp only [noEncodeCheck, List.all_cons, Bool.and_eq_true, bne_iff_ne, ne_eq] at hne
    obtain ⟨c', h1⟩ := step1_noFault_track env c st s hne.1
    have ih' := ih (by simpa [noEncodeCheck] using hne.2) (i + 1) c'
      ⟨st.files, cwdTrack env.chdirSteps st.cwd [s]⟩
    unfold exec
    rw [h1]
    simp only
    rw [ih', ← cwdTrack_cons]

/-! ### order of effects and failures on every path -/

theorem noEffectBeforeRaise_of_raiseFree (b : List FlatStep) (hb : b.all (fun t => !t.raises) = true) :
    noEffectBeforeRaise b = true := by
  induction b with
  | nil => rfl
  | cons s r ih =>
    simp only [List.all_cons, Bool.and_eq_true] at hb
    simp only [noEffectBeforeRaise, Bool.and_eq_true, Bool.or_eq_true]
    exact ⟨Or.inr hb.2, ih hb.2⟩

theorem noEffectBeforeRaise_append (a b : List FlatStep) (ha : a.all (fun t => !t.effect) = true)
    (hb : b.all (fun t => !t.raises) = true) : noEffectBeforeRaise (a ++ b) = true := by
  induction a with
  | nil => exact noEffectBeforeRaise_of_raiseFree b hb
  | cons s r ih =>
    simp only [List.all_cons, Bool.and_eq_true] at ha
    simp only [List.cons_append, noEffectBeforeRaise, Bool.and_eq_true, Bool.or_eq_true]
    exact ⟨Or.inl ha.1, ih ha.2⟩

theorem replicate_raiseFree (body : List FlatStep) (hb : body.all (fun t => !t.raises) = true) (n : Nat) :
    (List.replicate n body).flatten.all (fun t => !t.raises) = true := by
  induction n with
  | zero => rfl
  | succ k ih => rw [List.replicate_succ, List.flatten_cons, List.all_append, hb, ih]; rfl

/-- from the decidable side condition: on the path with ANY number of loop iterations no effect precedes a may-raise step -/
theorem fullPath_ordered (cs : List CStep) (pre body post : List Step) (h : effectsAfterRaises cs pre body post = true)
    (n : Nat) : noEffectBeforeRaise (fullPath cs pre body post n) = true := by
  simp only [effectsAfterRaises, Bool.and_eq_true, List.all_append] at h
  obtain ⟨hpre, hbody, hpost⟩ := h
  unfold fullPath
  rw [List.append_assoc]
  apply noEffectBeforeRaise_append _ _ hpre
  rw [List.all_append, Bool.and_eq_true]
  constructor
  · apply replicate_raiseFree
    rw [List.all_map]; exact hbody
  · rw [List.all_map]; exact hpost

end Dcg.Proofs.Write
