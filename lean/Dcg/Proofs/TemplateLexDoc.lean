import Dcg.Proofs.TemplateLex
import Dcg.Proofs.TemplateIndent
import Dcg.Proofs.TemplateSlots
/-
Docstring sites need no lexical hypothesis: for EVERY text `x`, the value
`x | escape_docstring | indent(w)` read inside a `"""…"""` literal leaves the lexer inside that
literal (with at most two quotes pending) — the escape makes three quotes in a row and a dangling
backslash impossible, and `indent` only rewrites line breaks, none of which follows a backslash.
-/
namespace Dcg.Proofs.TemplateLexDoc
open Dcg.Model.TemplateSyntax Dcg.Model.Template Dcg.Model.TemplateAbs Dcg.Model.TemplateLex Dcg.Model.Escape
open Dcg.Proofs.TemplateAbs Dcg.Proofs.TemplateLex Dcg.Proofs.TemplateIndent

/-- inside a `"""` literal, no backslash pending -/
def inT (q : LQ) : Bool := q == .t true || q == .t1 true || q == .t2 true

/-- reading `s` from `q` stays inside the `"""` literal, ends with no backslash pending, and the
character behind a backslash is never a line break -/
def docSafe : LQ → List Char → Bool
  | q, [] => inT q
  | q, c :: r =>
    if q = .tEsc true then !isBreak c && docSafe (.t true) r
    else inT q && (inT (lstep q c) || lstep q c == .tEsc true) && docSafe (lstep q c) r

/-- the state that corresponds to `run` quotes just written -/
def stOf (run : Nat) : LQ := if run = 0 then .t true else if run = 1 then .t1 true else .t2 true

theorem lstep_bs {q : LQ} (h : inT q = true) : lstep q '\\' = .tEsc true := by
  unfold inT at h
  simp only [Bool.or_eq_true, beq_iff_eq] at h
  rcases h with (rfl | rfl) | rfl <;> simp [lstep, stepT, quoteOf]

theorem lstep_plain_t {q : LQ} {c : Char} (h : inT q = true) (h1 : c ≠ '\\') (h2 : c ≠ '"') :
    lstep q c = .t true := by
  unfold inT at h
  simp only [Bool.or_eq_true, beq_iff_eq] at h
  rcases h with (rfl | rfl) | rfl <;> simp [lstep, stepT, quoteOf, h1, h2]

theorem inT_stOf (run : Nat) : inT (stOf run) = true := by
  unfold stOf inT
  split
  · rfl
  · split <;> rfl

theorem inT_ne_esc {q : LQ} (h : inT q = true) : q ≠ .tEsc true := by
  intro e; subst e; simp [inT] at h

theorem docSafe_esc (c : Char) (r : List Char) :
    docSafe (.tEsc true) (c :: r) = (!isBreak c && docSafe (.t true) r) := by
  rw [docSafe]; simp

theorem docSafe_plain {q : LQ} {c : Char} (r : List Char) (hq : inT q = true) (h1 : c ≠ '\\') (h2 : c ≠ '"') :
    docSafe q (c :: r) = docSafe (.t true) r := by
  rw [docSafe]
  simp only [inT_ne_esc hq, if_false, hq, lstep_plain_t hq h1 h2, Bool.true_and]
  simp [inT]

theorem docSafe_bs_pair {q : LQ} {c2 : Char} (r : List Char) (hq : inT q = true) (hc2 : isBreak c2 = false) :
    docSafe q ('\\' :: c2 :: r) = docSafe (.t true) r := by
  rw [docSafe]
  simp only [inT_ne_esc hq, if_false, hq, lstep_bs hq, Bool.true_and, docSafe_esc, hc2]
  simp

theorem docSafe_quote (run : Nat) (hr : run < 2) (r : List Char) :
    docSafe (stOf run) ('"' :: r) = docSafe (stOf (run + 1)) r := by
  have h : run = 0 ∨ run = 1 := by omega
  rcases h with rfl | rfl
  · rw [docSafe]
    have : lstep (stOf 0) '"' = stOf 1 := by simp [stOf, lstep, stepT, quoteOf]
    rw [this]
    simp [stOf, inT]
  · rw [docSafe]
    have : lstep (stOf 1) '"' = stOf 2 := by simp [stOf, lstep, stepT, quoteOf]
    rw [this]
    simp [stOf, inT]

/-- the escape keeps the lexer inside the literal, whatever the text -/
theorem docSafe_escDoc : ∀ (x : List Char) (run : Nat), run ≤ 2 → docSafe (stOf run) (escDoc run x) = true := by
  intro x
  induction x with
  | nil => intro run _; simp [escDoc, docSafe, inT_stOf]
  | cons c r ih =>
    intro run hrun
    have hin := inT_stOf run
    have h0 : docSafe (.t true) (escDoc 0 r) = true := by
      have := ih 0 (by omega); simpa [stOf] using this
    unfold escDoc
    by_cases hb : c = '\\'
    · simp only [hb, if_true]
      rw [docSafe_bs_pair _ hin (by simp [isBreak])]
      exact h0
    · simp only [hb, if_false]
      by_cases hz : c = Char.ofNat 0
      · simp only [hz, if_true]
        rw [docSafe_bs_pair _ hin (by simp [isBreak]),
          docSafe_plain _ (by simp [inT]) (by decide) (by decide),
          docSafe_plain _ (by simp [inT]) (by decide) (by decide)]
        exact h0
      · simp only [hz, if_false]
        by_cases hq : c = '"'
        · simp only [hq, if_true]
          by_cases h2 : run = 2
          · simp only [h2, if_true]
            rw [docSafe_bs_pair _ (inT_stOf 2) (by simp [isBreak])]
            exact h0
          · simp only [h2, if_false]
            rw [docSafe_quote run (by omega)]
            exact ih (run + 1) (by omega)
        · simp only [hq, if_false]
          rw [docSafe_plain _ hin hb hq]
          exact h0

def okT (q : LQ) : Prop := q = .t true ∨ q = .t1 true ∨ q = .t2 true

theorem inT_okT {q : LQ} (h : inT q = true) : okT q := by
  unfold inT at h
  simp only [Bool.or_eq_true, beq_iff_eq] at h
  rcases h with (h | h) | h
  · exact Or.inl h
  · exact Or.inr (Or.inl h)
  · exact Or.inr (Or.inr h)

theorem lrun_spaces_t (w : Nat) : lexAuto.run (.t true) (spaces w) = .t true := by
  induction w with
  | zero => rfl
  | succ n ih =>
    show lexAuto.run (lstep (.t true) ' ') (spaces n) = _
    have : lstep (.t true) ' ' = .t true := by simp [lstep, stepT, quoteOf]
    rw [this]; exact ih

theorem lstep_break_t {q : LQ} {c : Char} (h : inT q = true) (hb : isBreak c = true) : lstep q c = .t true := by
  apply lstep_plain_t h
  · intro e; subst e; simp [isBreak] at hb
  · intro e; subst e; simp [isBreak] at hb

theorem splitlines_crlf (r : List Char) : splitlines ('\r' :: '\n' :: r) = [] :: splitlines r := by
  rw [splitlines]

theorem splitlines_break {c : Char} {r : List Char} (hb : isBreak c = true)
    (hn : ¬ (c = '\r' ∧ ∃ r2, r = '\n' :: r2)) : splitlines (c :: r) = [] :: splitlines r := by
  rw [splitlines]
  · simp [hb]
  · intro r' h1 h2
    exact hn ⟨h1, r', h2⟩

theorem lrun_append (q : LQ) (a b : List Char) :
    lexAuto.run q (a ++ b) = lexAuto.run (lexAuto.run q a : LQ) b :=
  Dcg.Proofs.TemplateAbs.run_append lexAuto q a b

theorem lstep_nl_t {q : LQ} (hq : inT q = true) : lstep q '\n' = .t true :=
  lstep_break_t hq (by simp [isBreak])

/-- what remains to be read when a line break is met: the lines `L` of the rest -/
theorem after_break (w : Nat) {q : LQ} (hq : inT q = true) (L : List (List Char)) (hL : L ≠ [])
    (hB : okT (lexAuto.run (.t true) (joinNL (L.map (ind w))))) :
    okT (lexAuto.run q (fin w ([] :: L))) ∧
    okT (lexAuto.run (.t true) (joinNL (([] :: L).map (ind w)))) := by
  cases L with
  | nil => exact absurd rfl hL
  | cons f rest =>
    constructor
    · simp only [fin, List.isEmpty_cons, Bool.false_eq_true, if_false, List.nil_append]
      rw [lrun_cons, lstep_nl_t hq]
      exact hB
    · simp only [List.map_cons, joinNL_cons2]
      have : ind w [] = [] := by simp [ind]
      rw [this]
      simp only [List.nil_append]
      rw [lrun_cons, lstep_nl_t (by simp [inT])]
      exact hB

/-- joint statement over the structure of `splitlines`: (A) the indented text read from `q`,
(B) the continuation lines read from inside the literal -/
theorem indent_docSafe (w : Nat) (s : List Char) (q : LQ) (h : docSafe q s = true) :
    okT (lexAuto.run q (fin w (splitlines (s ++ ['\n'])))) ∧
    (q = .t true → okT (lexAuto.run (.t true) (joinNL ((splitlines (s ++ ['\n'])).map (ind w))))) := by
  match s with
  | [] =>
    simp only [docSafe] at h
    have e : splitlines ([] ++ ['\n']) = [[]] := by simp [splitlines_nl, splitlines]
    rw [e]
    refine ⟨?_, fun _ => ?_⟩
    · simp only [fin, List.isEmpty_nil, if_true]; exact inT_okT h
    · simp only [List.map_cons, List.map_nil, joinNL, ind, List.isEmpty_nil, if_true]; exact Or.inl rfl
  | c :: r =>
    have hne := splitlines_snoc_ne r
    show okT (lexAuto.run q (fin w (splitlines (c :: (r ++ ['\n']))))) ∧
      (q = .t true → okT (lexAuto.run (.t true) (joinNL ((splitlines (c :: (r ++ ['\n']))).map (ind w)))))
    by_cases hesc : q = .tEsc true
    · -- behind a backslash: `c` is not a break and is consumed
      subst hesc
      rw [docSafe_esc] at h
      simp only [Bool.and_eq_true, Bool.not_eq_true'] at h
      obtain ⟨hcb, hrest⟩ := h
      obtain ⟨ihA, _⟩ := indent_docSafe w r (.t true) hrest
      rw [splitlines_plain _ hcb]
      cases hL : splitlines (r ++ ['\n']) with
      | nil => exact absurd hL hne
      | cons f rest =>
        rw [hL] at ihA
        simp only [List.headD_cons, List.tail_cons]
        refine ⟨?_, fun hq => by cases hq⟩
        have : fin w ((c :: f) :: rest) = c :: fin w (f :: rest) := by
          simp only [fin]; split <;> simp
        rw [this, lrun_cons]
        exact ihA
    · rw [docSafe] at h
      simp only [hesc, if_false, Bool.and_eq_true] at h
      obtain ⟨⟨hq, _⟩, hrest⟩ := h
      by_cases hcb : isBreak c = true
      · have hstep : lstep q c = .t true := lstep_break_t hq hcb
        rw [hstep] at hrest
        by_cases hcr : c = '\r' ∧ ∃ r2, r ++ ['\n'] = '\n' :: r2
        · obtain ⟨hc, r2, hr2⟩ := hcr
          subst hc
          rw [hr2, splitlines_crlf]
          cases r with
          | nil =>
            -- the text ends in `\r`: together with the appended `\n` it is one boundary
            have : r2 = [] := by simpa using hr2.symm
            subst this
            simp only [splitlines]
            refine ⟨?_, fun _ => ?_⟩
            · simp only [fin, List.isEmpty_nil, if_true]; exact inT_okT hq
            · simp only [List.map_cons, List.map_nil, joinNL, ind, List.isEmpty_nil, if_true]; exact Or.inl rfl
          | cons d r3 =>
            have hd : d = '\n' ∧ r2 = r3 ++ ['\n'] := by
              have := hr2
              simp only [List.cons_append, List.cons.injEq] at this
              exact ⟨this.1, this.2.symm⟩
            obtain ⟨hd1, hd2⟩ := hd
            subst hd1 hd2
            have hrest' : docSafe (.t true) r3 = true := by
              rw [docSafe_plain _ (by simp [inT]) (by decide) (by decide)] at hrest
              exact hrest
            obtain ⟨_, ihB⟩ := indent_docSafe w r3 (.t true) hrest'
            have ⟨a, b⟩ := after_break w hq _ (splitlines_snoc_ne r3) (ihB rfl)
            exact ⟨a, fun _ => b⟩
        · have hsp : splitlines (c :: (r ++ ['\n'])) = [] :: splitlines (r ++ ['\n']) :=
            splitlines_break hcb hcr
          rw [hsp]
          obtain ⟨_, ihB⟩ := indent_docSafe w r (.t true) hrest
          have ⟨a, b⟩ := after_break w hq _ hne (ihB rfl)
          exact ⟨a, fun _ => b⟩
      · -- an ordinary character joins the current line
        have hcb' : isBreak c = false := by simpa using hcb
        obtain ⟨ihA, _⟩ := indent_docSafe w r (lstep q c) hrest
        rw [splitlines_plain _ hcb']
        cases hL : splitlines (r ++ ['\n']) with
        | nil => exact absurd hL hne
        | cons f rest =>
          rw [hL] at ihA
          simp only [List.headD_cons, List.tail_cons]
          have hfin : fin w ((c :: f) :: rest) = c :: fin w (f :: rest) := by
            simp only [fin]; split <;> simp
          constructor
          · rw [hfin, lrun_cons]; exact ihA
          · intro hqt
            subst hqt
            have : joinNL (((c :: f) :: rest).map (ind w)) = spaces w ++ c :: fin w (f :: rest) := by
              cases rest with
              | nil => simp [fin, joinNL, ind]
              | cons b rest' => simp [fin, joinNL_cons2, ind]
            rw [this, lrun_append, lrun_spaces_t, lrun_cons]
            exact ihA
termination_by s.length
decreasing_by
  all_goals simp_wf
  all_goals (try subst_vars)
  all_goals (try simp)
  all_goals omega

/-- **Docstring text cannot leave its literal, whatever the text** (indentation included): read
inside a `\"\"\"` literal, `x | escape_docstring | indent(w)` leaves the lexer inside that literal
with at most two quotes pending — which the template's own closing line (`\\n    \"\"\"`) resolves. -/
theorem docstring_value_stays_inside (w : Nat) (x : List Char) :
    okT (lexAuto.run (.t true) (indentStr w (escDoc 0 x))) := by
  rw [indentStr_eq]
  have := docSafe_escDoc x 0 (by omega)
  simp only [stOf, if_true] at this
  exact (indent_docSafe w _ _ this).1

/-! ### docstring sites satisfy the lexical hypothesis by construction -/

/-- `… | escape_docstring | indent(w)` at a site whose reviewed class is docstring text -/
def docSite (e : Expr) : Bool :=
  (match e with
   | .filter (.filter _ .escapeDocstring) (.indent _) => true
   | _ => false) && siteClass e == .docText

theorem evalOut_doc {env : Env} {e0 : Expr} {w : Nat} {v : List Char}
    (h : evalOut env (.filter (.filter e0 .escapeDocstring) (.indent w)) = .ok v) :
    ∃ x, v = indentStr w (escDoc 0 x) := by
  unfold evalOut at h
  obtain ⟨val, hval, h⟩ := bind_ok h
  simp only [eval] at hval
  obtain ⟨y, hy, hval⟩ := bind_ok hval
  obtain ⟨z, _, hy⟩ := bind_ok hy
  cases z with
  | str s0 =>
    simp only [applyFilter] at hy
    cases hy
    simp only [applyFilter] at hval
    cases hval
    simp only [toStr] at h
    cases h
    exact ⟨s0, rfl⟩
  | _ => simp only [applyFilter] at hy <;> cases hy

theorem lexHyp_of_inside {e : Expr} (hc : siteClass e = .docText) {v : List Char}
    (hv : okT (lexAuto.run (.t true) v)) : LexHyp e v := by
  constructor
  · intro q qs hs
    unfold lslot at hs
    split at hs
    · rename_i ha
      unfold siteAllowed at ha
      rw [hc] at ha
      cases q with
      | t d =>
        cases d with
        | true =>
          cases hs
          rcases hv with h | h | h
          · rw [h]; exact List.mem_cons_self
          · rw [h]; exact List.mem_cons_of_mem _ List.mem_cons_self
          · rw [h]; exact List.mem_cons_of_mem _ (List.mem_cons_of_mem _ List.mem_cons_self)
        | false => simp [Dcg.Model.Sites.allowed, LQ.proj, Dcg.Py.LexState.St.name] at ha
      | code => simp [Dcg.Model.Sites.allowed, LQ.proj, Dcg.Py.LexState.St.name] at ha
      | cmt => simp [Dcg.Model.Sites.allowed, LQ.proj, Dcg.Py.LexState.St.name] at ha
      | q1 d => cases d <;> simp [Dcg.Model.Sites.allowed, LQ.proj, Dcg.Py.LexState.St.name] at ha
      | s d => cases d <;> simp [Dcg.Model.Sites.allowed, LQ.proj, Dcg.Py.LexState.St.name] at ha
      | _ => simp at ha
    · cases hs
  · intro hl
    unfold loneLine at hl
    rw [hc] at hl
    simp at hl

/-- every recorded value of a docstring site is lexically neutral — no assumption on the text -/
theorem lexHyp_of_docSite {o : Out} (hfe : Dcg.Proofs.TemplateSlots.FromEval o) :
    ∀ p ∈ o.slots, docSite p.1 = true → LexHyp p.1 p.2 := by
  intro p hp hd
  obtain ⟨env1, hev⟩ := hfe p hp
  unfold docSite at hd
  simp only [Bool.and_eq_true, beq_iff_eq] at hd
  obtain ⟨hshape, hcls⟩ := hd
  obtain ⟨e, v⟩ := p
  simp only at hshape hcls hev ⊢
  cases e with
  | filter e1 f =>
    cases f with
    | indent w =>
      cases e1 with
      | filter e0 f0 =>
        cases f0 with
        | escapeDocstring =>
          obtain ⟨x, hx⟩ := evalOut_doc hev
          subst hx
          exact lexHyp_of_inside hcls (docstring_value_stays_inside w x)
        | _ => simp at hshape
      | _ => simp at hshape
    | _ => simp at hshape
  | _ => simp at hshape

end Dcg.Proofs.TemplateLexDoc
