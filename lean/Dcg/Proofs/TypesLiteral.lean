import Dcg.Proofs.TypesCall
/-!
`_remove_none_from_union` (`Union[…]` spelling, `Dcg.Model.Types.removeNoneU`, the character-level
transliteration of the depth-counting splitter) on unions with `Literal[…]` members — what literal
mode (`enum_field_as_literal`) makes of an enum that stands in an anyOf / oneOf with another type.

The items of a Literal are the `repr` texts of the enum values: arbitrary text between quotes.  The
splitter counts SQUARE brackets only and cuts at the commas it meets at depth 0; inside `Literal[`
it is at depth ≥ 1, so commas, blanks, the words `None` / `Optional[…]` / `Union[…]`, quotes are
all passed over — as long as the brackets INSIDE the values do not bring the count back to 0 at a
comma, below 0, or leave it open.  That is `literalItemsOK`: the argument text `", ".join(items)`
read from depth 1 ends at depth 1 and never meets a comma at depth 0 nor a `]` at depth 0
(`scanTop 1 … = some 1`).  Under it the member is a closed leaf of the union and comes back verbatim.
-/
namespace Dcg.Proofs.TypesLiteral
open Dcg.Model.Types Dcg.Proofs.Types Dcg.Proofs.TypesCall

/-- `Literal[i₁, i₂, …]` as `DataType.type_hint` writes it: the items are the `repr` texts -/
def literalText (items : List Str) : Str := sLiteralPrefix ++ joinSep sComma items ++ [']']

/-- the decidable region: the argument text, read from inside `Literal[`, ends where it began and
never meets a `,` at depth 0 nor a `]` that closes nothing -/
def literalItemsOK (items : List Str) : Bool := scanTop 1 (joinSep sComma items) == some 1

/-- an item that is closed by itself (sufficient, not necessary: `'['` and `']'` together are fine) -/
def itemClosed (it : Str) : Bool := scanTop 1 it == some 1

/-- `Union[m₁, m₂, …]` -/
def unionOf (ms : List Str) : Str := sUnionPrefix ++ joinSep sComma ms ++ [']']

/-- the members that are not the text `None` -/
def notNone (ms : List Str) : List Str := ms.filter (fun f => f != sNone)

theorem scanTop_bracketFree : ∀ (s : Str) (k : Nat), bracketFree s = true → scanTop (k + 1) s = some (k + 1) := by
  intro s
  induction s with
  | nil => intro k _; rfl
  | cons c cs ih =>
    intro k h
    simp only [bracketFree, List.all_cons, Bool.and_eq_true, bne_iff_ne, ne_eq] at h
    have := ih k (by simpa [bracketFree] using h.2)
    simp [scanTop, h.1.1, h.1.2, this]

theorem literalItemsOK_of_closed (items : List Str) (h : ∀ it ∈ items, itemClosed it = true) :
    literalItemsOK items = true := by
  unfold literalItemsOK
  rw [scanTop_joinSep 0 items (fun p hp => by simpa [itemClosed] using h p hp)]
  rfl

theorem literalItemsOK_of_bracketFree (items : List Str) (h : ∀ it ∈ items, bracketFree it = true) :
    literalItemsOK items = true :=
  literalItemsOK_of_closed items (fun it hit => by
    simp only [itemClosed, beq_iff_eq]
    exact scanTop_bracketFree it 0 (h it hit))

theorem literalText_ne_none (items : List Str) : literalText items ≠ sNone := by
  simp [literalText, sLiteralPrefix, sNone]

/-- under `literalItemsOK` the Literal is a closed leaf of a union: not empty, no blank at its
ends, not a `Union[`, brackets closed, no comma outside them -/
theorem closedLeaf_literal (items : List Str) (h : literalItemsOK items = true) :
    closedLeaf (literalText items) = true := by
  have hs : scanTop 0 (literalText items) = some 0 := by
    unfold literalText
    rw [scanTop_append, scanTop_append]
    have h0 : scanTop 0 sLiteralPrefix = some 1 := by decide
    have h1 : scanTop 1 (joinSep sComma items) = some 1 := by simpa [literalItemsOK] using h
    rw [h0]; simp only [Option.bind_some]; rw [h1]; simp only [Option.bind_some]
    simp [scanTop]
  have hl : (literalText items).getLast? = some ']' := by simp [literalText]
  have hh : (literalText items).head? = some 'L' := by simp [literalText, sLiteralPrefix]
  have hu : startsWith sUnionPrefix (literalText items) = false := by
    simp [startsWith, literalText, sLiteralPrefix, sUnionPrefix, List.isPrefixOf]
  have hne : (literalText items).isEmpty = false := by simp [literalText, sLiteralPrefix]
  have hsp1 : isSpace 'L' = false := by decide
  have hsp2 : isSpace ']' = false := by decide
  simp [closedLeaf, hs, hl, hh, hu, hne, hsp1, hsp2]

/-- **the splitter on closed members**: on `Union[m₁, …, mₖ]` whose members are closed leaves (the
text `None` is one), `_remove_none_from_union` returns the three-way end applied to the members
that are not `None` — each verbatim, in order, exactly once. -/
theorem removeNoneU_leaves (l : List Str) (h : ∀ f ∈ l, closedLeaf f = true) :
    removeNoneU (unionOf l) = mkText (notNone l) := by
  have htext : unionOf l = printU (.union (l.map UTree.leaf)) := by
    simp only [unionOf, printU, printUL_leaves]
  have hok : okU (.union (l.map UTree.leaf)) = true := by
    simp only [okU]; exact okUL_leaves _ h
  unfold removeNoneU
  rw [htext, removeNoneUF_printU _ hok _ (Nat.le_refl _)]
  simp only [rmTree, rmTreeL_leaves, printU_mkU_leaves, notNone]

theorem notNone_append (a b : List Str) : notNone (a ++ b) = notNone a ++ notNone b := by
  simp [notNone]

theorem notNone_literal (items : List Str) : notNone [literalText items] = [literalText items] := by
  have := literalText_ne_none items
  simp [notNone, this]

theorem mkText_ne_nil_none (l : List Str) (hne : l ≠ []) (h : ∀ f ∈ l, closedLeaf f = true ∧ f ≠ sNone) :
    mkText l ≠ [] ∧ mkText l ≠ sNone := by
  match l, hne with
  | [p], _ =>
    have hp := h p (by simp)
    constructor
    · intro e
      simp only [mkText] at e
      subst e
      simp [closedLeaf] at hp
    · simpa [mkText] using hp.2
  | a :: b :: r, _ =>
    constructor
    · simp [mkText, sUnionPrefix]
    · simp [mkText, sUnionPrefix, sNone]

/-! ### the `|` spelling: `re.split(r"\s*\|\s*")` does not look at brackets at all -/

/-- the region of the operator spelling: cutting the Literal's text at every `\s*\|\s*`, dropping the
pieces `None` and joining with `" | "` gives the text back (what `removeNoneB` does to it as soon as
the whole hint contains a `" | "`, which a union in this spelling does) -/
def pipeItemsOK (items : List Str) : Bool :=
  joinSep sPipe ((splitPipe (literalText items)).filter (· ≠ sNone)) == literalText items

end Dcg.Proofs.TypesLiteral
