import Dcg.Proofs.HintOp
/-
Dcg.Proofs.PrintInj — a hint has one reading: the printer is injective on the well-formed hint
expressions of all spellings (`wfB`: `Union[…]`/`Optional[…]` subscriptions and flat `a | b` unions).
The `|` unions are separated with a depth-aware splitter (`splitBar`), which is a left inverse of
`" | ".join` on texts without a `|` outside brackets.
-/
namespace Dcg.Proofs.PrintInj
open Dcg.Model.Types Dcg.Model.HintExpr Dcg.Proofs.Cover Dcg.Proofs.Types Dcg.Proofs.TypesOp Dcg.Proofs.HintOp
open Dcg.Sem.Typing hiding Str sNone sComma sPipe

/-- the expressions of the `Union[…]` spelling are well-formed hint expressions -/
theorem wfB_of_wfU : ∀ e, wfU e = true → wfB e = true := by
  apply TExpr.ind
  · intro s h; simpa [wfU, wfB] using h
  · intro h args ih hw
    simp only [wfU, Bool.and_eq_true] at hw
    simp only [wfB, Bool.and_eq_true]
    exact ⟨hw.1, wfBL_of_mem (fun a ha => ih a ha (wfUL_mem hw.2 a ha))⟩
  · intro args _ hw; simp [wfU] at hw

/-! ### depth scanners -/

/-- depth after reading `s` from depth `d`; `none` when a `]` closes nothing or a `|` stands at depth 0 -/
def scanBar : Nat → Str → Option Nat
  | d, [] => some d
  | d, c :: cs =>
    if c = '[' then scanBar (d + 1) cs
    else if c = ']' then (match d with | 0 => none | d' + 1 => scanBar d' cs)
    else if c = '|' then (match d with | 0 => none | _ + 1 => scanBar d cs)
    else scanBar d cs

theorem scanBar_append : ∀ (s r : Str) (d : Nat), scanBar d (s ++ r) = (scanBar d s).bind (fun d' => scanBar d' r) := by
  intro s
  induction s with
  | nil => intro r d; simp [scanBar]
  | cons c cs ih =>
    intro r d
    simp only [List.cons_append, scanBar]
    split
    · exact ih _ _
    · split
      · cases d with
        | zero => simp
        | succ d' => exact ih _ _
      · split
        · cases d with
          | zero => simp
          | succ d' => exact ih _ _
        · exact ih _ _

theorem scanBar_plain : ∀ (s : Str), s.all (fun c => !special c) = true → ∀ k, scanBar k s = some k := by
  intro s
  induction s with
  | nil => intro _ k; rfl
  | cons c cs ih =>
    intro h k
    simp only [List.all_cons, Bool.and_eq_true, special, Bool.not_eq_true', Bool.or_eq_false_iff, decide_eq_false_iff_not] at h
    obtain ⟨⟨⟨⟨h1, h2⟩, _⟩, h4⟩, hr⟩ := h
    simp only [scanBar, h1, h2, h4, if_false]
    exact ih (by simpa [special] using hr) k

theorem scanBar_joinSep (d : Nat) (sep : Str) (hsep : scanBar d sep = some d) : ∀ (ps : List Str),
    (∀ p ∈ ps, scanBar d p = some d) → scanBar d (joinSep sep ps) = some d := by
  intro ps
  induction ps with
  | nil => intro _; rfl
  | cons p r ih =>
    intro h
    cases r with
    | nil => simpa [joinSep] using h p (List.mem_cons_self ..)
    | cons q r' =>
      rw [joinSep_cons_cons, scanBar_append, h p (List.mem_cons_self ..)]
      simp only [Option.bind_some]
      rw [scanBar_append, hsep]
      simp only [Option.bind_some]
      exact ih (fun x hx => h x (List.mem_cons_of_mem _ hx))

theorem scanTop_joinSep' (d : Nat) (sep : Str) (hsep : scanTop d sep = some d) : ∀ (ps : List Str),
    (∀ p ∈ ps, scanTop d p = some d) → scanTop d (joinSep sep ps) = some d := by
  intro ps
  induction ps with
  | nil => intro _; rfl
  | cons p r ih =>
    intro h
    cases r with
    | nil => simpa [joinSep] using h p (List.mem_cons_self ..)
    | cons q r' =>
      rw [joinSep_cons_cons, scanTop_append, h p (List.mem_cons_self ..)]
      simp only [Option.bind_some]
      rw [scanTop_append, hsep]
      simp only [Option.bind_some]
      exact ih (fun x hx => h x (List.mem_cons_of_mem _ hx))

/-- a printed hint expression has its commas inside brackets -/
theorem scanTop_print_wfB : ∀ e, wfB e = true → ∀ k, scanTop k (print e) = some k := by
  apply TExpr.ind
  · intro s h k
    simp only [wfB] at h
    rw [print_atom]; exact scanTop_plain s (plainTok_parts s h).2.1 k
  · intro h args ih hw k
    simp only [wfB, Bool.and_eq_true] at hw
    obtain ⟨⟨hh, _⟩, hargs⟩ := hw
    rw [print_app, scanTop_append, scanTop_plain h (plainTok_parts h hh).2.1 k]
    simp only [Option.bind_some, scanTop, if_true]
    rw [scanTop_append, printL_eq_joinSep]
    have : scanTop (k + 1) (joinSep sComma (args.map print)) = some (k + 1) := by
      apply scanTop_joinSep' (k + 1) sComma (by simp [sComma, scanTop])
      intro p hp
      simp only [List.mem_map] at hp
      obtain ⟨a, ha, rfl⟩ := hp
      exact ih a ha (wfBL_mem hargs a ha) (k + 1)
    have e : Dcg.Sem.Typing.sComma = sComma := rfl
    rw [e, this]
    simp [scanTop]
  · intro args ih hw k
    obtain ⟨_, hwf, _, _⟩ := wfB_bor_parts hw
    rw [print_bor, printL_eq_joinSep]
    have e : Dcg.Sem.Typing.sPipe = sPipe := rfl
    rw [e]
    apply scanTop_joinSep' k sPipe (by simp [sPipe, scanTop])
    intro p hp
    simp only [List.mem_map] at hp
    obtain ⟨a, ha, rfl⟩ := hp
    exact ih a ha (hwf a ha) k

/-- … and its `|` inside brackets, unless it is a `|` union itself -/
theorem scanBar_print_wfB : ∀ e, wfB e = true →
    (∀ k, scanBar (k + 1) (print e) = some (k + 1)) ∧ (isBor e = false → ∀ k, scanBar k (print e) = some k) := by
  apply TExpr.ind
  · intro s h
    simp only [wfB] at h
    have := scanBar_plain s (plainTok_parts s h).2.1
    rw [print_atom]
    exact ⟨fun k => this (k + 1), fun _ k => this k⟩
  · intro h args ih hw
    simp only [wfB, Bool.and_eq_true] at hw
    obtain ⟨⟨hh, _⟩, hargs⟩ := hw
    have hall : ∀ k, scanBar k (print (.app h args)) = some k := by
      intro k
      rw [print_app, scanBar_append, scanBar_plain h (plainTok_parts h hh).2.1 k]
      simp only [Option.bind_some, scanBar, if_true]
      rw [scanBar_append, printL_eq_joinSep]
      have : scanBar (k + 1) (joinSep sComma (args.map print)) = some (k + 1) := by
        apply scanBar_joinSep (k + 1) sComma (by simp [sComma, scanBar])
        intro p hp
        simp only [List.mem_map] at hp
        obtain ⟨a, ha, rfl⟩ := hp
        exact (ih a ha (wfBL_mem hargs a ha)).1 k
      have e : Dcg.Sem.Typing.sComma = sComma := rfl
      rw [e, this]
      simp [scanBar]
    exact ⟨fun k => hall (k + 1), fun _ k => hall k⟩
  · intro args ih hw
    obtain ⟨_, hwf, hub, _⟩ := wfB_bor_parts hw
    refine ⟨?_, by intro hb; simp [isBor] at hb⟩
    intro k
    rw [print_bor, printL_eq_joinSep]
    have e : Dcg.Sem.Typing.sPipe = sPipe := rfl
    rw [e]
    apply scanBar_joinSep (k + 1) sPipe (by simp [sPipe, scanBar])
    intro p hp
    simp only [List.mem_map] at hp
    obtain ⟨a, ha, rfl⟩ := hp
    exact (ih a ha (hwf a ha)).2 (hub a ha) (k + 1)

/-! ### splitting a flat union at its own `|`s -/

/-- split at every `|` at bracket depth 0, dropping the one blank before and after it -/
def splitBar : Str → Nat → Str → Bool → List Str
  | [], _, cur, _ => [cur]
  | c :: cs, d, cur, skip =>
    if skip then splitBar cs d cur false
    else if c = '[' then splitBar cs (d + 1) (cur ++ [c]) false
    else if c = ']' then splitBar cs (d - 1) (cur ++ [c]) false
    else if c = '|' ∧ d = 0 then cur.dropLast :: splitBar cs 0 [] true
    else splitBar cs d (cur ++ [c]) false

theorem splitBar_pass : ∀ (p rest cur : Str) (d d' : Nat), scanBar d p = some d' →
    splitBar (p ++ rest) d cur false = splitBar rest d' (cur ++ p) false := by
  intro p
  induction p with
  | nil => intro rest cur d d' h; simp only [scanBar, Option.some.injEq] at h; subst h; simp
  | cons c cs ih =>
    intro rest cur d d' h
    simp only [scanBar] at h
    simp only [List.cons_append, splitBar, Bool.false_eq_true, if_false]
    split
    · rename_i hc
      simp only [hc, if_true] at h
      rw [ih rest _ _ _ h]; simp
    · rename_i hc
      simp only [hc, if_false] at h
      split
      · rename_i hc2
        simp only [hc2, if_true] at h
        cases d with
        | zero => simp at h
        | succ d0 =>
          simp only [] at h
          rw [show d0 + 1 - 1 = d0 from rfl, ih rest _ _ _ h]; simp
      · rename_i hc2
        simp only [hc2, if_false] at h
        split
        · rename_i hc3
          obtain ⟨hc3, rfl⟩ := hc3
          simp [hc3] at h
        · rename_i hc3
          have h' : scanBar d cs = some d' := by
            by_cases hb : c = '|'
            · cases d with
              | zero => exact absurd ⟨hb, rfl⟩ hc3
              | succ d0 => simpa [hb] using h
            · simpa [hb] using h
          rw [ih rest _ _ _ h']; simp

theorem splitBar_join : ∀ (ps : List Str), ps ≠ [] → (∀ p ∈ ps, scanBar 0 p = some 0) →
    splitBar (joinSep sPipe ps) 0 [] false = ps := by
  intro ps
  induction ps with
  | nil => intro h; exact absurd rfl h
  | cons p r ih =>
    intro _ h
    cases r with
    | nil =>
      have := splitBar_pass p [] [] 0 0 (h p (List.mem_cons_self ..))
      simp only [List.append_nil, List.nil_append] at this
      simp only [joinSep]
      rw [this]; simp [splitBar]
    | cons q r' =>
      rw [joinSep_cons_cons, splitBar_pass p _ [] 0 0 (h p (List.mem_cons_self ..))]
      have hsp : (' ' : Char) ≠ '[' ∧ (' ' : Char) ≠ ']' ∧ (' ' : Char) ≠ '|' := by decide
      have hbar : ('|' : Char) ≠ '[' ∧ ('|' : Char) ≠ ']' := by decide
      simp only [sPipe, List.cons_append, List.nil_append, splitBar, Bool.false_eq_true, if_false, if_true,
        hsp.1, hsp.2.1, hsp.2.2, hbar.1, hbar.2, false_and, and_self, List.dropLast_concat]
      congr 1
      exact ih (by simp) (fun x hx => h x (List.mem_cons_of_mem _ hx))

/-! ### the printer is injective -/

theorem map_print_inj : ∀ (args args' : List TExpr),
    (∀ a ∈ args, ∀ e', wfB e' = true → print a = print e' → a = e') → (∀ a' ∈ args', wfB a' = true) →
    args.map print = args'.map print → args = args' := by
  intro args
  induction args with
  | nil =>
    intro args' _ _ h
    cases args' with
    | nil => rfl
    | cons _ _ => simp at h
  | cons a l ih =>
    intro args' hi hw h
    cases args' with
    | nil => simp at h
    | cons a' l' =>
      simp only [List.map_cons, List.cons.injEq] at h
      rw [hi a (List.mem_cons_self ..) a' (hw a' (List.mem_cons_self ..)) h.1,
        ih l' (fun x hx => hi x (List.mem_cons_of_mem _ hx)) (fun x hx => hw x (List.mem_cons_of_mem _ hx)) h.2]

theorem print_bor_has_pipe (args : List TExpr) (hw : wfB (.bor args) = true) : '|' ∈ print (.bor args) := by
  obtain ⟨hlen, _, _, _⟩ := wfB_bor_parts hw
  match args, hlen with
  | a :: b :: r, _ => rw [print_bor, printL_cons_cons]; simp [Dcg.Sem.Typing.sPipe]

theorem splitBar_print_bor (args : List TExpr) (hw : wfB (.bor args) = true) :
    splitBar (print (.bor args)) 0 [] false = args.map print := by
  obtain ⟨hlen, hwf, hub, _⟩ := wfB_bor_parts hw
  rw [print_bor, printL_eq_joinSep]
  have e : Dcg.Sem.Typing.sPipe = sPipe := rfl
  rw [e]
  apply splitBar_join
  · intro hc
    have : args = [] := by simpa using hc
    subst this; simp at hlen
  · intro p hp
    simp only [List.mem_map] at hp
    obtain ⟨a, ha, rfl⟩ := hp
    exact (scanBar_print_wfB a (hwf a ha)).2 (hub a ha) 0

theorem splitBar_print_unit (e : TExpr) (hw : wfB e = true) (hu : isBor e = false) :
    splitBar (print e) 0 [] false = [print e] := by
  have := splitBar_join [print e] (by simp) (by
    intro p hp
    simp only [List.mem_singleton] at hp
    subst hp
    exact (scanBar_print_wfB e hw).2 hu 0)
  simpa [joinSep] using this

/-- `hint_unambiguous`, all spellings: two different well-formed hint expressions never print to
the same text. -/
theorem print_inj_wfB : ∀ e, wfB e = true → ∀ e', wfB e' = true → print e = print e' → e = e' := by
  apply TExpr.ind
  · intro s hs e' he' hp
    simp only [wfB] at hs
    have hpl := (plainTok_parts s hs).2.1
    cases e' with
    | atom s' => rw [print_atom, print_atom] at hp; rw [hp]
    | app h' args' =>
      rw [print_atom, print_app] at hp
      exact absurd (hp ▸ (by simp : '[' ∈ h' ++ '[' :: (printL Dcg.Sem.Typing.sComma args' ++ [']']))) (plain_no_bracket s hpl)
    | bor a =>
      rw [print_atom] at hp
      exact absurd (hp ▸ print_bor_has_pipe a he') (plain_no_pipe s hpl)
  · intro h args ih hw e' he' hp
    cases e' with
    | atom s' =>
      rw [print_atom, print_app] at hp
      simp only [wfB] at he'
      exact absurd (hp.symm ▸ (by simp : '[' ∈ h ++ '[' :: (printL Dcg.Sem.Typing.sComma args ++ [']']))) (plain_no_bracket s' (plainTok_parts s' he').2.1)
    | bor a =>
      have h1 := splitBar_print_unit (.app h args) hw rfl
      have h2 := splitBar_print_bor a he'
      rw [hp, h2] at h1
      obtain ⟨hlen, _, _, _⟩ := wfB_bor_parts he'
      have := congrArg List.length h1
      simp at this
      omega
    | app h' args' =>
      have hw0 := hw
      have he0 := he'
      rw [print_app, print_app] at hp
      simp only [wfB, Bool.and_eq_true] at hw he'
      obtain ⟨hh, hr⟩ := append_bracket_inj h h' _ _ (plain_no_bracket h (plainTok_parts h hw.1.1).2.1)
        (plain_no_bracket h' (plainTok_parts h' he'.1.1).2.1) hp
      subst hh
      have hJ : printL Dcg.Sem.Typing.sComma args = printL Dcg.Sem.Typing.sComma args' := List.append_cancel_right hr
      rw [printL_eq_joinSep, printL_eq_joinSep] at hJ
      have hm := wfBL_mem hw.2
      have hm' := wfBL_mem he'.2
      have hmaps : args.map print = args'.map print := by
        apply joinSep_comma_inj _ _ _ _ _ _ hJ
        · intro p hp; simp only [List.mem_map] at hp; obtain ⟨a, ha, rfl⟩ := hp; exact scanTop_print_wfB a (hm a ha) 0
        · intro p hp; simp only [List.mem_map] at hp; obtain ⟨a, ha, rfl⟩ := hp; exact scanTop_print_wfB a (hm' a ha) 0
        · intro p hp; simp only [List.mem_map] at hp; obtain ⟨a, ha, rfl⟩ := hp; exact print_ne_nil_of_wfB a (hm a ha)
        · intro p hp; simp only [List.mem_map] at hp; obtain ⟨a, ha, rfl⟩ := hp; exact print_ne_nil_of_wfB a (hm' a ha)
      congr 1
      exact map_print_inj args args' (fun a ha => ih a ha (hm a ha)) hm' hmaps
  · intro args ih hw e' he' hp
    obtain ⟨hlen, hwf, _, _⟩ := wfB_bor_parts hw
    cases e' with
    | atom s' =>
      rw [print_atom] at hp
      simp only [wfB] at he'
      exact absurd (hp ▸ print_bor_has_pipe args hw) (plain_no_pipe s' (plainTok_parts s' he').2.1)
    | app h' args' =>
      have h1 := splitBar_print_unit (.app h' args') he' rfl
      have h2 := splitBar_print_bor args hw
      rw [← hp, h2] at h1
      have := congrArg List.length h1
      simp at this
      omega
    | bor args' =>
      have h1 := splitBar_print_bor args hw
      have h2 := splitBar_print_bor args' he'
      rw [hp, h2] at h1
      obtain ⟨_, hwf', _, _⟩ := wfB_bor_parts he'
      congr 1
      exact (map_print_inj args args' (fun a ha => ih a ha (hwf a ha)) hwf' h1.symm)

end Dcg.Proofs.PrintInj
