import Dcg.Model.Imports
/-
Helper lemmas for C02: association lists, what each primitive of the `Imports` state machine
does to the observable parts of the state (count / presence / alias), and the invariants.
-/
namespace Dcg.Proofs.Imports
open Dcg.Model.Types Dcg.Model.Imports

theorem lookup_cons_eq {α β} [DecidableEq α] [BEq α] [LawfulBEq α] (k : α) (v : β) (l : List (α × β)) :
    ((k, v) :: l).lookup k = some v := by simp [List.lookup]

theorem lookup_cons_ne {α β} [DecidableEq α] [BEq α] [LawfulBEq α] (k k' : α) (v : β) (l : List (α × β)) (h : k' ≠ k) :
    ((k, v) :: l).lookup k' = l.lookup k' := by
  have : (k' == k) = false := by simpa using h
  simp [List.lookup, this]

theorem lookup_setKV_same {α β} [DecidableEq α] [BEq α] [LawfulBEq α] (k : α) (v : β) (l : List (α × β)) :
    (setKV k v l).lookup k = some v := by
  induction l with
  | nil => exact lookup_cons_eq k v []
  | cons p r ih =>
    obtain ⟨k', v'⟩ := p
    by_cases h : k' = k
    · simp only [setKV, h, if_true]; exact lookup_cons_eq k v r
    · simp only [setKV, h, if_false]; rw [lookup_cons_ne _ _ _ _ (Ne.symm h)]; exact ih

theorem lookup_setKV_other {α β} [DecidableEq α] [BEq α] [LawfulBEq α] (k k' : α) (v : β) (l : List (α × β)) (h : k' ≠ k) :
    (setKV k v l).lookup k' = l.lookup k' := by
  induction l with
  | nil => simp only [setKV]; rw [lookup_cons_ne _ _ _ _ h]
  | cons p r ih =>
    obtain ⟨k2, v2⟩ := p
    by_cases h2 : k2 = k
    · subst h2
      simp only [setKV, if_true]
      rw [lookup_cons_ne _ _ _ _ h, lookup_cons_ne _ _ _ _ h]
    · simp only [setKV, h2, if_false]
      by_cases h3 : k' = k2
      · subst h3; rw [lookup_cons_eq, lookup_cons_eq]
      · rw [lookup_cons_ne _ _ _ _ h3, lookup_cons_ne _ _ _ _ h3]; exact ih

theorem lookup_delK_same {α β} [DecidableEq α] [BEq α] [LawfulBEq α] (k : α) (l : List (α × β)) :
    (delK k l).lookup k = none := by
  induction l with
  | nil => rfl
  | cons p r ih =>
    obtain ⟨k', v'⟩ := p
    by_cases h : k' = k
    · have : delK k ((k', v') :: r) = delK k r := by simp [delK, h]
      rw [this]; exact ih
    · have : delK k ((k', v') :: r) = (k', v') :: delK k r := by simp [delK, h]
      rw [this, lookup_cons_ne _ _ _ _ (Ne.symm h)]; exact ih

theorem lookup_delK_other {α β} [DecidableEq α] [BEq α] [LawfulBEq α] (k k' : α) (l : List (α × β)) (h : k' ≠ k) :
    (delK k l).lookup k' = l.lookup k' := by
  induction l with
  | nil => rfl
  | cons p r ih =>
    obtain ⟨k2, v2⟩ := p
    by_cases h2 : k2 = k
    · have : delK k ((k2, v2) :: r) = delK k r := by simp [delK, h2]
      subst h2
      rw [this, lookup_cons_ne _ _ _ _ h]; exact ih
    · have : delK k ((k2, v2) :: r) = (k2, v2) :: delK k r := by simp [delK, h2]
      rw [this]
      by_cases h3 : k' = k2
      · subst h3; rw [lookup_cons_eq, lookup_cons_eq]
      · rw [lookup_cons_ne _ _ _ _ h3, lookup_cons_ne _ _ _ _ h3]; exact ih


theorem count_addName (s : State) (k0 k : Key) :
    count (addName s k0) k = if k = k0 then count s k0 + 1 else count s k := by
  by_cases h : k = k0
  · subst h; simp only [addName, count, lookup_setKV_same, if_true, Option.getD_some]
  · simp only [addName, count, lookup_setKV_other _ _ _ _ h, h, if_false]

theorem names_addName (s : State) (k0 : Key) (f : Option Str) :
    names (addName s k0) f =
      if f = k0.1 then (if (names s k0.1).contains k0.2 then names s k0.1 else names s k0.1 ++ [k0.2])
      else names s f := by
  by_cases h : f = k0.1
  · subst h; simp only [addName, names, lookup_setKV_same, if_true, Option.getD_some]
  · simp only [addName, names, lookup_setKV_other _ _ _ _ h, h, if_false]

theorem present_addName (s : State) (k0 k : Key) :
    present (addName s k0) k = (present s k || decide (k = k0)) := by
  unfold present
  rw [names_addName]
  by_cases h1 : k.1 = k0.1
  · simp only [h1, if_true]
    by_cases hc : (names s k0.1).contains k0.2 = true
    · simp only [hc, if_true]
      by_cases h2 : k = k0
      · subst h2; rw [hc]; simp
      · simp [h2]
    · simp only [hc]
      by_cases h2 : k = k0
      · subst h2; simp
      · have : k.2 ≠ k0.2 := fun h => h2 (Prod.ext h1 h)
        simp [h2, this]
  · have : k ≠ k0 := fun h => h1 (by rw [h])
    simp [h1, this]

theorem aliasOf_addName (s : State) (k0 k : Key) : aliasOf (addName s k0) k = aliasOf s k := rfl

theorem count_recordRef (s : State) (i : Imp) (k : Key) : count (recordRef s i) k = count s k := by
  unfold recordRef; split
  · split <;> rfl
  · rfl
theorem present_recordRef (s : State) (i : Imp) (k : Key) : present (recordRef s i) k = present s k := by
  unfold recordRef; split
  · split <;> rfl
  · rfl
theorem aliasOf_recordRef (s : State) (i : Imp) (k : Key) : aliasOf (recordRef s i) k = aliasOf s k := by
  unfold recordRef; split
  · split <;> rfl
  · rfl

theorem count_setAlias (s : State) (i : Imp) (k : Key) : count (setAlias s i) k = count s k := by
  unfold setAlias; split
  · rfl
  · split
    · split <;> rfl
    · rfl
theorem present_setAlias (s : State) (i : Imp) (k : Key) : present (setAlias s i) k = present s k := by
  unfold setAlias; split
  · rfl
  · split
    · split <;> rfl
    · rfl
/-- an alias appears only for the key of the import being appended -/
theorem aliasOf_setAlias (s : State) (i : Imp) (k : Key) (h : k ≠ keyOf i) :
    aliasOf (setAlias s i) k = aliasOf s k := by
  unfold setAlias; split
  · rfl
  · split
    · split
      · rfl
      · simp only [aliasOf]; exact lookup_setKV_other _ _ _ _ h
    · rfl

theorem count_append1 (s : State) (i : Imp) (k : Key) :
    count (append1 s i) k = if k = keyOf i then count s (keyOf i) + 1 else count s k := by
  unfold append1
  rw [count_setAlias, count_addName, count_recordRef, count_recordRef]

theorem present_append1 (s : State) (i : Imp) (k : Key) :
    present (append1 s i) k = (present s k || decide (k = keyOf i)) := by
  unfold append1
  rw [present_setAlias, present_addName, present_recordRef]

theorem aliasOf_append1 (s : State) (i : Imp) (k : Key) (h : k ≠ keyOf i) :
    aliasOf (append1 s i) k = aliasOf s k := by
  unfold append1
  rw [aliasOf_setAlias _ _ _ h, aliasOf_addName, aliasOf_recordRef]

theorem count_setCount (s : State) (k0 : Key) (c : Int) (k : Key) :
    count (setCount s k0 c) k = if k = k0 then c else count s k := by
  by_cases h : k = k0
  · subst h; simp only [setCount, count, lookup_setKV_same, if_true, Option.getD_some]
  · simp only [setCount, count, lookup_setKV_other _ _ _ _ h, h, if_false]
theorem present_setCount (s : State) (k0 : Key) (c : Int) (k : Key) : present (setCount s k0 c) k = present s k := rfl
theorem aliasOf_setCount (s : State) (k0 : Key) (c : Int) (k : Key) : aliasOf (setCount s k0 c) k = aliasOf s k := rfl

theorem count_dropName (s : State) (k0 k : Key) : count (dropName s k0) k = count s k := rfl
theorem aliasOf_dropName (s : State) (k0 k : Key) : aliasOf (dropName s k0) k = aliasOf s k := rfl

theorem names_dropName (s : State) (k0 : Key) (f : Option Str) :
    names (dropName s k0) f = if f = k0.1 then (names s k0.1).filter (· ≠ k0.2) else names s f := by
  by_cases he : (names s k0.1).filter (· ≠ k0.2) = []
  · have hd : dropName s k0 = { s with imports := delK k0.1 s.imports } := by
      simp only [dropName, he, if_true]
    rw [hd]
    by_cases h : f = k0.1
    · subst h; rw [if_pos rfl, he]; simp only [names, lookup_delK_same, Option.getD_none]
    · simp only [h, if_false, names, lookup_delK_other _ _ _ h]
  · have hd : dropName s k0 = { s with imports := setKV k0.1 ((names s k0.1).filter (· ≠ k0.2)) s.imports } := by
      simp only [dropName, he, if_false]
    rw [hd]
    by_cases h : f = k0.1
    · subst h; simp only [if_true, names, lookup_setKV_same, Option.getD_some]
    · simp only [h, if_false, names, lookup_setKV_other _ _ _ _ h]

theorem present_dropName (s : State) (k0 k : Key) :
    present (dropName s k0) k = (present s k && !decide (k = k0)) := by
  unfold present
  rw [names_dropName]
  by_cases h1 : k.1 = k0.1
  · simp only [h1, if_true]
    by_cases h2 : k = k0
    · subst h2; simp
    · have : k.2 ≠ k0.2 := fun h => h2 (Prod.ext h1 h)
      simp [h2, this, List.contains_iff_mem, List.mem_filter]
  · have : k ≠ k0 := fun h => h1 (by rw [h])
    simp [h1, this]

/-- a positive counter means the name is there -/
def I1 (s : State) : Prop := ∀ k, count s k > 0 → present s k = true
/-- … and conversely; and aliases only for present names -/
def I2 (s : State) : Prop := ∀ k, present s k = true → count s k > 0
def I3 (s : State) : Prop := ∀ k, (aliasOf s k).isSome = true → present s k = true

theorem I1_append1 (s : State) (i : Imp) (h : I1 s) : I1 (append1 s i) := by
  intro k hk
  rw [present_append1]
  rw [count_append1] at hk
  by_cases hkk : k = keyOf i
  · simp [hkk]
  · simp only [hkk, if_false] at hk
    simp [h k hk]

theorem count_dropAlias (s s' : State) (i : Imp) (h : dropAlias s i = some s') (k : Key) : count s' k = count s k := by
  unfold dropAlias at h
  split at h
  · cases h; rfl
  · split at h
    · split at h
      · cases h; rfl
      · split at h
        · cases h
        · cases h; rfl
    · cases h; rfl

theorem present_dropAlias (s s' : State) (i : Imp) (h : dropAlias s i = some s') (k : Key) : present s' k = present s k := by
  unfold dropAlias at h
  split at h
  · cases h; rfl
  · split at h
    · split at h
      · cases h; rfl
      · split at h
        · cases h
        · cases h; rfl
    · cases h; rfl

theorem aliasOf_dropAlias_other (s s' : State) (i : Imp) (h : dropAlias s i = some s') (k : Key) (hk : k ≠ keyOf i) :
    aliasOf s' k = aliasOf s k := by
  unfold dropAlias at h
  split at h
  · cases h; rfl
  · split at h
    · split at h
      · cases h; rfl
      · split at h
        · cases h
        · cases h; simp only [aliasOf]; exact lookup_delK_other _ _ _ hk
    · cases h; rfl

theorem I1_remove1 (s s' : State) (i : Imp) (h : I1 s) (hr : remove1 s i = some s') : I1 s' := by
  unfold remove1 at hr
  simp only [] at hr
  split at hr
  · -- the counter reaches 0: the name goes
    rename_i hc
    split at hr
    · intro k hk
      rw [present_dropAlias _ _ _ hr, present_dropName, present_setCount]
      rw [count_dropAlias _ _ _ hr, count_dropName, count_setCount] at hk
      by_cases hkk : k = keyOf i
      · simp only [hkk, if_true] at hk; omega
      · simp only [hkk, if_false] at hk
        simp [h k hk, hkk]
    · cases hr
  · rename_i hc
    cases hr
    intro k hk
    rw [present_setCount]
    rw [count_setCount] at hk
    by_cases hkk : k = keyOf i
    · simp only [hkk, if_true] at hk
      apply h; rw [hkk]; omega
    · simp only [hkk, if_false] at hk
      exact h k hk

theorem I1_removeAll (is : List Imp) : ∀ (s s' : State), I1 s → removeAll s is = some s' → I1 s' := by
  induction is with
  | nil => intro s s' h hr; simp only [removeAll] at hr; cases hr; exact h
  | cons i is ih =>
    intro s s' h hr
    simp only [removeAll] at hr
    split at hr
    · rename_i s1 h1; exact ih s1 s' (I1_remove1 s s1 i h h1) hr
    · cases hr

theorem I1_foldl_append (is : List Imp) : ∀ s, I1 s → I1 (is.foldl append1 s) := by
  induction is with
  | nil => intro s h; exact h
  | cons i is ih => intro s h; exact ih _ (I1_append1 s i h)

theorem I1_step (s s' : State) (op : Op) (h : I1 s) (hs : step s op = some s') : I1 s' := by
  cases op with
  | append is => simp only [step] at hs; cases hs; exact I1_foldl_append is s h
  | remove is => exact I1_removeAll is s s' h hs
  | removeRef p =>
    simp only [step] at hs
    split at hs
    · exact I1_remove1 s s' _ h hs
    · cases hs; exact h

theorem I1_run (ops : List Op) : ∀ (s s' : State), I1 s → run s ops = some s' → I1 s' := by
  induction ops with
  | nil => intro s s' h hr; simp only [run] at hr; cases hr; exact h
  | cons op ops ih =>
    intro s s' h hr
    simp only [run] at hr
    split at hr
    · rename_i s1 h1; exact ih s1 s' (I1_step s s1 op h h1) hr
    · cases hr

theorem I1_empty : I1 {} := by
  intro k hk; simp [count, List.lookup] at hk

/-! ### disciplined histories -/

/-- does the import carry a (truthy) alias that `remove` will delete -/
def carriesAlias (i : Imp) : Bool :=
  !i.name.contains '.' && (match i.alias with | some a => !a.isEmpty | none => false)

/-- one removal is disciplined: it takes back an earlier append (the counter is positive), and when
it takes back the last one it names the alias the import has -/
def okRemove1 (s : State) (i : Imp) : Bool :=
  decide (count s (keyOf i) > 0) &&
  (!(decide (count s (keyOf i) = 1) && (aliasOf s (keyOf i)).isSome) || carriesAlias i)

def okRemoveAll : State → List Imp → Bool
  | _, [] => true
  | s, i :: is => okRemove1 s i && (match remove1 s i with
    | some s' => okRemoveAll s' is
    | none => true)

def okStep (s : State) : Op → Bool
  | .append _ => true
  | .remove is => okRemoveAll s is
  | .removeRef p => match s.refPaths.lookup p with
    | some i => okRemove1 s i
    | none => true

/-- the history never removes more than it appended, and removes aliases with their imports -/
def okRun : State → List Op → Bool
  | _, [] => true
  | s, op :: ops => okStep s op && (match step s op with
    | some s' => okRun s' ops
    | none => true)

structure Good (s : State) : Prop where
  i1 : I1 s
  i2 : I2 s
  i3 : I3 s
  i4 : ∀ k, count s k ≥ 0

theorem aliasOf_setAlias_key (s : State) (i : Imp) (k : Key) (h : (aliasOf (setAlias s i) k).isSome = true) :
    k = keyOf i ∨ (aliasOf s k).isSome = true := by
  by_cases hk : k = keyOf i
  · exact Or.inl hk
  · rw [aliasOf_setAlias _ _ _ hk] at h; exact Or.inr h

theorem Good_append1 (s : State) (i : Imp) (h : Good s) : Good (append1 s i) := by
  refine ⟨I1_append1 s i h.i1, ?_, ?_, ?_⟩
  · intro k hk
    rw [present_append1] at hk
    rw [count_append1]
    by_cases hkk : k = keyOf i
    · simp only [hkk, if_true]; have := h.i4 (keyOf i); omega
    · simp only [hkk, if_false]
      simp only [hkk, decide_false, Bool.or_false] at hk
      exact h.i2 k hk
  · intro k hk
    rw [present_append1]
    by_cases hkk : k = keyOf i
    · simp [hkk]
    · rw [aliasOf_append1 _ _ _ hkk] at hk
      simp [h.i3 k hk]
  · intro k
    rw [count_append1]
    by_cases hkk : k = keyOf i
    · simp only [hkk, if_true]; have := h.i4 (keyOf i); omega
    · simp only [hkk, if_false]; exact h.i4 k

theorem aliasOf_dropAlias_key (s s' : State) (i : Imp) (h : dropAlias s i = some s')
    (hc : (aliasOf s (keyOf i)).isSome = true → carriesAlias i = true) : aliasOf s' (keyOf i) = none := by
  unfold dropAlias at h
  unfold carriesAlias at hc
  split at h
  · rename_i hd; cases h
    cases ha : aliasOf s (keyOf i) with
    | none => rfl
    | some a => rw [ha] at hc; have := hc rfl; rw [hd] at this; simp at this
  · rename_i hd
    split at h
    · rename_i a ha
      split at h
      · rename_i hae; cases h
        cases ha' : aliasOf s (keyOf i) with
        | none => rfl
        | some a' => rw [ha'] at hc; have := hc rfl; simp [hd, ha, hae] at this
      · split at h
        · cases h
        · cases h; simp only [aliasOf]; exact lookup_delK_same _ _
    · rename_i ha; cases h
      cases ha' : aliasOf s (keyOf i) with
      | none => rfl
      | some a' => rw [ha'] at hc; have := hc rfl; simp [hd, ha] at this

theorem Good_remove1 (s s' : State) (i : Imp) (h : Good s) (ok : okRemove1 s i = true)
    (hr : remove1 s i = some s') : Good s' := by
  have hI1 := I1_remove1 s s' i h.i1 hr
  unfold okRemove1 at ok
  simp only [Bool.and_eq_true, decide_eq_true_eq, Bool.or_eq_true, Bool.not_eq_true'] at ok
  obtain ⟨hpos, hal⟩ := ok
  unfold remove1 at hr
  simp only [] at hr
  split at hr
  · rename_i hc
    have hone : count s (keyOf i) = 1 := by omega
    split at hr
    · refine ⟨hI1, ?_, ?_, ?_⟩
      · intro k hk
        rw [present_dropAlias _ _ _ hr, present_dropName, present_setCount] at hk
        rw [count_dropAlias _ _ _ hr, count_dropName, count_setCount]
        by_cases hkk : k = keyOf i
        · simp [hkk] at hk
        · simp only [hkk, if_false]
          simp only [hkk, decide_false, Bool.not_false, Bool.and_true] at hk
          exact h.i2 k hk
      · intro k hk
        by_cases hkk : k = keyOf i
        · have hcar : (aliasOf (dropName (setCount s (keyOf i) (count s (keyOf i) - 1)) (keyOf i)) (keyOf i)).isSome = true →
              carriesAlias i = true := by
            intro ha
            rw [aliasOf_dropName, aliasOf_setCount] at ha
            cases hal with
            | inl hf => simp [hone, ha] at hf
            | inr hc' => exact hc'
          have := aliasOf_dropAlias_key _ _ _ hr hcar
          rw [hkk, this] at hk; cases hk
        · rw [aliasOf_dropAlias_other _ _ _ hr _ hkk, aliasOf_dropName, aliasOf_setCount] at hk
          rw [present_dropAlias _ _ _ hr, present_dropName, present_setCount]
          simp [h.i3 k hk, hkk]
      · intro k
        rw [count_dropAlias _ _ _ hr, count_dropName, count_setCount]
        by_cases hkk : k = keyOf i
        · simp only [hkk, if_true]; omega
        · simp only [hkk, if_false]; exact h.i4 k
    · cases hr
  · rename_i hc
    cases hr
    refine ⟨hI1, ?_, ?_, ?_⟩
    · intro k hk
      rw [present_setCount] at hk
      rw [count_setCount]
      by_cases hkk : k = keyOf i
      · simp only [hkk, if_true]; omega
      · simp only [hkk, if_false]; exact h.i2 k hk
    · intro k hk
      rw [aliasOf_setCount] at hk
      rw [present_setCount]; exact h.i3 k hk
    · intro k
      rw [count_setCount]
      by_cases hkk : k = keyOf i
      · simp only [hkk, if_true]; omega
      · simp only [hkk, if_false]; exact h.i4 k

theorem Good_removeAll (is : List Imp) : ∀ (s s' : State), Good s → okRemoveAll s is = true →
    removeAll s is = some s' → Good s' := by
  induction is with
  | nil => intro s s' h _ hr; simp only [removeAll] at hr; cases hr; exact h
  | cons i is ih =>
    intro s s' h ok hr
    simp only [removeAll] at hr
    simp only [okRemoveAll, Bool.and_eq_true] at ok
    split at hr
    · rename_i s1 h1
      rw [h1] at ok
      exact ih s1 s' (Good_remove1 s s1 i h ok.1 h1) ok.2 hr
    · cases hr

theorem Good_foldl_append (is : List Imp) : ∀ s, Good s → Good (is.foldl append1 s) := by
  induction is with
  | nil => intro s h; exact h
  | cons i is ih => intro s h; exact ih _ (Good_append1 s i h)

theorem Good_step (s s' : State) (op : Op) (h : Good s) (ok : okStep s op = true) (hs : step s op = some s') :
    Good s' := by
  cases op with
  | append is => simp only [step] at hs; cases hs; exact Good_foldl_append is s h
  | remove is => exact Good_removeAll is s s' h ok hs
  | removeRef p =>
    simp only [step] at hs
    simp only [okStep] at ok
    split at hs
    · rename_i i hi; rw [hi] at ok; exact Good_remove1 s s' _ h ok hs
    · cases hs; exact h

theorem Good_run (ops : List Op) : ∀ (s s' : State), Good s → okRun s ops = true → run s ops = some s' → Good s' := by
  induction ops with
  | nil => intro s s' h _ hr; simp only [run] at hr; cases hr; exact h
  | cons op ops ih =>
    intro s s' h ok hr
    simp only [run] at hr
    simp only [okRun, Bool.and_eq_true] at ok
    split at hr
    · rename_i s1 h1
      rw [h1] at ok
      exact ih s1 s' (Good_step s s1 op h ok.1 h1) ok.2 hr
    · cases hr

theorem Good_empty : Good {} := by
  refine ⟨I1_empty, ?_, ?_, ?_⟩
  · intro k hk; simp [present, names, List.lookup] at hk
  · intro k hk; simp [aliasOf, List.lookup] at hk
  · intro k; simp [count, List.lookup]

/-! ### pruning -/

theorem present_remove1_other (s s' : State) (i : Imp) (hr : remove1 s i = some s') (k : Key) (hk : k ≠ keyOf i) :
    present s' k = present s k := by
  unfold remove1 at hr
  simp only [] at hr
  split at hr
  · split at hr
    · rw [present_dropAlias _ _ _ hr, present_dropName, present_setCount]; simp [hk]
    · cases hr
  · cases hr; rfl

theorem present_removeAll_other (is : List Imp) (k : Key) : ∀ (s s' : State), removeAll s is = some s' →
    (∀ i ∈ is, k ≠ keyOf i) → present s' k = present s k := by
  induction is with
  | nil => intro s s' hr _; simp only [removeAll] at hr; cases hr; rfl
  | cons i is ih =>
    intro s s' hr hk
    simp only [removeAll] at hr
    split at hr
    · rename_i s1 h1
      rw [ih s1 s' hr (fun j hj => hk j (List.mem_cons_of_mem _ hj))]
      exact present_remove1_other s s1 i h1 k (hk i (List.mem_cons_self ..))
    · cases hr

theorem keyOf_snd (i : Imp) : (keyOf i).2 = i.name := by
  unfold keyOf; split <;> rfl

theorem unused_not_in_code (code : Str) (s : State) (k : Key) (h : k ∈ unusedImports code s) :
    containsSub k.2 code = false := by
  unfold unusedImports at h
  simp only [List.mem_flatMap, List.mem_map, List.mem_filter] at h
  obtain ⟨p, _, n, ⟨_, hn⟩, rfl⟩ := h
  simpa using hn

end Dcg.Proofs.Imports
