import Dcg.Model.Inherit
/-
C04, `required` naming an inherited member: the breadth-first lookup `_find_field` is sound, complete and
terminates on every acyclic base-class table; hence `__override_required_field` re-declares the member as
required wherever in the lattice it is declared, and drops a placeholder only when no ancestor declares it.
-/
namespace Dcg.Proofs.SemInherit
open Dcg.Model.Inherit

theorem declares_spec {T : Table} {c n : Name} {f : Fld} (h : declares T c n = some f) :
    f.name = n ∧ ∃ k, T.lookup c = some k ∧ f ∈ k.fields := by
  unfold declares at h
  cases hk : T.lookup c with
  | none => simp [hk] at h
  | some k =>
    simp only [hk] at h
    have h1 := List.find?_some h
    have h2 := List.mem_of_find?_eq_some h
    exact ⟨by simpa using h1, k, rfl, h2⟩

/-- whatever is reachable from a work list all of whose members are reachable from `q` is reachable from `q` -/
theorem reach_trans {T : Table} {q q' : List Name} (hq : ∀ c ∈ q', Reach T q c) {d : Name}
    (h : Reach T q' d) : Reach T q d := by
  induction h with
  | start hc => exact hq _ hc
  | step _ hb ih => exact Reach.step ih hb

theorem reach_nil {T : Table} {d : Name} (h : Reach T [] d) : False := by
  induction h with
  | start hc => cases hc
  | step _ _ ih => exact ih

/-- one step of the loop loses no class: what is reachable from `c :: q` is `c` or reachable from `q ++ bases c` -/
theorem reach_cons {T : Table} {c : Name} {q : List Name} {d : Name} (h : Reach T (c :: q) d) :
    d = c ∨ Reach T (q ++ bases T c) d := by
  induction h with
  | start hc =>
    rcases List.mem_cons.mp hc with rfl | hq
    · exact Or.inl rfl
    · exact Or.inr (Reach.start (List.mem_append.mpr (Or.inl hq)))
  | step _ hb ih =>
    rcases ih with rfl | hr
    · exact Or.inr (Reach.start (List.mem_append.mpr (Or.inr hb)))
    · exact Or.inr (Reach.step hr hb)

/-- SOUND: a field that is found is the first declaration of `n` in a class reachable from the work list -/
theorem findField_sound (T : Table) (n : Name) : ∀ (g : Nat) (q : List Name) (d : Name) (f : Fld),
    findField T n g q = .found d f → Reach T q d ∧ declares T d n = some f := by
  intro g
  induction g with
  | zero =>
    intro q d f h
    cases q <;> simp [findField] at h
  | succ g ih =>
    intro q d f h
    cases q with
    | nil => simp [findField] at h
    | cons c q =>
      simp only [findField] at h
      cases hd : declares T c n with
      | some f' =>
        simp only [hd, Found.found.injEq] at h
        obtain ⟨rfl, rfl⟩ := h
        exact ⟨Reach.start (List.mem_cons_self ..), hd⟩
      | none =>
        simp only [hd] at h
        obtain ⟨hr, hdecl⟩ := ih _ d f h
        refine ⟨reach_trans ?_ hr, hdecl⟩
        intro x hx
        rcases List.mem_append.mp hx with hx | hx
        · exact Reach.start (List.mem_cons_of_mem _ hx)
        · exact Reach.step (Reach.start (List.mem_cons_self ..)) hx

/-- COMPLETE: `None` is returned only when no class reachable from the work list declares `n` -/
theorem findField_complete (T : Table) (n : Name) : ∀ (g : Nat) (q : List Name),
    findField T n g q = .absent → ∀ d, Reach T q d → declares T d n = none := by
  intro g
  induction g with
  | zero =>
    intro q h d hr
    cases q with
    | nil => exact (reach_nil hr).elim
    | cons c q => simp [findField] at h
  | succ g ih =>
    intro q h d hr
    cases q with
    | nil => exact (reach_nil hr).elim
    | cons c q =>
      simp only [findField] at h
      cases hd : declares T c n with
      | some f' => simp [hd] at h
      | none =>
        simp only [hd] at h
        rcases reach_cons hr with rfl | hr'
        · exact hd
        · exact ih _ h d hr'

theorem cost_pos (T : Table) (r : Nat) (c : Name) : 1 ≤ cost T r c := by
  cases r <;> simp [cost] <;> omega

theorem sum_map_congr {α : Type} (xs : List α) (f f' : α → Nat) (h : ∀ x ∈ xs, f x = f' x) :
    (xs.map f).sum = (xs.map f').sum := by
  induction xs with
  | nil => rfl
  | cons x xs ih =>
    simp only [List.map_cons, List.sum_cons]
    rw [h x (List.mem_cons_self ..), ih (fun y hy => h y (List.mem_cons_of_mem _ hy))]

/-- a depth budget of `rank c` is enough: one more level changes nothing -/
theorem cost_stable (T : Table) (rank : Name → Nat) (hrank : ∀ c b, b ∈ bases T c → rank b < rank c) :
    ∀ (r : Nat) (c : Name), rank c ≤ r → cost T (r + 1) c = cost T r c := by
  intro r
  induction r with
  | zero =>
    intro c hc
    have hb : bases T c = [] := by
      cases hbs : bases T c with
      | nil => rfl
      | cons b bs =>
        have := hrank c b (by rw [hbs]; exact List.mem_cons_self ..)
        omega
    simp [cost, hb]
  | succ r ih =>
    intro c hc
    show 1 + ((bases T c).map (cost T (r + 1))).sum = 1 + ((bases T c).map (cost T r)).sum
    congr 1
    refine sum_map_congr _ _ _ (fun b hb => ih b ?_)
    have := hrank c b hb
    omega

theorem queueCost_append (T : Table) (r : Nat) (q q' : List Name) :
    queueCost T r (q ++ q') = queueCost T r q + queueCost T r q' := by
  simp [queueCost, List.sum_append]

/-- TERMINATES: on an acyclic table, fuel equal to the number of visits (`queueCost`) is enough -/
theorem findField_terminates (T : Table) (rank : Name → Nat) (R : Nat) (hT : Acyclic T rank R) (n : Name) :
    ∀ (g : Nat) (q : List Name), queueCost T R q ≤ g → findField T n g q ≠ .outOfFuel := by
  intro g
  induction g with
  | zero =>
    intro q hq
    cases q with
    | nil => simp [findField]
    | cons c q =>
      have := cost_pos T R c
      simp [queueCost] at hq
      omega
  | succ g ih =>
    intro q hq
    cases q with
    | nil => simp [findField]
    | cons c q =>
      simp only [findField]
      cases hd : declares T c n with
      | some f' => simp
      | none =>
        simp only []
        refine ih _ ?_
        rw [queueCost_append]
        have hst := cost_stable T rank hT.1 R c (hT.2 c)
        have hc : cost T (R + 1) c = 1 + queueCost T R (bases T c) := rfl
        have hq' : queueCost T R (c :: q) = cost T R c + queueCost T R q := by
          simp [queueCost]
        omega

/-- more fuel does not change a result that is not `outOfFuel` -/
theorem findField_mono (T : Table) (n : Name) : ∀ (g : Nat) (q : List Name),
    findField T n g q ≠ .outOfFuel → ∀ g', g ≤ g' → findField T n g' q = findField T n g q := by
  intro g
  induction g with
  | zero =>
    intro q h g' _
    cases q with
    | nil => cases g' <;> simp [findField]
    | cons c q => simp [findField] at h
  | succ g ih =>
    intro q h g' hg
    cases q with
    | nil => cases g' <;> simp [findField]
    | cons c q =>
      cases g' with
      | zero => omega
      | succ g' =>
        simp only [findField] at h ⊢
        cases hd : declares T c n with
        | some f' => rfl
        | none =>
          simp only [hd] at h
          exact ih _ h g' (by omega)

/-- the lookup as a whole: on an acyclic table, with the fuel of `findField_terminates`, a name that SOME class
reachable from the work list declares is found — as the first declaration in one of those classes -/
theorem findField_finds (T : Table) (rank : Name → Nat) (R : Nat) (hT : Acyclic T rank R) (n : Name)
    (g : Nat) (q : List Name) (hg : queueCost T R q ≤ g) (d : Name) (f0 : Fld)
    (hr : Reach T q d) (hd : declares T d n = some f0) :
    ∃ d' o, findField T n g q = .found d' o ∧ Reach T q d' ∧ declares T d' n = some o := by
  cases hres : findField T n g q with
  | found d' o => exact ⟨d', o, rfl, findField_sound T n g q d' o hres⟩
  | absent =>
    have := findField_complete T n g q hres d hr
    rw [hd] at this
    cases this
  | outOfFuel => exact absurd hres (findField_terminates T rank R hT n g q hg)

/-- fields that are not placeholders go through the pass untouched -/
theorem overrideFields_keeps (T : Table) (g : Nat) (c : Name) (fs : List Fld) (f : Fld) (hf : f ∈ fs)
    (hp : f.placeholder = false) : f ∈ overrideFields T g c fs := by
  induction fs with
  | nil => cases hf
  | cons x xs ih =>
    simp only [overrideFields]
    rcases List.mem_cons.mp hf with rfl | hx
    · simp [hp]
    · split
      · split
        · exact List.mem_cons_of_mem _ (ih hx)
        · exact ih hx
      · exact List.mem_cons_of_mem _ (ih hx)

/-- a placeholder whose lookup finds `o` is replaced by `o` made required -/
theorem overrideFields_replaces (T : Table) (g : Nat) (c : Name) (fs : List Fld) (p : Fld) (hp : p ∈ fs)
    (hph : p.placeholder = true) (d : Name) (o : Fld)
    (hfound : findField T p.name g (bases T c) = .found d o) :
    { o with required := true } ∈ overrideFields T g c fs := by
  induction fs with
  | nil => cases hp
  | cons x xs ih =>
    simp only [overrideFields]
    rcases List.mem_cons.mp hp with rfl | hx
    · simp [hph, hfound]
    · split
      · split
        · exact List.mem_cons_of_mem _ (ih hx)
        · exact ih hx
      · exact List.mem_cons_of_mem _ (ih hx)

/-- everything in the result is an untouched field or the required copy of a declaration found for a placeholder -/
theorem overrideFields_origin (T : Table) (g : Nat) (c : Name) (fs : List Fld) (x : Fld)
    (hx : x ∈ overrideFields T g c fs) :
    (x ∈ fs ∧ x.placeholder = false) ∨
    ∃ p ∈ fs, p.placeholder = true ∧ ∃ d o, findField T p.name g (bases T c) = .found d o ∧
      x = { o with required := true } := by
  induction fs with
  | nil => simp [overrideFields] at hx
  | cons y ys ih =>
    simp only [overrideFields] at hx
    by_cases hy : y.placeholder = true
    · simp only [hy, if_true] at hx
      cases hres : findField T y.name g (bases T c) with
      | found d o =>
        simp only [hres] at hx
        rcases List.mem_cons.mp hx with rfl | hx'
        · exact Or.inr ⟨y, List.mem_cons_self .., hy, d, o, hres, rfl⟩
        · rcases ih hx' with ⟨h1, h2⟩ | ⟨p, hp, h⟩
          · exact Or.inl ⟨List.mem_cons_of_mem _ h1, h2⟩
          · exact Or.inr ⟨p, List.mem_cons_of_mem _ hp, h⟩
      | absent =>
        simp only [hres] at hx
        rcases ih hx with ⟨h1, h2⟩ | ⟨p, hp, h⟩
        · exact Or.inl ⟨List.mem_cons_of_mem _ h1, h2⟩
        · exact Or.inr ⟨p, List.mem_cons_of_mem _ hp, h⟩
      | outOfFuel =>
        simp only [hres] at hx
        rcases ih hx with ⟨h1, h2⟩ | ⟨p, hp, h⟩
        · exact Or.inl ⟨List.mem_cons_of_mem _ h1, h2⟩
        · exact Or.inr ⟨p, List.mem_cons_of_mem _ hp, h⟩
    · have hy' : y.placeholder = false := by simpa using hy
      simp only [hy', Bool.false_eq_true, if_false] at hx
      rcases List.mem_cons.mp hx with rfl | hx'
      · exact Or.inl ⟨List.mem_cons_self .., hy'⟩
      · rcases ih hx' with ⟨h1, h2⟩ | ⟨p, hp, h⟩
        · exact Or.inl ⟨List.mem_cons_of_mem _ h1, h2⟩
        · exact Or.inr ⟨p, List.mem_cons_of_mem _ hp, h⟩

end Dcg.Proofs.SemInherit
