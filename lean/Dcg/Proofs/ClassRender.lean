import Dcg.Proofs.ClassScope
import Dcg.Model.ClassRender
/-
Dcg.Proofs.ClassRender — `wellBound_render`: a module laid out the way `Parser.parse` does it is
well bound (for every output kind) when four decidable side conditions hold; the refutation of
the one that is false of the real generator is in Props/C02 (`member_named_Optional_hides`).
-/
namespace Dcg.Proofs.ClassRender
open Dcg.Model.ClassScope Dcg.Model.ClassRender Dcg.Proofs.ClassScope

theorem stmtsP_append (cfg : Cfg) (f : Bool) (all : List Name) : ∀ (l1 l2 : List Stmt) (before imported : List Name),
    stmtsP cfg f all (l1 ++ l2) before imported =
      stmtsP cfg f all l1 before imported ++
        stmtsP cfg f all l2 (before ++ l1.flatMap Stmt.binds) (imported ++ l1.flatMap Stmt.imports)
  | [], l2, before, imported => by simp [stmtsP]
  | s :: l1, l2, before, imported => by
    simp [stmtsP, stmtsP_append cfg f all l1 l2, List.append_assoc]

/-- names of the members that have a value: what the class namespace holds -/
def valNames (ms : List GMember) : List Name := (ms.filter (·.value.isSome)).map (·.name)

theorem binds_render (ms : List GMember) : (ms.map renderMember).flatMap (·.binds) = valNames ms := by
  induction ms with
  | nil => rfl
  | cons m ms ih =>
    simp only [List.map_cons, List.flatMap_cons, ih, valNames, List.filter_cons]
    cases h : m.value.isSome <;> simp [renderMember, h]

theorem mem_valNames {n : Name} {ms : List GMember} : n ∈ valNames ms ↔ ∃ m ∈ ms, m.value.isSome = true ∧ m.name = n := by
  simp [valNames, and_assoc]

theorem valNames_append (a b : List GMember) : valNames (a ++ b) = valNames a ++ valNames b := by
  simp [valNames]

/-- (i) cover: every name of every hint is imported, a class of the module, or a builtin -/
def CoverOK (builtins : List Name) (g : GModule) : Prop :=
  ∀ c ∈ g.classes, ∀ m ∈ c.members, ∀ n ∈ (ofT m.hint).names, n ∈ g.imports ∨ n ∈ classNames g ∨ n ∈ builtins

/-- (ii) no member that has a value is named like a name an annotation or a value of its class reads -/
def MembersDisjoint (g : GModule) : Prop :=
  ∀ c ∈ g.classes, ∀ m ∈ c.members, m.value.isSome = true → ∀ m' ∈ c.members,
    m.name ∉ (ofT m'.hint).names ∧ ∀ e, m'.value = some e → m.name ∉ e.names

/-- (iii) order: what a class statement evaluates eagerly — decorators, bases, defaults, `Field(...)`
arguments — is imported, a builtin, or a class written earlier -/
def OrderOK (builtins : List Name) (g : GModule) : Prop :=
  ∀ pre c post, g.classes = pre ++ c :: post →
    (∀ n ∈ c.decorators ++ c.bases, n ∈ g.imports ∨ n ∈ builtins ∨ n ∈ pre.map (·.name)) ∧
    (∀ m ∈ c.members, ∀ e, m.value = some e → ∀ n ∈ e.names, n ∈ g.imports ∨ n ∈ builtins ∨ n ∈ pre.map (·.name))

/-- (iv) the footer names classes of the module; no class is named like an imported name -/
def FooterOK (g : GModule) : Prop := ∀ n ∈ g.footer, n ∈ classNames g
def NoClassRebinds (g : GModule) : Prop := ∀ c ∈ g.classes, c.name ∉ g.imports

theorem binds_classes (cs : List GClass) :
    (cs.map fun c => Stmt.cls (renderCls c)).flatMap Stmt.binds = cs.map (·.name) := by
  induction cs with
  | nil => rfl
  | cons c cs ih =>
    rw [List.map_cons, List.flatMap_cons, ih]
    simp [Stmt.binds, renderCls]

theorem imports_classes (cs : List GClass) :
    (cs.map fun c => Stmt.cls (renderCls c)).flatMap Stmt.imports = [] := by
  induction cs with
  | nil => rfl
  | cons c cs ih =>
    rw [List.map_cons, List.flatMap_cons, ih]
    simp [Stmt.imports]

theorem binds_footer (fs : List Name) : (fs.map fun n => Stmt.expr [n]).flatMap Stmt.binds = [] := by
  induction fs with
  | nil => rfl
  | cons c cs ih =>
    rw [List.map_cons, List.flatMap_cons, ih]
    simp [Stmt.binds]

theorem boundAll_render (g : GModule) : boundAll (render g) = g.imports ++ classNames g := by
  simp [boundAll, render, List.flatMap_cons, List.flatMap_append, binds_classes, binds_footer, Stmt.binds, classNames]

/-- one rendered class is fine in the context of the classes before it -/
theorem clsOK_render (cfg : Cfg) (g : GModule) (hc : CoverOK cfg.builtins g) (hd : MembersDisjoint g)
    (ho : OrderOK cfg.builtins g) (pre : List GClass) (c : GClass) (post : List GClass)
    (hg : g.classes = pre ++ c :: post) :
    ClsOK ⟨g.imports ++ pre.map (·.name), g.imports ++ classNames g, cfg.builtins⟩ cfg.kind true (renderCls c) := by
  have hcm : c ∈ g.classes := by rw [hg]; simp
  obtain ⟨hhead, hval⟩ := ho pre c post hg
  -- a name of the class namespace is never read by an annotation or a value of the class
  have clean_ann : ∀ m' ∈ c.members, ∀ n ∈ (ofT m'.hint).names, n ∉ valNames c.members := by
    intro m' hm' n hn hv
    obtain ⟨m, hm, hs, rfl⟩ := mem_valNames.mp hv
    exact (hd c hcm m hm hs m' hm').1 hn
  have clean_val : ∀ m' ∈ c.members, ∀ e, m'.value = some e → ∀ n ∈ e.names, n ∉ valNames c.members := by
    intro m' hm' e he n hn hv
    obtain ⟨m, hm, hs, rfl⟩ := mem_valNames.mp hv
    exact (hd c hcm m hm hs m' hm').2 e he hn
  refine ⟨?_, ?_, ?_⟩
  · -- header
    intro n hn
    rcases hhead n (by simpa [renderCls] using hn) with h | h | h
    · exact Or.inl (List.mem_append_left _ h)
    · exact Or.inr (Or.inl h)
    · exact Or.inl (List.mem_append_right _ h)
  · -- the class body
    intro ipre it ipost hit
    simp only [renderCls] at hit
    obtain ⟨mpre, mrest, hms, hipre, hrest⟩ := List.map_eq_append_iff.mp hit
    obtain ⟨m, mpost, hmrest, hitm, -⟩ := List.map_eq_cons_iff.mp hrest
    subst hipre hitm hmrest
    have hm : m ∈ c.members := by rw [hms]; simp
    rw [binds_render]
    have hsub : ∀ n, n ∈ valNames mpre → n ∈ valNames c.members := by
      intro n hn; rw [hms, valNames_append]; exact List.mem_append_left _ hn
    refine ⟨?_, ?_⟩
    · intro s hs
      simp only [renderMember, Option.map_eq_some_iff] at hs
      obtain ⟨e, he, rfl⟩ := hs
      refine ⟨?_, ?_, ?_⟩
      · intro n hn
        rcases hval m hm e he n hn with h | h | h
        · exact Or.inl (List.mem_append_left _ h)
        · exact Or.inr (Or.inl h)
        · exact Or.inl (List.mem_append_right _ h)
      · intro n hn; simp at hn
      · apply outcome_harmless_of_clean
        intro n hn
        have : n ∉ valNames mpre := fun h => clean_val m hm e he n hn (hsub n h)
        simp [hidB, this]
    · intro s hs
      simp only [renderMember, Option.some.injEq] at hs
      subst hs
      refine ⟨by intro n hn; simp at hn, ?_⟩
      simp only [↓reduceIte]
      intro n hn
      rcases hc c hcm m hm n hn with h | h | h
      · exact Or.inl (List.mem_append_left _ h)
      · exact Or.inl (List.mem_append_right _ h)
      · exact Or.inr h
  · -- the class object exists: deferred annotations in the class namespace
    intro _ it hit s hs
    simp only [renderCls, List.mem_map] at hit
    obtain ⟨m, hm, rfl⟩ := hit
    simp only [renderMember, Option.some.injEq] at hs
    subst hs
    have hfin : nsFinal (renderCls c) = valNames c.members := by simp [nsFinal, renderCls, binds_render]
    have hdc : ∀ n, n ∈ nsDc (renderCls c) → n ∈ valNames c.members := by
      intro n hn
      rw [← hfin]
      simp only [nsDc, nsFinal, List.mem_flatMap, List.mem_filter] at hn ⊢
      obtain ⟨it, ⟨hit, -⟩, hn⟩ := hn
      exact ⟨it, hit, hn⟩
    unfold CreationOK
    cases cfg.kind with
    | pydV2 =>
      apply outcome_harmless_of_clean
      intro n hn
      have : n ∉ valNames c.members := clean_ann m hm n hn
      simp [hidV2, hfin, this]
    | dataclass =>
      apply outcome_harmless_of_clean
      intro n hn
      have : n ∉ nsDc (renderCls c) := fun h => clean_ann m hm n hn (hdc n h)
      simp [hidDc, this]
    | pydV1 => trivial
    | typedDict => trivial
    | msgspec => trivial

theorem classesP_nil (cfg : Cfg) (g : GModule) (hc : CoverOK cfg.builtins g) (hd : MembersDisjoint g)
    (ho : OrderOK cfg.builtins g) (hr : NoClassRebinds g) : ∀ (rest pre : List GClass), g.classes = pre ++ rest →
    stmtsP cfg true (g.imports ++ classNames g) (rest.map fun c => Stmt.cls (renderCls c))
      (g.imports ++ pre.map (·.name)) g.imports = []
  | [], _, _ => by simp [stmtsP]
  | c :: rest, pre, hg => by
    have hcm : c ∈ g.classes := by rw [hg]; simp
    have h1 := (clsP_nil_iff _ _ _ _).mpr (clsOK_render cfg g hc hd ho pre c rest hg)
    have h2 : rebindP g.imports (Stmt.cls (renderCls c)) = [] := by
      simp [rebindP, Stmt.binds, renderCls, hr c hcm]
    have ih := classesP_nil cfg g hc hd ho hr rest (pre ++ [c]) (by simp [hg])
    simp only [List.map_cons, stmtsP, stmtP, h1, h2, List.nil_append]
    simpa [Stmt.binds, Stmt.imports, renderCls, List.append_assoc] using ih

/-- GENERATOR-SIDE SUFFICIENT CONDITIONS: a module laid out as imports, classes, footer is well
bound for every output kind when (i) imports, classes and builtins cover the names of every hint,
(ii) no member with a value is named like a name its class's annotations and values read,
(iii) eager uses are preceded by their classes, (iv) the footer names classes and no class is
named like an import. -/
theorem wellBound_render (cfg : Cfg) (g : GModule) (hc : CoverOK cfg.builtins g) (hd : MembersDisjoint g)
    (ho : OrderOK cfg.builtins g) (hf : FooterOK g) (hr : NoClassRebinds g) : WellBound cfg (render g) := by
  rw [← problems_nil_iff]
  unfold problems
  rw [boundAll_render]
  have hstm : (render g).stmts = [Stmt.imp g.imports] ++
      ((g.classes.map fun c => Stmt.cls (renderCls c)) ++ g.footer.map fun n => Stmt.expr [n]) := by
    simp [render]
  rw [hstm, stmtsP_append, stmtsP_append]
  have hcls := classesP_nil cfg g hc hd ho hr g.classes [] (by simp)
  simp only [List.map_nil, List.append_nil] at hcls
  have hfoot : ∀ (fs : List Name) (before imported : List Name), (∀ n ∈ fs, n ∈ before) →
      stmtsP cfg true (g.imports ++ classNames g) (fs.map fun n => Stmt.expr [n]) before imported = [] := by
    intro fs
    induction fs with
    | nil => intros; simp [stmtsP]
    | cons n fs ih =>
      intro before imported h
      have hn : n ∈ before := h n (by simp)
      simp only [List.map_cons, stmtsP, stmtP, rebindP, Stmt.binds, Stmt.imports, List.append_nil, List.filter_nil,
        List.map_nil]
      rw [ih before imported (fun x hx => h x (by simp [hx]))]
      simp [eagerP, hn]
  simp only [stmtsP, stmtP, rebindP, Stmt.binds, Stmt.imports, List.nil_append, List.flatMap_cons, List.flatMap_nil,
    List.append_nil]
  have : (render g).future = true := rfl
  rw [this, hcls, List.nil_append]
  apply hfoot
  intro n hn
  have := hf n hn
  simp only [binds_classes]
  exact List.mem_append_right _ (by simpa [classNames] using this)


/-! ### the side conditions as executable checks -/

def coverOKb (builtins : List Name) (g : GModule) : Bool :=
  g.classes.all fun c => c.members.all fun m => (ofT m.hint).names.all fun n =>
    decide (n ∈ g.imports) || decide (n ∈ classNames g) || decide (n ∈ builtins)

def disjointb (g : GModule) : Bool :=
  g.classes.all fun c => c.members.all fun m => !m.value.isSome || c.members.all fun m' =>
    !decide (m.name ∈ (ofT m'.hint).names) &&
      (match m'.value with
       | none => true
       | some e => !decide (m.name ∈ e.names))

def orderOKb (imports builtins : List Name) : List GClass → List Name → Bool
  | [], _ => true
  | c :: rest, pre =>
    let ok (n : Name) : Bool := decide (n ∈ imports) || decide (n ∈ builtins) || decide (n ∈ pre)
    (c.decorators ++ c.bases).all ok &&
    (c.members.all fun m => match m.value with
      | none => true
      | some e => e.names.all ok) &&
    orderOKb imports builtins rest (pre ++ [c.name])

def footerOKb (g : GModule) : Bool := g.footer.all fun n => decide (n ∈ classNames g)
def noClassRebindsb (g : GModule) : Bool := g.classes.all fun c => !decide (c.name ∈ g.imports)

/-- all side conditions of `wellBound_render`, decidable -/
def sideOK (builtins : List Name) (g : GModule) : Bool :=
  coverOKb builtins g && disjointb g && orderOKb g.imports builtins g.classes [] && footerOKb g && noClassRebindsb g

theorem coverOK_of_b (builtins : List Name) (g : GModule) (h : coverOKb builtins g = true) : CoverOK builtins g := by
  intro c hc m hm n hn
  simp only [coverOKb, List.all_eq_true, Bool.or_eq_true, decide_eq_true_eq] at h
  rcases h c hc m hm n hn with (h | h) | h
  · exact Or.inl h
  · exact Or.inr (Or.inl h)
  · exact Or.inr (Or.inr h)

theorem disjoint_of_b (g : GModule) (h : disjointb g = true) : MembersDisjoint g := by
  intro c hc m hm hs m' hm'
  simp only [disjointb, List.all_eq_true, Bool.or_eq_true, Bool.not_eq_true', Bool.and_eq_true, decide_eq_false_iff_not] at h
  rcases h c hc m hm with h | h
  · rw [hs] at h; cases h
  · obtain ⟨h1, h2⟩ := h m' hm'
    refine ⟨h1, ?_⟩
    intro e he
    rw [he] at h2
    simpa using h2

theorem orderOK_of_b (imports builtins : List Name) : ∀ (rest : List GClass) (pre0 : List Name),
    orderOKb imports builtins rest pre0 = true →
    ∀ pre c post, rest = pre ++ c :: post →
      (∀ n ∈ c.decorators ++ c.bases, n ∈ imports ∨ n ∈ builtins ∨ n ∈ pre0 ++ pre.map (·.name)) ∧
      (∀ m ∈ c.members, ∀ e, m.value = some e → ∀ n ∈ e.names, n ∈ imports ∨ n ∈ builtins ∨ n ∈ pre0 ++ pre.map (·.name))
  | [], _, _ => by intro pre c post h; cases pre <;> simp at h
  | x :: rest, pre0, h => by
    simp only [orderOKb, Bool.and_eq_true, List.all_eq_true, Bool.or_eq_true, decide_eq_true_eq] at h
    obtain ⟨⟨h1, h2⟩, h3⟩ := h
    intro pre c post hp
    cases pre with
    | nil =>
      simp only [List.nil_append, List.cons.injEq] at hp
      obtain ⟨rfl, -⟩ := hp
      refine ⟨?_, ?_⟩
      · intro n hn
        rcases h1 n hn with (h | h) | h
        · exact Or.inl h
        · exact Or.inr (Or.inl h)
        · exact Or.inr (Or.inr (by simpa using h))
      · intro m hm e he n hn
        have := h2 m hm
        rw [he] at this
        simp only [List.all_eq_true, Bool.or_eq_true, decide_eq_true_eq] at this
        rcases this n hn with (h | h) | h
        · exact Or.inl h
        · exact Or.inr (Or.inl h)
        · exact Or.inr (Or.inr (by simpa using h))
    | cons p pre =>
      simp only [List.cons_append, List.cons.injEq] at hp
      obtain ⟨rfl, hp⟩ := hp
      have := orderOK_of_b imports builtins rest (pre0 ++ [x.name]) h3 pre c post hp
      simpa [List.append_assoc] using this

theorem orderOK_of_b' (builtins : List Name) (g : GModule) (h : orderOKb g.imports builtins g.classes [] = true) :
    OrderOK builtins g := by
  intro pre c post hg
  simpa using orderOK_of_b g.imports builtins g.classes [] h pre c post hg

/-- the executable side conditions imply the statement's -/
theorem wellBound_of_sideOK (cfg : Cfg) (g : GModule) (h : sideOK cfg.builtins g = true) : WellBound cfg (render g) := by
  simp only [sideOK, Bool.and_eq_true] at h
  obtain ⟨⟨⟨⟨h1, h2⟩, h3⟩, h4⟩, h5⟩ := h
  refine wellBound_render cfg g (coverOK_of_b _ g h1) (disjoint_of_b g h2) (orderOK_of_b' _ g h3) ?_ ?_
  · intro n hn
    simpa [footerOKb] using (List.all_eq_true.mp h4) n hn
  · intro c hc
    simpa [noClassRebindsb] using (List.all_eq_true.mp h5) c hc

end Dcg.Proofs.ClassRender
