import Dcg.Proofs.TemplateAbs
/-
Every recorded slot of a rendering is the value `evalOut` gave for its site expression in some
environment — so what a filter chain guarantees about its result (e.g. `… | indent(4)`) holds for
the recorded value without any assumption.
-/
namespace Dcg.Proofs.TemplateSlots
open Dcg.Model.TemplateSyntax Dcg.Model.Template Dcg.Proofs.TemplateAbs

def FromEval (o : Out) : Prop := ∀ p ∈ o.slots, ∃ env1, evalOut env1 p.1 = .ok p.2

theorem FromEval_append {a b : Out} (ha : FromEval a) (hb : FromEval b) : FromEval (a ++ b) := by
  intro p hp
  rcases List.mem_append.mp hp with h | h
  · exact ha p h
  · exact hb p h

theorem FromEval_empty : FromEval Out.empty := by intro p hp; cases hp

theorem forEach_fromEval {f : Val → Except Err Out} (hf : ∀ item oi, f item = .ok oi → FromEval oi) :
    ∀ (items : List Val) (o : Out), forEach f items = .ok o → FromEval o := by
  intro items
  induction items with
  | nil => intro o h; simp only [forEach] at h; cases h; exact FromEval_empty
  | cons v vs ih =>
    intro o h
    simp only [forEach] at h
    obtain ⟨oi, hoi, h⟩ := bind_ok h
    obtain ⟨r, hr, h⟩ := bind_ok h
    cases h
    exact FromEval_append (hf v oi hoi) (ih r hr)

mutual
theorem render_fromEval : ∀ (t : Tpl) (env : Env) (o : Out) (env' : Env),
    render env t = .ok (o, env') → FromEval o
  | .text s, env, o, env', hr => by
    simp only [render] at hr; cases hr; intro p hp; cases hp
  | .out e, env, o, env', hr => by
    simp only [render] at hr
    obtain ⟨v, hv, hr⟩ := bind_ok hr
    cases hr
    intro p hp
    have : p = (e, v) := by simpa using hp
    subst this
    exact ⟨env, hv⟩
  | .ite c thn els, env, o, env', hr => by
    simp only [render] at hr
    obtain ⟨v, _, hr⟩ := bind_ok hr
    obtain ⟨tv, _, hr⟩ := bind_ok hr
    split at hr
    · exact renderL_fromEval thn env o env' hr
    · exact renderL_fromEval els env o env' hr
  | .forIn vars iter body, env, o, env', hr => by
    simp only [render] at hr
    obtain ⟨v, _, hr⟩ := bind_ok hr
    obtain ⟨items, _, hr⟩ := bind_ok hr
    obtain ⟨o', ho', hr⟩ := bind_ok hr
    cases hr
    refine forEach_fromEval ?_ items o ho'
    intro item oi hf
    obtain ⟨env1, _, hf⟩ := bind_ok hf
    obtain ⟨r, hrr, hf⟩ := bind_ok hf
    cases hf
    exact renderL_fromEval body env1 r.1 r.2 hrr
  | .setVar x e, env, o, env', hr => by
    simp only [render] at hr
    obtain ⟨v, _, hr⟩ := bind_ok hr
    cases hr
    exact FromEval_empty
  | .incl _ _ body, env, o, env', hr => by
    simp only [render] at hr
    obtain ⟨r, hrr, hr⟩ := bind_ok hr
    cases hr
    exact renderL_fromEval body env r.1 r.2 hrr
  | .filterBlock f body, env, o, env', hr => by
    simp only [render] at hr
    obtain ⟨r, hrr, hr⟩ := bind_ok hr
    obtain ⟨s, _, hr⟩ := bind_ok hr
    cases hr
    exact renderL_fromEval body env r.1 r.2 hrr
  | .macroDef _ _ _, env, o, env', hr => by
    simp only [render] at hr; cases hr; exact FromEval_empty
  | .callMacro _ params args body, env, o, env', hr => by
    simp only [render] at hr
    split at hr
    · cases hr
    · obtain ⟨vals, _, hr⟩ := bind_ok hr
      obtain ⟨r, hrr, hr⟩ := bind_ok hr
      cases hr
      exact renderL_fromEval body _ r.1 r.2 hrr
  | .unsupported _, env, o, env', hr => by
    simp only [render] at hr; cases hr
theorem renderL_fromEval : ∀ (ts : List Tpl) (env : Env) (o : Out) (env' : Env),
    renderL env ts = .ok (o, env') → FromEval o
  | [], env, o, env', hr => by
    simp only [renderL] at hr; cases hr; exact FromEval_empty
  | t :: ts, env, o, env', hr => by
    simp only [renderL] at hr
    obtain ⟨r, hrr, hr⟩ := bind_ok hr
    obtain ⟨r', hrr', hr⟩ := bind_ok hr
    cases hr
    exact FromEval_append (render_fromEval t env r.1 r.2 hrr) (renderL_fromEval ts r.2 r'.1 r'.2 hrr')
end

theorem renderTemplate_fromEval {ctx : List (String × Val)} {t : List Tpl} {o : Out}
    (h : renderTemplate ctx t = .ok o) : FromEval o := by
  unfold renderTemplate at h
  obtain ⟨r, hrr, h⟩ := bind_ok h
  cases h
  exact renderL_fromEval t _ r.1 r.2 hrr

/-- the value written by `{{ e | indent(w) }}` is an `indentStr w` -/
theorem evalOut_indent {env : Env} {e : Expr} {w : Nat} {v : List Char}
    (h : evalOut env (.filter e (.indent w)) = .ok v) : ∃ x, v = indentStr w x := by
  unfold evalOut at h
  obtain ⟨val, hval, h⟩ := bind_ok h
  simp only [eval] at hval
  obtain ⟨x, _, hval⟩ := bind_ok hval
  cases x with
  | str s =>
    simp only [applyFilter] at hval
    cases hval
    simp only [toStr] at h
    cases h
    exact ⟨s, rfl⟩
  | _ => simp only [applyFilter] at hval <;> cases hval

theorem unfilter_last {e : Expr} {fs : List Filter} {f : Filter} (h : e.unfilter.2 = fs ++ [f]) :
    ∃ e1, e = .filter e1 f := by
  cases e with
  | filter e1 f' =>
    simp only [Expr.unfilter] at h
    have := List.append_inj_right' h rfl
    cases this
    exact ⟨e1, rfl⟩
  | _ => simp [Expr.unfilter] at h

end Dcg.Proofs.TemplateSlots
