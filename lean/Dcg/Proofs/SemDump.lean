import Dcg.Proofs.SemBase
/-
C03, second half: dumping by wire name gives the value back. `dump` changes a value in exactly one
way — it drops members that a class with the default `extra` does not declare — so under `declared`
(no such member along the path of the dump) it is the identity, for every type, value and fuel.
-/
namespace Dcg.Proofs.Sem
open Dcg.Sem Dcg.Sem.Pyd Dcg.Model.Constraints Dcg.Model.Translate

theorem map_eq_self {α : Type} (f : α → α) (xs : List α) (h : ∀ x ∈ xs, f x = x) : xs.map f = xs := by
  induction xs with
  | nil => rfl
  | cons x xs ih =>
    simp only [List.map_cons]
    rw [h x (by simp), ih (fun y hy => h y (by simp [hy]))]

theorem filterMap_eq_self {α : Type} (f : α → Option α) (xs : List α) (h : ∀ x ∈ xs, f x = some x) :
    xs.filterMap f = xs := by
  induction xs with
  | nil => rfl
  | cons x xs ih =>
    rw [List.filterMap_cons, h x (by simp), ih (fun y hy => h y (by simp [hy]))]

/-- `dump` is the identity on values without undeclared members — every type, value and fuel -/
theorem dump_id (st : Style) (re : Regex) :
    ∀ (g : Nat) (D : IRDefs) (t : Ty) (v : Json), declared st re g D t v = true → dump st re g D t v = v := by
  intro g
  induction g with
  | zero => intro D t v _; rfl
  | succ g ih =>
    intro D t v h
    cases t with
    | list item =>
      cases v <;> simp only [dump]
      rename_i xs
      simp only [declared, List.all_eq_true] at h
      rw [map_eq_self _ xs (fun x hx => ih D item x (h x hx))]
    | dict val =>
      cases v <;> simp only [dump]
      rename_i kvs
      simp only [declared, List.all_eq_true] at h
      rw [map_eq_self _ kvs (fun kv hkv => by rw [ih D val kv.2 (h kv hkv)])]
    | model fields extra =>
      cases v <;> simp only [dump]
      rename_i kvs
      simp only [declared, List.all_eq_true] at h
      congr 1
      apply filterMap_eq_self
      intro kv hkv
      have hk := h kv hkv
      cases hf : findField (g + 1) D (.model fields extra) kv.1 with
      | found ty =>
        simp only [hf] at hk ⊢
        rw [ih D ty kv.2 hk]
      | unknown => rfl
      | absent =>
        simp only [hf] at hk ⊢
        have : (extraOfTy (.model fields extra) == Extra.unset) = false := by simpa using hk
        simp [this]
    | derived bases fields extra =>
      cases v <;> simp only [dump]
      rename_i kvs
      simp only [declared, List.all_eq_true] at h
      congr 1
      apply filterMap_eq_self
      intro kv hkv
      have hk := h kv hkv
      cases hf : findField (g + 1) D (.derived bases fields extra) kv.1 with
      | found ty =>
        simp only [hf] at hk ⊢
        rw [ih D ty kv.2 hk]
      | unknown => rfl
      | absent =>
        simp only [hf] at hk ⊢
        have : (extraOfTy (.derived bases fields extra) == Extra.unset) = false := by simpa using hk
        simp [this]
    | root c inner =>
      simp only [declared] at h
      simp only [dump]
      exact ih D inner v h
    | ref n =>
      simp only [declared] at h
      simp only [dump]
      cases hl : D.lookup n with
      | none => rfl
      | some d => simp only [hl] at h ⊢; exact ih D d v h
    | opt inner =>
      simp only [declared] at h
      simp only [dump]
      exact ih D inner v h
    | union ts =>
      simp only [declared] at h
      simp only [dump]
      cases hc : chooseAlt st re g D ts v with
      | none => rfl
      | some u => simp only [hc] at h ⊢; exact ih D u v h
    | tagged prop branches =>
      simp only [declared] at h
      simp only [dump]
      cases hc : chooseTagged D prop branches v with
      | none => rfl
      | some d => simp only [hc] at h ⊢; exact ih D d v h
    | any => rfl
    | null => rfl
    | scalar p kw => rfl
    | const a => rfl
    | enumCls vals => rfl

end Dcg.Proofs.Sem
