import Dcg.Model.PathNorm
/- Helper lemmas about Dcg.Model.PathNorm (used by Dcg/Props/C18.lean). -/
namespace Dcg.Proofs.PathNorm
open Dcg.Model.PathNorm

theorem comps_tilde_slash (rest : Str) : comps ('~' :: '/' :: rest) = ['~'] :: comps rest := by
  simp [comps, splitSlash, keep]

theorem walk_no_dotdot (cs st : List Str) (h : ∀ c ∈ st, c ≠ dotdot) : ∀ c ∈ walk st cs, c ≠ dotdot := by
  induction cs generalizing st with
  | nil => simpa [walk] using h
  | cons d ds ih =>
    unfold walk
    split
    · exact ih st.tail (fun c hc => h c (List.mem_of_mem_tail hc))
    · rename_i hd
      exact ih (d :: st) (by
        intro c hc
        rcases List.mem_cons.mp hc with rfl | hc
        · exact hd
        · exact h c hc)

theorem walk_plain (l st : List Str) (h : ∀ c ∈ l, c ≠ dotdot) : walk st l = l.reverse ++ st := by
  induction l generalizing st with
  | nil => simp [walk]
  | cons d ds ih =>
    have hd : d ≠ dotdot := h d (by simp)
    unfold walk
    rw [if_neg hd, ih (d :: st) (fun c hc => h c (by simp [hc]))]
    simp

end Dcg.Proofs.PathNorm
