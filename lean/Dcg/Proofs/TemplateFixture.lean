import Dcg.Model.TemplateBlock
/-
Negative fixture for the block analysis: `Enum.jinja2` as it was BEFORE the repair f450658 of /repo
(`git show f450658^:src/datamodel_code_generator/model/template/Enum.jinja2`, translated once by
`vlib.translate.template_ast.translate_source`): without the `{% if not fields and not description %} pass`
guard the template can emit `class E(Enum):` with no body.  The analysis must reject it, and name
the environment (no members, no description) in which the body is missing.
-/
namespace Dcg.Proofs.TemplateFixture
open Dcg.Model.TemplateSyntax Dcg.Model.TemplateAbs Dcg.Model.TemplateBlock

def enumBeforeFix : List Tpl := [
  .forIn ["decorator"] (.name "decorators") [
    .out (.name "decorator"),
    .text ['\n']],
  .text ['c', 'l', 'a', 's', 's', ' '],
  .out (.name "class_name"),
  .text ['('],
  .out (.name "base_class"),
  .text [')', ':'],
  .ite (.name "description") [
    .text ['\n', ' ', ' ', ' ', ' ', '"', '"', '"', '\n', ' ', ' ', ' ', ' '],
    .out (.filter (.filter (.name "description") .escapeDocstring) (.indent 4)),
    .text ['\n', ' ', ' ', ' ', ' ', '"', '"', '"']] [],
  .forIn ["field"] (.name "fields") [
    .text ['\n', ' ', ' ', ' ', ' '],
    .out (.attr (.name "field") "name"),
    .text [' ', '=', ' '],
    .out (.attr (.name "field") "default"),
    .ite (.attr (.name "field") "docstring") [
      .text ['\n', ' ', ' ', ' ', ' ', '"', '"', '"', '\n', ' ', ' ', ' ', ' '],
      .out (.filter (.filter (.attr (.name "field") "docstring") .escapeDocstring) (.indent 4)),
      .text ['\n', ' ', ' ', ' ', ' ', '"', '"', '"']] []]]

theorem enumBeforeFix_rejected :
    check blockAuto BSt.init goodClass [] (factExprs enumBeforeFix) enumBeforeFix = false := by decide +kernel

/-- the counter-example the analysis reports: `description` and `fields` both falsy -/
theorem enumBeforeFix_counterexample :
    refute blockAuto BSt.init goodClass [] (factExprs enumBeforeFix) enumBeforeFix =
      some [(.name "decorators", false), (.name "description", false), (.name "fields", false)] := by decide +kernel

end Dcg.Proofs.TemplateFixture
