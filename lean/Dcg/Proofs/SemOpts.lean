import Dcg.Proofs.SemBase
/-
C14: stage 1 reads the option vector only through `field_constraints`; compatibility of the verdicts of
the two constraint routings (`routingSafe`).
-/
namespace Dcg.Proofs.Sem
open Dcg.Sem Dcg.Sem.Pyd Dcg.Model.Constraints Dcg.Model.Translate

/-! ### C14: stage 1 reads the options only through `field_constraints` -/

theorem fieldCons_congr (st : Style) (o o' : Opts) (h : o.fieldConstraints = o'.fieldConstraints)
    (s : Schema) : fieldCons st o s = fieldCons st o' s := by
  cases s <;> simp [fieldCons, h]

mutual
/-- stage 1 reads the option vector only through `field_constraints` -/
theorem tr_congr (st : Style) (o o' : Opts) (h : o.fieldConstraints = o'.fieldConstraints) :
    ∀ (ctx : Ctx) (s : Schema), tr st o ctx s = tr st o' ctx s
  | _, .any => by simp [tr]
  | _, .null => by simp [tr]
  | ctx, .scalar ty n b => by
    cases ctx <;> simp [tr, scalarCore, typeCons, rootCons, h]
  | _, .enum _ => by simp [tr]
  | _, .const _ => by simp [tr]
  | ctx, .array items mn mx => by
    cases ctx <;> simp [tr, rootCons, h, tr_congr st o o' h _ items]
  | _, .object props req addl => by simp [tr, trProps_congr st o o' h req props]
  | _, .dict value => by simp [tr, tr_congr st o o' h .plain value]
  | ctx, .ndict _ => by cases ctx <;> simp [tr]
  | ctx, .disc _ _ _ _ => by cases ctx <;> simp [tr]
  | _, .ref _ => by simp [tr]
  | _, .anyOf alts => by simp [tr, trAlts_congr st o o' h alts]
  | _, .oneOf alts => by simp [tr, trAlts_congr st o o' h alts]
  | ctx, .allOf refs props req xreq => by
    simp only [tr, trProps_congr st o o' h req props]
theorem trProps_congr (st : Style) (o o' : Opts) (h : o.fieldConstraints = o'.fieldConstraints)
    (req : List (List Char)) :
    ∀ ps : List (List Char × Schema), trProps st o req ps = trProps st o' req ps
  | [] => by simp [trProps]
  | p :: ps => by
    simp [trProps, tr_congr st o o' h .plain p.2, trProps_congr st o o' h req ps,
      fieldCons_congr st o o' h p.2]
theorem trAlts_congr (st : Style) (o o' : Opts) (h : o.fieldConstraints = o'.fieldConstraints) :
    ∀ alts : List Schema, trAlts st o alts = trAlts st o' alts
  | [] => by simp [trAlts]
  | a :: as => by simp [trAlts, tr_congr st o o' h (.item false) a, trAlts_congr st o o' h as]
end

theorem trDefs_congr (st : Style) (o o' : Opts) (h : o.fieldConstraints = o'.fieldConstraints)
    (defs : Defs) : trDefs st o defs = trDefs st o' defs := by
  induction defs with
  | nil => simp [trDefs]
  | cons p ps ih => simp [trDefs, ih, tr_congr st o o' h .top p.2]


end Dcg.Proofs.Sem

namespace Dcg.Proofs.Sem
open Dcg.Sem Dcg.Sem.Pyd Dcg.Model.Constraints Dcg.Model.Translate

/-! ### C14: compatibility of verdicts -/

/-- two verdicts do not contradict each other (`laxZone` = unknown is compatible with everything) -/
def Compat (a b : Tri) : Prop := ¬(a = .accept ∧ b = .reject) ∧ ¬(a = .reject ∧ b = .accept)

theorem compat_refl (a : Tri) : Compat a a := by cases a <;> simp [Compat]
theorem compat_symm {a b : Tri} (h : Compat a b) : Compat b a := ⟨fun x => h.2 ⟨x.2, x.1⟩, fun x => h.1 ⟨x.2, x.1⟩⟩
theorem compat_lax_left (b : Tri) : Compat .laxZone b := by simp [Compat]
theorem compat_lax_right (a : Tri) : Compat a .laxZone := by simp [Compat]
theorem compat_of_eq {a b : Tri} (h : a = b) : Compat a b := h ▸ compat_refl a

theorem compat_and {a a' b b' : Tri} (h1 : Compat a a') (h2 : Compat b b') :
    Compat (Tri.and a b) (Tri.and a' b') := by
  cases a <;> cases a' <;> cases b <;> cases b' <;> simp_all [Compat, Tri.and]

theorem compat_or {a a' b b' : Tri} (h1 : Compat a a') (h2 : Compat b b') :
    Compat (Tri.or a b) (Tri.or a' b') := by
  cases a <;> cases a' <;> cases b <;> cases b' <;> simp_all [Compat, Tri.or]

theorem compat_all_map {α : Type} (xs : List α) (f f' : α → Tri)
    (h : ∀ x ∈ xs, Compat (f x) (f' x)) : Compat (Tri.all (xs.map f)) (Tri.all (xs.map f')) := by
  induction xs with
  | nil => simp [Tri.all, Compat]
  | cons x xs ih =>
    have e1 : Tri.all ((x :: xs).map f) = Tri.and (f x) (Tri.all (xs.map f)) := rfl
    have e2 : Tri.all ((x :: xs).map f') = Tri.and (f' x) (Tri.all (xs.map f')) := rfl
    rw [e1, e2]
    exact compat_and (h x (by simp)) (ih (fun y hy => h y (by simp [hy])))

theorem compat_any_map {α : Type} (xs : List α) (f f' : α → Tri)
    (h : ∀ x ∈ xs, Compat (f x) (f' x)) : Compat (Tri.any (xs.map f)) (Tri.any (xs.map f')) := by
  induction xs with
  | nil => simp [Tri.any, Compat]
  | cons x xs ih =>
    have e1 : Tri.any ((x :: xs).map f) = Tri.or (f x) (Tri.any (xs.map f)) := rfl
    have e2 : Tri.any ((x :: xs).map f') = Tri.or (f' x) (Tri.any (xs.map f')) := rfl
    rw [e1, e2]
    exact compat_or (h x (by simp)) (ih (fun y hy => h y (by simp [hy])))


end Dcg.Proofs.Sem

namespace Dcg.Proofs.Sem
open Dcg.Sem Dcg.Sem.Pyd Dcg.Model.Constraints Dcg.Model.Translate

/-- fuel-free verdict of a (possibly nullable) scalar leaf with keyword arguments `kw` -/
def coreVerdict (st : Style) (re : Regex) (ty : STy) (nullable : Bool) (kw : Cons) (v : Json) : Tri :=
  if nullable && v.isNull then .accept else acceptsScalar st re ty kw v

theorem acceptsScalar_null (st : Style) (re : Regex) (ty : STy) (kw : Cons) :
    acceptsScalar st re ty kw .null = .reject := by
  cases ty <;> simp [acceptsScalar]

/-- with any fuel, a scalar leaf gives its fuel-free verdict or `laxZone` -/
theorem acceptsTy_core_cases (st : Style) (o : Opts) (re : Regex) (ty : STy) (nullable : Bool)
    (b : Bounds) (v : Json) (g : Nat) (D : IRDefs) :
    acceptsTy st re g D (scalarCore st o ty nullable b) v = .laxZone ∨
    acceptsTy st re g D (scalarCore st o ty nullable b) v =
      coreVerdict st re ty nullable (typeCons st o ty b) v := by
  cases g with
  | zero => left; simp [acceptsTy]
  | succ g =>
    unfold scalarCore coreVerdict
    cases nullable with
    | false => right; simp [acceptsTy]
    | true =>
      simp only [if_true, acceptsTy, Bool.true_and]
      cases hn : v.isNull with
      | true => right; simp
      | false =>
        simp only [Bool.false_eq_true, if_false]
        cases g with
        | zero => left; simp [acceptsTy]
        | succ g => right; simp [acceptsTy]


end Dcg.Proofs.Sem

namespace Dcg.Proofs.Sem
open Dcg.Sem Dcg.Sem.Pyd Dcg.Model.Constraints Dcg.Model.Translate

section
variable (st : Style) (re : Regex) (oF oC : Opts)

/-- The three facts that make the two routings of a scalar leaf agree:
`cvF` = verdict of the bare type (constraints in `Field()`), `ccF` = verdict of the `Field()`
arguments, `cvC` = verdict of the constrained type. -/
theorem leaf_facts (h : TableOK st) (hF : oF.fieldConstraints = true)
    (hC : oC.fieldConstraints = false) (ty : STy) (n : Bool) (b : Bounds) (v : Json)
    (hok : scalarOK ty b = true) :
    let cvF := coreVerdict st re ty n (typeCons st oF ty b) v
    let ccF := checkCons st re (fieldConsOfBounds st ty b) v
    let cvC := coreVerdict st re ty n (typeCons st oC ty b) v
    (cvC = .accept → ccF ≠ .reject) ∧ (cvF = .accept → ccF = .accept → cvC ≠ .reject) ∧
    (cvF = .reject → cvC ≠ .accept) := by
  obtain ⟨⟨i1, i2, i3, i4, i5⟩, ⟨n1, n2, n3, n4, n5⟩, ⟨s1, s2, s3⟩, ⟨f1, f2, f3, f4, f5⟩,
    ⟨g1, g2, g3⟩, _, _, _⟩ := h
  have hint : ty = .integer → ∀ pk d, (d ∈ b.minimum ∨ d ∈ b.maximum ∨ d ∈ b.exclMin ∨ d ∈ b.exclMax ∨
      d ∈ b.multipleOf) → ∀ r, castValue r .int pk d = d := by
    intro hty pk d hd r
    subst hty
    simp only [scalarOK, Bool.and_eq_true] at hok
    exact castValue_integral _ _ _ _ (integral_mem _ hok.2 d hd)
  simp only [coreVerdict, typeCons, hF, hC, if_true, Bool.false_eq_true, if_false, fieldConsOfBounds]
  cases hnn : (n && v.isNull) with
  | true =>
    have : v = .null := by
      cases v <;> simp [Json.isNull] at hnn
      rfl
    subst this
    simp [checkCons]
  | false =>
    simp only [Bool.false_eq_true, if_false]
    cases ty <;> cases v <;>
      simp only [scalarOK, Bool.and_eq_true] at hok <;>
      simp [acceptsScalar, checkCons, famOf, checkNum_empty, checkStr_empty, Tri.ofBool]
    · -- integer, number value
      rename_i x
      have e1 := checkNum_consOfBounds _ _ b x i1 i2 i3 i4 i5 hok.1 (fun pk d hd => hint rfl pk d hd .conType)
      have e2 := checkNum_consOfBounds _ _ b x f1 f2 f3 f4 f5 hok.1 (fun pk d hd => hint rfl pk d hd .field)
      simp only [e1, e2]
      cases x.isInt <;> cases numOK b x <;> simp
    · -- number
      rename_i x
      have e1 := checkNum_consOfBounds (conTypeKw st .num) (castValue .conType .num) b x n1 n2 n3 n4 n5 hok
        (fun pk d _ => by simp [castValue])
      have e2 := checkNum_consOfBounds (fieldKw st) (castValue .field .num) b x f1 f2 f3 f4 f5 hok
        (fun pk d _ => by simp [castValue])
      simp only [e1, e2]
      cases numOK b x <;> simp
    · -- string
      rename_i s
      have e1 := checkStr_consOfBounds st re (conTypeKw st .str) (castValue .conType .str) b s s1 s2 s3 hok
      have e2 := checkStr_consOfBounds st re (fieldKw st) (castValue .field .str) b s g1 g2 g3 hok
      simp only [e1, e2]
      cases strOK re b s <;> simp

/-- the routing-independent verdict of a scalar leaf, at any two fuels -/
theorem leaf_compat (h : TableOK st) (hF : oF.fieldConstraints = true)
    (hC : oC.fieldConstraints = false) (ty : STy) (n : Bool) (b : Bounds) (v : Json)
    (hok : scalarOK ty b = true) (X Y : Tri)
    (hX : X = .laxZone ∨ X = coreVerdict st re ty n (typeCons st oF ty b) v)
    (hY : Y = .laxZone ∨ Y = coreVerdict st re ty n (typeCons st oC ty b) v) :
    Compat (Tri.and X (checkCons st re (fieldConsOfBounds st ty b) v)) Y := by
  obtain ⟨F1, F2, F3⟩ := leaf_facts st re oF oC h hF hC ty n b v hok
  rcases hY with rfl | rfl
  · exact compat_lax_right _
  · rcases hX with rfl | rfl
    · generalize checkCons st re (fieldConsOfBounds st ty b) v = cc at *
      generalize coreVerdict st re ty n (typeCons st oC ty b) v = cv at *
      cases cc <;> cases cv <;> simp_all [Compat, Tri.and]
    · generalize checkCons st re (fieldConsOfBounds st ty b) v = cc at *
      generalize coreVerdict st re ty n (typeCons st oC ty b) v = cv at *
      generalize coreVerdict st re ty n (typeCons st oF ty b) v = cf at *
      cases cc <;> cases cv <;> cases cf <;> simp_all [Compat, Tri.and]

end
end Dcg.Proofs.Sem

namespace Dcg.Proofs.Sem
open Dcg.Sem Dcg.Sem.Pyd Dcg.Model.Constraints Dcg.Model.Translate

def isScalar : Schema → Bool
  | .scalar _ _ _ => true
  | _ => false

mutual
/-- Where the two constraint routings are claimed to agree. Excluded (and refuted on the pinned
tree): a constrained scalar as `additionalProperties` value (D11) and item-count constraints on an
array that is itself an array item / union alternative (D31). -/
def routingSafe : Ctx → Schema → Bool
  | ctx, .scalar _ _ b => ctx != .plain || !boundsHasConstraint b
  | ctx, .array items mn mx =>
    (match ctx with
      | .item _ => !(mn.isSome || mx.isSome)
      | _ => true) && routingSafe (.item (mn.isSome || mx.isSome)) items
  | _, .object props _ _ => propsRoutingSafe props
  | _, .dict value => routingSafe .plain value
  | _, .anyOf alts => altsRoutingSafe alts
  | _, .oneOf alts => altsRoutingSafe alts
  | _, .allOf _ _ _ _ => false
  | _, .disc _ _ _ _ => false
  | _, _ => true
/-- members: a scalar member may carry constraints (they travel in its `Field()`) -/
def propsRoutingSafe : List (List Char × Schema) → Bool
  | [] => true
  | p :: ps => (isScalar p.2 || routingSafe .plain p.2) && propsRoutingSafe ps
def altsRoutingSafe : List Schema → Bool
  | [] => true
  | a :: as => routingSafe (.item false) a && altsRoutingSafe as
end

def defsRoutingSafe : Defs → Bool
  | [] => true
  | p :: ps => routingSafe .top p.2 && defsRoutingSafe ps

theorem propsRoutingSafe_mem {ps : List (List Char × Schema)} (h : propsRoutingSafe ps = true)
    {p : List Char × Schema} (hp : p ∈ ps) :
    (isScalar p.2 || routingSafe .plain p.2) = true := by
  induction ps with
  | nil => simp at hp
  | cons q qs ih =>
    simp only [propsRoutingSafe, Bool.and_eq_true] at h
    cases List.mem_cons.mp hp with
    | inl e => subst e; exact h.1
    | inr e => exact ih h.2 e

theorem altsRoutingSafe_mem {as : List Schema} (h : altsRoutingSafe as = true) {a : Schema}
    (ha : a ∈ as) : routingSafe (.item false) a = true := by
  induction as with
  | nil => simp at ha
  | cons q qs ih =>
    simp only [altsRoutingSafe, Bool.and_eq_true] at h
    cases List.mem_cons.mp ha with
    | inl e => subst e; exact h.1
    | inr e => exact ih h.2 e

theorem defsRoutingSafe_lookup {defs : Defs} (h : defsRoutingSafe defs = true) {n : List Char}
    {s : Schema} (hl : defs.lookup n = some s) : routingSafe .top s = true := by
  induction defs with
  | nil => simp [List.lookup] at hl
  | cons p ps ih =>
    obtain ⟨k, t⟩ := p
    simp only [defsRoutingSafe, Bool.and_eq_true] at h
    simp only [List.lookup] at hl
    split at hl
    · simp at hl; subst hl; exact h.1
    · exact ih h.2 hl

theorem consOfBounds_noCons (route : String → Option String) (cast : String → Dec → Dec)
    (b : Bounds) (h : boundsHasConstraint b = false) : consOfBounds route cast b = {} := by
  obtain ⟨mn, mx, xmn, xmx, mul, minl, maxl, pat⟩ := b
  simp only [boundsHasConstraint, Bool.or_eq_false_iff, Option.isSome_eq_false_iff,
    Option.isNone_iff_eq_none] at h
  obtain ⟨⟨⟨⟨⟨⟨⟨rfl, rfl⟩, rfl⟩, rfl⟩, rfl⟩, rfl⟩, rfl⟩, rfl⟩ := h
  simp [consOfBounds, put]

theorem and_accept (a : Tri) : Tri.and a .accept = a := by cases a <;> rfl

theorem isConst_tr (st : Style) (o : Opts) (s : Schema) :
    isConst (tr st o .plain s) = (match s with
      | .const _ => true
      | _ => false) := by
  cases s
  case allOf refs props req xreq =>
    cases refs with
    | nil => simp [tr, isConst]
    | cons r rs => cases rs <;> cases props <;> simp [tr, isConst]
  case scalar ty n b => cases n <;> simp [tr, isConst, scalarCore]
  case disc one prop refs m => simp [tr, isConst]
  all_goals simp [tr, isConst]


end Dcg.Proofs.Sem

namespace Dcg.Proofs.Sem
open Dcg.Sem Dcg.Sem.Pyd Dcg.Model.Constraints Dcg.Model.Translate

section
variable (st : Style) (re : Regex) (oF oC : Opts) (defs : Defs)

/-- statement of the routing induction at fuel `g` -/
def RC (g : Nat) : Prop :=
  ∀ ctx s v, s.inSubset = true → routingSafe ctx s = true →
    Compat (acceptsTy st re g (trDefs st oF defs) (tr st oF ctx s) v)
           (acceptsTy st re g (trDefs st oC defs) (tr st oC ctx s) v)

def RCle (g : Nat) : Prop := ∀ g', g' ≤ g → RC st re oF oC defs g'

/-- a scalar leaf does not look at the definitions environment -/
theorem acceptsTy_core_indep (o : Opts) (ty : STy) (n : Bool) (b : Bounds) (v : Json) (g : Nat)
    (D D' : IRDefs) :
    acceptsTy st re g D (scalarCore st o ty n b) v = acceptsTy st re g D' (scalarCore st o ty n b) v := by
  cases g with
  | zero => simp [acceptsTy]
  | succ g =>
    cases n with
    | false => simp [scalarCore, acceptsTy]
    | true =>
      simp only [scalarCore, if_true, acceptsTy]
      cases g <;> simp [acceptsTy]

theorem rc_scalar (h : TableOK st) (hF : oF.fieldConstraints = true)
    (hC : oC.fieldConstraints = false) (g : Nat) (ctx : Ctx) (ty : STy) (n : Bool) (b : Bounds)
    (v : Json) (hok : scalarOK ty b = true) (hs : routingSafe ctx (.scalar ty n b) = true) :
    Compat (acceptsTy st re (g + 1) (trDefs st oF defs) (tr st oF ctx (.scalar ty n b)) v)
           (acceptsTy st re (g + 1) (trDefs st oC defs) (tr st oC ctx (.scalar ty n b)) v) := by
  have cF := fun k => acceptsTy_core_cases st oF re ty n b v k (trDefs st oF defs)
  have cC := fun k => acceptsTy_core_cases st oC re ty n b v k (trDefs st oC defs)
  have leaf := fun X Y hX hY => leaf_compat st re oF oC h hF hC ty n b v hok X Y hX hY
  -- without constraints both routings produce the same type
  have hsame : boundsHasConstraint b = false → scalarCore st oF ty n b = scalarCore st oC ty n b := by
    intro hb
    simp only [scalarCore, typeCons, hF, hC, if_true, Bool.false_eq_true, if_false]
    cases famOf ty <;> simp [consOfBounds_noCons _ _ b hb]
  cases ctx with
  | top =>
    simp only [tr, acceptsTy, rootCons, hF, hC, if_true, Bool.false_eq_true, if_false,
      checkCons_empty, and_accept]
    exact leaf _ _ (cF g) (cC g)
  | plain =>
    simp only [routingSafe, bne_self_eq_false, Bool.false_or, Bool.not_eq_true'] at hs
    simp only [tr, hsame hs]
    exact compat_of_eq (acceptsTy_core_indep st re oC ty n b v (g + 1) _ _)
  | item phc =>
    simp only [tr, hF, hC, Bool.or_true, Bool.and_true, Bool.or_false]
    cases hb : boundsHasConstraint b with
    | false =>
      simp only [Bool.false_and, Bool.false_eq_true, if_false, hsame hb]
      exact compat_of_eq (acceptsTy_core_indep st re oC ty n b v (g + 1) _ _)
    | true =>
      cases phc with
      | true =>
        simp only [Bool.true_and, if_true, acceptsTy, rootCons, hF, hC, Bool.false_eq_true, if_false,
          checkCons_empty, and_accept]
        exact leaf _ _ (cF g) (cC g)
      | false =>
        simp only [Bool.true_and, if_true, Bool.false_eq_true, if_false, acceptsTy, rootCons, hF]
        exact leaf _ _ (cF g) (cC (g + 1))

end
end Dcg.Proofs.Sem

namespace Dcg.Proofs.Sem
open Dcg.Sem Dcg.Sem.Pyd Dcg.Model.Constraints Dcg.Model.Translate

section
variable (st : Style) (re : Regex) (oF oC : Opts) (defs : Defs)

theorem rc_list (g : Nat) (ih : RCle st re oF oC defs g) (ctx : Ctx) (items : Schema) (v : Json)
    (hsub : items.inSubset = true) (hs : routingSafe ctx items = true) (k : Nat) (hk : k ≤ g + 1) :
    Compat (acceptsTy st re k (trDefs st oF defs) (.list (tr st oF ctx items)) v)
           (acceptsTy st re k (trDefs st oC defs) (.list (tr st oC ctx items)) v) := by
  cases k with
  | zero => simp [acceptsTy, compat_refl]
  | succ k =>
    cases v <;> simp only [acceptsTy, compat_refl]
    rename_i xs
    exact compat_all_map xs _ _ (fun x _ => ih k (by omega) ctx items x hsub hs)

theorem rc_array (g : Nat) (ih : RCle st re oF oC defs g) (ctx : Ctx) (items : Schema)
    (mn mx : Option Nat) (v : Json) (hsub : items.inSubset = true)
    (hs : routingSafe ctx (.array items mn mx) = true) :
    Compat (acceptsTy st re (g + 1) (trDefs st oF defs) (tr st oF ctx (.array items mn mx)) v)
           (acceptsTy st re (g + 1) (trDefs st oC defs) (tr st oC ctx (.array items mn mx)) v) := by
  simp only [routingSafe, Bool.and_eq_true] at hs
  obtain ⟨hctx, hitems⟩ := hs
  have hl := rc_list st re oF oC defs g ih (.item (mn.isSome || mx.isSome)) items v hsub hitems
  cases ctx with
  | top =>
    simp only [tr, acceptsTy]
    exact compat_and (hl g (by omega)) (compat_refl _)
  | plain =>
    simp only [tr]
    exact hl (g + 1) (by omega)
  | item phc =>
    have hc : (mn.isSome || mx.isSome) = false := by simpa using hctx
    have hl' := hl (g + 1) (by omega)
    simp only [hc] at hl'
    simp only [tr, hc, Bool.false_and, Bool.false_eq_true, if_false]
    exact hl'

theorem fieldCons_nonscalar (o o' : Opts) (s : Schema) (h : isScalar s = false) :
    fieldCons st o s = fieldCons st o' s := by
  cases s <;> simp [fieldCons] <;> simp [isScalar] at h

theorem rc_object (h : TableOK st) (hF : oF.fieldConstraints = true)
    (hC : oC.fieldConstraints = false) (g : Nat) (ih : RCle st re oF oC defs g) (ctx : Ctx)
    (props : List (List Char × Schema)) (req : List (List Char)) (addl : Addl) (v : Json)
    (hsub : (Schema.object props req addl).inSubset = true)
    (hs : routingSafe ctx (.object props req addl) = true) :
    Compat (acceptsTy st re (g + 1) (trDefs st oF defs) (tr st oF ctx (.object props req addl)) v)
           (acceptsTy st re (g + 1) (trDefs st oC defs) (tr st oC ctx (.object props req addl)) v) := by
  simp only [Schema.inSubset, Bool.and_eq_true] at hsub
  obtain ⟨⟨hps, _⟩, _⟩ := hsub
  simp only [routingSafe] at hs
  cases v <;> simp only [tr, acceptsTy, compat_refl]
  rename_i kvs
  have hnames : ∀ o, (trProps st o req props).map (·.1) = props.map (·.1) := by
    intro o; rw [trProps_eq_map, List.map_map]; rfl
  refine compat_and ?_ ?_
  · rw [trProps_eq_map, trProps_eq_map, List.map_map, List.map_map]
    refine compat_all_map props _ _ ?_
    intro p hp
    obtain ⟨nm, s⟩ := p
    have hsafe := propsRoutingSafe_mem hs hp
    have hsub' : s.inSubset = true := propsInSubset_mem (p := (nm, s)) hps hp
    simp only [Function.comp]
    cases kvs.lookup nm with
    | none =>
      simp only
      cases (req.contains nm && !constDefaulted st s) <;> simp [compat_refl]
      split <;> split <;> simp [Compat]
    | some x =>
      simp only
      have hic : isConst (tr st oF .plain s) = isConst (tr st oC .plain s) := by
        rw [isConst_tr, isConst_tr]
      rw [hic]
      cases (x.isNull && !(req.contains nm && !constDefaulted st s) && !isConst (tr st oC .plain s)) with
      | true => simp [compat_refl]
      | false =>
        simp only [Bool.false_eq_true, if_false]
        cases s with
        | scalar ty n b =>
          simp only [Schema.inSubset] at hsub'
          simp only [tr, fieldCons, hF, hC, if_true, Bool.false_eq_true, if_false, checkCons_empty,
            and_accept]
          exact leaf_compat st re oF oC h hF hC ty n b x hsub' _ _
            (acceptsTy_core_cases st oF re ty n b x g _) (acceptsTy_core_cases st oC re ty n b x g _)
        | _ =>
          simp only [isScalar, Bool.false_or] at hsafe
          rw [fieldCons_nonscalar st oF oC _ (by simp [isScalar])]
          exact compat_and (ih g (Nat.le_refl _) .plain _ x hsub' hsafe) (compat_refl _)
  · rw [hnames oF, hnames oC]
    exact compat_refl _

/-- `Optional[Dict[str, Any]]` mentions no definition: its verdict does not depend on the environment -/
theorem acceptsTy_optDictAny_indep (D D' : IRDefs) (v : Json) :
    ∀ g, acceptsTy st re g D (.opt (.dict .any)) v = acceptsTy st re g D' (.opt (.dict .any)) v := by
  have hany : ∀ g (x : Json), acceptsTy st re g D .any x = acceptsTy st re g D' .any x := by
    intro g x; cases g <;> simp [acceptsTy]
  have hdict : ∀ g, acceptsTy st re g D (.dict .any) v = acceptsTy st re g D' (.dict .any) v := by
    intro g
    cases g with
    | zero => simp [acceptsTy]
    | succ g =>
      cases v <;> simp only [acceptsTy]
      rename_i kvs
      congr 1
      exact List.map_congr_left (fun kv _ => hany g kv.2)
  intro g
  cases g with
  | zero => simp [acceptsTy]
  | succ g => simp only [acceptsTy, hdict g]

theorem rc_all (h : TableOK st) (hF : oF.fieldConstraints = true) (hC : oC.fieldConstraints = false)
    (hd : defsInSubset defs = true) (hds : defsRoutingSafe defs = true) :
    ∀ g, RCle st re oF oC defs g := by
  intro g
  induction g with
  | zero =>
    intro g' hg' ctx s v _ _
    have : g' = 0 := by omega
    subst this
    simp [acceptsTy, compat_refl]
  | succ g ih =>
    intro g' hg'
    by_cases hle : g' ≤ g
    · exact ih g' hle
    · have : g' = g + 1 := by omega
      subst this
      intro ctx s v hsub hs
      cases s with
      | any => simp [tr, acceptsTy, compat_refl]
      | null => simp [tr, acceptsTy, compat_refl]
      | scalar ty n b =>
        simp only [Schema.inSubset] at hsub
        exact rc_scalar st re oF oC defs h hF hC g ctx ty n b v hsub hs
      | enum vals => simp [tr, acceptsTy, compat_refl]
      | const a => simp [tr, acceptsTy, compat_refl]
      | array items mn mx =>
        simp only [Schema.inSubset] at hsub
        exact rc_array st re oF oC defs g ih ctx items mn mx v hsub hs
      | object props req addl => exact rc_object st re oF oC defs h hF hC g ih ctx props req addl v hsub hs
      | dict value =>
        simp only [Schema.inSubset] at hsub
        simp only [routingSafe] at hs
        cases v <;> simp only [tr, acceptsTy, compat_refl]
        rename_i kvs
        have hnd : value.isDisc = false := by
          cases value <;> simp [Schema.isDisc] <;> simp [routingSafe] at hs
        simp only [hnd, Bool.false_eq_true, if_false]
        exact compat_all_map kvs _ _ (fun kv _ => ih g (Nat.le_refl _) .plain value kv.2 hsub hs)
      | ndict value =>
        cases ctx <;> simp only [tr]
        · simp only [acceptsTy, acceptsTy_optDictAny_indep st re (trDefs st oF defs) (trDefs st oC defs) v g]
          exact compat_refl _
        · rw [acceptsTy_optDictAny_indep st re (trDefs st oF defs) (trDefs st oC defs) v]
          exact compat_refl _
        · rw [acceptsTy_optDictAny_indep st re (trDefs st oF defs) (trDefs st oC defs) v]
          exact compat_refl _
      | ref n =>
        simp only [tr, acceptsTy, lookup_trDefs]
        cases hl : defs.lookup n with
        | none => simp [compat_refl]
        | some t =>
          simp only [Option.map]
          exact ih g (Nat.le_refl _) .top t v (defs_lookup_inSubset hd hl) (defsRoutingSafe_lookup hds hl)
      | anyOf alts =>
        simp only [Schema.inSubset] at hsub
        simp only [routingSafe] at hs
        simp only [tr, acceptsTy, trAlts_eq_map, List.map_map]
        refine compat_any_map alts _ _ (fun a ha => ?_)
        have hsa := altsRoutingSafe_mem hs ha
        have hnd : a.isDisc = false := by
          cases a <;> simp [Schema.isDisc] <;> simp [routingSafe] at hsa
        simp only [Function.comp, altTy_of_not_disc _ _ _ hnd]
        exact ih g (Nat.le_refl _) (.item false) a v (allInSubset_mem hsub ha) hsa
      | oneOf alts =>
        simp only [Schema.inSubset] at hsub
        simp only [routingSafe] at hs
        simp only [tr, acceptsTy, trAlts_eq_map, List.map_map]
        refine compat_any_map alts _ _ (fun a ha => ?_)
        have hsa := altsRoutingSafe_mem hs ha
        have hnd : a.isDisc = false := by
          cases a <;> simp [Schema.isDisc] <;> simp [routingSafe] at hsa
        simp only [Function.comp, altTy_of_not_disc _ _ _ hnd]
        exact ih g (Nat.le_refl _) (.item false) a v (allInSubset_mem hsub ha) hsa
      | allOf refs props req xreq => simp [routingSafe] at hs
      | disc one prop refs m => simp [routingSafe] at hs


end
end Dcg.Proofs.Sem
