import Dcg.Model.FieldSpec
/-!
Helper lemmas for C05.

`closedDecision` is the closed form of what each class template decides for a member;
`decision_eq` proves, by kernel evaluation over every template kind and every valuation of the
seven atoms (5 × 128 cases), that the table regenerated from the Jinja sources decides exactly
that. The exhaustive lemmas over the vector space are then evaluated with the closed form, which
the kernel can evaluate quickly, and transported to the table-driven model by `decision_eq`.
An edit of a template conditional that changes any decision breaks `decision_eq`.
-/
namespace Dcg.Proofs.Field
open Dcg.Model.Field Dcg.Gen.FieldTemplates

/-- closed form of the member part of the five class templates (as of the pinned tree):
pydantic v1/v2 and msgspec write `= field.field` when there is no `Annotated[…]` and the field
string is non-empty; otherwise the default is appended unless the member is required or its
`None` default is stripped — the v2 template adds `or field.data_type.is_optional` (D7), the
msgspec template uses `not field.field and (not required or is_optional or nullable)`. -/
def closedDecision (k : Kind) (e : Env) : Decision :=
  let plain := !e.annotated && e.field
  let keep := !(e.required || (e.reprDefaultIsNone && e.stripDefaultNone))
  match k with
  | .v1 => ⟨!plain && e.annotated, plain, !plain && keep⟩
  | .v2 => ⟨!plain && e.annotated, plain, !plain && (keep || e.dataTypeIsOptional)⟩
  | .dc => ⟨false, e.field, !e.field && keep⟩
  | .td => ⟨false, false, false⟩
  | .ms => ⟨!plain && e.annotated, plain || (e.annotated && e.field),
            !plain && !e.field && (!e.required || e.dataTypeIsOptional || e.nullable)⟩

theorem decision_eq : tableDecision = closedDecision := by
  funext k e
  obtain ⟨a, b, c, d, x, y, z⟩ := e
  revert k a b c d x y z
  decide +kernel


end Dcg.Proofs.Field
