import Dcg.Model.SharedCell
/-! helper lemmas for the section "spelling of a use is kept in the data-type object" of Props/C12 -/
namespace Dcg.Proofs.SharedCell
open Dcg.Model.SharedCell

/-- every use of `hist` sitting in object `c` has spelling `s` -/
def allSp (hist : List Use) (c : Nat) (s : Spelling) : Prop := ∀ v ∈ hist, v.cell = c → v.sp = s

theorem write_other (st : Store) (u : Use) (c : Nat) (h : u.cell ≠ c) : write st u c = st c := by
  unfold write
  cases u.sp with
  | none => rfl
  | some a => simp only []; rw [if_neg (fun e => h e.symm)]

/-- once the object holds `s`, uses that all spell `s` leave it there -/
theorem run_keep (hist : List Use) (c : Nat) (s : Spelling) (st : Store) (hall : allSp hist c s) (h0 : st c = s) :
    run st hist c = s := by
  induction hist generalizing st with
  | nil => exact h0
  | cons u us ih =>
    simp only [run]
    apply ih
    · intro v hv; exact hall v (List.mem_cons_of_mem _ hv)
    · by_cases hc : u.cell = c
      · have hu : u.sp = s := hall u List.mem_cons_self hc
        subst hc
        unfold write
        cases hsp : u.sp with
        | none => simp only []; rw [h0, ← hu, hsp]
        | some a => simp only [if_true]; rw [← hu, hsp]
      · rw [write_other st u c hc]; exact h0

/-- a fresh object that some use of `hist` sits in ends with the common spelling -/
theorem run_reach (hist : List Use) (c : Nat) (s : Spelling) (st : Store) (hall : allSp hist c s)
    (hex : ∃ v ∈ hist, v.cell = c) (h0 : st c = none) : run st hist c = s := by
  induction hist generalizing st with
  | nil => obtain ⟨v, hv, _⟩ := hex; cases hv
  | cons u us ih =>
    simp only [run]
    have hall' : allSp us c s := fun v hv => hall v (List.mem_cons_of_mem _ hv)
    by_cases hc : u.cell = c
    · have hu : u.sp = s := hall u List.mem_cons_self hc
      apply run_keep us c s _ hall'
      subst hc
      unfold write
      cases hsp : u.sp with
      | none => simp only []; rw [h0, ← hu, hsp]
      | some a => simp only [if_true]; rw [← hu, hsp]
    · apply ih _ hall'
      · obtain ⟨v, hv, hvc⟩ := hex
        rcases List.mem_cons.mp hv with rfl | hv
        · exact absurd hvc hc
        · exact ⟨v, hv, hvc⟩
      · rw [write_other st u c hc]; exact h0

theorem run_append (st : Store) (a b : List Use) : run st (a ++ b) = run (run st a) b := by
  induction a generalizing st with
  | nil => rfl
  | cons u us ih => simp only [List.cons_append, run]; exact ih _

theorem allSp_of (hist : List Use) (hu : unshared hist = true) (hc : coherent hist = true) (u : Use) (hm : u ∈ hist) :
    allSp hist u.cell u.sp := by
  intro v hv hcell
  have h1 := List.all_eq_true.mp (List.all_eq_true.mp hu u hm) v hv
  have h2 := List.all_eq_true.mp (List.all_eq_true.mp hc u hm) v hv
  have hmod : u.mod = v.mod := by
    rcases Bool.or_eq_true _ _ |>.mp h1 with h | h
    · exact absurd hcell.symm (by simpa using h)
    · simpa using h
  simp only [Bool.or_eq_true, bne_iff_ne, ne_eq, beq_iff_eq] at h2
  rcases h2 with (h | h) | h
  · exact absurd hcell.symm h
  · exact absurd hmod h
  · exact h.symm

end Dcg.Proofs.SharedCell
