import Dcg.Model.TemplateLex
import Dcg.Proofs.TemplateAbs
/-
The lexical-state analysis (`Model/TemplateLex.lexAuto`) is sound with respect to the interpreter,
for values that are lexically neutral for their site class.
-/
namespace Dcg.Proofs.TemplateLex
open Dcg.Model.TemplateSyntax Dcg.Model.Template Dcg.Model.TemplateAbs Dcg.Model.TemplateLex
open Dcg.Proofs.TemplateAbs

/-- **Lexically neutral for its class.** In every state in which the site may stand (`siteAllowed`),
reading the value leaves the lexer in one of the states `lslot` lists: the same state; inside a
triple-quoted string possibly with one or two quotes pending (escaped docstring text may end in
quotes, never in three); directly behind an opening quote the string has begun or the value is
empty.  Single-line classes contain no line break. -/
def LexHyp (e : Expr) (v : List Char) : Prop :=
  (∀ q qs, lslot e q = some qs → lexAuto.run q v ∈ qs) ∧
  (loneLine e = true → ∀ c ∈ v, isBreak c = false)

def lexSound : Sound lexAuto where
  Hyp := LexHyp
  slot_sound := fun e q qs v hv hs => hv.1 q qs hs
  oneLine_sound := fun e v h1 hv => hv.2 h1

/-- **Generic lexical theorem.** If the lexical check of a template evaluates to `true`, then in
every rendering whose interpolated values are lexically neutral for their class the Python lexer
is, at the end of the text, in code state or in a `#` comment — in particular every string literal
the template opens is closed by the template's own quotes. -/
theorem lex_check_sound (assume : Facts) (enum : List Expr) (t : List Tpl)
    (h : check lexAuto .code lexGood assume enum t = true)
    (ctx : List (String × Val)) (o : Out) (hr : renderTemplate ctx t = .ok o)
    (hassume : Consistent assume ⟨ctx, []⟩) (hv : ∀ p ∈ o.slots, LexHyp p.1 p.2) :
    lexGood (lexAuto.run .code o.text) = true :=
  check_sound lexSound .code lexGood assume enum t h ctx o hr hassume hv

/-! ### discharging the hypothesis: values made of characters that mean nothing to the lexer -/

/-- not a quote, backslash, `#` or line break -/
def plainCh (c : Char) : Bool :=
  c != '\'' && c != '"' && c != '\\' && c != '#' && !isBreak c

theorem lstep_plain {c : Char} (h : plainCh c = true) :
    lstep .code c = .code ∧ (∀ d, lstep (.s d) c = .s d) ∧ (∀ d, lstep (.t d) c = .t d) ∧
    lstep .cmt c = .cmt ∧ (∀ d, lstep (.q1 d) c = .s d) := by
  unfold plainCh at h
  simp only [Bool.and_eq_true, bne_iff_ne, ne_eq, Bool.not_eq_true'] at h
  obtain ⟨⟨⟨⟨h1, h2⟩, h3⟩, h4⟩, h5⟩ := h
  have hn : c ≠ '\n' := by intro e; subst e; simp [isBreak] at h5
  have hr : c ≠ '\r' := by intro e; subst e; simp [isBreak] at h5
  have hq : ∀ d, c ≠ quoteOf d := by intro d; cases d <;> simp [quoteOf, h1, h2]
  refine ⟨?_, ?_, ?_, ?_, ?_⟩
  · simp [lstep, stepCode, h1, h2, h4]
  · intro d; simp [lstep, stepS, h3, hq d, hn, hr]
  · intro d; simp [lstep, stepT, h3, hq d]
  · simp [lstep, hn, hr]
  · intro d; simp [lstep, stepS, h3, hq d, hn, hr]

theorem lrun_cons (q : LQ) (c : Char) (r : List Char) : lexAuto.run q (c :: r) = lexAuto.run (lstep q c) r := rfl

theorem run_plain_stable : ∀ (v : List Char), (∀ c ∈ v, plainCh c = true) →
    lexAuto.run .code v = .code ∧ (∀ d, lexAuto.run (.s d) v = .s d) ∧
    (∀ d, lexAuto.run (.t d) v = .t d) ∧ lexAuto.run .cmt v = .cmt := by
  intro v
  induction v with
  | nil => intro _; exact ⟨rfl, fun _ => rfl, fun _ => rfl, rfl⟩
  | cons c r ih =>
    intro h
    obtain ⟨a, b, c', d', _⟩ := lstep_plain (h c List.mem_cons_self)
    obtain ⟨i1, i2, i3, i4⟩ := ih (fun x hx => h x (List.mem_cons_of_mem _ hx))
    refine ⟨?_, ?_, ?_, ?_⟩
    · rw [lrun_cons, a]; exact i1
    · intro d; rw [lrun_cons, b]; exact i2 d
    · intro d; rw [lrun_cons, c']; exact i3 d
    · rw [lrun_cons, d']; exact i4

/-- identifiers, dotted names, base lists, type hints without string literals, escaped keys without
quotes…: a value of plain characters is lexically neutral at every site -/
theorem lexHyp_of_plain (e : Expr) (v : List Char) (h : ∀ c ∈ v, plainCh c = true) : LexHyp e v := by
  obtain ⟨i1, i2, i3, i4⟩ := run_plain_stable v h
  constructor
  · intro q qs hs
    unfold lslot at hs
    split at hs
    · rename_i ha
      cases q with
      | code => cases hs; rw [i1]; exact List.mem_cons_self
      | s d => cases hs; rw [i2]; exact List.mem_cons_self
      | t d => cases hs; rw [i3]; exact List.mem_cons_self
      | cmt => cases hs; rw [i4]; exact List.mem_cons_self
      | q1 d =>
        cases hs
        cases v with
        | nil => exact List.mem_cons_self
        | cons c r =>
          rw [lrun_cons, (lstep_plain (h c List.mem_cons_self)).2.2.2.2 d]
          rw [(run_plain_stable r (fun x hx => h x (List.mem_cons_of_mem _ hx))).2.1 d]
          exact List.mem_cons_of_mem _ List.mem_cons_self
      | _ => simp [siteAllowed] at ha
    · cases hs
  · intro _ c hc
    have := h c hc
    unfold plainCh at this
    simp only [Bool.and_eq_true, Bool.not_eq_true'] at this
    exact this.2

/-! ### the hypothesis is decidable for a concrete value (used for non-vacuity examples) -/

def allLQ : List LQ :=
  [.code, .cmt, .err] ++ [false, true].flatMap (fun d => [.q1 d, .q2 d, .s d, .sEsc d, .t d, .tEsc d, .t1 d, .t2 d])

theorem mem_allLQ (q : LQ) : q ∈ allLQ := by
  cases q <;> (try rename_i d; cases d) <;> decide

def lrun (q : LQ) (v : List Char) : LQ := lexAuto.run q v

def lexHypB (e : Expr) (v : List Char) : Bool :=
  allLQ.all (fun q => match lslot e q with
    | some qs => decide (lrun q v ∈ qs)
    | none => true) &&
  (!loneLine e || v.all (fun c => !isBreak c))

theorem lexHypB_sound {e : Expr} {v : List Char} (h : lexHypB e v = true) : LexHyp e v := by
  unfold lexHypB at h
  simp only [Bool.and_eq_true, Bool.or_eq_true, Bool.not_eq_true'] at h
  constructor
  · intro q qs hs
    have := List.all_eq_true.mp h.1 q (mem_allLQ q)
    simp only [hs] at this
    have h2 : lrun q v ∈ qs := by simpa using this
    exact h2
  · intro hl c hc
    rcases h.2 with h2 | h2
    · rw [hl] at h2; cases h2
    · have := List.all_eq_true.mp h2 c hc
      simpa using this

end Dcg.Proofs.TemplateLex
