import Dcg.Proofs.Repoint
/-! The refuted variant of the re-pointing walk (`Model.Repoint.repointLive`): what it leaves behind, for every number of users. -/
namespace Dcg.Proofs.Repoint
open Dcg.Model.Repoint

theorem filter_ne_mid (pre rest : List User) (c : User) (h1 : c ∉ pre) (h2 : c ∉ rest) :
    (pre ++ c :: rest).filter (· != c) = pre ++ rest := by
  have e1 : pre.filter (· != c) = pre := List.filter_eq_self.mpr (fun a ha => by
    have : a ≠ c := fun e => h1 (e ▸ ha)
    simpa using this)
  have e2 : rest.filter (· != c) = rest := List.filter_eq_self.mpr (fun a ha => by
    have : a ≠ c := fun e => h2 (e ▸ ha)
    simpa using this)
  simp [List.filter_append, e1, e2]

/-- one call for a caller that stands in the middle of the duplicate's children -/
theorem replaceReference_mid (s : Store) (dup target : Ref) (hne : dup ≠ target) (pre rest : List User) (c : User)
    (hk : s.kids dup = pre ++ c :: rest) (h1 : c ∉ pre) (h2 : c ∉ rest) (hc : s.refOf c = some dup) :
    ∃ s1, replaceReference s c (some target) = some s1 ∧ s1.kids dup = pre ++ rest ∧
      ∀ u, u ≠ c → s1.refOf u = s.refOf u := by
  refine ⟨_, by simp only [replaceReference, hc]; rfl, ?_, ?_⟩
  · simp only [hne, if_false, if_true, hk]
    exact filter_ne_mid pre rest c h1 h2
  · intro u hu; simp [hu]

theorem repointLive_skips (dup target : Ref) (hne : dup ≠ target) :
    ∀ (post pre : List User) (s : Store) (fuel : Nat), post.length < fuel →
      s.kids dup = pre ++ post → (pre ++ post).Nodup → (∀ u ∈ post, s.refOf u = some dup) →
      ∃ s', repointLive (fun _ => true) dup target fuel pre.length s = some s' ∧
        s'.kids dup = pre ++ everySecond post ∧ (∀ u ∈ everySecond post, s'.refOf u = some dup) ∧
        ∀ u, u ∉ post → s'.refOf u = s.refOf u := by
  intro post
  induction post using everySecond.induct with
  | case1 =>
    intro pre s fuel hf hk _ _
    obtain ⟨f, rfl⟩ : ∃ f, fuel = f + 1 := ⟨fuel - 1, by omega⟩
    refine ⟨s, ?_, by simpa [everySecond] using hk, by simp [everySecond], fun _ _ => rfl⟩
    simp [repointLive, hk]
  | case2 c =>
    intro pre s fuel hf hk hnd href
    obtain ⟨f, rfl⟩ : ∃ f, fuel = f + 2 := ⟨fuel - 2, by simp at hf; omega⟩
    have hcp : c ∉ pre := by
      have := List.nodup_append.mp hnd
      exact fun h => this.2.2 c h c (by simp) rfl
    obtain ⟨s1, h1, k1, r1⟩ := replaceReference_mid s dup target hne pre [] c hk hcp (by simp) (href c (by simp))
    refine ⟨s1, ?_, by simpa [everySecond] using k1, by simp [everySecond], fun u hu => r1 u (by simpa using hu)⟩
    simp [repointLive, hk, h1, k1]
  | case3 c b r ih =>
    intro pre s fuel hf hk hnd href
    obtain ⟨f, rfl⟩ : ∃ f, fuel = f + 1 := ⟨fuel - 1, by omega⟩
    have hnd' := List.nodup_append.mp hnd
    have hcp : c ∉ pre := fun h => hnd'.2.2 c h c (by simp) rfl
    have hcr : c ∉ b :: r := (List.nodup_cons.mp hnd'.2.1).1
    obtain ⟨s1, h1, k1, r1⟩ := replaceReference_mid s dup target hne pre (b :: r) c hk hcp hcr (href c (by simp))
    have hk1 : s1.kids dup = (pre ++ [b]) ++ r := by simp [k1]
    have hnd1 : ((pre ++ [b]) ++ r).Nodup := by
      have : (pre ++ b :: r).Nodup := by
        have := hnd
        rw [List.nodup_append] at this ⊢
        exact ⟨this.1, (List.nodup_cons.mp this.2.1).2, fun a ha x hx => this.2.2 a ha x (by simp [hx])⟩
      simpa using this
    have href1 : ∀ u ∈ r, s1.refOf u = some dup := by
      intro u hu
      have huc : u ≠ c := fun e => hcr (by simp [← e, hu])
      rw [r1 u huc]; exact href u (by simp [hu])
    obtain ⟨s', h', k', r', fr'⟩ := ih (pre ++ [b]) s1 f (by simp at hf; omega) hk1 hnd1 href1
    have hbc : b ≠ c := fun e => hcr (by simp [e])
    have hbr : b ∉ r := (List.nodup_cons.mp (List.nodup_cons.mp hnd'.2.1).2).1
    refine ⟨s', ?_, by simpa [everySecond] using k', ?_, ?_⟩
    · have hidx : (s.kids dup)[pre.length]? = some c := by simp [hk]
      simp only [repointLive, hidx, if_true, h1, Option.bind_some]
      simpa using h'
    · intro u hu
      simp only [everySecond, List.mem_cons] at hu
      rcases hu with rfl | hu
      · rw [fr' _ hbr, r1 _ hbc]; exact href _ (by simp)
      · exact r' u hu
    · intro u hu
      have huc : u ≠ c := fun e => hu (by simp [e])
      rw [fr' u (fun h => hu (by simp [h])), r1 u huc]

end Dcg.Proofs.Repoint
