import Dcg.Model.SortPost
import Dcg.Proofs.Sort
/-! Helper lemmas for C11: the interpreter stack / escape hatch, termination with classes on closed
acyclic graphs, `__reuse_model` and the footer. Core Lean only. -/
namespace Dcg.Proofs.Sort
open Dcg.Model.Sort

/-! ### an exhausted stack is a smaller `recursion_count` -/

theorem sortGoS_hatch : ∀ (st rc : Nat) (ms s : List Model) (u : List Path),
    sortGoS true st rc ms s u = liftS (sortGo (min rc st) ms s u) := by
  intro st
  induction st with
  | zero =>
    intro rc ms s u
    cases rc with
    | zero => simp [sortGoS]
    | succ rc =>
      simp only [sortGoS, Nat.min_zero, sortGo, if_true]
      cases classify ms s u with
      | none => rfl
      | some c =>
        simp only
        split
        · rfl
        · split <;> rfl
  | succ st ih =>
    intro rc ms s u
    cases rc with
    | zero => simp [sortGoS]
    | succ rc =>
      have hmin : min (rc + 1) (st + 1) = min rc st + 1 := by omega
      rw [hmin]
      simp only [sortGoS, sortGo]
      cases classify ms s u with
      | none => rfl
      | some c =>
        simp only
        split
        · rfl
        · split
          · exact ih _ _ _ _
          · rfl

theorem liftS_ne_recursion (r : Except Err Out) : liftS r ≠ .error .recursionError := by
  cases r <;> simp [liftS]

/-! ### closed acyclic graphs: the function returns, whatever `recursion_count` -/

theorem hasKey_dictSet (d : List Model) (m : Model) (p : Path) :
    hasKey (dictSet d m) p = (hasKey d p || p == m.path) := by
  unfold dictSet
  split
  · rename_i hk
    have hmap : hasKey (d.map (fun x => if x.path == m.path then m else x)) p = hasKey d p := by
      simp only [hasKey, List.any_map]
      congr 1
      funext x
      simp only [Function.comp]
      by_cases hx : x.path = m.path
      · simp [hx]
      · simp [hx]
    rw [hmap]
    by_cases hp : p = m.path
    · subst hp; simp [hk]
    · simp [hp]
  · rw [hasKey_append]
    by_cases hp : p = m.path
    · subst hp; simp [hasKey]
    · have hp' : ¬ m.path = p := fun h => hp h.symm
      have h1 : (m.path == p) = false := beq_eq_false_iff_ne.mpr hp'
      have h2 : (p == m.path) = false := beq_eq_false_iff_ne.mpr hp
      simp only [hasKey, List.any_cons, List.any_nil, h1, h2, Bool.or_false]

/-- every reference of the batch is in the dict or in the batch -/
def Closed (s ms : List Model) : Prop :=
  ∀ m ∈ ms, ∀ r ∈ m.refs, hasKey s r = true ∨ r ∈ ms.map (·.path)

/-- the classification loop moves paths from the batch to the dict and loses none -/
theorem classify_keys : ∀ (ms s : List Model) (u : List Path) (c : Cls), classify ms s u = some c →
    ∀ p, (hasKey s p = true ∨ p ∈ ms.map (·.path)) → (hasKey c.sorted p = true ∨ p ∈ c.unres.map (·.path)) := by
  intro ms
  induction ms with
  | nil =>
    intro s u c h p hp
    simp only [classify, Option.some.injEq] at h
    subst h
    simpa using hp
  | cons m ms ih =>
    intro s u c h p hp
    simp only [classify] at h
    split at h
    · cases h
    · split at h
      · rename_i s' u' hstep
        rw [classifyStep_eq] at hstep
        split at hstep
        · simp only [Option.some.injEq, Prod.mk.injEq] at hstep
          obtain ⟨rfl, _⟩ := hstep
          apply ih _ _ c h p
          rcases hp with hp | hp
          · left; rw [hasKey_dictSet, hp]; rfl
          · rcases List.mem_cons.mp hp with rfl | hp
            · left; rw [hasKey_dictSet]; simp
            · right; exact hp
        · cases hstep
      · obtain ⟨c0, hc0, rfl⟩ := Option.map_eq_some_iff.mp h
        rcases hp with hp | hp
        · rcases ih s u c0 hc0 p (Or.inl hp) with h1 | h1
          · left; exact h1
          · right; simp only [List.map_cons, List.mem_cons]; right; exact h1
        · rcases List.mem_cons.mp hp with rfl | hp
          · right; simp
          · rcases ih s u c0 hc0 p (Or.inr hp) with h1 | h1
            · left; exact h1
            · right; simp only [List.map_cons, List.mem_cons]; right; exact h1

theorem classify_closed (ms s : List Model) (u : List Path) (c : Cls) (h : classify ms s u = some c)
    (hcl : Closed s ms) : Closed c.sorted c.unres := by
  intro m hm r hr
  have hsub := classify_unres_sublist ms s u c h
  exact classify_keys ms s u c h r (hcl m (hsub.subset hm) r hr)

/-- the cycle stage does not raise when every dependency is in the dict or in the batch -/
theorem circular_ok_of_closed (names : List Path) : ∀ (todo s : List Model) (u : List Path),
    (∀ m ∈ todo, ∀ r ∈ m.refs, hasKey s r = true ∨ r ∈ names) →
    ∃ o, circular names todo s u = .ok o := by
  intro todo
  induction todo with
  | nil => intro s u _; exact ⟨_, rfl⟩
  | cons m ms ih =>
    intro s u hcl
    have hcl' : ∀ x ∈ ms, ∀ r ∈ x.refs, hasKey (dictSet s m) r = true ∨ r ∈ names := by
      intro x hx r hr
      rcases hcl x (List.mem_cons_of_mem _ hx) r hr with h | h
      · left; rw [hasKey_dictSet, h]; rfl
      · right; exact h
    simp only [circular]
    split
    · exact ih _ _ hcl'
    · have hall : (pending s m).all (fun r => names.contains r) = true := by
        rw [List.all_eq_true]
        intro r hr
        simp only [pending, List.mem_filter, Bool.and_eq_true, bne_iff_ne, ne_eq, Bool.not_eq_true'] at hr
        rcases hcl m (List.mem_cons_self ..) r hr.1 with h | h
        · rw [h] at hr; cases hr.2.2
        · simpa using h
      rw [if_pos hall]
      exact ih _ _ hcl'

theorem finish_ok_of_closed (c : Cls) (hnd : (c.unres.map (·.path)).Nodup) (hac : Acyclic c.unres)
    (hcl : Closed c.sorted c.unres) : ∃ out, finish c = .ok out := by
  unfold finish
  have hsome := bubble_isSome c.unres hnd hac
  cases hb : bubble (c.unres.length + 1) c.unres with
  | none => rw [hb] at hsome; cases hsome
  | some fx =>
    obtain ⟨_, hperm⟩ := bubble_spec _ _ _ hb
    have hcl' : ∀ m ∈ fx, ∀ r ∈ m.refs, hasKey c.sorted r = true ∨ r ∈ fx.map (·.path) := by
      intro m hm r hr
      rcases hcl m (hperm.mem_iff.mp hm) r hr with h | h
      · left; exact h
      · right; exact ((hperm.map (·.path)).mem_iff).mpr h
    obtain ⟨o, ho⟩ := circular_ok_of_closed (fx.map (·.path)) fx c.sorted c.upd hcl'
    simp only [ho]
    exact ⟨_, rfl⟩

theorem sortGo_ok_of_closed : ∀ (rc : Nat) (ms s : List Model) (u : List Path),
    (ms.map (·.path)).Nodup → Acyclic ms → Closed s ms → ∃ out, sortGo rc ms s u = .ok out := by
  intro rc
  induction rc with
  | zero =>
    intro ms s u hnd hac hcl
    obtain ⟨c, hc⟩ := classify_isSome ms s u hac.noSelfBase
    have hsub := classify_unres_sublist ms s u c hc
    simp only [sortGo, hc]
    split
    · exact ⟨_, rfl⟩
    · exact finish_ok_of_closed c ((hsub.map (·.path)).nodup hnd) (hac.sublist hsub)
        (classify_closed ms s u c hc hcl)
  | succ rc ih =>
    intro ms s u hnd hac hcl
    obtain ⟨c, hc⟩ := classify_isSome ms s u hac.noSelfBase
    have hsub := classify_unres_sublist ms s u c hc
    simp only [sortGo, hc]
    split
    · exact ⟨_, rfl⟩
    · split
      · exact ih _ _ _ ((hsub.map (·.path)).nodup hnd) (hac.sublist hsub) (classify_closed ms s u c hc hcl)
      · exact finish_ok_of_closed c ((hsub.map (·.path)).nodup hnd) (hac.sublist hsub)
          (classify_closed ms s u c hc hcl)

/-! ### `__reuse_model` -/

theorem lookup_mem {α : Type} : ∀ (cache : List (Nat × α)) (k : Nat) (v : α),
    cache.lookup k = some v → (k, v) ∈ cache := by
  intro cache
  induction cache with
  | nil => intro k v h; simp [List.lookup] at h
  | cons e cache ih =>
    intro k v h
    obtain ⟨k0, v0⟩ := e
    simp only [List.lookup] at h
    split at h
    · rename_i heq
      simp only [Option.some.injEq] at h
      have : k = k0 := by simpa using heq
      subst this; subst h
      exact List.mem_cons_self ..
    · exact List.mem_cons_of_mem _ (ih k v h)

theorem reuseGo_paths : ∀ (ms : List Rendered) (cache : List (Nat × RPath)) (upd : List RPath),
    (reuseGo cache ms upd).1.map (·.path.1) = ms.map (·.path.1) := by
  intro ms
  induction ms with
  | nil => intro cache upd; rfl
  | cons m ms ih =>
    intro cache upd
    simp only [reuseGo]
    split
    · simp only [List.map_cons, ih]
    · simp only [List.map_cons, ih]

theorem reuseGo_upd_mono : ∀ (ms : List Rendered) (cache : List (Nat × RPath)) (upd : List RPath),
    ∀ p ∈ upd, p ∈ (reuseGo cache ms upd).2 := by
  intro ms
  induction ms with
  | nil => intro cache upd p hp; exact hp
  | cons m ms ih =>
    intro cache upd p hp
    simp only [reuseGo]
    split
    · apply ih
      split
      · exact List.mem_append_left _ hp
      · exact hp
    · exact ih _ _ p hp

/-- a subclass inserted for a flagged model is flagged -/
theorem reuseGo_flag : ∀ (ms : List Rendered) (cache : List (Nat × RPath)) (upd : List RPath),
    (∀ m ∈ ms, m.reuseOf = none) →
    ∀ x ∈ (reuseGo cache ms upd).1, ∀ c, x.reuseOf = some c → c ∈ upd → x.path ∈ (reuseGo cache ms upd).2 := by
  intro ms
  induction ms with
  | nil => intro cache upd _ x hx; cases hx
  | cons m ms ih =>
    intro cache upd hplain x hx c hc hcu
    have hplain' : ∀ y ∈ ms, y.reuseOf = none := fun y hy => hplain y (List.mem_cons_of_mem _ hy)
    simp only [reuseGo] at hx ⊢
    split at hx
    · rename_i c0 hlook
      simp only [hlook]
      rcases List.mem_cons.mp hx with rfl | hx
      · simp only [Option.some.injEq] at hc
        subst hc
        apply reuseGo_upd_mono
        have : upd.contains c0 = true := by simpa using hcu
        rw [if_pos this]
        simp
      · apply ih _ _ hplain' x hx c hc
        split
        · exact List.mem_append_left _ hcu
        · exact hcu
    · rename_i hlook
      simp only [hlook]
      rcases List.mem_cons.mp hx with hxm | hx
      · rw [hxm, hplain m (List.mem_cons_self ..)] at hc; cases hc
      · exact ih _ _ hplain' x hx c hc hcu

/-- the cached reference of an inserted subclass is in the cache the pass started with or is the
path of an unreplaced model that stands earlier in the result -/
theorem reuseGo_base_before : ∀ (ms : List Rendered) (cache : List (Nat × RPath)) (upd : List RPath),
    ∀ l1 x l2, (reuseGo cache ms upd).1 = l1 ++ x :: l2 → ∀ c, x.reuseOf = some c →
      (∀ m ∈ ms, m.reuseOf = none) →
      (x.key, c) ∈ cache ∨ ∃ y ∈ l1, y.path = c ∧ y.reuseOf = none ∧ y.key = x.key := by
  intro ms
  induction ms with
  | nil => intro cache upd l1 x l2 h; simp [reuseGo] at h
  | cons m ms ih =>
    intro cache upd l1 x l2 h c hc hplain
    have hplain' : ∀ y ∈ ms, y.reuseOf = none := fun y hy => hplain y (List.mem_cons_of_mem _ hy)
    simp only [reuseGo] at h
    split at h
    · rename_i c0 hlook
      cases l1 with
      | nil =>
        simp only [List.nil_append, List.cons.injEq] at h
        obtain ⟨rfl, _⟩ := h
        simp only [Option.some.injEq] at hc
        subst hc
        left
        exact lookup_mem _ _ _ hlook
      | cons y l1 =>
        simp only [List.cons_append, List.cons.injEq] at h
        obtain ⟨rfl, h⟩ := h
        rcases ih _ _ l1 x l2 h c hc hplain' with h1 | ⟨z, hz, hz'⟩
        · left; exact h1
        · right; exact ⟨z, List.mem_cons_of_mem _ hz, hz'⟩
    · rename_i hlook
      cases l1 with
      | nil =>
        simp only [List.nil_append, List.cons.injEq] at h
        obtain ⟨rfl, _⟩ := h
        rw [hplain m (List.mem_cons_self ..)] at hc; cases hc
      | cons y l1 =>
        simp only [List.cons_append, List.cons.injEq] at h
        obtain ⟨rfl, h⟩ := h
        rcases ih _ _ l1 x l2 h c hc hplain' with h1 | ⟨z, hz, hz'⟩
        · simp only [List.mem_append, List.mem_singleton, Prod.mk.injEq] at h1
          rcases h1 with h1 | ⟨hk, hp⟩
          · left; exact h1
          · right
            exact ⟨m, List.mem_cons_self .., hp.symm, hplain m (List.mem_cons_self ..), hk.symm⟩
        · right; exact ⟨z, List.mem_cons_of_mem _ hz, hz'⟩

end Dcg.Proofs.Sort
