import Dcg.Model.TemplateLex
import Dcg.Gen.TemplateAst
/-! Kernel evaluation of the lexical check on every generated template AST. -/
namespace Dcg.Proofs.TemplateCheckLex
open Dcg.Model.TemplateSyntax Dcg.Model.TemplateAbs Dcg.Model.TemplateLex Dcg.Gen.TemplateAst

/-- every template: at every interpolation site every possible lexical state is allowed for the
site's class, and the template ends in code state or in a comment -/
def lexCheckAll : Bool := templates.all (fun t => check lexAuto .code lexGood [] [] t.2)

theorem lexCheckAll_ok : lexCheckAll = true := by decide +kernel

/-- no node outside the modelled fragment in any template -/
theorem no_unsupported : templates.all (fun t => Tpl.unsupportedCountL t.2 == 0) = true := by decide +kernel

end Dcg.Proofs.TemplateCheckLex
