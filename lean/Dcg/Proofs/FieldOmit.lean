import Dcg.Proofs.Field
/-! Exhaustive kernel evaluation over every valid reduced vector (closed-form template decision). -/
namespace Dcg.Proofs.Field
open Dcg.Model.Field

theorem omitExact_closed : AllR (fun r _ _ => !r) (OmitExact closedDecision) := by decide +kernel

end Dcg.Proofs.Field
