import Dcg.Model.FieldInherit
import Dcg.Proofs.TypedDict
import Dcg.Proofs.FieldLift
/-!
Inherited members (C05): the copy `__override_required_field` makes is the field record of the same
member declared by the subclass and listed by the allOf owner (`asOverride_eq_owner`), so the
exhaustive lemmas about scalar members carry over; and in a TypedDict the key of a member the class
declares once carries that declaration, whatever the bases declare and whichever syntax is used
(`rendered_get_of_mem`, on top of C07's `Dcg.Proofs.TypedDict`, which is imported read-only).
-/
namespace Dcg.Proofs.Field
open Dcg.Model.Field Dcg.Model.TypedDict Dcg.Proofs.TypedDict

/-- the copy `__override_required_field` makes of an inherited optional member is the field record the
parser builds for the same member declared by the subclass itself and listed by the allOf owner —
unless `--force-optional` / `--use-default` would have relaxed that one -/
theorem asOverride_eq_owner (b : Vec) (hr : b.inreq = false) (hv : b.via = .own) (hf : b.opts.fo = false)
    (hu : (b.opts.ud && b.dflt.given) = false) :
    (fromSchema b).asOverride = fromSchema { b with inreq := true, via := .owner } := by
  obtain ⟨k, n, r, d, t, c, ⟨sn, ud, fo, sd, an, fc⟩, via, name, sc⟩ := b
  simp only at hr hv hf hu
  subst hr hv hf
  have hl : ∀ (nm : NameKind) (s : Bool), (Vec.listed ⟨k, n, true, d, t, c, ⟨sn, ud, false, sd, an, fc⟩, .owner, nm, s⟩) = true := by
    intro nm s; rw [Vec.listed_eq]
  simp only [fromSchema, FieldRec.asOverride, Vec.reduce, Vec.finalRequired, hu, hl, Vec.listed_eq, fromReduced,
    typeListHasNull, schemaNullableFlag, dataTypeIsOptional, constraintsOf]
  simp

theorem lastVal_of_mem_nodup : ∀ (es : List Entry) (e : Entry), e ∈ es → (es.map (·.1)).Nodup → lastVal e.1 es = some e.2
  | [], _, h, _ => by cases h
  | x :: xs, e, h, hn => by
    have hn' : x.1 ∉ xs.map (·.1) ∧ (xs.map (·.1)).Nodup := by simpa using hn
    rcases List.mem_cons.mp h with h | h
    · subst h
      have : lastVal e.1 xs = none := by
        cases hs : lastVal e.1 xs with
        | none => rfl
        | some v =>
          have := (lastVal_isSome_iff xs e.1).mp (by simp [hs])
          exact absurd this hn'.1
      simp [lastVal, this]
    · simp [lastVal, lastVal_of_mem_nodup xs e h hn'.2]

theorem rendered_get_of_mem (bases : List TdClass) (fields : List TdField) (o : TdField) (ho : o ∈ fields)
    (hn : (fields.map TdField.key).Nodup) :
    dictGet o.key (TdClass.cls bases fields).rendered = some o.tag := by
  rw [rendered_get]
  have h : lastVal o.key (fields.map TdField.entry) = some o.tag := by
    have := lastVal_of_mem_nodup (fields.map TdField.entry) o.entry (List.mem_map_of_mem ho)
      (by simpa [List.map_map, TdField.entry, Function.comp_def] using hn)
    simpa [TdField.entry] using this
  simp only [TdClass.allFields, List.map_append, lastVal_append, h, Option.some_or]

theorem semOf_dc_acceptsNull (s : Shape) : (semOf .dc s).acceptsNull = s.opt := by
  obtain ⟨o, nr, an, asg⟩ := s
  rcases asg with _ | d | _ | d | _ | d | (_ | d) <;> simp [semOf, Asg.default?]

/-- whether a re-declared member accepts null is decided by the re-declaration alone, in every kind -/
theorem inheritSem_acceptsNull (k : Kind) (sb s : Shape) :
    (inheritSem k sb (some s)).acceptsNull = (semOf k s).acceptsNull := by
  simp only [inheritSem]
  by_cases hc : (k == Kind.dc && s.asg == Asg.none) = true
  · rw [if_pos hc]
    simp only [Bool.and_eq_true, beq_iff_eq] at hc
    cases hb : sb.asg <;> simp only [hc.1, semOf_dc_acceptsNull]
  · rw [if_neg hc]

end Dcg.Proofs.Field
