import Dcg.Py.Lex
import Dcg.Model.Escape
/-
The docstring escape: wherever `"""` ++ escDoc text ++ newline ++ … ++ `"""` is written, the lexer
reads the text back (up to newline normalisation) and the docstring ends at the closing quotes the
template wrote — never earlier.
-/
namespace Dcg.Proofs.Docstring
open Dcg.Py.Lex Dcg.Model.Escape

/-- number of double quotes at the front of a text -/
def frontQ : List Char → Nat
  | '"' :: r => frontQ r + 1
  | _ => 0

theorem take3_ne_of_frontQ {l : List Char} (h : frontQ l ≤ 2) : l.take 3 ≠ ['"', '"', '"'] := by
  intro h3
  match l, h3 with
  | a :: b :: c :: r, h3 =>
    simp only [List.take_succ_cons, List.take_zero, List.cons.injEq, and_true] at h3
    obtain ⟨rfl, rfl, rfl⟩ := h3
    simp [frontQ] at h
  | [], h3 => simp at h3
  | [_], h3 => simp at h3
  | [_, _], h3 => simp at h3

theorem frontQ_escDoc (s tail : List Char) :
    ∀ run, run ≤ 2 → frontQ (escDoc run s ++ '\n' :: tail) ≤ 2 - run := by
  induction s with
  | nil => intro run _; simp [escDoc, frontQ]
  | cons c r ih =>
    intro run hr
    simp only [escDoc]
    split
    · simp [frontQ]
    · split
      · simp [frontQ]
      · split
        · rename_i hq
          subst hq
          split
          · simp [frontQ]
          · rename_i h2
            have := ih (run + 1) (by omega)
            simp only [List.cons_append, frontQ]
            omega
        · rename_i hq
          simp only [List.cons_append]
          unfold frontQ
          split
          · rename_i heq; simp only [List.cons.injEq] at heq; exact absurd heq.1 hq
          · omega

theorem normNL_cons_ne {c : Char} {r : List Char} (h : c ≠ '\r') : normNL (c :: r) = c :: normNL r :=
  normNL.eq_4 c r (fun _ h' _ => h h') (fun h' => h h')

theorem normNL_cr {r : List Char} (h : ∀ x, r ≠ '\n' :: x) : normNL ('\r' :: r) = '\n' :: normNL r :=
  normNL.eq_3 r (fun r' h' => h r' h')

/-- one step of the long scanner when the front is not the closing triple quote -/
theorem scanLong_step {l cs r : List Char} (h3 : l.take 3 ≠ ['"', '"', '"'])
    (hu : unitLong l = some (cs, r)) :
    scanLong '"' l = (scanLong '"' r).map (fun p => (cs ++ p.1, p.2)) := by
  rw [scanLong, if_neg h3]
  split
  · rename_i h; rw [hu] at h; cases h
  · rename_i cs' r' h
    rw [hu] at h
    simp only [Option.some.injEq, Prod.mk.injEq] at h
    obtain ⟨rfl, rfl⟩ := h
    rfl

/-- the first character written for a non-empty text is a line feed only if the text starts with one -/
theorem escDoc_head_nl (c : Char) (r x : List Char) (run : Nat) (hc : c ≠ '\n')
    (h : escDoc run (c :: r) = '\n' :: x) : False := by
  simp only [escDoc] at h
  split at h
  · simp at h
  · split at h
    · simp at h
    · split at h
      · rename_i hq; subst hq
        split at h <;> simp at h
      · simp only [List.cons.injEq] at h; exact hc h.1

/-- Main lemma: the escaped text followed by the newline the template writes, then anything:
the scanner yields the text with that newline (newline-normalised — a trailing `\r` of the
text merges with the template's `\n`, exactly as in Python) and continues with `tail`. -/
theorem scanLong_escDoc (tail : List Char) :
    ∀ s run, run ≤ 2 →
      scanLong '"' (escDoc run s ++ '\n' :: tail) =
        (scanLong '"' tail).map (fun p => (normNL (s ++ ['\n']) ++ p.1, p.2)) := by
  intro s
  induction s using normNL.induct with
  | case1 =>
    intro run _
    have h3 : (escDoc run [] ++ '\n' :: tail).take 3 ≠ ['"', '"', '"'] := by
      cases tail with
      | nil => simp [escDoc]
      | cons a t => cases t <;> simp [escDoc]
    have hu : unitLong (escDoc run [] ++ '\n' :: tail) = some (['\n'], tail) := by simp [escDoc, unitLong]
    rw [scanLong_step h3 hu]
    simp [normNL]
  | case2 r ih =>
    intro run hr
    have h3 : (escDoc run ('\r' :: '\n' :: r) ++ '\n' :: tail).take 3 ≠ ['"', '"', '"'] :=
      take3_ne_of_frontQ (by have := frontQ_escDoc ('\r' :: '\n' :: r) tail run hr; omega)
    have hu : unitLong (escDoc run ('\r' :: '\n' :: r) ++ '\n' :: tail) =
        some (['\n'], escDoc 0 r ++ '\n' :: tail) := by
      simp [escDoc, unitLong]
    rw [scanLong_step h3 hu, ih 0 (by omega)]
    simp [normNL, Option.map_map, Function.comp_def]
  | case3 r hnot ih =>
    intro run hr
    have h3 : (escDoc run ('\r' :: r) ++ '\n' :: tail).take 3 ≠ ['"', '"', '"'] :=
      take3_ne_of_frontQ (by have := frontQ_escDoc ('\r' :: r) tail run hr; omega)
    cases r with
    | nil =>
      -- the text ends with \r: it merges with the template's \n
      have hu : unitLong (escDoc run ['\r'] ++ '\n' :: tail) = some (['\n'], tail) := by
        simp [escDoc, unitLong]
      rw [scanLong_step h3 hu]
      simp [normNL]
    | cons c r' =>
      have hc : c ≠ '\n' := fun h => hnot r' (by rw [h])
      have hu : unitLong (escDoc run ('\r' :: c :: r') ++ '\n' :: tail) =
          some (['\n'], escDoc 0 (c :: r') ++ '\n' :: tail) := by
        have hne : ∀ x, escDoc 0 (c :: r') ++ '\n' :: tail = '\n' :: x → False := by
          intro x hx
          cases he : escDoc 0 (c :: r') with
          | nil =>
            simp only [escDoc] at he
            split at he
            · simp at he
            · split at he
              · simp at he
              · split at he
                · split at he <;> simp at he
                · simp at he
          | cons a t =>
            rw [he] at hx
            simp only [List.cons_append, List.cons.injEq] at hx
            exact escDoc_head_nl c r' t 0 hc (by rw [he, hx.1])
        simp only [escDoc, show ('\r' : Char) ≠ '\\' by decide, show ('\r' : Char) ≠ Char.ofNat 0 by decide,
          show ('\r' : Char) ≠ '"' by decide, if_false, List.cons_append, unitLong, if_true]
        split
        · rename_i x heq
          exact absurd heq (by
            intro h
            have := hne x (by simpa [escDoc] using h)
            exact this)
        · rfl
      rw [scanLong_step h3 hu, ih 0 (by omega)]
      have : normNL ('\r' :: (c :: r' ++ ['\n'])) = '\n' :: normNL (c :: r' ++ ['\n']) :=
        normNL_cr (fun x hx => by simp only [List.cons_append, List.cons.injEq] at hx; exact hc hx.1)
      simp only [List.cons_append] at this ⊢
      simp [this, Option.map_map, Function.comp_def]
  | case4 c r hcr1 hcr2 ih =>
    intro run hr
    have hcr : c ≠ '\r' := fun h => hcr2 h
    have h3 : (escDoc run (c :: r) ++ '\n' :: tail).take 3 ≠ ['"', '"', '"'] :=
      take3_ne_of_frontQ (by have := frontQ_escDoc (c :: r) tail run hr; omega)
    have hN : normNL (c :: r ++ ['\n']) = c :: normNL (r ++ ['\n']) := by
      simpa using normNL_cons_ne (r := r ++ ['\n']) hcr
    by_cases hb : c = '\\'
    · subst hb
      have hu : unitLong (escDoc run ('\\' :: r) ++ '\n' :: tail) = some (['\\'], escDoc 0 r ++ '\n' :: tail) := by
        simp [escDoc, unitLong, escape, simpleEsc]
      rw [scanLong_step h3 hu, ih 0 (by omega), hN]
      simp [Option.map_map, Function.comp_def]
    · by_cases h0 : c = Char.ofNat 0
      · subst h0
        have hx : escHex 2 ('0' :: '0' :: (escDoc 0 r ++ '\n' :: tail)) =
            some ([Char.ofNat 0], escDoc 0 r ++ '\n' :: tail) := by
          simp [escHex, hexN, hexVal, mkChar, Nat.isValidChar]
        have hu : unitLong (escDoc run (Char.ofNat 0 :: r) ++ '\n' :: tail) =
            some ([Char.ofNat 0], escDoc 0 r ++ '\n' :: tail) := by
          simp only [escDoc]
          simp only [show (Char.ofNat 0 : Char) ≠ '\\' by decide, if_false, if_true, List.cons_append,
            unitLong, show ('\\' : Char) ≠ Char.ofNat 0 by decide, show ('\\' : Char) ≠ '\r' by decide]
          simp only [escape, show simpleEsc.lookup 'x' = none by decide,
            show ('x' : Char) ≠ Char.ofNat 0 by decide, show ('x' : Char) ≠ '\n' by decide,
            show ('x' : Char) ≠ '\r' by decide, show isOct 'x' = false by decide, if_false, if_true,
            Bool.false_eq_true]
          exact hx
        rw [scanLong_step h3 hu, ih 0 (by omega), hN]
        simp [Option.map_map, Function.comp_def]
      · by_cases hq : c = '"'
        · subst hq
          by_cases h2 : run = 2
          · have hu : unitLong (escDoc run ('"' :: r) ++ '\n' :: tail) = some (['"'], escDoc 0 r ++ '\n' :: tail) := by
              simp [escDoc, h2, unitLong, escape, simpleEsc, List.lookup]
            rw [scanLong_step h3 hu, ih 0 (by omega), hN]
            simp [Option.map_map, Function.comp_def]
          · have hu : unitLong (escDoc run ('"' :: r) ++ '\n' :: tail) =
                some (['"'], escDoc (run + 1) r ++ '\n' :: tail) := by
              simp [escDoc, h2, unitLong]
            rw [scanLong_step h3 hu, ih (run + 1) (by omega), hN]
            simp [Option.map_map, Function.comp_def]
        · have hu : unitLong (escDoc run (c :: r) ++ '\n' :: tail) = some ([c], escDoc 0 r ++ '\n' :: tail) := by
            simp [escDoc, hb, h0, hq, unitLong, hcr]
          rw [scanLong_step h3 hu, ih 0 (by omega), hN]
          simp [Option.map_map, Function.comp_def]

/-- The complete docstring as the templates write it: `"""` `pre` TEXT newline `post` `"""`
(`pre` = newline + indentation, `post` = indentation; both written by the template).  The lexer
reads ONE triple-quoted literal whose value is that white space around exactly the
(newline-normalised) text, and resumes right behind the closing quotes the template wrote —
never earlier, whatever the text contains. -/
theorem docstring_exact (text pre post rest : List Char)
    (hpre : ∀ c ∈ pre, c = ' ' ∨ c = '\n') (hpost : ∀ c ∈ post, c = ' ') :
    scanLong '"' (pre ++ escDoc 0 text ++ '\n' :: post ++ ['"', '"', '"'] ++ rest) =
      some (pre ++ normNL (text ++ ['\n']) ++ post, rest) := by
  -- white space is copied unit by unit
  have hws : ∀ (ws : List Char), (∀ c ∈ ws, c = ' ' ∨ c = '\n') → ∀ (tl : List Char) (v : List Char × List Char),
      scanLong '"' tl = some v → scanLong '"' (ws ++ tl) = some (ws ++ v.1, v.2) := by
    intro ws
    induction ws with
    | nil => intro _ tl v h; simpa using h
    | cons w ws ih =>
      intro hw tl v h
      have hw0 := hw w (by simp)
      have h3 : ((w :: ws) ++ tl).take 3 ≠ ['"', '"', '"'] := by
        intro h3
        have : w = '"' := by
          cases hl : ws ++ tl with
          | nil => simp [hl] at h3
          | cons a t => cases t <;> simp [hl] at h3 <;> exact h3.1
        rcases hw0 with rfl | rfl <;> simp at this
      have hu : unitLong ((w :: ws) ++ tl) = some ([w], ws ++ tl) := by
        rcases hw0 with rfl | rfl <;> simp [unitLong]
      rw [scanLong_step h3 hu, ih (fun c hc => hw c (by simp [hc])) tl v h]
      simp
  have hclose : scanLong '"' (['"', '"', '"'] ++ rest) = some ([], rest) := by
    rw [scanLong]; simp
  have hpostS := hws post (fun c hc => Or.inl (hpost c hc)) _ _ hclose
  have hmid := scanLong_escDoc (post ++ (['"', '"', '"'] ++ rest)) text 0 (by omega)
  rw [hpostS] at hmid
  have := hws pre hpre _ _ hmid
  simp only [List.append_assoc, List.cons_append, Option.map_some, List.append_nil, List.nil_append] at this ⊢
  exact this

end Dcg.Proofs.Docstring
