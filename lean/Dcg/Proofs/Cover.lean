import Dcg.Model.Imports
import Dcg.Model.HintExpr
namespace Dcg.Proofs.Cover
open Dcg.Model.Types Dcg.Model.Imports Dcg.Model.HintExpr
open Dcg.Sem.Typing hiding Str sNone sComma sPipe

/-! ### induction principles for the two nested inductives -/

theorem TExpr.ind {P : TExpr → Prop} (hatom : ∀ s, P (.atom s))
    (happ : ∀ h args, (∀ a ∈ args, P a) → P (.app h args))
    (hbor : ∀ args, (∀ a ∈ args, P a) → P (.bor args)) : ∀ e, P e := by
  intro e
  induction e using TExpr.rec (motive_2 := fun l => ∀ a ∈ l, P a) with
  | atom s => exact hatom s
  | app h args ih => exact happ h args ih
  | bor args ih => exact hbor args ih
  | nil => rename_i hc; cases hc
  | cons hd tl ih1 ih2 =>
    rename_i c hc
    cases hc with
    | head => exact ih1
    | tail _ h' => exact ih2 c h'

theorem DT.ind {P : DT → Prop}
    (h : ∀ a key kids, (∀ k, key = some k → P k) → (∀ c ∈ kids, P c) → P (.mk a key kids)) : ∀ t, P t := by
  intro t
  induction t using DT.rec (motive_2 := fun o => ∀ k, o = some k → P k) (motive_3 := fun l => ∀ c ∈ l, P c) with
  | mk a key kids ihk ihl => exact h a key kids ihk ihl
  | none => rename_i hk; cases hk
  | some v ih => rename_i hk; cases hk; exact ih
  | nil => rename_i hc; cases hc
  | cons hd tl ih1 ih2 =>
    rename_i c hc
    cases hc with
    | head => exact ih1
    | tail _ h' => exact ih2 c h'

/-! ### the names an expression writes -/

mutual
def namesOf : TExpr → List Str
  | .atom s => [s]
  | .app h args => h :: namesOfL args
  | .bor args => namesOfL args
def namesOfL : List TExpr → List Str
  | [] => []
  | e :: es => namesOf e ++ namesOfL es
end

theorem mem_namesOfL {n : Str} {es : List TExpr} : n ∈ namesOfL es ↔ ∃ e ∈ es, n ∈ namesOf e := by
  induction es with
  | nil => simp [namesOfL]
  | cons e es ih => simp [namesOfL, ih]

theorem namesOfL_append (a b : List TExpr) : namesOfL (a ++ b) = namesOfL a ++ namesOfL b := by
  induction a with
  | nil => simp [namesOfL]
  | cons e es ih => simp [namesOfL, ih]

def sOptionalN : Str := ['O', 'p', 't', 'i', 'o', 'n', 'a', 'l']
/-- the names of `typing` / `collections.abc` that `type_hint` itself writes -/
def typingNames : List Str :=
  [sOptional, sUnion, sLiteral, sList, sSet, sDict, sSequence, sFrozenSet, sMapping]

/-- `A` adds no typing name to `B` -/
def Sub (A B : List Str) : Prop := ∀ n ∈ A, n ∈ typingNames → n ∈ B

theorem Sub.refl (A : List Str) : Sub A A := fun _ h _ => h
theorem Sub.trans {A B C : List Str} (h1 : Sub A B) (h2 : Sub B C) : Sub A C :=
  fun n hn ht => h2 n (h1 n hn ht) ht
theorem Sub.of_subset {A B : List Str} (h : ∀ n ∈ A, n ∈ B) : Sub A B := fun n hn _ => h n hn

theorem none_not_typing : sNone ∉ typingNames := by decide
theorem empty_not_typing : ([] : Str) ∉ typingNames := by decide

theorem names_mkUnionE (ps : List TExpr) : Sub (namesOf (mkUnionE ps)) (sUnion :: namesOfL ps) := by
  intro n hn ht
  match ps, hn with
  | [], hn =>
    simp only [mkUnionE, eNone, namesOf, List.mem_singleton] at hn
    subst hn; exact absurd ht (by decide)
  | [p], hn => simp only [mkUnionE] at hn; simp [namesOfL, hn]
  | p :: q :: r, hn => simpa [mkUnionE, namesOf] using hn

theorem names_rmU : ∀ e, Sub (namesOf (rmU e)) (namesOf e) := by
  apply TExpr.ind
  · intro s; simp only [rmU]; exact Sub.refl _
  · intro h args ih
    simp only [rmU]
    split
    · rename_i hu; subst hu
      refine Sub.trans (names_mkUnionE _) ?_
      intro n hn ht
      simp only [List.mem_cons] at hn
      rcases hn with rfl | hn
      · simp [namesOf]
      · simp only [namesOf, List.mem_cons]; right
        -- names of rmUL args ⊆ names of args
        have key : ∀ (l : List TExpr), (∀ a ∈ l, Sub (namesOf (rmU a)) (namesOf a)) → Sub (namesOfL (rmUL l)) (namesOfL l) := by
          intro l
          induction l with
          | nil => intro _; simp only [rmUL]; exact Sub.refl _
          | cons a l ihl =>
            intro hl
            simp only [rmUL]
            split
            · intro n hn ht
              simp only [namesOfL, List.mem_append]; right
              exact ihl (fun b hb => hl b (List.mem_cons_of_mem _ hb)) n hn ht
            · intro n hn ht
              simp only [namesOfL, List.mem_append] at hn ⊢
              rcases hn with hn | hn
              · left; exact hl a (List.mem_cons_self ..) n hn ht
              · right; exact ihl (fun b hb => hl b (List.mem_cons_of_mem _ hb)) n hn ht
        exact key args ih n hn ht
    · exact Sub.refl _
  · intro args _; simp only [rmU]; exact Sub.refl _


theorem names_mkBorE (ps : List TExpr) : Sub (namesOf (mkBorE ps)) (namesOfL ps) := by
  intro n hn ht
  match ps, hn with
  | [], hn =>
    simp only [mkBorE, eNone, namesOf, List.mem_singleton] at hn
    subst hn; exact absurd ht (by decide)
  | [p], hn => simp only [mkBorE] at hn; simp [namesOfL, hn]
  | p :: q :: r, hn => simpa [mkBorE, namesOf] using hn

theorem namesOfL_filter (p : TExpr → Bool) (l : List TExpr) : ∀ n ∈ namesOfL (l.filter p), n ∈ namesOfL l := by
  intro n hn
  rw [mem_namesOfL] at hn ⊢
  obtain ⟨e, he, hne⟩ := hn
  exact ⟨e, (List.mem_filter.mp he).1, hne⟩

theorem names_rmB (e : TExpr) : Sub (namesOf (rmB e)) (namesOf e) := by
  cases e with
  | atom s => exact Sub.refl _
  | app h args => exact Sub.refl _
  | bor args =>
    simp only [rmB]
    refine Sub.trans (names_mkBorE _) ?_
    simp only [namesOf]
    exact Sub.of_subset (namesOfL_filter _ _)

theorem names_rmE (u : Bool) (e : TExpr) : Sub (namesOf (rmE u e)) (namesOf e) := by
  unfold rmE; split
  · exact names_rmB e
  · exact names_rmU e

theorem names_borArgs (e : TExpr) : namesOfL (borArgs e) = namesOf e ∨ (∀ n ∈ namesOfL (borArgs e), n ∈ namesOf e) := by
  cases e with
  | atom s => right; intro n hn; simpa [borArgs, namesOfL, namesOf] using hn
  | app h args => right; intro n hn; simpa [borArgs, namesOfL, namesOf] using hn
  | bor args => left; simp [borArgs, namesOf]

theorem names_flatMap_borArgs (es : List TExpr) : ∀ n ∈ namesOfL (es.flatMap borArgs), n ∈ namesOfL es := by
  induction es with
  | nil => intro n hn; simpa using hn
  | cons e es ih =>
    intro n hn
    simp only [List.flatMap_cons, namesOfL_append, List.mem_append] at hn
    simp only [namesOfL, List.mem_append]
    rcases hn with hn | hn
    · left
      rcases names_borArgs e with h | h
      · rw [h] at hn; exact hn
      · exact h n hn
    · right; exact ih n hn

theorem names_borFlat (es : List TExpr) : Sub (namesOf (borFlat es)) (namesOfL es) := by
  intro n hn ht
  unfold borFlat at hn
  apply names_flatMap_borArgs
  generalize es.flatMap borArgs = l at hn
  match l, hn with
  | [], hn =>
    simp only [borFlat.mkBorE', namesOf, List.mem_singleton] at hn
    subst hn; exact absurd ht (by decide)
  | [p], hn => simp only [borFlat.mkBorE'] at hn; simp [namesOfL, hn]
  | p :: q :: r, hn => simpa [borFlat.mkBorE', namesOf] using hn

theorem names_getOptionalE (u : Bool) (e : TExpr) :
    Sub (namesOf (getOptionalE u e)) ((if u then [] else [sOptional]) ++ namesOf e) := by
  intro n hn ht
  unfold getOptionalE at hn
  simp only [] at hn
  split at hn
  · simp only [eNone, namesOf, List.mem_singleton] at hn
    subst hn; exact absurd ht (by decide)
  · split at hn
    · rename_i hu
      have := names_borFlat _ n hn ht
      simp only [namesOfL, List.append_nil, List.mem_append, eNone, namesOf, List.mem_singleton] at this
      rcases this with h | h
      · simp only [hu, if_true, List.nil_append]; exact names_rmE u e n h ht
      · subst h; exact absurd ht (by decide)
    · rename_i hu
      simp only [namesOf, namesOfL, List.append_nil, List.mem_cons] at hn
      simp only [hu, List.mem_append, List.mem_singleton]
      rcases hn with h | h
      · left; simp [h]
      · right; exact names_rmE u e n h ht

theorem names_unionLoopE (u : Bool) : ∀ (hs acc : List TExpr) (opt : Bool),
    Sub (namesOfL (unionLoopE u hs acc opt).1) (namesOfL acc ++ namesOfL hs) := by
  intro hs
  induction hs with
  | nil => intro acc opt; simp only [unionLoopE, namesOfL, List.append_nil]; exact Sub.refl _
  | cons h hs ih =>
    intro acc opt
    simp only [unionLoopE]
    split
    · refine Sub.trans (ih acc opt) (Sub.of_subset ?_)
      intro n hn; simp only [namesOfL, List.mem_append] at hn ⊢; rcases hn with h | h
      · left; exact h
      · right; right; exact h
    · split
      · refine Sub.trans (ih acc true) (Sub.of_subset ?_)
        intro n hn; simp only [namesOfL, List.mem_append] at hn ⊢; rcases hn with h | h
        · left; exact h
        · right; right; exact h
      · refine Sub.trans (ih _ _) ?_
        intro n hn ht
        simp only [namesOfL_append, namesOfL, List.append_nil, List.mem_append] at hn ⊢
        rcases hn with (h' | h') | h'
        · left; exact h'
        · right; left; exact names_rmE u h n h' ht
        · right; right; exact h'

theorem names_wrap1E (name : Str) (inner : TExpr) : ∀ n ∈ namesOf (wrap1E name inner), n = name ∨ n ∈ namesOf inner := by
  intro n hn
  unfold wrap1E at hn
  split at hn
  · simp only [namesOf, List.mem_singleton] at hn; exact Or.inl hn
  · simpa [namesOf, namesOfL] using hn


/-! ### the side condition, and guard matching at one node -/

def notTyping (s : Str) : Bool := !typingNames.contains s

/-- the names the node takes from the input are not typing names (nothing about the options: since
the repair of C02-F2 the set clause of `DataType.imports` names what `type_hint` writes under every
option vector, `cover_set`) -/
def coverAttrs (_o : Opts) (a : Attrs) : Bool :=
  notTyping a.ty && (match a.ref with | some r => notTyping r.shortName | none => true) &&
  a.literals.all notTyping

def flatKey (t : DT) : Bool := t.key.isNone && t.kids.isEmpty

mutual
def coverOK (o : Opts) : DT → Bool
  | .mk a key kids => coverAttrs o a && coverOKO o key && coverOKL o kids
def coverOKO (o : Opts) : Option DT → Bool
  | none => true
  | some k => coverOK o k && flatKey k
def coverOKL (o : Opts) : List DT → Bool
  | [] => true
  | t :: ts => coverOK o t && coverOKL o ts
end

def impNames (l : List Imp) : List Str := l.map (·.name)

theorem mem_impNames_nodeImports_of_cond (o : Opts) (a : Attrs) (opt : Bool) (n : Nat) (ks : List Imp)
    (I : Imp) (hI : (true, I) ∈ condTable o a opt n) : I.name ∈ impNames (nodeImports o a opt n ks) := by
  unfold impNames nodeImports
  simp only [List.map_append, List.mem_append, List.mem_map]
  by_cases h : some I = a.imp
  · left; left; exact ⟨I, by rw [← h]; simp, rfl⟩
  · left; right
    refine ⟨I, ?_, rfl⟩
    simp only [List.mem_map, List.mem_filter]
    exact ⟨(true, I), ⟨hI, by simpa using h⟩, rfl⟩

theorem mem_impNames_nodeImports_of_key (o : Opts) (a : Attrs) (opt : Bool) (n : Nat) (ks : List Imp)
    (x : Str) (hx : x ∈ impNames ks) : x ∈ impNames (nodeImports o a opt n ks) := by
  unfold impNames nodeImports at *
  simp only [List.map_append, List.mem_append]
  right; exact hx

theorem notTyping_iff (s : Str) : notTyping s = true ↔ s ∉ typingNames := by
  simp [notTyping]

theorem names_baseE (o : Opts) (a : Attrs) (kidEs : List TExpr) (hc : coverAttrs o a = true) :
    Sub (namesOf (baseE o a kidEs).1)
      ((if kidEs.length > 1 ∧ o.unionOp = false then [sUnion] else []) ++
       (if a.literals ≠ [] then [sLiteral] else []) ++ (if a.ty = [] then namesOfL kidEs else [])) := by
  unfold coverAttrs at hc
  simp only [Bool.and_eq_true, notTyping_iff, List.all_eq_true] at hc
  obtain ⟨⟨hty, href⟩, hlit⟩ := hc
  intro n hn ht
  unfold baseE at hn
  split at hn
  · simp only [namesOf, List.mem_singleton] at hn; subst hn; exact absurd ht hty
  · rename_i hte
    have hte' : a.ty = [] := by simpa using hte
    simp only [hte', if_true]
    match kidEs, hn with
    | k1 :: k2 :: ks, hn =>
      simp only [] at hn
      have hl := names_unionLoopE o.unionOp (k1 :: k2 :: ks) [] a.isOptional
      simp only [namesOfL, List.nil_append] at hl
      split at hn
      · rename_i d hd
        have : n ∈ namesOfL (unionLoopE o.unionOp (k1 :: k2 :: ks) [] a.isOptional).1 := by
          rw [hd]; simpa [namesOfL] using hn
        simp only [List.mem_append]; right
        exact hl n this ht
      · split at hn
        · have := names_borFlat _ n hn ht
          simp only [List.mem_append]; right
          exact hl n this ht
        · rename_i hu
          simp only [namesOf, List.mem_cons] at hn
          rcases hn with h | h
          · simp only [List.mem_append]; left; left
            have : (k1 :: k2 :: ks).length > 1 := by simp
            simp [this, hu, h]
          · simp only [List.mem_append]; right
            exact hl n h ht
    | [k], hn => simp only [] at hn; simp only [List.mem_append]; right; simpa [namesOfL] using hn
    | [], hn =>
      simp only [] at hn
      split at hn
      · rename_i hlne
        simp only [namesOf, List.mem_cons] at hn
        rcases hn with h | h
        · simp [hlne, h]
        · exfalso
          rw [mem_namesOfL] at h
          obtain ⟨e, he, hne⟩ := h
          simp only [List.mem_map] at he
          obtain ⟨tok, htok, rfl⟩ := he
          simp only [namesOf, List.mem_singleton] at hne
          subst hne
          exact hlit _ htok ht
      · split at hn
        · rename_i r hr
          simp only [namesOf, List.mem_singleton] at hn; subst hn
          rw [hr] at href; exact absurd ht ((notTyping_iff _).mp href)
        · simp only [namesOf, List.mem_singleton] at hn; subst hn; exact absurd ht (by decide)


theorem cover_list (o : Opts) (a : Attrs) (opt : Bool) (n : Nat) (ks : List Imp) (h : a.isList = true)
    (ht : listName o ∈ typingNames) : listName o ∈ impNames (nodeImports o a opt n ks) := by
  obtain ⟨u, s, g⟩ := o
  cases g <;> cases s
  · exact mem_impNames_nodeImports_of_cond _ a opt n ks IMPORT_LIST (by simp [condTable, h])
  · exact absurd ht (by cases u <;> decide)
  · exact mem_impNames_nodeImports_of_cond _ a opt n ks IMPORT_SEQUENCE (by simp [condTable, h])
  · exact mem_impNames_nodeImports_of_cond _ a opt n ks IMPORT_ABC_SEQUENCE (by simp [condTable, h])

theorem cover_set (o : Opts) (a : Attrs) (opt : Bool) (n : Nat) (ks : List Imp) (h : a.isSet = true)
    (ht : setName o ∈ typingNames) : setName o ∈ impNames (nodeImports o a opt n ks) := by
  obtain ⟨u, s, g⟩ := o
  cases g <;> cases s
  · exact mem_impNames_nodeImports_of_cond _ a opt n ks IMPORT_SET (by simp [condTable, h])
  · exact absurd ht (by cases u <;> decide)
  · exact mem_impNames_nodeImports_of_cond _ a opt n ks IMPORT_FROZEN_SET (by simp [condTable, h])
  · exact mem_impNames_nodeImports_of_cond _ a opt n ks IMPORT_FROZEN_SET (by simp [condTable, h])

theorem cover_dict (o : Opts) (a : Attrs) (opt : Bool) (n : Nat) (ks : List Imp) (h : a.isDict = true)
    (ht : dictName o ∈ typingNames) : dictName o ∈ impNames (nodeImports o a opt n ks) := by
  obtain ⟨u, s, g⟩ := o
  cases g <;> cases s
  · exact mem_impNames_nodeImports_of_cond _ a opt n ks IMPORT_DICT (by simp [condTable, h])
  · exact absurd ht (by cases u <;> decide)
  · exact mem_impNames_nodeImports_of_cond _ a opt n ks IMPORT_MAPPING (by simp [condTable, h])
  · exact mem_impNames_nodeImports_of_cond _ a opt n ks IMPORT_ABC_MAPPING (by simp [condTable, h])

theorem names_containerE (o : Opts) (a : Attrs) (keyE : Option TExpr) (b : TExpr) (n : Str)
    (hn : n ∈ namesOf (containerE o a keyE b)) (ht : n ∈ typingNames) :
    n ∈ namesOf b ∨ (a.isList = true ∧ n = listName o) ∨ (a.isList = false ∧ a.isSet = true ∧ n = setName o) ∨
    (keyReached a = true ∧ (n = dictName o ∨ ∃ k, keyE = some k ∧ n ∈ namesOf k)) := by
  unfold containerE at hn
  split at hn
  · rename_i hl
    rcases names_wrap1E _ _ n hn with h | h
    · right; left; exact ⟨hl, h⟩
    · left; exact h
  · rename_i hl
    have hl' : a.isList = false := by simpa using hl
    split at hn
    · rename_i hs
      rcases names_wrap1E _ _ n hn with h | h
      · right; right; left; exact ⟨hl', hs, h⟩
      · left; exact h
    · rename_i hs
      have hs' : a.isSet = false := by simpa using hs
      split at hn
      · rename_i hd
        have hkr : keyReached a = true := by simp [keyReached, hl', hs', hd]
        split at hn
        · simp only [namesOf, namesOfL, List.append_nil, List.mem_cons, List.mem_append] at hn
          rcases hn with h | h | h
          · right; right; right; exact ⟨hkr, Or.inl h⟩
          · cases hk : keyE with
            | none =>
              rw [hk] at h; simp only [Option.getD_none, namesOf, List.mem_singleton] at h
              subst h; exact absurd ht (by decide)
            | some k =>
              rw [hk] at h; simp only [Option.getD_some] at h
              right; right; right; exact ⟨hkr, Or.inr ⟨k, rfl, h⟩⟩
          · split at h
            · simp only [namesOf, List.mem_singleton] at h; subst h; exact absurd ht (by decide)
            · left; exact h
        · simp only [namesOf, List.mem_singleton] at hn
          right; right; right; exact ⟨hkr, Or.inl hn⟩
      · left; exact hn

/-- guard matching at one node: every typing name the node writes is imported by the clause of
`DataType.imports` with the same guard -/
theorem node_cover (o : Opts) (a : Attrs) (keyE : Option TExpr) (kidEs : List TExpr) (ks : List Imp)
    (CI : List Str) (hc : coverAttrs o a = true)
    (hK : keyReached a = true → ∀ k, keyE = some k → Sub (namesOf k) (impNames ks))
    (hC : a.ty = [] → Sub (namesOfL kidEs) CI) :
    Sub (namesOf (hintNodeE o a keyE kidEs).1)
      (CI ++ impNames (nodeImports o a (hintNodeE o a keyE kidEs).2 kidEs.length ks)) := by
  intro n hn ht
  have hflag : (hintNodeE o a keyE kidEs).2 = ((baseE o a kidEs).2 || refNullable a) := by
    unfold hintNodeE finishE; simp only []; split <;> rfl
  rw [hflag]
  generalize hopt : ((baseE o a kidEs).2 || refNullable a) = opt
  -- names of the container expression
  have hcont : ∀ m ∈ namesOf (containerE o a keyE (baseE o a kidEs).1), m ∈ typingNames →
      m ∈ CI ++ impNames (nodeImports o a opt kidEs.length ks) := by
    intro m hm hmt
    simp only [List.mem_append]
    rcases names_containerE o a keyE _ m hm hmt with h | ⟨hl, rfl⟩ | ⟨hl, hs, rfl⟩ | ⟨hkr, h⟩
    · have := names_baseE o a kidEs hc m h hmt
      simp only [List.mem_append] at this
      rcases this with (h1 | h1) | h1
      · split at h1
        · rename_i hu
          simp only [List.mem_singleton] at h1; subst h1
          right
          exact mem_impNames_nodeImports_of_cond o a opt _ ks IMPORT_UNION (by simp [condTable, hu.1, hu.2])
        · cases h1
      · split at h1
        · rename_i hlne
          simp only [List.mem_singleton] at h1; subst h1
          right
          exact mem_impNames_nodeImports_of_cond o a opt _ ks IMPORT_LITERAL (by
            have : a.literals.isEmpty = false := by cases hq : a.literals with
              | nil => exact absurd hq hlne
              | cons _ _ => rfl
            simp [condTable, this])
        · cases h1
      · split at h1
        · rename_i hty; left; exact hC hty m h1 hmt
        · cases h1
    · right; exact cover_list o a opt _ ks hl hmt
    · right; exact cover_set o a opt _ ks hs hmt
    · right
      rcases h with rfl | ⟨k, hk, hmk⟩
      · have hd : a.isDict = true := by
          simp only [keyReached, Bool.and_eq_true] at hkr; exact hkr.2
        exact cover_dict o a opt _ ks hd hmt
      · exact mem_impNames_nodeImports_of_key o a opt _ ks m (hK hkr k hk m hmk hmt)
  unfold hintNodeE finishE at hn
  simp only [hopt] at hn
  split at hn
  · rename_i hfin
    have := names_getOptionalE o.unionOp _ n hn ht
    simp only [List.mem_append] at this
    rcases this with h | h
    · split at h
      · cases h
      · rename_i hu
        simp only [List.mem_singleton] at h; subst h
        simp only [List.mem_append]; right
        exact mem_impNames_nodeImports_of_cond o a opt _ ks IMPORT_OPTIONAL (by
          have hu' : o.unionOp = false := by simpa using hu
          simp [condTable, hfin.1, hu'])
    · exact hcont n h ht
  · exact hcont n hn ht


/-! ### the whole tree -/

/-- `is_optional` as the structural rendering leaves it (equal to the code's flag on `wfTree`s:
`typeHint_eq_print`) -/
def flagE (o : Opts) (t : DT) : Bool := (hintE o t).2

theorem hintEL_length (o : Opts) (kids : List DT) : (hintEL o kids).length = kids.length := by
  induction kids with
  | nil => rfl
  | cons t ts ih => simp [hintEL, ih]

theorem impNames_append (a b : List Imp) : impNames (a ++ b) = impNames a ++ impNames b := by
  simp [impNames]

theorem cover_kids (o : Opts) (kids : List DT)
    (ih : ∀ c ∈ kids, coverOK o c = true →
      Sub (namesOf (hintE o c).1) (impNames (allImportsWith (flagE o) o true c)))
    (hk : coverOKL o kids = true) :
    Sub (namesOfL (hintEL o kids)) (impNames (allImportsWithL (flagE o) o true kids)) := by
  induction kids with
  | nil => simp only [hintEL, namesOfL]; exact Sub.refl _
  | cons t ts iht =>
    simp only [coverOKL, Bool.and_eq_true] at hk
    intro n hn ht
    simp only [hintEL, namesOfL, List.mem_append] at hn
    simp only [allImportsWithL, impNames_append, List.mem_append]
    rcases hn with h | h
    · left; exact ih t (List.mem_cons_self ..) hk.1 n h ht
    · right; exact iht (fun c hc => ih c (List.mem_cons_of_mem _ hc)) hk.2 n h ht

theorem cover_flat_key (o : Opts) (kk : DT) (h1 : coverOK o kk = true) (hflat : flatKey kk = true) :
    Sub (namesOf (hintE o kk).1) (impNames (ownImportsWith (flagE o) o true kk)) := by
  cases kk with
  | mk ka kkey kkids =>
    simp only [flatKey, DT.key, DT.kids, Bool.and_eq_true, Option.isNone_iff_eq_none, List.isEmpty_iff] at hflat
    obtain ⟨rfl, rfl⟩ := hflat
    simp only [coverOK, coverOKO, coverOKL, Bool.and_true] at h1
    have := node_cover o ka none [] [] [] h1 (by intro _ k hk; cases hk) (by intro _; exact Sub.refl _)
    simpa [hintE, hintEO, hintEL, ownImportsWith, ownImportsWithO, flagE] using this

/-- `imports_cover_hint` on the structural rendering, by induction on the tree -/
theorem cover_tree (o : Opts) : ∀ t, coverOK o t = true →
    Sub (namesOf (hintE o t).1) (impNames (allImportsWith (flagE o) o true t)) := by
  apply DT.ind
  intro a key kids _ ihl hc
  simp only [coverOK, Bool.and_eq_true] at hc
  obtain ⟨⟨hca, hck⟩, hckids⟩ := hc
  have hnode := node_cover o a (hintEO o key) (hintEL o kids)
    (ownImportsWithO (flagE o) o (true && keyReached a) key)
    (impNames (allImportsWithL (flagE o) o (true && a.ty.isEmpty) kids)) hca ?_ ?_
  · intro n hn ht
    have := hnode n (by simpa [hintE] using hn) ht
    rw [hintEL_length] at this
    simpa [allImportsWith, ownImportsWith, impNames_append, flagE, hintE] using this
  · -- the dict key: a flat node, covered by its own imports
    intro hkr k hk
    cases key with
    | none => simp [hintEO] at hk
    | some kk =>
      simp only [hintEO, Option.some.injEq] at hk; subst hk
      simp only [coverOKO, Bool.and_eq_true] at hck
      simp only [hkr, Bool.and_self, ownImportsWithO]
      exact cover_flat_key o kk hck.1 hck.2
  · intro hty
    have : a.ty.isEmpty = true := by simp [hty]
    simp only [this, Bool.and_self]
    exact cover_kids o kids (fun c hc => ihl c hc) hckids


/-! ### from the structural flag to the flag `type_hint` leaves -/

mutual
/-- at every node of the tree the structural rendering and the code's rendering leave the same
`is_optional` (true on `wfTree`s: `typeHint_eq_print`, C13) -/
def flagsAgree (o : Opts) : DT → Bool
  | .mk a key kids =>
    (flagE o (.mk a key kids) == flagAfter o (.mk a key kids)) && flagsAgreeO o key && flagsAgreeL o kids
def flagsAgreeO (o : Opts) : Option DT → Bool
  | none => true
  | some k => flagsAgree o k
def flagsAgreeL (o : Opts) : List DT → Bool
  | [] => true
  | t :: ts => flagsAgree o t && flagsAgreeL o ts
end

theorem imports_congr (o : Opts) : ∀ t, flagsAgree o t = true → ∀ r,
    ownImportsWith (flagE o) o r t = ownImportsWith (flagAfter o) o r t ∧
    allImportsWith (flagE o) o r t = allImportsWith (flagAfter o) o r t := by
  apply DT.ind
  intro a key kids ihk ihl h r
  simp only [flagsAgree, Bool.and_eq_true, beq_iff_eq] at h
  obtain ⟨⟨hf, hk⟩, hl⟩ := h
  have hown : ownImportsWith (flagE o) o r (.mk a key kids) = ownImportsWith (flagAfter o) o r (.mk a key kids) := by
    simp only [ownImportsWith, hf]
    congr 1
    cases key with
    | none => rfl
    | some k =>
      simp only [ownImportsWithO]
      exact (ihk k rfl (by simpa [flagsAgreeO] using hk) _).1
  refine ⟨hown, ?_⟩
  simp only [allImportsWith, hown]
  congr 1
  have : ∀ (l : List DT), (∀ c ∈ l, flagsAgree o c = true → ∀ r,
      ownImportsWith (flagE o) o r c = ownImportsWith (flagAfter o) o r c ∧
      allImportsWith (flagE o) o r c = allImportsWith (flagAfter o) o r c) → flagsAgreeL o l = true → ∀ r,
      allImportsWithL (flagE o) o r l = allImportsWithL (flagAfter o) o r l := by
    intro l
    induction l with
    | nil => intro _ _ _; rfl
    | cons c cs ihc =>
      intro hcs hag r
      simp only [flagsAgreeL, Bool.and_eq_true] at hag
      simp only [allImportsWithL]
      rw [(hcs c (List.mem_cons_self ..) hag.1 r).2, ihc (fun d hd => hcs d (List.mem_cons_of_mem _ hd)) hag.2 r]
  exact this kids ihl hl _

end Dcg.Proofs.Cover
