import Dcg.Model.Infer
/-! Helper lemmas for C16: `covers` is an invariant of `add`, and it implies validity. Core Lean only. -/
set_option linter.unusedSimpArgs false
namespace Dcg.Proofs.Infer
open Dcg.Sem.JsonLite Dcg.Model.Infer

/-! ### association lists -/

theorem lookup_upsert (ps : List (Key × Node)) (k k' : Key) (n : Node) :
    (upsert ps k n).lookup k' = if k' == k then some n else ps.lookup k' := by
  induction ps with
  | nil =>
    simp only [upsert, List.lookup]
    cases h : k' == k <;> simp
  | cons p r ih =>
    obtain ⟨k1, n1⟩ := p
    simp only [upsert]
    by_cases hk : k == k1
    · have hk' : k = k1 := by simpa using hk
      subst hk'
      simp only [hk, if_true, List.lookup]
      cases h : k' == k <;> simp
    · rw [if_neg hk]
      cases h1 : k' == k1
      · simp [List.lookup, h1, ih]
      · have e1 : k' = k1 := by simpa using h1
        have : (k' == k) = false := by
          cases h2 : k' == k
          · rfl
          · have e2 : k' = k := by simpa using h2
            exact absurd (by rw [← e2, e1]; simp) hk
        simp [List.lookup, h1, this]

/-! ### `covers` implies validity -/

mutual
theorem covers_valid : ∀ (w : Json) (n : Node), covers n w = true → validL n w = true
  | .null, n, h => by simp only [covers] at h; simp [validL, h]
  | .bool _, n, h => by simp only [covers] at h; simp [validL, h]
  | .str _, n, h => by simp only [covers] at h; simp [validL, h]
  | .int _, n, h => by simp only [covers] at h; simp [validL, h]
  | .flt _, n, h => by simp only [covers] at h; simp [validL, h]
  | .arr xs, n, h => by
    simp only [covers] at h
    simp only [validL]
    cases ha : n.arr with
    | none => simp [ha] at h
    | some items =>
      simp only [ha] at h
      simp [coversList_valid xs items h]
  | .obj kvs, n, h => by
    simp only [covers, Bool.and_eq_true] at h
    simp only [validL, Bool.or_eq_true, Bool.and_eq_true]
    exact Or.inr ⟨⟨h.1.1, coversProps_valid kvs n.props h.1.2⟩, h.2⟩
theorem coversList_valid : ∀ (xs : List Json) (n : Node), coversList n xs = true → validList n xs = true
  | [], _, _ => by simp [validList]
  | x :: xs, n, h => by
    simp only [coversList, Bool.and_eq_true] at h
    simp [validList, covers_valid x n h.1, coversList_valid xs n h.2]
theorem coversProps_valid : ∀ (kvs : List (Key × Json)) (ps : List (Key × Node)),
    coversProps ps kvs = true → validProps ps kvs = true
  | [], _, _ => by simp [validProps]
  | (k, v) :: r, ps, h => by
    simp only [coversProps, Bool.and_eq_true] at h
    simp only [validProps, Bool.and_eq_true]
    refine ⟨?_, coversProps_valid r ps h.2⟩
    cases hl : ps.lookup k with
    | none => simp
    | some pn =>
      have h1 := h.1
      simp only [hl] at h1
      simpa using covers_valid v pn h1
end

/-! ### transport of `covers` along a pointwise improvement -/

theorem coversList_of_forall {n n' : Node} (hf : ∀ w, covers n w = true → covers n' w = true) :
    ∀ ys, coversList n ys = true → coversList n' ys = true
  | [], _ => by simp [coversList]
  | y :: ys, h => by
    simp only [coversList, Bool.and_eq_true] at h ⊢
    exact ⟨hf y h.1, coversList_of_forall hf ys h.2⟩

theorem coversProps_of {ps ps' : List (Key × Node)}
    (hf : ∀ k x pn, ps.lookup k = some pn → covers pn x = true →
      ∃ pn', ps'.lookup k = some pn' ∧ covers pn' x = true) :
    ∀ kvs, coversProps ps kvs = true → coversProps ps' kvs = true
  | [], _ => by simp [coversProps]
  | (k, v) :: r, h => by
    simp only [coversProps, Bool.and_eq_true] at h ⊢
    refine ⟨?_, coversProps_of hf r h.2⟩
    cases hl : ps.lookup k with
    | none => simp [hl] at h
    | some pn =>
      have h1 := h.1
      simp only [hl] at h1
      obtain ⟨pn', hl', hc'⟩ := hf k v pn hl h1
      simp [hl', hc']

/-! ### `add` never loses a value it covered -/

mutual
theorem add_mono : ∀ (v : Json) (n : Node) (w : Json), covers n w = true → covers (add n v) w = true
  | .null, .mk nu bo st nm ar ho ps rq, w, h => by
    cases w <;> simp_all [add, covers, Node.null, Node.bool, Node.str, Node.num, Node.arr, Node.hasObj, Node.props, Node.req]
  | .bool _, .mk nu bo st nm ar ho ps rq, w, h => by
    cases w <;> simp_all [add, covers, Node.null, Node.bool, Node.str, Node.num, Node.arr, Node.hasObj, Node.props, Node.req]
  | .str _, .mk nu bo st nm ar ho ps rq, w, h => by
    cases w <;> simp_all [add, covers, Node.null, Node.bool, Node.str, Node.num, Node.arr, Node.hasObj, Node.props, Node.req]
  | .int _, .mk nu bo st nm ar ho ps rq, w, h => by
    cases w <;> simp_all [add, covers, Node.null, Node.bool, Node.str, Node.num, Node.arr, Node.hasObj, Node.props, Node.req]
  | .flt _, .mk nu bo st nm ar ho ps rq, w, h => by
    cases w <;> simp_all [add, covers, Node.null, Node.bool, Node.str, Node.num, Node.arr, Node.hasObj, Node.props, Node.req]
  | .arr zs, .mk nu bo st nm ar ho ps rq, w, h => by
    cases w with
    | arr ys =>
      simp only [covers, Node.arr] at h
      simp only [add, covers, Node.arr]
      cases ar with
      | none => simp at h
      | some items0 =>
        simp only [Option.getD_some] at h ⊢
        exact coversList_of_forall (fun w' h' => addList_mono zs items0 w' h') ys h
    | _ => simp_all [add, covers, Node.null, Node.bool, Node.str, Node.num, Node.arr, Node.hasObj, Node.props, Node.req]
  | .obj kvs, .mk nu bo st nm ar ho ps rq, w, h => by
    cases w with
    | obj wkvs =>
      simp only [covers, Node.hasObj, Node.props, Node.req, Bool.and_eq_true] at h
      obtain ⟨⟨hho, hcp⟩, hrq⟩ := h
      subst hho
      simp only [add, covers, Node.hasObj, Node.props, Node.req, Bool.and_eq_true, if_true]
      refine ⟨⟨trivial, ?_⟩, ?_⟩
      · exact coversProps_of (fun k x pn hl hc => addProps_mono kvs ps k x pn hl hc) wkvs hcp
      · rw [List.all_eq_true] at hrq ⊢
        intro r hr
        exact hrq r (List.mem_filter.mp hr).1
    | _ => simp_all [add, covers, Node.null, Node.bool, Node.str, Node.num, Node.arr, Node.hasObj, Node.props, Node.req]
theorem addList_mono : ∀ (zs : List Json) (n : Node) (w : Json),
    covers n w = true → covers (addList n zs) w = true
  | [], _, _, h => by simpa [addList] using h
  | z :: zs, n, w, h => by
    simp only [addList]
    exact addList_mono zs (add n z) w (add_mono z n w h)
theorem addProps_mono : ∀ (kvs : List (Key × Json)) (ps : List (Key × Node)) (k : Key) (x : Json)
    (pn : Node), ps.lookup k = some pn → covers pn x = true →
    ∃ pn', (addProps ps kvs).lookup k = some pn' ∧ covers pn' x = true
  | [], ps, k, x, pn, hl, hc => ⟨pn, by simpa [addProps] using hl, hc⟩
  | (k1, v1) :: r, ps, k, x, pn, hl, hc => by
    simp only [addProps]
    by_cases hk : (k == k1) = true
    · have e : k = k1 := by simpa using hk
      subst e
      refine addProps_mono r _ k x (add pn v1) ?_ (add_mono v1 pn x hc)
      rw [lookup_upsert]
      simp [hl]
    · refine addProps_mono r _ k x pn ?_ hc
      rw [lookup_upsert]
      simp [hk, hl]
end

/-! ### `add` covers what it has just absorbed -/

theorem dedup_mem (ks : List Key) : ∀ k, k ∈ dedup ks ↔ k ∈ ks := by
  induction ks with
  | nil => intro k; simp [dedup]
  | cons a r ih =>
    intro k
    simp only [dedup]
    by_cases h : r.contains a = true
    · simp only [h, if_true, ih, List.mem_cons]
      constructor
      · exact Or.inr
      · rintro (e | e)
        · subst e; simpa using h
        · exact e
    · rw [if_neg h, List.mem_cons, List.mem_cons, ih]

mutual
theorem add_self : ∀ (v : Json) (n : Node), covers (add n v) v = true
  | .null, .mk .. => by simp [add, covers, Node.null]
  | .bool _, .mk .. => by simp [add, covers, Node.bool]
  | .str _, .mk .. => by simp [add, covers, Node.str]
  | .int _, .mk .. => by simp [add, covers, Node.num]
  | .flt _, .mk .. => by simp [add, covers, Node.num]
  | .arr zs, .mk nu bo st nm ar ho ps rq => by
    simp only [add, covers, Node.arr]
    exact addList_self zs _
  | .obj kvs, .mk nu bo st nm ar ho ps rq => by
    simp only [add, covers, Node.hasObj, Node.props, Node.req, Bool.and_eq_true]
    refine ⟨⟨trivial, addProps_self kvs ps⟩, ?_⟩
    rw [List.all_eq_true]
    intro r hr
    cases ho with
    | true =>
      simp only [if_true] at hr
      exact (List.mem_filter.mp hr).2
    | false =>
      simp only [Bool.false_eq_true, if_false] at hr
      have := (dedup_mem (keys kvs) r).mp hr
      simpa using this
theorem addList_self : ∀ (zs : List Json) (n : Node), coversList (addList n zs) zs = true
  | [], _ => by simp [coversList]
  | z :: zs, n => by
    simp only [addList, coversList, Bool.and_eq_true]
    exact ⟨addList_mono zs (add n z) z (add_self z n), addList_self zs (add n z)⟩
theorem addProps_self : ∀ (kvs : List (Key × Json)) (ps : List (Key × Node)),
    coversProps (addProps ps kvs) kvs = true
  | [], _ => by simp [coversProps]
  | (k, v) :: r, ps => by
    simp only [addProps, coversProps, Bool.and_eq_true]
    refine ⟨?_, addProps_self r _⟩
    have hl : (upsert ps k (add ((ps.lookup k).getD .empty) v)).lookup k
        = some (add ((ps.lookup k).getD .empty) v) := by
      rw [lookup_upsert]; simp
    obtain ⟨pn', hl', hc'⟩ := addProps_mono r _ k v _ hl (add_self v _)
    simp [hl', hc']
end

/-! ### property names -/

theorem addProps_lookup_isSome : ∀ (kvs : List (Key × Json)) (ps : List (Key × Node)) (k : Key),
    ((addProps ps kvs).lookup k).isSome = ((ps.lookup k).isSome || (keys kvs).contains k)
  | [], ps, k => by simp [addProps, keys]
  | (k1, v1) :: r, ps, k => by
    simp only [addProps]
    rw [addProps_lookup_isSome r _ k, lookup_upsert]
    by_cases hk : (k == k1) = true
    · simp [hk, keys]
    · have hk' : (k == k1) = false := by simpa using hk
      simp only [hk', Bool.false_eq_true, if_false, keys, List.map_cons, List.contains_cons, Bool.false_or]

/-! ### flat objects of strings (CSV header/row pairs): validity does not look at what the strings are -/

theorem validProps_flat_str (ps : List (Key × Node)) (hs : List Key) (f g : Key → List Char) :
    validProps ps (hs.map (fun h => (h, Json.str (f h)))) = validProps ps (hs.map (fun h => (h, Json.str (g h)))) := by
  induction hs with
  | nil => rfl
  | cons h hs ih =>
    simp only [List.map_cons, validProps, ih]
    cases ps.lookup h <;> simp [validL]

theorem keys_flat_str (hs : List Key) (f : Key → List Char) : keys (hs.map (fun h => (h, Json.str (f h)))) = hs := by
  induction hs with
  | nil => rfl
  | cons h hs ih => simp only [keys, List.map_cons] at ih ⊢; rw [ih]

theorem valid_flat_str (n : Node) (hs : List Key) (f g : Key → List Char) :
    validL n (.obj (hs.map (fun h => (h, Json.str (f h))))) = validL n (.obj (hs.map (fun h => (h, Json.str (g h))))) := by
  simp only [validL, validProps_flat_str n.props hs f g, keys_flat_str]

end Dcg.Proofs.Infer
