import Dcg.Proofs.TypesOp
/-
Dcg.Proofs.HintOp — `DataType.type_hint` with `use_union_operator=True` is the printed form of the
structural rendering (`typeHint_operator`), built on `removeNoneB_print` (Proofs/TypesOp).
-/
namespace Dcg.Proofs.HintOp
open Dcg.Model.Types Dcg.Model.HintExpr Dcg.Proofs.Cover Dcg.Proofs.Types Dcg.Proofs.TypesOp
open Dcg.Sem.Typing hiding Str sNone sComma sPipe

/-- no `None` among the top-level alternatives -/
def noTop : TExpr → Bool
  | .atom s => decide (s ≠ sNone)
  | .app _ _ => true
  | .bor args => args.all (fun e => !isNoneE e)

/-- what `_remove_none_from_union` returns and the union loop collects -/
def okD (e : TExpr) : Prop := wfB e = true ∧ noTop e = true

theorem wfB_bor_intro (ys : List TExpr) (h2 : 2 ≤ ys.length) (hw : ∀ a ∈ ys, wfB a = true)
    (hu : ∀ a ∈ ys, isBor a = false) (hn : ∀ a ∈ ys.dropLast, isNoneE a = false) : wfB (.bor ys) = true := by
  simp only [wfB, Bool.and_eq_true, decide_eq_true_eq, List.all_eq_true, Bool.not_eq_true']
  exact ⟨⟨⟨h2, wfBL_of_mem hw⟩, hu⟩, hn⟩

theorem wfB_eNone : wfB eNone = true := by decide

theorem print_none_iff (e : TExpr) (hw : wfB e = true) : print e = sNone ↔ isNoneE e = true := by
  cases e with
  | atom s => simp [print_atom, isNoneE]
  | app h args =>
    simp only [isNoneE, Bool.false_eq_true, iff_false]
    intro hc
    have : '[' ∈ sNone := by rw [← hc, print_app]; simp
    simp [sNone] at this
  | bor args =>
    simp only [isNoneE, Bool.false_eq_true, iff_false]
    intro hc
    obtain ⟨hlen, _, _, _⟩ := wfB_bor_parts hw
    match args, hlen with
    | a :: b :: r, _ =>
      have : '|' ∈ sNone := by
        rw [← hc, print_bor, printL_cons_cons]
        simp [Dcg.Sem.Typing.sPipe]
      simp [sNone] at this

theorem unit_noTop (e : TExpr) (hu : isBor e = false) (hn : isNoneE e = false) : noTop e = true := by
  cases e with
  | atom s => simpa [noTop, isNoneE] using hn
  | app h args => rfl
  | bor args => simp [isBor] at hu

theorem okD_rmB (e : TExpr) (hw : wfB e = true) (hn : isNoneE e = false) : okD (rmB e) := by
  cases e with
  | atom s => exact ⟨hw, unit_noTop _ rfl hn⟩
  | app h args => exact ⟨hw, rfl⟩
  | bor args =>
    obtain ⟨hlen, hwf, hub, hnn⟩ := wfB_bor_parts hw
    simp only [rmB]
    have hmem : ∀ y ∈ args.filter (fun e => !isNoneE e), wfB y = true ∧ isBor y = false ∧ isNoneE y = false := by
      intro y hy
      simp only [List.mem_filter, Bool.not_eq_true'] at hy
      exact ⟨hwf y hy.1, hub y hy.1, hy.2⟩
    have hne : args.filter (fun e => !isNoneE e) ≠ [] := by
      match args, hlen, hnn with
      | a :: b :: r, _, hnn =>
        have : isNoneE a = false := hnn a (by simp [List.dropLast])
        simp [List.filter, this]
    generalize args.filter (fun e => !isNoneE e) = ys at hmem hne
    match ys, hne with
    | [p], _ =>
      obtain ⟨h1, h2, h3⟩ := hmem p (List.mem_cons_self ..)
      exact ⟨h1, unit_noTop p h2 h3⟩
    | p :: q :: r, _ =>
      simp only [mkBorE]
      refine ⟨wfB_bor_intro _ (by simp) (fun a ha => (hmem a ha).1) (fun a ha => (hmem a ha).2.1)
        (fun a ha => (hmem a (List.dropLast_subset _ ha)).2.2), ?_⟩
      simp only [noTop, List.all_eq_true, Bool.not_eq_true']
      exact fun a ha => (hmem a ha).2.2

theorem wfB_rmB (e : TExpr) (hw : wfB e = true) : wfB (rmB e) = true := by
  cases hn : isNoneE e with
  | false => exact (okD_rmB e hw hn).1
  | true =>
    cases e with
    | atom s => exact hw
    | app h args => exact hw
    | bor args => simp [isNoneE] at hn

/-! ### the union loop -/

theorem unionLoop_operator : ∀ (hs acc : List TExpr) (opt : Bool), (∀ h ∈ hs, wfB h = true) → (∀ a ∈ acc, okD a) →
    unionLoop true (hs.map print) (acc.map print) opt =
      ((unionLoopE true hs acc opt).1.map print, (unionLoopE true hs acc opt).2) ∧
    (∀ a ∈ (unionLoopE true hs acc opt).1, okD a) := by
  intro hs
  induction hs with
  | nil => intro acc opt _ ha; simp [unionLoop, unionLoopE]; exact ha
  | cons h hs ih =>
    intro acc opt hw ha
    have hwh := hw h (List.mem_cons_self ..)
    have hws : ∀ x ∈ hs, wfB x = true := fun x hx => hw x (List.mem_cons_of_mem _ hx)
    simp only [List.map_cons, unionLoop, unionLoopE]
    split
    · exact ih acc opt hws ha
    · split
      · exact ih acc true hws ha
      · rename_i hnn
        have hr : removeNone true (print h) = print (rmE true h) := by
          simp only [removeNone, rmE, if_true]
          exact removeNoneB_print h hwh
        rw [hr]
        have hn : isNoneE h = false := by
          cases hq : isNoneE h with
          | false => rfl
          | true => exact absurd ((print_none_iff h hwh).mpr hq) hnn
        have ha' : ∀ x ∈ acc ++ [rmE true h], okD x := by
          intro x hx
          rcases List.mem_append.mp hx with hx | hx
          · exact ha x hx
          · simp only [List.mem_singleton] at hx
            subst hx
            simp only [rmE, if_true]
            exact okD_rmB h hwh hn
        have := ih (acc ++ [rmE true h]) (opt || print (rmE true h) != print h) hws ha'
        simpa using this

theorem unionLoopE_flag_true (u : Bool) : ∀ (hs acc : List TExpr), (unionLoopE u hs acc true).2 = true := by
  intro hs
  induction hs with
  | nil => intro acc; rfl
  | cons h hs ih =>
    intro acc
    simp only [unionLoopE]
    split
    · exact ih acc
    · split
      · exact ih acc
      · simpa using ih _

/-- the loop ends with nothing collected only if every member was `None`: the union is optional -/
theorem unionLoopE_nil (u : Bool) : ∀ (hs acc : List TExpr) (opt : Bool), (unionLoopE u hs acc opt).1 = [] →
    acc = [] ∧ (hs ≠ [] → (unionLoopE u hs acc opt).2 = true) := by
  intro hs
  induction hs with
  | nil => intro acc opt h; exact ⟨h, fun hc => absurd rfl hc⟩
  | cons h hs ih =>
    intro acc opt hr
    simp only [unionLoopE] at hr ⊢
    split at hr
    · rename_i hc
      have := (ih acc opt hr).1
      subst this
      simp at hc
    · split at hr
      · rename_i h1 h2
        rw [if_neg h1, if_pos h2]
        exact ⟨(ih acc true hr).1, fun _ => unionLoopE_flag_true u hs acc⟩
      · have := (ih _ _ hr).1
        simp at this

/-! ### `" | ".join(...)` -/

theorem print_mkBorE' (xs : List TExpr) : print (borFlat.mkBorE' xs) = joinSep sPipe (xs.map print) := by
  match xs with
  | [] => simp [borFlat.mkBorE', print_atom, joinSep]
  | [p] => simp [borFlat.mkBorE', joinSep]
  | p :: q :: r =>
    simp only [borFlat.mkBorE']
    rw [print_bor, printL_eq_joinSep]; rfl

theorem joinSep_flatMap {α : Type} (sep : Str) (f : α → List Str) : ∀ (ys : List α), (∀ y ∈ ys, f y ≠ []) →
    joinSep sep (ys.flatMap f) = joinSep sep (ys.map (fun y => joinSep sep (f y))) := by
  intro ys
  induction ys with
  | nil => intro _; rfl
  | cons y r ih =>
    intro h
    cases r with
    | nil => simp [joinSep]
    | cons y' r' =>
      have hr : ∀ z ∈ y' :: r', f z ≠ [] := fun z hz => h z (List.mem_cons_of_mem _ hz)
      have hne : (y' :: r').flatMap f ≠ [] := by
        simp only [List.flatMap_cons]
        intro hc
        exact h y' (by simp) (List.append_eq_nil_iff.mp hc).1
      rw [List.flatMap_cons, joinSep_append sep _ _ (h y (List.mem_cons_self ..)) hne, ih hr]
      simp only [List.map_cons]
      rw [joinSep_cons_cons]
      simp [List.append_assoc]

theorem print_borArgs (d : TExpr) : joinSep sPipe ((borArgs d).map print) = print d := by
  cases d with
  | atom s => simp [borArgs, joinSep]
  | app h args => simp [borArgs, joinSep]
  | bor args => simp only [borArgs]; rw [print_bor, printL_eq_joinSep]; rfl

theorem borArgs_ne_nil (d : TExpr) (hw : wfB d = true) : borArgs d ≠ [] := by
  cases d with
  | atom s => simp [borArgs]
  | app h args => simp [borArgs]
  | bor args =>
    obtain ⟨hlen, _, _, _⟩ := wfB_bor_parts hw
    simp only [borArgs]
    intro hc; subst hc; simp at hlen

/-- `" | ".join(printed alternatives)` is the printed flat union -/
theorem print_borFlat (ds : List TExpr) (hw : ∀ d ∈ ds, wfB d = true) :
    print (borFlat ds) = joinSep sPipe (ds.map print) := by
  unfold borFlat
  rw [print_mkBorE', List.map_flatMap, joinSep_flatMap sPipe _ ds
    (fun d hd => by simpa using borArgs_ne_nil d (hw d hd))]
  congr 1
  apply List.map_congr_left
  intro d _
  exact print_borArgs d

theorem borArgs_units (d : TExpr) (hd : okD d) :
    ∀ x ∈ borArgs d, wfB x = true ∧ isBor x = false ∧ isNoneE x = false := by
  obtain ⟨hw, hn⟩ := hd
  cases d with
  | atom s =>
    intro x hx
    simp only [borArgs, List.mem_singleton] at hx
    subst hx
    exact ⟨hw, rfl, by simpa [noTop, isNoneE] using hn⟩
  | app h args =>
    intro x hx
    simp only [borArgs, List.mem_singleton] at hx
    subst hx
    exact ⟨hw, rfl, rfl⟩
  | bor args =>
    obtain ⟨_, hwf, hub, _⟩ := wfB_bor_parts hw
    simp only [noTop, List.all_eq_true, Bool.not_eq_true'] at hn
    intro x hx
    exact ⟨hwf x hx, hub x hx, hn x hx⟩

theorem length_flatMap_ge {α β : Type} (f : α → List β) : ∀ (ys : List α), (∀ y ∈ ys, f y ≠ []) →
    ys.length ≤ (ys.flatMap f).length := by
  intro ys
  induction ys with
  | nil => intro _; simp
  | cons y r ih =>
    intro h
    have h1 : 1 ≤ (f y).length := by
      cases hf : f y with
      | nil => exact absurd hf (h y (List.mem_cons_self ..))
      | cons _ _ => simp
    have := ih (fun z hz => h z (List.mem_cons_of_mem _ hz))
    simp only [List.flatMap_cons, List.length_append, List.length_cons]
    omega

theorem mkBorE'_two (xs : List TExpr) (h : 2 ≤ xs.length) : borFlat.mkBorE' xs = .bor xs := by
  match xs, h with
  | a :: b :: r, _ => rfl

/-- the joined union of ≥ 2 collected members is a well-formed flat `|` union without `None` -/
theorem wfB_borFlat (ds : List TExpr) (hd : ∀ d ∈ ds, okD d) (h2 : 2 ≤ ds.length) : okD (borFlat ds) := by
  unfold borFlat
  have hlen : 2 ≤ (ds.flatMap borArgs).length :=
    Nat.le_trans h2 (length_flatMap_ge borArgs ds (fun d hdm => borArgs_ne_nil d (hd d hdm).1))
  rw [mkBorE'_two _ hlen]
  have hx : ∀ x ∈ ds.flatMap borArgs, wfB x = true ∧ isBor x = false ∧ isNoneE x = false := by
    intro x hx
    simp only [List.mem_flatMap] at hx
    obtain ⟨d, hdm, hxd⟩ := hx
    exact borArgs_units d (hd d hdm) x hxd
  refine ⟨wfB_bor_intro _ hlen (fun a ha => (hx a ha).1) (fun a ha => (hx a ha).2.1)
    (fun a ha => (hx a (List.dropLast_subset _ ha)).2.2), ?_⟩
  simp only [noTop, List.all_eq_true, Bool.not_eq_true']
  exact fun a ha => (hx a ha).2.2

/-- `t | None` -/
theorem wfB_borFlat_none (t : TExpr) (ht : okD t) : wfB (borFlat [t, eNone]) = true := by
  unfold borFlat
  have hb : borArgs eNone = [eNone] := by simp [eNone, borArgs]
  simp only [List.flatMap_cons, List.flatMap_nil, List.append_nil, hb]
  have hne := borArgs_ne_nil t ht.1
  have hlen : 2 ≤ (borArgs t ++ [eNone]).length := by
    cases hq : borArgs t with
    | nil => exact absurd hq hne
    | cons _ _ => simp
  rw [mkBorE'_two _ hlen]
  have hx := borArgs_units t ht
  refine wfB_bor_intro _ hlen ?_ ?_ ?_
  · intro a ha
    rcases List.mem_append.mp ha with ha | ha
    · exact (hx a ha).1
    · simp only [List.mem_singleton] at ha; subst ha; exact wfB_eNone
  · intro a ha
    rcases List.mem_append.mp ha with ha | ha
    · exact (hx a ha).2.1
    · simp only [List.mem_singleton] at ha; subst ha; rfl
  · intro a ha
    rw [List.dropLast_concat] at ha
    exact (hx a ha).2.2

/-! ### `DataType.type_hint`, node by node -/

/-- well-formed, or the empty text of a union all of whose members were `None` -/
def wfB0 (e : TExpr) (flag : Bool) : Prop := wfB e = true ∨ (e = .atom [] ∧ flag = true)

theorem base_operator (o : Opts) (ho : o.unionOp = true) (a : Attrs) (kidEs : List TExpr)
    (hk : ∀ k ∈ kidEs, wfB k = true) (ha : wfAttrs a kidEs.length = true) :
    baseOf o a (kidEs.map print) = (print (baseE o a kidEs).1, (baseE o a kidEs).2) ∧
    wfB0 (baseE o a kidEs).1 (baseE o a kidEs).2 := by
  simp only [wfAttrs, Bool.and_eq_true, Bool.or_eq_true, Bool.not_eq_true', List.all_eq_true, decide_eq_true_eq] at ha
  obtain ⟨⟨⟨hty, href⟩, hlit⟩, hleafy⟩ := ha
  unfold baseOf baseE wfB0
  by_cases hte : a.ty = []
  · simp only [hte, ne_eq, not_true_eq_false, if_false]
    match kidEs, hk with
    | k1 :: k2 :: ks, hk =>
      have hl := unionLoop_operator (k1 :: k2 :: ks) [] a.isOptional hk (by intro x hx; cases hx)
      have hnil := unionLoopE_nil true (k1 :: k2 :: ks) [] a.isOptional
      simp only [List.map_cons, List.map_nil] at hl ⊢
      simp only [ho] at hl ⊢
      rw [hl.1]
      generalize hr : unionLoopE true (k1 :: k2 :: ks) [] a.isOptional = r at hl hnil
      obtain ⟨r1, r2⟩ := r
      simp only [] at hl hnil ⊢
      match r1, hl, hnil with
      | [d], hl, _ =>
        simp only [List.map_cons, List.map_nil]
        exact ⟨trivial, Or.inl (hl.2 d (List.mem_cons_self ..)).1⟩
      | [], _, hnil =>
        simp only [List.map_nil, if_true]
        have hb : borFlat [] = .atom [] := by simp [borFlat, borFlat.mkBorE']
        rw [hb]
        exact ⟨by simp [joinSep, print_atom], Or.inr ⟨rfl, (hnil rfl).2 (by simp)⟩⟩
      | d1 :: d2 :: ds, hl, _ =>
        simp only [if_true]
        refine ⟨?_, Or.inl (wfB_borFlat _ hl.2 (by simp)).1⟩
        rw [print_borFlat _ (fun d hd => (hl.2 d hd).1)]
        simp only [List.map_cons]
    | [k], hk =>
      simp only [List.map_cons, List.map_nil]
      exact ⟨trivial, Or.inl (hk k (List.mem_cons_self ..))⟩
    | [], _ =>
      simp only [List.map_nil]
      by_cases hle : a.literals = []
      · simp only [hle, ne_eq, not_true_eq_false, if_false]
        cases hrf : a.ref with
        | none =>
          exfalso
          simp [hte, hle, hrf] at hleafy
        | some r =>
          simp only []
          rw [hrf] at href
          exact ⟨by rw [print_atom], Or.inl (by simp only [wfB]; exact plainName_plainTok _ href)⟩
      · simp only [hle, ne_eq, not_false_eq_true, if_true]
        refine ⟨?_, Or.inl ?_⟩
        · rw [print_app, printL_eq_joinSep]
          have : (a.literals.map TExpr.atom).map print = a.literals := by
            simp only [List.map_map]
            conv => rhs; rw [← List.map_id a.literals]
            apply List.map_congr_left; intro x _; simp [print_atom]
          rw [this]
          simp [sLiteralPrefix, sLiteral, Dcg.Sem.Typing.sComma, sComma]
        · simp only [wfB, Bool.and_eq_true]
          refine ⟨⟨by decide, ?_⟩, ?_⟩
          · cases hq : a.literals with
            | nil => exact absurd hq hle
            | cons _ _ => simp
          · apply wfBL_of_mem
            intro e he
            simp only [List.mem_map] at he
            obtain ⟨tok, htok, rfl⟩ := he
            simp only [wfB]; exact plainToken_plainTok _ (hlit tok htok)
  · simp only [hte, ne_eq, not_false_eq_true, if_true]
    refine ⟨by rw [print_atom], Or.inl ?_⟩
    simp only [wfB]
    rcases hty with h | h
    · exact absurd (by simpa using h) hte
    · exact plainName_plainTok _ h

theorem print_ne_nil_of_wfB (e : TExpr) (h : wfB e = true) : print e ≠ [] := by
  cases e with
  | atom s => exact print_unit_ne_nil _ h rfl
  | app hd args => exact print_unit_ne_nil _ h rfl
  | bor args =>
    obtain ⟨hlen, _, _, _⟩ := wfB_bor_parts h
    match args, hlen with
    | a :: b :: r, _ => rw [print_bor, printL_cons_cons]; simp [Dcg.Sem.Typing.sPipe]

theorem wrap1_operator (name : Str) (b : TExpr) (flag : Bool) (hn : plainTok name = true) (hb : wfB0 b flag) :
    wrap1 name (print b) = print (wrap1E name b) ∧ wfB (wrap1E name b) = true := by
  rcases hb with hb | ⟨rfl, _⟩
  · have hne := print_ne_nil_of_wfB b hb
    simp only [wrap1, wrap1E, hne, if_false]
    refine ⟨?_, ?_⟩
    · rw [print_app, printL_single]; simp
    · simp only [wfB, wfBL, Bool.and_eq_true, Bool.and_true]
      exact ⟨⟨hn, by simp⟩, hb⟩
  · simp only [wrap1, wrap1E, print_atom, if_true]
    exact ⟨trivial, by simpa [wfB] using hn⟩

theorem container_operator (o : Opts) (a : Attrs) (keyE : Option TExpr) (b : TExpr) (flag : Bool) (hb : wfB0 b flag)
    (hkey : ∀ k, keyE = some k → wfB k = true) :
    containerOf o a (keyE.map print) (print b) = print (containerE o a keyE b) ∧
    wfB0 (containerE o a keyE b) flag := by
  obtain ⟨hl, hs, hd, _, _, _⟩ := names_plain o
  unfold containerOf containerE
  split
  · exact ⟨(wrap1_operator _ b flag hl hb).1, Or.inl (wrap1_operator _ b flag hl hb).2⟩
  · split
    · exact ⟨(wrap1_operator _ b flag hs hb).1, Or.inl (wrap1_operator _ b flag hs hb).2⟩
    · split
      · have hkw : wfB (keyE.getD (.atom sStr)) = true := by
          cases keyE with
          | none => simp only [Option.getD_none, wfB]; decide
          | some k => simpa using hkey k rfl
        have hcond : (keyE.map print).isSome = keyE.isSome := by cases keyE <;> rfl
        have hkp : (keyE.map print).getD sStr = print (keyE.getD (.atom sStr)) := by
          cases keyE with
          | none => simp [print_atom]
          | some k => simp
        rw [hcond, hkp]
        split
        · refine ⟨?_, Or.inl ?_⟩
          · rw [print_app, printL_cons_cons, printL_single]
            by_cases hpb : print b = []
            · simp [hpb, print_atom, Dcg.Sem.Typing.sComma, sComma]
            · simp [hpb, Dcg.Sem.Typing.sComma, sComma]
          · simp only [wfB, wfBL, Bool.and_eq_true, Bool.and_true]
            refine ⟨⟨hd, by simp⟩, hkw, ?_⟩
            by_cases hpb : print b = []
            · simp only [hpb, if_true, wfB]; decide
            · simp only [hpb, if_false]
              rcases hb with hb | ⟨rfl, _⟩
              · exact hb
              · exact absurd (print_atom []) hpb
        · exact ⟨by rw [print_atom], Or.inl (by simpa [wfB] using hd)⟩
      · exact ⟨rfl, hb⟩

theorem print_borFlat_none (t : TExpr) (ht : wfB t = true) :
    print (borFlat [t, eNone]) = print t ++ sPipe ++ sNone := by
  rw [print_borFlat _ (by
    intro d hd
    simp only [List.mem_cons, List.not_mem_nil, or_false] at hd
    rcases hd with rfl | rfl
    · exact ht
    · exact wfB_eNone)]
  simp [joinSep, eNone, print_atom, Dcg.Sem.Typing.sNone, sNone]

theorem getOptional_operator (ty : TExpr) (hw : wfB ty = true) :
    getOptionalType true (print ty) = print (getOptionalE true ty) ∧ wfB (getOptionalE true ty) = true := by
  unfold getOptionalType getOptionalE
  have hr : removeNone true (print ty) = print (rmE true ty) := by
    simp only [removeNone, rmE, if_true]
    exact removeNoneB_print ty hw
  simp only [hr, if_true]
  split
  · exact ⟨by simp [eNone, print_atom, Dcg.Sem.Typing.sNone, sNone], wfB_eNone⟩
  · rename_i hcond
    have hnn : isNoneE ty = false := by
      cases hq : isNoneE ty with
      | false => rfl
      | true =>
        exfalso
        apply hcond
        right
        cases ty with
        | atom s =>
          simp only [isNoneE, decide_eq_true_eq] at hq
          simp [rmE, rmB, print_atom, hq]
        | app h args => simp [isNoneE] at hq
        | bor args => simp [isNoneE] at hq
    have hok : okD (rmE true ty) := by simp only [rmE, if_true]; exact okD_rmB ty hw hnn
    exact ⟨(print_borFlat_none _ hok.1).symm, wfB_borFlat_none _ hok⟩

theorem finish_operator (ty : TExpr) (opt : Bool) (hw : wfB0 ty opt) :
    finishOf true (print ty) opt = (print (finishE true ty opt).1, (finishE true ty opt).2) ∧
    wfB (finishE true ty opt).1 = true := by
  rcases hw with hw | ⟨rfl, rfl⟩
  · unfold finishOf finishE
    split
    · simp only []
      obtain ⟨h1, h2⟩ := getOptional_operator ty hw
      exact ⟨by rw [h1], h2⟩
    · exact ⟨rfl, hw⟩
  · decide

theorem node_operator (o : Opts) (ho : o.unionOp = true) (a : Attrs) (keyE : Option TExpr) (kidEs : List TExpr)
    (hk : ∀ k ∈ kidEs, wfB k = true) (hkey : ∀ k, keyE = some k → wfB k = true) (ha : wfAttrs a kidEs.length = true) :
    hintNode o a (keyE.map print) (kidEs.map print) =
      (print (hintNodeE o a keyE kidEs).1, (hintNodeE o a keyE kidEs).2) ∧
    wfB (hintNodeE o a keyE kidEs).1 = true := by
  obtain ⟨hb1, hb2⟩ := base_operator o ho a kidEs hk ha
  unfold hintNode hintNodeE
  simp only [hb1, ho]
  have hb2' : wfB0 (baseE o a kidEs).1 ((baseE o a kidEs).2 || refNullable a) := by
    rcases hb2 with h | ⟨h1, h2⟩
    · exact Or.inl h
    · exact Or.inr ⟨h1, by simp [h2]⟩
  obtain ⟨hc1, hc2⟩ := container_operator o a keyE (baseE o a kidEs).1 _ hb2' hkey
  rw [hc1]
  exact finish_operator _ _ hc2

/-- `typeHint_eq_print`, `|` spelling (`use_union_operator = True`; any of the four container
spellings): on a tree whose names are plain, the text `DataType.type_hint` builds by splitting at
every `|`, dropping the parts that read `None` and re-joining is exactly the printed form of the
structural rendering, the flag it leaves is the structural flag, and the expression is a
well-formed expression of the `|` spelling (flat unions, `None` last). -/
theorem typeHint_operator (o : Opts) (ho : o.unionOp = true) : ∀ t, wfTree t = true →
    typeHint o t = (print (hintE o t).1, (hintE o t).2) ∧ wfB (hintE o t).1 = true := by
  apply DT.ind
  intro a key kids ihk ihl hw
  simp only [wfTree, Bool.and_eq_true] at hw
  obtain ⟨⟨ha, hwk⟩, hwl⟩ := hw
  have hkids : typeHintL o kids = (hintEL o kids).map print ∧ ∀ k ∈ hintEL o kids, wfB k = true := by
    clear ha hwk ihk
    induction kids with
    | nil => exact ⟨rfl, by intro k hk; cases hk⟩
    | cons c cs ihc =>
      simp only [wfTreeL, Bool.and_eq_true] at hwl
      obtain ⟨h1, h2⟩ := ihl c (List.mem_cons_self ..) hwl.1
      obtain ⟨h3, h4⟩ := ihc (fun x hx => ihl x (List.mem_cons_of_mem _ hx)) hwl.2
      simp only [typeHintL, hintEL, List.map_cons]
      refine ⟨by rw [h1, h3], ?_⟩
      intro k hk
      rcases List.mem_cons.mp hk with rfl | hk
      · exact h2
      · exact h4 k hk
  have hkey : typeHintO o key = (hintEO o key).map print ∧ ∀ k, hintEO o key = some k → wfB k = true := by
    cases key with
    | none => exact ⟨rfl, by intro k hk; simp [hintEO] at hk⟩
    | some kk =>
      simp only [wfTreeO] at hwk
      obtain ⟨h1, h2⟩ := ihk kk rfl hwk
      refine ⟨by simp [typeHintO, hintEO, h1], ?_⟩
      intro k hk
      simp only [hintEO, Option.some.injEq] at hk
      subst hk; exact h2
  simp only [typeHint, hintE]
  rw [hkids.1, hkey.1]
  exact node_operator o ho a _ _ hkids.2 hkey.2 (by rw [hintEL_length]; exact ha)

end Dcg.Proofs.HintOp
