import Dcg.Proofs.TemplateAbs
/-
Per-site soundness of the abstract interpretation: when the analysis of a template succeeds, then
in every rendering (with values satisfying the analysis' invariants) every interpolation outside a
filter block is made in an automaton state in which the analysis allows the site
(`A.slot e q ≠ none`), the state being the one reached on the text rendered before it.
-/
namespace Dcg.Proofs.TemplateSites
open Dcg.Model.TemplateSyntax Dcg.Model.Template Dcg.Model.TemplateAbs Dcg.Proofs.TemplateAbs

@[simp] theorem Out.sites_append (a b : Out) : (a ++ b).sites = a.sites ++ b.sites.map (Site.shift a.text) := rfl
@[simp] theorem Out.sites_empty : Out.empty.sites = [] := rfl

/-- every recorded site stands in a state the analysis allows, started from `q` -/
def SitesAllowed (A : Auto) (q : A.Q) (o : Out) : Prop :=
  ∀ s ∈ o.sites, ∃ qs, A.slot s.expr (A.run q s.before) = some qs

theorem SitesAllowed_empty (A : Auto) (q : A.Q) : SitesAllowed A q Out.empty := by
  intro s hs; cases hs

theorem SitesAllowed_append {A : Auto} {q : A.Q} {a b : Out} (ha : SitesAllowed A q a)
    (hb : SitesAllowed A (A.run q a.text) b) : SitesAllowed A q (a ++ b) := by
  intro s hs
  rw [Out.sites_append] at hs
  rcases List.mem_append.mp hs with h | h
  · exact ha s h
  · obtain ⟨s', hs', rfl⟩ := List.mem_map.mp h
    obtain ⟨qs, hq⟩ := hb s' hs'
    refine ⟨qs, ?_⟩
    simp only [Site.shift]
    rw [run_append]
    exact hq

theorem absSlot_some {A : Auto} {e : Expr} : ∀ (X X' : List (MQ A)), absSlot A e X = some X' →
    ∀ mq ∈ X, ∃ Y, absSlot1 A e mq = some Y := by
  intro X
  induction X with
  | nil => intro _ _ mq hmq; cases hmq
  | cons x r ih =>
    intro X' h mq hmq
    simp only [absSlot] at h
    cases h1 : absSlot1 A e x with
    | none => simp [h1] at h
    | some a =>
      cases h2 : absSlot A e r with
      | none => simp [h1, h2] at h
      | some b =>
        rcases List.mem_cons.mp hmq with rfl | hm
        · exact ⟨a, h1⟩
        · exact ih b h2 mq hm

theorem off_run {A : Auto} {X' : List (MQ A)} {q : A.Q} {s : List Char}
    (h : runM A (Mode.off, q) s ∈ X') : (Mode.off, A.run q s) ∈ X' := by
  rw [runM_off] at h; exact h

theorem forEach_sites {A : Auto} (S : Sound A) {f : Val → Except Err Out} (T T' : List (MQ A))
    (hsub : ∀ x ∈ T', x ∈ T)
    (hstep : ∀ item oi, f item = .ok oi → SlotsOK S oi → Post A T T' oi.text)
    (hsite : ∀ item oi, f item = .ok oi → SlotsOK S oi → ∀ q, (Mode.off, q) ∈ T → SitesAllowed A q oi) :
    ∀ (items : List Val) (o : Out), forEach f items = .ok o → SlotsOK S o →
      ∀ q, (Mode.off, q) ∈ T → SitesAllowed A q o := by
  intro items
  induction items with
  | nil =>
    intro o h _ q _
    simp only [forEach] at h
    cases h
    exact SitesAllowed_empty A q
  | cons v vs ih =>
    intro o h hs q hq
    simp only [forEach] at h
    obtain ⟨oi, hoi, h⟩ := bind_ok h
    obtain ⟨r, hr, h⟩ := bind_ok h
    cases h
    obtain ⟨hs1, hs2⟩ := SlotsOK_append hs
    have h1 := hstep v oi hoi hs1 (Mode.off, q) hq
    exact SitesAllowed_append (hsite v oi hoi hs1 q hq) (ih r hr hs2 _ (hsub _ (off_run h1.1)))

mutual
theorem absT_sites {A : Auto} (S : Sound A) : ∀ (t : Tpl) (σ : Facts) (env : Env) (o : Out) (env' : Env)
    (X X' : List (MQ A)), Consistent σ env → render env t = .ok (o, env') → absT A σ t X = some X' →
    SlotsOK S o → ∀ q, (Mode.off, q) ∈ X → SitesAllowed A q o
  | .text s, σ, env, o, env', X, X', hc, hr, ha, _ => by
    simp only [render] at hr
    cases hr
    intro q _ s hs; cases hs
  | .out e, σ, env, o, env', X, X', hc, hr, ha, hs => by
    simp only [render] at hr
    obtain ⟨v, _, hr⟩ := bind_ok hr
    cases hr
    simp only [absT] at ha
    intro q hq s hs
    have : s = ⟨[], e, v⟩ := by simpa using hs
    subst this
    obtain ⟨Y, hY⟩ := absSlot_some X X' ha _ hq
    simp only [absSlot1] at hY
    cases hsl : A.slot e q with
    | none => simp [hsl] at hY
    | some qs => exact ⟨qs, hsl⟩
  | .ite c thn els, σ, env, o, env', X, X', hc, hr, ha, hs => by
    simp only [render] at hr
    obtain ⟨v, hv, hr⟩ := bind_ok hr
    obtain ⟨tv, htv, hr⟩ := bind_ok hr
    have htv := truthOf_ok htv
    subst htv
    simp only [absT] at ha
    by_cases ht : truthy v = true
    · simp only [ht, if_true] at hr
      cases hcond : absCond σ c with
      | none =>
        simp only [hcond] at ha
        cases h1 : absL A σ thn X with
        | none => simp [h1] at ha
        | some a => exact absL_sites S thn σ env o env' X a hc hr h1 hs
      | some b =>
        have hb := absCond_sound hc c b v hcond hv
        rw [ht] at hb
        subst hb
        simp only [hcond] at ha
        exact absL_sites S thn σ env o env' X X' hc hr ha hs
    · have ht' : truthy v = false := by simpa using ht
      simp only [ht', Bool.false_eq_true, if_false] at hr
      cases hcond : absCond σ c with
      | none =>
        simp only [hcond] at ha
        cases h1 : absL A σ thn X with
        | none => simp [h1] at ha
        | some a =>
          cases h2 : absL A σ els X with
          | none => simp [h1, h2] at ha
          | some b => exact absL_sites S els σ env o env' X b hc hr h2 hs
      | some b =>
        have hb := absCond_sound hc c b v hcond hv
        rw [ht'] at hb
        subst hb
        simp only [hcond] at ha
        exact absL_sites S els σ env o env' X X' hc hr ha hs
  | .forIn vars iter body, σ, env, o, env', X, X', hc, hr, ha, hs => by
    simp only [render] at hr
    obtain ⟨v, hv, hr⟩ := bind_ok hr
    obtain ⟨items, hitems, hr⟩ := bind_ok hr
    obtain ⟨o', ho', hr⟩ := bind_ok hr
    cases hr
    simp only [absT] at ha
    split at ha
    · cases ha
    · rename_i hvars
      have hvars' : vars.any σ.has = false := by simpa using hvars
      have hstep : ∀ (T T' : List (MQ A)), absL A σ body T = some T' → ∀ item oi,
          (do let env' ← bindTarget env vars item
              let r ← renderL env' body
              pure r.1 : Except Err Out) = .ok oi → SlotsOK S oi → Post A T T' oi.text := by
        intro T T' hT item oi hf hsl
        obtain ⟨env1, hb, hf⟩ := bind_ok hf
        obtain ⟨r, hrr, hf⟩ := bind_ok hf
        cases hf
        exact (absL_sound S body σ env1 r.1 r.2 T T' (Consistent_bindTarget hc hvars' hb) hrr hT hsl).2
      have hsite : ∀ (T T' : List (MQ A)), absL A σ body T = some T' → ∀ item oi,
          (do let env' ← bindTarget env vars item
              let r ← renderL env' body
              pure r.1 : Except Err Out) = .ok oi → SlotsOK S oi → ∀ q, (Mode.off, q) ∈ T → SitesAllowed A q oi := by
        intro T T' hT item oi hf hsl
        obtain ⟨env1, hb, hf⟩ := bind_ok hf
        obtain ⟨r, hrr, hf⟩ := bind_ok hf
        cases hf
        exact absL_sites S body σ env1 r.1 r.2 T T' (Consistent_bindTarget hc hvars' hb) hrr hT hsl
      cases hit : absIter σ iter with
      | none =>
        simp only [hit] at ha
        obtain ⟨h1, T', hT', hsub⟩ := closeLoop_sound _ _ _ _ ha
        intro q hq
        exact forEach_sites S X' T' hsub (hstep X' T' hT') (hsite X' T' hT') items o ho' hs q (h1 _ hq)
      | some b =>
        have hmem := lookup_mem (show σ.lookup iter = some b from hit)
        have hb := hc iter b hmem v hv
        cases b with
        | false =>
          have := iterate_falsy hb hitems
          subst this
          simp only [forEach] at ho'
          cases ho'
          intro q _
          exact SitesAllowed_empty A q
        | true =>
          simp only [hit] at ha
          cases hcl : closeLoop (fun X => absL A σ body X) loopFuel X with
          | none => simp [hcl] at ha
          | some T =>
            simp only [hcl, Option.bind_eq_bind, Option.bind_some] at ha
            obtain ⟨h1, T', hT', hsub⟩ := closeLoop_sound _ _ _ _ hcl
            intro q hq
            exact forEach_sites S T T' hsub (hstep T T' hT') (hsite T T' hT') items o ho' hs q (h1 _ hq)
  | .setVar x e, σ, env, o, env', X, X', hc, hr, ha, _ => by
    simp only [render] at hr
    obtain ⟨v, _, hr⟩ := bind_ok hr
    cases hr
    intro q _
    exact SitesAllowed_empty A q
  | .incl _ _ body, σ, env, o, env', X, X', hc, hr, ha, hs => by
    simp only [render] at hr
    obtain ⟨r, hrr, hr⟩ := bind_ok hr
    cases hr
    simp only [absT] at ha
    exact absL_sites S body σ env r.1 r.2 X X' hc hrr ha hs
  | .filterBlock f body, σ, env, o, env', X, X', hc, hr, ha, hs => by
    simp only [render] at hr
    obtain ⟨r, hrr, hr⟩ := bind_ok hr
    obtain ⟨s, hbf, hr⟩ := bind_ok hr
    cases hr
    intro q _ s hs; cases hs
  | .macroDef _ _ _, σ, env, o, env', X, X', hc, hr, ha, _ => by
    simp only [render] at hr
    cases hr
    intro q _
    exact SitesAllowed_empty A q
  | .callMacro _ params args body, σ, env, o, env', X, X', hc, hr, ha, hs => by
    simp only [render] at hr
    split at hr
    · cases hr
    · obtain ⟨vals, _, hr⟩ := bind_ok hr
      obtain ⟨r, hrr, hr⟩ := bind_ok hr
      cases hr
      simp only [absT] at ha
      exact absL_sites S body [] _ r.1 r.2 X X' (Consistent_nil _) hrr ha hs
  | .unsupported _, σ, env, o, env', X, X', _, hr, _, _ => by
    simp only [render] at hr
    cases hr
theorem absL_sites {A : Auto} (S : Sound A) : ∀ (ts : List Tpl) (σ : Facts) (env : Env) (o : Out) (env' : Env)
    (X X' : List (MQ A)), Consistent σ env → renderL env ts = .ok (o, env') → absL A σ ts X = some X' →
    SlotsOK S o → ∀ q, (Mode.off, q) ∈ X → SitesAllowed A q o
  | [], σ, env, o, env', X, X', hc, hr, ha, _ => by
    simp only [renderL] at hr
    cases hr
    intro q _
    exact SitesAllowed_empty A q
  | t :: ts, σ, env, o, env', X, X', hc, hr, ha, hs => by
    simp only [renderL] at hr
    obtain ⟨r, hrr, hr⟩ := bind_ok hr
    obtain ⟨r', hrr', hr⟩ := bind_ok hr
    cases hr
    simp only [absL] at ha
    cases h1 : absT A σ t X with
    | none => simp [h1] at ha
    | some Y =>
      simp only [h1, Option.bind_eq_bind, Option.bind_some] at ha
      obtain ⟨hs1, hs2⟩ := SlotsOK_append hs
      have p1 := absT_sound S t σ env r.1 r.2 X Y hc hrr h1 hs1
      intro q hq
      exact SitesAllowed_append (absT_sites S t σ env r.1 r.2 X Y hc hrr h1 hs1 q hq)
        (absL_sites S ts σ r.2 r'.1 r'.2 Y X' p1.1 hrr' ha hs2 _ (off_run (p1.2 _ hq).1))
end

/-- **Per-site soundness of a successful analysis.** If the analysis of a template does not give
up under any assignment of the enumerated facts, then in every rendering whose values satisfy the
analysis' invariants every interpolation outside a filter block is made in a state in which the
analysis allows its site. -/
theorem sites_allowed_of_check {A : Auto} (S : Sound A) (init : A.Q) (good : A.Q → Bool) (assume : Facts)
    (enum : List Expr) (t : List Tpl) (h : check A init good assume enum t = true)
    (ctx : List (String × Val)) (o : Out) (hr : renderTemplate ctx t = .ok o)
    (hassume : Consistent assume ⟨ctx, []⟩) (hs : SlotsOK S o) : SitesAllowed A init o := by
  unfold renderTemplate at hr
  obtain ⟨r, hrr, hr⟩ := bind_ok hr
  cases hr
  unfold check at h
  have hσ := List.all_eq_true.mp h _ (mem_assignments (truthIn ⟨ctx, []⟩) enum)
  unfold finalStates at hσ
  cases ha : absL A (assume ++ enum.map (fun e => (e, truthIn ⟨ctx, []⟩ e))) t [(Mode.off, init)] with
  | none => simp [ha] at hσ
  | some X' =>
    exact absL_sites S t _ ⟨ctx, []⟩ r.1 r.2 _ X'
      (Consistent_append hassume (Consistent_truthIn _ enum)) hrr ha hs init List.mem_cons_self

/-- `before` is the text rendered before the value: the output is `before ++ value ++ rest` -/
def SitesPositioned (o : Out) : Prop := ∀ s ∈ o.sites, ∃ rest, o.text = s.before ++ s.value ++ rest


theorem SitesPositioned_empty : SitesPositioned Out.empty := by intro s hs; cases hs

theorem SitesPositioned_append {a b : Out} (ha : SitesPositioned a) (hb : SitesPositioned b) :
    SitesPositioned (a ++ b) := by
  intro s hs
  rw [Out.sites_append] at hs
  rcases List.mem_append.mp hs with h | h
  · obtain ⟨rest, hr⟩ := ha s h
    exact ⟨rest ++ b.text, by simp [hr]⟩
  · obtain ⟨s', hs', rfl⟩ := List.mem_map.mp h
    obtain ⟨rest, hr⟩ := hb s' hs'
    exact ⟨rest, by simp [Site.shift, hr]⟩

theorem forEach_positioned {f : Val → Except Err Out} (hf : ∀ item oi, f item = .ok oi → SitesPositioned oi) :
    ∀ (items : List Val) (o : Out), forEach f items = .ok o → SitesPositioned o := by
  intro items
  induction items with
  | nil => intro o h; simp only [forEach] at h; cases h; exact SitesPositioned_empty
  | cons v vs ih =>
    intro o h
    simp only [forEach] at h
    obtain ⟨oi, hoi, h⟩ := bind_ok h
    obtain ⟨r, hr, h⟩ := bind_ok h
    cases h
    exact SitesPositioned_append (hf v oi hoi) (ih r hr)

mutual
theorem render_positioned : ∀ (t : Tpl) (env : Env) (o : Out) (env' : Env),
    render env t = .ok (o, env') → SitesPositioned o
  | .text s, env, o, env', hr => by
    simp only [render] at hr; cases hr; intro p hp; cases hp
  | .out e, env, o, env', hr => by
    simp only [render] at hr
    obtain ⟨v, hv, hr⟩ := bind_ok hr
    cases hr
    intro p hp
    have : p = ⟨[], e, v⟩ := by simpa using hp
    subst this
    exact ⟨[], by simp⟩
  | .ite c thn els, env, o, env', hr => by
    simp only [render] at hr
    obtain ⟨v, _, hr⟩ := bind_ok hr
    obtain ⟨tv, _, hr⟩ := bind_ok hr
    split at hr
    · exact renderL_positioned thn env o env' hr
    · exact renderL_positioned els env o env' hr
  | .forIn vars iter body, env, o, env', hr => by
    simp only [render] at hr
    obtain ⟨v, _, hr⟩ := bind_ok hr
    obtain ⟨items, _, hr⟩ := bind_ok hr
    obtain ⟨o', ho', hr⟩ := bind_ok hr
    cases hr
    refine forEach_positioned ?_ items o ho'
    intro item oi hf
    obtain ⟨env1, _, hf⟩ := bind_ok hf
    obtain ⟨r, hrr, hf⟩ := bind_ok hf
    cases hf
    exact renderL_positioned body env1 r.1 r.2 hrr
  | .setVar x e, env, o, env', hr => by
    simp only [render] at hr
    obtain ⟨v, _, hr⟩ := bind_ok hr
    cases hr
    exact SitesPositioned_empty
  | .incl _ _ body, env, o, env', hr => by
    simp only [render] at hr
    obtain ⟨r, hrr, hr⟩ := bind_ok hr
    cases hr
    exact renderL_positioned body env r.1 r.2 hrr
  | .filterBlock f body, env, o, env', hr => by
    simp only [render] at hr
    obtain ⟨r, hrr, hr⟩ := bind_ok hr
    obtain ⟨s, _, hr⟩ := bind_ok hr
    cases hr
    intro p hp; cases hp
  | .macroDef _ _ _, env, o, env', hr => by
    simp only [render] at hr; cases hr; exact SitesPositioned_empty
  | .callMacro _ params args body, env, o, env', hr => by
    simp only [render] at hr
    split at hr
    · cases hr
    · obtain ⟨vals, _, hr⟩ := bind_ok hr
      obtain ⟨r, hrr, hr⟩ := bind_ok hr
      cases hr
      exact renderL_positioned body _ r.1 r.2 hrr
  | .unsupported _, env, o, env', hr => by
    simp only [render] at hr; cases hr
theorem renderL_positioned : ∀ (ts : List Tpl) (env : Env) (o : Out) (env' : Env),
    renderL env ts = .ok (o, env') → SitesPositioned o
  | [], env, o, env', hr => by
    simp only [renderL] at hr; cases hr; exact SitesPositioned_empty
  | t :: ts, env, o, env', hr => by
    simp only [renderL] at hr
    obtain ⟨r, hrr, hr⟩ := bind_ok hr
    obtain ⟨r', hrr', hr⟩ := bind_ok hr
    cases hr
    exact SitesPositioned_append (render_positioned t env r.1 r.2 hrr) (renderL_positioned ts r.2 r'.1 r'.2 hrr')
end

theorem renderTemplate_positioned {ctx : List (String × Val)} {t : List Tpl} {o : Out}
    (h : renderTemplate ctx t = .ok o) : SitesPositioned o := by
  unfold renderTemplate at h
  obtain ⟨r, hrr, h⟩ := bind_ok h
  cases h
  exact renderL_positioned t _ r.1 r.2 hrr

end Dcg.Proofs.TemplateSites
