import Dcg.Model.Resolver
/-! Helper lemmas for C06 (name registry). Property theorems are in `Dcg/Props/C06.lean`. -/
namespace Dcg.Proofs.Resolver
open Dcg.Model.Resolver

/-! ### decimal numerals and the candidate sequence of `_get_unique_name` -/

theorem digits_injective {a b : Nat} (h : digits a = digits b) : a = b := by
  have ha := @Nat.ofDigitChars_ten_toDigits a
  have hb := @Nat.ofDigitChars_ten_toDigits b
  unfold digits at h
  rw [h] at ha
  omega

theorem digits_ne_nil (k : Nat) : digits k ≠ [] := Nat.toDigits_ne_nil

theorem glue_cancel {d a b b' : Str} (h : glue d a b = glue d a b') : b = b' := by
  unfold glue at h
  split at h
  · exact h
  · exact List.append_cancel_left h

theorem length_glue_gt {d a b : Str} (hb : b ≠ []) : a.length < (glue d a b).length := by
  unfold glue
  have : 0 < b.length := List.length_pos_iff.mpr hb
  split
  · next h => subst h; simpa using this
  · simp only [List.length_append]; omega

theorem glue_ne_nil {d a b : Str} (hb : b ≠ []) : glue d a b ≠ [] := by
  intro h
  have := @length_glue_gt d a b hb
  rw [h] at this
  simp at this

/-- the candidates tried by the loop are pairwise different -/
theorem cand_injective (sfx d name : Str) {i j : Nat} (h : cand sfx d name i = cand sfx d name j) :
    i = j := by
  -- lengths separate the three layers; digits separate within a layer
  have key : ∀ i j, i < j → cand sfx d name i ≠ cand sfx d name j := by
    intro i j hij heq
    match i, j with
    | 0, j + 1 =>
      simp only [cand] at heq
      split at heq
      · have := @length_glue_gt d name (digits (j + 1)) (digits_ne_nil _)
        rw [← heq] at this; omega
      · next hs =>
        split at heq
        · have := @length_glue_gt d name sfx hs
          rw [← heq] at this; omega
        · have h1 := @length_glue_gt d name sfx hs
          have h2 := @length_glue_gt d (glue d name sfx) (digits j) (digits_ne_nil _)
          rw [← heq] at h2; omega
    | i + 1, j + 1 =>
      simp only [cand] at heq
      split at heq
      · have := digits_injective (glue_cancel heq); omega
      · next hs =>
        split at heq
        · next hi =>
          split at heq
          · omega
          · have h2 := @length_glue_gt d (glue d name sfx) (digits j) (digits_ne_nil _)
            rw [← heq] at h2; omega
        · next hi =>
          split at heq
          · omega
          · have := digits_injective (glue_cancel heq); omega
  rcases Nat.lt_trichotomy i j with hlt | heq | hgt
  · exact absurd h (key i j hlt)
  · exact heq
  · exact absurd h.symm (key j i hgt)

/-! ### the loop -/

theorem goU_fresh {c : Nat → Str} {tk : List Str} {fuel k : Nat} {u : Str}
    (h : goU c tk fuel k = some u) : u ∉ tk := by
  induction fuel generalizing k with
  | zero => simp [goU] at h
  | succ n ih =>
    simp only [goU] at h
    split at h
    · exact ih h
    · next hc =>
      cases h
      simpa using hc

/-- the result is one of the candidates, and every earlier candidate is taken -/
theorem goU_first {c : Nat → Str} {tk : List Str} {fuel k : Nat} {u : Str}
    (h : goU c tk fuel k = some u) : ∃ m, u = c (k + m) ∧ ∀ i, i < m → c (k + i) ∈ tk := by
  induction fuel generalizing k with
  | zero => simp [goU] at h
  | succ n ih =>
    simp only [goU] at h
    split at h
    · next hc =>
      obtain ⟨m, hm, hall⟩ := ih h
      refine ⟨m + 1, by rw [hm]; congr 1; omega, ?_⟩
      intro i hi
      cases i with
      | zero => simpa using hc
      | succ i => have := hall i (by omega); rwa [show k + 1 + i = k + (i + 1) by omega] at this
    · cases h
      exact ⟨0, rfl, by intro i hi; omega⟩

theorem goU_none {c : Nat → Str} {tk : List Str} {fuel k : Nat}
    (h : goU c tk fuel k = none) : ∀ i, i < fuel → c (k + i) ∈ tk := by
  induction fuel generalizing k with
  | zero => intro i hi; omega
  | succ n ih =>
    simp only [goU] at h
    split at h
    · next hc =>
      intro i hi
      cases i with
      | zero => simpa using hc
      | succ i => have := ih h i (by omega); rwa [show k + 1 + i = k + (i + 1) by omega] at this
    · cases h

/-- pigeonhole: an injective candidate sequence cannot have its first `|tk|+1` members all in `tk` -/
theorem goU_fuel {c : Nat → Str} (hinj : ∀ i j, c i = c j → i = j) (tk : List Str) :
    goU c tk (tk.length + 1) 0 ≠ none := by
  intro h
  have hall := goU_none h
  have hnd : ((List.range (tk.length + 1)).map c).Nodup := by
    have hr : (List.range (tk.length + 1)).Pairwise (· ≠ ·) := List.nodup_range
    exact List.Pairwise.map c (fun a b hab hc => hab (hinj a b hc)) hr
  have hsub : (List.range (tk.length + 1)).map c ⊆ tk := by
    intro x hx
    obtain ⟨i, hi, rfl⟩ := List.mem_map.mp hx
    have := hall i (List.mem_range.mp hi)
    simpa using this
  have := hnd.length_le_of_subset hsub
  simp only [List.length_map, List.length_range] at this
  omega

/-! ### association-list lemmas -/

theorem find_some {l : List Entry} {p : Str} {e : Entry} (h : find l p = some e) : e.path = p ∧ e ∈ l := by
  unfold find at h
  have h1 := List.find?_some h
  have h2 := List.mem_of_find?_eq_some h
  exact ⟨by simpa using h1, h2⟩

theorem find_none {l : List Entry} {p : Str} : find l p = none ↔ p ∉ l.map (·.path) := by
  unfold find
  rw [List.find?_eq_none]
  constructor
  · intro h hp
    obtain ⟨e, he, rfl⟩ := List.mem_map.mp hp
    exact h e he (by simp)
  · intro h e he hp
    exact h (List.mem_map.mpr ⟨e, he, by simpa using hp⟩)

theorem find_append_of_some {l : List Entry} {p : Str} {e : Entry} (x : List Entry) (h : find l p = some e) :
    find (l ++ x) p = some e := by
  unfold find at *
  rw [List.find?_append, h]; rfl

theorem find_append_of_none {l : List Entry} {p : Str} (x : Entry) (h : find l p = none) :
    find (l ++ [x]) p = if x.path = p then some x else none := by
  unfold find at *
  rw [List.find?_append, h]
  simp only [Option.none_or, List.find?_cons, List.find?_nil]
  split <;> simp_all

theorem upd_id (p : Str) (l : List Entry) : upd p (fun e => e) l = l := by
  induction l with
  | nil => rfl
  | cons e es ih => simp only [upd, ih]; split <;> rfl

theorem upd_upd {p : Str} {f g : Entry → Entry} (hg : ∀ e, e.path = p → (g e).path = p) (l : List Entry) :
    upd p f (upd p g l) = upd p (fun e => f (g e)) l := by
  induction l with
  | nil => rfl
  | cons e es ih =>
    simp only [upd]
    split
    · next h => simp only [upd, hg e h, if_true]
    · next h => simp only [upd, h, if_false, ih]

theorem upd_congr {p : Str} {f g : Entry → Entry} (h : ∀ e, e.path = p → f e = g e) (l : List Entry) :
    upd p f l = upd p g l := by
  induction l with
  | nil => rfl
  | cons e es ih =>
    simp only [upd]
    split
    · next he => rw [h e he]
    · rw [ih]

theorem map_path_upd {p : Str} {f : Entry → Entry} (hf : ∀ e, e.path = p → (f e).path = p) (l : List Entry) :
    (upd p f l).map (·.path) = l.map (·.path) := by
  induction l with
  | nil => rfl
  | cons e es ih =>
    simp only [upd]
    split
    · next h => simp only [List.map_cons, hf e h, h]
    · simp only [List.map_cons, ih]

theorem map_oid_upd {p : Str} {f : Entry → Entry} (hf : ∀ e, e.path = p → (f e).oid = e.oid) (l : List Entry) :
    (upd p f l).map (·.oid) = l.map (·.oid) := by
  induction l with
  | nil => rfl
  | cons e es ih =>
    simp only [upd]
    split
    · next h => simp only [List.map_cons, hf e h]
    · simp only [List.map_cons, ih]

theorem find_upd_same {p : Str} {f : Entry → Entry} (hf : ∀ e, e.path = p → (f e).path = p)
    {l : List Entry} {e : Entry} (h : find l p = some e) : find (upd p f l) p = some (f e) := by
  induction l with
  | nil => simp [find] at h
  | cons x xs ih =>
    unfold find at h ih ⊢
    simp only [upd]
    by_cases hx : x.path = p
    · simp only [hx, if_true, List.find?_cons, hf x hx, beq_self_eq_true]
      simp only [List.find?_cons, hx, beq_self_eq_true] at h
      cases h; rfl
    · simp only [hx, if_false, List.find?_cons]
      have : (x.path == p) = false := by simpa using hx
      simp only [List.find?_cons, this] at h ⊢
      exact ih h

theorem find_upd_other {p q : Str} {f : Entry → Entry} (hf : ∀ e, e.path = q → (f e).path = q)
    (hpq : q ≠ p) (l : List Entry) : find (upd q f l) p = find l p := by
  induction l with
  | nil => rfl
  | cons x xs ih =>
    unfold find at ih ⊢
    simp only [upd]
    by_cases hx : x.path = q
    · simp only [hx, if_true, List.find?_cons, hf x hx]
      have : (q == p) = false := by simpa using hpq
      simp only [this]
    · simp only [hx, if_false, List.find?_cons, ih]

theorem find_erase_other {p q : Str} (hpq : q ≠ p) (l : List Entry) : find (erase q l) p = find l p := by
  induction l with
  | nil => rfl
  | cons x xs ih =>
    unfold find erase at ih ⊢
    simp only [List.filter_cons]
    by_cases hx : x.path = q
    · have h1 : (x.path != q) = false := by simp [hx]
      have h2 : (x.path == p) = false := by simpa [hx] using hpq
      simp only [h1, List.find?_cons, h2]
      exact ih
    · have h1 : (x.path != q) = true := by simpa using hx
      simp only [h1, if_true, List.find?_cons, ih]

theorem upd_of_find {p : Str} (f : Entry → Entry) {l : List Entry} {r0 : Entry} (h : find l p = some r0) :
    upd p f l = upd p (fun _ => f r0) l := by
  induction l with
  | nil => rfl
  | cons x xs ih =>
    unfold find at h ih
    simp only [upd]
    by_cases hx : x.path = p
    · simp only [List.find?_cons, hx, beq_self_eq_true] at h
      cases h
      simp only [hx, if_true]
    · have : (x.path == p) = false := by simpa using hx
      simp only [List.find?_cons, this] at h
      simp only [hx, if_false, ih h]

theorem find_erase_same (p : Str) (l : List Entry) : find (erase p l) p = none := by
  rw [find_none]
  intro h
  obtain ⟨e, he, hp⟩ := List.mem_map.mp h
  unfold erase at he
  have := (List.mem_filter.mp he).2
  simp at this
  exact this hp

/-! ### the shape of one step: update in place, insert under a new key, or delete -/

def PreservesKey (p : Str) (f : Entry → Entry) : Prop :=
  ∀ e, e.path = p → (f e).path = p ∧ (f e).oid = e.oid

inductive Shape (s s' : State) (op : Op) : Prop
  | upd (p : Str) (f : Entry → Entry) (hf : PreservesKey p f) (hr : s'.refs = upd p f s.refs)
      (hn : s'.next = s.next)
  | ins (e : Entry) (hnone : find s.refs e.path = none) (ho : e.oid = s.next)
      (hr : s'.refs = s.refs ++ [e]) (hn : s'.next = s.next + 1)
  | del (p : Str) (hd : deletes s op = some p) (hr : s'.refs = erase p s.refs) (hn : s'.next = s.next)

theorem Shape.same {s s' : State} {op : Op} (hr : s'.refs = s.refs) (hn : s'.next = s.next) : Shape s s' op :=
  .upd [] (fun e => e) (fun _ h => ⟨h, rfl⟩) (by rw [upd_id]; exact hr) hn

theorem addRef_shape (cfg : Cfg) (s : State) (ref : Str) (resolved : Bool) (op : Op) :
    Shape s (addRef cfg s ref resolved).1 op := by
  unfold addRef
  split
  · exact .same rfl rfl
  · exact .same rfl rfl
  · split
    · exact .same rfl rfl
    · next hnone =>
      split
      · exact .same rfl rfl
      · dsimp only
        split
        · exact .same rfl rfl
        · exact .ins _ hnone rfl rfl rfl

theorem add_shape (cfg : Cfg) (s : State) (path : List Str) (orig : Str) (cls sg uq : Bool)
    (sfx : Option Str) (ld : Bool) (op : Op) :
    Shape s (add cfg s path orig cls sg uq sfx ld).1 op := by
  unfold add
  dsimp only
  split
  · next r0 hfind =>
    have hp := (find_some hfind).1
    split
    · exact .upd (joinPath path) (fun e => { e with loaded := e.loaded || ld }) (fun e h => ⟨h, rfl⟩) rfl rfl
    · split
      · exact .upd (joinPath path) (fun e => { e with loaded := e.loaded || ld }) (fun e h => ⟨h, rfl⟩) rfl rfl
      · next name dup _ =>
        refine .upd (joinPath path)
          (fun e => { path := r0.path, name := name, orig := orig, dup := dup, loaded := ld, oid := e.oid })
          (fun e _ => ⟨hp, rfl⟩) ?_ rfl
        dsimp only
        rw [upd_upd (g := fun e => { e with loaded := e.loaded || ld }) (fun e h => h)]
        rw [upd_of_find _ hfind]
        rw [upd_of_find (fun e => { path := r0.path, name := name, orig := orig, dup := dup, loaded := ld, oid := e.oid }) hfind]
  · next hnone =>
    split
    · exact .same rfl rfl
    · exact .ins _ hnone rfl rfl rfl

theorem step_shape (cfg : Cfg) (s : State) (op : Op) : Shape s (step cfg s op).1 op := by
  cases op with
  | addRef ref resolved => exact addRef_shape cfg s ref resolved _
  | add path orig cls sg uq sfx ld => exact add_shape cfg s path orig cls sg uq sfx ld _
  | get ref =>
    simp only [step]
    split
    · exact .same rfl rfl
    · exact .same rfl rfl
    · split <;> exact .same rfl rfl
  | delete ref =>
    simp only [step]
    split
    · exact .same rfl rfl
    · exact .same rfl rfl
    · next p h => exact .del p (by simp only [deletes, h]) rfl rfl
  | setRoot root => exact .same rfl rfl

theorem step_excl (cfg : Cfg) (s : State) (op : Op) : (step cfg s op).1.excl = s.excl := by
  cases op with
  | addRef ref resolved =>
    simp only [step]; unfold addRef
    repeat' split
    all_goals rfl
  | add path orig cls sg uq sfx ld =>
    simp only [step]; unfold add
    dsimp only
    repeat' split
    all_goals rfl
  | get ref =>
    simp only [step]
    repeat' split
    all_goals rfl
  | delete ref =>
    simp only [step]
    repeat' split
    all_goals rfl
  | setRoot root => rfl

/-! ### invariants -/

/-- at most one entry per path -/
def PathsOk (s : State) : Prop := (s.refs.map (·.path)).Nodup

/-- object identities are unique and below the allocation counter -/
def OidsOk (s : State) : Prop := (∀ e ∈ s.refs, e.oid < s.next) ∧ (s.refs.map (·.oid)).Nodup

theorem shape_paths {s s' : State} {op : Op} (h : Shape s s' op) (hs : PathsOk s) : PathsOk s' := by
  unfold PathsOk at *
  cases h with
  | upd p f hf hr hn => rw [hr, map_path_upd (fun e he => (hf e he).1)]; exact hs
  | ins e hnone ho hr hn =>
    rw [hr, List.map_append, List.nodup_append]
    refine ⟨hs, by simp, ?_⟩
    intro a ha b hb
    simp only [List.map_cons, List.map_nil, List.mem_singleton] at hb
    subst hb
    intro hab
    subst hab
    exact (find_none.mp hnone) ha
  | del p hd hr hn =>
    rw [hr]
    unfold erase
    exact List.Nodup.sublist (List.Sublist.map _ List.filter_sublist) hs

theorem shape_oids {s s' : State} {op : Op} (h : Shape s s' op) (hs : OidsOk s) : OidsOk s' := by
  unfold OidsOk at *
  obtain ⟨hlt, hnd⟩ := hs
  have hlt' : ∀ o ∈ s.refs.map (·.oid), o < s.next := by
    intro o ho
    obtain ⟨e, he, rfl⟩ := List.mem_map.mp ho
    exact hlt e he
  cases h with
  | upd p f hf hr hn =>
    have hm := map_oid_upd (fun e he => (hf e he).2) s.refs
    refine ⟨?_, by rw [hr, hm]; exact hnd⟩
    intro e he
    rw [hn]
    apply hlt'
    rw [← hm, ← hr]
    exact List.mem_map.mpr ⟨e, he, rfl⟩
  | ins e hnone ho hr hn =>
    refine ⟨?_, ?_⟩
    · intro x hx
      rw [hr, List.mem_append] at hx
      rw [hn]
      rcases hx with hx | hx
      · have := hlt x hx; omega
      · simp only [List.mem_singleton] at hx; subst hx; omega
    · rw [hr, List.map_append, List.nodup_append]
      refine ⟨hnd, by simp, ?_⟩
      intro a ha b hb
      simp only [List.map_cons, List.map_nil, List.mem_singleton] at hb
      subst hb
      have := hlt' a ha
      omega
  | del p hd hr hn =>
    refine ⟨?_, ?_⟩
    · intro e he
      rw [hr] at he
      unfold erase at he
      rw [hn]
      exact hlt e (List.mem_filter.mp he).1
    · rw [hr]
      unfold erase
      exact List.Nodup.sublist (List.Sublist.map _ List.filter_sublist) hnd

theorem run_invariant (P : State → Prop) (cfg : Cfg) (hstep : ∀ s op, P s → P (step cfg s op).1)
    (s : State) (ops : List Op) (h : P s) : P (run cfg s ops) := by
  induction ops generalizing s with
  | nil => exact h
  | cons op ops ih => exact ih _ (hstep s op h)

/-! ### a stored entry keeps its place and identity until it is deleted -/

theorem step_keeps {cfg : Cfg} {s : State} {op : Op} {p : Str} {e : Entry}
    (h : find s.refs p = some e) (hd : deletes s op ≠ some p) :
    ∃ e', find (step cfg s op).1.refs p = some e' ∧ e'.oid = e.oid := by
  have hep := (find_some h).1
  cases step_shape cfg s op with
  | upd q f hf hr hn =>
    rw [hr]
    by_cases hq : q = p
    · subst hq
      exact ⟨f e, find_upd_same (fun x hx => (hf x hx).1) h, (hf e hep).2⟩
    · exact ⟨e, by rw [find_upd_other (fun x hx => (hf x hx).1) hq]; exact h, rfl⟩
  | ins x hnone ho hr hn =>
    rw [hr]
    exact ⟨e, find_append_of_some _ h, rfl⟩
  | del q hq hr hn =>
    rw [hr]
    have : q ≠ p := by intro hqp; subst hqp; exact hd hq
    exact ⟨e, by rw [find_erase_other this]; exact h, rfl⟩

theorem run_keeps (cfg : Cfg) (p : Str) : ∀ (ops : List Op) (s : State) (e : Entry),
    find s.refs p = some e → noDeleteOf cfg p s ops = true →
    ∃ e', find (run cfg s ops).refs p = some e' ∧ e'.oid = e.oid := by
  intro ops
  induction ops with
  | nil => intro s e h _; exact ⟨e, h, rfl⟩
  | cons op ops ih =>
    intro s e h hnd
    simp only [noDeleteOf, Bool.and_eq_true, bne_iff_ne, ne_eq] at hnd
    obtain ⟨e1, h1, ho1⟩ := step_keeps (cfg := cfg) h hnd.1
    obtain ⟨e2, h2, ho2⟩ := ih _ e1 h1 hnd.2
    exact ⟨e2, h2, by rw [ho2, ho1]⟩

/-- the `Reference` an operation returns is the one stored under its own path -/
theorem step_ref_stored {cfg : Cfg} {s : State} {op : Op} {e : Entry}
    (h : (step cfg s op).2 = .ref e) : find (step cfg s op).1.refs e.path = some e := by
  cases op with
  | addRef ref resolved =>
    simp only [step] at h ⊢
    unfold addRef at h ⊢
    split at h
    · cases h
    · cases h
    · next path hres =>
      split at h
      · next e0 hf =>
        cases h
        rw [(find_some hf).1]; exact hf
      · next hnone =>
        split at h
        · cases h
        · next lastCh hl =>
          dsimp only at h ⊢
          split at h
          · cases h
          · next name d hg =>
            cases h
            dsimp only
            rw [find_append_of_none _ hnone]
            simp
  | add path orig cls sg uq sfx ld =>
    simp only [step] at h ⊢
    unfold add at h ⊢
    dsimp only at h ⊢
    split at h
    · next r0 hf =>
      have hp := (find_some hf).1
      have h1 := find_upd_same (p := joinPath path) (f := fun e => { e with loaded := e.loaded || ld })
        (fun e h => h) hf
      split at h
      · next hc =>
        simp only [hc, if_true]
        cases h
        dsimp only
        simp only [hp] at h1 ⊢; exact h1
      · next hc =>
        split at h
        · cases h
        · next name dup hg =>
          cases h
          simp only [hc, Bool.false_eq_true, if_false]
          have h2 := find_upd_same (p := joinPath path)
            (f := fun _ => ({ path := r0.path, name := name, orig := orig, dup := dup, loaded := ld, oid := r0.oid } : Entry))
            (fun _ _ => hp) h1
          simp only [hp] at h2 ⊢; exact h2
    · next hnone =>
      split at h
      · cases h
      · next name dup hg =>
        cases h
        dsimp only
        rw [find_append_of_none _ hnone]
        simp
  | get ref =>
    simp only [step] at h ⊢
    split at h
    · cases h
    · cases h
    · next p hres =>
      split at h
      · next e0 hf =>
        cases h
        rw [(find_some hf).1]; exact hf
      · cases h
  | delete ref =>
    simp only [step] at h
    split at h <;> cases h
  | setRoot root => simp only [step] at h; cases h

end Dcg.Proofs.Resolver
