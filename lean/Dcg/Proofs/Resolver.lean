import Dcg.Model.Resolver
/-! Helper lemmas for C06 (name registry). Property theorems are in `Dcg/Props/C06.lean`. -/
namespace Dcg.Proofs.Resolver
open Dcg.Model.Resolver

/-! ### decimal numerals and the candidate sequence of `_get_unique_name` -/

theorem digits_injective {a b : Nat} (h : digits a = digits b) : a = b := by
  have ha := @Nat.ofDigitChars_ten_toDigits a
  have hb := @Nat.ofDigitChars_ten_toDigits b
  unfold digits at h
  rw [h] at ha
  omega

theorem digits_ne_nil (k : Nat) : digits k ≠ [] := Nat.toDigits_ne_nil

theorem glue_cancel {d a b b' : Str} (h : glue d a b = glue d a b') : b = b' := by
  unfold glue at h
  split at h
  · exact h
  · exact List.append_cancel_left h

theorem length_glue_gt {d a b : Str} (hb : b ≠ []) : a.length < (glue d a b).length := by
  unfold glue
  have : 0 < b.length := List.length_pos_iff.mpr hb
  split
  · next h => subst h; simpa using this
  · simp only [List.length_append]; omega

theorem glue_ne_nil {d a b : Str} (hb : b ≠ []) : glue d a b ≠ [] := by
  intro h
  have := @length_glue_gt d a b hb
  rw [h] at this
  simp at this

/-- the candidates tried by the loop are pairwise different -/
theorem cand_injective (sfx d name : Str) {i j : Nat} (h : cand sfx d name i = cand sfx d name j) :
    i = j := by
  -- lengths separate the three layers; digits separate within a layer
  have key : ∀ i j, i < j → cand sfx d name i ≠ cand sfx d name j := by
    intro i j hij heq
    match i, j with
    | 0, j + 1 =>
      simp only [cand] at heq
      split at heq
      · have := @length_glue_gt d name (digits (j + 1)) (digits_ne_nil _)
        rw [← heq] at this; omega
      · next hs =>
        split at heq
        · have := @length_glue_gt d name sfx hs
          rw [← heq] at this; omega
        · have h1 := @length_glue_gt d name sfx hs
          have h2 := @length_glue_gt d (glue d name sfx) (digits j) (digits_ne_nil _)
          rw [← heq] at h2; omega
    | i + 1, j + 1 =>
      simp only [cand] at heq
      split at heq
      · have := digits_injective (glue_cancel heq); omega
      · next hs =>
        split at heq
        · next hi =>
          split at heq
          · omega
          · have h2 := @length_glue_gt d (glue d name sfx) (digits j) (digits_ne_nil _)
            rw [← heq] at h2; omega
        · next hi =>
          split at heq
          · omega
          · have := digits_injective (glue_cancel heq); omega
  rcases Nat.lt_trichotomy i j with hlt | heq | hgt
  · exact absurd h (key i j hlt)
  · exact heq
  · exact absurd h.symm (key j i hgt)

/-! ### the loop -/

theorem goU_fresh {c : Nat → Str} {tk : List Str} {fuel k : Nat} {u : Str}
    (h : goU c tk fuel k = some u) : u ∉ tk := by
  induction fuel generalizing k with
  | zero => simp [goU] at h
  | succ n ih =>
    simp only [goU] at h
    split at h
    · exact ih h
    · next hc =>
      cases h
      simpa using hc

/-- the result is one of the candidates, and every earlier candidate is taken -/
theorem goU_first {c : Nat → Str} {tk : List Str} {fuel k : Nat} {u : Str}
    (h : goU c tk fuel k = some u) : ∃ m, u = c (k + m) ∧ ∀ i, i < m → c (k + i) ∈ tk := by
  induction fuel generalizing k with
  | zero => simp [goU] at h
  | succ n ih =>
    simp only [goU] at h
    split at h
    · next hc =>
      obtain ⟨m, hm, hall⟩ := ih h
      refine ⟨m + 1, by rw [hm]; congr 1; omega, ?_⟩
      intro i hi
      cases i with
      | zero => simpa using hc
      | succ i => have := hall i (by omega); rwa [show k + 1 + i = k + (i + 1) by omega] at this
    · cases h
      exact ⟨0, rfl, by intro i hi; omega⟩

theorem goU_none {c : Nat → Str} {tk : List Str} {fuel k : Nat}
    (h : goU c tk fuel k = none) : ∀ i, i < fuel → c (k + i) ∈ tk := by
  induction fuel generalizing k with
  | zero => intro i hi; omega
  | succ n ih =>
    simp only [goU] at h
    split at h
    · next hc =>
      intro i hi
      cases i with
      | zero => simpa using hc
      | succ i => have := ih h i (by omega); rwa [show k + 1 + i = k + (i + 1) by omega] at this
    · cases h

/-- pigeonhole: an injective candidate sequence cannot have its first `|tk|+1` members all in `tk` -/
theorem goU_fuel {c : Nat → Str} (hinj : ∀ i j, c i = c j → i = j) (tk : List Str) :
    goU c tk (tk.length + 1) 0 ≠ none := by
  intro h
  have hall := goU_none h
  have hnd : ((List.range (tk.length + 1)).map c).Nodup := by
    have hr : (List.range (tk.length + 1)).Pairwise (· ≠ ·) := List.nodup_range
    exact List.Pairwise.map c (fun a b hab hc => hab (hinj a b hc)) hr
  have hsub : (List.range (tk.length + 1)).map c ⊆ tk := by
    intro x hx
    obtain ⟨i, hi, rfl⟩ := List.mem_map.mp hx
    have := hall i (List.mem_range.mp hi)
    simpa using this
  have := hnd.length_le_of_subset hsub
  simp only [List.length_map, List.length_range] at this
  omega

/-! ### association-list lemmas -/

theorem find_some {l : List Entry} {p : Str} {e : Entry} (h : find l p = some e) : e.path = p ∧ e ∈ l := by
  unfold find at h
  have h1 := List.find?_some h
  have h2 := List.mem_of_find?_eq_some h
  exact ⟨by simpa using h1, h2⟩

theorem find_none {l : List Entry} {p : Str} : find l p = none ↔ p ∉ l.map (·.path) := by
  unfold find
  rw [List.find?_eq_none]
  constructor
  · intro h hp
    obtain ⟨e, he, rfl⟩ := List.mem_map.mp hp
    exact h e he (by simp)
  · intro h e he hp
    exact h (List.mem_map.mpr ⟨e, he, by simpa using hp⟩)

theorem find_append_of_some {l : List Entry} {p : Str} {e : Entry} (x : List Entry) (h : find l p = some e) :
    find (l ++ x) p = some e := by
  unfold find at *
  rw [List.find?_append, h]; rfl

theorem find_append_of_none {l : List Entry} {p : Str} (x : Entry) (h : find l p = none) :
    find (l ++ [x]) p = if x.path = p then some x else none := by
  unfold find at *
  rw [List.find?_append, h]
  simp only [Option.none_or, List.find?_cons, List.find?_nil]
  split <;> simp_all

theorem upd_id (p : Str) (l : List Entry) : upd p (fun e => e) l = l := by
  induction l with
  | nil => rfl
  | cons e es ih => simp only [upd, ih]; split <;> rfl

theorem upd_upd {p : Str} {f g : Entry → Entry} (hg : ∀ e, e.path = p → (g e).path = p) (l : List Entry) :
    upd p f (upd p g l) = upd p (fun e => f (g e)) l := by
  induction l with
  | nil => rfl
  | cons e es ih =>
    simp only [upd]
    split
    · next h => simp only [upd, hg e h, if_true]
    · next h => simp only [upd, h, if_false, ih]

theorem upd_congr {p : Str} {f g : Entry → Entry} (h : ∀ e, e.path = p → f e = g e) (l : List Entry) :
    upd p f l = upd p g l := by
  induction l with
  | nil => rfl
  | cons e es ih =>
    simp only [upd]
    split
    · next he => rw [h e he]
    · rw [ih]

theorem map_path_upd {p : Str} {f : Entry → Entry} (hf : ∀ e, e.path = p → (f e).path = p) (l : List Entry) :
    (upd p f l).map (·.path) = l.map (·.path) := by
  induction l with
  | nil => rfl
  | cons e es ih =>
    simp only [upd]
    split
    · next h => simp only [List.map_cons, hf e h, h]
    · simp only [List.map_cons, ih]

theorem map_oid_upd {p : Str} {f : Entry → Entry} (hf : ∀ e, e.path = p → (f e).oid = e.oid) (l : List Entry) :
    (upd p f l).map (·.oid) = l.map (·.oid) := by
  induction l with
  | nil => rfl
  | cons e es ih =>
    simp only [upd]
    split
    · next h => simp only [List.map_cons, hf e h]
    · simp only [List.map_cons, ih]

theorem find_upd_same {p : Str} {f : Entry → Entry} (hf : ∀ e, e.path = p → (f e).path = p)
    {l : List Entry} {e : Entry} (h : find l p = some e) : find (upd p f l) p = some (f e) := by
  induction l with
  | nil => simp [find] at h
  | cons x xs ih =>
    unfold find at h ih ⊢
    simp only [upd]
    by_cases hx : x.path = p
    · simp only [hx, if_true, List.find?_cons, hf x hx, beq_self_eq_true]
      simp only [List.find?_cons, hx, beq_self_eq_true] at h
      cases h; rfl
    · simp only [hx, if_false, List.find?_cons]
      have : (x.path == p) = false := by simpa using hx
      simp only [List.find?_cons, this] at h ⊢
      exact ih h

theorem find_upd_other {p q : Str} {f : Entry → Entry} (hf : ∀ e, e.path = q → (f e).path = q)
    (hpq : q ≠ p) (l : List Entry) : find (upd q f l) p = find l p := by
  induction l with
  | nil => rfl
  | cons x xs ih =>
    unfold find at ih ⊢
    simp only [upd]
    by_cases hx : x.path = q
    · simp only [hx, if_true, List.find?_cons, hf x hx]
      have : (q == p) = false := by simpa using hpq
      simp only [this]
    · simp only [hx, if_false, List.find?_cons, ih]

theorem find_erase_other {p q : Str} (hpq : q ≠ p) (l : List Entry) : find (erase q l) p = find l p := by
  induction l with
  | nil => rfl
  | cons x xs ih =>
    unfold find erase at ih ⊢
    simp only [List.filter_cons]
    by_cases hx : x.path = q
    · have h1 : (x.path != q) = false := by simp [hx]
      have h2 : (x.path == p) = false := by simpa [hx] using hpq
      simp only [h1, List.find?_cons, h2]
      exact ih
    · have h1 : (x.path != q) = true := by simpa using hx
      simp only [h1, if_true, List.find?_cons, ih]

theorem upd_of_find {p : Str} (f : Entry → Entry) {l : List Entry} {r0 : Entry} (h : find l p = some r0) :
    upd p f l = upd p (fun _ => f r0) l := by
  induction l with
  | nil => rfl
  | cons x xs ih =>
    unfold find at h ih
    simp only [upd]
    by_cases hx : x.path = p
    · simp only [List.find?_cons, hx, beq_self_eq_true] at h
      cases h
      simp only [hx, if_true]
    · have : (x.path == p) = false := by simpa using hx
      simp only [List.find?_cons, this] at h
      simp only [hx, if_false, ih h]

theorem find_erase_same (p : Str) (l : List Entry) : find (erase p l) p = none := by
  rw [find_none]
  intro h
  obtain ⟨e, he, hp⟩ := List.mem_map.mp h
  unfold erase at he
  have := (List.mem_filter.mp he).2
  simp at this
  exact this hp

/-! ### the shape of one step: update in place, insert under a new key, or delete -/

def PreservesKey (p : Str) (f : Entry → Entry) : Prop :=
  ∀ e, e.path = p → (f e).path = p ∧ (f e).oid = e.oid

inductive Shape (s s' : State) (op : Op) : Prop
  | upd (p : Str) (f : Entry → Entry) (hf : PreservesKey p f) (hr : s'.refs = upd p f s.refs)
      (hn : s'.next = s.next)
  | ins (e : Entry) (hnone : find s.refs e.path = none) (ho : e.oid = s.next)
      (hr : s'.refs = s.refs ++ [e]) (hn : s'.next = s.next + 1)
  | del (p : Str) (hd : deletes s op = some p) (hr : s'.refs = erase p s.refs) (hn : s'.next = s.next)

theorem Shape.same {s s' : State} {op : Op} (hr : s'.refs = s.refs) (hn : s'.next = s.next) : Shape s s' op :=
  .upd [] (fun e => e) (fun _ h => ⟨h, rfl⟩) (by rw [upd_id]; exact hr) hn

theorem addRef_shape (cfg : Cfg) (s : State) (ref : Str) (resolved : Bool) (op : Op) :
    Shape s (addRef cfg s ref resolved).1 op := by
  unfold addRef
  split
  · exact .same rfl rfl
  · exact .same rfl rfl
  · split
    · exact .same rfl rfl
    · next hnone =>
      split
      · exact .same rfl rfl
      · dsimp only
        split
        · exact .same rfl rfl
        · exact .ins _ hnone rfl rfl rfl

theorem add_shape (cfg : Cfg) (s : State) (path : List Str) (orig : Str) (cls sg uq : Bool)
    (sfx : Option Str) (ld : Bool) (op : Op) :
    Shape s (add cfg s path orig cls sg uq sfx ld).1 op := by
  unfold add
  dsimp only
  split
  · next r0 hfind =>
    have hp := (find_some hfind).1
    split
    · exact .upd (joinPath path) (fun e => { e with loaded := e.loaded || ld }) (fun e h => ⟨h, rfl⟩) rfl rfl
    · split
      · exact .upd (joinPath path) (fun e => { e with loaded := e.loaded || ld }) (fun e h => ⟨h, rfl⟩) rfl rfl
      · next name dup _ =>
        refine .upd (joinPath path)
          (fun e => { path := r0.path, name := name, orig := orig, dup := dup, loaded := ld, oid := e.oid })
          (fun e _ => ⟨hp, rfl⟩) ?_ rfl
        dsimp only
        rw [upd_upd (g := fun e => { e with loaded := e.loaded || ld }) (fun e h => h)]
        rw [upd_of_find _ hfind]
        rw [upd_of_find (fun e => { path := r0.path, name := name, orig := orig, dup := dup, loaded := ld, oid := e.oid }) hfind]
  · next hnone =>
    split
    · exact .same rfl rfl
    · exact .ins _ hnone rfl rfl rfl

theorem step_shape (cfg : Cfg) (s : State) (op : Op) : Shape s (step cfg s op).1 op := by
  cases op with
  | addRef ref resolved => exact addRef_shape cfg s ref resolved _
  | add path orig cls sg uq sfx ld => exact add_shape cfg s path orig cls sg uq sfx ld _
  | get ref =>
    simp only [step]
    split
    · exact .same rfl rfl
    · exact .same rfl rfl
    · split <;> exact .same rfl rfl
  | delete ref =>
    simp only [step]
    split
    · exact .same rfl rfl
    · exact .same rfl rfl
    · next p h => exact .del p (by simp only [deletes, h]) rfl rfl
  | setRoot root => exact .same rfl rfl

theorem step_excl (cfg : Cfg) (s : State) (op : Op) : (step cfg s op).1.excl = s.excl := by
  cases op with
  | addRef ref resolved =>
    simp only [step]; unfold addRef
    repeat' split
    all_goals rfl
  | add path orig cls sg uq sfx ld =>
    simp only [step]; unfold add
    dsimp only
    repeat' split
    all_goals rfl
  | get ref =>
    simp only [step]
    repeat' split
    all_goals rfl
  | delete ref =>
    simp only [step]
    repeat' split
    all_goals rfl
  | setRoot root => rfl

/-! ### invariants -/

/-- at most one entry per path -/
def PathsOk (s : State) : Prop := (s.refs.map (·.path)).Nodup

/-- object identities are unique and below the allocation counter -/
def OidsOk (s : State) : Prop := (∀ e ∈ s.refs, e.oid < s.next) ∧ (s.refs.map (·.oid)).Nodup

theorem shape_paths {s s' : State} {op : Op} (h : Shape s s' op) (hs : PathsOk s) : PathsOk s' := by
  unfold PathsOk at *
  cases h with
  | upd p f hf hr hn => rw [hr, map_path_upd (fun e he => (hf e he).1)]; exact hs
  | ins e hnone ho hr hn =>
    rw [hr, List.map_append, List.nodup_append]
    refine ⟨hs, by simp, ?_⟩
    intro a ha b hb
    simp only [List.map_cons, List.map_nil, List.mem_singleton] at hb
    subst hb
    intro hab
    subst hab
    exact (find_none.mp hnone) ha
  | del p hd hr hn =>
    rw [hr]
    unfold erase
    exact List.Nodup.sublist (List.Sublist.map _ List.filter_sublist) hs

theorem shape_oids {s s' : State} {op : Op} (h : Shape s s' op) (hs : OidsOk s) : OidsOk s' := by
  unfold OidsOk at *
  obtain ⟨hlt, hnd⟩ := hs
  have hlt' : ∀ o ∈ s.refs.map (·.oid), o < s.next := by
    intro o ho
    obtain ⟨e, he, rfl⟩ := List.mem_map.mp ho
    exact hlt e he
  cases h with
  | upd p f hf hr hn =>
    have hm := map_oid_upd (fun e he => (hf e he).2) s.refs
    refine ⟨?_, by rw [hr, hm]; exact hnd⟩
    intro e he
    rw [hn]
    apply hlt'
    rw [← hm, ← hr]
    exact List.mem_map.mpr ⟨e, he, rfl⟩
  | ins e hnone ho hr hn =>
    refine ⟨?_, ?_⟩
    · intro x hx
      rw [hr, List.mem_append] at hx
      rw [hn]
      rcases hx with hx | hx
      · have := hlt x hx; omega
      · simp only [List.mem_singleton] at hx; subst hx; omega
    · rw [hr, List.map_append, List.nodup_append]
      refine ⟨hnd, by simp, ?_⟩
      intro a ha b hb
      simp only [List.map_cons, List.map_nil, List.mem_singleton] at hb
      subst hb
      have := hlt' a ha
      omega
  | del p hd hr hn =>
    refine ⟨?_, ?_⟩
    · intro e he
      rw [hr] at he
      unfold erase at he
      rw [hn]
      exact hlt e (List.mem_filter.mp he).1
    · rw [hr]
      unfold erase
      exact List.Nodup.sublist (List.Sublist.map _ List.filter_sublist) hnd

theorem run_invariant (P : State → Prop) (cfg : Cfg) (hstep : ∀ s op, P s → P (step cfg s op).1)
    (s : State) (ops : List Op) (h : P s) : P (run cfg s ops) := by
  induction ops generalizing s with
  | nil => exact h
  | cons op ops ih => exact ih _ (hstep s op h)

/-! ### a stored entry keeps its place and identity until it is deleted -/

theorem step_keeps {cfg : Cfg} {s : State} {op : Op} {p : Str} {e : Entry}
    (h : find s.refs p = some e) (hd : deletes s op ≠ some p) :
    ∃ e', find (step cfg s op).1.refs p = some e' ∧ e'.oid = e.oid := by
  have hep := (find_some h).1
  cases step_shape cfg s op with
  | upd q f hf hr hn =>
    rw [hr]
    by_cases hq : q = p
    · subst hq
      exact ⟨f e, find_upd_same (fun x hx => (hf x hx).1) h, (hf e hep).2⟩
    · exact ⟨e, by rw [find_upd_other (fun x hx => (hf x hx).1) hq]; exact h, rfl⟩
  | ins x hnone ho hr hn =>
    rw [hr]
    exact ⟨e, find_append_of_some _ h, rfl⟩
  | del q hq hr hn =>
    rw [hr]
    have : q ≠ p := by intro hqp; subst hqp; exact hd hq
    exact ⟨e, by rw [find_erase_other this]; exact h, rfl⟩

theorem run_keeps (cfg : Cfg) (p : Str) : ∀ (ops : List Op) (s : State) (e : Entry),
    find s.refs p = some e → noDeleteOf cfg p s ops = true →
    ∃ e', find (run cfg s ops).refs p = some e' ∧ e'.oid = e.oid := by
  intro ops
  induction ops with
  | nil => intro s e h _; exact ⟨e, h, rfl⟩
  | cons op ops ih =>
    intro s e h hnd
    simp only [noDeleteOf, Bool.and_eq_true, bne_iff_ne, ne_eq] at hnd
    obtain ⟨e1, h1, ho1⟩ := step_keeps (cfg := cfg) h hnd.1
    obtain ⟨e2, h2, ho2⟩ := ih _ e1 h1 hnd.2
    exact ⟨e2, h2, by rw [ho2, ho1]⟩

/-- the `Reference` an operation returns is the one stored under its own path -/
theorem step_ref_stored {cfg : Cfg} {s : State} {op : Op} {e : Entry}
    (h : (step cfg s op).2 = .ref e) : find (step cfg s op).1.refs e.path = some e := by
  cases op with
  | addRef ref resolved =>
    simp only [step] at h ⊢
    unfold addRef at h ⊢
    split at h
    · cases h
    · cases h
    · next path hres =>
      split at h
      · next e0 hf =>
        cases h
        rw [(find_some hf).1]; exact hf
      · next hnone =>
        split at h
        · cases h
        · next lastCh hl =>
          dsimp only at h ⊢
          split at h
          · cases h
          · next name d hg =>
            cases h
            dsimp only
            rw [find_append_of_none _ hnone]
            simp
  | add path orig cls sg uq sfx ld =>
    simp only [step] at h ⊢
    unfold add at h ⊢
    dsimp only at h ⊢
    split at h
    · next r0 hf =>
      have hp := (find_some hf).1
      have h1 := find_upd_same (p := joinPath path) (f := fun e => { e with loaded := e.loaded || ld })
        (fun e h => h) hf
      split at h
      · next hc =>
        simp only [hc, if_true]
        cases h
        dsimp only
        simp only [hp] at h1 ⊢; exact h1
      · next hc =>
        split at h
        · cases h
        · next name dup hg =>
          cases h
          simp only [hc, Bool.false_eq_true, if_false]
          have h2 := find_upd_same (p := joinPath path)
            (f := fun _ => ({ path := r0.path, name := name, orig := orig, dup := dup, loaded := ld, oid := r0.oid } : Entry))
            (fun _ _ => hp) h1
          simp only [hp] at h2 ⊢; exact h2
    · next hnone =>
      split at h
      · cases h
      · next name dup hg =>
        cases h
        dsimp only
        rw [find_append_of_none _ hnone]
        simp
  | get ref =>
    simp only [step] at h ⊢
    split at h
    · cases h
    · cases h
    · next p hres =>
      split at h
      · next e0 hf =>
        cases h
        rw [(find_some hf).1]; exact hf
      · cases h
  | delete ref =>
    simp only [step] at h
    split at h <;> cases h
  | setRoot root => simp only [step] at h; cases h

/-! ### names stay pairwise distinct along unique adds -/

/-- names are pairwise distinct and none of them is an excluded name -/
def NamesOk (s : State) : Prop :=
  (s.refs.map (·.name)).Nodup ∧ ∀ n ∈ s.refs.map (·.name), n ∉ s.excl

theorem uniqueName_not_taken {cfg : Cfg} {s : State} {name u : Str} {camel : Bool}
    (h : uniqueName cfg s name camel = some u) : u ∉ s.refs.map (·.name) ∧ u ∉ s.excl := by
  have := goU_fresh h
  unfold taken at this
  simp only [List.mem_append, not_or] at this
  exact this

theorem map_name_upd {p : Str} {f : Entry → Entry} (hf : ∀ e, e.path = p → (f e).name = e.name) (l : List Entry) :
    (upd p f l).map (·.name) = l.map (·.name) := by
  induction l with
  | nil => rfl
  | cons e es ih =>
    simp only [upd]
    split
    · next h => simp only [List.map_cons, hf e h]
    · simp only [List.map_cons, ih]

theorem mem_map_name_upd {p : Str} {r : Entry} {l : List Entry} {n : Str}
    (h : n ∈ (upd p (fun _ => r) l).map (·.name)) : n ∈ l.map (·.name) ∨ n = r.name := by
  induction l with
  | nil => simp [upd] at h
  | cons e es ih =>
    simp only [upd] at h
    split at h
    · simp only [List.map_cons, List.mem_cons] at h ⊢
      rcases h with h | h
      · exact .inr h
      · exact .inl (.inr h)
    · simp only [List.map_cons, List.mem_cons] at h ⊢
      rcases h with h | h
      · exact .inl (.inl h)
      · rcases ih h with h | h
        · exact .inl (.inr h)
        · exact .inr h

theorem nodup_upd_fresh {p : Str} {r : Entry} {l : List Entry}
    (hnd : (l.map (·.name)).Nodup) (hfresh : r.name ∉ l.map (·.name)) :
    ((upd p (fun _ => r) l).map (·.name)).Nodup := by
  induction l with
  | nil => simp [upd]
  | cons e es ih =>
    simp only [List.map_cons, List.nodup_cons, List.mem_cons, not_or] at hnd hfresh
    simp only [upd]
    split
    · simp only [List.map_cons, List.nodup_cons]
      exact ⟨hfresh.2, hnd.2⟩
    · simp only [List.map_cons, List.nodup_cons]
      refine ⟨?_, ih hnd.2 hfresh.2⟩
      intro hm
      rcases mem_map_name_upd hm with h | h
      · exact hnd.1 h
      · exact hfresh.1 h.symm

theorem splitChar_of_not_mem {d : Char} {s : Str} (h : d ∉ s) : splitChar d s = [s] := by
  induction s with
  | nil => rfl
  | cons c cs ih =>
    simp only [List.mem_cons, not_or] at h
    simp only [splitChar, ih h.2]
    have : ¬ c = d := fun hc => h.1 hc.symm
    simp only [this, if_false]

theorem dotSplit_of_no_dot (cfg : Cfg) {s : Str} (h : '.' ∉ s) : dotSplit cfg s = ([], s) := by
  unfold dotSplit
  rw [splitChar_of_not_mem h]
  rfl

/-- the name chosen by a unique add is the old name of the same entry, or fresh -/
theorem addName_unique {cfg : Cfg} {s : State} {orig : Str} {cls sg : Bool} {sfx reserved : Option Str}
    {name : Str} {dup : Option Str}
    (hu : (if cls then !orig.contains '.' else !sg) = true)
    (h : addName cfg s orig cls sg true sfx reserved = some (name, dup)) :
    reserved = some name ∨ (name ∉ s.refs.map (·.name) ∧ name ∉ s.excl) := by
  unfold addName at h
  cases cls with
  | true =>
    simp only [if_true, Bool.not_eq_true', List.contains_eq_mem, decide_eq_false_iff_not] at hu h
    unfold getClassName at h
    rw [dotSplit_of_no_dot cfg hu] at h
    dsimp only at h
    generalize (if sg = true then cfg.sing (cfg.cn orig) (singSuffixOf cfg sfx) else cfg.cn orig) = c1 at h
    simp only [if_true] at h
    by_cases hr : reserved = some c1
    · simp only [hr, if_true] at h
      cases h
      exact .inl hr
    · simp only [hr, if_false] at h
      cases hu' : uniqueName cfg s c1 true with
      | none => simp only [hu'] at h; cases h
      | some u =>
        simp only [hu', List.nil_append] at h
        cases h
        exact .inr (uniqueName_not_taken hu')
  | false =>
    simp only [Bool.false_eq_true, if_false, Bool.not_eq_true'] at hu h
    subst hu
    simp only [Bool.false_eq_true, if_false, if_true] at h
    split at h
    · cases h
    · next u hu' =>
      cases h
      exact .inr (uniqueName_not_taken hu')

theorem namesOk_upd_same {s : State} {p : Str} {f : Entry → Entry}
    (hf : ∀ e, e.path = p → (f e).name = e.name) (h : NamesOk s) :
    NamesOk { s with refs := upd p f s.refs } := by
  unfold NamesOk at *
  simp only [map_name_upd hf]
  exact h

theorem step_names {cfg : Cfg} {s : State} {op : Op} (hu : op.isUniqueAdd = true) (h : NamesOk s) :
    NamesOk (step cfg s op).1 := by
  cases op with
  | add path orig cls sg uq sfx ld =>
    simp only [Op.isUniqueAdd, Bool.and_eq_true] at hu
    obtain ⟨huq, hu⟩ := hu
    subst huq
    simp only [step]
    unfold add
    dsimp only
    have h1 := namesOk_upd_same (p := joinPath path) (f := fun e => { e with loaded := e.loaded || ld })
      (fun _ _ => rfl) h
    split
    · next r0 hfind =>
      split
      · exact h1
      · split
        · exact h1
        · next name dup hg =>
          rcases addName_unique hu hg with hres | ⟨hn1, hn2⟩
          · -- the entry keeps its own name
            cases hres
            have hf1 := find_upd_same (p := joinPath path) (f := fun e => { e with loaded := e.loaded || ld })
              (fun e h => h) hfind
            have heq := upd_of_find (p := joinPath path)
              (fun e => ({ path := r0.path, name := e.name, orig := orig, dup := dup, loaded := ld, oid := r0.oid } : Entry)) hf1
            dsimp only at heq
            rw [← heq]
            exact namesOk_upd_same (p := joinPath path)
              (f := fun e => ({ path := r0.path, name := e.name, orig := orig, dup := dup, loaded := ld, oid := r0.oid } : Entry))
              (fun _ _ => rfl) h1
          · unfold NamesOk at h1 ⊢
            dsimp only at h1 hn1 hn2 ⊢
            refine ⟨nodup_upd_fresh h1.1 hn1, ?_⟩
            intro n hn
            rcases mem_map_name_upd hn with hm | hm
            · exact h1.2 n hm
            · rw [hm]; exact hn2
    · next hnone =>
      split
      · exact h
      · next name dup hg =>
        rcases addName_unique hu hg with hres | ⟨hn1, hn2⟩
        · cases hres
        · unfold NamesOk at h ⊢
          dsimp only
          rw [List.map_append, List.nodup_append]
          refine ⟨⟨h.1, by simp, ?_⟩, ?_⟩
          · intro a ha b hb
            simp only [List.map_cons, List.map_nil, List.mem_singleton] at hb
            subst hb
            intro hab; subst hab
            exact hn1 ha
          · intro n hn
            simp only [List.mem_append, List.map_cons, List.map_nil, List.mem_singleton] at hn
            rcases hn with hn | hn
            · exact h.2 n hn
            · rw [hn]; exact hn2
  | addRef _ _ => simp [Op.isUniqueAdd] at hu
  | get _ => simp [Op.isUniqueAdd] at hu
  | delete _ => simp [Op.isUniqueAdd] at hu
  | setRoot _ => simp [Op.isUniqueAdd] at hu

/-! ### the unique-name loop always finishes within its fuel -/

theorem uniqueName_ne_none (cfg : Cfg) (s : State) (name : Str) (camel : Bool) :
    uniqueName cfg s name camel ≠ none :=
  goU_fuel (fun _ _ h => cand_injective _ _ _ h) _

theorem getClassName_ne_none (cfg : Cfg) (s : State) (name : Str) (unique : Bool) (reserved : Option Str)
    (sg : Bool) (sfx : Option Str) : getClassName cfg s name unique reserved sg sfx ≠ none := by
  unfold getClassName
  dsimp only
  generalize (if sg = true then cfg.sing (cfg.cn (dotSplit cfg name).2) (singSuffixOf cfg sfx)
    else cfg.cn (dotSplit cfg name).2) = c1
  split
  · split
    · simp
    · split
      · next h => exact absurd h (uniqueName_ne_none _ _ _ _)
      · simp
  · simp

theorem addName_ne_none (cfg : Cfg) (s : State) (orig : Str) (cls sg uq : Bool) (sfx reserved : Option Str) :
    addName cfg s orig cls sg uq sfx reserved ≠ none := by
  unfold addName
  split
  · exact getClassName_ne_none _ _ _ _ _ _ _
  · dsimp only
    split
    · simp
    · split
      · split
        · next h => exact absurd h (uniqueName_ne_none _ _ _ _)
        · simp
      · simp

theorem step_out_ne_diverges (cfg : Cfg) (s : State) (op : Op) : (step cfg s op).2 ≠ .diverges := by
  cases op with
  | addRef ref resolved =>
    simp only [step]
    unfold addRef
    split
    · simp
    · simp
    · split
      · simp
      · split
        · simp
        · dsimp only
          split
          · next h => exact absurd h (getClassName_ne_none _ _ _ _ _ _ _)
          · simp
  | add path orig cls sg uq sfx ld =>
    simp only [step]
    unfold add
    dsimp only
    split
    · split
      · simp
      · split
        · next h => exact absurd h (addName_ne_none _ _ _ _ _ _ _ _)
        · simp
    · split
      · next h => exact absurd h (addName_ne_none _ _ _ _ _ _ _ _)
      · simp
  | get ref =>
    simp only [step]
    split
    · simp
    · simp
    · split <;> simp
  | delete ref =>
    simp only [step]
    split <;> simp
  | setRoot root => simp [step]

/-! ### `resolve_ref` is idempotent on the modelled region -/

theorem splitHash_append {a b : Str} (h : '#' ∉ a) : splitHash (a ++ '#' :: b) = (a, some b) := by
  induction a with
  | nil => simp [splitHash]
  | cons c cs ih =>
    simp only [List.mem_cons, not_or] at h
    have hc : ¬ c = '#' := fun hc => h.1 hc.symm
    simp only [List.cons_append, splitHash, hc, if_false, ih h.2]

theorem splitHash_fst_no_hash (r : Str) : '#' ∉ (splitHash r).1 := by
  induction r with
  | nil => simp [splitHash]
  | cons c cs ih =>
    simp only [splitHash]
    split
    · simp
    · next hc =>
      simp only [List.mem_cons, not_or]
      exact ⟨fun h => hc h.symm, ih⟩

theorem plainRel_ne_nil {f : Str} (h : plainRel f = true) : f ≠ [] := by
  unfold plainRel at h
  simp only [Bool.and_eq_true, decide_eq_true_eq] at h
  exact h.1

/-- a string whose first character is not `#` goes to the file branch -/
theorem resolveRef_file {root : List Str} {r : Str} {c : Char} (hh : r.head? = some c) (hc : c ≠ '#') :
    resolveRef root r =
      if plainRel (splitHash r).1 then .ok ((splitHash r).1 ++ ['#'] ++ (splitHash r).2.getD []) else .unmodelled := by
  unfold resolveRef
  have : r ≠ ['#'] := by
    intro h; subst h; simp at hh; exact hc hh.symm
  simp only [this, if_false, hh, hc]

/-- a resolved path of the form `file#object` with a plain `file` resolves to itself -/
theorem resolveRef_fixed (root : List Str) {f o : Str} (hp : plainRel f = true) (hf : '#' ∉ f) :
    resolveRef root (f ++ '#' :: o) = .ok (f ++ '#' :: o) := by
  have hne := plainRel_ne_nil hp
  cases f with
  | nil => exact absurd rfl hne
  | cons c cs =>
    have hc : c ≠ '#' := by
      intro h; subst h; simp at hf
    rw [resolveRef_file (c := c) (by simp) hc, splitHash_append hf]
    simp [hp]

/-- `current_root` is empty (single document from stdin) or a plain relative file path -/
def RootOk (root : List Str) : Prop :=
  joinWith ['/'] root = [] ∨ (plainRel (joinWith ['/'] root) = true ∧ '#' ∉ joinWith ['/'] root)

theorem resolveRef_idem {root : List Str} {r p : Str} (hroot : RootOk root)
    (h : resolveRef root r = .ok p) : resolveRef root p = .ok p := by
  have h0 := h
  unfold resolveRef at h
  dsimp only at h
  by_cases h1 : r = ['#']
  · simp only [h1, if_true] at h
    cases h
    rcases hroot with hj | ⟨hp, hh⟩
    · rw [hj]; unfold resolveRef; simp [hj]
    · exact resolveRef_fixed root hp hh
  · simp only [h1, if_false] at h
    cases r with
    | nil => simp at h
    | cons c t =>
      simp only [List.head?_cons, List.tail_cons] at h
      by_cases hc : c = '#'
      · subst hc
        simp only [if_true] at h
        by_cases ht : t.head? = some '/'
        · simp only [ht, if_true] at h
          by_cases hu : isUrl (joinWith ['/'] root) = true
          · simp only [hu, if_true] at h; cases h
          · simp only [hu] at h
            cases h
            rcases hroot with hj | ⟨hp, hh⟩
            · rw [hj] at h0 ⊢; simpa using h0
            · exact resolveRef_fixed root hp hh
        · simp only [ht, if_false] at h; cases h
      · simp only [hc, if_false] at h
        split at h
        · next hp =>
          cases h
          have := resolveRef_fixed root (o := (splitHash (c :: t)).2.getD []) hp (splitHash_fst_no_hash _)
          simpa using this
        · cases h

/-- a reference that begins with `#` raises in the model (the lookup in the empty id table) exactly when it is
an id reference in the sense of `isIdRef` -/
theorem resolveRef_hash_raised_iff (root : List Str) (t : Str) :
    resolveRef root ('#' :: t) = .raised ↔ isIdRef ('#' :: t) = true := by
  unfold resolveRef
  cases t with
  | nil => simp [isIdRef]
  | cons c u =>
    have hne : ('#' :: c :: u : Str) ≠ ['#'] := by simp
    by_cases hc : c = '/'
    · subst hc
      by_cases hu : isUrl (joinWith ['/'] root) = true <;> simp [isIdRef, hu]
    · simp [isIdRef, hc]

/-- a reference that does not begin with `#` is never an id reference -/
theorem isIdRef_head {r : Str} (h : isIdRef r = true) : r.head? = some '#' := by
  cases r with
  | nil => simp [isIdRef] at h
  | cons c t =>
    cases t with
    | nil => simp [isIdRef] at h
    | cons d u =>
      by_cases hc : c = '#'
      · simp [hc]
      · exfalso
        unfold isIdRef at h
        split at h
        · next heq => simp only [List.cons.injEq] at heq; exact hc heq.1
        · cases h

/-! ### the per-module rename pass -/

/-- adding under a path that is not registered yet: a fresh entry is appended -/
theorem add_new_unique {cfg : Cfg} {s s' : State} {p : Str} {cls : Str} {e : Entry}
    (hnone : find s.refs (joinPath [p]) = none) (hdot : '.' ∉ cls)
    (h : add cfg s [p] cls true false true none false = (s', .ref e)) :
    s'.refs = s.refs ++ [e] ∧ s'.excl = s.excl ∧ e.path = joinPath [p] ∧
      e.name ∉ s.refs.map (·.name) ∧ e.name ∉ s.excl := by
  unfold add at h
  dsimp only at h
  simp only [hnone] at h
  split at h
  · cases h
  · next name dup hg =>
    have hu : (if true then !cls.contains '.' else !false) = true := by simpa using hdot
    rcases addName_unique hu hg with hres | ⟨h1, h2⟩
    · cases hres
    · cases h
      exact ⟨rfl, rfl, rfl, h1, h2⟩

theorem modPass1_spec (cfg : Cfg) : ∀ (ms : List ModModel) (s : State) (names : List Str),
    NamesOk s →
    (s.refs.map (·.path) ++ ms.map (fun m => joinPath [m.path])).Nodup →
    (∀ m ∈ ms, '.' ∉ m.cls) →
    modPass1 cfg s ms = some names →
    names.length = ms.length ∧ names.Nodup ∧ ∀ n ∈ names, n ∉ s.refs.map (·.name) ∧ n ∉ s.excl := by
  intro ms
  induction ms with
  | nil =>
    intro s names _ _ _ h
    simp only [modPass1, Option.some.injEq] at h
    subst h
    simp
  | cons m ms ih =>
    intro s names hok hnd hdot h
    simp only [modPass1] at h
    have hnone : find s.refs (joinPath [m.path]) = none := by
      rw [find_none]
      intro hm
      rw [List.map_cons, List.nodup_append] at hnd
      exact hnd.2.2 _ hm _ (List.mem_cons_self) rfl
    split at h
    · next s' e hadd =>
      obtain ⟨hr, hx, hpath, hn1, hn2⟩ := add_new_unique hnone (hdot m List.mem_cons_self) hadd
      have hok' : NamesOk s' := by
        have := step_names (cfg := cfg) (s := s)
          (op := .add [m.path] m.cls true false true none false) (by simpa [Op.isUniqueAdd] using hdot m List.mem_cons_self) hok
        simp only [step, hadd] at this
        exact this
      cases hrest : modPass1 cfg s' ms with
      | none => simp [hrest] at h
      | some rest =>
        simp only [hrest, Option.map_some, Option.some.injEq] at h
        subst h
        have hnd' : (s'.refs.map (·.path) ++ ms.map (fun m => joinPath [m.path])).Nodup := by
          rw [hr, List.map_append, List.map_cons, List.map_nil, hpath, List.append_assoc]
          simpa using hnd
        obtain ⟨hl, hrn, hrf⟩ := ih s' rest hok' hnd' (fun m' hm' => hdot m' (List.mem_cons_of_mem _ hm')) hrest
        refine ⟨by simp [hl], ?_, ?_⟩
        · rw [List.nodup_cons]
          refine ⟨?_, hrn⟩
          intro hmem
          have := (hrf _ hmem).1
          rw [hr] at this
          simp at this
        · intro n hn
          rcases List.mem_cons.mp hn with hn | hn
          · subst hn; exact ⟨hn1, hn2⟩
          · have := hrf n hn
            rw [hr, hx] at this
            simp only [List.map_append, List.mem_append, not_or] at this
            exact ⟨this.1.1, this.2⟩
    · cases h

theorem modPass2_spec : ∀ (todo : List (Str × Str)) (done keys : List Str) (out : List Str),
    done.Nodup → (todo.map (·.1)).Nodup → (∀ x ∈ done, x ∉ todo.map (·.1)) →
    (∀ x, x ∈ keys ↔ x ∈ done ∨ x ∈ todo.map (·.1)) →
    modPass2 done todo keys = some out → out.Nodup ∧ out.length = done.length + todo.length := by
  intro todo
  induction todo with
  | nil =>
    intro done keys out hd _ _ _ h
    simp only [modPass2, Option.some.injEq] at h
    subst h
    exact ⟨(List.reverse_perm done).nodup_iff.mpr hd, by simp⟩
  | cons cd rest ih =>
    intro done keys out hd ht hdis hkeys h
    obtain ⟨c, d⟩ := cd
    simp only [List.map_cons, List.nodup_cons] at ht
    simp only [modPass2] at h
    split at h
    · next hcond =>
      split at h
      · next hc =>
        have hdk : d ∉ keys := hcond.2
        have hd1 : d ∉ done := fun hm => hdk ((hkeys d).mpr (.inl hm))
        have hd2 : d ∉ rest.map (·.1) := fun hm => hdk ((hkeys d).mpr (.inr (List.mem_cons_of_mem _ hm)))
        have hdc : d ≠ c := fun hm => hdk (hm ▸ hc)
        have := ih (d :: done) (d :: keys.filter (· ≠ c)) out
          (List.nodup_cons.mpr ⟨hd1, hd⟩) ht.2
          (by
            intro x hx
            rcases List.mem_cons.mp hx with hx | hx
            · subst hx; exact hd2
            · exact fun hm => hdis x hx (List.mem_cons_of_mem _ hm))
          (by
            intro x
            simp only [List.mem_cons, List.mem_filter, decide_eq_true_eq, ne_eq]
            constructor
            · rintro (hx | ⟨hx, hxc⟩)
              · exact .inl (.inl hx)
              · rcases (hkeys x).mp hx with hx | hx
                · exact .inl (.inr hx)
                · rcases List.mem_cons.mp hx with hx | hx
                  · exact absurd hx hxc
                  · exact .inr hx
            · rintro ((hx | hx) | hx)
              · exact .inl hx
              · refine .inr ⟨(hkeys x).mpr (.inl hx), ?_⟩
                intro hxc; subst hxc
                exact hdis x hx List.mem_cons_self
              · refine .inr ⟨(hkeys x).mpr (.inr (List.mem_cons_of_mem _ hx)), ?_⟩
                intro hxc; subst hxc
                exact ht.1 hx)
          h
        exact ⟨this.1, by rw [this.2]; simp; omega⟩
      · cases h
    · have := ih (c :: done) keys out
        (List.nodup_cons.mpr ⟨fun hm => hdis c hm List.mem_cons_self, hd⟩) ht.2
        (by
          intro x hx
          rcases List.mem_cons.mp hx with hx | hx
          · subst hx; exact ht.1
          · exact fun hm => hdis x hx (List.mem_cons_of_mem _ hm))
        (by
          intro x
          rw [hkeys x]
          simp only [List.map_cons, List.mem_cons]
          constructor
          · rintro (hx | hx | hx)
            · exact .inl (.inr hx)
            · exact .inl (.inl hx)
            · exact .inr hx
          · rintro ((hx | hx) | hx)
            · exact .inr (.inl hx)
            · exact .inl hx
            · exact .inr (.inr hx))
        h
      exact ⟨this.1, by rw [this.2]; simp; omega⟩

theorem map_fst_zip_of_length_eq {α β : Type} : ∀ (a : List α) (b : List β), a.length = b.length →
    (a.zip b).map (·.1) = a
  | [], _, _ => by simp
  | x :: xs, [], h => by simp at h
  | x :: xs, y :: ys, h => by
    simp only [List.zip_cons_cons, List.map_cons, List.cons.injEq, true_and]
    exact map_fst_zip_of_length_eq xs ys (by simpa using h)

/-- the whole pass yields pairwise distinct class names -/
theorem replaceDuplicateNameInModule_nodup (cfg : Cfg) (imported : List Str) (ms : List ModModel) (out : List Str)
    (hpaths : (ms.map (fun m => joinPath [m.path])).Nodup) (hdot : ∀ m ∈ ms, '.' ∉ m.cls)
    (h : replaceDuplicateNameInModule cfg imported ms = some out) :
    out.Nodup ∧ out.length = ms.length := by
  unfold replaceDuplicateNameInModule at h
  split at h
  · cases h
  · next names h1 =>
    have hok : NamesOk (State.init imported) := by
      unfold NamesOk State.init; simp
    obtain ⟨hl, hnd, _⟩ := modPass1_spec _ ms (State.init imported) names hok
      (by simpa [State.init] using hpaths) hdot h1
    have hz := map_fst_zip_of_length_eq names (ms.map (·.dupCls)) (by simp [hl])
    have := modPass2_spec (names.zip (ms.map (·.dupCls))) [] names out (by simp)
      (by rw [hz]; exact hnd) (by simp) (by intro x; rw [hz]; simp) h
    refine ⟨this.1, ?_⟩
    rw [this.2]
    simp [hl]

end Dcg.Proofs.Resolver
