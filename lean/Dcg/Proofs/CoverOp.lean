import Dcg.Proofs.Cover
import Dcg.Proofs.HintOp
/-
Dcg.Proofs.CoverOp — what `imports_cover_hint` of C02 needs for the `|` spelling
(`use_union_operator=True`):

* `flagsAgree_operator`: at every node the `is_optional` flag the code's string rendering leaves is
  the flag of the structural rendering (from `typeHint_operator`, C13);
* `operator_imports_no_typing_union`: with the operator, `DataType.all_imports` yields no import
  NAMED `Optional` or `Union` unless a node of the tree carries it as its own `import_`
  (`ouFree`); `fieldImports_operator_no_typing_union` the same for the field level
  (`DataModelFieldBase.imports` appends `IMPORT_OPTIONAL` only `and not use_union_operator`).
-/
namespace Dcg.Proofs.CoverOp
open Dcg.Model.Types Dcg.Model.Imports Dcg.Model.HintExpr Dcg.Proofs.Cover Dcg.Proofs.HintOp
open Dcg.Sem.Typing hiding Str sNone sComma sPipe

/-- the flags agree, operator spelling -/
theorem flagsAgree_operator (o : Opts) (ho : o.unionOp = true) : ∀ t, wfTree t = true → flagsAgree o t = true := by
  apply DT.ind
  intro a key kids ihk ihl hw
  have hself := (typeHint_operator o ho (.mk a key kids) hw).1
  simp only [wfTree, Bool.and_eq_true] at hw
  obtain ⟨⟨hat, hwk⟩, hwl⟩ := hw
  simp only [flagsAgree, Bool.and_eq_true, beq_iff_eq]
  refine ⟨⟨?_, ?_⟩, ?_⟩
  · simp only [flagE, Dcg.Model.Imports.flagAfter]; rw [hself]
  · cases key with
    | none => rfl
    | some k => simp only [flagsAgreeO]; simp only [wfTreeO] at hwk; exact ihk k rfl hwk
  · clear hself hwk ihk hat
    induction kids with
    | nil => rfl
    | cons c cs ihc =>
      simp only [wfTreeL, Bool.and_eq_true] at hwl
      simp only [flagsAgreeL, Bool.and_eq_true]
      exact ⟨ihl c (List.mem_cons_self ..) hwl.1, ihc (fun x hx => ihl x (List.mem_cons_of_mem _ hx)) hwl.2⟩

/-! ### no `Optional` / `Union` import under the operator -/

/-- the name is `Optional` or `Union` -/
def ouName (n : Str) : Bool := n == sOptional || n == sUnion

mutual
/-- no node of the tree (dict keys included) carries an own `import_` named `Optional` / `Union` -/
def ouFree : DT → Bool
  | .mk a key kids => (match a.imp with | some i => !ouName i.name | none => true) && ouFreeO key && ouFreeL kids
def ouFreeO : Option DT → Bool
  | none => true
  | some k => ouFree k
def ouFreeL : List DT → Bool
  | [] => true
  | t :: ts => ouFree t && ouFreeL ts
end

theorem condTable_operator (o : Opts) (ho : o.unionOp = true) (a : Attrs) (opt : Bool) (n : Nat) :
    ∀ p ∈ condTable o a opt n, p.1 = true → ouName p.2.name = false := by
  obtain ⟨u, s, g⟩ := o
  simp only at ho; subst ho
  intro p hp h1
  cases s <;> cases g <;>
    simp only [condTable, Bool.not_true, Bool.and_false, Bool.not_false, List.cons_append, List.nil_append,
      if_true, if_false, Bool.false_eq_true, List.mem_cons, List.not_mem_nil, or_false] at hp <;>
    rcases hp with rfl | rfl | rfl | rfl | rfl | rfl <;> first | (cases h1; done) | rfl | skip
  all_goals first | rfl | (rcases hp with rfl | rfl | rfl | rfl | rfl | rfl <;> first | (cases h1; done) | rfl)

theorem nodeImports_operator (o : Opts) (ho : o.unionOp = true) (a : Attrs) (opt : Bool) (n : Nat) (ks : List Imp)
    (ha : (match a.imp with | some i => !ouName i.name | none => true) = true)
    (hk : ∀ i ∈ ks, ouName i.name = false) : ∀ i ∈ nodeImports o a opt n ks, ouName i.name = false := by
  intro i hi
  simp only [nodeImports, List.mem_append, List.mem_map, List.mem_filter] at hi
  rcases hi with (hi | ⟨p, ⟨hp, hc⟩, rfl⟩) | hi
  · cases himp : a.imp with
    | none => rw [himp] at hi; cases hi
    | some j =>
      rw [himp] at hi ha
      simp only [Option.toList_some, List.mem_singleton] at hi
      subst hi
      simpa using ha
  · simp only [Bool.and_eq_true] at hc
    exact condTable_operator o ho a opt n p hp hc.1
  · exact hk i hi

theorem ownImports_operator (fl : DT → Bool) (o : Opts) (ho : o.unionOp = true) : ∀ t, ouFree t = true → ∀ r,
    ∀ i ∈ ownImportsWith fl o r t, ouName i.name = false := by
  apply DT.ind
  intro a key kids ihk _ hf r
  simp only [ouFree, Bool.and_eq_true] at hf
  simp only [ownImportsWith]
  apply nodeImports_operator o ho a _ _ _ hf.1.1
  cases key with
  | none => intro i hi; simp [ownImportsWithO] at hi
  | some k =>
    simp only [ownImportsWithO]
    exact ihk k rfl (by simpa [ouFreeO] using hf.1.2) _

/-- `use_union_operator=True`: `DataType.all_imports` yields no import named `Optional` / `Union`
(unless a node carries one as its own `import_`), whatever flags `type_hint` left -/
theorem operator_imports_no_typing_union (fl : DT → Bool) (o : Opts) (ho : o.unionOp = true) :
    ∀ t, ouFree t = true → ∀ r, ∀ i ∈ allImportsWith fl o r t, ouName i.name = false := by
  apply DT.ind
  intro a key kids _ ihl hf r i hi
  simp only [allImportsWith, List.mem_append] at hi
  rcases hi with hi | hi
  · have hkids : ouFreeL kids = true := by
      simp only [ouFree, Bool.and_eq_true] at hf; exact hf.2
    clear hf
    generalize (r && a.ty.isEmpty) = r' at hi
    induction kids with
    | nil => simp [allImportsWithL] at hi
    | cons c cs ihc =>
      simp only [ouFreeL, Bool.and_eq_true] at hkids
      simp only [allImportsWithL, List.mem_append] at hi
      rcases hi with hi | hi
      · exact ihl c (List.mem_cons_self ..) hkids.1 r' i hi
      · exact ihc (fun x hx => ihl x (List.mem_cons_of_mem _ hx)) hkids.2 hi
  · exact ownImports_operator fl o ho (.mk a key kids) hf r i hi

/-- the field level: `DataModelFieldBase.imports` adds `IMPORT_OPTIONAL` only without the operator -/
theorem fieldImports_operator_no_typing_union (o : Opts) (ho : o.unionOp = true) (fb : FieldBits) (t : DT)
    (hf : ouFree t = true) : ∀ i ∈ fieldImports o fb t, ouName i.name = false := by
  intro i hi
  simp only [fieldImports, ho, Bool.not_true, Bool.and_false, Bool.false_and, if_false, Bool.false_eq_true,
    ite_self, List.append_nil, List.mem_filter] at hi
  exact operator_imports_no_typing_union _ o ho t hf true i hi.1

end Dcg.Proofs.CoverOp
