import Dcg.Proofs.Types
/-
Dcg.Proofs.TypesOp — the `|` spelling (`use_union_operator=True`) of `_remove_none_from_union`,
`get_optional_type` and `DataType.type_hint`, character level.

`re.split(r"\s*\|\s*", text)` does not count brackets: the parts are the stretches of text between
the `|`s at ANY depth.  `pcs e acc` computes these parts structurally for the printed form of an
expression (`acc` = the text of the part that is still open on the left); `splitPipe_print` proves
that the character loop returns exactly them, `pcs_join` that re-joining them with `" | "` gives the
text back, and `pcs_noNone` that no part other than the last one is the text `None` when every
nested `a | b | None` has its `None` last — which is how `type_hint` writes them.
-/
namespace Dcg.Proofs.TypesOp
open Dcg.Model.Types Dcg.Model.HintExpr Dcg.Proofs.Cover Dcg.Proofs.Types
open Dcg.Sem.Typing hiding Str sNone sComma sPipe

/-! ### the splitter passes over text without `|` -/

theorem splitPipeAux_plain : ∀ (m : Str), m ≠ [] → '|' ∉ m → m.getLast?.all (fun c => !isSpace c) = true →
    ∀ (b cur ws : Str), splitPipeAux (m ++ b) false cur ws = splitPipeAux b false (cur ++ ws ++ m) [] := by
  intro m
  induction m with
  | nil => intro h; exact absurd rfl h
  | cons c m' ih =>
    intro _ hp hl b cur ws
    have hc : c ≠ '|' := fun h => hp (by simp [h])
    cases m' with
    | nil =>
      have hs : isSpace c = false := by simpa using hl
      simp [splitPipeAux, hc, hs]
    | cons c' r =>
      have hp' : '|' ∉ c' :: r := fun h => hp (List.mem_cons_of_mem _ h)
      have hl' : (c' :: r).getLast?.all (fun c => !isSpace c) = true := by
        simpa [List.getLast?_cons_cons] using hl
      show splitPipeAux (c :: ((c' :: r) ++ b)) false cur ws = _
      rw [splitPipeAux]
      simp only [hc, if_false, Bool.false_eq_true]
      split
      · rw [ih (by simp) hp' hl' b cur (ws ++ [c])]; simp
      · rw [ih (by simp) hp' hl' b (cur ++ ws ++ [c]) []]; simp

/-- directly after a `|` and its blanks, a text that starts with a non-blank is read as from the start -/
theorem splitPipeAux_skip (s : Str) (h : s.head?.all (fun c => !isSpace c) = true) :
    splitPipeAux s true [] [] = splitPipeAux s false [] [] := by
  cases s with
  | nil => rfl
  | cons c cs =>
    have hs : isSpace c = false := by simpa using h
    simp [splitPipeAux, hs]

/-- reading `" | "` closes the current part -/
theorem splitPipeAux_sep (rest cur : Str) :
    splitPipeAux (sPipe ++ rest) false cur [] = cur :: splitPipeAux rest true [] [] := by
  have h1 : isSpace ' ' = true := by decide
  simp [sPipe, splitPipeAux, h1]

/-- reading `", "` keeps the current part open -/
theorem splitPipeAux_comma (rest cur : Str) :
    splitPipeAux (sComma ++ rest) false cur [] = splitPipeAux rest false (cur ++ [',']) [' '] := by
  have h1 : isSpace ' ' = true := by decide
  have h2 : isSpace ',' = false := by decide
  simp [sComma, splitPipeAux, h1, h2]

/-! ### expressions of the `|` spelling -/

def isBor : TExpr → Bool
  | .bor _ => true
  | _ => false

mutual
/-- well-formed hint expressions, all spellings: plain names; a subscription has arguments (only
`Union[]`, which the typing spelling writes for a union of `None`s, has none); a `|` union has at
least two alternatives, none of them itself a `|` union (it is flat), and `None` only as the last.
Contains the expressions of the `Union[…]` spelling (`wfB_of_wfU`). -/
def wfB : TExpr → Bool
  | .atom s => plainTok s
  | .app h args => plainTok h && (h == sUnion || !args.isEmpty) && wfBL args
  | .bor args => decide (2 ≤ args.length) && wfBL args && args.all (fun e => !isBor e) &&
      args.dropLast.all (fun e => !isNoneE e)
def wfBL : List TExpr → Bool
  | [] => true
  | e :: es => wfB e && wfBL es
end

theorem wfBL_mem {es : List TExpr} (h : wfBL es = true) : ∀ e ∈ es, wfB e = true := by
  induction es with
  | nil => intro e he; cases he
  | cons a l ih =>
    simp only [wfBL, Bool.and_eq_true] at h
    intro e he
    cases he with
    | head => exact h.1
    | tail _ h' => exact ih h.2 e h'

theorem wfBL_of_mem {es : List TExpr} (h : ∀ e ∈ es, wfB e = true) : wfBL es = true := by
  induction es with
  | nil => rfl
  | cons a l ih =>
    simp only [wfBL, Bool.and_eq_true]
    exact ⟨h a (List.mem_cons_self ..), ih (fun e he => h e (List.mem_cons_of_mem _ he))⟩

theorem wfBL_append (a b : List TExpr) : wfBL (a ++ b) = (wfBL a && wfBL b) := by
  induction a with
  | nil => simp [wfBL]
  | cons x l ih => simp [wfBL, ih, Bool.and_assoc]

/-- a unit (not a `|` union) starts with a character of a plain name -/
theorem print_unit_head (e : TExpr) (hw : wfB e = true) (hu : isBor e = false) :
    (print e).head?.all (fun c => !isSpace c) = true := by
  cases e with
  | atom s => simp only [wfB] at hw; rw [print_atom]; exact (plainTok_parts s hw).2.2.1
  | app h args =>
    simp only [wfB, Bool.and_eq_true] at hw
    obtain ⟨hne, _, hh, _⟩ := plainTok_parts h hw.1.1
    rw [print_app]
    cases h with
    | nil => exact absurd rfl hne
    | cons c cs => simpa using hh
  | bor args => simp [isBor] at hu

/-! ### the parts of a printed expression -/

mutual
/-- the closed parts of `acc ++ print e` and its last (open) part -/
def pcs : TExpr → Str → List Str × Str
  | .atom s, acc => ([], acc ++ s)
  | .app h args, acc => ((pcsA args (acc ++ h ++ ['['])).1, (pcsA args (acc ++ h ++ ['['])).2 ++ [']'])
  | .bor args, acc => pcsB args acc
/-- … of arguments separated by `", "` -/
def pcsA : List TExpr → Str → List Str × Str
  | [], acc => ([], acc)
  | e :: es, acc => match es with
    | [] => pcs e acc
    | _ :: _ => ((pcs e acc).1 ++ (pcsA es ((pcs e acc).2 ++ sComma)).1, (pcsA es ((pcs e acc).2 ++ sComma)).2)
/-- … of alternatives separated by `" | "` -/
def pcsB : List TExpr → Str → List Str × Str
  | [], acc => ([], acc)
  | e :: es, acc => match es with
    | [] => pcs e acc
    | _ :: _ => ((pcs e acc).1 ++ (pcs e acc).2 :: (pcsB es []).1, (pcsB es []).2)
end

theorem pcsA_single (e : TExpr) (acc : Str) : pcsA [e] acc = pcs e acc := by simp [pcsA]
theorem pcsA_cons_cons (e e' : TExpr) (r : List TExpr) (acc : Str) :
    pcsA (e :: e' :: r) acc =
      ((pcs e acc).1 ++ (pcsA (e' :: r) ((pcs e acc).2 ++ sComma)).1, (pcsA (e' :: r) ((pcs e acc).2 ++ sComma)).2) := by
  simp [pcsA]
theorem pcsB_single (e : TExpr) (acc : Str) : pcsB [e] acc = pcs e acc := by simp [pcsB]
theorem pcsB_cons_cons (e e' : TExpr) (r : List TExpr) (acc : Str) :
    pcsB (e :: e' :: r) acc = ((pcs e acc).1 ++ (pcs e acc).2 :: (pcsB (e' :: r) []).1, (pcsB (e' :: r) []).2) := by
  simp [pcsB]

/-- the statement of the pass lemma for one expression -/
def Pass (e : TExpr) : Prop :=
  ∀ (b cur ws : Str), splitPipeAux (print e ++ b) false cur ws =
    (pcs e (cur ++ ws)).1 ++ splitPipeAux b false (pcs e (cur ++ ws)).2 []

theorem passA : ∀ (e : TExpr) (es : List TExpr), (∀ a ∈ e :: es, Pass a) → ∀ (b cur ws : Str),
    splitPipeAux (printL Dcg.Sem.Typing.sComma (e :: es) ++ b) false cur ws =
      (pcsA (e :: es) (cur ++ ws)).1 ++ splitPipeAux b false (pcsA (e :: es) (cur ++ ws)).2 [] := by
  intro e es
  induction es generalizing e with
  | nil =>
    intro h b cur ws
    rw [printL_single, pcsA_single]
    exact h e (List.mem_cons_self ..) b cur ws
  | cons e' r ih =>
    intro h b cur ws
    rw [printL_cons_cons, pcsA_cons_cons, List.append_assoc, List.append_assoc,
      h e (List.mem_cons_self ..) _ cur ws]
    have e1 : Dcg.Sem.Typing.sComma = sComma := rfl
    rw [e1, splitPipeAux_comma]
    have := ih e' (fun a ha => h a (List.mem_cons_of_mem _ ha)) b ((pcs e (cur ++ ws)).2 ++ [',']) [' ']
    rw [e1] at this
    rw [this]
    simp [sComma, List.append_assoc]

theorem passB : ∀ (e : TExpr) (es : List TExpr), (∀ a ∈ e :: es, Pass a) →
    (∀ a ∈ es, (print a).head?.all (fun c => !isSpace c) = true ∧ print a ≠ []) → ∀ (b cur ws : Str),
    splitPipeAux (printL Dcg.Sem.Typing.sPipe (e :: es) ++ b) false cur ws =
      (pcsB (e :: es) (cur ++ ws)).1 ++ splitPipeAux b false (pcsB (e :: es) (cur ++ ws)).2 [] := by
  intro e es
  induction es generalizing e with
  | nil =>
    intro h _ b cur ws
    rw [printL_single, pcsB_single]
    exact h e (List.mem_cons_self ..) b cur ws
  | cons e' r ih =>
    intro h hh b cur ws
    rw [printL_cons_cons, pcsB_cons_cons, List.append_assoc, List.append_assoc,
      h e (List.mem_cons_self ..) _ cur ws]
    have e1 : Dcg.Sem.Typing.sPipe = sPipe := rfl
    rw [e1, splitPipeAux_sep]
    have hhead : (printL sPipe (e' :: r) ++ b).head?.all (fun c => !isSpace c) = true := by
      obtain ⟨h1, h2⟩ := hh e' (List.mem_cons_self ..)
      cases hp : print e' with
      | nil => exact absurd hp h2
      | cons c cs =>
        rw [hp] at h1
        cases r with
        | nil => rw [printL_single, hp]; simpa using h1
        | cons e'' r' => rw [printL_cons_cons, hp]; simpa using h1
    rw [splitPipeAux_skip _ hhead]
    have := ih e' (fun a ha => h a (List.mem_cons_of_mem _ ha)) (fun a ha => hh a (List.mem_cons_of_mem _ ha)) b [] []
    rw [e1] at this
    rw [this]
    simp

theorem plain_no_pipe (s : Str) (h : s.all (fun c => !special c) = true) : '|' ∉ s := by
  intro hm
  have := List.all_eq_true.mp h '|' hm
  simp [special] at this

theorem wfB_bor_parts {args : List TExpr} (hw : wfB (.bor args) = true) :
    2 ≤ args.length ∧ (∀ a ∈ args, wfB a = true) ∧ (∀ a ∈ args, isBor a = false) ∧
      (∀ a ∈ args.dropLast, isNoneE a = false) := by
  simp only [wfB, Bool.and_eq_true, decide_eq_true_eq, List.all_eq_true, Bool.not_eq_true'] at hw
  exact ⟨hw.1.1.1, wfBL_mem hw.1.1.2, hw.1.2, hw.2⟩

theorem print_unit_ne_nil (e : TExpr) (hw : wfB e = true) (hu : isBor e = false) : print e ≠ [] := by
  cases e with
  | atom s => simp only [wfB] at hw; rw [print_atom]; exact (plainTok_parts s hw).1
  | app h args => rw [print_app]; simp
  | bor args => simp [isBor] at hu

/-- the character loop of `re.split(r"\s*\|\s*")` over a printed expression yields its parts -/
theorem pass_wfB : ∀ e, wfB e = true → Pass e := by
  apply TExpr.ind
  · intro s hw b cur ws
    simp only [wfB] at hw
    obtain ⟨hne, hpl, _, hl⟩ := plainTok_parts s hw
    rw [print_atom, splitPipeAux_plain s hne (plain_no_pipe s hpl) hl]
    simp [pcs]
  · intro h args ih hw b cur ws
    simp only [wfB, Bool.and_eq_true] at hw
    obtain ⟨⟨hh, hne⟩, hargs⟩ := hw
    obtain ⟨_, hpl, _, _⟩ := plainTok_parts h hh
    rw [print_app]
    have e0 : h ++ '[' :: (printL Dcg.Sem.Typing.sComma args ++ [']']) ++ b =
        (h ++ ['[']) ++ (printL Dcg.Sem.Typing.sComma args ++ ([']'] ++ b)) := by simp
    have hp : '|' ∉ h ++ ['['] := by
      intro hm
      rcases List.mem_append.mp hm with hm | hm
      · exact plain_no_pipe h hpl hm
      · simp at hm
    rw [e0, splitPipeAux_plain (h ++ ['[']) (by simp) hp (by simp; decide)]
    cases args with
    | nil =>
      rw [printL_nil, List.nil_append, splitPipeAux_plain [']'] (by simp) (by simp) (by simp; decide)]
      simp [pcs, pcsA, List.append_assoc]
    | cons a r =>
      rw [passA a r (fun x hx => ih x hx (wfBL_mem hargs x hx))]
      rw [splitPipeAux_plain [']'] (by simp) (by simp) (by simp; decide)]
      simp [pcs, List.append_assoc]
  · intro args ih hw b cur ws
    obtain ⟨hlen, hwf, hub, _⟩ := wfB_bor_parts hw
    rw [print_bor]
    cases args with
    | nil => simp at hlen
    | cons a r =>
      rw [passB a r (fun x hx => ih x hx (hwf x hx))
        (fun x hx => ⟨print_unit_head x (hwf x (List.mem_cons_of_mem _ hx)) (hub x (List.mem_cons_of_mem _ hx)),
          print_unit_ne_nil x (hwf x (List.mem_cons_of_mem _ hx)) (hub x (List.mem_cons_of_mem _ hx))⟩)]
      simp [pcs]

/-- `re.split(r"\s*\|\s*", print e)` = the parts of `e` -/
theorem splitPipe_print (e : TExpr) (hw : wfB e = true) :
    splitPipe (print e) = (pcs e []).1 ++ [(pcs e []).2] := by
  have := pass_wfB e hw [] [] []
  simp only [List.append_nil] at this
  unfold splitPipe
  rw [this]
  simp [splitPipeAux]

/-! ### re-joining the parts gives the text back -/

theorem joinSep_snoc (sep : Str) : ∀ (L : List Str) (x : Str), L ≠ [] →
    joinSep sep (L ++ [x]) = joinSep sep L ++ sep ++ x := by
  intro L
  induction L with
  | nil => intro x h; exact absurd rfl h
  | cons a l ih =>
    intro x _
    cases l with
    | nil => simp [joinSep]
    | cons b r =>
      have := ih x (by simp)
      simp only [List.cons_append] at this ⊢
      rw [joinSep_cons_cons, this, joinSep_cons_cons]
      simp [List.append_assoc]

theorem joinSep_snoc_append (sep : Str) (I : List Str) (a x : Str) :
    joinSep sep (I ++ [a ++ x]) = joinSep sep (I ++ [a]) ++ x := by
  cases I with
  | nil => simp [joinSep]
  | cons i r => rw [joinSep_snoc sep _ _ (by simp), joinSep_snoc sep _ _ (by simp)]; simp [List.append_assoc]

/-- appending `print e` to a text whose parts are `I ++ [acc]` gives the parts `I ++ pcs e acc` -/
def Join (e : TExpr) : Prop :=
  ∀ (I : List Str) (acc : Str), joinSep sPipe (I ++ [acc]) ++ print e =
    joinSep sPipe (I ++ ((pcs e acc).1 ++ [(pcs e acc).2]))

theorem joinA : ∀ (args : List TExpr), (∀ a ∈ args, Join a) → ∀ (I : List Str) (acc : Str),
    joinSep sPipe (I ++ [acc]) ++ printL Dcg.Sem.Typing.sComma args =
      joinSep sPipe (I ++ ((pcsA args acc).1 ++ [(pcsA args acc).2])) := by
  intro args
  induction args with
  | nil => intro _ I acc; simp [printL_nil, pcsA]
  | cons e es ih =>
    intro h I acc
    cases es with
    | nil => rw [printL_single, pcsA_single]; exact h e (List.mem_cons_self ..) I acc
    | cons e' r =>
      rw [printL_cons_cons, pcsA_cons_cons, ← List.append_assoc, h e (List.mem_cons_self ..) I acc]
      have e1 : Dcg.Sem.Typing.sComma = sComma := rfl
      rw [← List.append_assoc, ← List.append_assoc, ← joinSep_snoc_append, List.append_assoc I]
      have := ih (fun a ha => h a (List.mem_cons_of_mem _ ha)) (I ++ (pcs e acc).1) ((pcs e acc).2 ++ sComma)
      rw [e1] at this ⊢
      simp only [List.append_assoc] at this ⊢
      exact this

theorem joinB : ∀ (args : List TExpr), (∀ a ∈ args, Join a) → ∀ (I : List Str) (acc : Str),
    joinSep sPipe (I ++ [acc]) ++ printL Dcg.Sem.Typing.sPipe args =
      joinSep sPipe (I ++ ((pcsB args acc).1 ++ [(pcsB args acc).2])) := by
  intro args
  induction args with
  | nil => intro _ I acc; simp [printL_nil, pcsB]
  | cons e es ih =>
    intro h I acc
    cases es with
    | nil => rw [printL_single, pcsB_single]; exact h e (List.mem_cons_self ..) I acc
    | cons e' r =>
      rw [printL_cons_cons, pcsB_cons_cons, ← List.append_assoc, h e (List.mem_cons_self ..) I acc]
      have e1 : Dcg.Sem.Typing.sPipe = sPipe := rfl
      have e2 : joinSep sPipe (I ++ ((pcs e acc).1 ++ [(pcs e acc).2])) ++ sPipe =
          joinSep sPipe ((I ++ ((pcs e acc).1 ++ [(pcs e acc).2])) ++ [[]]) := by
        rw [joinSep_snoc sPipe _ _ (by simp)]; simp
      rw [e1, ← List.append_assoc, e2]
      have := ih (fun a ha => h a (List.mem_cons_of_mem _ ha)) (I ++ ((pcs e acc).1 ++ [(pcs e acc).2])) []
      rw [e1] at this
      simp only [List.append_assoc] at this ⊢
      exact this

theorem join_all : ∀ e, Join e := by
  apply TExpr.ind
  · intro s I acc
    rw [print_atom, ← joinSep_snoc_append]; simp [pcs]
  · intro h args ih I acc
    rw [print_app]
    have e0 : joinSep sPipe (I ++ [acc]) ++ (h ++ '[' :: (printL Dcg.Sem.Typing.sComma args ++ [']'])) =
        (joinSep sPipe (I ++ [acc]) ++ (h ++ ['['])) ++ printL Dcg.Sem.Typing.sComma args ++ [']'] := by simp
    rw [e0, ← joinSep_snoc_append, joinA args ih, ← List.append_assoc I, ← joinSep_snoc_append]
    simp [pcs, List.append_assoc]
  · intro args ih I acc
    rw [print_bor, joinB args ih]; simp [pcs]

/-- `" | ".join(parts of e) = print e` -/
theorem pcs_join (e : TExpr) : joinSep sPipe ((pcs e []).1 ++ [(pcs e []).2]) = print e := by
  have := join_all e [] []
  simpa [joinSep] using this.symm

/-! ### no part except the last is the text `None` -/

/-- a part that carries a bracket or a comma (it is glued to the text around a `|` union) -/
def Mk (p : Str) : Prop := '[' ∈ p ∨ ',' ∈ p

theorem Mk_ne_none {p : Str} (h : Mk p) : p ≠ sNone := by
  intro he; subst he
  rcases h with h | h <;> simp [sNone] at h

theorem Mk_append_left {a : Str} (b : Str) (h : Mk a) : Mk (a ++ b) := by
  rcases h with h | h
  · exact Or.inl (List.mem_append_left _ h)
  · exact Or.inr (List.mem_append_left _ h)

/-- first part of `E ++ [C]` -/
def hd (E : List Str) (C : Str) : Str := match E with
  | [] => C
  | p :: _ => p

/-- what is known of the parts of `acc ++ print e` -/
def NoNone (e : TExpr) : Prop :=
  ∀ acc : Str, (acc = [] ∨ Mk acc) →
    (∀ p ∈ (pcs e acc).1, p ≠ sNone) ∧
    (Mk acc → Mk (hd (pcs e acc).1 (pcs e acc).2)) ∧
    (isBor e = false → (pcs e acc).2 = sNone → acc = [] ∧ isNoneE e = true)

theorem noNoneA : ∀ (e : TExpr) (es : List TExpr), (∀ a ∈ e :: es, NoNone a) → ∀ acc : Str, Mk acc →
    (∀ p ∈ (pcsA (e :: es) acc).1, p ≠ sNone) ∧ Mk (hd (pcsA (e :: es) acc).1 (pcsA (e :: es) acc).2) := by
  intro e es
  induction es generalizing e with
  | nil =>
    intro h acc hm
    rw [pcsA_single]
    obtain ⟨h1, h2, _⟩ := h e (List.mem_cons_self ..) acc (Or.inr hm)
    exact ⟨h1, h2 hm⟩
  | cons e' r ih =>
    intro h acc hm
    rw [pcsA_cons_cons]
    obtain ⟨h1, h2, _⟩ := h e (List.mem_cons_self ..) acc (Or.inr hm)
    have hm' : Mk ((pcs e acc).2 ++ sComma) := Or.inr (by simp [sComma])
    obtain ⟨h3, h4⟩ := ih e' (fun a ha => h a (List.mem_cons_of_mem _ ha)) _ hm'
    refine ⟨?_, ?_⟩
    · intro p hp
      rcases List.mem_append.mp hp with hp | hp
      · exact h1 p hp
      · exact h3 p hp
    · have := h2 hm
      simp only []
      cases hE : (pcs e acc).1 with
      | nil => rw [hE] at this; simpa [hd] using h4
      | cons q qs => rw [hE] at this; simpa [hd] using this

theorem noNoneB : ∀ (e : TExpr) (es : List TExpr), (∀ a ∈ e :: es, NoNone a) → (∀ a ∈ e :: es, isBor a = false) →
    (∀ a ∈ (e :: es).dropLast, isNoneE a = false) → ∀ acc : Str, (acc = [] ∨ Mk acc) →
    (∀ p ∈ (pcsB (e :: es) acc).1, p ≠ sNone) ∧ (Mk acc → Mk (hd (pcsB (e :: es) acc).1 (pcsB (e :: es) acc).2)) := by
  intro e es
  induction es generalizing e with
  | nil =>
    intro h _ _ acc hm
    rw [pcsB_single]
    obtain ⟨h1, h2, _⟩ := h e (List.mem_cons_self ..) acc hm
    exact ⟨h1, h2⟩
  | cons e' r ih =>
    intro h hu hn acc hm
    rw [pcsB_cons_cons]
    obtain ⟨h1, h2, h3⟩ := h e (List.mem_cons_self ..) acc hm
    have hne : isNoneE e = false := hn e (by simp [List.dropLast])
    have hC : (pcs e acc).2 ≠ sNone := by
      intro hc
      have := (h3 (hu e (List.mem_cons_self ..)) hc).2
      rw [hne] at this; cases this
    obtain ⟨h4, _⟩ := ih e' (fun a ha => h a (List.mem_cons_of_mem _ ha)) (fun a ha => hu a (List.mem_cons_of_mem _ ha))
      (fun a ha => hn a (by simpa [List.dropLast] using Or.inr ha)) [] (Or.inl rfl)
    refine ⟨?_, ?_⟩
    · intro p hp
      simp only [List.mem_append, List.mem_cons] at hp
      rcases hp with hp | rfl | hp
      · exact h1 p hp
      · exact hC
      · exact h4 p hp
    · intro hma
      have := h2 hma
      simp only []
      cases hE : (pcs e acc).1 with
      | nil => rw [hE] at this; simpa [hd] using this
      | cons q qs => rw [hE] at this; simpa [hd] using this

theorem noNone_wfB : ∀ e, wfB e = true → NoNone e := by
  apply TExpr.ind
  · intro s _ acc hacc
    refine ⟨by simp [pcs], ?_, ?_⟩
    · intro hm; simpa [pcs, hd] using Mk_append_left s hm
    · intro _ hc
      simp only [pcs] at hc
      rcases hacc with rfl | hm
      · simp only [List.nil_append] at hc
        exact ⟨rfl, by simp [isNoneE, hc, Dcg.Sem.Typing.sNone, sNone]⟩
      · exact absurd hc (Mk_ne_none (Mk_append_left s hm))
  · intro h args ih hw acc _
    simp only [wfB, Bool.and_eq_true] at hw
    obtain ⟨⟨_, hne⟩, hargs⟩ := hw
    cases args with
    | nil =>
      refine ⟨by simp [pcs, pcsA], ?_, ?_⟩
      · intro _
        simp only [pcs, pcsA, hd]
        exact Or.inl (by simp)
      · intro _ hc
        simp only [pcs] at hc
        have : ']' ∈ sNone := by rw [← hc]; simp
        simp [sNone] at this
    | cons a r =>
      have hm' : Mk (acc ++ h ++ ['[']) := Or.inl (by simp)
      obtain ⟨h1, h2⟩ := noNoneA a r (fun x hx => ih x hx (wfBL_mem hargs x hx)) _ hm'
      refine ⟨by simpa [pcs] using h1, ?_, ?_⟩
      · intro _
        simp only [pcs]
        cases hE : (pcsA (a :: r) (acc ++ h ++ ['['])).1 with
        | nil => rw [hE] at h2; simp only [hd] at h2 ⊢; exact Mk_append_left _ h2
        | cons q qs => rw [hE] at h2; simpa [hd] using h2
      · intro _ hc
        simp only [pcs] at hc
        have : ']' ∈ sNone := by rw [← hc]; simp
        simp [sNone] at this
  · intro args ih hw acc hacc
    obtain ⟨hlen, hwf, hub, hnn⟩ := wfB_bor_parts hw
    cases args with
    | nil => simp at hlen
    | cons a r =>
      obtain ⟨h1, h2⟩ := noNoneB a r (fun x hx => ih x hx (hwf x hx)) hub hnn acc hacc
      exact ⟨by simpa [pcs] using h1, by simpa [pcs] using h2, by intro hb; simp [isBor] at hb⟩

/-! ### `_remove_none_from_union(text, use_union_operator=True)` on a printed expression -/

/-- all parts of `print e` -/
def full (e : TExpr) : List Str := (pcs e []).1 ++ [(pcs e []).2]

theorem full_ne_nil (e : TExpr) : full e ≠ [] := by simp [full]

/-- `if not processed_parts: return NONE` / `" | ".join(processed_parts)` -/
def noneIfEmpty (L : List Str) : Str := match L with
  | [] => sNone
  | parts => joinSep sPipe parts

theorem noneIfEmpty_ne_nil {L : List Str} (h : L ≠ []) : noneIfEmpty L = joinSep sPipe L := by
  cases L with
  | nil => exact absurd rfl h
  | cons a r => rfl

theorem removeNoneB_eq (s : Str) : removeNoneB s =
    if containsSub sPipe s then noneIfEmpty ((splitPipe s).filter (· ≠ sNone)) else s := by
  unfold removeNoneB noneIfEmpty
  split <;> rfl

theorem containsSub_pipe (x y : Str) : containsSub sPipe (x ++ sPipe ++ y) = true := by
  induction x with
  | nil => simp [sPipe, containsSub]
  | cons c cs ih =>
    simp only [List.cons_append, containsSub, Bool.or_eq_true]
    exact Or.inr (by simpa using ih)

theorem filter_id_of_noNone (L : List Str) (h : ∀ p ∈ L, p ≠ sNone) : L.filter (· ≠ sNone) = L := by
  apply List.filter_eq_self.mpr
  intro p hp; simpa using h p hp

/-- a unit other than `None` has no part `None` -/
theorem full_unit_noNone (e : TExpr) (hw : wfB e = true) (hu : isBor e = false) (hn : isNoneE e = false) :
    ∀ p ∈ full e, p ≠ sNone := by
  obtain ⟨h1, _, h3⟩ := noNone_wfB e hw [] (Or.inl rfl)
  intro p hp
  simp only [full, List.mem_append, List.mem_singleton] at hp
  rcases hp with hp | rfl
  · exact h1 p hp
  · intro hc
    have := (h3 hu hc).2
    rw [hn] at this; cases this

theorem full_none (e : TExpr) (hn : isNoneE e = true) : full e = [sNone] := by
  cases e with
  | atom s =>
    simp only [isNoneE, decide_eq_true_eq] at hn
    subst hn
    simp [full, pcs, Dcg.Sem.Typing.sNone, sNone]
  | app h args => simp [isNoneE] at hn
  | bor args => simp [isNoneE] at hn

/-- a unit is left alone (`List[int | None]` keeps its inner `None`: that part reads `None]`) -/
theorem removeNoneB_unit (e : TExpr) (hw : wfB e = true) (hu : isBor e = false) :
    removeNoneB (print e) = print e := by
  cases hn : isNoneE e with
  | true =>
    have := full_none e hn
    rw [← pcs_join e]
    simp only [full] at this
    rw [this]
    decide
  | false =>
    rw [removeNoneB_eq]
    split
    · rw [splitPipe_print e hw]
      have hf := filter_id_of_noNone _ (full_unit_noNone e hw hu hn)
      simp only [full] at hf
      rw [hf, noneIfEmpty_ne_nil (by simp), pcs_join]
    · rfl

theorem joinSep_append (sep : Str) : ∀ (A B : List Str), A ≠ [] → B ≠ [] →
    joinSep sep (A ++ B) = joinSep sep A ++ sep ++ joinSep sep B := by
  intro A
  induction A with
  | nil => intro B h; exact absurd rfl h
  | cons a l ih =>
    intro B _ hB
    cases l with
    | nil =>
      cases B with
      | nil => exact absurd rfl hB
      | cons b r => simp [joinSep]
    | cons a' r =>
      have := ih B (by simp) hB
      simp only [List.cons_append] at this ⊢
      rw [joinSep_cons_cons, this, joinSep_cons_cons]
      simp [List.append_assoc]

theorem flatMap_full_ne_nil (ys : List TExpr) (h : ys ≠ []) : ys.flatMap full ≠ [] := by
  cases ys with
  | nil => exact absurd rfl h
  | cons y r =>
    simp only [List.flatMap_cons]
    intro hc
    exact full_ne_nil y (List.append_eq_nil_iff.mp hc).1

theorem join_flat : ∀ (ys : List TExpr), ys ≠ [] →
    joinSep sPipe (ys.flatMap full) = joinSep sPipe (ys.map print) := by
  intro ys
  induction ys with
  | nil => intro h; exact absurd rfl h
  | cons y r ih =>
    intro _
    cases r with
    | nil => simp [joinSep, full, pcs_join]
    | cons y' r' =>
      simp only [List.flatMap_cons, List.map_cons] at ih ⊢
      rw [joinSep_append sPipe _ _ (full_ne_nil y) (by
        intro hc; exact full_ne_nil y' (List.append_eq_nil_iff.mp hc).1), ih (by simp), joinSep_cons_cons]
      simp only [full, pcs_join, List.append_assoc]

theorem fullB_flat : ∀ (e : TExpr) (es : List TExpr),
    (pcsB (e :: es) []).1 ++ [(pcsB (e :: es) []).2] = (e :: es).flatMap full := by
  intro e es
  induction es generalizing e with
  | nil => simp [pcsB_single, full]
  | cons e' r ih =>
    rw [pcsB_cons_cons, List.flatMap_cons, ← ih e']
    simp [full, List.append_assoc]

theorem filter_flat : ∀ (xs : List TExpr), (∀ a ∈ xs, wfB a = true) → (∀ a ∈ xs, isBor a = false) →
    (xs.flatMap full).filter (· ≠ sNone) = (xs.filter (fun e => !isNoneE e)).flatMap full := by
  intro xs
  induction xs with
  | nil => intro _ _; rfl
  | cons x r ih =>
    intro hw hu
    rw [List.flatMap_cons, List.filter_append, ih (fun a ha => hw a (List.mem_cons_of_mem _ ha))
      (fun a ha => hu a (List.mem_cons_of_mem _ ha))]
    cases hn : isNoneE x with
    | true =>
      rw [full_none x hn]
      simp [hn]
    | false =>
      rw [filter_id_of_noNone _ (full_unit_noNone x (hw x (List.mem_cons_self ..)) (hu x (List.mem_cons_self ..)) hn)]
      simp [hn]

/-- MAIN LEMMA: on the printed form of an expression of the `|` spelling, the string surgery
(split at every `|`, drop the parts that read `None`, re-join) is the structural removal of the
`None` alternatives of the top-level union. -/
theorem removeNoneB_print (e : TExpr) (hw : wfB e = true) : removeNoneB (print e) = print (rmB e) := by
  cases e with
  | atom s => exact removeNoneB_unit _ hw rfl
  | app h args => exact removeNoneB_unit _ hw rfl
  | bor args =>
    obtain ⟨hlen, hwf, hub, _⟩ := wfB_bor_parts hw
    match args, hlen with
    | a :: b :: r, _ =>
      rw [removeNoneB_eq]
      have hc : containsSub sPipe (print (.bor (a :: b :: r))) = true := by
        rw [print_bor, printL_cons_cons]
        have := containsSub_pipe (print a) (printL sPipe (b :: r))
        have e1 : Dcg.Sem.Typing.sPipe = sPipe := rfl
        rw [e1]; simpa [List.append_assoc] using this
      rw [if_pos hc, splitPipe_print _ hw]
      simp only [pcs]
      rw [fullB_flat, filter_flat _ hwf hub]
      simp only [rmB]
      generalize hys : (a :: b :: r).filter (fun e => !isNoneE e) = ys
      match ys with
      | [] => simp [noneIfEmpty, mkBorE, eNone, print_atom, Dcg.Sem.Typing.sNone, sNone]
      | [p] =>
        rw [noneIfEmpty_ne_nil (flatMap_full_ne_nil _ (by simp)), join_flat _ (by simp)]
        simp [mkBorE, joinSep]
      | p :: q :: r' =>
        rw [noneIfEmpty_ne_nil (flatMap_full_ne_nil _ (by simp)), join_flat _ (by simp)]
        simp only [mkBorE]
        rw [print_bor, printL_eq_joinSep]; rfl

end Dcg.Proofs.TypesOp
