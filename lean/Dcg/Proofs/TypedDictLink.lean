import Dcg.Model.Names
import Dcg.Proofs.TypedDict
/-
The members a TypedDict model is constructed with, as `parse_object_fields` produces them: one member per
property, `name` = the sanitised identifier, `original_name` = the property name (always set there, whatever
the alias decision and `no_alias` say).
-/
namespace Dcg.Proofs.TypedDict
open Dcg.Model.Names Dcg.Model.TypedDict

/-- members of one `parse_object_fields` call (`props`: the properties, `fs`: the fold's output for them) -/
def tdOwn (props : List (List Char × Bool)) (fs : List FieldOut) : List TdField :=
  List.zipWith (fun p f => { name := some f.1.1, orig := some p.1 }) props fs

theorem tdOwn_names : ∀ (props : List (List Char × Bool)) (fs : List FieldOut), props.length = fs.length →
    (tdOwn props fs).filterMap (·.name) = fs.map (·.1.1)
  | [], [], _ => rfl
  | [], _ :: _, h => by simp at h
  | _ :: _, [], h => by simp at h
  | p :: ps, f :: fs, h => by
    have := tdOwn_names ps fs (by simpa using h)
    simp only [tdOwn] at this
    simp [tdOwn, this]

theorem tdOwn_keys : ∀ (props : List (List Char × Bool)) (fs : List FieldOut), props.length = fs.length →
    (tdOwn props fs).map TdField.key = props.map (·.1)
  | [], [], _ => rfl
  | [], _ :: _, h => by simp at h
  | _ :: _, [], h => by simp at h
  | p :: ps, f :: fs, h => by
    have := tdOwn_keys ps fs (by simpa using h)
    simp only [tdOwn] at this
    simp [tdOwn, TdField.key, this]

theorem mem_wireKeysL (bs : List TdClass) (k : List Char) :
    k ∈ wireKeysL bs ↔ ∃ b ∈ bs, k ∈ b.wireKeys := by
  induction bs with
  | nil => simp [wireKeysL]
  | cons b bs ih => simp [wireKeysL, ih]

end Dcg.Proofs.TypedDict
