import Dcg.Py.Lex
import Dcg.Model.Escape
/-
Helper lemmas for C09/C10: a table that satisfies the decidable condition `tableOK q`
makes `translate` an exact inverse of the Python lexer, wherever the literal stands.
-/
namespace Dcg.Proofs.Escape
open Dcg.Py.Lex Dcg.Model.Escape

/-- characters that may not appear unescaped in the body of a cooked `q…q` literal -/
def specials (q : Char) : List Char := [q, '\\', '\n', '\r', Char.ofNat 0]

/-- `v` is an escape sequence that the lexer decodes to exactly `k`, whatever follows it. -/
def decodesTo (v : List Char) (k : Char) : Bool :=
  match v with
  | ['\\', e] => simpleEsc.lookup e == some k
  | ['\\', 'x', h1, h2] =>
    (match hexVal h1, hexVal h2 with
     | some a, some b => mkChar ((0 * 16 + a) * 16 + b) == some k
     | _, _ => false)
  | _ => false

/-- decidable side condition on an escape table used inside `q…q` -/
def tableOK (q : Char) (t : Table) : Bool :=
  (q == '\'' || q == '"') &&
  (specials q).all (fun c => (t.lookup c).isSome) &&
  t.all (fun kv => decodesTo kv.2 kv.1)

theorem lookup_mem {t : Table} {c : Char} {v : List Char} (h : t.lookup c = some v) :
    (c, v) ∈ t := by
  induction t with
  | nil => simp at h
  | cons kv t ih =>
    obtain ⟨k, w⟩ := kv
    simp only [List.lookup] at h
    split at h
    · rename_i heq
      have : c = k := by simpa using heq
      simp at h; subst h; subst this; simp
    · exact List.mem_cons_of_mem _ (ih h)

theorem decodesTo_unit {v : List Char} {k : Char} (h : decodesTo v k = true) (rest : List Char) :
    unit (v ++ rest) = some ([k], rest) ∧ (v ++ rest).head? = some '\\' := by
  unfold decodesTo at h
  split at h
  · rename_i e
    have h' : simpleEsc.lookup e = some k := by simpa using h
    refine ⟨?_, by simp⟩
    simp [unit, escape, h']
  · rename_i h1 h2
    refine ⟨?_, by simp⟩
    split at h
    · rename_i a b ha hb
      have hk : mkChar ((0 * 16 + a) * 16 + b) = some k := by simpa using h
      have hx : simpleEsc.lookup 'x' = none := by decide
      simp [unit, escape, hx, isOct, escHex, hexN, ha, hb]
      simpa using hk
    · simp at h
  · simp at h

/-- Every character, escaped by an OK table, is read back as itself and does not look
like the closing quote. -/
theorem tr_unit {q : Char} {t : Table} (hok : tableOK q t = true) (c : Char) (rest : List Char) :
    unit (tr t c ++ rest) = some ([c], rest) ∧ (tr t c ++ rest).head? ≠ some q := by
  simp only [tableOK, Bool.and_eq_true, List.all_eq_true] at hok
  obtain ⟨⟨hq, hspec⟩, hall⟩ := hok
  have hqb : q ≠ '\\' := by
    intro h; subst h; simp at hq
  unfold tr
  cases hl : t.lookup c with
  | some v =>
    have hm := lookup_mem hl
    have hd := hall _ hm
    have := decodesTo_unit hd rest
    simp only [Option.getD_some]
    refine ⟨this.1, ?_⟩
    rw [this.2]; intro h; exact hqb (by simpa using h.symm)
  | none =>
    simp only [Option.getD_none, List.cons_append, List.nil_append, List.head?_cons]
    have hns : c ∉ specials q := by
      intro hc
      have := hspec c hc
      simp [hl] at this
    simp only [specials, List.mem_cons, List.not_mem_nil, or_false, not_or] at hns
    obtain ⟨h1, h2, h3, h4, h5⟩ := hns
    refine ⟨?_, by intro h; exact h1 (by simpa using h)⟩
    simp [unit, h2, h3, h4, h5]

/-- The body scanner, started right after the opening quote, consumes exactly the escaped
text and the closing quote, yields the original string and leaves `rest` untouched. -/
theorem scan_translate {q : Char} {t : Table} (hok : tableOK q t = true) (s rest : List Char) :
    scan q (translate t s ++ q :: rest) = some (s, rest) := by
  induction s with
  | nil => rw [scan]; simp [translate]
  | cons c s ih =>
    have hu := tr_unit hok c (translate t s ++ q :: rest)
    have hcons : translate t (c :: s) ++ q :: rest = tr t c ++ (translate t s ++ q :: rest) := by
      simp [translate]
    rw [hcons, scan, if_neg hu.2]
    split
    · rename_i h; rw [hu.1] at h; cases h
    · rename_i cs r h
      rw [hu.1] at h
      simp only [Option.some.injEq, Prod.mk.injEq] at h
      obtain ⟨rfl, rfl⟩ := h
      rw [ih]; simp

/-- Same statement for the complete literal, including the tokenizer's choice between a
short and a triple-quoted literal: what follows must not begin with another quote. -/
theorem lit_quoted {q : Char} {t : Table} (hok : tableOK q t = true) (s rest : List Char)
    (hrest : rest.head? ≠ some q) :
    lit q (quoted q t s ++ rest) = some (s, rest) := by
  have hsc := scan_translate hok s rest
  unfold quoted
  simp only [List.cons_append, List.append_assoc, List.nil_append, lit, ne_eq, not_true_eq_false,
    if_false]
  cases s with
  | nil =>
    simp only [translate, List.flatMap_nil, List.nil_append] at hsc ⊢
    cases rest with
    | nil => simpa using hsc
    | cons r0 rest' =>
      have : r0 ≠ q := by intro h; subst h; simp at hrest
      simp only [this, and_false, if_false]
      exact hsc
  | cons c s =>
    have hu := tr_unit hok c (translate t s ++ q :: rest)
    have hcons : translate t (c :: s) ++ q :: rest = tr t c ++ (translate t s ++ q :: rest) := by
      simp [translate]
    rw [hcons] at hsc ⊢
    generalize hX : tr t c ++ (translate t s ++ q :: rest) = X at *
    match X, hu, hsc with
    | [], hu, _ => simp [unit] at hu
    | [_], _, hsc => exact hsc
    | c1 :: c2 :: r2, hu, hsc =>
      have : c1 ≠ q := by intro h; subst h; simp at hu
      simp only [this, false_and, if_false]
      exact hsc


/-! ### raw literals -/

/-- characters that may stand for themselves in a raw `q…q` literal and are not table keys -/
def rawPlain (q : Char) (t : Table) (c : Char) : Bool :=
  c != q && c != '\n' && c != '\r' && c != Char.ofNat 0 && (t.lookup c).isNone

/-- every backslash is followed by a plain character; no other special character occurs -/
def rawSafe (q : Char) (t : Table) : List Char → Bool
  | [] => true
  | [c] => c != '\\' && rawPlain q t c
  | c :: e :: r =>
    if c = '\\' then (rawPlain q t e && e != '\\' || e == '\\' && (t.lookup e).isNone) && rawSafe q t r
    else rawPlain q t c && rawSafe q t (e :: r)

theorem translate_id_of_rawSafe (q : Char) (t : Table) (hb : t.lookup '\\' = none) :
    ∀ s, rawSafe q t s = true → translate t s = s := by
  intro s
  induction s using rawSafe.induct with
  | case1 => intro _; simp [translate]
  | case2 c =>
    intro h
    simp only [rawSafe, rawPlain, Bool.and_eq_true, Option.isNone_iff_eq_none] at h
    simp [translate, tr, h.2.2]
  | case3 e r ih =>
    intro h
    simp only [rawSafe, if_true, Bool.and_eq_true, Bool.or_eq_true] at h
    have he : t.lookup e = none := by
      rcases h.1 with h1 | h1
      · simp only [rawPlain, Bool.and_eq_true, Option.isNone_iff_eq_none] at h1; exact h1.1.2
      · simpa using h1.2
    have := ih h.2
    simp only [translate] at this ⊢
    simp [List.flatMap_cons, tr, hb, he, this]
  | case4 c e r hc ih =>
    intro h
    simp only [rawSafe, if_neg hc, Bool.and_eq_true] at h
    have hcl : t.lookup c = none := by
      have := h.1; simp only [rawPlain, Bool.and_eq_true, Option.isNone_iff_eq_none] at this
      exact this.2
    have := ih h.2
    simp only [translate] at this ⊢
    rw [List.flatMap_cons, this]; simp [tr, hcl]

theorem scanRaw_of_rawSafe (q : Char) (t : Table) (hq : q ≠ '\\') (rest : List Char) :
    ∀ s, rawSafe q t s = true → scanRaw q (s ++ q :: rest) = some (s, rest) := by
  intro s
  induction s using rawSafe.induct with
  | case1 => intro _; rw [scanRaw]; simp
  | case2 c =>
    intro h
    simp only [rawSafe, rawPlain, Bool.and_eq_true, bne_iff_ne, ne_eq] at h
    obtain ⟨hc, ⟨⟨⟨⟨h1, h2⟩, h3⟩, h4⟩, _⟩⟩ := h
    rw [scanRaw]
    simp only [List.cons_append, List.nil_append, List.head?_cons, Option.some.injEq, h1,
      if_false]
    have hu : unitRaw (c :: q :: rest) = some ([c], q :: rest) := by simp [unitRaw, h2, h3, h4, hc]
    split
    · rename_i hn; rw [hu] at hn; cases hn
    · rename_i cs r hs
      rw [hu] at hs; simp only [Option.some.injEq, Prod.mk.injEq] at hs
      obtain ⟨rfl, rfl⟩ := hs
      rw [scanRaw]; simp
  | case3 e r ih =>
    intro h
    simp only [rawSafe, if_true, Bool.and_eq_true, Bool.or_eq_true] at h
    have hsc := ih h.2
    have he : e ≠ Char.ofNat 0 ∧ e ≠ '\r' := by
      rcases h.1 with h1 | h1
      · simp only [rawPlain, Bool.and_eq_true, bne_iff_ne, ne_eq] at h1
        exact ⟨h1.1.1.2, h1.1.1.1.2⟩
      · have : e = '\\' := by simpa using h1.1
        subst this; decide
    rw [scanRaw]
    have hne : ('\\' : Char) ≠ q := fun h => hq h.symm
    simp only [List.cons_append, List.head?_cons, Option.some.injEq, hne, if_false]
    have hu : unitRaw ('\\' :: e :: (r ++ q :: rest)) = some (['\\', e], r ++ q :: rest) := by
      simp [unitRaw, he.1, he.2]
    split
    · rename_i hn; rw [hu] at hn; cases hn
    · rename_i cs r' hs
      rw [hu] at hs; simp only [Option.some.injEq, Prod.mk.injEq] at hs
      obtain ⟨rfl, rfl⟩ := hs
      rw [hsc]; simp
  | case4 c e r hc ih =>
    intro h
    simp only [rawSafe, if_neg hc, Bool.and_eq_true] at h
    have hsc := ih h.2
    have hp := h.1
    simp only [rawPlain, Bool.and_eq_true, bne_iff_ne, ne_eq] at hp
    obtain ⟨⟨⟨⟨h1, h2⟩, h3⟩, h4⟩, _⟩ := hp
    rw [scanRaw]
    simp only [List.cons_append, List.head?_cons, Option.some.injEq, h1, if_false]
    have hu : unitRaw (c :: e :: (r ++ q :: rest)) = some ([c], e :: (r ++ q :: rest)) := by
      simp [unitRaw, h2, h3, h4, hc]
    split
    · rename_i hn; rw [hu] at hn; cases hn
    · rename_i cs r' hs
      rw [hu] at hs; simp only [Option.some.injEq, Prod.mk.injEq] at hs
      obtain ⟨rfl, rfl⟩ := hs
      have : e :: (r ++ q :: rest) = (e :: r) ++ q :: rest := by simp
      rw [this, hsc]; simp

/-- decidable side condition for raw sites: quote is `'`/`"` and backslash is not a key -/
def rawTableOK (q : Char) (t : Table) : Bool :=
  (q == '\'' || q == '"') && (t.lookup '\\').isNone

theorem litRaw_quoted {q : Char} {t : Table} (hok : rawTableOK q t = true) (s rest : List Char)
    (hs : rawSafe q t s = true) (hrest : rest.head? ≠ some q) :
    litRaw q (quoted q t s ++ rest) = some (s, rest) := by
  simp only [rawTableOK, Bool.and_eq_true, Option.isNone_iff_eq_none] at hok
  have hq : q ≠ '\\' := by intro h; subst h; simp at hok
  have hid := translate_id_of_rawSafe q t hok.2 s hs
  have hsc := scanRaw_of_rawSafe q t hq rest s hs
  unfold quoted
  rw [hid]
  simp only [List.cons_append, List.append_assoc, List.nil_append, litRaw, ne_eq, not_true_eq_false,
    if_false]
  match s, hs, hsc with
  | [], _, hsc =>
    cases rest with
    | nil => simpa using hsc
    | cons r0 rest' =>
      have : r0 ≠ q := by intro h; subst h; simp at hrest
      simp only [List.nil_append, this, and_false, if_false]
      exact hsc
  | [c], hs, hsc =>
    have : c ≠ q := by
      simp only [rawSafe, rawPlain, Bool.and_eq_true, bne_iff_ne, ne_eq] at hs
      exact hs.2.1.1.1.1
    simp only [List.cons_append, List.nil_append, this, false_and, if_false]
    exact hsc
  | c :: e :: r, hs, hsc =>
    have : c ≠ q := by
      by_cases hc : c = '\\'
      · subst hc; exact fun h => hq h.symm
      · simp only [rawSafe, if_neg hc, rawPlain, Bool.and_eq_true, bne_iff_ne, ne_eq] at hs
        exact hs.1.1.1.1.1
    simp only [List.cons_append, this, false_and, if_false]
    exact hsc


/-- raw literal written WITHOUT any translation: exact whenever the text is raw-safe -/
theorem litRaw_plain {q : Char} {t : Table} (hok : rawTableOK q t = true) (s rest : List Char)
    (hs : rawSafe q t s = true) (hrest : rest.head? ≠ some q) :
    litRaw q (q :: s ++ [q] ++ rest) = some (s, rest) := by
  have h := litRaw_quoted hok s rest hs hrest
  simp only [rawTableOK, Bool.and_eq_true, Option.isNone_iff_eq_none] at hok
  unfold quoted at h
  rw [translate_id_of_rawSafe q t hok.2 s hs] at h
  exact h

/-- control characters (U+0001–U+001F, U+007F) as an (otherwise unused) key table: `rawSafe` then
excludes them, as `pattern_literal` did before the rule "only printable characters" (kept for the
driver handler `patlit.rawsafe`, which compares both quotes) -/
def ctrlKeys : Table := ((List.range 32).drop 1 ++ [127]).map (fun n => (Char.ofNat n, []))

/-- the two tests of `pattern_literal` that do not look at printability: the quote `q` does not
occur, and no backslash dangles (`(len(p) - len(p.rstrip("\\"))) % 2 == 0`, modelled as "the
backslashes pair up from the left with whatever follows them"; the two readings agree because a
backslash that is not in the trailing run always has a partner — compared with the real function
on every run by the campaigns `esc.rawsafe` / `patlit.text`). NOTHING is said about newlines or
NUL here: the code leaves them to `str.isprintable`. -/
def quoteFreePaired (q : Char) : List Char → Bool
  | [] => true
  | [c] => c != '\\' && c != q
  | c :: e :: r =>
    if c = '\\' then e != q && quoteFreePaired q r else c != q && quoteFreePaired q (e :: r)

/-- the characters a raw short literal cannot hold verbatim (`Py/Lex.unitRaw` stops at them): the
MINIMAL demand on a printability predicate for the raw branch to be one token -/
def rawBreakers : List Char := ['\n', '\r', Char.ofNat 0]

/-- `pr` calls none of `rawBreakers` printable (decidable for a concrete `pr`; CPython's
`str.isprintable` satisfies it: `Props/C01.cpython_printable_ok`) -/
def printableOK (pr : Char → Bool) : Bool := rawBreakers.all (fun b => !pr b)

/-- `model/pydantic/types.py pattern_literal`, the choice: raw literal iff no single quote, no
dangling backslash and `pattern.isprintable()` (`pr` = `str.isprintable` of one character, a
PARAMETER as in `Py/Repr`; validated against the real function by the `esc.rawsafe` campaign) -/
def patternRawOK (pr : Char → Bool) (p : List Char) : Bool := quoteFreePaired '\'' p && p.all pr

/-- what the raw branch needs from the lexer's point of view follows from the code's rule as soon as
`pr` excludes the three characters a raw literal cannot hold -/
theorem rawSafe_of_quoteFreePaired (q : Char) :
    ∀ p, quoteFreePaired q p = true → (∀ c ∈ p, c ∉ rawBreakers) → rawSafe q [] p = true := by
  intro p
  induction p using quoteFreePaired.induct with
  | case1 => intro _ _; simp [rawSafe]
  | case2 c =>
    intro h hb
    have hc := hb c (by simp)
    simp only [rawBreakers, List.mem_cons, List.not_mem_nil, or_false, not_or] at hc
    simp only [quoteFreePaired, Bool.and_eq_true, bne_iff_ne, ne_eq] at h
    simp [rawSafe, rawPlain, h.1, h.2, hc.1, hc.2.1, hc.2.2]
  | case3 e r ih =>
    intro h hb
    simp only [quoteFreePaired, if_true, Bool.and_eq_true, bne_iff_ne, ne_eq] at h
    have he := hb e (by simp)
    simp only [rawBreakers, List.mem_cons, List.not_mem_nil, or_false, not_or] at he
    have hr := ih h.2 (fun c hc => hb c (by simp [hc]))
    by_cases hbs : e = '\\'
    · simp [rawSafe, hbs, hr]
    · simp [rawSafe, rawPlain, h.1, he.1, he.2.1, he.2.2, hbs, hr]
  | case4 c e r hc ih =>
    intro h hb
    simp only [quoteFreePaired, if_neg hc, Bool.and_eq_true, bne_iff_ne, ne_eq] at h
    have hcb := hb c (by simp)
    simp only [rawBreakers, List.mem_cons, List.not_mem_nil, or_false, not_or] at hcb
    have hr := ih h.2 (fun x hx => hb x (List.mem_cons_of_mem _ hx))
    simp [rawSafe, if_neg hc, rawPlain, h.1, hcb.1, hcb.2.1, hcb.2.2, hr]

theorem not_breaker_of_printable {pr : Char → Bool} (hpr : printableOK pr = true) {c : Char}
    (h : pr c = true) : c ∉ rawBreakers := by
  intro hm
  simp only [printableOK, List.all_eq_true, Bool.not_eq_true'] at hpr
  have := hpr c hm
  rw [h] at this; cases this

/-- the raw branch of `pattern_literal` is raw-safe for the single quote -/
theorem rawSafe_of_patternRawOK {pr : Char → Bool} (hpr : printableOK pr = true) (p : List Char)
    (h : patternRawOK pr p = true) : rawSafe '\'' [] p = true := by
  simp only [patternRawOK, Bool.and_eq_true, List.all_eq_true] at h
  exact rawSafe_of_quoteFreePaired '\'' p h.1 (fun c hc => not_breaker_of_printable hpr (h.2 c hc))

end Dcg.Proofs.Escape
