import Dcg.Proofs.Types
/-
Renaming of the three container names between two spellings (C13 `spelling_invariant`, the
typing-versus-builtin-versus-abstract part): the structural rendering under `o'` is the rendering
under `o` with the container names mapped, and the mapping does not change the denotation.
-/
namespace Dcg.Proofs.Types
open Dcg.Model.Types Dcg.Model.HintExpr Dcg.Proofs.Cover
open Dcg.Sem.Typing hiding Str sNone sComma sPipe

/-! ### renaming the three container names -/

/-- the nine container names (three spellings of list, set, dict) -/
def allCont : List Str := listNames ++ setNames ++ dictNames

/-- the map between the container names of two spellings; identity on every other name -/
def β (o o' : Opts) (s : Str) : Str :=
  if s = listName o then listName o' else if s = setName o then setName o' else if s = dictName o then dictName o' else s

mutual
def ren (f : Str → Str) : TExpr → TExpr
  | .atom s => .atom (f s)
  | .app h args => .app (f h) (renL f args)
  | .bor args => .bor (renL f args)
def renL (f : Str → Str) : List TExpr → List TExpr
  | [] => []
  | e :: es => ren f e :: renL f es
end

theorem renL_eq_map (f : Str → Str) (es : List TExpr) : renL f es = es.map (ren f) := by
  induction es with
  | nil => rfl
  | cons a l ih => simp [renL, ih]

/-- a name that may occur in the rendering under `o`: not a container name at all, or one of the
three container names of this spelling -/
def okName (o : Opts) (s : Str) : Bool := !allCont.contains s || s == listName o || s == setName o || s == dictName o

mutual
def namesOK (o : Opts) : TExpr → Bool
  | .atom s => okName o s
  | .app h args => okName o h && namesOKL o args
  | .bor args => namesOKL o args
def namesOKL (o : Opts) : List TExpr → Bool
  | [] => true
  | e :: es => namesOK o e && namesOKL o es
end

theorem namesOKL_mem {o : Opts} {es : List TExpr} (h : namesOKL o es = true) : ∀ e ∈ es, namesOK o e = true := by
  induction es with
  | nil => intro e he; cases he
  | cons a l ih =>
    simp only [namesOKL, Bool.and_eq_true] at h
    intro e he
    cases he with
    | head => exact h.1
    | tail _ h' => exact ih h.2 e h'

theorem namesOKL_of_mem {o : Opts} {es : List TExpr} (h : ∀ e ∈ es, namesOK o e = true) : namesOKL o es = true := by
  induction es with
  | nil => rfl
  | cons a l ih =>
    simp only [namesOKL, Bool.and_eq_true]
    exact ⟨h a (List.mem_cons_self ..), ih (fun e he => h e (List.mem_cons_of_mem _ he))⟩

/-- facts about β that hold for every pair of spellings (64 cases, each by evaluation) -/
theorem β_facts (o o' : Opts) :
    β o o' (listName o) = listName o' ∧ β o o' (setName o) = setName o' ∧ β o o' (dictName o) = dictName o' ∧
    β o' o (listName o') = listName o ∧ β o' o (setName o') = setName o ∧ β o' o (dictName o') = dictName o ∧
    allCont.contains (listName o) = true ∧ allCont.contains (setName o) = true ∧ allCont.contains (dictName o) = true := by
  obtain ⟨u, s, g⟩ := o
  obtain ⟨u', s', g'⟩ := o'
  cases u <;> cases s <;> cases g <;> cases u' <;> cases s' <;> cases g' <;> decide

theorem β_other (o o' : Opts) (s : Str) (h : allCont.contains s = false) : β o o' s = s := by
  obtain ⟨_, _, _, _, _, _, h1, h2, h3⟩ := β_facts o o'
  unfold β
  have n1 : s ≠ listName o := by intro e; rw [e, h1] at h; cases h
  have n2 : s ≠ setName o := by intro e; rw [e, h2] at h; cases h
  have n3 : s ≠ dictName o := by intro e; rw [e, h3] at h; cases h
  simp [n1, n2, n3]

theorem okName_cases {o : Opts} {s : Str} (h : okName o s = true) :
    allCont.contains s = false ∨ s = listName o ∨ s = setName o ∨ s = dictName o := by
  simp only [okName, Bool.or_eq_true, Bool.not_eq_true', beq_iff_eq] at h
  rcases h with ((h | h) | h) | h
  · exact Or.inl h
  · exact Or.inr (Or.inl h)
  · exact Or.inr (Or.inr (Or.inl h))
  · exact Or.inr (Or.inr (Or.inr h))

theorem β_inv (o o' : Opts) (s : Str) (h : okName o s = true) : β o' o (β o o' s) = s := by
  obtain ⟨a1, a2, a3, b1, b2, b3, _, _, _⟩ := β_facts o o'
  rcases okName_cases h with h | rfl | rfl | rfl
  · rw [β_other o o' s h, β_other o' o s h]
  · rw [a1, b1]
  · rw [a2, b2]
  · rw [a3, b3]

theorem β_okName (o o' : Opts) (s : Str) (h : okName o s = true) : okName o' (β o o' s) = true := by
  obtain ⟨a1, a2, a3, _, _, _, _, _, _⟩ := β_facts o o'
  rcases okName_cases h with h | rfl | rfl | rfl
  · rw [β_other o o' s h]; simp only [okName, h, Bool.not_false, Bool.true_or]
  · rw [a1]; simp [okName]
  · rw [a2]; simp [okName]
  · rw [a3]; simp [okName]

theorem ren_inv (o o' : Opts) : ∀ e, namesOK o e = true → ren (β o' o) (ren (β o o') e) = e := by
  apply TExpr.ind
  · intro s h; simp only [namesOK] at h; simp only [ren, β_inv o o' s h]
  · intro h args ih hn
    simp only [namesOK, Bool.and_eq_true] at hn
    simp only [ren, β_inv o o' h hn.1]
    congr 1
    have hm := namesOKL_mem hn.2
    clear hn
    induction args with
    | nil => rfl
    | cons a l ihl =>
      simp only [renL]
      rw [ih a (List.mem_cons_self ..) (hm a (List.mem_cons_self ..)),
        ihl (fun x hx => ih x (List.mem_cons_of_mem _ hx)) (fun x hx => hm x (List.mem_cons_of_mem _ hx))]
  · intro args ih hn
    simp only [namesOK] at hn
    simp only [ren]
    congr 1
    have hm := namesOKL_mem hn
    clear hn
    induction args with
    | nil => rfl
    | cons a l ihl =>
      simp only [renL]
      rw [ih a (List.mem_cons_self ..) (hm a (List.mem_cons_self ..)),
        ihl (fun x hx => ih x (List.mem_cons_of_mem _ hx)) (fun x hx => hm x (List.mem_cons_of_mem _ hx))]

theorem namesOK_ren (o o' : Opts) : ∀ e, namesOK o e = true → namesOK o' (ren (β o o') e) = true := by
  apply TExpr.ind
  · intro s h; simp only [namesOK] at h; simp only [ren, namesOK]; exact β_okName o o' s h
  · intro h args ih hn
    simp only [namesOK, Bool.and_eq_true] at hn
    simp only [ren, namesOK, Bool.and_eq_true]
    refine ⟨β_okName o o' h hn.1, ?_⟩
    rw [renL_eq_map]
    apply namesOKL_of_mem
    intro e he
    simp only [List.mem_map] at he
    obtain ⟨a, ha, rfl⟩ := he
    exact ih a ha (namesOKL_mem hn.2 a ha)
  · intro args ih hn
    simp only [namesOK] at hn
    simp only [ren, namesOK]
    rw [renL_eq_map]
    apply namesOKL_of_mem
    intro e he
    simp only [List.mem_map] at he
    obtain ⟨a, ha, rfl⟩ := he
    exact ih a ha (namesOKL_mem hn a ha)


theorem β_eq_fixed (o o' : Opts) (s c : Str) (hs : okName o s = true) (hc : allCont.contains c = false) :
    β o o' s = c ↔ s = c := by
  obtain ⟨a1, a2, a3, _, _, _, c1, c2, c3⟩ := β_facts o o'
  obtain ⟨_, _, _, _, _, _, d1, d2, d3⟩ := β_facts o' o
  constructor
  · intro h
    rcases okName_cases hs with h0 | rfl | rfl | rfl
    · rw [β_other o o' s h0] at h; exact h
    · rw [a1] at h; rw [← h, d1] at hc; cases hc
    · rw [a2] at h; rw [← h, d2] at hc; cases hc
    · rw [a3] at h; rw [← h, d3] at hc; cases hc
  · intro h; subst h; exact β_other o o' s hc

theorem β_plain (o o' : Opts) (s : Str) (hs : okName o s = true) (hp : plainTok s = true) : plainTok (β o o' s) = true := by
  obtain ⟨a1, a2, a3, _, _, _, _, _, _⟩ := β_facts o o'
  obtain ⟨p1, p2, p3, _, _, _⟩ := names_plain o'
  rcases okName_cases hs with h0 | rfl | rfl | rfl
  · rw [β_other o o' s h0]; exact hp
  · rw [a1]; exact p1
  · rw [a2]; exact p2
  · rw [a3]; exact p3

theorem wfU_ren (o o' : Opts) : ∀ e, wfU e = true → namesOK o e = true → wfU (ren (β o o') e) = true := by
  apply TExpr.ind
  · intro s hw hn; simp only [wfU] at hw; simp only [namesOK] at hn; simp only [ren, wfU]; exact β_plain o o' s hn hw
  · intro h args ih hw hn
    simp only [wfU, Bool.and_eq_true] at hw
    simp only [namesOK, Bool.and_eq_true] at hn
    simp only [ren, wfU, Bool.and_eq_true]
    refine ⟨⟨β_plain o o' h hn.1 hw.1.1, ?_⟩, ?_⟩
    · have := hw.1.2
      simp only [Bool.or_eq_true, beq_iff_eq, Bool.not_eq_true', List.isEmpty_eq_false_iff] at this ⊢
      rcases this with h1 | h1
      · left; exact (β_eq_fixed o o' h sUnion hn.1 (by decide)).mpr h1
      · right; rw [renL_eq_map]; simpa using h1
    · rw [renL_eq_map]
      apply wfUL_of_mem
      intro e he
      simp only [List.mem_map] at he
      obtain ⟨a, ha, rfl⟩ := he
      exact ih a ha (wfUL_mem hw.2 a ha) (namesOKL_mem hn.2 a ha)
  · intro args _ hw; simp [wfU] at hw

/-- the workhorse: two well-formed expressions print alike before the renaming iff they do after -/
theorem print_ren_iff (o o' : Opts) (e e' : TExpr) (hw : wfU e = true) (hw' : wfU e' = true)
    (hn : namesOK o e = true) (hn' : namesOK o e' = true) :
    print (ren (β o o') e) = print (ren (β o o') e') ↔ print e = print e' := by
  constructor
  · intro h
    have := print_inj _ (wfU_ren o o' e hw hn) _ (wfU_ren o o' e' hw' hn') h
    have h2 := congrArg (ren (β o' o)) this
    rw [ren_inv o o' e hn, ren_inv o o' e' hn'] at h2
    rw [h2]
  · intro h
    rw [print_inj e hw e' hw' h]

theorem ren_eNone (o o' : Opts) : ren (β o o') eNone = eNone := by
  simp only [eNone, ren]; rw [β_other]; decide

theorem namesOK_eNone (o : Opts) : namesOK o eNone = true := by
  obtain ⟨u, s, g⟩ := o
  cases u <;> cases s <;> cases g <;> decide

theorem print_ren_none (o o' : Opts) (e : TExpr) (hw : wfU e = true) (hn : namesOK o e = true) :
    print (ren (β o o') e) = sNone ↔ print e = sNone := by
  have := print_ren_iff o o' e eNone hw (by decide) hn (namesOK_eNone o)
  rw [ren_eNone] at this
  simpa [eNone, print_atom, Dcg.Sem.Typing.sNone, sNone] using this

theorem isNoneE_ren (o o' : Opts) (e : TExpr) (hn : namesOK o e = true) : isNoneE (ren (β o o') e) = isNoneE e := by
  cases e with
  | atom s =>
    simp only [namesOK] at hn
    simp only [ren, isNoneE]
    have := β_eq_fixed o o' s sNone hn (by decide)
    by_cases h : s = sNone
    · have hb := this.mpr h
      rw [hb, h]
    · have : β o o' s ≠ sNone := fun hc => h (this.mp hc)
      simp [h, this]
  | app h args => simp [ren, isNoneE]
  | bor args => simp [ren, isNoneE]

theorem ren_mkUnionE (o o' : Opts) (ps : List TExpr) : ren (β o o') (mkUnionE ps) = mkUnionE (renL (β o o') ps) := by
  match ps with
  | [] => simp [mkUnionE, renL, ren_eNone]
  | [p] => simp [mkUnionE, renL]
  | a :: b :: r =>
    simp only [mkUnionE, renL, ren]
    rw [β_other]; decide

theorem rmU_ren (o o' : Opts) : ∀ e, namesOK o e = true → rmU (ren (β o o') e) = ren (β o o') (rmU e) := by
  apply TExpr.ind
  · intro s _; simp [ren, rmU]
  · intro h args ih hn
    simp only [namesOK, Bool.and_eq_true] at hn
    have hiff := β_eq_fixed o o' h sUnion hn.1 (by decide)
    have key : ∀ (l : List TExpr), (∀ a ∈ l, namesOK o a = true → rmU (ren (β o o') a) = ren (β o o') (rmU a)) →
        (∀ a ∈ l, namesOK o a = true) → rmUL (renL (β o o') l) = renL (β o o') (rmUL l) := by
      intro l
      induction l with
      | nil => intro _ _; rfl
      | cons a l ihl =>
        intro hih hm
        simp only [renL, rmUL]
        rw [isNoneE_ren o o' a (hm a (List.mem_cons_self ..))]
        split
        · exact ihl (fun x hx => hih x (List.mem_cons_of_mem _ hx)) (fun x hx => hm x (List.mem_cons_of_mem _ hx))
        · simp only [renL]
          rw [hih a (List.mem_cons_self ..) (hm a (List.mem_cons_self ..)),
            ihl (fun x hx => hih x (List.mem_cons_of_mem _ hx)) (fun x hx => hm x (List.mem_cons_of_mem _ hx))]
    by_cases hu : h = sUnion
    · subst hu
      have hb : β o o' sUnion = sUnion := hiff.mpr rfl
      simp only [ren, rmU, hb, if_true]
      rw [ren_mkUnionE, key args ih (namesOKL_mem hn.2)]
    · have : β o o' h ≠ sUnion := fun hc => hu (hiff.mp hc)
      simp only [ren, rmU, hu, this, if_false]
  · intro args _ _; simp [ren, rmU]

theorem namesOK_mkUnionE (o : Opts) (ps : List TExpr) (h : namesOKL o ps = true) : namesOK o (mkUnionE ps) = true := by
  match ps, h with
  | [], _ => exact namesOK_eNone o
  | [p], h => simp only [namesOKL, Bool.and_true] at h; exact h
  | a :: b :: r, h =>
    simp only [mkUnionE, namesOK, Bool.and_eq_true]
    refine ⟨?_, h⟩
    simp only [okName, Bool.or_eq_true, Bool.not_eq_true']
    left; left; left; decide

theorem namesOK_rmU (o : Opts) : ∀ e, namesOK o e = true → namesOK o (rmU e) = true := by
  apply TExpr.ind
  · intro s h; simpa [rmU] using h
  · intro h args ih hn
    simp only [rmU]
    split
    · apply namesOK_mkUnionE
      simp only [namesOK, Bool.and_eq_true] at hn
      have hm := namesOKL_mem hn.2
      clear hn
      induction args with
      | nil => rfl
      | cons a l ihl =>
        simp only [rmUL]
        split
        · exact ihl (fun x hx => ih x (List.mem_cons_of_mem _ hx)) (fun x hx => hm x (List.mem_cons_of_mem _ hx))
        · simp only [namesOKL, Bool.and_eq_true]
          exact ⟨ih a (List.mem_cons_self ..) (hm a (List.mem_cons_self ..)),
            ihl (fun x hx => ih x (List.mem_cons_of_mem _ hx)) (fun x hx => hm x (List.mem_cons_of_mem _ hx))⟩
    · exact hn
  · intro args _ hn; simpa [rmU] using hn


theorem renL_append (f : Str → Str) (a b : List TExpr) : renL f (a ++ b) = renL f a ++ renL f b := by
  simp [renL_eq_map]

theorem namesOKL_append (o : Opts) (a b : List TExpr) : namesOKL o (a ++ b) = (namesOKL o a && namesOKL o b) := by
  induction a with
  | nil => simp [namesOKL]
  | cons x l ih => simp [namesOKL, ih, Bool.and_assoc]

theorem contains_print_ren (o o' : Opts) (acc : List TExpr) (h : TExpr) (hwa : wfUL acc = true) (hna : namesOKL o acc = true)
    (hw : wfU h = true) (hn : namesOK o h = true) :
    ((renL (β o o') acc).map print).contains (print (ren (β o o') h)) = (acc.map print).contains (print h) := by
  rw [Bool.eq_iff_iff]
  simp only [List.contains_iff_mem, List.mem_map, renL_eq_map]
  constructor
  · rintro ⟨x, ⟨a, ha, rfl⟩, hx⟩
    exact ⟨a, ha, (print_ren_iff o o' a h (wfUL_mem hwa a ha) hw (namesOKL_mem hna a ha) hn).mp hx⟩
  · rintro ⟨a, ha, hx⟩
    exact ⟨ren (β o o') a, ⟨a, ha, rfl⟩, (print_ren_iff o o' a h (wfUL_mem hwa a ha) hw (namesOKL_mem hna a ha) hn).mpr hx⟩

theorem unionLoopE_ren (o o' : Opts) : ∀ (hs acc : List TExpr) (opt : Bool), wfUL hs = true → namesOKL o hs = true →
    wfUL acc = true → namesOKL o acc = true →
    unionLoopE false (renL (β o o') hs) (renL (β o o') acc) opt =
      (renL (β o o') (unionLoopE false hs acc opt).1, (unionLoopE false hs acc opt).2) ∧
    namesOKL o (unionLoopE false hs acc opt).1 = true := by
  intro hs
  induction hs with
  | nil => intro acc opt _ _ _ hna; simp [unionLoopE, renL, hna]
  | cons h hs ih =>
    intro acc opt hw hn hwa hna
    simp only [wfUL, Bool.and_eq_true] at hw
    simp only [namesOKL, Bool.and_eq_true] at hn
    simp only [renL, unionLoopE]
    rw [contains_print_ren o o' acc h hwa hna hw.1 hn.1]
    split
    · exact ih acc opt hw.2 hn.2 hwa hna
    · have hnone := print_ren_none o o' h hw.1 hn.1
      by_cases hp : print h = sNone
      · simp only [hp, hnone.mpr hp, if_true]
        exact ih acc true hw.2 hn.2 hwa hna
      · have hp' : print (ren (β o o') h) ≠ sNone := fun hc => hp (hnone.mp hc)
        simp only [hp, hp', if_false]
        have hrm : rmE false (ren (β o o') h) = ren (β o o') (rmE false h) := by
          simp only [rmE, Bool.false_eq_true, if_false]; exact rmU_ren o o' h hn.1
        have hwr : wfU (rmE false h) = true := by simp only [rmE, Bool.false_eq_true, if_false]; exact wfU_rmU h hw.1
        have hnr : namesOK o (rmE false h) = true := by simp only [rmE, Bool.false_eq_true, if_false]; exact namesOK_rmU o h hn.1
        have hflag : (print (ren (β o o') (rmE false h)) != print (ren (β o o') h)) = (print (rmE false h) != print h) := by
          have := print_ren_iff o o' (rmE false h) h hwr hw.1 hnr hn.1
          by_cases hq : print (rmE false h) = print h
          · rw [this.mpr hq, hq]; simp
          · have : print (ren (β o o') (rmE false h)) ≠ print (ren (β o o') h) := fun hc => hq (this.mp hc)
            rw [Bool.eq_iff_iff]; simp only [bne_iff_ne]; exact ⟨fun _ => hq, fun _ => this⟩
        rw [hrm, hflag]
        have := ih (acc ++ [rmE false h]) (opt || print (rmE false h) != print h) hw.2 hn.2
          (by rw [wfUL_append, hwa]; simp [wfUL, hwr]) (by rw [namesOKL_append, hna]; simp [namesOKL, hnr])
        rw [renL_append] at this
        simpa [renL] using this


/-- the names a node takes from the input are not container names -/
def freeAttrs (a : Attrs) : Bool :=
  !allCont.contains a.ty && (match a.ref with | some r => !allCont.contains r.shortName | none => true) &&
  a.literals.all (fun s => !allCont.contains s)

mutual
def freeTree : DT → Bool
  | .mk a key kids => freeAttrs a && freeTreeO key && freeTreeL kids
def freeTreeO : Option DT → Bool
  | none => true
  | some k => freeTree k
def freeTreeL : List DT → Bool
  | [] => true
  | t :: ts => freeTree t && freeTreeL ts
end

theorem okName_free (o : Opts) (s : Str) (h : allCont.contains s = false) : okName o s = true := by
  simp only [okName, h, Bool.not_false, Bool.true_or]

theorem ren_atom_free (o o' : Opts) (s : Str) (h : allCont.contains s = false) : ren (β o o') (.atom s) = .atom s := by
  simp only [ren, β_other o o' s h]

theorem renL_length (f : Str → Str) (l : List TExpr) : (renL f l).length = l.length := by simp [renL_eq_map]

theorem base_ren (o o' : Opts) (ho : o.unionOp = false) (ho' : o'.unionOp = false) (a : Attrs) (kidEs : List TExpr)
    (hk : wfUL kidEs = true) (hnk : namesOKL o kidEs = true) (hf : freeAttrs a = true) :
    baseE o' a (renL (β o o') kidEs) = (ren (β o o') (baseE o a kidEs).1, (baseE o a kidEs).2) ∧
    namesOK o (baseE o a kidEs).1 = true := by
  simp only [freeAttrs, Bool.and_eq_true, Bool.not_eq_true', List.all_eq_true] at hf
  obtain ⟨⟨hty, href⟩, hlit⟩ := hf
  unfold baseE
  by_cases hte : a.ty = []
  · simp only [hte, ne_eq, not_true_eq_false, if_false]
    match kidEs, hk, hnk with
    | k1 :: k2 :: ks, hk, hnk =>
      have hl := unionLoopE_ren o o' (k1 :: k2 :: ks) [] a.isOptional hk hnk rfl rfl
      simp only [renL] at hl ⊢
      simp only [ho, ho']
      rw [hl.1]
      generalize unionLoopE false (k1 :: k2 :: ks) [] a.isOptional = r at hl
      obtain ⟨r1, r2⟩ := r
      simp only [] at hl ⊢
      match r1, hl with
      | [d], hl =>
        simp only [renL]
        simp only [namesOKL, Bool.and_true] at hl
        exact ⟨trivial, hl.2⟩
      | [], hl =>
        simp only [renL, Bool.false_eq_true, if_false, ren]
        refine ⟨by rw [β_other o o' sUnion (by decide)], ?_⟩
        simp only [namesOK, namesOKL, Bool.and_true]; exact okName_free o _ (by decide)
      | d1 :: d2 :: ds, hl =>
        simp only [renL, Bool.false_eq_true, if_false, ren]
        refine ⟨by rw [β_other o o' sUnion (by decide)], ?_⟩
        simp only [namesOK, Bool.and_eq_true]; exact ⟨okName_free o _ (by decide), hl.2⟩
    | [k], hk, hnk =>
      simp only [renL]
      simp only [namesOKL, Bool.and_true] at hnk
      exact ⟨trivial, hnk⟩
    | [], _, _ =>
      simp only [renL]
      by_cases hle : a.literals = []
      · simp only [hle, ne_eq, not_true_eq_false, if_false]
        cases hrf : a.ref with
        | none =>
          simp only []
          exact ⟨by rw [ren_atom_free o o' [] (by decide)], by simp only [namesOK]; exact okName_free o _ (by decide)⟩
        | some r =>
          simp only []
          rw [hrf] at href
          have href' : allCont.contains r.shortName = false := by simpa using href
          exact ⟨by rw [ren_atom_free o o' _ href'], by simp only [namesOK]; exact okName_free o _ href'⟩
      · simp only [hle, ne_eq, not_false_eq_true, if_true, ren]
        have hfix : renL (β o o') (a.literals.map TExpr.atom) = a.literals.map TExpr.atom := by
          rw [renL_eq_map, List.map_map]
          apply List.map_congr_left
          intro x hx
          simp only [Function.comp, ren, β_other o o' x (hlit x hx)]
        refine ⟨by rw [hfix, β_other o o' sLiteral (by decide)], ?_⟩
        simp only [namesOK, Bool.and_eq_true]
        refine ⟨okName_free o _ (by decide), ?_⟩
        apply namesOKL_of_mem
        intro e he
        simp only [List.mem_map] at he
        obtain ⟨tok, htok, rfl⟩ := he
        simp only [namesOK]; exact okName_free o _ (hlit tok htok)
  · simp only [hte, ne_eq, not_false_eq_true, if_true]
    exact ⟨by rw [ren_atom_free o o' _ hty], by simp only [namesOK]; exact okName_free o _ hty⟩

theorem okName_self (o : Opts) : okName o (listName o) = true ∧ okName o (setName o) = true ∧ okName o (dictName o) = true := by
  simp [okName]

theorem wrap1E_ren (o o' : Opts) (name : Str) (b : TExpr) (hb : wfU b = true) (hnb : namesOK o b = true)
    (hname : okName o name = true) :
    wrap1E (β o o' name) (ren (β o o') b) = ren (β o o') (wrap1E name b) ∧ namesOK o (wrap1E name b) = true := by
  have h1 := print_ne_nil_of_wfU b hb
  have h2 := print_ne_nil_of_wfU _ (wfU_ren o o' b hb hnb)
  simp only [wrap1E, h1, h2, if_false, ren, renL, namesOK, namesOKL, Bool.and_true, Bool.and_eq_true]
  exact ⟨trivial, hname, hnb⟩

theorem container_ren (o o' : Opts) (a : Attrs) (keyE : Option TExpr) (b : TExpr) (hb : wfU b = true)
    (hnb : namesOK o b = true) (hkey : ∀ k, keyE = some k → wfU k = true ∧ namesOK o k = true) :
    containerE o' a (keyE.map (ren (β o o'))) (ren (β o o') b) = ren (β o o') (containerE o a keyE b) ∧
    namesOK o (containerE o a keyE b) = true := by
  obtain ⟨a1, a2, a3, _, _, _, _, _, _⟩ := β_facts o o'
  obtain ⟨s1, s2, s3⟩ := okName_self o
  have h1 := print_ne_nil_of_wfU b hb
  have h2 := print_ne_nil_of_wfU _ (wfU_ren o o' b hb hnb)
  unfold containerE
  split
  · have := wrap1E_ren o o' (listName o) b hb hnb s1
    rw [a1] at this; exact this
  · split
    · have := wrap1E_ren o o' (setName o) b hb hnb s2
      rw [a2] at this; exact this
    · split
      · simp only [h1, h2, ne_eq, not_false_eq_true, or_true, if_true, if_false, ren, renL, a3]
        refine ⟨?_, ?_⟩
        · congr 2
          cases keyE with
          | none => simp only [Option.map_none, Option.getD_none]; rw [ren_atom_free o o' sStr (by decide)]
          | some k => simp
        · simp only [namesOK, namesOKL, Bool.and_eq_true, Bool.and_true]
          refine ⟨s3, ?_, hnb⟩
          cases keyE with
          | none => simp only [Option.getD_none, namesOK]; exact okName_free o _ (by decide)
          | some k => simpa using (hkey k rfl).2
      · exact ⟨rfl, hnb⟩

theorem finish_ren (o o' : Opts) (ty : TExpr) (opt : Bool) (hw : wfU ty = true) (hn : namesOK o ty = true) :
    finishE false (ren (β o o') ty) opt = (ren (β o o') (finishE false ty opt).1, (finishE false ty opt).2) ∧
    namesOK o (finishE false ty opt).1 = true := by
  have hany : print (ren (β o o') ty) = sAny ↔ print ty = sAny := by
    have := print_ren_iff o o' ty (.atom sAny) hw (by decide) hn (by simp only [namesOK]; exact okName_free o _ (by decide))
    rw [ren_atom_free o o' sAny (by decide)] at this
    simpa [print_atom] using this
  unfold finishE
  by_cases hc : opt = true ∧ print ty ≠ sAny
  · have hc' : opt = true ∧ print (ren (β o o') ty) ≠ sAny := ⟨hc.1, fun h => hc.2 (hany.mp h)⟩
    simp only [hc, hc', ne_eq, not_false_eq_true, and_self, if_true]
    unfold getOptionalE
    have hrm : rmE false (ren (β o o') ty) = ren (β o o') (rmE false ty) := by
      simp only [rmE, Bool.false_eq_true, if_false]; exact rmU_ren o o' ty hn
    have hwr : wfU (rmE false ty) = true := by simp only [rmE, Bool.false_eq_true, if_false]; exact wfU_rmU ty hw
    have hnr : namesOK o (rmE false ty) = true := by simp only [rmE, Bool.false_eq_true, if_false]; exact namesOK_rmU o ty hn
    simp only [hrm, Bool.false_eq_true, if_false]
    have e1 := print_ne_nil_of_wfU _ hwr
    have e2 := print_ne_nil_of_wfU _ (wfU_ren o o' _ hwr hnr)
    have hnone := print_ren_none o o' _ hwr hnr
    by_cases hp : print (rmE false ty) = sNone
    · simp only [hp, hnone.mpr hp, or_true, if_true]
      exact ⟨by rw [ren_eNone], namesOK_eNone o⟩
    · have hp' : print (ren (β o o') (rmE false ty)) ≠ sNone := fun h => hp (hnone.mp h)
      simp only [e1, e2, hp, hp', or_self, if_false, ren, renL]
      refine ⟨by rw [β_other o o' sOptional (by decide)], ?_⟩
      simp only [namesOK, namesOKL, Bool.and_eq_true, Bool.and_true]
      exact ⟨okName_free o _ (by decide), hnr⟩
  · have hc' : ¬ (opt = true ∧ print (ren (β o o') ty) ≠ sAny) := fun h => hc ⟨h.1, fun h2 => h.2 (hany.mpr h2)⟩
    simp only [hc, hc', if_false]
    exact ⟨trivial, hn⟩

theorem node_ren (o o' : Opts) (ho : o.unionOp = false) (ho' : o'.unionOp = false) (a : Attrs) (keyE : Option TExpr)
    (kidEs : List TExpr) (hk : wfUL kidEs = true) (hnk : namesOKL o kidEs = true)
    (hkey : ∀ k, keyE = some k → wfU k = true ∧ namesOK o k = true) (ha : wfAttrs a kidEs.length = true)
    (hf : freeAttrs a = true) :
    hintNodeE o' a (keyE.map (ren (β o o'))) (renL (β o o') kidEs) =
      (ren (β o o') (hintNodeE o a keyE kidEs).1, (hintNodeE o a keyE kidEs).2) ∧
    namesOK o (hintNodeE o a keyE kidEs).1 = true := by
  obtain ⟨hb1, hb2⟩ := base_ren o o' ho ho' a kidEs hk hnk hf
  obtain ⟨_, hbw⟩ := base_typing o ho a kidEs hk ha
  obtain ⟨hc1, hc2⟩ := container_ren o o' a keyE (baseE o a kidEs).1 hbw hb2 hkey
  obtain ⟨_, hcw⟩ := container_typing o a keyE (baseE o a kidEs).1 hbw (fun k hk => (hkey k hk).1)
  unfold hintNodeE
  simp only [hb1, ho, ho', hc1]
  exact finish_ren o o' _ _ hcw hc2


/-- the structural rendering under `o'` is the rendering under `o` with the container names mapped
(both without the union operator) -/
theorem hintE_ren (o o' : Opts) (ho : o.unionOp = false) (ho' : o'.unionOp = false) : ∀ t, wfTree t = true → freeTree t = true →
    hintE o' t = (ren (β o o') (hintE o t).1, (hintE o t).2) ∧ namesOK o (hintE o t).1 = true := by
  apply DT.ind
  intro a key kids ihk ihl hw hfr
  simp only [wfTree, Bool.and_eq_true] at hw
  obtain ⟨⟨ha, hwk⟩, hwl⟩ := hw
  simp only [freeTree, Bool.and_eq_true] at hfr
  obtain ⟨⟨hfa, hfk⟩, hfl⟩ := hfr
  have hkids : hintEL o' kids = renL (β o o') (hintEL o kids) ∧ namesOKL o (hintEL o kids) = true ∧ wfUL (hintEL o kids) = true := by
    clear ha hwk ihk hfa hfk
    induction kids with
    | nil => exact ⟨rfl, rfl, rfl⟩
    | cons c cs ihc =>
      simp only [wfTreeL, Bool.and_eq_true] at hwl
      simp only [freeTreeL, Bool.and_eq_true] at hfl
      obtain ⟨h1, h2⟩ := ihl c (List.mem_cons_self ..) hwl.1 hfl.1
      obtain ⟨h3, h4, h5⟩ := ihc (fun x hx => ihl x (List.mem_cons_of_mem _ hx)) hwl.2 hfl.2
      have h6 := (typeHint_typing o ho c hwl.1).2
      simp only [hintEL, renL, namesOKL, wfUL, Bool.and_eq_true]
      exact ⟨by rw [h1, h3], ⟨h2, h4⟩, ⟨h6, h5⟩⟩
  have hkey : hintEO o' key = (hintEO o key).map (ren (β o o')) ∧
      ∀ k, hintEO o key = some k → wfU k = true ∧ namesOK o k = true := by
    cases key with
    | none => exact ⟨rfl, by intro k hk; simp [hintEO] at hk⟩
    | some kk =>
      simp only [wfTreeO] at hwk
      simp only [freeTreeO] at hfk
      obtain ⟨h1, h2⟩ := ihk kk rfl hwk hfk
      refine ⟨by simp [hintEO, h1], ?_⟩
      intro k hk
      simp only [hintEO, Option.some.injEq] at hk
      subst hk
      exact ⟨(typeHint_typing o ho kk hwk).2, h2⟩
  simp only [hintE]
  rw [hkids.1, hkey.1]
  exact node_ren o o' ho ho' a _ _ hkids.2.2 hkids.2.1 hkey.2 (by rw [hintEL_length]; exact ha) hfa

/-! the renaming does not change what the expression denotes -/

theorem cont_facts (o o' : Opts) :
    normHead (listName o') = normHead (listName o) ∧ normHead (setName o') = normHead (setName o) ∧
    normHead (dictName o') = normHead (dictName o) ∧
    (listNames.contains (listName o) || setNames.contains (listName o) || dictNames.contains (listName o)) = true ∧
    (listNames.contains (setName o) || setNames.contains (setName o) || dictNames.contains (setName o)) = true ∧
    (listNames.contains (dictName o) || setNames.contains (dictName o) || dictNames.contains (dictName o)) = true := by
  obtain ⟨u, s, g⟩ := o
  obtain ⟨u', s', g'⟩ := o'
  cases u <;> cases s <;> cases g <;> cases u' <;> cases s' <;> cases g' <;> decide

theorem normHead_β (o o' : Opts) (s : Str) (h : okName o s = true) : normHead (β o o' s) = normHead s := by
  obtain ⟨a1, a2, a3, _, _, _, _, _, _⟩ := β_facts o o'
  obtain ⟨c1, c2, c3, _, _, _⟩ := cont_facts o o'
  rcases okName_cases h with h0 | rfl | rfl | rfl
  · rw [β_other o o' s h0]
  · rw [a1, c1]
  · rw [a2, c2]
  · rw [a3, c3]

theorem normBare_β (o o' : Opts) (s : Str) (h : okName o s = true) : normBare (β o o' s) = normBare s := by
  obtain ⟨a1, a2, a3, _, _, _, _, _, _⟩ := β_facts o o'
  obtain ⟨c1, c2, c3, d1, d2, d3⟩ := cont_facts o o'
  obtain ⟨_, _, _, e1, e2, e3⟩ := cont_facts o' o
  have key : ∀ x y : Str, (listNames.contains x || setNames.contains x || dictNames.contains x) = true →
      (listNames.contains y || setNames.contains y || dictNames.contains y) = true → normHead x = normHead y →
      normBare x = normBare y := by
    intro x y hx hy hxy
    simp only [Bool.or_eq_true] at hx hy
    have hx' : listNames.contains x = true ∨ setNames.contains x = true ∨ dictNames.contains x = true := by
      rcases hx with (h | h) | h
      · exact Or.inl h
      · exact Or.inr (Or.inl h)
      · exact Or.inr (Or.inr h)
    have hy' : listNames.contains y = true ∨ setNames.contains y = true ∨ dictNames.contains y = true := by
      rcases hy with (h | h) | h
      · exact Or.inl h
      · exact Or.inr (Or.inl h)
      · exact Or.inr (Or.inr h)
    simp only [normBare, hx', hy', if_true, hxy]
  rcases okName_cases h with h0 | rfl | rfl | rfl
  · rw [β_other o o' s h0]
  · rw [a1]; exact key _ _ e1 d1 c1
  · rw [a2]; exact key _ _ e2 d2 c2
  · rw [a3]; exact key _ _ e3 d3 c3

theorem alts_ren (o o' : Opts) : ∀ e, namesOK o e = true →
    alts (ren (β o o') e) = alts e ∧ hasNone (ren (β o o') e) = hasNone e := by
  apply TExpr.ind
  · intro s hn
    simp only [namesOK] at hn
    have h1 := β_eq_fixed o o' s Dcg.Sem.Typing.sNone hn (by decide)
    simp only [ren, alts, hasNone, normBare_β o o' s hn]
    by_cases hs : s = Dcg.Sem.Typing.sNone
    · subst hs
      have hb := h1.mpr rfl
      simp [hb]
    · have : β o o' s ≠ Dcg.Sem.Typing.sNone := fun hc => hs (h1.mp hc)
      simp [hs, this]
  · intro h args ih hn
    simp only [namesOK, Bool.and_eq_true] at hn
    have hm := namesOKL_mem hn.2
    have hO := β_eq_fixed o o' h sOptional hn.1 (by decide)
    have hU := β_eq_fixed o o' h sUnion hn.1 (by decide)
    have hlists : altsL (renL (β o o') args) = altsL args ∧ hasNoneL (renL (β o o') args) = hasNoneL args ∧
        denoteL (renL (β o o') args) = denoteL args := by
      clear hn hO hU
      induction args with
      | nil => exact ⟨rfl, rfl, rfl⟩
      | cons a l ihl =>
        obtain ⟨h1, h2⟩ := ih a (List.mem_cons_self ..) (hm a (List.mem_cons_self ..))
        obtain ⟨h3, h4, h5⟩ := ihl (fun x hx => ih x (List.mem_cons_of_mem _ hx)) (fun x hx => hm x (List.mem_cons_of_mem _ hx))
        simp only [renL, altsL, hasNoneL, denoteL, h1, h2, h3, h4, h5]
        exact ⟨trivial, trivial, trivial⟩
    simp only [ren, alts, hasNone, normHead_β o o' h hn.1, hlists.1, hlists.2.1, hlists.2.2]
    have e1 : (β o o' h = sOptional ∨ β o o' h = sUnion) ↔ (h = sOptional ∨ h = sUnion) := by rw [hO, hU]
    have e2 : (β o o' h = sOptional) ↔ (h = sOptional) := hO
    have e3 : (β o o' h = sUnion) ↔ (h = sUnion) := hU
    refine ⟨?_, ?_⟩
    · by_cases hc : h = sOptional ∨ h = sUnion
      · have hc' := e1.mpr hc
        simp only [hc, hc', if_true]
      · have : ¬ (β o o' h = sOptional ∨ β o o' h = sUnion) := fun x => hc (e1.mp x)
        simp only [hc, this, if_false]
    · by_cases hc : h = sOptional
      · subst hc
        have hb := e2.mpr rfl
        simp only [hb, if_true]
      · have n1 : ¬ β o o' h = sOptional := fun x => hc (e2.mp x)
        simp only [hc, n1, if_false]
        by_cases hc2 : h = sUnion
        · subst hc2
          have hb := e3.mpr rfl
          simp only [hb, if_true]
        · have n2 : ¬ β o o' h = sUnion := fun x => hc2 (e3.mp x)
          simp only [hc2, n2, if_false]
  · intro args ih hn
    simp only [namesOK] at hn
    have hm := namesOKL_mem hn
    have hlists : altsL (renL (β o o') args) = altsL args ∧ hasNoneL (renL (β o o') args) = hasNoneL args := by
      clear hn
      induction args with
      | nil => exact ⟨rfl, rfl⟩
      | cons a l ihl =>
        obtain ⟨h1, h2⟩ := ih a (List.mem_cons_self ..) (hm a (List.mem_cons_self ..))
        obtain ⟨h3, h4⟩ := ihl (fun x hx => ih x (List.mem_cons_of_mem _ hx)) (fun x hx => hm x (List.mem_cons_of_mem _ hx))
        simp only [renL, altsL, hasNoneL, h1, h2, h3, h4]
        exact ⟨trivial, trivial⟩
    simp only [ren, alts, hasNone, hlists.1, hlists.2]
    exact ⟨trivial, trivial⟩

theorem denote_ren (o o' : Opts) (e : TExpr) (hn : namesOK o e = true) : denote (ren (β o o') e) = denote e := by
  obtain ⟨h1, h2⟩ := alts_ren o o' e hn
  simp only [denote, h1, h2]

/-- `spelling_invariant`, typing-versus-builtin-versus-abstract part (no union operator): for every
tree whose names are plain and are not themselves container names, the four container spellings
render to expressions with the same denotation. -/
theorem denote_hintE_collections (o o' : Opts) (ho : o.unionOp = false) (ho' : o'.unionOp = false) (t : DT)
    (hw : wfTree t = true) (hf : freeTree t = true) : denote (hintE o' t).1 = denote (hintE o t).1 := by
  obtain ⟨h1, h2⟩ := hintE_ren o o' ho ho' t hw hf
  rw [h1]
  exact denote_ren o o' _ h2

end Dcg.Proofs.Types
