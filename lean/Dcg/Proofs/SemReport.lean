import Dcg.Proofs.SemSound
import Dcg.Model.Report
/-
C04, `keyword_roundtrip` at nested places: the keywords pydantic reports for the constraints found at a
place of the IR are the keywords (and values) of the schema standing at that place.
-/
namespace Dcg.Proofs.Sem
open Dcg.Sem Dcg.Sem.Pyd Dcg.Model.Constraints Dcg.Model.Translate Dcg.Model.Report

theorem mergeCons_empty_left (c : Cons) : mergeCons {} c = c := by
  cases c; simp [mergeCons]

theorem mergeCons_empty_right (c : Cons) : mergeCons c {} = c := by
  obtain ⟨a1, a2, a3, a4, a5, a6, a7, a8, a9, a10, a11⟩ := c
  cases a1 <;> cases a2 <;> cases a3 <;> cases a4 <;> cases a5 <;> cases a6 <;> cases a7 <;> cases a8 <;>
    cases a9 <;> cases a10 <;> cases a11 <;> rfl

theorem bounds_noCons (b : Bounds) (h : boundsHasConstraint b = false) : b = {} := by
  obtain ⟨mn, mx, xmn, xmx, mul, minl, maxl, pat⟩ := b
  simp only [boundsHasConstraint, Bool.or_eq_false_iff, Option.isSome_eq_false_iff,
    Option.isNone_iff_eq_none] at h
  obtain ⟨⟨⟨⟨⟨⟨⟨rfl, rfl⟩, rfl⟩, rfl⟩, rfl⟩, rfl⟩, rfl⟩, rfl⟩ := h
  rfl

theorem reportBounds_empty (st : Style) (ty : STy) : reportBounds st ty {} = {} := by
  cases ty <;> simp [reportBounds, famOf, repNum, repLen, repPat]

/-- numbers: the five numeric keywords come back, whatever the routing table, as long as it routes them to
ge / le / gt / lt / multiple_of and the cast keeps the values -/
theorem report_num (st : Style) (ty : STy) (hty : ty = .integer ∨ ty = .number)
    (route : String → Option String) (cast : String → Dec → Dec) (b : Bounds)
    (h1 : route "minimum" = some "ge") (h2 : route "maximum" = some "le")
    (h3 : route "exclusiveMinimum" = some "gt") (h4 : route "exclusiveMaximum" = some "lt")
    (h5 : route "multipleOf" = some "multiple_of") (hns : b.noString = true)
    (hc : ∀ pk d, (d ∈ b.minimum ∨ d ∈ b.maximum ∨ d ∈ b.exclMin ∨ d ∈ b.exclMax ∨ d ∈ b.multipleOf) → cast pk d = d) :
    reportBounds st ty (consOfBounds route cast b) = b := by
  obtain ⟨mn, mx, xmn, xmx, mul, minl, maxl, pat⟩ := b
  simp only [Bounds.noString, Bool.and_eq_true, Option.isNone_iff_eq_none] at hns
  obtain ⟨⟨rfl, rfl⟩, rfl⟩ := hns
  rcases hty with rfl | rfl <;>
    cases mn <;> cases mx <;> cases xmn <;> cases xmx <;> cases mul <;>
    simp_all [consOfBounds, put, Cons.set, reportBounds, famOf, repNum, repLen, repPat, reported, setNum]

theorem report_str (st : Style) (route : String → Option String) (cast : String → Dec → Dec) (b : Bounds)
    (h1 : route "minLength" = some "min_length") (h2 : route "maxLength" = some "max_length")
    (h3 : route "pattern" = some (patKw st)) (hnn : b.noNumeric = true) :
    reportBounds st .string (consOfBounds route cast b) = b := by
  obtain ⟨mn, mx, xmn, xmx, mul, minl, maxl, pat⟩ := b
  simp only [Bounds.noNumeric, Bool.and_eq_true, Option.isNone_iff_eq_none] at hnn
  obtain ⟨⟨⟨⟨rfl, rfl⟩, rfl⟩, rfl⟩, rfl⟩ := hnn
  cases st <;> cases minl <;> cases maxl <;> cases pat <;>
    simp_all [consOfBounds, put, Cons.set, reportBounds, famOf, repNum, repLen, repPat, reported, setLen,
      setPat, patKw]

theorem bool_bounds_empty (b : Bounds) (h : scalarOK .boolean b = true) : b = {} := by
  obtain ⟨mn, mx, xmn, xmx, mul, minl, maxl, pat⟩ := b
  simp only [scalarOK, Bounds.noNumeric, Bounds.noString, Bool.and_eq_true, Option.isNone_iff_eq_none] at h
  obtain ⟨⟨⟨⟨⟨rfl, rfl⟩, rfl⟩, rfl⟩, rfl⟩, ⟨rfl, rfl⟩, rfl⟩ := h
  rfl

/-- constrained types report the keywords of the schema -/
theorem report_typeCons (st : Style) (o : Opts) (h : TableOK st) (ty : STy) (b : Bounds)
    (hok : scalarOK ty b = true) (hfc : o.fieldConstraints = false) :
    reportBounds st ty (typeCons st o ty b) = b := by
  obtain ⟨⟨i1, i2, i3, i4, i5⟩, ⟨n1, n2, n3, n4, n5⟩, ⟨s1, s2, s3⟩, _, _, _, _, _⟩ := h
  simp only [typeCons, hfc, Bool.false_eq_true, if_false]
  cases ty with
  | integer =>
    simp only [scalarOK, Bool.and_eq_true] at hok
    exact report_num st .integer (Or.inl rfl) _ _ b i1 i2 i3 i4 i5 hok.1
      (fun pk d hd => castValue_integral _ _ _ _ (integral_mem _ hok.2 d hd))
  | number =>
    simp only [scalarOK] at hok
    exact report_num st .number (Or.inr rfl) _ _ b n1 n2 n3 n4 n5 hok (fun pk d _ => by simp [castValue])
  | string =>
    simp only [scalarOK] at hok
    exact report_str st _ _ b s1 s2 s3 hok
  | boolean =>
    rw [bool_bounds_empty b hok]
    simp [famOf, reportBounds]

/-- `Field()` arguments report the keywords of the schema -/
theorem report_fieldCons (st : Style) (h : TableOK st) (ty : STy) (b : Bounds)
    (hok : scalarOK ty b = true) :
    reportBounds st ty (fieldConsOfBounds st ty b) = b := by
  obtain ⟨_, _, _, ⟨f1, f2, f3, f4, f5⟩, ⟨g1, g2, g3⟩, _, _, _⟩ := h
  simp only [fieldConsOfBounds]
  cases ty with
  | integer =>
    simp only [scalarOK, Bool.and_eq_true] at hok
    exact report_num st .integer (Or.inl rfl) _ _ b f1 f2 f3 f4 f5 hok.1
      (fun pk d hd => castValue_integral _ _ _ _ (integral_mem _ hok.2 d hd))
  | number =>
    simp only [scalarOK] at hok
    exact report_num st .number (Or.inr rfl) _ _ b f1 f2 f3 f4 f5 hok (fun pk d _ => by simp [castValue, famOf])
  | string =>
    simp only [scalarOK] at hok
    exact report_str st _ _ b g1 g2 g3 hok
  | boolean =>
    rw [bool_bounds_empty b hok]
    simp [famOf, reportBounds]

theorem placeCons_scalarCore (st : Style) (o : Opts) (ty : STy) (n : Bool) (b : Bounds) :
    placeCons (scalarCore st o ty n b) = typeCons st o ty b := by
  cases n <;> simp [scalarCore, placeCons]

theorem typeCons_fc (st : Style) (o : Opts) (ty : STy) (b : Bounds) (h : o.fieldConstraints = true) :
    typeCons st o ty b = {} := by simp [typeCons, h]

/-- THE SCALAR LEAF at any place: a document / definition, an array item, a union alternative, the value
schema of `additionalProperties` — the reported keywords are those of the schema, outside the region of
known finding D11 (`strictSafe`: a constrained scalar in a plain standalone place under `field_constraints`) -/
theorem scalar_place_report (st : Style) (o : Opts) (h : TableOK st) (ctx : Ctx) (ty : STy) (n : Bool)
    (b : Bounds) (hok : scalarOK ty b = true)
    (hs : strictSafe st o.fieldConstraints ctx (.scalar ty n b) = true) :
    reportBounds st ty (placeCons (tr st o ctx (.scalar ty n b))) = b := by
  have hA := fun hfc => report_typeCons st o h ty b hok hfc
  have hB := report_fieldCons st h ty b hok
  cases hfc : o.fieldConstraints with
  | false =>
    have hcore : reportBounds st ty (placeCons (scalarCore st o ty n b)) = b := by
      rw [placeCons_scalarCore]; exact hA hfc
    cases ctx with
    | top => simpa only [tr, placeCons, rootCons, hfc, Bool.false_eq_true, if_false, mergeCons_empty_left] using hcore
    | plain => simpa only [tr] using hcore
    | item phc =>
      simp only [tr]
      split
      · simpa only [placeCons, rootCons, hfc, Bool.false_eq_true, if_false, mergeCons_empty_left] using hcore
      · exact hcore
  | true =>
    have hcore : placeCons (scalarCore st o ty n b) = {} := by
      rw [placeCons_scalarCore, typeCons_fc st o ty b hfc]
    cases ctx with
    | top =>
      simp only [tr, placeCons, rootCons, hfc, if_true, hcore, mergeCons_empty_right]
      exact hB
    | plain =>
      simp only [strictSafe, hfc, beq_self_eq_true, Bool.and_true, Bool.not_true, Bool.false_or,
        Bool.not_eq_true'] at hs
      simp only [tr, hcore, reportBounds_empty]
      exact (bounds_noCons b hs).symm
    | item phc =>
      simp only [tr, hfc, Bool.or_true, Bool.and_true]
      cases hb : boundsHasConstraint b with
      | true =>
        simp only [if_true, placeCons, rootCons, hfc, hcore, mergeCons_empty_right]
        exact hB
      | false =>
        simp only [Bool.false_eq_true, if_false, hcore, reportBounds_empty]
        exact (bounds_noCons b hb).symm

/-- a scalar MEMBER: its `Field()` arguments together with its type -/
theorem scalar_member_report (st : Style) (o : Opts) (h : TableOK st) (ty : STy) (n : Bool) (b : Bounds)
    (hok : scalarOK ty b = true) :
    reportBounds st ty (mergeCons (fieldCons st o (.scalar ty n b)) (placeCons (tr st o .plain (.scalar ty n b))))
      = b := by
  cases hfc : o.fieldConstraints with
  | false =>
    simp only [fieldCons, hfc, Bool.false_eq_true, if_false, mergeCons_empty_left, tr, placeCons_scalarCore]
    exact report_typeCons st o h ty b hok hfc
  | true =>
    simp only [fieldCons, hfc, if_true, tr, placeCons_scalarCore, typeCons_fc st o ty b hfc,
      mergeCons_empty_right]
    exact report_fieldCons st h ty b hok

theorem reportItems_consOfItems (st : Style) (h : TableOK st) (mn mx : Option Nat) :
    reportItems st (consOfItems (fieldKw st) mn mx) = (mn, mx) := by
  obtain ⟨_, _, _, _, _, ⟨a1, a2⟩, _, _⟩ := h
  cases st <;> cases mn <;> cases mx <;>
    simp_all [reportItems, consOfItems, put, Cons.set, reported, minItemsKw, maxItemsKw]

/-- ITEM COUNTS of an array standing at a place (not a member): reported as stated, outside the region of
known finding D31 (`strictSafe`: an array nested in an array / union without `field_constraints`, an array
as `additionalProperties` value) -/
theorem array_place_report (st : Style) (o : Opts) (h : TableOK st) (ctx : Ctx) (items : Schema)
    (mn mx : Option Nat) (hs : strictSafe st o.fieldConstraints ctx (.array items mn mx) = true) :
    reportItems st (placeCons (tr st o ctx (.array items mn mx))) = (mn, mx) := by
  have hI := reportItems_consOfItems st h mn mx
  have hnone : (mn.isSome || mx.isSome) = false → reportItems st ({} : Cons) = (mn, mx) := by
    intro hc
    cases mn <;> cases mx <;> simp at hc
    cases st <;> simp [reportItems, reported]
  simp only [strictSafe, Bool.and_eq_true] at hs
  cases ctx with
  | top =>
    simp only [tr, placeCons, mergeCons_empty_right]
    exact hI
  | plain =>
    have hc : (mn.isSome || mx.isSome) = false := by simpa using hs.1
    simp only [tr, placeCons]
    exact hnone hc
  | item phc =>
    simp only [tr]
    cases hc : (mn.isSome || mx.isSome) with
    | false =>
      simp only [Bool.false_and, Bool.false_eq_true, if_false, placeCons]
      exact hnone hc
    | true =>
      have hfc : o.fieldConstraints = true := by simpa [hc] using hs.1
      simp only [hfc, Bool.or_true, Bool.and_true, if_true, placeCons, rootCons, mergeCons_empty_right]
      exact hI

/-- a member that is an array: the item counts travel in its `Field()` in every routing -/
theorem array_member_report (st : Style) (o : Opts) (h : TableOK st) (items : Schema) (mn mx : Option Nat) :
    reportItems st (fieldCons st o (.array items mn mx)) = (mn, mx) := by
  simp only [fieldCons]
  exact reportItems_consOfItems st h mn mx

end Dcg.Proofs.Sem
