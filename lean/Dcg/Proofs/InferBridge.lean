import Dcg.Model.InferBridge
import Dcg.Proofs.Infer
/-!
Helper lemmas for the composed C16 theorems (Props/C16.lean), part 1 — everything that does not need
C03's proofs: `toJson` is a section of `toLite`; `wf` is an invariant of `add`; `wf n` puts
`toSchema n` inside C03's `InSubset`; `validL n (toLite w)` implies `validJ f (toSchema n) w` for every
`f ≥ fuel n`. Core Lean only.
-/
set_option linter.unusedSimpArgs false
set_option linter.unusedVariables false
namespace Dcg.Proofs.InferBridge
open Dcg.Sem Dcg.Model.Infer Dcg.Model.InferBridge Dcg.Model.Constraints Dcg.Proofs.Infer

/-! ### values -/

mutual
theorem toLite_toJson : ∀ v : LJson, toLite (toJson v) = v
  | .null => by simp [toJson, toLite]
  | .bool _ => by simp [toJson, toLite]
  | .int _ => by simp [toJson, toLite]
  | .flt b => by cases b <;> simp [toJson, toLite, Dec.isInt]
  | .str _ => by simp [toJson, toLite]
  | .arr xs => by simp [toJson, toLite, toLiteL_toJsonL xs]
  | .obj kvs => by simp [toJson, toLite, toLiteP_toJsonP kvs]
theorem toLiteL_toJsonL : ∀ xs : List LJson, toLiteL (toJsonL xs) = xs
  | [] => by simp [toJsonL, toLiteL]
  | x :: xs => by simp [toJsonL, toLiteL, toLite_toJson x, toLiteL_toJsonL xs]
theorem toLiteP_toJsonP : ∀ kvs : List (Key × LJson), toLiteP (toJsonP kvs) = kvs
  | [] => by simp [toJsonP, toLiteP]
  | (k, v) :: r => by simp [toJsonP, toLiteP, toLite_toJson v, toLiteP_toJsonP r]
end

theorem toLiteL_eq_map (xs : List SJson) : toLiteL xs = xs.map toLite := by
  induction xs with
  | nil => simp [toLiteL]
  | cons x xs ih => simp [toLiteL, ih]

theorem toLiteP_eq_map (kvs : List (List Char × SJson)) :
    toLiteP kvs = kvs.map (fun kv => (kv.1, toLite kv.2)) := by
  induction kvs with
  | nil => simp [toLiteP]
  | cons p r ih => obtain ⟨k, v⟩ := p; simp [toLiteP, ih]

theorem toProps_eq_map (ps : List (Key × Node)) :
    toProps ps = ps.map (fun p => (p.1, toSchema p.2)) := by
  induction ps with
  | nil => simp [toProps]
  | cons p r ih => obtain ⟨k, n⟩ := p; simp [toProps, ih]

theorem names_toProps (ps : List (Key × Node)) : (toProps ps).map (·.1) = ps.map (·.1) := by
  simp [toProps_eq_map, List.map_map, Function.comp_def]

/-! ### association lists (own copies: nothing here depends on another property's helper names) -/

theorem lookup_mem' {α : Type} (kvs : List (List Char × α)) (k : List Char) (v : α)
    (h : kvs.lookup k = some v) : (k, v) ∈ kvs := by
  induction kvs with
  | nil => simp [List.lookup] at h
  | cons p ps ih =>
    obtain ⟨k', v'⟩ := p
    simp only [List.lookup] at h
    split at h
    · rename_i heq
      have : k = k' := by simpa using heq
      simp at h
      subst this; subst h
      simp
    · exact List.mem_cons_of_mem _ (ih h)

theorem contains_names_of_mem {α : Type} (ps : List (List Char × α)) (k : List Char) (v : α)
    (h : (k, v) ∈ ps) : (ps.map (·.1)).contains k = true := by
  simp only [List.contains_iff_mem, List.mem_map]
  exact ⟨(k, v), h, rfl⟩

theorem mem_lookup_of_nodup' {α : Type} (ps : List (List Char × α)) (k : List Char) (v : α)
    (hn : namesNodup (ps.map (·.1)) = true) (h : (k, v) ∈ ps) : ps.lookup k = some v := by
  induction ps with
  | nil => simp at h
  | cons p ps ih =>
    obtain ⟨k', v'⟩ := p
    simp only [List.map, namesNodup, Bool.and_eq_true, Bool.not_eq_true'] at hn
    simp only [List.mem_cons, Prod.mk.injEq] at h
    cases h with
    | inl h =>
      obtain ⟨rfl, rfl⟩ := h
      simp [List.lookup]
    | inr h =>
      have hne : k ≠ k' := by
        intro heq
        subst heq
        have := contains_names_of_mem ps k v h
        rw [this] at hn
        exact absurd hn.1 (by simp)
      simp only [List.lookup]
      have : (k == k') = false := by simpa using hne
      rw [this]
      exact ih hn.2 h

theorem lookup_isSome_iff {α : Type} (ps : List (List Char × α)) (k : List Char) :
    (ps.lookup k).isSome = (ps.map (·.1)).contains k := by
  induction ps with
  | nil => simp [List.lookup]
  | cons p r ih =>
    obtain ⟨k', v'⟩ := p
    simp only [List.lookup, List.map, List.contains_cons]
    cases h : k == k' <;> simp [ih]

theorem lookup_toLiteP (kvs : List (List Char × SJson)) (k : List Char) :
    (toLiteP kvs).lookup k = (kvs.lookup k).map toLite := by
  induction kvs with
  | nil => simp [toLiteP, List.lookup]
  | cons p r ih =>
    obtain ⟨k', v'⟩ := p
    simp only [toLiteP, List.lookup]
    cases h : k == k' <;> simp [ih]

theorem keys_toLiteP (kvs : List (List Char × SJson)) :
    Dcg.Sem.JsonLite.keys (toLiteP kvs) = kvs.map (·.1) := by
  simp [Dcg.Sem.JsonLite.keys, toLiteP_eq_map, List.map_map, Function.comp_def]

theorem hasKey_eq (kvs : List (List Char × SJson)) (k : List Char) :
    hasKey kvs k = (Dcg.Sem.JsonLite.keys (toLiteP kvs)).contains k := by
  rw [keys_toLiteP, hasKey, lookup_isSome_iff]

/-! ### `validList` / `validProps` pointwise -/

theorem validList_mem {n : Node} : ∀ {ys : List LJson}, validList n ys = true →
    ∀ y ∈ ys, validL n y = true
  | [], _, y, hy => by simp at hy
  | x :: xs, h, y, hy => by
    simp only [validList, Bool.and_eq_true] at h
    cases List.mem_cons.mp hy with
    | inl e => subst e; exact h.1
    | inr e => exact validList_mem h.2 y e

theorem validProps_mem {ps : List (Key × Node)} : ∀ {kvs : List (Key × LJson)},
    validProps ps kvs = true → ∀ k v, (k, v) ∈ kvs → ∀ pn, ps.lookup k = some pn → validL pn v = true
  | [], _, k, v, hm, _, _ => by simp at hm
  | (k0, v0) :: r, h, k, v, hm, pn, hl => by
    simp only [validProps, Bool.and_eq_true] at h
    cases List.mem_cons.mp hm with
    | inl e =>
      have e1 : k = k0 := by simpa using congrArg Prod.fst e
      have e2 : v = v0 := by simpa using congrArg Prod.snd e
      subst e1; subst e2
      have h1 := h.1
      simp only [hl] at h1
      exact h1
    | inr e => exact validProps_mem h.2 k v e pn hl

/-! ### children of a node -/

theorem fuel_arr {n items : Node} (h : n.arr = some items) : fuel items + 3 ≤ fuel n := by
  obtain ⟨nu, bo, st, nm, ar, ho, ps, rq⟩ := n
  simp only [Node.arr] at h
  subst h
  simp only [fuel, fuelO]
  omega

theorem fuelP_mem {ps : List (Key × Node)} {k : Key} {pn : Node} (h : (k, pn) ∈ ps) :
    fuel pn ≤ fuelP ps := by
  induction ps with
  | nil => simp at h
  | cons p r ih =>
    obtain ⟨k', n'⟩ := p
    simp only [fuelP]
    cases List.mem_cons.mp h with
    | inl e =>
      have : pn = n' := by simpa using congrArg Prod.snd e
      subst this; omega
    | inr e => have := ih e; omega

theorem fuel_prop {n pn : Node} {k : Key} (h : (k, pn) ∈ n.props) : fuel pn + 3 ≤ fuel n := by
  obtain ⟨nu, bo, st, nm, ar, ho, ps, rq⟩ := n
  simp only [Node.props] at h
  have := fuelP_mem h
  simp only [fuel]
  omega

theorem fuel_pos (n : Node) : 3 ≤ fuel n := by
  obtain ⟨nu, bo, st, nm, ar, ho, ps, rq⟩ := n
  simp only [fuel]; omega

theorem wfP_mem {ps : List (Key × Node)} (h : wfP ps = true) {k : Key} {pn : Node}
    (hm : (k, pn) ∈ ps) : wf pn = true := by
  induction ps with
  | nil => simp at hm
  | cons p r ih =>
    obtain ⟨k', n'⟩ := p
    simp only [wfP, Bool.and_eq_true] at h
    cases List.mem_cons.mp hm with
    | inl e =>
      have : pn = n' := by simpa using congrArg Prod.snd e
      subst this; exact h.1
    | inr e => exact ih h.2 e

theorem wf_parts {n : Node} (h : wf n = true) :
    wfO n.arr = true ∧ wfP n.props = true ∧ namesNodup (n.props.map (·.1)) = true ∧
      n.req.all (fun k => (n.props.map (·.1)).contains k) = true := by
  obtain ⟨nu, bo, st, nm, ar, ho, ps, rq⟩ := n
  simpa [wf, Node.arr, Node.props, Node.req, and_assoc] using h

theorem wf_arr {n items : Node} (h : wf n = true) (ha : n.arr = some items) : wf items = true := by
  have := (wf_parts h).1
  rw [ha] at this
  simpa [wfO] using this

theorem toSchema_eq (n : Node) : toSchema n = ofAlts (altsOf n) := by
  obtain ⟨nu, bo, st, nm, ar, ho, ps, rq⟩ := n
  rw [toSchema]
  rfl

theorem altsOf_empty {n : Node} (h : n.isEmpty = true) : altsOf n = [] := by
  obtain ⟨nu, bo, st, nm, ar, ho, ps, rq⟩ := n
  simp only [Node.isEmpty, Node.null, Node.bool, Node.str, Node.num, Node.arr, Node.hasObj,
    Bool.and_eq_true, Bool.not_eq_true', Option.isNone_iff_eq_none] at h
  obtain ⟨⟨⟨⟨⟨h1, h2⟩, h3⟩, h4⟩, h5⟩, h6⟩ := h
  subst h1 h2 h3 h4 h5 h6
  simp [altsOf, scalarAlts, arrAlt, Node.null, Node.bool, Node.str, Node.num, Node.arr, Node.hasObj]


/-! ### the alternatives present in `toSchema n` -/

theorem mem_null {n : Node} (h : n.null = true) : Schema.null ∈ altsOf n := by
  simp [altsOf, h]

theorem mem_bool {n : Node} (h : n.bool = true) : plain .boolean ∈ altsOf n := by
  simp [altsOf, scalarAlts, h]

theorem mem_str {n : Node} (h : n.str = true) : plain .string ∈ altsOf n := by
  simp [altsOf, scalarAlts, h]

theorem mem_integer {n : Node} (h : n.num = some .integer) : plain .integer ∈ altsOf n := by
  simp [altsOf, scalarAlts, h]

theorem mem_number {n : Node} (h : n.num = some .number) : plain .number ∈ altsOf n := by
  simp [altsOf, scalarAlts, h]

theorem mem_arr {n items : Node} (h : n.arr = some items) :
    Schema.array (toSchema items) none none ∈ altsOf n := by
  simp [altsOf, arrAlt, h]

theorem mem_obj {n : Node} (h : n.hasObj = true) : objAlt (toProps n.props) n.req ∈ altsOf n := by
  simp [altsOf, h]

/-! ### `validL` ⇒ `validJ` -/

theorem validJ_ofAlts (re : Regex) {as : List Schema} {a : Schema} {w : SJson} {k : Nat} (ha : a ∈ as)
    (f : Nat) (h : ∀ g, k ≤ g → g ≤ f → validJ re g [] a w = true) (hf : k + 1 ≤ f) :
    validJ re f [] (ofAlts as) w = true := by
  match as, ha with
  | [b], ha =>
    have : a = b := by simpa using ha
    subst this
    simpa [ofAlts] using h f (by omega) (Nat.le_refl _)
  | b :: c :: r, ha =>
    obtain ⟨f', rfl⟩ : ∃ f', f = f' + 1 := ⟨f - 1, by omega⟩
    simp only [ofAlts, validJ, List.any_eq_true]
    exact ⟨a, ha, h f' (by omega) (by omega)⟩

theorem validJ_any (re : Regex) (w : SJson) : ∀ f, 1 ≤ f → validJ re f [] .any w = true := by
  intro f hf
  obtain ⟨f', rfl⟩ : ∃ f', f = f' + 1 := ⟨f - 1, by omega⟩
  simp [validJ]

theorem validJ_null (re : Regex) : ∀ f, 1 ≤ f → validJ re f [] .null .null = true := by
  intro f hf
  obtain ⟨f', rfl⟩ : ∃ f', f = f' + 1 := ⟨f - 1, by omega⟩
  simp [validJ, Json.isNull]

theorem validJ_plain (re : Regex) (ty : STy) (w : SJson) (h : validScalar re ty {} w = true) :
    ∀ f, 1 ≤ f → validJ re f [] (plain ty) w = true := by
  intro f hf
  obtain ⟨f', rfl⟩ : ∃ f', f = f' + 1 := ⟨f - 1, by omega⟩
  simp [validJ, plain, h]

theorem numOK_empty (d : Dec) : numOK {} d = true := by simp [numOK]
theorem strOK_empty (re : Regex) (s : List Char) : strOK re {} s = true := by simp [strOK]

theorem isInt_of_e0 (d : Dec) (h : d.e = 0) : d.isInt = true := by
  simp [Dec.isInt, h]

/-- not empty: some strategy is active -/
theorem or_of_not_empty {n : Node} {b : Bool} (he : ¬ n.isEmpty = true) (h : (n.isEmpty || b) = true) :
    b = true := by
  cases hb : n.isEmpty
  · simpa [hb] using h
  · exact absurd hb he

theorem valid_bridge (re : Regex) : ∀ (f : Nat) (n : Node) (w : SJson), wf n = true → fuel n ≤ f →
    validL n (toLite w) = true → validJ re f [] (toSchema n) w = true := by
  intro f
  induction f using Nat.strongRecOn with
  | _ f ih =>
    intro n w hwf hf hv
    have h3 := fuel_pos n
    rw [toSchema_eq]
    by_cases he : n.isEmpty = true
    · rw [altsOf_empty he]
      exact validJ_any re w f (by omega)
    · cases w with
      | null =>
        simp only [toLite, validL] at hv
        exact validJ_ofAlts re (mem_null (or_of_not_empty he hv)) f (fun g hg _ => validJ_null re g hg) (by omega)
      | bool b =>
        simp only [toLite, validL] at hv
        exact validJ_ofAlts re (mem_bool (or_of_not_empty he hv)) f
          (fun g hg _ => validJ_plain re .boolean _ (by simp [validScalar]) g hg) (by omega)
      | str s =>
        simp only [toLite, validL] at hv
        exact validJ_ofAlts re (mem_str (or_of_not_empty he hv)) f
          (fun g hg _ => validJ_plain re .string _ (by simp [validScalar, strOK_empty]) g hg) (by omega)
      | num d =>
        simp only [toLite] at hv
        cases hnum : n.num with
        | none =>
          split at hv <;> simp [validL, hnum] at hv <;> exact absurd hv he
        | some t =>
          cases t with
          | number =>
            exact validJ_ofAlts re (mem_number hnum) f
              (fun g hg _ => validJ_plain re .number _ (by simp [validScalar, numOK_empty]) g hg) (by omega)
          | integer =>
            have hi : d.isInt = true := by
              by_cases h0 : d.e = 0
              · exact isInt_of_e0 d h0
              · rw [if_neg h0] at hv
                simp only [validL, hnum] at hv
                cases hb : n.isEmpty with
                | true => exact absurd hb he
                | false => simpa [hb] using hv
            exact validJ_ofAlts re (mem_integer hnum) f
              (fun g hg _ => validJ_plain re .integer _ (by simp [validScalar, numOK_empty, hi]) g hg) (by omega)
      | arr xs =>
        simp only [toLite, validL] at hv
        have hv' := or_of_not_empty he hv
        cases harr : n.arr with
        | none => simp [harr] at hv'
        | some items =>
          simp only [harr] at hv'
          have hfi := fuel_arr harr
          have hwi := wf_arr hwf harr
          refine validJ_ofAlts re (mem_arr harr) (k := fuel items + 1) f ?_ (by omega)
          intro g hg hgf
          obtain ⟨g', rfl⟩ : ∃ g', g = g' + 1 := ⟨g - 1, by omega⟩
          simp only [validJ, lenOK, Option.all_none, Bool.and_self, Bool.true_and, List.all_eq_true]
          intro x hx
          refine ih g' (by omega) items x hwi (by omega) ?_
          exact validList_mem hv' (toLite x) (by rw [toLiteL_eq_map]; exact List.mem_map_of_mem hx)
      | obj kvs =>
        simp only [toLite, validL] at hv
        have hv' := or_of_not_empty he hv
        simp only [Bool.and_eq_true] at hv'
        obtain ⟨⟨hho, hvp⟩, hrq⟩ := hv'
        obtain ⟨_, hwp, hnd, _⟩ := wf_parts hwf
        refine validJ_ofAlts re (mem_obj hho) (k := fuel n - 1) f ?_ (by omega)
        intro g hg hgf
        obtain ⟨g', rfl⟩ : ∃ g', g = g' + 1 := ⟨g - 1, by omega⟩
        unfold objAlt
        split
        · simp only [validJ, List.all_eq_true]
          intro kv _
          exact validJ_any re kv.2 g' (by omega)
        · simp only [validJ, Bool.and_eq_true, List.all_eq_true, Bool.or_eq_true, bne_iff_ne, ne_eq]
          refine ⟨⟨?_, ?_⟩, Or.inl (by decide)⟩
          · intro k hk
            rw [hasKey_eq]
            exact (List.all_eq_true.mp hrq) k hk
          · intro p hp
            rw [toProps_eq_map] at hp
            obtain ⟨q, hq, rfl⟩ := List.mem_map.mp hp
            obtain ⟨k, pn⟩ := q
            simp only
            cases hl : kvs.lookup k with
            | none => trivial
            | some x =>
              simp only
              have hmem := lookup_mem' kvs k x hl
              have hps : n.props.lookup k = some pn := mem_lookup_of_nodup' n.props k pn hnd hq
              have hfp := fuel_prop hq
              refine ih g' (by omega) pn x (wfP_mem hwp hq) (by omega) ?_
              refine validProps_mem hvp k (toLite x) ?_ pn hps
              rw [toLiteP_eq_map]
              exact List.mem_map.mpr ⟨(k, x), hmem, rfl⟩


/-! ### `wf` is an invariant of `add` -/

theorem namesNodup_iff (xs : List (List Char)) : namesNodup xs = true ↔ xs.Nodup := by
  induction xs with
  | nil => simp [namesNodup]
  | cons x r ih =>
    simp only [namesNodup, Bool.and_eq_true, Bool.not_eq_true', List.nodup_cons, ih]
    constructor
    · rintro ⟨h1, h2⟩
      refine ⟨?_, h2⟩
      intro hm
      have : r.contains x = true := by simpa using hm
      rw [this] at h1; exact absurd h1 (by simp)
    · rintro ⟨h1, h2⟩
      refine ⟨?_, h2⟩
      cases hc : r.contains x with
      | false => rfl
      | true => exact absurd (by simpa using hc) h1

theorem mem_names_upsert (ps : List (Key × Node)) (k : Key) (n : Node) (k' : Key) :
    k' ∈ (upsert ps k n).map (·.1) ↔ k' ∈ ps.map (·.1) ∨ k' = k := by
  induction ps with
  | nil => simp [upsert]
  | cons p r ih =>
    obtain ⟨k1, n1⟩ := p
    simp only [upsert]
    by_cases hk : (k == k1) = true
    · have e : k = k1 := by simpa using hk
      subst e
      simp only [hk, if_true, List.map_cons, List.mem_cons]
      constructor
      · intro h; exact Or.inl h
      · rintro (h | h)
        · exact h
        · exact Or.inl h
    · rw [if_neg hk]
      simp only [List.map_cons, List.mem_cons, ih]
      constructor
      · rintro (h | h | h)
        · exact Or.inl (Or.inl h)
        · exact Or.inl (Or.inr h)
        · exact Or.inr h
      · rintro ((h | h) | h)
        · exact Or.inl h
        · exact Or.inr (Or.inl h)
        · exact Or.inr (Or.inr h)

theorem nodup_names_upsert (ps : List (Key × Node)) (k : Key) (n : Node)
    (h : (ps.map (·.1)).Nodup) : ((upsert ps k n).map (·.1)).Nodup := by
  induction ps with
  | nil => simp [upsert]
  | cons p r ih =>
    obtain ⟨k1, n1⟩ := p
    simp only [List.map_cons, List.nodup_cons] at h
    simp only [upsert]
    by_cases hk : (k == k1) = true
    · simp only [hk, if_true, List.map_cons, List.nodup_cons]
      exact h
    · rw [if_neg hk]
      simp only [List.map_cons, List.nodup_cons]
      refine ⟨?_, ih h.2⟩
      intro hm
      rcases (mem_names_upsert r k n k1).mp hm with hm | hm
      · exact h.1 hm
      · exact hk (by simp [hm])

theorem wfP_upsert (ps : List (Key × Node)) (k : Key) (n : Node) (h : wfP ps = true)
    (hn : wf n = true) : wfP (upsert ps k n) = true := by
  induction ps with
  | nil => simp [upsert, wfP, hn]
  | cons p r ih =>
    obtain ⟨k1, n1⟩ := p
    simp only [wfP, Bool.and_eq_true] at h
    simp only [upsert]
    by_cases hk : (k == k1) = true
    · simp [hk, wfP, hn, h.2]
    · rw [if_neg hk]
      simp [wfP, h.1, ih h.2]

theorem wf_empty : wf Node.empty = true := by
  simp [Node.empty, wf, wfO, wfP, namesNodup]

theorem wf_lookup_getD (ps : List (Key × Node)) (k : Key) (h : wfP ps = true) :
    wf ((ps.lookup k).getD .empty) = true := by
  cases hl : ps.lookup k with
  | none => simpa using wf_empty
  | some pn => simpa using wfP_mem h (lookup_mem' ps k pn hl)

theorem contains_names_addProps (kvs : List (Key × LJson)) (ps : List (Key × Node)) (k : Key) :
    ((addProps ps kvs).map (·.1)).contains k =
      ((ps.map (·.1)).contains k || (Dcg.Sem.JsonLite.keys kvs).contains k) := by
  rw [← lookup_isSome_iff, ← lookup_isSome_iff, addProps_lookup_isSome]

theorem wf_mk {nu bo st : Bool} {nm : Option NumT} {ar : Option Node} {ho : Bool}
    {ps : List (Key × Node)} {rq : List Key} :
    wf (.mk nu bo st nm ar ho ps rq) = true ↔
      (wfO ar = true ∧ wfP ps = true ∧ namesNodup (ps.map (·.1)) = true ∧
        rq.all (fun k => (ps.map (·.1)).contains k) = true) := by
  simp [wf, and_assoc]

mutual
theorem add_wf : ∀ (v : LJson) (n : Node), wf n = true → wf (add n v) = true
  | .null, .mk .., h => by rw [add]; exact wf_mk.mpr (wf_mk.mp h)
  | .bool _, .mk .., h => by rw [add]; exact wf_mk.mpr (wf_mk.mp h)
  | .str _, .mk .., h => by rw [add]; exact wf_mk.mpr (wf_mk.mp h)
  | .int _, .mk .., h => by rw [add]; exact wf_mk.mpr (wf_mk.mp h)
  | .flt _, .mk .., h => by rw [add]; exact wf_mk.mpr (wf_mk.mp h)
  | .arr xs, .mk nu bo st nm ar ho ps rq, h => by
    rw [add]
    obtain ⟨h1, h2, h3, h4⟩ := wf_mk.mp h
    refine wf_mk.mpr ⟨?_, h2, h3, h4⟩
    simp only [wfO]
    apply addList_wf xs
    cases ar with
    | none => simpa using wf_empty
    | some items => simpa [wfO] using h1
  | .obj kvs, .mk nu bo st nm ar ho ps rq, h => by
    rw [add]
    obtain ⟨h1, h2, h3, h4⟩ := wf_mk.mp h
    obtain ⟨g2, g3⟩ := addProps_wf kvs ps h2 h3
    refine wf_mk.mpr ⟨h1, g2, g3, ?_⟩
    rw [List.all_eq_true]
    intro r hr
    rw [contains_names_addProps]
    cases ho with
    | true =>
      simp only [if_true] at hr
      have := (List.all_eq_true.mp h4) r (List.mem_filter.mp hr).1
      rw [this]; rfl
    | false =>
      simp only [Bool.false_eq_true, if_false] at hr
      have := (dedup_mem (Dcg.Sem.JsonLite.keys kvs) r).mp hr
      have : (Dcg.Sem.JsonLite.keys kvs).contains r = true := by simpa using this
      rw [this]; simp
theorem addList_wf : ∀ (xs : List LJson) (n : Node), wf n = true → wf (addList n xs) = true
  | [], _, h => by simpa [addList] using h
  | x :: xs, n, h => by
    simp only [addList]
    exact addList_wf xs _ (add_wf x n h)
theorem addProps_wf : ∀ (kvs : List (Key × LJson)) (ps : List (Key × Node)), wfP ps = true →
    namesNodup (ps.map (·.1)) = true →
    wfP (addProps ps kvs) = true ∧ namesNodup ((addProps ps kvs).map (·.1)) = true
  | [], _, h1, h2 => by simpa [addProps] using ⟨h1, h2⟩
  | (k, v) :: r, ps, h1, h2 => by
    simp only [addProps]
    apply addProps_wf r
    · exact wfP_upsert ps k _ h1 (add_wf v _ (wf_lookup_getD ps k h1))
    · exact (namesNodup_iff _).mpr (nodup_names_upsert ps k _ ((namesNodup_iff _).mp h2))
end

/-- every inferred schema satisfies the invariant -/
theorem infer_wf (v : LJson) : wf (infer v) = true := add_wf v _ wf_empty

/-! ### `wf` puts the schema inside C03's `InSubset` -/

theorem allInSubset_append (as bs : List Schema) :
    Schema.allInSubset (as ++ bs) = (Schema.allInSubset as && Schema.allInSubset bs) := by
  induction as with
  | nil => simp [Schema.allInSubset]
  | cons a r ih => simp [Schema.allInSubset, ih, Bool.and_assoc]

theorem ofAlts_inSubset (as : List Schema) (h : Schema.allInSubset as = true) :
    (ofAlts as).inSubset = true := by
  match as, h with
  | [], _ => simp [ofAlts, Schema.inSubset]
  | [a], h => simpa [ofAlts, Schema.allInSubset] using h
  | a :: b :: r, h => simpa [ofAlts, Schema.inSubset] using h

theorem plain_inSubset (ty : STy) : (plain ty).inSubset = true := by
  cases ty <;> decide

theorem scalarAlts_inSubset (bo : Bool) (nm : Option NumT) (st : Bool) :
    Schema.allInSubset (scalarAlts bo nm st) = true := by
  cases bo <;> cases st <;> rcases nm with _ | _ | _ <;>
    simp [scalarAlts, Schema.allInSubset, plain_inSubset]

mutual
theorem toSchema_inSubset : ∀ n : Node, wf n = true → (toSchema n).inSubset = true
  | .mk nu bo st nm ar ho ps rq, h => by
    obtain ⟨h1, h2, h3, h4⟩ := wf_mk.mp h
    rw [toSchema]
    apply ofAlts_inSubset
    simp only [allInSubset_append, Bool.and_eq_true]
    refine ⟨⟨⟨scalarAlts_inSubset bo nm st, arrAlt_inSubset ar h1⟩, ?_⟩, ?_⟩
    · cases ho with
      | false => simp [Schema.allInSubset]
      | true =>
        simp only [if_true, Schema.allInSubset, Bool.and_true]
        unfold objAlt
        split
        · simp [Schema.inSubset]
        · simp only [Schema.inSubset, names_toProps, Bool.and_eq_true]
          exact ⟨⟨toProps_inSubset ps h2, h3⟩, h4⟩
    · cases nu <;> simp [Schema.allInSubset, Schema.inSubset]
theorem arrAlt_inSubset : ∀ ar : Option Node, wfO ar = true → Schema.allInSubset (arrAlt ar) = true
  | none, _ => by simp [arrAlt, Schema.allInSubset]
  | some items, h => by
    simp only [wfO] at h
    simp [arrAlt, Schema.allInSubset, Schema.inSubset, toSchema_inSubset items h]
theorem toProps_inSubset : ∀ ps : List (Key × Node), wfP ps = true →
    Schema.propsInSubset (toProps ps) = true
  | [], _ => by simp [toProps, Schema.propsInSubset]
  | (k, n) :: r, h => by
    simp only [wfP, Bool.and_eq_true] at h
    simp [toProps, Schema.propsInSubset, toSchema_inSubset n h.1, toProps_inSubset r h.2]
end

theorem toSchemaRoot_inSubset (n : Node) (h : wf n = true) : (toSchemaRoot n).inSubset = true := by
  unfold toSchemaRoot
  split
  · decide
  · exact toSchema_inSubset n h

/-- at the root the empty class and the free-form mapping accept the same documents -/
theorem valid_bridge_root (re : Regex) (f : Nat) (n : Node) (w : SJson) (hw : wf n = true)
    (hf : fuel n ≤ f) (hv : validL n (toLite w) = true) :
    validJ re f [] (toSchemaRoot n) w = true := by
  unfold toSchemaRoot
  split
  · rename_i he
    have h3 := fuel_pos n
    obtain ⟨f', rfl⟩ : ∃ f', f = f' + 1 := ⟨f - 1, by omega⟩
    obtain ⟨nu, bo, st, nm, ar, ho, ps, rq⟩ := n
    simp only [onlyEmptyObject, Node.hasObj, Node.null, Node.bool, Node.str, Node.num, Node.arr,
      Node.props, Node.req, Bool.and_eq_true, Bool.not_eq_true', Option.isNone_iff_eq_none,
      List.isEmpty_iff] at he
    obtain ⟨⟨⟨⟨⟨⟨⟨e1, e2⟩, e3⟩, e4⟩, e5⟩, e6⟩, e7⟩, e8⟩ := he
    subst e1 e2 e3 e4 e5 e6 e7 e8
    cases w with
    | obj kvs => simp [validJ]
    | num d =>
      simp only [toLite] at hv
      split at hv <;> simp [validL, Node.isEmpty, Node.null, Node.bool, Node.str, Node.num,
        Node.arr, Node.hasObj] at hv
    | _ => simp [toLite, validL, Node.isEmpty, Node.null, Node.bool, Node.str, Node.num,
        Node.arr, Node.hasObj] at hv
  · exact valid_bridge re f n w hw hf hv

end Dcg.Proofs.InferBridge
