import Dcg.Proofs.PrintInj
import Dcg.Proofs.Dedup
import Dcg.Model.HintRegion
/-
Dcg.Proofs.SpellOp — the union-operator half of `spelling_invariant`: inside `opRegion`, the
structural rendering with `use_union_operator` denotes the same type as the one without
(`rel_hint`).  The two renderings are NOT related member by member (the text-level de-duplication of
the union loop fires differently: `[Optional[int], int]` vs `[int]`), only semantically:
same alternatives up to repetition (`dd ∘ alts`) and the same `None` flag.
-/
namespace Dcg.Proofs.SpellOp
open Dcg.Model.Types Dcg.Model.HintExpr Dcg.Proofs.Cover Dcg.Proofs.Types Dcg.Proofs.TypesOp Dcg.Proofs.HintOp
open Dcg.Proofs.PrintInj Dcg.Proofs.Dedup
open Dcg.Sem.Typing hiding Str sNone sComma sPipe

/-! ### `Union[…]` spelling: the hints `type_hint` writes have no `None` directly inside a `Union[…]` -/

mutual
/-- every `Union[…]` reachable through `Union[…]` arguments has ≥ 2 arguments, none of them `None` -/
def spineOK : TExpr → Bool
  | .atom _ => true
  | .bor _ => true
  | .app h args => if h = sUnion then decide (2 ≤ args.length) && spineOKL args else true
def spineOKL : List TExpr → Bool
  | [] => true
  | e :: es => !isNoneE e && spineOK e && spineOKL es
end

theorem spineOKL_mem {es : List TExpr} (h : spineOKL es = true) : ∀ e ∈ es, isNoneE e = false ∧ spineOK e = true := by
  induction es with
  | nil => intro e he; cases he
  | cons a l ih =>
    simp only [spineOKL, Bool.and_eq_true, Bool.not_eq_true'] at h
    intro e he
    cases he with
    | head => exact ⟨h.1.1, h.1.2⟩
    | tail _ h' => exact ih h.2 e h'

theorem spineOKL_of_mem {es : List TExpr} (h : ∀ e ∈ es, isNoneE e = false ∧ spineOK e = true) : spineOKL es = true := by
  induction es with
  | nil => rfl
  | cons a l ih =>
    simp only [spineOKL, Bool.and_eq_true, Bool.not_eq_true']
    exact ⟨⟨(h a (List.mem_cons_self ..)).1, (h a (List.mem_cons_self ..)).2⟩,
      ih (fun e he => h e (List.mem_cons_of_mem _ he))⟩

/-- on such a hint `_remove_none_from_union(…, use_union_operator=False)` changes nothing -/
theorem rmU_id : ∀ e, spineOK e = true → rmU e = e := by
  apply TExpr.ind
  · intro s _; rfl
  · intro h args ih hs
    simp only [rmU]
    split
    · rename_i hu
      simp only [spineOK, hu, if_true, Bool.and_eq_true, decide_eq_true_eq] at hs
      have hm := spineOKL_mem hs.2
      have hl : rmUL args = args := by
        clear hs
        induction args with
        | nil => rfl
        | cons a l ihl =>
          simp only [rmUL]
          rw [(hm a (List.mem_cons_self ..)).1]
          simp only [Bool.false_eq_true, if_false]
          rw [ih a (List.mem_cons_self ..) (hm a (List.mem_cons_self ..)).2,
            ihl (fun x hx => ih x (List.mem_cons_of_mem _ hx)) (fun x hx => hm x (List.mem_cons_of_mem _ hx))]
      rw [hl, hu]
      match args, hs.1 with
      | a :: b :: r, _ => rfl
    · rfl
  · intro args _ _; rfl

/-! ### what is compared -/

def isAnyE (e : TExpr) : Bool := print e == sAny

/-- two renderings of one tree mean the same, and agree on the two texts the algorithm tests for -/
structure Rel (T B : TExpr) : Prop where
  hA : dd (alts T) = dd (alts B)
  hN : hasNone T = hasNone B
  hNone : isNoneE T = isNoneE B
  hAny : isAnyE T = isAnyE B

theorem Rel.refl (e : TExpr) : Rel e e := ⟨rfl, rfl, rfl, rfl⟩

theorem Rel.denote {T B : TExpr} (h : Rel T B) : denote T = denote B := by
  unfold Dcg.Sem.Typing.denote
  rw [h.hN]
  exact mkTy_congr _ h.hA

theorem hasNoneL_append (a b : List TExpr) : hasNoneL (a ++ b) = (hasNoneL a || hasNoneL b) := by
  induction a with
  | nil => simp [hasNoneL]
  | cons x l ih => simp [hasNoneL, ih, Bool.or_assoc]

theorem hasNoneL_mem {l : List TExpr} {e : TExpr} (he : e ∈ l) (h : hasNone e = true) : hasNoneL l = true := by
  induction l with
  | nil => cases he
  | cons x r ih =>
    simp only [hasNoneL, Bool.or_eq_true]
    rcases List.mem_cons.mp he with rfl | he
    · exact Or.inl h
    · exact Or.inr (ih he)

theorem hasNoneL_false {l : List TExpr} (h : ∀ e ∈ l, hasNone e = false) : hasNoneL l = false := by
  induction l with
  | nil => rfl
  | cons x r ih =>
    simp only [hasNoneL, Bool.or_eq_false_iff]
    exact ⟨h x (List.mem_cons_self ..), ih (fun e he => h e (List.mem_cons_of_mem _ he))⟩

theorem altsL_mem {l : List TExpr} {e : TExpr} (he : e ∈ l) : ∀ t ∈ alts e, t ∈ altsL l := by
  induction l with
  | nil => cases he
  | cons x r ih =>
    intro t ht
    simp only [altsL, List.mem_append]
    rcases List.mem_cons.mp he with rfl | he
    · exact Or.inl ht
    · exact Or.inr (ih he t ht)

theorem hasNone_isNoneE (e : TExpr) (h : isNoneE e = true) : hasNone e = true := by
  cases e with
  | atom s => simp only [isNoneE, decide_eq_true_eq] at h; subst h; decide
  | app hd args => simp [isNoneE] at h
  | bor args => simp [isNoneE] at h

/-! ### the union loop, semantically (both spellings) -/

/-- Whatever the text-level de-duplication skips, the loop collects the alternatives of all members
(up to repetition) and records every `None`: in the collected members or in the flag. -/
theorem loop_sem (u : Bool) : ∀ (hs acc : List TExpr) (f : Bool),
    (∀ h ∈ hs, wfB h = true) → (∀ a ∈ acc, wfB a = true) →
    (∀ h ∈ hs, wfB (rmE u h) = true) →
    (∀ h ∈ hs, isNoneE h = false → (hasNone (rmE u h) || (print (rmE u h) != print h)) = hasNone h) →
    dd (altsL (unionLoopE u hs acc f).1) = dd (altsL (acc ++ hs)) ∧
    (hasNoneL (unionLoopE u hs acc f).1 || (unionLoopE u hs acc f).2) = (hasNoneL (acc ++ hs) || f) := by
  intro hs
  induction hs with
  | nil => intro acc f _ _ _ _; simp [unionLoopE]
  | cons h hs ih =>
    intro acc f hw ha hr hg
    have hwh := hw h (List.mem_cons_self ..)
    have hws : ∀ x ∈ hs, wfB x = true := fun x hx => hw x (List.mem_cons_of_mem _ hx)
    have hrs : ∀ x ∈ hs, wfB (rmE u x) = true := fun x hx => hr x (List.mem_cons_of_mem _ hx)
    have hgs : ∀ x ∈ hs, isNoneE x = false → (hasNone (rmE u x) || (print (rmE u x) != print x)) = hasNone x :=
      fun x hx => hg x (List.mem_cons_of_mem _ hx)
    simp only [unionLoopE]
    split
    · -- the text is already there: the member is one of the collected ones
      rename_i hc
      obtain ⟨h1, h2⟩ := ih acc f hws ha hrs hgs
      have hmem : h ∈ acc := by
        simp only [List.contains_iff_mem, List.mem_map] at hc
        obtain ⟨d, hd, hp⟩ := hc
        have := print_inj_wfB d (ha d hd) h hwh hp
        rw [← this]; exact hd
      refine ⟨?_, ?_⟩
      · rw [h1]
        have : altsL (acc ++ h :: hs) = altsL acc ++ alts h ++ altsL hs := by
          simp [altsL_append, altsL, List.append_assoc]
        rw [this, altsL_append]
        exact (dd_absorb _ _ _ (altsL_mem hmem)).symm
      · rw [h2]
        simp only [hasNoneL_append, hasNoneL]
        cases hh : hasNone h with
        | false => simp
        | true => simp [hasNoneL_mem hmem hh]
    · split
      · rename_i hn
        obtain ⟨h1, h2⟩ := ih acc true hws ha hrs hgs
        have hnn : isNoneE h = true := (print_none_iff h hwh).mp hn
        refine ⟨?_, ?_⟩
        · rw [h1]
          simp [altsL_append, altsL, alts_isNoneE h hnn]
        · rw [h2]
          simp [hasNoneL_append, hasNoneL, hasNone_isNoneE h hnn]
      · rename_i hn
        have hnn : isNoneE h = false := by
          cases hq : isNoneE h with
          | false => rfl
          | true => exact absurd ((print_none_iff h hwh).mpr hq) hn
        have ha' : ∀ x ∈ acc ++ [rmE u h], wfB x = true := by
          intro x hx
          rcases List.mem_append.mp hx with hx | hx
          · exact ha x hx
          · simp only [List.mem_singleton] at hx; subst hx; exact hr h (List.mem_cons_self ..)
        obtain ⟨h1, h2⟩ := ih (acc ++ [rmE u h]) (f || print (rmE u h) != print h) hws ha' hrs hgs
        refine ⟨?_, ?_⟩
        · rw [h1]
          simp [altsL_append, altsL, alts_rmE, List.append_assoc]
        · rw [h2]
          have := hg h (List.mem_cons_self ..) hnn
          simp only [hasNoneL_append, hasNoneL, Bool.or_false]
          rw [← this]
          cases hasNoneL acc <;> cases hasNone (rmE u h) <;> cases hasNoneL hs <;> cases f <;>
            cases (print (rmE u h) != print h) <;> rfl

/-- every collected member is a (cleaned) member -/
theorem loop_mem (u : Bool) : ∀ (hs acc : List TExpr) (f : Bool),
    ∀ d ∈ (unionLoopE u hs acc f).1, d ∈ acc ∨ ∃ h ∈ hs, print h ≠ sNone ∧ d = rmE u h := by
  intro hs
  induction hs with
  | nil => intro acc f d hd; exact Or.inl hd
  | cons h hs ih =>
    intro acc f d hd
    simp only [unionLoopE] at hd
    split at hd
    · rcases ih acc f d hd with h1 | ⟨x, hx, hp⟩
      · exact Or.inl h1
      · exact Or.inr ⟨x, List.mem_cons_of_mem _ hx, hp⟩
    · split at hd
      · rcases ih acc true d hd with h1 | ⟨x, hx, hp⟩
        · exact Or.inl h1
        · exact Or.inr ⟨x, List.mem_cons_of_mem _ hx, hp⟩
      · rename_i hn
        rcases ih _ _ d hd with h1 | ⟨x, hx, hp⟩
        · rcases List.mem_append.mp h1 with h1 | h1
          · exact Or.inl h1
          · simp only [List.mem_singleton] at h1
            exact Or.inr ⟨h, List.mem_cons_self .., hn, h1⟩
        · exact Or.inr ⟨x, List.mem_cons_of_mem _ hx, hp⟩

/-- something is collected as soon as one member is not `None` -/
theorem loop_ne_nil (u : Bool) : ∀ (hs acc : List TExpr) (f : Bool),
    (acc ≠ [] ∨ ∃ h ∈ hs, print h ≠ sNone) → (unionLoopE u hs acc f).1 ≠ [] := by
  intro hs
  induction hs with
  | nil =>
    intro acc f h
    rcases h with h | ⟨x, hx, _⟩
    · exact h
    · cases hx
  | cons h hs ih =>
    intro acc f hx
    simp only [unionLoopE]
    split
    · rename_i hc
      apply ih
      left
      intro he; subst he; simp at hc
    · split
      · rename_i hn
        apply ih
        rcases hx with hx | ⟨x, hxm, hp⟩
        · exact Or.inl hx
        · rcases List.mem_cons.mp hxm with rfl | hxm
          · exact absurd hn hp
          · exact Or.inr ⟨x, hxm, hp⟩
      · apply ih
        left; simp

/-- … and nothing when all are: the union is then optional -/
theorem loop_all_none (u : Bool) : ∀ (hs : List TExpr) (f : Bool), (∀ h ∈ hs, print h = sNone) →
    unionLoopE u hs [] f = ([], f || !hs.isEmpty) := by
  intro hs
  induction hs with
  | nil => intro f _; simp [unionLoopE]
  | cons h hs ih =>
    intro f hn
    simp only [unionLoopE, List.map_nil, List.contains_nil, Bool.false_eq_true, if_false,
      hn h (List.mem_cons_self ..), if_true]
    rw [ih true (fun x hx => hn x (List.mem_cons_of_mem _ hx))]
    simp

/-! ### pairs of renderings -/

/-- related, and each well-formed in its spelling -/
def RelW (T B : TExpr) : Prop := Rel T B ∧ wfU T = true ∧ spineOK T = true ∧ wfB B = true

/-- member by member -/
inductive All2 : List TExpr → List TExpr → Prop
  | nil : All2 [] []
  | cons {t b : TExpr} {ts bs : List TExpr} : RelW t b → All2 ts bs → All2 (t :: ts) (b :: bs)

theorem kids_sem {Ts Bs : List TExpr} (h : All2 Ts Bs) :
    dd (altsL Ts) = dd (altsL Bs) ∧ hasNoneL Ts = hasNoneL Bs := by
  induction h with
  | nil => exact ⟨rfl, rfl⟩
  | cons hab _ ih =>
    simp only [altsL, hasNoneL]
    exact ⟨dd_append_congr hab.1.hA ih.1, by rw [hab.1.hN, ih.2]⟩

theorem forall2_left {Ts Bs : List TExpr} (h : All2 Ts Bs) : ∀ t ∈ Ts, ∃ b ∈ Bs, RelW t b := by
  induction h with
  | nil => intro t ht; cases ht
  | cons hab _ ih =>
    intro t ht
    rcases List.mem_cons.mp ht with rfl | ht
    · exact ⟨_, List.mem_cons_self .., hab⟩
    · obtain ⟨b, hb, hr⟩ := ih t ht
      exact ⟨b, List.mem_cons_of_mem _ hb, hr⟩

theorem forall2_right {Ts Bs : List TExpr} (h : All2 Ts Bs) : ∀ b ∈ Bs, ∃ t ∈ Ts, RelW t b := by
  induction h with
  | nil => intro t ht; cases ht
  | cons hab _ ih =>
    intro b hb
    rcases List.mem_cons.mp hb with rfl | hb
    · exact ⟨_, List.mem_cons_self .., hab⟩
    · obtain ⟨t, ht, hr⟩ := ih b hb
      exact ⟨t, List.mem_cons_of_mem _ ht, hr⟩

theorem forall2_length {Ts Bs : List TExpr} (h : All2 Ts Bs) : Ts.length = Bs.length := by
  induction h with
  | nil => rfl
  | cons _ _ ih => simp [ih]

/-! ### small facts about texts -/

theorem isAnyE_of_mem {e : TExpr} {c : Char} (hc : c ∈ print e) (hn : c ∉ sAny) : isAnyE e = false := by
  simp only [isAnyE, beq_eq_false_iff_ne]
  intro h; rw [h] at hc; exact hn hc

theorem isAnyE_app (h : Str) (args : List TExpr) : isAnyE (.app h args) = false :=
  isAnyE_of_mem (c := '[') (by rw [print_app]; simp) (by simp [sAny])

theorem isAnyE_bor (args : List TExpr) (hw : wfB (.bor args) = true) : isAnyE (.bor args) = false :=
  isAnyE_of_mem (print_bor_has_pipe args hw) (by simp [sAny])

theorem isAnyE_none : isAnyE eNone = false := by decide

/-- a subscription other than `Optional[…]`/`Union[…]` is one alternative, fixed by the denotations of its arguments -/
theorem rel_app (n : Str) (argsT argsB : List TExpr) (hn1 : n ≠ sOptional) (hn2 : n ≠ sUnion)
    (hd : denoteL argsT = denoteL argsB) : Rel (.app n argsT) (.app n argsB) := by
  refine ⟨?_, ?_, rfl, ?_⟩
  · simp only [alts, hn1, hn2, or_self, if_false, hd]
  · simp only [hasNone, hn1, hn2, if_false]
  · rw [isAnyE_app, isAnyE_app]

theorem denoteL_one (x : TExpr) : denoteL [x] = [denote x] := by simp [denoteL, Dcg.Sem.Typing.denote]
theorem denoteL_two (x y : TExpr) : denoteL [x, y] = [denote x, denote y] := by simp [denoteL, Dcg.Sem.Typing.denote]

theorem denote_congr {T B : TExpr} (hA : dd (alts T) = dd (alts B)) (hN : hasNone T = hasNone B) : denote T = denote B := by
  unfold Dcg.Sem.Typing.denote
  rw [hN]; exact mkTy_congr _ hA

theorem names_not_ou (o : Opts) : listName o ≠ sOptional ∧ listName o ≠ sUnion ∧ setName o ≠ sOptional ∧ setName o ≠ sUnion ∧
    dictName o ≠ sOptional ∧ dictName o ≠ sUnion := by
  obtain ⟨u, s, g⟩ := o
  cases u <;> cases s <;> cases g <;> decide

theorem cont_shape (o : Opts) (a : Attrs) (keyE : Option TExpr) (b : TExpr) (hne : print b ≠ []) :
    containerE o a keyE b =
      if a.isList then .app (listName o) [b] else if a.isSet then .app (setName o) [b]
      else if a.isDict then .app (dictName o) [keyE.getD (.atom sStr), b] else b := by
  unfold containerE
  simp [wrap1E, hne]

/-! ### the optional wrapper -/

theorem optT (c : TExpr) (hw : wfU c = true) (hs : spineOK c = true) :
    getOptionalE false c = if isNoneE c then eNone else .app sOptional [c] := by
  unfold getOptionalE
  have hwb := wfB_of_wfU c hw
  simp only [rmE, Bool.false_eq_true, if_false, rmU_id c hs, print_ne_nil_of_wfB c hwb, false_or]
  by_cases hn : isNoneE c = true
  · rw [if_pos ((print_none_iff c hwb).mpr hn), if_pos hn]
  · rw [if_neg (fun hc => hn ((print_none_iff c hwb).mp hc)), if_neg hn]

theorem rmB_none_iff (c : TExpr) (hw : wfB c = true) : print (rmB c) = sNone ↔ isNoneE c = true := by
  constructor
  · intro hp
    cases hq : isNoneE c with
    | true => rfl
    | false =>
      have hok := okD_rmB c hw hq
      have h1 := (print_none_iff _ hok.1).mp hp
      exfalso
      have h2 := hok.2
      cases hr : rmB c with
      | atom s => rw [hr] at h1 h2; simp [noTop, isNoneE] at h1 h2; exact h2 h1
      | app h args => rw [hr] at h1; simp [isNoneE] at h1
      | bor args => rw [hr] at h1; simp [isNoneE] at h1
  · intro hn
    cases c with
    | atom s => simp only [isNoneE, decide_eq_true_eq] at hn; simp [rmB, print_atom, hn]
    | app h args => simp [isNoneE] at hn
    | bor args => simp [isNoneE] at hn

theorem optB (c : TExpr) (hw : wfB c = true) :
    getOptionalE true c = if isNoneE c then eNone else borFlat [rmB c, eNone] := by
  unfold getOptionalE
  simp only [rmE, if_true, print_ne_nil_of_wfB _ (wfB_rmB c hw), false_or]
  by_cases hn : isNoneE c = true
  · rw [if_pos ((rmB_none_iff c hw).mpr hn), if_pos hn]
  · rw [if_neg (fun hc => hn ((rmB_none_iff c hw).mp hc)), if_neg hn]

theorem hne_T (c : TExpr) (hw : wfU c = true) (hs : spineOK c = true) :
    alts c ≠ [] → print (rmE false c) ≠ [] ∧ print (rmE false c) ≠ sNone := by
  intro ha
  have hwb := wfB_of_wfU c hw
  simp only [rmE, Bool.false_eq_true, if_false, rmU_id c hs]
  exact ⟨print_ne_nil_of_wfB c hwb, fun hc => ha (alts_isNoneE c ((print_none_iff c hwb).mp hc))⟩

theorem hne_B (c : TExpr) (hw : wfB c = true) :
    alts c ≠ [] → print (rmE true c) ≠ [] ∧ print (rmE true c) ≠ sNone := by
  intro ha
  simp only [rmE, if_true]
  exact ⟨print_ne_nil_of_wfB _ (wfB_rmB c hw), fun hc => ha (alts_isNoneE c ((rmB_none_iff c hw).mp hc))⟩

theorem any_atom (c : TExpr) (hw : wfB c = true) (h : isAnyE c = true) : c = .atom sAny := by
  simp only [isAnyE, beq_iff_eq] at h
  exact print_inj_wfB c hw (.atom sAny) (by decide) (by rw [h, print_atom])

/-- the end of `type_hint` (`if self.is_optional and type_ != ANY: get_optional_type`) keeps the relation -/
theorem fin_rel (cT cB : TExpr) (fT fB : Bool)
    (hA : dd (alts cT) = dd (alts cB)) (hF : (hasNone cT || fT) = (hasNone cB || fB))
    (hNone : isNoneE cT = isNoneE cB) (hAny : isAnyE cT = isAnyE cB)
    (hwT : wfU cT = true) (hsT : spineOK cT = true) (hwB : wfB cB = true) :
    Rel (finishE false cT fT).1 (finishE true cB fB).1 ∧ spineOK (finishE false cT fT).1 = true := by
  have hwTB := wfB_of_wfU cT hwT
  cases hany : isAnyE cT with
  | true =>
    -- `Any`: never wrapped
    have hanyB : isAnyE cB = true := by rw [← hAny, hany]
    have eT := any_atom cT hwTB hany
    have eB := any_atom cB hwB hanyB
    subst eT; subst eB
    have : print (TExpr.atom sAny) = sAny := print_atom _
    simp only [finishE, this, ne_eq, not_true_eq_false, and_false, if_false]
    exact ⟨Rel.refl _, rfl⟩
  | false =>
    have hanyB : isAnyE cB = false := by rw [← hAny, hany]
    have hpT : print cT ≠ sAny := by simpa [isAnyE] using hany
    have hpB : print cB ≠ sAny := by simpa [isAnyE] using hanyB
    simp only [finishE, hpT, hpB, ne_eq, not_false_eq_true, and_true]
    obtain ⟨a1, n1⟩ := alts_getOptionalE false cT (hne_T cT hwT hsT)
    obtain ⟨a2, n2⟩ := alts_getOptionalE true cB (hne_B cB hwB)
    have hshT := optT cT hwT hsT
    have hshB := optB cB hwB
    -- what the wrapped forms look like
    have hwrapT : isNoneE (getOptionalE false cT) = isNoneE cT ∧ isAnyE (getOptionalE false cT) = false ∧
        spineOK (getOptionalE false cT) = true := by
      rw [hshT]
      cases hq : isNoneE cT with
      | true => simp only [if_true]; exact ⟨by decide, isAnyE_none, rfl⟩
      | false =>
        simp only [Bool.false_eq_true, if_false]
        refine ⟨rfl, isAnyE_app _ _, ?_⟩
        have : sOptional ≠ sUnion := by decide
        simp [spineOK, this]
    have hwrapB : isNoneE (getOptionalE true cB) = isNoneE cB ∧ isAnyE (getOptionalE true cB) = false := by
      rw [hshB]
      cases hq : isNoneE cB with
      | true => simp only [if_true]; exact ⟨by decide, isAnyE_none⟩
      | false =>
        simp only [Bool.false_eq_true, if_false]
        have hok := okD_rmB cB hwB hq
        have hwf := wfB_borFlat_none _ hok
        have hpipe : '|' ∈ print (borFlat [rmB cB, eNone]) := by
          rw [print_borFlat_none _ hok.1]; simp [sPipe]
        refine ⟨?_, isAnyE_of_mem hpipe (by simp [sAny])⟩
        cases hq2 : isNoneE (borFlat [rmB cB, eNone]) with
        | false => rfl
        | true =>
          have := (print_none_iff _ hwf).mpr hq2
          rw [this] at hpipe; simp [sNone] at hpipe
    cases fT <;> cases fB
    · simp only [Bool.false_eq_true, if_false, Bool.or_false] at hF ⊢
      exact ⟨⟨hA, hF, hNone, hAny⟩, hsT⟩
    · simp only [Bool.false_eq_true, if_false, if_true, Bool.or_false, Bool.or_true] at hF ⊢
      exact ⟨⟨by rw [a2]; exact hA, by rw [n2]; exact hF, by rw [hwrapB.1]; exact hNone,
        by rw [hwrapB.2]; exact hany⟩, hsT⟩
    · simp only [Bool.false_eq_true, if_false, if_true, Bool.or_false, Bool.or_true] at hF ⊢
      exact ⟨⟨by rw [a1]; exact hA, by rw [n1]; exact hF, by rw [hwrapT.1]; exact hNone,
        by rw [hwrapT.2.1]; exact hanyB.symm⟩, hwrapT.2.2⟩
    · simp only [if_true]
      exact ⟨⟨by rw [a1, a2]; exact hA, by rw [n1, n2], by rw [hwrapT.1, hwrapB.1]; exact hNone,
        by rw [hwrapT.2.1, hwrapB.2]⟩, hwrapT.2.2⟩

/-! ### one node -/

/-- the two texts before the container and the optional wrapper are put around them, with the flags -/
structure BaseRel (a : Attrs) (bT bB : TExpr) (fT fB : Bool) : Prop where
  hA : dd (alts bT) = dd (alts bB)
  hF : (hasNone bT || fT) = (hasNone bB || fB)
  hNone : isNoneE bT = isNoneE bB
  hAny : isAnyE bT = isAnyE bB
  hC : isCont a = true → hasNone bT = hasNone bB ∧ fT = fB
  wT : wfU bT = true
  sT : spineOK bT = true
  wB : wfB bB = true

def KeyRel : Option TExpr → Option TExpr → Prop
  | none, none => True
  | some x, some y => RelW x y
  | _, _ => False

theorem names_withOp (o : Opts) : listName (withOp o) = listName o ∧ setName (withOp o) = setName o ∧
    dictName (withOp o) = dictName o := ⟨rfl, rfl, rfl⟩

theorem post_rel (o : Opts) (a : Attrs) (keyT keyB : Option TExpr) (bT bB : TExpr) (fT fB rn : Bool)
    (hb : BaseRel a bT bB fT fB) (hk : KeyRel keyT keyB) :
    RelW (finishE false (containerE o a keyT bT) (fT || rn)).1 (finishE true (containerE (withOp o) a keyB bB) (fB || rn)).1 := by
  have hneT := print_ne_nil_of_wfU bT hb.wT
  have hneB := print_ne_nil_of_wfB bB hb.wB
  have hkeyT : ∀ k, keyT = some k → wfU k = true := by
    intro k hk'; subst hk'
    cases keyB with
    | none => exact absurd hk (by simp [KeyRel])
    | some y => exact hk.2.1
  have hkeyB : ∀ k, keyB = some k → wfB k = true := by
    intro k hk'; subst hk'
    cases keyT with
    | none => exact absurd hk (by simp [KeyRel])
    | some y => exact hk.2.2.2
  have hkd : denote (keyT.getD (.atom sStr)) = denote (keyB.getD (.atom sStr)) := by
    cases keyT with
    | none =>
      cases keyB with
      | none => rfl
      | some y => exact absurd hk (by simp [KeyRel])
    | some x =>
      cases keyB with
      | none => exact absurd hk (by simp [KeyRel])
      | some y => exact hk.1.denote
  have hwT := (container_typing o a keyT bT hb.wT hkeyT).2
  have hwB : wfB (containerE (withOp o) a keyB bB) = true := by
    rcases (container_operator (withOp o) a keyB bB false (Or.inl hb.wB) hkeyB).2 with h | ⟨_, h⟩
    · exact h
    · cases h
  have hcT := cont_shape o a keyT bT hneT
  have hcB := cont_shape (withOp o) a keyB bB hneB
  obtain ⟨hn1, hn2, hn3, hn4, hn5, hn6⟩ := names_not_ou o
  obtain ⟨e1, e2, e3⟩ := names_withOp o
  rw [e1, e2, e3] at hcB
  have hfacts : dd (alts (containerE o a keyT bT)) = dd (alts (containerE (withOp o) a keyB bB)) ∧
      (hasNone (containerE o a keyT bT) || (fT || rn)) = (hasNone (containerE (withOp o) a keyB bB) || (fB || rn)) ∧
      isNoneE (containerE o a keyT bT) = isNoneE (containerE (withOp o) a keyB bB) ∧
      isAnyE (containerE o a keyT bT) = isAnyE (containerE (withOp o) a keyB bB) ∧
      spineOK (containerE o a keyT bT) = true := by
    rw [hcT, hcB]
    by_cases hL : a.isList = true
    · have hc := hb.hC (by simp [isCont, hL])
      have hden : denote bT = denote bB := denote_congr hb.hA hc.1
      have hr := rel_app (listName o) [bT] [bB] hn1 hn2 (by rw [denoteL_one, denoteL_one, hden])
      simp only [hL, if_true]
      refine ⟨hr.hA, by rw [hr.hN, hc.2], hr.hNone, hr.hAny, by simp [spineOK, hn2]⟩
    · by_cases hS : a.isSet = true
      · have hc := hb.hC (by simp [isCont, hS])
        have hden : denote bT = denote bB := denote_congr hb.hA hc.1
        have hr := rel_app (setName o) [bT] [bB] hn3 hn4 (by rw [denoteL_one, denoteL_one, hden])
        simp only [hL, hS, if_true, if_false, Bool.false_eq_true]
        refine ⟨hr.hA, by rw [hr.hN, hc.2], hr.hNone, hr.hAny, by simp [spineOK, hn4]⟩
      · by_cases hD : a.isDict = true
        · have hc := hb.hC (by simp [isCont, hD])
          have hden : denote bT = denote bB := denote_congr hb.hA hc.1
          have hr := rel_app (dictName o) [keyT.getD (.atom sStr), bT] [keyB.getD (.atom sStr), bB] hn5 hn6
            (by rw [denoteL_two, denoteL_two, hden, hkd])
          simp only [hL, hS, hD, if_true, if_false, Bool.false_eq_true]
          refine ⟨hr.hA, by rw [hr.hN, hc.2], hr.hNone, hr.hAny, by simp [spineOK, hn6]⟩
        · simp only [hL, hS, hD, if_false, Bool.false_eq_true]
          refine ⟨hb.hA, ?_, hb.hNone, hb.hAny, hb.sT⟩
          have hF := hb.hF
          clear hcT hcB hwT hwB
          revert hF
          generalize hasNone bT = x
          generalize hasNone bB = y
          cases x <;> cases y <;> cases fT <;> cases fB <;> cases rn <;> simp
  obtain ⟨f1, f2, f3, f4, f5⟩ := hfacts
  obtain ⟨r1, r2⟩ := fin_rel _ _ (fT || rn) (fB || rn) f1 f2 f3 f4 hwT f5 hwB
  exact ⟨r1, (finish_typing _ _ hwT).2, r2, (finish_operator _ _ (Or.inl hwB)).2⟩

theorem baseRel_same (a : Attrs) (e : TExpr) (f : Bool) (wT : wfU e = true) (sT : spineOK e = true) :
    BaseRel a e e f f :=
  ⟨rfl, rfl, rfl, rfl, fun _ => ⟨rfl, rfl⟩, wT, sT, wfB_of_wfU e wT⟩

theorem baseRel_single (a : Attrs) (t b : TExpr) (f : Bool) (h : RelW t b) : BaseRel a t b f f :=
  ⟨h.1.hA, by rw [h.1.hN], h.1.hNone, h.1.hAny, fun _ => ⟨h.1.hN, rfl⟩, h.2.1, h.2.2.1, h.2.2.2⟩

/-! ### the union node -/

theorem altsL_flatMap_borArgs (ds : List TExpr) :
    altsL (ds.flatMap borArgs) = altsL ds ∧ hasNoneL (ds.flatMap borArgs) = hasNoneL ds := by
  induction ds with
  | nil => exact ⟨rfl, rfl⟩
  | cons d r ih =>
    simp only [List.flatMap_cons, altsL_append, hasNoneL_append, altsL, hasNoneL, ih.1, ih.2, alts_borArgs]
    refine ⟨trivial, ?_⟩
    congr 1
    cases d with
    | atom s => simp [borArgs, hasNoneL]
    | app h args => simp [borArgs, hasNoneL]
    | bor args => simp [borArgs, hasNone]

/-- `data_types[0] if len(data_types) == 1 else "Union[…]"` -/
def pickU (ds : List TExpr) : TExpr := match ds with
  | [d] => d
  | ds => .app sUnion ds
/-- `data_types[0] if len(data_types) == 1 else " | ".join(data_types)` -/
def pickB (ds : List TExpr) : TExpr := match ds with
  | [d] => d
  | ds => borFlat ds

theorem mkU_sem (ds : List TExpr) (hne : ds ≠ []) :
    alts (pickU ds) = altsL ds ∧ hasNone (pickU ds) = hasNoneL ds := by
  match ds, hne with
  | [d], _ => simp [pickU, altsL, hasNoneL]
  | d1 :: d2 :: r, _ =>
    have : sUnion ≠ sOptional := by decide
    simp [pickU, alts, hasNone, this]

theorem mkB_sem (ds : List TExpr) (hne : ds ≠ []) (hw : ∀ d ∈ ds, wfB d = true) :
    alts (pickB ds) = altsL ds ∧ hasNone (pickB ds) = hasNoneL ds := by
  match ds, hne, hw with
  | [d], _, _ => simp [pickB, altsL, hasNoneL]
  | d1 :: d2 :: r, _, hw =>
    simp only [pickB]
    unfold borFlat
    have hlen : 2 ≤ ((d1 :: d2 :: r).flatMap borArgs).length :=
      Nat.le_trans (by simp) (length_flatMap_ge borArgs _ (fun d hd => borArgs_ne_nil d (hw d hd)))
    rw [mkBorE'_two _ hlen]
    obtain ⟨h1, h2⟩ := altsL_flatMap_borArgs (d1 :: d2 :: r)
    exact ⟨by simp only [alts]; exact h1, by simp only [hasNone]; exact h2⟩

theorem okD_not_none {d : TExpr} (h : okD d) : isNoneE d = false := by
  cases d with
  | atom s => simpa [noTop, isNoneE] using h.2
  | app hd args => rfl
  | bor args => rfl

/-- `None` removal in the `|` spelling changes the text exactly when there was a `None` to remove -/
theorem g4B (h : TExpr) (hw : wfB h = true) (hn : isNoneE h = false) :
    (hasNone (rmB h) || (print (rmB h) != print h)) = hasNone h := by
  cases h with
  | atom s => simp [rmB]
  | app hd args => simp [rmB]
  | bor args =>
    obtain ⟨hlen, _, _, _⟩ := wfB_bor_parts hw
    by_cases hall : ∀ a ∈ args, isNoneE a = false
    · have : args.filter (fun e => !isNoneE e) = args := by
        apply List.filter_eq_self.mpr
        intro a ha; simp [hall a ha]
      simp only [rmB, this]
      match args, hlen with
      | a :: b :: r, _ => simp [mkBorE]
    · have hex : ∃ a ∈ args, isNoneE a = true := by
        apply Classical.byContradiction
        intro hc
        apply hall
        intro a ha
        cases hq : isNoneE a with
        | false => rfl
        | true => exact absurd ⟨a, ha, hq⟩ hc
      obtain ⟨a, ha, hq⟩ := hex
      have hN : hasNone (.bor args) = true := by
        simp only [hasNone]; exact hasNoneL_mem ha (hasNone_isNoneE a hq)
      rw [hN]
      have hok := okD_rmB _ hw hn
      have hne : rmB (.bor args) ≠ .bor args := by
        intro he
        have := hok.2
        rw [he] at this
        simp only [noTop, List.all_eq_true, Bool.not_eq_true'] at this
        rw [this a ha] at hq; cases hq
      have : print (rmB (.bor args)) ≠ print (.bor args) := fun hp => hne (print_inj_wfB _ hok.1 _ hw hp)
      simp [this]

theorem borFlat_any (ds : List TExpr) (hd : ∀ d ∈ ds, okD d) (h2 : 2 ≤ ds.length) : isAnyE (borFlat ds) = false := by
  have hok := wfB_borFlat ds hd h2
  have hlen : 2 ≤ (ds.flatMap borArgs).length :=
    Nat.le_trans h2 (length_flatMap_ge borArgs ds (fun d hdm => borArgs_ne_nil d (hd d hdm).1))
  have he : borFlat ds = .bor (ds.flatMap borArgs) := by unfold borFlat; exact mkBorE'_two _ hlen
  rw [he] at hok ⊢
  exact isAnyE_bor _ hok.1

/-- the union branch of `type_hint`, both spellings, on related members inside the region -/
theorem union_base (a : Attrs) (Ts Bs : List TExpr) (hrel : All2 Ts Bs) (hreg : membersRegion a Ts Bs = true)
    (hsome : ∃ k ∈ Ts, isNoneE k = false) :
    BaseRel a (pickU (unionLoopE false Ts [] a.isOptional).1) (pickB (unionLoopE true Bs [] a.isOptional).1)
      (unionLoopE false Ts [] a.isOptional).2 (unionLoopE true Bs [] a.isOptional).2 := by
  simp only [membersRegion, Bool.and_eq_true, List.all_eq_true, bne_iff_ne, ne_eq, Bool.or_eq_true,
    Bool.not_eq_true', List.any_eq_true] at hreg
  obtain ⟨⟨hanyT, hanyB⟩, hcont⟩ := hreg
  have hTs : ∀ t ∈ Ts, wfU t = true ∧ spineOK t = true ∧ wfB t = true := by
    intro t ht
    obtain ⟨b, _, hr⟩ := forall2_left hrel t ht
    exact ⟨hr.2.1, hr.2.2.1, wfB_of_wfU t hr.2.1⟩
  have hBs : ∀ b ∈ Bs, wfB b = true := by
    intro b hb
    obtain ⟨t, _, hr⟩ := forall2_right hrel b hb
    exact hr.2.2.2
  -- the two loops, semantically
  obtain ⟨sT1, sT2⟩ := loop_sem false Ts [] a.isOptional (fun h hh => (hTs h hh).2.2) (by intro x hx; cases hx)
    (fun h hh => by simp only [rmE, Bool.false_eq_true, if_false, rmU_id h (hTs h hh).2.1]; exact (hTs h hh).2.2)
    (fun h hh _ => by simp only [rmE, Bool.false_eq_true, if_false, rmU_id h (hTs h hh).2.1]; simp)
  obtain ⟨sB1, sB2⟩ := loop_sem true Bs [] a.isOptional hBs (by intro x hx; cases hx)
    (fun h hh => by simp only [rmE, if_true]; exact wfB_rmB h (hBs h hh))
    (fun h hh hn => by simp only [rmE, if_true]; exact g4B h (hBs h hh) hn)
  simp only [List.nil_append] at sT1 sT2 sB1 sB2
  obtain ⟨k1, k2⟩ := kids_sem hrel
  -- members of the collected lists
  have hmT : ∀ d ∈ (unionLoopE false Ts [] a.isOptional).1, d ∈ Ts ∧ isNoneE d = false := by
    intro d hd
    rcases loop_mem false Ts [] a.isOptional d hd with h | ⟨h, hh, hp, he⟩
    · cases h
    · simp only [rmE, Bool.false_eq_true, if_false, rmU_id h (hTs h hh).2.1] at he
      subst he
      refine ⟨hh, ?_⟩
      cases hq : isNoneE d with
      | false => rfl
      | true => exact absurd ((print_none_iff d (hTs d hh).2.2).mpr hq) hp
  have hmB : ∀ d ∈ (unionLoopE true Bs [] a.isOptional).1, ∃ h ∈ Bs, isNoneE h = false ∧ d = rmB h := by
    intro d hd
    rcases loop_mem true Bs [] a.isOptional d hd with h | ⟨h, hh, hp, he⟩
    · cases h
    · refine ⟨h, hh, ?_, by simpa [rmE] using he⟩
      cases hq : isNoneE h with
      | false => rfl
      | true => exact absurd ((print_none_iff h (hBs h hh)).mpr hq) hp
  have hokB : ∀ d ∈ (unionLoopE true Bs [] a.isOptional).1, okD d := by
    intro d hd
    obtain ⟨h, hh, hn, rfl⟩ := hmB d hd
    exact okD_rmB h (hBs h hh) hn
  -- both collect something
  obtain ⟨k, hk, hkn⟩ := hsome
  have hneT : (unionLoopE false Ts [] a.isOptional).1 ≠ [] := by
    apply loop_ne_nil
    right
    exact ⟨k, hk, fun hp => by rw [(print_none_iff k (hTs k hk).2.2).mp hp] at hkn; cases hkn⟩
  have hneB : (unionLoopE true Bs [] a.isOptional).1 ≠ [] := by
    apply loop_ne_nil
    right
    obtain ⟨b, hb, hr⟩ := forall2_left hrel k hk
    refine ⟨b, hb, fun hp => ?_⟩
    have := (print_none_iff b (hBs b hb)).mp hp
    rw [← hr.1.hNone, hkn] at this; cases this
  obtain ⟨uA, uN⟩ := mkU_sem _ hneT
  obtain ⟨bA, bN⟩ := mkB_sem _ hneB (fun d hd => (hokB d hd).1)
  generalize hrT : unionLoopE false Ts [] a.isOptional = rT at *
  generalize hrB : unionLoopE true Bs [] a.isOptional = rB at *
  obtain ⟨accT, fT⟩ := rT
  obtain ⟨accB, fB⟩ := rB
  simp only [] at *
  refine ⟨?_, ?_, ?_, ?_, ?_, ?_, ?_, ?_⟩
  · rw [uA, bA, sT1, sB1]; exact k1
  · rw [uN, bN, sT2, sB2, k2]
  · -- neither is `None`
    have h1 : isNoneE (pickU accT) = false := by
      match accT, hneT, hmT with
      | [d], _, hmT => exact (hmT d (List.mem_cons_self ..)).2
      | d1 :: d2 :: r, _, _ => rfl
    have h2 : isNoneE (pickB accB) = false := by
      match accB, hneB, hokB with
      | [d], _, hokB => exact okD_not_none (hokB d (List.mem_cons_self ..))
      | d1 :: d2 :: r, _, hokB => exact okD_not_none (wfB_borFlat _ hokB (by simp))
    rw [h1, h2]
  · -- neither is `Any`
    have h1 : isAnyE (pickU accT) = false := by
      match accT, hneT, hmT with
      | [d], _, hmT =>
        have := hanyT d (hmT d (List.mem_cons_self ..)).1
        simpa [pickU, isAnyE] using this
      | d1 :: d2 :: r, _, _ => exact isAnyE_app _ _
    have h2 : isAnyE (pickB accB) = false := by
      match accB, hneB, hokB, hmB with
      | [d], _, _, hmB =>
        obtain ⟨h, hh, _, rfl⟩ := hmB d (List.mem_cons_self ..)
        have := hanyB h hh
        simpa [pickB, isAnyE] using this
      | d1 :: d2 :: r, _, hokB, _ => exact borFlat_any _ hokB (by simp)
    rw [h1, h2]
  · -- the node is itself the container: no member carries a `None`, so the flags agree
    intro hc
    have hcm : ∀ x ∈ Ts, isNoneE x = true ∨ hasNone x = false := by
      rcases hcont with h | h
      · rw [hc] at h; cases h
      · exact h.1
    have hnT : hasNoneL accT = false := by
      apply hasNoneL_false
      intro d hd
      obtain ⟨hdm, hdn⟩ := hmT d hd
      rcases hcm d hdm with h | h
      · rw [hdn] at h; cases h
      · exact h
    have hnB : hasNoneL accB = false := by
      apply hasNoneL_false
      intro d hd
      obtain ⟨h, hh, hn, rfl⟩ := hmB d hd
      obtain ⟨t, ht, hr⟩ := forall2_right hrel h hh
      have htn : isNoneE t = false := by rw [hr.1.hNone]; exact hn
      have hth : hasNone t = false := by
        rcases hcm t ht with h' | h'
        · rw [htn] at h'; cases h'
        · exact h'
      have hhh : hasNone h = false := by rw [← hr.1.hN]; exact hth
      have := g4B h (hBs h hh) hn
      rw [hhh] at this
      cases hq : hasNone (rmB h) with
      | false => rfl
      | true => rw [hq] at this; simp at this
    rw [uN, bN, hnT, hnB]
    refine ⟨rfl, ?_⟩
    rw [hnT] at sT2
    rw [hnB] at sB2
    simp only [Bool.false_or] at sT2 sB2
    rw [sT2, sB2, k2]
  · -- well-formed, `Union[…]` spelling
    match accT, hneT, hmT with
    | [d], _, hmT => exact (hTs d (hmT d (List.mem_cons_self ..)).1).1
    | d1 :: d2 :: r, _, hmT =>
      simp only [pickU, wfU, Bool.and_eq_true]
      exact ⟨⟨by decide, by simp⟩, wfUL_of_mem (fun e he => (hTs e (hmT e he).1).1)⟩
  · match accT, hneT, hmT with
    | [d], _, hmT => exact (hTs d (hmT d (List.mem_cons_self ..)).1).2.1
    | d1 :: d2 :: r, _, hmT =>
      simp only [pickU, spineOK, if_true, Bool.and_eq_true, decide_eq_true_eq]
      exact ⟨by simp, spineOKL_of_mem (fun e he => ⟨(hmT e he).2, (hTs e (hmT e he).1).2.1⟩)⟩
  · match accB, hneB, hokB with
    | [d], _, hokB => exact (hokB d (List.mem_cons_self ..)).1
    | d1 :: d2 :: r, _, hokB => exact (wfB_borFlat _ hokB (by simp)).1

/-! ### a node, and the tree -/

theorem withoutOp_eq (o : Opts) (ho : o.unionOp = false) : withoutOp o = o := by
  cases o; simp_all [withoutOp]

theorem baseE_union_T (o : Opts) (ho : o.unionOp = false) (a : Attrs) (hte : a.ty = []) (t1 t2 : TExpr) (ts : List TExpr) :
    baseE o a (t1 :: t2 :: ts) = (pickU (unionLoopE false (t1 :: t2 :: ts) [] a.isOptional).1,
      (unionLoopE false (t1 :: t2 :: ts) [] a.isOptional).2) := by
  simp only [baseE, hte, ho, ne_eq, not_true_eq_false, if_false, Bool.false_eq_true]
  generalize unionLoopE false (t1 :: t2 :: ts) [] a.isOptional = r
  obtain ⟨r1, r2⟩ := r
  match r1 with
  | [] => rfl
  | [d] => rfl
  | d1 :: d2 :: ds => rfl

theorem baseE_union_B (o : Opts) (ho : o.unionOp = true) (a : Attrs) (hte : a.ty = []) (t1 t2 : TExpr) (ts : List TExpr) :
    baseE o a (t1 :: t2 :: ts) = (pickB (unionLoopE true (t1 :: t2 :: ts) [] a.isOptional).1,
      (unionLoopE true (t1 :: t2 :: ts) [] a.isOptional).2) := by
  simp only [baseE, hte, ho, ne_eq, not_true_eq_false, if_false, if_true]
  generalize unionLoopE true (t1 :: t2 :: ts) [] a.isOptional = r
  obtain ⟨r1, r2⟩ := r
  match r1 with
  | [] => rfl
  | [d] => rfl
  | d1 :: d2 :: ds => rfl

theorem relW_none : RelW eNone eNone := ⟨Rel.refl _, by decide, rfl, wfB_eNone⟩

theorem all2_wfUL {Ts Bs : List TExpr} (h : All2 Ts Bs) : wfUL Ts = true :=
  wfUL_of_mem (fun t ht => by obtain ⟨b, _, hr⟩ := forall2_left h t ht; exact hr.2.1)

theorem node_rel (o : Opts) (ho : o.unionOp = false) (a : Attrs) (keyT keyB : Option TExpr) (Ts Bs : List TExpr)
    (hrel : All2 Ts Bs) (hk : KeyRel keyT keyB) (ha : wfAttrs a Ts.length = true)
    (hreg : a.ty = [] → 2 ≤ Ts.length → membersRegion a Ts Bs = true) :
    RelW (hintNodeE o a keyT Ts).1 (hintNodeE (withOp o) a keyB Bs).1 := by
  have hwbase := (base_typing o ho a Ts (all2_wfUL hrel) ha).2
  have hop : (withOp o).unionOp = true := rfl
  simp only [hintNodeE, ho, hop]
  by_cases hte : a.ty = []
  · cases hrel with
    | nil =>
      -- a leaf: literals or a reference, the same expression in both spellings
      have e : baseE (withOp o) a [] = baseE o a [] := by simp [baseE]
      rw [e]
      have hs : spineOK (baseE o a []).1 = true := by
        simp only [baseE, hte, ne_eq, not_true_eq_false, if_false]
        split
        · have : sLiteral ≠ sUnion := by decide
          simp [spineOK, this]
        · split <;> rfl
      exact post_rel o a keyT keyB _ _ _ _ _ (baseRel_same a _ _ hwbase hs) hk
    | @cons t b ts bs r1 rest =>
      cases rest with
      | nil =>
        -- one member: its hint is passed through
        have eT : baseE o a [t] = (t, a.isOptional) := by simp [baseE, hte]
        have eB : baseE (withOp o) a [b] = (b, a.isOptional) := by simp [baseE, hte]
        rw [eT, eB]
        exact post_rel o a keyT keyB _ _ _ _ _ (baseRel_single a t b _ r1) hk
      | @cons t2 b2 ts0 bs0 r2 rest' =>
        have hrel : All2 (t :: t2 :: ts0) (b :: b2 :: bs0) := All2.cons r1 (All2.cons r2 rest')
        have hreg' := hreg hte (by simp)
        rw [baseE_union_T o ho a hte, baseE_union_B (withOp o) hop a hte]
        by_cases hs : ∃ k ∈ t :: t2 :: ts0, isNoneE k = false
        · exact post_rel o a keyT keyB _ _ _ _ _ (union_base a _ _ hrel hreg' hs) hk
        · -- every member is `None`
          have hallT : ∀ k ∈ t :: t2 :: ts0, isNoneE k = true := by
            intro k hk'
            cases hq : isNoneE k with
            | true => rfl
            | false => exact absurd ⟨k, hk', hq⟩ hs
          have hpT : ∀ k ∈ t :: t2 :: ts0, print k = sNone := by
            intro k hk'
            obtain ⟨b, _, hr⟩ := forall2_left hrel k hk'
            exact (print_none_iff k (wfB_of_wfU k hr.2.1)).mpr (hallT k hk')
          have hpB : ∀ k ∈ b :: b2 :: bs0, print k = sNone := by
            intro k hk'
            obtain ⟨t, ht, hr⟩ := forall2_right hrel k hk'
            exact (print_none_iff k hr.2.2.2).mpr (by rw [← hr.1.hNone]; exact hallT t ht)
          rw [loop_all_none false _ _ hpT, loop_all_none true _ _ hpB]
          have hnc : isCont a = false := by
            cases hq : isCont a with
            | false => rfl
            | true =>
              exfalso
              simp only [membersRegion, hq, Bool.not_true, Bool.false_or, Bool.and_eq_true, List.any_eq_true,
                Bool.not_eq_true'] at hreg'
              obtain ⟨k, hk', hkn⟩ := hreg'.2.2
              rw [hallT k hk'] at hkn; cases hkn
          simp only [isCont, Bool.or_eq_false_iff] at hnc
          have hbf : borFlat [] = TExpr.atom [] := by simp [borFlat, borFlat.mkBorE']
          simp only [pickU, pickB, hbf, containerE, hnc.1.1, hnc.1.2, hnc.2, Bool.false_eq_true, if_false,
            List.isEmpty_cons, Bool.not_false, Bool.or_true, Bool.true_or]
          exact relW_none
  · have eT : baseE o a Ts = (.atom a.ty, a.isOptional) := by simp [baseE, hte]
    have eB : baseE (withOp o) a Bs = (.atom a.ty, a.isOptional) := by simp [baseE, hte]
    rw [eT] at hwbase
    rw [eT, eB]
    exact post_rel o a keyT keyB _ _ _ _ _ (baseRel_same a _ _ hwbase rfl) hk

theorem hintEL_map (o : Opts) (kids : List DT) : hintEL o kids = kids.map (fun k => (hintE o k).1) := by
  induction kids with
  | nil => rfl
  | cons c cs ih => simp [hintEL, ih]

/-- THE UNION-OPERATOR HALF OF `spelling_invariant`: for a tree with plain names inside `opRegion`,
the structural rendering with `use_union_operator` and the one without are related — same
alternatives up to repetition, same `None` — hence denote the same type. -/
theorem rel_hint (o : Opts) (ho : o.unionOp = false) : ∀ t, wfTree t = true → opRegion o t = true →
    RelW (hintE o t).1 (hintE (withOp o) t).1 := by
  apply DT.ind
  intro a key kids ihk ihl hw hr
  simp only [wfTree, Bool.and_eq_true] at hw
  obtain ⟨⟨ha, hwk⟩, hwl⟩ := hw
  simp only [opRegion, Bool.and_eq_true] at hr
  obtain ⟨⟨hrn, hrk⟩, hrl⟩ := hr
  have hkids : All2 (hintEL o kids) (hintEL (withOp o) kids) := by
    clear ha hwk ihk hrn hrk
    induction kids with
    | nil => exact All2.nil
    | cons c cs ihc =>
      simp only [wfTreeL, Bool.and_eq_true] at hwl
      simp only [opRegionL, Bool.and_eq_true] at hrl
      simp only [hintEL]
      exact All2.cons (ihl c (List.mem_cons_self ..) hwl.1 hrl.1)
        (ihc (fun x hx => ihl x (List.mem_cons_of_mem _ hx)) hwl.2 hrl.2)
  have hkey : KeyRel (hintEO o key) (hintEO (withOp o) key) := by
    cases key with
    | none => simp [hintEO, KeyRel]
    | some kk =>
      simp only [wfTreeO] at hwk
      simp only [opRegionO] at hrk
      simp only [hintEO, KeyRel]
      exact ihk kk rfl hwk hrk
  simp only [hintE]
  apply node_rel o ho a _ _ _ _ hkids hkey (by rw [hintEL_length]; exact ha)
  intro hte h2
  rw [hintEL_length] at h2
  simp only [nodeRegion, hte, h2, and_self, if_true, withoutOp_eq o ho] at hrn
  exact hrn

/-- `opRegionAll` = `opRegion` for each of the four container spellings -/
theorem opRegionAll_spec (t : DT) (hr : opRegionAll t = true) (o : Opts) (ho : o.unionOp = false) : opRegion o t = true := by
  obtain ⟨u, s, g⟩ := o
  simp only [] at ho
  subst ho
  simp only [opRegionAll, containerSpellings, List.all_cons, List.all_nil, Bool.and_true, Bool.and_eq_true] at hr
  cases s <;> cases g
  · exact hr.1
  · exact hr.2.2.1
  · exact hr.2.1
  · exact hr.2.2.2


end Dcg.Proofs.SpellOp
