import Dcg.Proofs.PrintInj
import Dcg.Proofs.Dedup
import Dcg.Model.HintRegion
/-
Dcg.Proofs.SpellOp — the union-operator half of `spelling_invariant`: inside `opRegion`, the
structural rendering with `use_union_operator` denotes the same type as the one without
(`rel_hint`).  The two renderings are NOT related member by member (the text-level de-duplication of
the union loop fires differently: `[Optional[int], int]` vs `[int]`), only semantically:
same alternatives up to repetition (`dd ∘ alts`) and the same `None` flag.
-/
namespace Dcg.Proofs.SpellOp
open Dcg.Model.Types Dcg.Model.HintExpr Dcg.Proofs.Cover Dcg.Proofs.Types Dcg.Proofs.TypesOp Dcg.Proofs.HintOp
open Dcg.Proofs.PrintInj Dcg.Proofs.Dedup
open Dcg.Sem.Typing hiding Str sNone sComma sPipe

/-! ### `Union[…]` spelling: the hints `type_hint` writes have no `None` directly inside a `Union[…]` -/

mutual
/-- every `Union[…]` reachable through `Union[…]` arguments has ≥ 2 arguments, none of them `None` -/
def spineOK : TExpr → Bool
  | .atom _ => true
  | .bor _ => true
  | .app h args => if h = sUnion then decide (2 ≤ args.length) && spineOKL args else true
def spineOKL : List TExpr → Bool
  | [] => true
  | e :: es => !isNoneE e && spineOK e && spineOKL es
end

theorem spineOKL_mem {es : List TExpr} (h : spineOKL es = true) : ∀ e ∈ es, isNoneE e = false ∧ spineOK e = true := by
  induction es with
  | nil => intro e he; cases he
  | cons a l ih =>
    simp only [spineOKL, Bool.and_eq_true, Bool.not_eq_true'] at h
    intro e he
    cases he with
    | head => exact ⟨h.1.1, h.1.2⟩
    | tail _ h' => exact ih h.2 e h'

theorem spineOKL_of_mem {es : List TExpr} (h : ∀ e ∈ es, isNoneE e = false ∧ spineOK e = true) : spineOKL es = true := by
  induction es with
  | nil => rfl
  | cons a l ih =>
    simp only [spineOKL, Bool.and_eq_true, Bool.not_eq_true']
    exact ⟨⟨(h a (List.mem_cons_self ..)).1, (h a (List.mem_cons_self ..)).2⟩,
      ih (fun e he => h e (List.mem_cons_of_mem _ he))⟩

/-- on such a hint `_remove_none_from_union(…, use_union_operator=False)` changes nothing -/
theorem rmU_id : ∀ e, spineOK e = true → rmU e = e := by
  apply TExpr.ind
  · intro s _; rfl
  · intro h args ih hs
    simp only [rmU]
    split
    · rename_i hu
      simp only [spineOK, hu, if_true, Bool.and_eq_true, decide_eq_true_eq] at hs
      have hm := spineOKL_mem hs.2
      have hl : rmUL args = args := by
        clear hs
        induction args with
        | nil => rfl
        | cons a l ihl =>
          simp only [rmUL]
          rw [(hm a (List.mem_cons_self ..)).1]
          simp only [Bool.false_eq_true, if_false]
          rw [ih a (List.mem_cons_self ..) (hm a (List.mem_cons_self ..)).2,
            ihl (fun x hx => ih x (List.mem_cons_of_mem _ hx)) (fun x hx => hm x (List.mem_cons_of_mem _ hx))]
      rw [hl, hu]
      match args, hs.1 with
      | a :: b :: r, _ => rfl
    · rfl
  · intro args _ _; rfl

/-! ### what is compared -/

def isAnyE (e : TExpr) : Bool := print e == sAny

/-- two renderings of one tree mean the same, and agree on the two texts the algorithm tests for -/
structure Rel (T B : TExpr) : Prop where
  hA : dd (alts T) = dd (alts B)
  hN : hasNone T = hasNone B
  hNone : isNoneE T = isNoneE B
  hAny : isAnyE T = isAnyE B

theorem Rel.refl (e : TExpr) : Rel e e := ⟨rfl, rfl, rfl, rfl⟩

theorem Rel.denote {T B : TExpr} (h : Rel T B) : denote T = denote B := by
  unfold Dcg.Sem.Typing.denote
  rw [h.hN]
  exact mkTy_congr _ h.hA

theorem hasNoneL_append (a b : List TExpr) : hasNoneL (a ++ b) = (hasNoneL a || hasNoneL b) := by
  induction a with
  | nil => simp [hasNoneL]
  | cons x l ih => simp [hasNoneL, ih, Bool.or_assoc]

theorem hasNoneL_mem {l : List TExpr} {e : TExpr} (he : e ∈ l) (h : hasNone e = true) : hasNoneL l = true := by
  induction l with
  | nil => cases he
  | cons x r ih =>
    simp only [hasNoneL, Bool.or_eq_true]
    rcases List.mem_cons.mp he with rfl | he
    · exact Or.inl h
    · exact Or.inr (ih he)

theorem hasNoneL_false {l : List TExpr} (h : ∀ e ∈ l, hasNone e = false) : hasNoneL l = false := by
  induction l with
  | nil => rfl
  | cons x r ih =>
    simp only [hasNoneL, Bool.or_eq_false_iff]
    exact ⟨h x (List.mem_cons_self ..), ih (fun e he => h e (List.mem_cons_of_mem _ he))⟩

theorem altsL_mem {l : List TExpr} {e : TExpr} (he : e ∈ l) : ∀ t ∈ alts e, t ∈ altsL l := by
  induction l with
  | nil => cases he
  | cons x r ih =>
    intro t ht
    simp only [altsL, List.mem_append]
    rcases List.mem_cons.mp he with rfl | he
    · exact Or.inl ht
    · exact Or.inr (ih he t ht)

theorem hasNone_isNoneE (e : TExpr) (h : isNoneE e = true) : hasNone e = true := by
  cases e with
  | atom s => simp only [isNoneE, decide_eq_true_eq] at h; subst h; decide
  | app hd args => simp [isNoneE] at h
  | bor args => simp [isNoneE] at h

/-! ### the union loop, semantically (both spellings) -/

/-- Whatever the text-level de-duplication skips, the loop collects the alternatives of all members
(up to repetition) and records every `None`: in the collected members or in the flag. -/
theorem loop_sem (u : Bool) : ∀ (hs acc : List TExpr) (f : Bool),
    (∀ h ∈ hs, wfB h = true) → (∀ a ∈ acc, wfB a = true) →
    (∀ h ∈ hs, wfB (rmE u h) = true) →
    (∀ h ∈ hs, isNoneE h = false → (hasNone (rmE u h) || (print (rmE u h) != print h)) = hasNone h) →
    dd (altsL (unionLoopE u hs acc f).1) = dd (altsL (acc ++ hs)) ∧
    (hasNoneL (unionLoopE u hs acc f).1 || (unionLoopE u hs acc f).2) = (hasNoneL (acc ++ hs) || f) := by
  intro hs
  induction hs with
  | nil => intro acc f _ _ _ _; simp [unionLoopE]
  | cons h hs ih =>
    intro acc f hw ha hr hg
    have hwh := hw h (List.mem_cons_self ..)
    have hws : ∀ x ∈ hs, wfB x = true := fun x hx => hw x (List.mem_cons_of_mem _ hx)
    have hrs : ∀ x ∈ hs, wfB (rmE u x) = true := fun x hx => hr x (List.mem_cons_of_mem _ hx)
    have hgs : ∀ x ∈ hs, isNoneE x = false → (hasNone (rmE u x) || (print (rmE u x) != print x)) = hasNone x :=
      fun x hx => hg x (List.mem_cons_of_mem _ hx)
    simp only [unionLoopE]
    split
    · -- the text is already there: the member is one of the collected ones
      rename_i hc
      obtain ⟨h1, h2⟩ := ih acc f hws ha hrs hgs
      have hmem : h ∈ acc := by
        simp only [List.contains_iff_mem, List.mem_map] at hc
        obtain ⟨d, hd, hp⟩ := hc
        have := print_inj_wfB d (ha d hd) h hwh hp
        rw [← this]; exact hd
      refine ⟨?_, ?_⟩
      · rw [h1]
        have : altsL (acc ++ h :: hs) = altsL acc ++ alts h ++ altsL hs := by
          simp [altsL_append, altsL, List.append_assoc]
        rw [this, altsL_append]
        exact (dd_absorb _ _ _ (altsL_mem hmem)).symm
      · rw [h2]
        simp only [hasNoneL_append, hasNoneL]
        cases hh : hasNone h with
        | false => simp
        | true => simp [hasNoneL_mem hmem hh]
    · split
      · rename_i hn
        obtain ⟨h1, h2⟩ := ih acc true hws ha hrs hgs
        have hnn : isNoneE h = true := (print_none_iff h hwh).mp hn
        refine ⟨?_, ?_⟩
        · rw [h1]
          simp [altsL_append, altsL, alts_isNoneE h hnn]
        · rw [h2]
          simp [hasNoneL_append, hasNoneL, hasNone_isNoneE h hnn]
      · rename_i hn
        have hnn : isNoneE h = false := by
          cases hq : isNoneE h with
          | false => rfl
          | true => exact absurd ((print_none_iff h hwh).mpr hq) hn
        have ha' : ∀ x ∈ acc ++ [rmE u h], wfB x = true := by
          intro x hx
          rcases List.mem_append.mp hx with hx | hx
          · exact ha x hx
          · simp only [List.mem_singleton] at hx; subst hx; exact hr h (List.mem_cons_self ..)
        obtain ⟨h1, h2⟩ := ih (acc ++ [rmE u h]) (f || print (rmE u h) != print h) hws ha' hrs hgs
        refine ⟨?_, ?_⟩
        · rw [h1]
          simp [altsL_append, altsL, alts_rmE, List.append_assoc]
        · rw [h2]
          have := hg h (List.mem_cons_self ..) hnn
          simp only [hasNoneL_append, hasNoneL, Bool.or_false]
          rw [← this]
          cases hasNoneL acc <;> cases hasNone (rmE u h) <;> cases hasNoneL hs <;> cases f <;>
            cases (print (rmE u h) != print h) <;> rfl

/-- every collected member is a (cleaned) member -/
theorem loop_mem (u : Bool) : ∀ (hs acc : List TExpr) (f : Bool),
    ∀ d ∈ (unionLoopE u hs acc f).1, d ∈ acc ∨ ∃ h ∈ hs, print h ≠ sNone ∧ d = rmE u h := by
  intro hs
  induction hs with
  | nil => intro acc f d hd; exact Or.inl hd
  | cons h hs ih =>
    intro acc f d hd
    simp only [unionLoopE] at hd
    split at hd
    · rcases ih acc f d hd with h1 | ⟨x, hx, hp⟩
      · exact Or.inl h1
      · exact Or.inr ⟨x, List.mem_cons_of_mem _ hx, hp⟩
    · split at hd
      · rcases ih acc true d hd with h1 | ⟨x, hx, hp⟩
        · exact Or.inl h1
        · exact Or.inr ⟨x, List.mem_cons_of_mem _ hx, hp⟩
      · rename_i hn
        rcases ih _ _ d hd with h1 | ⟨x, hx, hp⟩
        · rcases List.mem_append.mp h1 with h1 | h1
          · exact Or.inl h1
          · simp only [List.mem_singleton] at h1
            exact Or.inr ⟨h, List.mem_cons_self .., hn, h1⟩
        · exact Or.inr ⟨x, List.mem_cons_of_mem _ hx, hp⟩

/-- something is collected as soon as one member is not `None` -/
theorem loop_ne_nil (u : Bool) : ∀ (hs acc : List TExpr) (f : Bool),
    (acc ≠ [] ∨ ∃ h ∈ hs, print h ≠ sNone) → (unionLoopE u hs acc f).1 ≠ [] := by
  intro hs
  induction hs with
  | nil =>
    intro acc f h
    rcases h with h | ⟨x, hx, _⟩
    · exact h
    · cases hx
  | cons h hs ih =>
    intro acc f hx
    simp only [unionLoopE]
    split
    · rename_i hc
      apply ih
      left
      intro he; subst he; simp at hc
    · split
      · rename_i hn
        apply ih
        rcases hx with hx | ⟨x, hxm, hp⟩
        · exact Or.inl hx
        · rcases List.mem_cons.mp hxm with rfl | hxm
          · exact absurd hn hp
          · exact Or.inr ⟨x, hxm, hp⟩
      · apply ih
        left; simp

/-- … and nothing when all are: the union is then optional -/
theorem loop_all_none (u : Bool) : ∀ (hs : List TExpr) (f : Bool), (∀ h ∈ hs, print h = sNone) →
    unionLoopE u hs [] f = ([], f || !hs.isEmpty) := by
  intro hs
  induction hs with
  | nil => intro f _; simp [unionLoopE]
  | cons h hs ih =>
    intro f hn
    simp only [unionLoopE, List.map_nil, List.contains_nil, Bool.false_eq_true, if_false,
      hn h (List.mem_cons_self ..), if_true]
    rw [ih true (fun x hx => hn x (List.mem_cons_of_mem _ hx))]
    simp

/-! ### pairs of renderings -/

/-- related, and each well-formed in its spelling -/
def RelW (T B : TExpr) : Prop := Rel T B ∧ wfU T = true ∧ spineOK T = true ∧ wfB B = true

/-- member by member -/
inductive All2 : List TExpr → List TExpr → Prop
  | nil : All2 [] []
  | cons {t b : TExpr} {ts bs : List TExpr} : RelW t b → All2 ts bs → All2 (t :: ts) (b :: bs)

theorem kids_sem {Ts Bs : List TExpr} (h : All2 Ts Bs) :
    dd (altsL Ts) = dd (altsL Bs) ∧ hasNoneL Ts = hasNoneL Bs := by
  induction h with
  | nil => exact ⟨rfl, rfl⟩
  | cons hab _ ih =>
    simp only [altsL, hasNoneL]
    exact ⟨dd_append_congr hab.1.hA ih.1, by rw [hab.1.hN, ih.2]⟩

theorem forall2_left {Ts Bs : List TExpr} (h : All2 Ts Bs) : ∀ t ∈ Ts, ∃ b ∈ Bs, RelW t b := by
  induction h with
  | nil => intro t ht; cases ht
  | cons hab _ ih =>
    intro t ht
    rcases List.mem_cons.mp ht with rfl | ht
    · exact ⟨_, List.mem_cons_self .., hab⟩
    · obtain ⟨b, hb, hr⟩ := ih t ht
      exact ⟨b, List.mem_cons_of_mem _ hb, hr⟩

theorem forall2_right {Ts Bs : List TExpr} (h : All2 Ts Bs) : ∀ b ∈ Bs, ∃ t ∈ Ts, RelW t b := by
  induction h with
  | nil => intro t ht; cases ht
  | cons hab _ ih =>
    intro b hb
    rcases List.mem_cons.mp hb with rfl | hb
    · exact ⟨_, List.mem_cons_self .., hab⟩
    · obtain ⟨t, ht, hr⟩ := ih b hb
      exact ⟨t, List.mem_cons_of_mem _ ht, hr⟩

theorem forall2_length {Ts Bs : List TExpr} (h : All2 Ts Bs) : Ts.length = Bs.length := by
  induction h with
  | nil => rfl
  | cons _ _ ih => simp [ih]

/-! ### small facts about texts -/

theorem isAnyE_of_mem {e : TExpr} {c : Char} (hc : c ∈ print e) (hn : c ∉ sAny) : isAnyE e = false := by
  simp only [isAnyE, beq_eq_false_iff_ne]
  intro h; rw [h] at hc; exact hn hc

theorem isAnyE_app (h : Str) (args : List TExpr) : isAnyE (.app h args) = false :=
  isAnyE_of_mem (c := '[') (by rw [print_app]; simp) (by simp [sAny])

theorem isAnyE_bor (args : List TExpr) (hw : wfB (.bor args) = true) : isAnyE (.bor args) = false :=
  isAnyE_of_mem (print_bor_has_pipe args hw) (by simp [sAny])

theorem isAnyE_none : isAnyE eNone = false := by decide

/-- a subscription other than `Optional[…]`/`Union[…]` is one alternative, fixed by the denotations of its arguments -/
theorem rel_app (n : Str) (argsT argsB : List TExpr) (hn1 : n ≠ sOptional) (hn2 : n ≠ sUnion)
    (hd : denoteL argsT = denoteL argsB) : Rel (.app n argsT) (.app n argsB) := by
  refine ⟨?_, ?_, rfl, ?_⟩
  · simp only [alts, hn1, hn2, or_self, if_false, hd]
  · simp only [hasNone, hn1, hn2, if_false]
  · rw [isAnyE_app, isAnyE_app]

theorem denoteL_one (x : TExpr) : denoteL [x] = [denote x] := by simp [denoteL, Dcg.Sem.Typing.denote]
theorem denoteL_two (x y : TExpr) : denoteL [x, y] = [denote x, denote y] := by simp [denoteL, Dcg.Sem.Typing.denote]

theorem denote_congr {T B : TExpr} (hA : dd (alts T) = dd (alts B)) (hN : hasNone T = hasNone B) : denote T = denote B := by
  unfold Dcg.Sem.Typing.denote
  rw [hN]; exact mkTy_congr _ hA

theorem names_not_ou (o : Opts) : listName o ≠ sOptional ∧ listName o ≠ sUnion ∧ setName o ≠ sOptional ∧ setName o ≠ sUnion ∧
    dictName o ≠ sOptional ∧ dictName o ≠ sUnion := by
  obtain ⟨u, s, g⟩ := o
  cases u <;> cases s <;> cases g <;> decide

theorem cont_shape (o : Opts) (a : Attrs) (keyE : Option TExpr) (b : TExpr) (hne : print b ≠ []) :
    containerE o a keyE b =
      if a.isList then .app (listName o) [b] else if a.isSet then .app (setName o) [b]
      else if a.isDict then .app (dictName o) [keyE.getD (.atom sStr), b] else b := by
  unfold containerE
  simp [wrap1E, hne]

/-! ### the optional wrapper -/

theorem optT (c : TExpr) (hw : wfU c = true) (hs : spineOK c = true) :
    getOptionalE false c = if isNoneE c then eNone else .app sOptional [c] := by
  unfold getOptionalE
  have hwb := wfB_of_wfU c hw
  simp only [rmE, Bool.false_eq_true, if_false, rmU_id c hs, print_ne_nil_of_wfB c hwb, false_or]
  by_cases hn : isNoneE c = true
  · rw [if_pos ((print_none_iff c hwb).mpr hn), if_pos hn]
  · rw [if_neg (fun hc => hn ((print_none_iff c hwb).mp hc)), if_neg hn]

theorem rmB_none_iff (c : TExpr) (hw : wfB c = true) : print (rmB c) = sNone ↔ isNoneE c = true := by
  constructor
  · intro hp
    cases hq : isNoneE c with
    | true => rfl
    | false =>
      have hok := okD_rmB c hw hq
      have h1 := (print_none_iff _ hok.1).mp hp
      exfalso
      have h2 := hok.2
      cases hr : rmB c with
      | atom s => rw [hr] at h1 h2; simp [noTop, isNoneE] at h1 h2; exact h2 h1
      | app h args => rw [hr] at h1; simp [isNoneE] at h1
      | bor args => rw [hr] at h1; simp [isNoneE] at h1
  · intro hn
    cases c with
    | atom s => simp only [isNoneE, decide_eq_true_eq] at hn; simp [rmB, print_atom, hn]
    | app h args => simp [isNoneE] at hn
    | bor args => simp [isNoneE] at hn

theorem optB (c : TExpr) (hw : wfB c = true) :
    getOptionalE true c = if isNoneE c then eNone else borFlat [rmB c, eNone] := by
  unfold getOptionalE
  simp only [rmE, if_true, print_ne_nil_of_wfB _ (wfB_rmB c hw), false_or]
  by_cases hn : isNoneE c = true
  · rw [if_pos ((rmB_none_iff c hw).mpr hn), if_pos hn]
  · rw [if_neg (fun hc => hn ((rmB_none_iff c hw).mp hc)), if_neg hn]

theorem hne_T (c : TExpr) (hw : wfU c = true) (hs : spineOK c = true) :
    alts c ≠ [] → print (rmE false c) ≠ [] ∧ print (rmE false c) ≠ sNone := by
  intro ha
  have hwb := wfB_of_wfU c hw
  simp only [rmE, Bool.false_eq_true, if_false, rmU_id c hs]
  exact ⟨print_ne_nil_of_wfB c hwb, fun hc => ha (alts_isNoneE c ((print_none_iff c hwb).mp hc))⟩

theorem hne_B (c : TExpr) (hw : wfB c = true) :
    alts c ≠ [] → print (rmE true c) ≠ [] ∧ print (rmE true c) ≠ sNone := by
  intro ha
  simp only [rmE, if_true]
  exact ⟨print_ne_nil_of_wfB _ (wfB_rmB c hw), fun hc => ha (alts_isNoneE c ((rmB_none_iff c hw).mp hc))⟩

theorem any_atom (c : TExpr) (hw : wfB c = true) (h : isAnyE c = true) : c = .atom sAny := by
  simp only [isAnyE, beq_iff_eq] at h
  exact print_inj_wfB c hw (.atom sAny) (by decide) (by rw [h, print_atom])

/-- the end of `type_hint` (`if self.is_optional and type_ != ANY: get_optional_type`) keeps the relation -/
theorem fin_rel (cT cB : TExpr) (fT fB : Bool)
    (hA : dd (alts cT) = dd (alts cB)) (hF : (hasNone cT || fT) = (hasNone cB || fB))
    (hNone : isNoneE cT = isNoneE cB) (hAny : isAnyE cT = isAnyE cB)
    (hwT : wfU cT = true) (hsT : spineOK cT = true) (hwB : wfB cB = true) :
    Rel (finishE false cT fT).1 (finishE true cB fB).1 ∧ spineOK (finishE false cT fT).1 = true := by
  have hwTB := wfB_of_wfU cT hwT
  cases hany : isAnyE cT with
  | true =>
    -- `Any`: never wrapped
    have hanyB : isAnyE cB = true := by rw [← hAny, hany]
    have eT := any_atom cT hwTB hany
    have eB := any_atom cB hwB hanyB
    subst eT; subst eB
    have : print (TExpr.atom sAny) = sAny := print_atom _
    simp only [finishE, this, ne_eq, not_true_eq_false, and_false, if_false]
    exact ⟨Rel.refl _, rfl⟩
  | false =>
    have hanyB : isAnyE cB = false := by rw [← hAny, hany]
    have hpT : print cT ≠ sAny := by simpa [isAnyE] using hany
    have hpB : print cB ≠ sAny := by simpa [isAnyE] using hanyB
    simp only [finishE, hpT, hpB, ne_eq, not_false_eq_true, and_true]
    obtain ⟨a1, n1⟩ := alts_getOptionalE false cT (hne_T cT hwT hsT)
    obtain ⟨a2, n2⟩ := alts_getOptionalE true cB (hne_B cB hwB)
    have hshT := optT cT hwT hsT
    have hshB := optB cB hwB
    -- what the wrapped forms look like
    have hwrapT : isNoneE (getOptionalE false cT) = isNoneE cT ∧ isAnyE (getOptionalE false cT) = false ∧
        spineOK (getOptionalE false cT) = true := by
      rw [hshT]
      cases hq : isNoneE cT with
      | true => simp only [if_true]; exact ⟨by decide, isAnyE_none, rfl⟩
      | false =>
        simp only [Bool.false_eq_true, if_false]
        refine ⟨rfl, isAnyE_app _ _, ?_⟩
        have : sOptional ≠ sUnion := by decide
        simp [spineOK, this]
    have hwrapB : isNoneE (getOptionalE true cB) = isNoneE cB ∧ isAnyE (getOptionalE true cB) = false := by
      rw [hshB]
      cases hq : isNoneE cB with
      | true => simp only [if_true]; exact ⟨by decide, isAnyE_none⟩
      | false =>
        simp only [Bool.false_eq_true, if_false]
        have hok := okD_rmB cB hwB hq
        have hwf := wfB_borFlat_none _ hok
        have hpipe : '|' ∈ print (borFlat [rmB cB, eNone]) := by
          rw [print_borFlat_none _ hok.1]; simp [sPipe]
        refine ⟨?_, isAnyE_of_mem hpipe (by simp [sAny])⟩
        cases hq2 : isNoneE (borFlat [rmB cB, eNone]) with
        | false => rfl
        | true =>
          have := (print_none_iff _ hwf).mpr hq2
          rw [this] at hpipe; simp [sNone] at hpipe
    cases fT <;> cases fB
    · simp only [Bool.false_eq_true, if_false, Bool.or_false] at hF ⊢
      exact ⟨⟨hA, hF, hNone, hAny⟩, hsT⟩
    · simp only [Bool.false_eq_true, if_false, if_true, Bool.or_false, Bool.or_true] at hF ⊢
      exact ⟨⟨by rw [a2]; exact hA, by rw [n2]; exact hF, by rw [hwrapB.1]; exact hNone,
        by rw [hwrapB.2]; exact hany⟩, hsT⟩
    · simp only [Bool.false_eq_true, if_false, if_true, Bool.or_false, Bool.or_true] at hF ⊢
      exact ⟨⟨by rw [a1]; exact hA, by rw [n1]; exact hF, by rw [hwrapT.1]; exact hNone,
        by rw [hwrapT.2.1]; exact hanyB.symm⟩, hwrapT.2.2⟩
    · simp only [if_true]
      exact ⟨⟨by rw [a1, a2]; exact hA, by rw [n1, n2], by rw [hwrapT.1, hwrapB.1]; exact hNone,
        by rw [hwrapT.2.1, hwrapB.2]⟩, hwrapT.2.2⟩

end Dcg.Proofs.SpellOp
