import Dcg.Proofs.PrintInj
import Dcg.Proofs.Dedup
import Dcg.Model.HintRegion
/-
Dcg.Proofs.SpellOp — the union-operator half of `spelling_invariant`: inside `opRegion`, the
structural rendering with `use_union_operator` denotes the same type as the one without
(`rel_hint`).  The two renderings are NOT related member by member (the text-level de-duplication of
the union loop fires differently: `[Optional[int], int]` vs `[int]`), only semantically:
same alternatives up to repetition (`dd ∘ alts`) and the same `None` flag.
-/
namespace Dcg.Proofs.SpellOp
open Dcg.Model.Types Dcg.Model.HintExpr Dcg.Proofs.Cover Dcg.Proofs.Types Dcg.Proofs.TypesOp Dcg.Proofs.HintOp
open Dcg.Proofs.PrintInj Dcg.Proofs.Dedup
open Dcg.Sem.Typing hiding Str sNone sComma sPipe

/-! ### `Union[…]` spelling: the hints `type_hint` writes have no `None` directly inside a `Union[…]` -/

mutual
/-- every `Union[…]` reachable through `Union[…]` arguments has ≥ 2 arguments, none of them `None` -/
def spineOK : TExpr → Bool
  | .atom _ => true
  | .bor _ => true
  | .app h args => if h = sUnion then decide (2 ≤ args.length) && spineOKL args else true
def spineOKL : List TExpr → Bool
  | [] => true
  | e :: es => !isNoneE e && spineOK e && spineOKL es
end

theorem spineOKL_mem {es : List TExpr} (h : spineOKL es = true) : ∀ e ∈ es, isNoneE e = false ∧ spineOK e = true := by
  induction es with
  | nil => intro e he; cases he
  | cons a l ih =>
    simp only [spineOKL, Bool.and_eq_true, Bool.not_eq_true'] at h
    intro e he
    cases he with
    | head => exact ⟨h.1.1, h.1.2⟩
    | tail _ h' => exact ih h.2 e h'

theorem spineOKL_of_mem {es : List TExpr} (h : ∀ e ∈ es, isNoneE e = false ∧ spineOK e = true) : spineOKL es = true := by
  induction es with
  | nil => rfl
  | cons a l ih =>
    simp only [spineOKL, Bool.and_eq_true, Bool.not_eq_true']
    exact ⟨⟨(h a (List.mem_cons_self ..)).1, (h a (List.mem_cons_self ..)).2⟩,
      ih (fun e he => h e (List.mem_cons_of_mem _ he))⟩

/-- on such a hint `_remove_none_from_union(…, use_union_operator=False)` changes nothing -/
theorem rmU_id : ∀ e, spineOK e = true → rmU e = e := by
  apply TExpr.ind
  · intro s _; rfl
  · intro h args ih hs
    simp only [rmU]
    split
    · rename_i hu
      simp only [spineOK, hu, if_true, Bool.and_eq_true, decide_eq_true_eq] at hs
      have hm := spineOKL_mem hs.2
      have hl : rmUL args = args := by
        clear hs
        induction args with
        | nil => rfl
        | cons a l ihl =>
          simp only [rmUL]
          rw [(hm a (List.mem_cons_self ..)).1]
          simp only [Bool.false_eq_true, if_false]
          rw [ih a (List.mem_cons_self ..) (hm a (List.mem_cons_self ..)).2,
            ihl (fun x hx => ih x (List.mem_cons_of_mem _ hx)) (fun x hx => hm x (List.mem_cons_of_mem _ hx))]
      rw [hl, hu]
      match args, hs.1 with
      | a :: b :: r, _ => rfl
    · rfl
  · intro args _ _; rfl

/-! ### what is compared -/

def isAnyE (e : TExpr) : Bool := print e == sAny

/-- two renderings of one tree mean the same, and agree on the two texts the algorithm tests for -/
structure Rel (T B : TExpr) : Prop where
  hA : dd (alts T) = dd (alts B)
  hN : hasNone T = hasNone B
  hNone : isNoneE T = isNoneE B
  hAny : isAnyE T = isAnyE B

theorem Rel.refl (e : TExpr) : Rel e e := ⟨rfl, rfl, rfl, rfl⟩

theorem Rel.denote {T B : TExpr} (h : Rel T B) : denote T = denote B := by
  unfold Dcg.Sem.Typing.denote
  rw [h.hN]
  exact mkTy_congr _ h.hA

theorem hasNoneL_append (a b : List TExpr) : hasNoneL (a ++ b) = (hasNoneL a || hasNoneL b) := by
  induction a with
  | nil => simp [hasNoneL]
  | cons x l ih => simp [hasNoneL, ih, Bool.or_assoc]

theorem hasNoneL_mem {l : List TExpr} {e : TExpr} (he : e ∈ l) (h : hasNone e = true) : hasNoneL l = true := by
  induction l with
  | nil => cases he
  | cons x r ih =>
    simp only [hasNoneL, Bool.or_eq_true]
    rcases List.mem_cons.mp he with rfl | he
    · exact Or.inl h
    · exact Or.inr (ih he)

theorem hasNoneL_false {l : List TExpr} (h : ∀ e ∈ l, hasNone e = false) : hasNoneL l = false := by
  induction l with
  | nil => rfl
  | cons x r ih =>
    simp only [hasNoneL, Bool.or_eq_false_iff]
    exact ⟨h x (List.mem_cons_self ..), ih (fun e he => h e (List.mem_cons_of_mem _ he))⟩

theorem altsL_mem {l : List TExpr} {e : TExpr} (he : e ∈ l) : ∀ t ∈ alts e, t ∈ altsL l := by
  induction l with
  | nil => cases he
  | cons x r ih =>
    intro t ht
    simp only [altsL, List.mem_append]
    rcases List.mem_cons.mp he with rfl | he
    · exact Or.inl ht
    · exact Or.inr (ih he t ht)

theorem hasNone_isNoneE (e : TExpr) (h : isNoneE e = true) : hasNone e = true := by
  cases e with
  | atom s => simp only [isNoneE, decide_eq_true_eq] at h; subst h; decide
  | app hd args => simp [isNoneE] at h
  | bor args => simp [isNoneE] at h

/-! ### the union loop, semantically (both spellings) -/

/-- Whatever the text-level de-duplication skips, the loop collects the alternatives of all members
(up to repetition) and records every `None`: in the collected members or in the flag. -/
theorem loop_sem (u : Bool) : ∀ (hs acc : List TExpr) (f : Bool),
    (∀ h ∈ hs, wfB h = true) → (∀ a ∈ acc, wfB a = true) →
    (∀ h ∈ hs, wfB (rmE u h) = true) →
    (∀ h ∈ hs, isNoneE h = false → (hasNone (rmE u h) || (print (rmE u h) != print h)) = hasNone h) →
    dd (altsL (unionLoopE u hs acc f).1) = dd (altsL (acc ++ hs)) ∧
    (hasNoneL (unionLoopE u hs acc f).1 || (unionLoopE u hs acc f).2) = (hasNoneL (acc ++ hs) || f) := by
  intro hs
  induction hs with
  | nil => intro acc f _ _ _ _; simp [unionLoopE]
  | cons h hs ih =>
    intro acc f hw ha hr hg
    have hwh := hw h (List.mem_cons_self ..)
    have hws : ∀ x ∈ hs, wfB x = true := fun x hx => hw x (List.mem_cons_of_mem _ hx)
    have hrs : ∀ x ∈ hs, wfB (rmE u x) = true := fun x hx => hr x (List.mem_cons_of_mem _ hx)
    have hgs : ∀ x ∈ hs, isNoneE x = false → (hasNone (rmE u x) || (print (rmE u x) != print x)) = hasNone x :=
      fun x hx => hg x (List.mem_cons_of_mem _ hx)
    simp only [unionLoopE]
    split
    · -- the text is already there: the member is one of the collected ones
      rename_i hc
      obtain ⟨h1, h2⟩ := ih acc f hws ha hrs hgs
      have hmem : h ∈ acc := by
        simp only [List.contains_iff_mem, List.mem_map] at hc
        obtain ⟨d, hd, hp⟩ := hc
        have := print_inj_wfB d (ha d hd) h hwh hp
        rw [← this]; exact hd
      refine ⟨?_, ?_⟩
      · rw [h1]
        have : altsL (acc ++ h :: hs) = altsL acc ++ alts h ++ altsL hs := by
          simp [altsL_append, altsL, List.append_assoc]
        rw [this, altsL_append]
        exact (dd_absorb _ _ _ (altsL_mem hmem)).symm
      · rw [h2]
        simp only [hasNoneL_append, hasNoneL]
        cases hh : hasNone h with
        | false => simp
        | true => simp [hasNoneL_mem hmem hh]
    · split
      · rename_i hn
        obtain ⟨h1, h2⟩ := ih acc true hws ha hrs hgs
        have hnn : isNoneE h = true := (print_none_iff h hwh).mp hn
        refine ⟨?_, ?_⟩
        · rw [h1]
          simp [altsL_append, altsL, alts_isNoneE h hnn]
        · rw [h2]
          simp [hasNoneL_append, hasNoneL, hasNone_isNoneE h hnn]
      · rename_i hn
        have hnn : isNoneE h = false := by
          cases hq : isNoneE h with
          | false => rfl
          | true => exact absurd ((print_none_iff h hwh).mpr hq) hn
        have ha' : ∀ x ∈ acc ++ [rmE u h], wfB x = true := by
          intro x hx
          rcases List.mem_append.mp hx with hx | hx
          · exact ha x hx
          · simp only [List.mem_singleton] at hx; subst hx; exact hr h (List.mem_cons_self ..)
        obtain ⟨h1, h2⟩ := ih (acc ++ [rmE u h]) (f || print (rmE u h) != print h) hws ha' hrs hgs
        refine ⟨?_, ?_⟩
        · rw [h1]
          simp [altsL_append, altsL, alts_rmE, List.append_assoc]
        · rw [h2]
          have := hg h (List.mem_cons_self ..) hnn
          simp only [hasNoneL_append, hasNoneL, Bool.or_false]
          rw [← this]
          cases hasNoneL acc <;> cases hasNone (rmE u h) <;> cases hasNoneL hs <;> cases f <;>
            cases (print (rmE u h) != print h) <;> rfl

/-- every collected member is a (cleaned) member -/
theorem loop_mem (u : Bool) : ∀ (hs acc : List TExpr) (f : Bool),
    ∀ d ∈ (unionLoopE u hs acc f).1, d ∈ acc ∨ ∃ h ∈ hs, print h ≠ sNone ∧ d = rmE u h := by
  intro hs
  induction hs with
  | nil => intro acc f d hd; exact Or.inl hd
  | cons h hs ih =>
    intro acc f d hd
    simp only [unionLoopE] at hd
    split at hd
    · rcases ih acc f d hd with h1 | ⟨x, hx, hp⟩
      · exact Or.inl h1
      · exact Or.inr ⟨x, List.mem_cons_of_mem _ hx, hp⟩
    · split at hd
      · rcases ih acc true d hd with h1 | ⟨x, hx, hp⟩
        · exact Or.inl h1
        · exact Or.inr ⟨x, List.mem_cons_of_mem _ hx, hp⟩
      · rename_i hn
        rcases ih _ _ d hd with h1 | ⟨x, hx, hp⟩
        · rcases List.mem_append.mp h1 with h1 | h1
          · exact Or.inl h1
          · simp only [List.mem_singleton] at h1
            exact Or.inr ⟨h, List.mem_cons_self .., hn, h1⟩
        · exact Or.inr ⟨x, List.mem_cons_of_mem _ hx, hp⟩

/-- something is collected as soon as one member is not `None` -/
theorem loop_ne_nil (u : Bool) : ∀ (hs acc : List TExpr) (f : Bool),
    (acc ≠ [] ∨ ∃ h ∈ hs, print h ≠ sNone) → (unionLoopE u hs acc f).1 ≠ [] := by
  intro hs
  induction hs with
  | nil =>
    intro acc f h
    rcases h with h | ⟨x, hx, _⟩
    · exact h
    · cases hx
  | cons h hs ih =>
    intro acc f hx
    simp only [unionLoopE]
    split
    · rename_i hc
      apply ih
      left
      intro he; subst he; simp at hc
    · split
      · rename_i hn
        apply ih
        rcases hx with hx | ⟨x, hxm, hp⟩
        · exact Or.inl hx
        · rcases List.mem_cons.mp hxm with rfl | hxm
          · exact absurd hn hp
          · exact Or.inr ⟨x, hxm, hp⟩
      · apply ih
        left; simp

/-- … and nothing when all are: the union is then optional -/
theorem loop_all_none (u : Bool) : ∀ (hs : List TExpr) (f : Bool), (∀ h ∈ hs, print h = sNone) →
    unionLoopE u hs [] f = ([], f || !hs.isEmpty) := by
  intro hs
  induction hs with
  | nil => intro f _; simp [unionLoopE]
  | cons h hs ih =>
    intro f hn
    simp only [unionLoopE, List.map_nil, List.contains_nil, Bool.false_eq_true, if_false,
      hn h (List.mem_cons_self ..), if_true]
    rw [ih true (fun x hx => hn x (List.mem_cons_of_mem _ hx))]
    simp

end Dcg.Proofs.SpellOp
