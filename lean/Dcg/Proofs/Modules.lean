import Dcg.Model.Modules
/-
Helper lemmas for C12: the common-prefix decomposition behind `relative`, and the invariants
of the module → file map (`procOrder` is deepest-first, `assign` promotes a module to a package
`__init__` exactly when a child was processed before it).
-/
namespace Dcg.Proofs.Modules
open Dcg.Py.Import Dcg.Model.Modules

/-! ### common prefix -/

theorem commonLen_le_left (a b : MPath) : commonLen a b ≤ a.length := by
  induction a generalizing b with
  | nil => simp [commonLen]
  | cons x xs ih =>
    cases b with
    | nil => simp [commonLen]
    | cons y ys =>
      simp only [commonLen]
      split
      · have := ih ys; simp; omega
      · simp

theorem commonLen_le_right (a b : MPath) : commonLen a b ≤ b.length := by
  induction a generalizing b with
  | nil => simp [commonLen]
  | cons x xs ih =>
    cases b with
    | nil => simp [commonLen]
    | cons y ys =>
      simp only [commonLen]
      split
      · have := ih ys; simp; omega
      · simp

theorem take_commonLen (a b : MPath) : a.take (commonLen a b) = b.take (commonLen a b) := by
  induction a generalizing b with
  | nil => simp [commonLen]
  | cons x xs ih =>
    cases b with
    | nil => simp [commonLen]
    | cons y ys =>
      simp only [commonLen]
      split
      · rename_i h; subst h; simp [ih ys]
      · simp

/-- the zip loop ran to the end of `a`: `a` is a prefix of `b` -/
theorem prefix_of_commonLen_eq (a b : MPath) (h : commonLen a b = a.length) : a <+: b := by
  have h1 := take_commonLen a b
  rw [h, List.take_length] at h1
  rw [h1]
  exact List.take_prefix _ _

theorem dropLast_append_getLast (r : List Name) (h : r ≠ []) :
    r.dropLast ++ [r.getLast?.getD []] = r := by
  induction r with
  | nil => exact absurd rfl h
  | cons x xs ih =>
    cases xs with
    | nil => simp
    | cons y ys =>
      have := ih (by simp)
      simp only [List.dropLast_cons_cons, List.getLast?_cons_cons, List.cons_append]
      rw [this]

theorem take_dropLast (l : MPath) (i : Nat) (h : i < l.length) : l.dropLast.take i = l.take i := by
  rw [List.dropLast_eq_take, List.take_take]
  congr 1
  omega


/-! ### `relative` resolves -/

theorem commonLen_lt_of_not_prefix (cur ref : MPath) (h : ¬ cur <+: ref) :
    commonLen cur ref < cur.length := by
  have := commonLen_le_left cur ref
  rcases Nat.lt_or_ge (commonLen cur ref) cur.length with h1 | h1
  · exact h1
  · exact absurd (prefix_of_commonLen_eq cur ref (by omega)) h

theorem ref_split (cur ref : MPath) :
    cur.take (commonLen cur ref) ++ ref.drop (commonLen cur ref) = ref := by
  rw [take_commonLen]; exact List.take_append_drop _ _

/-- the package part and the imported name of `relative`'s answer spell the rest of the path -/
def targetOf (r : RelImport) : List Name := if r.isModule then r.pkg ++ [r.name] else r.pkg

/-- names are nonempty strings (what `"".join` / `split` round-trip needs) -/
def NoEmptyName (l : MPath) : Prop := ∀ x ∈ l, x ≠ []

theorem noEmpty_of_bool {l : MPath} (h : namesNonempty l = true) : NoEmptyName l := by
  intro x hx hxe
  simp only [namesNonempty, List.all_eq_true] at h
  have := h x hx
  simp [hxe] at this

theorem joinDot_eq_nil {r : List Name} (h : joinDot r = []) (hn : NoEmptyName r) : r = [] := by
  cases r with
  | nil => rfl
  | cons a t =>
    cases t with
    | nil => simp [joinDot] at h; exact absurd h (hn a (by simp))
    | cons b t' => simp [joinDot] at h

theorem noEmpty_drop {l : MPath} (h : NoEmptyName l) (i : Nat) : NoEmptyName (l.drop i) :=
  fun x hx => h x (List.mem_of_mem_drop hx)

theorem relative_shape (cur ref : MPath) (cls : Name) (hne : cur ≠ ref) (hn : NoEmptyName ref) :
    ∃ r, relative cur ref cls = some r ∧
      r.dots = (if cur.length - commonLen cur ref = 0 then 1 else cur.length - commonLen cur ref) ∧
      targetOf r = ref.drop (commonLen cur ref) := by
  unfold relative
  rw [if_neg hne]
  by_cases hr : joinDot (ref.drop (commonLen cur ref)) = []
  · simp only [hr, if_true]
    have := joinDot_eq_nil hr (noEmpty_drop hn _)
    exact ⟨_, rfl, rfl, by simp [targetOf, this]⟩
  · simp only [hr, if_false]
    refine ⟨_, rfl, rfl, ?_⟩
    simp only [targetOf, if_true]
    exact dropLast_append_getLast _ (by intro h0; rw [h0] at hr; exact hr rfl)

theorem relative_isModule (cur ref : MPath) (cls : Name) (r : RelImport)
    (h : relative cur ref cls = some r) (hnn : NoEmptyName ref) (hn : ¬ ref <+: cur) : r.isModule = true := by
  unfold relative at h
  split at h
  · simp at h
  · have hr : joinDot (ref.drop (commonLen cur ref)) ≠ [] := by
      intro h0
      have h0 := joinDot_eq_nil h0 (noEmpty_drop hnn _)
      apply hn
      have := ref_split cur ref
      rw [h0, List.append_nil] at this
      rw [← this]; exact List.take_prefix _ _
    simp only [hr, if_false] at h
    cases h; rfl

/-- Core of C12: whenever the importer is not a prefix of the importee (and, for the exact form,
the importee is not a prefix of the importer), the import `__change_from_import` computes
(`relative`, exact form, the extra dot for a package `__init__`), read by Python's rule from the
importer's location, designates the importee's module. -/
theorem emitted_designates (cur ref : MPath) (cls : Name) (isInit ex ib : Bool)
    (hn : NoEmptyName ref) (hpre : ¬ cur <+: ref) (hex : (ex || ib) = true → ¬ ref <+: cur) :
    ∃ r, emitted cur isInit ex ib ref cls = some r ∧ designated cur isInit r = some ref := by
  have hne : cur ≠ ref := fun h => hpre (h ▸ List.prefix_refl _)
  obtain ⟨r, hr, hdots, htgt⟩ := relative_shape cur ref cls hne hn
  have hlt := commonLen_lt_of_not_prefix cur ref hpre
  have hsplit := ref_split cur ref
  have hd : r.dots = cur.length - commonLen cur ref := by
    rw [hdots, if_neg (by omega)]
  have hcur : cur ≠ [] := by intro h; subst h; simp at hlt
  -- the structured import after the optional exact step: same dots, same target
  obtain ⟨r', hr', hd', ht'⟩ : ∃ r', (if ex || ib then exactImport r cls else r) = r' ∧
      r'.dots = r.dots ∧ targetOf r' = ref.drop (commonLen cur ref) := by
    by_cases hx : (ex || ib) = true
    · have hm := relative_isModule cur ref cls r hr hn (hex hx)
      refine ⟨exactImport r cls, by simp [hx], rfl, ?_⟩
      rw [← htgt]; simp [targetOf, exactImport, hm]
    · exact ⟨r, by simp [hx], rfl, htgt⟩
  have hpb : cur.isPrefixOf ref = false := by
    cases h : cur.isPrefixOf ref with
    | false => rfl
    | true => exact absurd (List.isPrefixOf_iff_prefix.mp h) hpre
  refine ⟨{ r' with dots := r'.dots + (if isInit then 1 else 0) }, ?_, ?_⟩
  · simp only [emitted, hr]; rw [hr']; simp [hpb]
  · simp only [designated]
    have ht : (if r'.isModule then r'.pkg ++ [r'.name] else r'.pkg) = ref.drop (commonLen cur ref) := ht'
    rw [ht]
    cases isInit with
    | true =>
      simp only [resolveFrom, packageOf, if_true]
      rw [if_neg (by omega), if_neg (by omega)]
      have : cur.length - (r'.dots + 1 - 1) = commonLen cur ref := by omega
      rw [this, hsplit]
    | false =>
      simp only [resolveFrom, packageOf, Bool.false_eq_true, if_false, if_neg hcur, List.length_dropLast]
      rw [if_neg (by omega), if_neg (by omega)]
      have : cur.length - 1 - (r'.dots + 0 - 1) = commonLen cur ref := by omega
      rw [this, take_dropLast _ _ hlt, hsplit]

theorem commonLen_of_prefix {cur ref : MPath} (h : cur <+: ref) : commonLen cur ref = cur.length := by
  obtain ⟨t, rfl⟩ := h
  induction cur with
  | nil => simp [commonLen]
  | cons x xs ih => simp [commonLen, ih]

/-- A package file whose importee lies BELOW the package: no extra dot is added, the single dot
of `relative` addresses the package itself, and the import designates the importee — for the
plain and for the exact form. -/
theorem emitted_designates_init_descendant (cur ref : MPath) (cls : Name) (ex ib : Bool)
    (hn : NoEmptyName ref) (hcur : cur ≠ []) (hpre : cur <+: ref) (hne : cur ≠ ref) :
    ∃ r, emitted cur true ex ib ref cls = some r ∧ designated cur true r = some ref := by
  obtain ⟨r, hr, hdots, htgt⟩ := relative_shape cur ref cls hne hn
  have hc := commonLen_of_prefix hpre
  have hsplit := ref_split cur ref
  rw [hc] at hdots htgt hsplit
  simp only [Nat.sub_self, if_true] at hdots
  rw [List.take_length] at hsplit
  have hnp : ¬ ref <+: cur := by
    intro h
    exact hne (List.IsPrefix.eq_of_length_le hpre (h.length_le))
  have hm := relative_isModule cur ref cls r hr hn hnp
  obtain ⟨r', hr', hd', ht'⟩ : ∃ r', (if ex || ib then exactImport r cls else r) = r' ∧
      r'.dots = 1 ∧ targetOf r' = ref.drop cur.length := by
    by_cases hx : (ex || ib) = true
    · refine ⟨exactImport r cls, by simp [hx], hdots, ?_⟩
      rw [← htgt]; simp [targetOf, exactImport, hm]
    · exact ⟨r, by simp [hx], hdots, htgt⟩
  have hpb : cur.isPrefixOf ref = true := List.isPrefixOf_iff_prefix.mpr hpre
  have hce : cur.isEmpty = false := by cases cur <;> simp at hcur ⊢
  refine ⟨{ r' with dots := r'.dots + 0 }, ?_, ?_⟩
  · simp only [emitted, hr]; rw [hr']; simp [hpb, hce]
  · simp only [designated]
    have ht : (if r'.isModule then r'.pkg ++ [r'.name] else r'.pkg) = ref.drop cur.length := ht'
    rw [ht]
    simp [resolveFrom, packageOf, hd', hsplit]

/-- The root `__init__.py` is written with `init = False` although it is a package file; one dot
then designates the root package itself, so every import from the root resolves. -/
theorem emitted_designates_root (ref : MPath) (cls : Name) (ex ib : Bool) (hn : NoEmptyName ref)
    (hne : ref ≠ []) :
    ∃ r, emitted [] false ex ib ref cls = some r ∧ designated [] true r = some ref := by
  obtain ⟨r, hr, hdots, htgt⟩ := relative_shape [] ref cls (fun h => hne h.symm) hn
  have hc : commonLen [] ref = 0 := by simp [commonLen]
  rw [hc] at hdots htgt
  simp only [List.length_nil, Nat.sub_self, if_true, List.drop_zero] at hdots htgt
  have hm := relative_isModule [] ref cls r hr hn (by
    intro h; exact hne (List.prefix_nil.mp h))
  obtain ⟨r', hr', hd', ht'⟩ : ∃ r', (if ex || ib then exactImport r cls else r) = r' ∧
      r'.dots = 1 ∧ targetOf r' = ref := by
    by_cases hx : (ex || ib) = true
    · refine ⟨exactImport r cls, by simp [hx], hdots, ?_⟩
      rw [← htgt]; simp [targetOf, exactImport, hm]
    · exact ⟨r, by simp [hx], hdots, htgt⟩
  refine ⟨{ r' with dots := r'.dots + 0 }, ?_, ?_⟩
  · simp only [emitted, hr]; rw [hr']; simp
  · simp only [designated]
    have ht : (if r'.isModule then r'.pkg ++ [r'.name] else r'.pkg) = ref := ht'
    rw [ht]
    simp [resolveFrom, packageOf, hd']


/-! ### the processing order is deepest-first -/

theorem mem_fillGap {prev next q : MPath} (h : q ∈ fillGap prev next) :
    next.length < q.length ∧ q.length < prev.length ∧ q <+: prev := by
  simp only [fillGap, List.mem_map, List.mem_range] at h
  obtain ⟨j, hj, rfl⟩ := h
  refine ⟨?_, ?_, List.take_prefix _ _⟩ <;> simp [List.length_take] <;> omega

theorem fillGap_nil (m : MPath) : fillGap [] m = [] := by simp [fillGap]

theorem deepestFirst_cons {m : MPath} {rest : List MPath} (h : deepestFirst (m :: rest) = true) :
    (∀ x ∈ rest, x.length ≤ m.length) ∧ deepestFirst rest = true := by
  simpa [deepestFirst] using h

/-- where a processed module comes from: an input module, or a proper prefix of one -/
theorem mem_procFrom {prev : MPath} {l : List MPath} {p : Proc} (h : p ∈ procFrom prev l) :
    (p.hasModels = true ∧ p.mod ∈ l) ∨ (p.hasModels = false ∧ (p.mod <+: prev ∨ ∃ m ∈ l, p.mod <+: m)) := by
  induction l generalizing prev with
  | nil => simp [procFrom] at h
  | cons m rest ih =>
    simp only [procFrom, List.mem_append, List.mem_map, List.mem_cons] at h
    rcases h with ⟨q, hq, rfl⟩ | rfl | h
    · exact Or.inr ⟨rfl, Or.inl (mem_fillGap hq).2.2⟩
    · exact Or.inl ⟨rfl, by simp⟩
    · rcases ih h with ⟨h1, h2⟩ | ⟨h1, h2 | ⟨m', hm', h2⟩⟩
      · exact Or.inl ⟨h1, List.mem_cons_of_mem _ h2⟩
      · exact Or.inr ⟨h1, Or.inr ⟨m, by simp, h2⟩⟩
      · exact Or.inr ⟨h1, Or.inr ⟨m', List.mem_cons_of_mem _ hm', h2⟩⟩

theorem mem_procFrom_of_mem {prev : MPath} {l : List MPath} {m : MPath} (h : m ∈ l) :
    (⟨m, true⟩ : Proc) ∈ procFrom prev l := by
  induction l generalizing prev with
  | nil => simp at h
  | cons a rest ih =>
    simp only [procFrom, List.mem_append, List.mem_cons]
    rcases List.mem_cons.mp h with rfl | h
    · exact Or.inr (Or.inl rfl)
    · exact Or.inr (Or.inr (ih h))

def descLen (l : List Proc) : Prop := l.Pairwise (fun a b => b.mod.length ≤ a.mod.length)

theorem procFrom_desc {prev : MPath} {l : List MPath}
    (hb : ∀ x ∈ l, x.length ≤ prev.length) (hd : deepestFirst l = true) :
    descLen (procFrom prev l) ∧ ∀ p ∈ procFrom prev l, p.mod.length ≤ prev.length := by
  induction l generalizing prev with
  | nil => simp [procFrom, descLen]
  | cons m rest ih =>
    obtain ⟨hrest, hd'⟩ := deepestFirst_cons hd
    obtain ⟨ih1, ih2⟩ := ih hrest hd'
    have hm : m.length ≤ prev.length := hb m (by simp)
    constructor
    · simp only [procFrom, descLen]
      rw [List.pairwise_append]
      refine ⟨?_, ?_, ?_⟩
      · -- inside the gap filler: lengths strictly decrease
        simp only [fillGap, List.map_map]
        rw [List.pairwise_map]
        apply List.Pairwise.imp (R := fun a b => a < b)
        · intro a b hab
          simp only [Function.comp, List.length_take]
          omega
        · exact List.pairwise_lt_range
      · rw [List.pairwise_cons]
        exact ⟨fun p hp => ih2 p hp, ih1⟩
      · intro a ha b hb'
        simp only [List.mem_map] at ha
        obtain ⟨q, hq, rfl⟩ := ha
        have hq' := mem_fillGap hq
        rcases List.mem_cons.mp hb' with rfl | hb'
        · simp only; omega
        · have := ih2 b hb'; simp only; omega
    · intro p hp
      simp only [procFrom, List.mem_append, List.mem_map, List.mem_cons] at hp
      rcases hp with ⟨q, hq, rfl⟩ | rfl | hp
      · have := mem_fillGap hq; simp only; omega
      · exact hm
      · have := ih2 p hp; omega

theorem procOrder_desc {mods : List MPath} (hd : deepestFirst mods = true) : descLen (procOrder mods) := by
  cases mods with
  | nil => simp [procOrder, procFrom, descLen]
  | cons m rest =>
    obtain ⟨hrest, hd'⟩ := deepestFirst_cons hd
    obtain ⟨h1, h2⟩ := procFrom_desc (prev := m) hrest hd'
    simp only [procOrder, procFrom, fillGap_nil, List.map_nil, List.nil_append, descLen]
    rw [List.pairwise_cons]
    exact ⟨fun p hp => h2 p hp, h1⟩


/-! ### `results` during the first loop, and the `init` decision -/

theorem mem_addParent {res : List FileKey} {m : MPath} {k : FileKey} :
    k ∈ addParent res m ↔ k ∈ res ∨ (m ≠ [] ∧ k = .init m.dropLast) := by
  unfold addParent
  by_cases hm : m = []
  · simp [hm]
  · simp only [if_neg hm]
    by_cases hin : FileKey.init m.dropLast ∈ res
    · simp only [if_pos hin]
      constructor
      · exact Or.inl
      · rintro (h | ⟨_, rfl⟩)
        · exact h
        · exact hin
    · simp only [if_neg hin, List.mem_append, List.mem_singleton]
      constructor
      · rintro (h | h)
        · exact Or.inl h
        · exact Or.inr ⟨hm, h⟩
      · rintro (h | ⟨_, h⟩)
        · exact Or.inl h
        · exact Or.inr h

theorem mem_parentsAfter {res : List FileKey} {l : List Proc} {k : FileKey} :
    k ∈ parentsAfter res l ↔ k ∈ res ∨ ∃ p ∈ l, p.mod ≠ [] ∧ k = .init p.mod.dropLast := by
  induction l generalizing res with
  | nil => simp [parentsAfter]
  | cons p ps ih =>
    simp only [parentsAfter, ih, mem_addParent, List.mem_cons]
    constructor
    · rintro ((h | ⟨h1, h2⟩) | ⟨q, hq, h1, h2⟩)
      · exact Or.inl h
      · exact Or.inr ⟨p, Or.inl rfl, h1, h2⟩
      · exact Or.inr ⟨q, Or.inr hq, h1, h2⟩
    · rintro (h | ⟨q, rfl | hq, h1, h2⟩)
      · exact Or.inl (Or.inl h)
      · exact Or.inl (Or.inr ⟨h1, h2⟩)
      · exact Or.inr ⟨q, hq, h1, h2⟩

/-- every element of `assign` is `assignOne` applied to the parents created by what came before -/
theorem mem_assign {res : List FileKey} {l : List Proc} {a : Assigned} (h : a ∈ assign res l) :
    ∃ l1 p l2, l = l1 ++ p :: l2 ∧ a = assignOne (parentsAfter res l1) p := by
  induction l generalizing res with
  | nil => simp [assign] at h
  | cons p ps ih =>
    simp only [assign, List.mem_cons] at h
    rcases h with rfl | h
    · exact ⟨[], p, ps, rfl, rfl⟩
    · obtain ⟨l1, q, l2, rfl, rfl⟩ := ih h
      exact ⟨p :: l1, q, l2, rfl, rfl⟩

theorem assign_mem_of_split {res : List FileKey} {l1 l2 : List Proc} {p : Proc} :
    assignOne (parentsAfter res l1) p ∈ assign res (l1 ++ p :: l2) := by
  induction l1 generalizing res with
  | nil => simp [assign, parentsAfter]
  | cons q qs ih =>
    simp only [List.cons_append, assign, parentsAfter, List.mem_cons]
    exact Or.inr ih

theorem assignOne_mod (res : List FileKey) (p : Proc) : (assignOne res p).mod = p.mod := by
  unfold assignOne; split
  · rfl
  · split <;> rfl

theorem assignOne_hasModels (res : List FileKey) (p : Proc) : (assignOne res p).hasModels = p.hasModels := by
  unfold assignOne; split
  · rfl
  · split <;> rfl

/-- the three shapes of an assignment -/
theorem assignOne_cases (res : List FileKey) (p : Proc) :
    (p.mod = [] ∧ (assignOne res p).key = .init [] ∧ (assignOne res p).init = false) ∨
    (p.mod ≠ [] ∧ FileKey.init p.mod ∈ addParent res p.mod ∧
      (assignOne res p).key = .init p.mod ∧ (assignOne res p).init = true) ∨
    (p.mod ≠ [] ∧ FileKey.init p.mod ∉ addParent res p.mod ∧
      (assignOne res p).key = .py p.mod.dropLast (p.mod.getLast?.getD []) ∧ (assignOne res p).init = false) := by
  unfold assignOne
  by_cases h : p.mod = []
  · simp [h]
  · by_cases h2 : FileKey.init p.mod ∈ addParent res p.mod
    · simp [h, h2]
    · simp [h, h2]

/-- a package `__init__` key exists for `m` only because a child of `m` was processed -/
theorem init_mem_parents {res : List FileKey} {l : List Proc} {m : MPath}
    (h : FileKey.init m ∈ parentsAfter res l) (hres : FileKey.init m ∉ res) :
    ∃ c ∈ l, c.mod ≠ [] ∧ c.mod.dropLast = m := by
  rcases mem_parentsAfter.mp h with h | ⟨c, hc, h1, h2⟩
  · exact absurd h hres
  · exact ⟨c, hc, h1, by cases h2; rfl⟩

/-- **child ⇒ package**: in a deepest-first order, a module one of whose children is processed
is written as `m/__init__.py`. -/
theorem child_implies_init_key {mods : List MPath} (hd : deepestFirst mods = true)
    {a : Assigned} (ha : a ∈ assign [] (procOrder mods))
    {c : Proc} (hc : c ∈ procOrder mods) (hcm : c.mod ≠ []) (hch : c.mod.dropLast = a.mod) :
    a.key = .init a.mod ∧ (a.mod ≠ [] → a.init = true) := by
  obtain ⟨l1, p, l2, hl, rfl⟩ := mem_assign ha
  rw [assignOne_mod] at hch ⊢
  have hdesc := procOrder_desc hd
  rw [hl] at hc hdesc
  have hlen : c.mod.length = p.mod.length + 1 := by
    have := @List.length_dropLast _ c.mod
    rw [hch] at this
    have : c.mod.length ≠ 0 := by simpa using hcm
    omega
  -- the child stands before `p`
  have hc1 : c ∈ l1 := by
    rcases List.mem_append.mp hc with h | h
    · exact h
    · exfalso
      rcases List.mem_cons.mp h with rfl | h
      · omega
      · have hp := (List.pairwise_append.mp hdesc).2.1
        have := (List.pairwise_cons.mp hp).1 c h
        omega
  have hinit : FileKey.init p.mod ∈ addParent (parentsAfter [] l1) p.mod := by
    rw [mem_addParent]
    exact Or.inl (mem_parentsAfter.mpr (Or.inr ⟨c, hc1, hcm, by rw [hch]⟩))
  rcases assignOne_cases (parentsAfter [] l1) p with ⟨h0, hk, _⟩ | ⟨_, _, hk, hi⟩ | ⟨_, hn, _, _⟩
  · exact ⟨by rw [hk, h0], fun h => absurd h0 h⟩
  · exact ⟨hk, fun _ => hi⟩
  · exact absurd hinit hn


/-! ### descendants, under `covered` -/

theorem covered_spec {mods : List MPath} (h : covered mods = true) {p : Proc} (hp : p ∈ procOrder mods)
    {k : Nat} (hk0 : 0 < k) (hk : k < p.mod.length) : ∃ q ∈ procOrder mods, q.mod = p.mod.take k := by
  simp only [covered, List.all_eq_true, List.any_eq_true, decide_eq_true_eq] at h
  have := h p hp (p.mod.take k) (by
    simp only [properPrefixes, List.mem_map, List.mem_range]
    exact ⟨k - 1, by omega, by congr 1; omega⟩)
  exact this

/-- **descendant ⇒ package** (partial: under `covered`). -/
theorem descendant_implies_init_key {mods : List MPath} (hd : deepestFirst mods = true)
    (hcov : covered mods = true) {a : Assigned} (ha : a ∈ assign [] (procOrder mods))
    {p : Proc} (hp : p ∈ procOrder mods) (hpre : a.mod <+: p.mod) (hne : a.mod ≠ p.mod) :
    a.key = .init a.mod ∧ (a.mod ≠ [] → a.init = true) := by
  obtain ⟨t, ht⟩ := hpre
  have htne : t ≠ [] := by
    intro h; subst h; simp at ht; exact hne ht
  have hlen : p.mod.length = a.mod.length + t.length := by rw [← ht]; simp
  have htl : 0 < t.length := List.length_pos_iff.mpr htne
  -- the child of `a.mod` on the way to `p.mod`
  have hchild : ∃ c ∈ procOrder mods, c.mod = p.mod.take (a.mod.length + 1) := by
    by_cases h1 : t.length = 1
    · exact ⟨p, hp, by rw [List.take_of_length_le]; omega⟩
    · exact covered_spec hcov hp (by omega) (by omega)
  obtain ⟨c, hc, hcm⟩ := hchild
  have hc_len : c.mod.length = a.mod.length + 1 := by
    rw [hcm, List.length_take]; omega
  have hcne : c.mod ≠ [] := by
    intro h; rw [h] at hc_len; simp at hc_len
  have hcd : c.mod.dropLast = a.mod := by
    rw [hcm, List.dropLast_eq_take, List.take_take, List.length_take]
    have : min (min (a.mod.length + 1) p.mod.length - 1) (a.mod.length + 1) = a.mod.length := by omega
    rw [this, ← ht, List.take_left']
    rfl
  exact child_implies_init_key hd ha hc hcne hcd

/-! ### the keys of the file map -/

theorem mem_keys_upsert {fm : FileMap} {k k' : FileKey} {v : Option MPath} :
    k ∈ keys (upsert fm k' v) ↔ k ∈ keys fm ∨ k = k' := by
  induction fm with
  | nil => simp [upsert, keys]
  | cons e rest ih =>
    obtain ⟨k0, v0⟩ := e
    simp only [upsert]
    split
    · rename_i h; subst h
      simp only [keys, List.map_cons, List.mem_cons]
      constructor
      · rintro (h | h)
        · exact Or.inr h
        · exact Or.inl (Or.inr h)
      · rintro ((h | h) | h)
        · exact Or.inl h
        · exact Or.inr h
        · exact Or.inl h
    · simp only [keys, List.map_cons, List.mem_cons] at ih ⊢
      rw [ih]
      constructor
      · rintro (h | h | h)
        · exact Or.inl (Or.inl h)
        · exact Or.inl (Or.inr h)
        · exact Or.inr h
      · rintro ((h | h) | h)
        · exact Or.inl h
        · exact Or.inr (Or.inl h)
        · exact Or.inr (Or.inr h)

theorem mem_keys_renderLoop {fm : FileMap} {as : List Assigned} {k : FileKey} :
    k ∈ keys (renderLoop fm as) ↔
      k ∈ keys fm ∨ ∃ a ∈ as, (a.hasModels || a.init) = true ∧ a.key = k := by
  induction as generalizing fm with
  | nil => simp [renderLoop]
  | cons a rest ih =>
    simp only [renderLoop]
    split
    · rename_i h
      rw [ih, mem_keys_upsert]
      constructor
      · rintro ((h1 | h1) | ⟨b, hb, h2, h3⟩)
        · exact Or.inl h1
        · exact Or.inr ⟨a, by simp, h, h1.symm⟩
        · exact Or.inr ⟨b, List.mem_cons_of_mem _ hb, h2, h3⟩
      · rintro (h1 | ⟨b, hb, h2, h3⟩)
        · exact Or.inl (Or.inl h1)
        · rcases List.mem_cons.mp hb with rfl | hb
          · exact Or.inl (Or.inr h3.symm)
          · exact Or.inr ⟨b, hb, h2, h3⟩
    · rename_i h
      rw [ih]
      constructor
      · rintro (h1 | ⟨b, hb, h2, h3⟩)
        · exact Or.inl h1
        · exact Or.inr ⟨b, List.mem_cons_of_mem _ hb, h2, h3⟩
      · rintro (h1 | ⟨b, hb, h2, h3⟩)
        · exact Or.inl h1
        · rcases List.mem_cons.mp hb with rfl | hb
          · exact absurd h2 h
          · exact Or.inr ⟨b, hb, h2, h3⟩

theorem mem_keys_fileMap {mods : List MPath} {k : FileKey} :
    k ∈ keys (fileMap mods) ↔
      k ∈ parentsAfter [] (procOrder mods) ∨
      ∃ a ∈ assign [] (procOrder mods), (a.hasModels || a.init) = true ∧ a.key = k := by
  simp only [fileMap]
  rw [mem_keys_renderLoop]
  simp [keys, List.map_map, Function.comp]


/-! ### no shadowing, under `covered` -/

theorem prefix_strict_of_dropLast {a m : MPath} (hm : m ≠ []) (h : a <+: m.dropLast) :
    a <+: m ∧ a ≠ m := by
  have hp : m.dropLast <+: m := List.dropLast_prefix m
  refine ⟨h.trans hp, ?_⟩
  intro he; subst he
  have := h.length_le
  have hl : a.length ≠ 0 := by simpa using hm
  simp at this; omega

/-- a key whose directory lies at or below `a.mod` (for a module that is NOT that key's own
`__init__`) witnesses a processed module strictly below `a.mod` -/
theorem key_below_gives_descendant {mods : List MPath} {k : FileKey}
    (hk : k ∈ keys (fileMap mods)) {m : MPath} (hm : m ≠ []) (hdir : m <+: k.dir) :
    ∃ p ∈ procOrder mods, m <+: p.mod ∧ m ≠ p.mod := by
  rcases mem_keys_fileMap.mp hk with hk | ⟨a, ha, _, hak⟩
  · rcases mem_parentsAfter.mp hk with hk | ⟨c, hc, hcne, rfl⟩
    · simp at hk
    · exact ⟨c, hc, prefix_strict_of_dropLast hcne hdir⟩
  · obtain ⟨l1, p, l2, hl, rfl⟩ := mem_assign ha
    have hp : p ∈ procOrder mods := by rw [hl]; simp
    rcases assignOne_cases (parentsAfter [] l1) p with ⟨_, hkey, _⟩ | ⟨hpne, hin, hkey, _⟩ | ⟨hpne, _, hkey, _⟩
    · rw [← hak, hkey] at hdir
      exact absurd (List.prefix_nil.mp hdir) hm
    · rw [← hak, hkey] at hdir
      simp only [FileKey.dir] at hdir
      by_cases he : m = p.mod
      · -- `p` is a package file because one of its children was processed before it
        rw [mem_addParent] at hin
        rcases hin with hin | ⟨_, hin⟩
        · obtain ⟨c, hc, hcne, hcd⟩ := init_mem_parents hin (by simp)
          refine ⟨c, by rw [hl]; simp [hc], ?_⟩
          rw [he, ← hcd]
          exact prefix_strict_of_dropLast hcne (List.prefix_refl _)
        · exfalso
          have h1 : p.mod = p.mod.dropLast := by injection hin
          have := @List.length_dropLast _ p.mod
          rw [← h1] at this
          have : p.mod.length ≠ 0 := by simpa using hpne
          omega
      · exact ⟨p, hp, hdir, he⟩
    · rw [← hak, hkey] at hdir
      exact ⟨p, hp, prefix_strict_of_dropLast hpne hdir⟩

theorem py_key_origin {mods : List MPath} {d : MPath} {s : Name}
    (hk : FileKey.py d s ∈ keys (fileMap mods)) :
    ∃ a ∈ assign [] (procOrder mods), a.key = .py d s ∧ a.mod = d ++ [s] := by
  rcases mem_keys_fileMap.mp hk with hk | ⟨a, ha, _, hak⟩
  · rcases mem_parentsAfter.mp hk with hk | ⟨c, _, _, h⟩
    · simp at hk
    · cases h
  · refine ⟨a, ha, hak, ?_⟩
    obtain ⟨l1, p, l2, _, rfl⟩ := mem_assign ha
    rw [assignOne_mod]
    rcases assignOne_cases (parentsAfter [] l1) p with ⟨_, hkey, _⟩ | ⟨_, _, hkey, _⟩ | ⟨hpne, _, hkey, _⟩
    · rw [hkey] at hak; cases hak
    · rw [hkey] at hak; cases hak
    · rw [hkey] at hak
      cases hak
      exact (dropLast_append_getLast _ hpne).symm

theorem no_shadowing_of_covered {mods : List MPath} (hd : deepestFirst mods = true)
    (hcov : covered mods = true) : shadowFree (keys (fileMap mods)) = true := by
  simp only [shadowFree, List.all_eq_true]
  intro k hk
  cases k with
  | init d => rfl
  | py d s =>
    simp only [List.all_eq_true, Bool.not_eq_eq_eq_not, Bool.not_true]
    intro k' hk'
    cases hpre : (d ++ [s]).isPrefixOf k'.dir with
    | false => rfl
    | true =>
      exfalso
      have hpre' : (d ++ [s]) <+: k'.dir := List.isPrefixOf_iff_prefix.mp hpre
      obtain ⟨a, ha, hakey, hamod⟩ := py_key_origin hk
      obtain ⟨p, hp, hpp, hpne⟩ := key_below_gives_descendant hk' (m := d ++ [s]) (by simp) hpre'
      have := (descendant_implies_init_key hd hcov ha hp (hamod ▸ hpp) (hamod ▸ hpne)).1
      rw [hakey] at this
      cases this

/-! ### parents and own files -/

theorem model_parent_has_init_key {mods : List MPath} {m : MPath} (hm : m ∈ mods) (hne : m ≠ []) :
    FileKey.init m.dropLast ∈ keys (fileMap mods) := by
  rw [mem_keys_fileMap]
  left
  rw [mem_parentsAfter]
  exact Or.inr ⟨⟨m, true⟩, mem_procFrom_of_mem hm, hne, rfl⟩

theorem mem_assign_of_mem_proc {res : List FileKey} {l : List Proc} {p : Proc} (hp : p ∈ l) :
    ∃ a ∈ assign res l, a.mod = p.mod ∧ a.hasModels = p.hasModels := by
  obtain ⟨l1, l2, rfl⟩ := List.append_of_mem hp
  exact ⟨_, assign_mem_of_split, assignOne_mod _ _, assignOne_hasModels _ _⟩

/-- every module with models gets a file: `m/__init__.py` or `m[:-1]/m[-1].py` -/
theorem module_has_file_key {mods : List MPath} {m : MPath} (hm : m ∈ mods) :
    FileKey.init m ∈ keys (fileMap mods) ∨
      (m ≠ [] ∧ FileKey.py m.dropLast (m.getLast?.getD []) ∈ keys (fileMap mods)) := by
  obtain ⟨a, ha, hamod, hahm⟩ := mem_assign_of_mem_proc (res := []) (mem_procFrom_of_mem (prev := []) hm)
  obtain ⟨l1, p, l2, hl, rfl⟩ := mem_assign ha
  rw [assignOne_mod] at hamod
  simp only at hamod hahm
  have hin : ∀ k, (assignOne (parentsAfter [] l1) p).key = k → k ∈ keys (fileMap mods) := by
    intro k hk
    rw [mem_keys_fileMap]
    exact Or.inr ⟨_, ha, by rw [hahm]; rfl, hk⟩
  rcases assignOne_cases (parentsAfter [] l1) p with ⟨h0, hkey, _⟩ | ⟨_, _, hkey, _⟩ | ⟨hpne, _, hkey, _⟩
  · left; have := hin _ hkey; rw [← hamod, h0]; exact this
  · left; have := hin _ hkey; rw [← hamod]; exact this
  · right; have := hin _ hkey; rw [← hamod]; exact ⟨hpne, this⟩


/-! ### `__postprocess_result_modules` -/

theorem mem_keys_foldl_upsert {fm : FileMap} {ds : List MPath} {body : Option MPath} {k : FileKey} :
    k ∈ keys (ds.foldl (fun acc d => upsert acc (.init d) body) fm) ↔
      k ∈ keys fm ∨ ∃ d ∈ ds, k = .init d := by
  induction ds generalizing fm with
  | nil => simp
  | cons d rest ih =>
    simp only [List.foldl_cons, ih, mem_keys_upsert, List.mem_cons]
    constructor
    · rintro ((h | h) | ⟨e, he, h⟩)
      · exact Or.inl h
      · exact Or.inr ⟨d, Or.inl rfl, h⟩
      · exact Or.inr ⟨e, Or.inr he, h⟩
    · rintro (h | ⟨e, rfl | he, h⟩)
      · exact Or.inl (Or.inl h)
      · exact Or.inl (Or.inr h)
      · exact Or.inr ⟨e, he, h⟩

theorem mem_nonemptyPrefixes {d q : MPath} :
    q ∈ nonemptyPrefixes d ↔ ∃ j, j < d.length ∧ q = d.take (j + 1) := by
  simp only [nonemptyPrefixes, List.mem_map, List.mem_range]
  constructor
  · rintro ⟨j, hj, rfl⟩; exact ⟨j, hj, rfl⟩
  · rintro ⟨j, hj, rfl⟩; exact ⟨j, hj, rfl⟩

theorem nonemptyPrefixes_trans {d q r : MPath} (hq : q ∈ nonemptyPrefixes d)
    (hr : r ∈ nonemptyPrefixes q) : r ∈ nonemptyPrefixes d := by
  rw [mem_nonemptyPrefixes] at *
  obtain ⟨j, hj, rfl⟩ := hq
  obtain ⟨i, hi, rfl⟩ := hr
  simp only [List.length_take] at hi
  refine ⟨i, by omega, ?_⟩
  rw [List.take_take]
  congr 1
  omega

/-- with `--treat-dot-as-module` every package directory of the output has an `__init__.py` -/
theorem postTreatDot_parentsHaveInit (fm : FileMap) (h : (fm.find? (·.1.isInit)).isSome = true) :
    parentsHaveInit (keys (postTreatDot fm)) = true := by
  unfold postTreatDot
  cases hf : fm.find? (·.1.isInit) with
  | none => rw [hf] at h; simp at h
  | some e =>
    obtain ⟨k0, body⟩ := e
    simp only [parentsHaveInit, List.all_eq_true, List.contains_iff_mem]
    intro k hk d hd
    rw [mem_keys_foldl_upsert] at hk ⊢
    right
    rcases hk with hk | ⟨d', hd', rfl⟩
    · simp only [keys, List.mem_map] at hk
      obtain ⟨e, he, rfl⟩ := hk
      exact ⟨d, List.mem_flatMap.mpr ⟨e, he, hd⟩, rfl⟩
    · obtain ⟨e, he, hd'e⟩ := List.mem_flatMap.mp hd'
      exact ⟨d, List.mem_flatMap.mpr ⟨e, he, nonemptyPrefixes_trans hd'e hd⟩, rfl⟩


/-! ### the names `__change_from_import` gives to imports -/

theorem firstFree_fresh {name : List Char} {tk : List (List Char)} {fuel k : Nat} {u : List Char}
    (h : firstFree name tk fuel k = some u) : u ∉ tk := by
  induction fuel generalizing k with
  | zero => simp [firstFree] at h
  | succ f ih =>
    simp only [firstFree] at h
    split at h
    · exact ih h
    · next hc =>
      cases h
      simpa using hc

theorem firstFree_zero {name : List Char} {tk : List (List Char)} {fuel : Nat} {u : List Char}
    (h : firstFree name tk fuel 0 = some u) : u = name ∨ name ∈ tk := by
  cases fuel with
  | zero => simp [firstFree] at h
  | succ f =>
    have h0 : aliasCandidate name 0 = name := rfl
    simp only [firstFree] at h
    by_cases hc : tk.contains (aliasCandidate name 0) = true
    · rw [h0] at hc
      exact .inr (by simpa using hc)
    · rw [if_neg hc] at h
      cases h; exact .inl h0

theorem uniqueName_fresh {s : Scope} {name u : List Char} (h : s.uniqueName name = some u) : u ∉ s.taken :=
  firstFree_fresh h

theorem uniqueName_name_taken {s : Scope} {name u : List Char} (h : s.uniqueName name = some u) :
    u = name ∨ name ∈ s.taken :=
  firstFree_zero h

/-- (a) every class name of the module is taken: excluded, or the name of a class entry -/
def ClassesTaken (P C : List (List Char)) (s : Scope) : Prop :=
  ∀ c ∈ C, c ∈ s.excl ∨ ∃ e ∈ s.refs, e.key ∈ P ∧ e.name = c

/-- (b) no entry that is not a class entry carries a class name -/
def ForeignClean (P C : List (List Char)) (s : Scope) : Prop :=
  ∀ e ∈ s.refs, e.key ∉ P → e.name ∉ C

theorem ClassesTaken.mem_taken {P C : List (List Char)} {s : Scope} (h : ClassesTaken P C s)
    {c : List Char} (hc : c ∈ C) : c ∈ s.taken := by
  unfold Scope.taken
  rcases h c hc with h | ⟨e, he, _, hn⟩
  · exact List.mem_append_right _ h
  · exact List.mem_append_left _ (List.mem_map.mpr ⟨e, he, hn⟩)

/-- one call of the second loop: a key that is not a class key gets a name that is no class name, and
both invariants survive -/
theorem add_foreign {vn : List Char → List Char} {P C : List (List Char)} {s s' : Scope}
    {key imp n : List Char} (ha : ClassesTaken P C s) (hb : ForeignClean P C s) (hk : key ∉ P)
    (h : s.add vn key imp = (s', some n)) :
    n ∉ C ∧ ClassesTaken P C s' ∧ ForeignClean P C s' := by
  unfold Scope.add at h
  split at h
  · next r hf =>
    have hr : r ∈ s.refs := List.mem_of_find?_eq_some hf
    have hrk : r.key = key := by simpa using List.find?_some hf
    split at h
    · -- the reference exists and is returned as it is
      cases h
      exact ⟨hb r hr (by rw [hrk]; exact hk), ha, hb⟩
    · split at h
      · cases h
      · next u hu =>
        cases h
        have hfresh : n ∉ C := fun hc => uniqueName_fresh hu (ha.mem_taken hc)
        refine ⟨hfresh, ?_, ?_⟩
        · intro c hc
          rcases ha c hc with h1 | ⟨e, he, hep, hen⟩
          · exact .inl h1
          · refine .inr ⟨e, ?_, hep, hen⟩
            refine List.mem_map.mpr ⟨e, he, ?_⟩
            have : e.key ≠ key := fun heq => hk (heq ▸ hep)
            simp [this]
        · intro e' he' hkey'
          obtain ⟨e, he, rfl⟩ := List.mem_map.mp he'
          by_cases hek : e.key = key
          · simp only [hek, if_true]; exact hfresh
          · simp only [hek, if_false] at hkey' ⊢
            exact hb e he hkey'
  · split at h
    · cases h
    · next u hu =>
      cases h
      have hfresh : n ∉ C := fun hc => uniqueName_fresh hu (ha.mem_taken hc)
      refine ⟨hfresh, ?_, ?_⟩
      · intro c hc
        rcases ha c hc with h1 | ⟨e, he, hep, hen⟩
        · exact .inl h1
        · exact .inr ⟨e, List.mem_append_left _ he, hep, hen⟩
      · intro e he hkey
        rcases List.mem_append.mp he with he | he
        · exact hb e he hkey
        · simp only [List.mem_singleton] at he
          subst he
          exact hfresh

theorem allocate_avoids {vn : List Char → List Char} {P C : List (List Char)} :
    ∀ (reqs : List (List Char × List Char)) (s : Scope) (names : List (List Char)),
      ClassesTaken P C s → ForeignClean P C s → (∀ r ∈ reqs, r.1 ∉ P) →
      allocate vn s reqs = some names → ∀ n ∈ names, n ∉ C := by
  intro reqs
  induction reqs with
  | nil =>
    intro s names _ _ _ h n hn
    simp only [allocate, Option.some.injEq] at h
    subst h
    cases hn
  | cons r rest ih =>
    intro s names ha hb hk h n hn
    obtain ⟨key, imp⟩ := r
    simp only [allocate] at h
    split at h
    · next s' n0 hadd =>
      obtain ⟨h1, ha', hb'⟩ := add_foreign ha hb (hk (key, imp) (List.mem_cons_self ..)) hadd
      cases hrest : allocate vn s' rest with
      | none => rw [hrest] at h; cases h
      | some tail =>
        rw [hrest] at h
        simp only [Option.map_some, Option.some.injEq] at h
        subst h
        rcases List.mem_cons.mp hn with hn | hn
        · subst hn; exact h1
        · exact ih s' tail ha' hb' (fun r hr => hk r (List.mem_cons_of_mem _ hr)) hrest n hn
    · cases h

/-- the first loop: starting from a state whose entries are all class entries, registering further classes
(new, pairwise different keys, all in `P`; valid names) leaves every one of their names taken -/
theorem preRegister_takes {vn : List Char → List Char} {P : List (List Char)} :
    ∀ (classes : List (List Char × List Char)) (C0 : List (List Char)) (s s' : Scope),
      (∀ e ∈ s.refs, e.key ∈ P) → ClassesTaken P C0 s →
      (∀ pc ∈ classes, pc.1 ∈ P ∧ vn pc.2 = pc.2) →
      (classes.map (·.1)).Nodup → (∀ pc ∈ classes, pc.1 ∉ s.refs.map (·.key)) →
      preRegister vn s classes = some s' →
      (∀ e ∈ s'.refs, e.key ∈ P) ∧ ClassesTaken P (C0 ++ classes.map (·.2)) s' := by
  intro classes
  induction classes with
  | nil =>
    intro C0 s s' hall ha _ _ _ h
    simp only [preRegister, Option.some.injEq] at h
    subst h
    exact ⟨hall, by simpa using ha⟩
  | cons pc rest ih =>
    intro C0 s s' hall ha hP hnd hnew h
    obtain ⟨key, cls⟩ := pc
    simp only [preRegister] at h
    split at h
    · next s1 n0 hadd =>
      have hkP := (hP (key, cls) (List.mem_cons_self ..)).1
      have hvn := (hP (key, cls) (List.mem_cons_self ..)).2
      have hknew : key ∉ s.refs.map (·.key) := hnew (key, cls) (List.mem_cons_self ..)
      -- the key is new: `find?` answers none
      have hfind : s.refs.find? (fun e => e.key = key) = none := by
        rw [List.find?_eq_none]
        intro e he hek
        exact hknew (List.mem_map.mpr ⟨e, he, by simpa using hek⟩)
      unfold Scope.add at hadd
      rw [hfind] at hadd
      dsimp only at hadd
      rw [hvn] at hadd
      split at hadd
      · cases hadd
      · next u hu =>
        cases hadd
        simp only [List.map_cons, List.nodup_cons] at hnd
        have hall1 : ∀ e ∈ (s.refs ++ [⟨key, if cls = [] then n0 else cls, n0⟩]), e.key ∈ P := by
          intro e he
          rcases List.mem_append.mp he with he | he
          · exact hall e he
          · simp only [List.mem_singleton] at he; subst he; exact hkP
        have ha1 : ClassesTaken P (C0 ++ [cls]) ⟨s.refs ++ [⟨key, if cls = [] then n0 else cls, n0⟩], s.excl⟩ := by
          intro c hc
          rcases List.mem_append.mp hc with hc | hc
          · rcases ha c hc with h1 | ⟨e, he, hep, hen⟩
            · exact .inl h1
            · exact .inr ⟨e, List.mem_append_left _ he, hep, hen⟩
          · simp only [List.mem_singleton] at hc
            subst hc
            rcases uniqueName_name_taken hu with h1 | h1
            · exact .inr ⟨⟨key, if c = [] then n0 else c, n0⟩, List.mem_append_right _ (List.mem_singleton.mpr rfl), hkP, h1⟩
            · unfold Scope.taken at h1
              rcases List.mem_append.mp h1 with h1 | h1
              · obtain ⟨e, he, hen⟩ := List.mem_map.mp h1
                exact .inr ⟨e, List.mem_append_left _ he, hall e he, hen⟩
              · exact .inl h1
        have := ih (C0 ++ [cls]) _ s' hall1 ha1 (fun pc hpc => hP pc (List.mem_cons_of_mem _ hpc)) hnd.2
          (by
            intro pc hpc hmem
            simp only [List.map_append, List.map_cons, List.map_nil, List.mem_append, List.mem_singleton] at hmem
            rcases hmem with hmem | hmem
            · exact hnew pc (List.mem_cons_of_mem _ hpc) hmem
            · exact hnd.1 (List.mem_map.mpr ⟨pc, hpc, hmem⟩))
          h
        refine ⟨this.1, ?_⟩
        simpa [List.append_assoc] using this.2
    · cases h

/-- the two loops together -/
theorem importNames_avoid {vn : List Char → List Char} {excl : List (List Char)}
    {classes reqs : List (List Char × List Char)} {names : List (List Char)}
    (hv : ∀ pc ∈ classes, vn pc.2 = pc.2) (hnd : (classes.map (·.1)).Nodup)
    (hk : ∀ r ∈ reqs, r.1 ∉ classes.map (·.1))
    (h : importNames vn excl classes reqs = some names) : ∀ n ∈ names, n ∉ classes.map (·.2) := by
  unfold importNames at h
  split at h
  · next s hs =>
    have hpre := preRegister_takes (vn := vn) (P := classes.map (·.1)) classes [] ⟨[], excl⟩ s
      (by intro e he; cases he) (by intro c hc; cases hc)
      (fun pc hpc => ⟨List.mem_map.mpr ⟨pc, hpc, rfl⟩, hv pc hpc⟩) hnd (by intro pc _ hm; cases hm) hs
    have ha : ClassesTaken (classes.map (·.1)) (classes.map (·.2)) s := by simpa using hpre.2
    have hb : ForeignClean (classes.map (·.1)) (classes.map (·.2)) s := fun e he hne => absurd (hpre.1 e he) hne
    exact allocate_avoids reqs s names ha hb hk h
  · cases h

/-! ### sanitize_module_name -/

theorem sanitize_shape (name : List Char) (h : name ≠ []) :
    isAsciiIdentShape (sanitizeModuleName false name) = true := by
  cases name with
  | nil => exact absurd rfl h
  | cons c cs =>
    have hall : ∀ l : List Char,
        (l.map (fun c => if isAsciiAlnum c || c == '_' || (false && c == '.') then c else '_')).all
          (fun c => isAsciiAlnum c || c == '_') = true := by
      intro l
      simp only [List.all_map, List.all_eq_true]
      intro x _
      simp only [Function.comp, Bool.false_and, Bool.or_false]
      split
      · assumption
      · decide
    have hall' := hall (c :: cs)
    simp only [sanitizeModuleName]
    simp only [List.map_cons] at hall' ⊢
    generalize hx : (if isAsciiAlnum c || c == '_' || (false && c == '.') then c else '_') = x at hall' ⊢
    generalize hr : List.map (fun c => if isAsciiAlnum c || c == '_' || (false && c == '.') then c else '_') cs = r at hall' ⊢
    by_cases hd : isAsciiDigit x = true
    · simp only [hd, if_true, isAsciiIdentShape]
      have : isAsciiDigit '_' = false := by decide
      simp only [this, Bool.not_false, Bool.true_and, List.all_cons]
      have h2 : (isAsciiAlnum '_' || '_' == '_') = true := by decide
      rw [h2, Bool.true_and]
      simpa using hall'
    · simp only [hd, isAsciiIdentShape]
      simp only [Bool.not_eq_true] at hd
      simp [hd]
      simpa using hall'

/-- every character of a sanitised name is ASCII (so the name is a fixed point of the NFKC normalisation
the compiler applies to identifiers) -/
theorem sanitize_ascii (t : Bool) (name : List Char) :
    (sanitizeModuleName t name).all (fun c => decide (c.toNat < 128)) = true := by
  have hchar : ∀ c : Char, (isAsciiAlnum c || c == '_' || (t && c == '.')) = true → c.toNat < 128 := by
    intro c h
    simp only [Bool.or_eq_true, Bool.and_eq_true, beq_iff_eq, isAsciiAlnum, decide_eq_true_eq] at h
    rcases h with (h | h) | h
    · have tn : ∀ {a b : Char}, a ≤ b → a.toNat ≤ b.toNat := fun hab => UInt32.le_iff_toNat_le.mp (Char.le_def.mp hab)
      have e9 : ('9' : Char).toNat = 57 := rfl
      have ez : ('z' : Char).toNat = 122 := rfl
      have eZ : ('Z' : Char).toNat = 90 := rfl
      rcases h with h | h | h
      · have := tn h.2; omega
      · have := tn h.2; omega
      · have := tn h.2; omega
    · subst h; decide
    · rw [h.2]; decide
  have hmap : ∀ l : List Char,
      (l.map (fun c => if isAsciiAlnum c || c == '_' || (t && c == '.') then c else '_')).all
        (fun c => decide (c.toNat < 128)) = true := by
    intro l
    simp only [List.all_map, List.all_eq_true, Function.comp, decide_eq_true_eq]
    intro x _
    split
    · next h => exact hchar x h
    · decide
  unfold sanitizeModuleName
  dsimp only
  generalize hs : List.map (fun c => if isAsciiAlnum c || c == '_' || (t && c == '.') then c else '_') name = r
  have hr : r.all (fun c => decide (c.toNat < 128)) = true := hs ▸ hmap name
  cases r with
  | nil => rfl
  | cons c rest =>
    dsimp only
    split
    · simp only [List.all_cons, Bool.and_eq_true]
      exact ⟨by decide, by simpa using hr⟩
    · exact hr

end Dcg.Proofs.Modules
