import Dcg.Proofs.TemplateBlock
import Dcg.Proofs.TemplateSlots
/-
From the decidable block check of a template to a statement about every rendering, with
hypotheses only on the values of non-docstring sites (docstring sites are `… | indent(4)`, whose
shape is a lemma about the filter, not an assumption).
-/
namespace Dcg.Proofs.TemplateBlockTop
open Dcg.Model.TemplateSyntax Dcg.Model.Template Dcg.Model.TemplateAbs Dcg.Model.TemplateBlock
open Dcg.Proofs.TemplateAbs Dcg.Proofs.TemplateBlock Dcg.Proofs.TemplateSlots

/-- the value invariants assumed of a rendering: every interpolated value that is not docstring
text satisfies the invariant of its site class (`BlockHyp`) -/
def ValuesOK (o : Out) : Prop := ∀ p ∈ o.slots, slotKind p.1 ≠ .doc → BlockHyp p.1 p.2

theorem slotKind_doc {e : Expr} (h : slotKind e = .doc) : e.unfilter.2 = [.escapeDocstring, .indent 4] := by
  unfold slotKind at h
  dsimp only at h
  split at h
  all_goals first
    | cases h
    | (split at h
       · first
         | (rename_i hc; exact eq_of_beq hc)
         | cases h
       · cases h)

theorem slotsOK_of_valuesOK {o : Out} (hfe : FromEval o) (h : ValuesOK o) : SlotsOK blockSound o := by
  intro p hp
  show BlockHyp p.1 p.2
  cases hk : slotKind p.1 with
  | doc =>
    refine ⟨?_, fun hb => by simp [boneLine, hk] at hb⟩
    unfold BlockHypCore
    rw [hk]
    obtain ⟨env1, hev⟩ := hfe p hp
    obtain ⟨e1, he1⟩ := unfilter_last (fs := [.escapeDocstring]) (f := .indent 4) (by rw [slotKind_doc hk]; rfl)
    rw [he1] at hev
    obtain ⟨x, hx⟩ := evalOut_indent hev
    rw [hx]
    exact docShape_indentStr x
  | _ => exact h p hp (by rw [hk]; intro e; cases e)

/-- **Generic block theorem.** If the block check of a template evaluates to `true`, every
rendering of it whose non-docstring values satisfy their invariants ends with the block automaton
in a `good` state. -/
theorem block_check_sound (goodP : BSt → Bool) (assume : Facts) (enum : List Expr) (t : List Tpl)
    (h : check blockAuto BSt.init goodP assume enum t = true)
    (ctx : List (String × Val)) (o : Out) (hr : renderTemplate ctx t = .ok o)
    (hassume : Consistent assume ⟨ctx, []⟩) (hv : ValuesOK o) :
    goodP (blockAuto.run BSt.init o.text) = true :=
  check_sound blockSound BSt.init goodP assume enum t h ctx o hr hassume
    (slotsOK_of_valuesOK (renderTemplate_fromEval hr) hv)

/-! ### the value invariants are decidable for a concrete rendering (used for non-vacuity examples) -/

def noBreakB (v : List Char) : Bool := v.all (fun c => !isBreak c)
def noNLB (v : List Char) : Bool := v.all (fun c => c != '\n')

def wordHypB (h : Bool) (v : List Char) : Bool :=
  noNLB v && v.head? != some ' ' && !startsClass v && (!h || !v.contains '#')

def blockHypB (e : Expr) (v : List Char) : Bool :=
  (match slotKind e with
   | .word h => wordHypB h v
   | .line => noNLB v
   | .doc => docShape false v
   | .none => true) && (!boneLine e || noBreakB v)

def valuesOKb (o : Out) : Bool := o.slots.all (fun p => slotKind p.1 == .doc || blockHypB p.1 p.2)

theorem noBreakB_sound {v : List Char} (h : noBreakB v = true) : NoBreak v := by
  intro c hc
  have := List.all_eq_true.mp h c hc
  simpa using this

theorem noNLB_sound {v : List Char} (h : noNLB v = true) : NoNL v := by
  intro c hc
  have := List.all_eq_true.mp h c hc
  simpa using this

theorem blockHypB_sound {e : Expr} {v : List Char} (h : blockHypB e v = true) : BlockHyp e v := by
  unfold blockHypB at h
  simp only [Bool.and_eq_true, Bool.or_eq_true, Bool.not_eq_true'] at h
  obtain ⟨h1, hb⟩ := h
  refine ⟨?_, ?_⟩
  · unfold BlockHypCore
    cases hk : slotKind e with
    | word hd =>
      simp only [hk] at h1 ⊢
      unfold wordHypB at h1
      simp only [Bool.and_eq_true, Bool.not_eq_true', Bool.or_eq_true, bne_iff_ne, ne_eq] at h1
      obtain ⟨⟨⟨h1, h2⟩, h3⟩, h4⟩ := h1
      refine ⟨noNLB_sound h1, h2, h3, ?_⟩
      intro hh hm
      rcases h4 with h4 | h4
      · rw [hh] at h4; cases h4
      · have : v.contains '#' = true := by simpa using hm
        rw [this] at h4; cases h4
    | line => simp only [hk] at h1 ⊢; exact noNLB_sound h1
    | doc => simp only [hk] at h1 ⊢; exact h1
    | none => simp only [hk]
  · intro hbl
    rcases hb with hb | hb
    · rw [hbl] at hb; cases hb
    · exact noBreakB_sound hb

theorem valuesOKb_sound {o : Out} (h : valuesOKb o = true) : ValuesOK o := by
  intro p hp hnd
  have := List.all_eq_true.mp h p hp
  simp only [Bool.or_eq_true, beq_iff_eq] at this
  rcases this with h1 | h1
  · exact absurd h1 hnd
  · exact blockHypB_sound h1

/-! ### the hypothesis in two parts, for the observer at the render boundary

`blockHypB` = everything but the `#` clause ∧ no `#` in a value of a class-header site.  The second
part is a limit of the block automaton, not an invariant of the generator: the automaton reads a
`#` in a header line as the start of a comment, although a type hint may legitimately carry one
inside a string literal (`class R(RootModel[Literal['#']]):`).  Renderings with such a value are
outside the scope of the class theorems (they are counted, and covered by `ast.parse` only); the
first part is what every written rendering must satisfy. -/

def wordHypExceptHashB (v : List Char) : Bool :=
  noNLB v && v.head? != some ' ' && !startsClass v

def blockHypExceptHashB (e : Expr) (v : List Char) : Bool :=
  (match slotKind e with
   | .word _ => wordHypExceptHashB v
   | .line => noNLB v
   | .doc => docShape false v
   | .none => true) && (!boneLine e || noBreakB v)

def headerHashB (e : Expr) (v : List Char) : Bool :=
  match slotKind e with
  | .word true => v.contains '#'
  | _ => false

theorem blockHypB_split (e : Expr) (v : List Char) :
    blockHypB e v = (blockHypExceptHashB e v && !headerHashB e v) := by
  unfold blockHypB blockHypExceptHashB headerHashB wordHypB wordHypExceptHashB
  cases slotKind e with
  | word h => cases h <;> simp [Bool.and_comm, Bool.and_left_comm, Bool.and_assoc]
  | line => simp
  | doc => simp
  | none => simp

/-- the final state of the block automaton on a text -/
def blockOf (text : List Char) : BSt := blockAuto.run BSt.init text

end Dcg.Proofs.TemplateBlockTop
