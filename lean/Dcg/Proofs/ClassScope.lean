import Dcg.Model.ClassScope
/-
Dcg.Proofs.ClassScope — C02 on the abstract syntax of an emitted module:
the statement `WellBound` (what C02 says), that the executable checker `problems` decides exactly
it (`problems_nil_iff`), and the evaluation lemma behind "member names disjoint from the names the
class's annotations use ⇒ nothing is hidden" (`outcome_harmless_of_clean`).
-/
namespace Dcg.Proofs.ClassScope
open Dcg.Model.ClassScope

/-! ### evaluation: no hidden name read ⇒ harmless -/

mutual
theorem eval_clean (hid bnd : Name → Bool) : (e : Expr) → (∀ n ∈ e.names, hid n = false) →
    eval hid bnd e = .val false false ∨ eval hid bnd e = .nameErr
  | .name n, h => by
    have hn : hid n = false := h n (by simp [Expr.names])
    unfold eval
    rw [hn]
    by_cases hb : bnd n = true <;> simp [hb]
  | .lit, _ => by unfold eval; exact Or.inl rfl
  | .sub hd args, h => by
    have h1 := eval_clean hid bnd hd (fun n hn => h n (by simp [Expr.names, hn]))
    have h2 := evalL_clean hid bnd args (fun n hn => h n (by simp [Expr.names, hn]))
    unfold eval
    rcases h1 with h1 | h1 <;> rcases h2 with h2 | h2 <;> simp [h1, h2]
  | .call f args, h => by
    have h1 := eval_clean hid bnd f (fun n hn => h n (by simp [Expr.names, hn]))
    have h2 := evalL_clean hid bnd args (fun n hn => h n (by simp [Expr.names, hn]))
    unfold eval
    rcases h1 with h1 | h1 <;> rcases h2 with h2 | h2 <;> simp [h1, h2]
  | .attr e, h => by
    have h1 := eval_clean hid bnd e (fun n hn => h n (by simp [Expr.names, hn]))
    unfold eval
    rcases h1 with h1 | h1 <;> simp [h1]
  | .tuple es, h => by
    have h2 := evalL_clean hid bnd es (fun n hn => h n (by simp [Expr.names, hn]))
    unfold eval
    rcases h2 with h2 | h2 <;> simp [h2]
  | .op es, h => by
    have h2 := evalL_clean hid bnd es (fun n hn => h n (by simp [Expr.names, hn]))
    unfold eval
    rcases h2 with h2 | h2 <;> simp [h2]
theorem evalL_clean (hid bnd : Name → Bool) : (es : List Expr) → (∀ n ∈ Expr.namesL es, hid n = false) →
    evalL hid bnd es = .val false false ∨ evalL hid bnd es = .nameErr
  | [], _ => by unfold evalL; exact Or.inl rfl
  | e :: es, h => by
    have h1 := eval_clean hid bnd e (fun n hn => h n (by simp [Expr.namesL, hn]))
    have h2 := evalL_clean hid bnd es (fun n hn => h n (by simp [Expr.namesL, hn]))
    unfold evalL
    rcases h1 with h1 | h1 <;> rcases h2 with h2 | h2 <;> simp [h1, h2]
end

/-- an expression that reads no hidden name evaluates harmlessly (to the module's meaning, or
NameError when a name is unbound) -/
theorem outcome_harmless_of_clean (hid bnd : Name → Bool) (e : Expr) (h : ∀ n ∈ e.names, hid n = false) :
    (outcome hid bnd e).harmless = true := by
  unfold outcome
  rcases eval_clean hid bnd e h with h1 | h1 <;> simp [h1, Outcome.harmless]

/-- … more precisely, its outcome is `ok` or `nameError` -/
theorem outcome_of_clean (hid bnd : Name → Bool) (e : Expr) (h : ∀ n ∈ e.names, hid n = false) :
    outcome hid bnd e = .ok ∨ outcome hid bnd e = .nameError := by
  unfold outcome
  rcases eval_clean hid bnd e h with h1 | h1 <;> simp [h1]

/-! ### the statement -/

def EagerOK (c : Ctx) (ns uses : List Name) : Prop := ∀ n ∈ uses, n ∈ c.before ∨ n ∈ c.builtins ∨ n ∈ ns
def DeferredOK (c : Ctx) (uses : List Name) : Prop := ∀ n ∈ uses, n ∈ c.all ∨ n ∈ c.builtins
/-- the evaluation reads no member's value in place of what the module means (or stops at a NameError first) -/
def NoHide (hid bnd : Name → Bool) (e : Expr) : Prop := (outcome hid bnd e).harmless = true

/-- one statement of a class body, `ns` = the class namespace before it -/
structure ItemOK (c : Ctx) (future : Bool) (ns : List Name) (it : Item) : Prop where
  value : ∀ s, it.value = some s →
    EagerOK c ns s.uses ∧ DeferredOK c s.late ∧ NoHide (hidB c ns) (bndB c ns) s.expr
  ann : ∀ s, it.ann = some s → DeferredOK c s.late ∧
    if future then DeferredOK c s.uses
    else EagerOK c (ns ++ it.binds) s.uses ∧ NoHide (hidB c (ns ++ it.binds)) (bndB c (ns ++ it.binds)) s.expr

/-- a deferred annotation when the class object exists -/
def CreationOK (c : Ctx) (k : Kind) (cls : Cls) (e : Expr) : Prop :=
  match k with
  | .pydV2 => NoHide (hidV2 c cls.name (nsFinal cls)) (bndV2 c cls.name (nsFinal cls)) e
  | .dataclass => NoHide (hidDc c (nsDc cls)) (fun _ => true) e
  | _ => True

structure ClsOK (c : Ctx) (k : Kind) (future : Bool) (cls : Cls) : Prop where
  header : EagerOK c [] cls.header
  items : ∀ pre it post, cls.items = pre ++ it :: post → ItemOK c future (pre.flatMap (·.binds)) it
  creation : future = true → ∀ it ∈ cls.items, ∀ s, it.ann = some s → CreationOK c k cls s.expr

def StmtOK (c : Ctx) (k : Kind) (future : Bool) : Stmt → Prop
  | .imp _ => True
  | .cls cl => ClsOK c k future cl
  | .assign _ v a => EagerOK c [] v ∧ ∀ u, a = some u → if future then DeferredOK c u else EagerOK c [] u
  | .expr u => EagerOK c [] u
  | .fn _ u => EagerOK c [] u
  | .late u => DeferredOK c u

def NoRebind (imported : List Name) : Stmt → Prop
  | .imp _ => True
  | s => ∀ n ∈ s.binds, n ∉ imported

/-- C02 on the abstract syntax: every eager use is bound by an earlier statement (or the class
namespace so far, or a builtin), every deferred use by some statement, no class or assignment
re-binds an imported name, and no class-level binding hides a name a value or annotation of that
class reads (for the evaluators of output kind `cfg.kind`). -/
def WellBound (cfg : Cfg) (m : Module) : Prop :=
  ∀ pre s post, m.stmts = pre ++ s :: post →
    StmtOK ⟨pre.flatMap Stmt.binds, boundAll m, cfg.builtins⟩ cfg.kind m.future s ∧
    NoRebind (pre.flatMap Stmt.imports) s

/-! ### checker ⇔ statement -/

theorem eagerP_nil_iff (c : Ctx) (ns uses : List Name) : eagerP c ns uses = [] ↔ EagerOK c ns uses := by
  unfold eagerP EagerOK
  rw [List.filterMap_eq_nil_iff]
  constructor
  · intro h n hn
    have := h n hn
    by_cases hc : n ∈ c.before ∨ n ∈ c.builtins ∨ n ∈ ns
    · exact hc
    · simp [hc] at this
  · intro h n hn
    simp [h n hn]

theorem deferredP_nil_iff (c : Ctx) (uses : List Name) : deferredP c uses = [] ↔ DeferredOK c uses := by
  unfold deferredP DeferredOK
  rw [List.filterMap_eq_nil_iff]
  constructor
  · intro h n hn
    have := h n hn
    by_cases hc : n ∈ c.all ∨ n ∈ c.builtins
    · exact hc
    · simp [hc] at this
  · intro h n hn
    simp [h n hn]

theorem hideP_nil_iff (cls user : Name) (ph : Phase) (hid bnd : Name → Bool) (e : Expr) :
    hideP cls user ph hid bnd e = [] ↔ NoHide hid bnd e := by
  unfold hideP NoHide
  constructor
  · intro h
    by_cases hh : (outcome hid bnd e).harmless = true
    · exact hh
    · simp only [hh, Bool.false_eq_true, ↓reduceIte, List.map_eq_nil_iff, List.filter_eq_nil_iff] at h
      exact outcome_harmless_of_clean hid bnd e (fun n hn => by simpa using h n hn)
  · intro h
    simp [h]

theorem itemP_nil_iff (c : Ctx) (future : Bool) (cls : Name) (ns : List Name) (it : Item) :
    itemP c future cls ns it = [] ↔ ItemOK c future ns it := by
  unfold itemP
  rw [List.append_eq_nil_iff]
  constructor
  · rintro ⟨hv, ha⟩
    refine ⟨?_, ?_⟩
    · intro s hs
      rw [hs] at hv
      simp only [List.append_eq_nil_iff] at hv
      exact ⟨(eagerP_nil_iff _ _ _).mp hv.1.1, (deferredP_nil_iff _ _).mp hv.1.2, (hideP_nil_iff _ _ _ _ _ _).mp hv.2⟩
    · intro s hs
      rw [hs] at ha
      simp only [List.append_eq_nil_iff] at ha
      refine ⟨(deferredP_nil_iff _ _).mp ha.1, ?_⟩
      have ha := ha.2
      cases future with
      | true => simpa using (deferredP_nil_iff _ _).mp (by simpa using ha)
      | false =>
        simp only [Bool.false_eq_true, ↓reduceIte, List.append_eq_nil_iff] at ha ⊢
        exact ⟨(eagerP_nil_iff _ _ _).mp ha.1, (hideP_nil_iff _ _ _ _ _ _).mp ha.2⟩
  · rintro ⟨hv, ha⟩
    constructor
    · cases hs : it.value with
      | none => rfl
      | some s =>
        have := hv s hs
        simp only [List.append_eq_nil_iff]
        exact ⟨⟨(eagerP_nil_iff _ _ _).mpr this.1, (deferredP_nil_iff _ _).mpr this.2.1⟩, (hideP_nil_iff _ _ _ _ _ _).mpr this.2.2⟩
    · cases hs : it.ann with
      | none => rfl
      | some s =>
        have := ha s hs
        simp only [List.append_eq_nil_iff]
        refine ⟨(deferredP_nil_iff _ _).mpr this.1, ?_⟩
        have := this.2
        cases future with
        | true => simpa using (deferredP_nil_iff _ _).mpr (by simpa using this)
        | false =>
          simp only [Bool.false_eq_true, ↓reduceIte, List.append_eq_nil_iff] at this ⊢
          exact ⟨(eagerP_nil_iff _ _ _).mpr this.1, (hideP_nil_iff _ _ _ _ _ _).mpr this.2⟩

theorem itemsP_nil_iff (c : Ctx) (future : Bool) (cls : Name) : ∀ (rest : List Item) (ns : List Name),
    itemsP c future cls rest ns = [] ↔
      ∀ pre it post, rest = pre ++ it :: post → ItemOK c future (ns ++ pre.flatMap (·.binds)) it
  | [], ns => by
    simp only [itemsP, true_iff]
    intro pre it post h
    cases pre <;> simp at h
  | x :: rest, ns => by
    simp only [itemsP, List.append_eq_nil_iff, itemP_nil_iff, itemsP_nil_iff c future cls rest]
    constructor
    · rintro ⟨h0, hr⟩ pre it post h
      cases pre with
      | nil =>
        simp only [List.nil_append, List.cons.injEq] at h
        obtain ⟨rfl, -⟩ := h
        simpa using h0
      | cons p pre =>
        simp only [List.cons_append, List.cons.injEq] at h
        obtain ⟨rfl, h⟩ := h
        have := hr pre it post h
        simpa [List.flatMap_cons, List.append_assoc] using this
    · intro h
      refine ⟨by simpa using h [] x rest rfl, ?_⟩
      intro pre it post hp
      have := h (x :: pre) it post (by simp [hp])
      simpa [List.flatMap_cons, List.append_assoc] using this

theorem creationItemP_nil_iff (c : Ctx) (k : Kind) (cls : Cls) (it : Item) :
    creationItemP c k cls it = [] ↔ ∀ s, it.ann = some s → CreationOK c k cls s.expr := by
  unfold creationItemP CreationOK
  cases hs : it.ann with
  | none => simp
  | some s =>
    cases k <;> simp [hideP_nil_iff]

theorem creationP_nil_iff (c : Ctx) (k : Kind) (cls : Cls) :
    creationP c k cls = [] ↔ ∀ it ∈ cls.items, ∀ s, it.ann = some s → CreationOK c k cls s.expr := by
  unfold creationP
  rw [List.flatMap_eq_nil_iff]
  exact forall_congr' fun it => forall_congr' fun _ => creationItemP_nil_iff c k cls it

theorem clsP_nil_iff (c : Ctx) (k : Kind) (future : Bool) (cls : Cls) :
    clsP c k future cls = [] ↔ ClsOK c k future cls := by
  unfold clsP
  simp only [List.append_eq_nil_iff, eagerP_nil_iff, itemsP_nil_iff]
  constructor
  · rintro ⟨⟨h1, h2⟩, h3⟩
    refine ⟨h1, by simpa using h2, ?_⟩
    intro hf
    rw [hf] at h3
    exact (creationP_nil_iff c k cls).mp (by simpa using h3)
  · rintro ⟨h1, h2, h3⟩
    refine ⟨⟨h1, by simpa using h2⟩, ?_⟩
    cases future with
    | true => simpa using (creationP_nil_iff c k cls).mpr (h3 rfl)
    | false => simp

theorem stmtP_nil_iff (c : Ctx) (k : Kind) (future : Bool) (s : Stmt) :
    stmtP c k future s = [] ↔ StmtOK c k future s := by
  cases s with
  | imp ns => simp [stmtP, StmtOK]
  | cls cl => simp [stmtP, StmtOK, clsP_nil_iff]
  | assign ts v a =>
    simp only [stmtP, StmtOK, List.append_eq_nil_iff, eagerP_nil_iff]
    apply and_congr_right
    intro _
    cases a with
    | none => simp
    | some u =>
      cases future <;> simp [eagerP_nil_iff, deferredP_nil_iff]
  | expr u => simp [stmtP, StmtOK, eagerP_nil_iff]
  | fn n u => simp [stmtP, StmtOK, eagerP_nil_iff]
  | late u => simp [stmtP, StmtOK, deferredP_nil_iff]

theorem rebindP_nil_iff (imported : List Name) (s : Stmt) : rebindP imported s = [] ↔ NoRebind imported s := by
  cases s <;> simp [rebindP, NoRebind, List.filter_eq_nil_iff]

theorem stmtsP_nil_iff (cfg : Cfg) (future : Bool) (all : List Name) : ∀ (rest : List Stmt) (before imported : List Name),
    stmtsP cfg future all rest before imported = [] ↔
      ∀ pre s post, rest = pre ++ s :: post →
        StmtOK ⟨before ++ pre.flatMap Stmt.binds, all, cfg.builtins⟩ cfg.kind future s ∧
        NoRebind (imported ++ pre.flatMap Stmt.imports) s
  | [], before, imported => by
    simp only [stmtsP, true_iff]
    intro pre s post h
    cases pre <;> simp at h
  | x :: rest, before, imported => by
    simp only [stmtsP, List.append_eq_nil_iff, stmtP_nil_iff, rebindP_nil_iff, stmtsP_nil_iff cfg future all rest]
    constructor
    · rintro ⟨⟨h0, h0'⟩, hr⟩ pre s post h
      cases pre with
      | nil =>
        simp only [List.nil_append, List.cons.injEq] at h
        obtain ⟨rfl, -⟩ := h
        simpa using ⟨h0, h0'⟩
      | cons p pre =>
        simp only [List.cons_append, List.cons.injEq] at h
        obtain ⟨rfl, h⟩ := h
        have := hr pre s post h
        simpa [List.flatMap_cons, List.append_assoc] using this
    · intro h
      refine ⟨by simpa using h [] x rest rfl, ?_⟩
      intro pre s post hp
      have := h (x :: pre) s post (by simp [hp])
      simpa [List.flatMap_cons, List.append_assoc] using this

/-- the checker the driver runs decides exactly the statement -/
theorem problems_nil_iff (cfg : Cfg) (m : Module) : problems cfg m = [] ↔ WellBound cfg m := by
  unfold problems WellBound
  rw [stmtsP_nil_iff]
  simp

theorem wellBound_iff (cfg : Cfg) (m : Module) : wellBound cfg m = true ↔ WellBound cfg m := by
  unfold wellBound
  rw [List.isEmpty_iff, problems_nil_iff]

instance (cfg : Cfg) (m : Module) : Decidable (WellBound cfg m) :=
  decidable_of_iff _ (wellBound_iff cfg m)

end Dcg.Proofs.ClassScope
