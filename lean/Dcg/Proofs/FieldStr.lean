import Dcg.Model.FieldStr
/-
Dcg.Proofs.FieldStr — the names `Model.FieldStr` says a member's text reads are bound by the
library imports of the same field state (case analysis over the finite part of the state; the
factory names stay symbolic).
-/
namespace Dcg.Proofs.FieldStr
open Dcg.Model.FieldStr

theorem pyd_bound (s : Pyd) :
    ∀ n ∈ Pyd.memberNames s, n ∈ Pyd.imports s ∨ n ∈ (Pyd.factory s).names := by
  obtain ⟨r, nl, ua, uk, oa, kb, dn, ef, mf⟩ := s
  cases ef <;> cases mf <;> cases kb <;> cases r <;> cases nl <;> cases ua <;> cases uk <;> cases oa <;> cases dn <;>
    simp [Pyd.memberNames, Pyd.imports, Pyd.toV, Pyd.str, Pyd.factory, Pyd.hasArgs, Factory.names,
      Dcg.Model.FieldText.memberUses, Dcg.Model.FieldText.imports, Dcg.Model.FieldText.field,
      Dcg.Model.FieldText.annotated]

theorem dc_bound (s : Dc) :
    ∀ n ∈ Dc.memberNames s, n ∈ Dc.imports s ∨ n ∈ (Dc.factory s).toList := by
  obtain ⟨r, ds, dl, ef, ok⟩ := s
  cases ef <;> cases r <;> cases ds <;> cases dl <;> cases ok <;>
    simp [Dc.memberNames, Dc.imports, Dc.str, Dc.factory, Shape.isCall]

/-- the side condition: `.annotated` wraps `Annotated[…, Meta(…)]` in `Optional[…]` for EVERY member
that is not required (typing spelling, not a class variable), `.imports` asks for `Optional` by
nullability — they part when the member is declared not nullable (`nullable == False`) -/
def msOptionalOK (s : Ms) : Bool :=
  !(Ms.annotated s && !s.required && !s.classVar && !s.unionOp && s.nullable == some false)

theorem ms_annotated_bound (s : Ms) (h : msOptionalOK s = true) :
    ∀ n ∈ Ms.annotatedNames s, n ∈ Ms.imports s := by
  obtain ⟨r, al, ds, dt, ef, sf, sl, ua, hm, cv, nu, tn, uo⟩ := s
  have hnu : nu = none ∨ nu = some true ∨ nu = some false := by
    cases nu with
    | none => exact Or.inl rfl
    | some b => cases b <;> simp
  rcases hnu with rfl | rfl | rfl <;> cases r <;> cases ua <;> cases hm <;> cases cv <;> cases uo <;>
    simp [msOptionalOK, Ms.imports, Ms.annotated, Ms.annotatedNames] at h ⊢

theorem ms_str_bound (s : Ms) :
    ∀ n ∈ (Ms.str s).names, n ∈ Ms.imports s ∨ n ∈ (Ms.factory s).names ∨ n = nList := by
  obtain ⟨r, al, ds, dt, ef, sf, sl, ua, hm, cv, nu, tn, uo⟩ := s
  cases ef <;> cases sf <;> cases r <;> cases al <;> cases dt <;> cases sl <;>
    simp [Ms.imports, Ms.str, Ms.factory, Ms.hasDefaultKey, Factory.names, Shape.isCall]

theorem ms_bound (s : Ms) (h : msOptionalOK s = true) :
    ∀ n ∈ Ms.memberNames s, n ∈ Ms.imports s ∨ n ∈ (Ms.factory s).names ∨ n = nList := by
  intro n hn
  simp only [Ms.memberNames, List.mem_append] at hn
  rcases hn with hn | hn
  · exact Or.inl (ms_annotated_bound s h n hn)
  · exact ms_str_bound s n hn

end Dcg.Proofs.FieldStr
