import Dcg.Model.SingularName
import Dcg.Proofs.MemberRename
/-! Helper lemmas for the naming of array-item classes (C16). Property theorems are in `Dcg/Props/C16.lean`. -/
namespace Dcg.Proofs.SingularName
open Dcg.Model.Resolver Dcg.Model.MemberRename Dcg.Model.SingularName Dcg.Proofs.Resolver Dcg.Proofs.MemberRename Dcg.Gen.ResolverTables

/-- on the fresh scoped registry `add` is the unique-name loop over the class-name form of the (last dotted part of the) name -/
theorem repass_eq (cfg : Cfg) (imported : List Str) (path first : Str) :
    repass cfg imported path first =
      (uniqueName (modCfg cfg) (State.init imported) (cfg.cn (dotSplit (modCfg cfg) first).2) true).map
        ((dotSplit (modCfg cfg) first).1 ++ ·) := by
  unfold repass add
  simp only [State.init, find, List.find?_nil, addName, getClassName, if_true, Bool.false_eq_true, if_false]
  cases h : uniqueName (modCfg cfg) { refs := [], excl := imported, root := [], next := 0 } ((modCfg cfg).cn (dotSplit (modCfg cfg) first).2) true with
  | none => simp [outName, modCfg] at *; simp [h]
  | some u => simp [outName, modCfg] at *; simp [h]

theorem retryLoop_usable (name : Str) (camel : Bool) (fuel count : Nat) (new u : Str)
    (h : retryLoop name camel fuel count new = some u) : usable u = true := by
  induction fuel generalizing count new with
  | zero => simp [retryLoop] at h
  | succ f ih =>
    rw [retryLoop] at h
    split at h
    · exact ih _ _ h
    · rename_i hc
      injection h with h
      subst h
      simp [usable] at hc ⊢
      exact hc


end Dcg.Proofs.SingularName
