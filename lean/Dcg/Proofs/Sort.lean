import Dcg.Model.Sort
/-! Helper lemmas for C11 (ordering). Core Lean only. -/
deriving instance DecidableEq for Except

namespace Dcg.Proofs.Sort
open Dcg.Model.Sort

/-! ### ordered dict -/

theorem hasKey_iff {d : List Model} {p : Path} : hasKey d p = true ↔ p ∈ d.map (·.path) := by
  simp only [hasKey, List.any_eq_true, beq_iff_eq, List.mem_map]

theorem hasKey_false_iff {d : List Model} {p : Path} : hasKey d p = false ↔ p ∉ d.map (·.path) := by
  rw [← hasKey_iff]; simp

theorem hasKey_append {d e : List Model} {p : Path} :
    hasKey (d ++ e) p = (hasKey d p || hasKey e p) := by
  simp [hasKey]

theorem dictSet_fresh {d : List Model} {m : Model} (h : hasKey d m.path = false) :
    dictSet d m = d ++ [m] := by
  simp [dictSet, h]

/-- the four cases of the classification loop collapse into two -/
theorem classifyStep_eq (s : List Model) (u : List Path) (m : Model) :
    classifyStep s u m =
      if (pending s m).isEmpty then
        some (dictSet s m, if m.refs.contains m.path then u ++ [m.path] else u)
      else none := by
  unfold classifyStep
  by_cases h1 : m.refs.isEmpty = true
  · have : m.refs = [] := by simpa using h1
    simp [this, pending]
  · by_cases h2 : (m.refs.contains m.path && m.refs.all (· == m.path)) = true
    · have h2' := h2
      simp only [Bool.and_eq_true, List.all_eq_true, beq_iff_eq] at h2'
      have h3 : (pending s m).isEmpty = true := by
        simp only [pending, List.isEmpty_iff, List.filter_eq_nil_iff]
        intro r hr
        simp [h2'.2 r hr]
      rw [if_neg h1, if_pos h2, if_pos h3, if_pos h2'.1]
    · rw [if_neg h1, if_neg h2]

/-! ### stable insertion sort -/
section sorting
variable {α : Type}

theorem insertBy_perm (le : α → α → Bool) (x : α) (l : List α) : (insertBy le x l).Perm (x :: l) := by
  induction l with
  | nil => exact List.Perm.refl _
  | cons y ys ih =>
    simp only [insertBy]
    split
    · exact List.Perm.refl _
    · exact (List.Perm.cons y ih).trans (List.Perm.swap x y ys)

theorem sortBy_perm (le : α → α → Bool) (l : List α) : (sortBy le l).Perm l := by
  induction l with
  | nil => exact List.Perm.refl _
  | cons x xs ih => exact (insertBy_perm le x _).trans (List.Perm.cons x ih)

theorem sortKey_perm (k : α → Nat) (l : List α) : (sortKey k l).Perm l := sortBy_perm _ l

abbrev SortedBy (k : α → Nat) (l : List α) : Prop := l.Pairwise (fun a b => k a ≤ k b)

theorem insertBy_sorted (k : α → Nat) (x : α) (l : List α) (h : SortedBy k l) :
    SortedBy k (insertBy (fun a b => decide (k a ≤ k b)) x l) := by
  induction l with
  | nil => simp [insertBy, SortedBy]
  | cons y ys ih =>
    simp only [insertBy]
    have hy := List.pairwise_cons.mp h
    split
    · rename_i hle
      have hle : k x ≤ k y := by simpa using hle
      refine List.pairwise_cons.mpr ⟨?_, h⟩
      intro z hz
      rcases List.mem_cons.mp hz with rfl | hz
      · exact hle
      · exact Nat.le_trans hle (hy.1 z hz)
    · rename_i hle
      have hlt : k y < k x := by
        have : ¬ k x ≤ k y := by simpa using hle
        omega
      refine List.pairwise_cons.mpr ⟨?_, ih hy.2⟩
      intro z hz
      have := (insertBy_perm _ x ys).mem_iff.mp hz
      rcases List.mem_cons.mp this with rfl | hz
      · omega
      · exact hy.1 z hz

theorem sortKey_sorted (k : α → Nat) (l : List α) : SortedBy k (sortKey k l) := by
  induction l with
  | nil => simp [sortKey, sortBy, SortedBy]
  | cons x xs ih => exact insertBy_sorted k x _ ih

theorem insertBy_of_le_all (k : α → Nat) (x : α) (l : List α) (h : ∀ y ∈ l, k x ≤ k y) :
    insertBy (fun a b => decide (k a ≤ k b)) x l = x :: l := by
  cases l with
  | nil => rfl
  | cons y ys => simp [insertBy, h y (List.mem_cons_self ..)]

/-- a sorted, dominated prefix is left in place by the stable sort -/
theorem sortKey_prefix (k : α → Nat) (P R : List α) (hP : SortedBy k P)
    (hPR : ∀ p ∈ P, ∀ r ∈ R, k p ≤ k r) : sortKey k (P ++ R) = P ++ sortKey k R := by
  induction P with
  | nil => rfl
  | cons p P ih =>
    have hp := List.pairwise_cons.mp hP
    have ih' := ih hp.2 (fun q hq r hr => hPR q (List.mem_cons_of_mem _ hq) r hr)
    show insertBy _ p (sortKey k (P ++ R)) = p :: P ++ sortKey k R
    rw [ih']
    apply insertBy_of_le_all
    intro y hy
    rcases List.mem_append.mp hy with hy | hy
    · exact hp.1 y hy
    · exact hPR p (List.mem_cons_self ..) y ((sortKey_perm k R).mem_iff.mp hy)

theorem sortKey_of_sorted (k : α → Nat) (l : List α) (h : SortedBy k l) : sortKey k l = l := by
  have := sortKey_prefix k l [] h (by simp)
  simpa [sortKey, sortBy] using this

end sorting

/-! ### keys of the bubble -/

theorem le_maxl {xs : List Nat} {x : Nat} (h : x ∈ xs) : x ≤ maxl xs := by
  induction xs with
  | nil => cases h
  | cons y ys ih =>
    simp only [maxl, List.foldr_cons]
    rcases List.mem_cons.mp h with rfl | h
    · exact Nat.le_max_left ..
    · exact Nat.le_trans (ih h) (Nat.le_max_right ..)

theorem maxl_le {xs : List Nat} {c : Nat} (h : ∀ x ∈ xs, x ≤ c) : maxl xs ≤ c := by
  induction xs with
  | nil => simp [maxl]
  | cons y ys ih =>
    simp only [maxl, List.foldr_cons]
    exact Nat.max_le.mpr ⟨h y (List.mem_cons_self ..), ih (fun x hx => h x (List.mem_cons_of_mem _ hx))⟩

theorem maxl_mem_or (xs : List Nat) : maxl xs = 0 ∨ maxl xs ∈ xs := by
  induction xs with
  | nil => left; rfl
  | cons y ys ih =>
    simp only [maxl, List.foldr_cons]
    rcases Nat.le_total y (List.foldr max 0 ys) with h | h
    · rw [Nat.max_eq_right h]
      rcases ih with ih | ih
      · left; exact ih
      · right; exact List.mem_cons_of_mem _ ih
    · rw [Nat.max_eq_left h]; right; exact List.mem_cons_self ..

theorem baseKey_ge {names : List Path} {m : Model} {b : Path} (hb : b ∈ m.bases) (hn : b ∈ names) :
    names.idxOf b + 1 ≤ baseKey names m := by
  apply le_maxl
  simp only [List.mem_map, List.mem_filter, List.contains_iff_mem]
  exact ⟨b, ⟨hb, by simpa using hn⟩, rfl⟩

theorem baseKey_le {names : List Path} {m : Model} {c : Nat}
    (h : ∀ b ∈ m.bases, b ∈ names → names.idxOf b + 1 ≤ c) : baseKey names m ≤ c := by
  apply maxl_le
  intro x hx
  simp only [List.mem_map, List.mem_filter] at hx
  obtain ⟨b, ⟨hb, hn⟩, rfl⟩ := hx
  exact h b hb (by simpa using hn)

theorem baseKey_witness {names : List Path} {m : Model} (h : 0 < baseKey names m) :
    ∃ b ∈ m.bases, b ∈ names ∧ baseKey names m = names.idxOf b + 1 := by
  rcases maxl_mem_or ((m.bases.filter (fun b => names.contains b)).map (fun b => names.idxOf b + 1)) with h0 | hm
  · unfold baseKey at h; omega
  · simp only [List.mem_map, List.mem_filter] at hm
    obtain ⟨b, ⟨hb, hn⟩, hk⟩ := hm
    exact ⟨b, hb, by simpa using hn, hk.symm⟩

theorem baseKey_congr {names names' : List Path} {m : Model}
    (hmem : ∀ b ∈ m.bases, (b ∈ names ↔ b ∈ names'))
    (hidx : ∀ b ∈ m.bases, b ∈ names → names.idxOf b = names'.idxOf b) :
    baseKey names m = baseKey names' m := by
  apply Nat.le_antisymm
  · apply baseKey_le
    intro b hb hn
    rw [hidx b hb hn]
    exact baseKey_ge hb ((hmem b hb).mp hn)
  · apply baseKey_le
    intro b hb hn
    have hn' := (hmem b hb).mpr hn
    rw [← hidx b hb hn']
    exact baseKey_ge hb hn'


/-! ### soundness of a fix-point of the pass (ascending-chain argument) -/

/-- index form: in a list sorted by `baseKey` whose paths are distinct and where no model is its
own base, a base standing at `j` of the model at `i` has `j < i`. Induction on the distance of
the base from the end of the list: a base standing too far right forces *its* key up, hence a
base of the base even further right. -/
theorem fixpoint_idx (l : List Model) (hnd : (l.map (·.path)).Nodup)
    (hns : ∀ m ∈ l, m.path ∉ m.bases)
    (hsorted : SortedBy (baseKey (l.map (·.path))) l) :
    ∀ d i j (hi : i < l.length) (hj : j < l.length),
      l[j].path ∈ l[i].bases → l.length - j ≤ d → j < i := by
  intro d
  induction d with
  | zero => intro i j hi hj _ hd; omega
  | succ d ih =>
    intro i j hi hj hb hd
    apply Classical.byContradiction
    intro hnot
    have hij : i ≠ j := by
      rintro rfl
      exact hns _ (List.getElem_mem hi) hb
    have hlt : i < j := by omega
    -- position of a path
    have hpos : ∀ k (hk : k < l.length), (l.map (·.path)).idxOf l[k].path = k := by
      intro k hk
      have := hnd.idxOf_getElem k (by simpa using hk)
      simpa using this
    have hmemj : l[j].path ∈ l.map (·.path) := List.mem_map.mpr ⟨l[j], List.getElem_mem hj, rfl⟩
    have hki : j + 1 ≤ baseKey (l.map (·.path)) l[i] := by
      have := baseKey_ge (names := l.map (·.path)) hb hmemj
      rwa [hpos j hj] at this
    have hkj : baseKey (l.map (·.path)) l[i] ≤ baseKey (l.map (·.path)) l[j] :=
      (List.pairwise_iff_getElem.mp hsorted) i j hi hj hlt
    obtain ⟨b', hb', hn', hk'⟩ := baseKey_witness (names := l.map (·.path)) (m := l[j]) (by omega)
    obtain ⟨j', hj'', hj'eq⟩ := List.getElem_of_mem hn'
    have hj' : j' < l.length := by simpa using hj''
    have hb'eq : l[j'].path = b' := by simpa using hj'eq
    have hposb : (l.map (·.path)).idxOf b' = j' := by rw [← hb'eq]; exact hpos j' hj'
    have hjj : j ≤ j' := by omega
    have hne : j' ≠ j := by
      rintro rfl
      exact hns _ (List.getElem_mem hj) (by rw [hb'eq]; exact hb')
    have := ih j j' hj hj' (by rw [hb'eq]; exact hb') (by omega)
    omega

/-- `a` occurs strictly before the (first) position of `m` -/
theorem mem_prefix_of_idx_lt {names l1 l2 : List Path} {p b : Path} (h : names = l1 ++ p :: l2)
    (hb : names.idxOf b < l1.length) : b ∈ l1 := by
  apply Classical.byContradiction
  intro hn
  subst h
  rw [List.idxOf_append, if_neg hn] at hb
  omega

/-- **fix-point soundness**, decomposition form: at a fix-point of the pass every base that is in
the batch stands before its derived model. -/
theorem fixpoint_sound (l : List Model) (hnd : (l.map (·.path)).Nodup)
    (hns : ∀ m ∈ l, m.path ∉ m.bases) (hfix : bubblePass l = l) :
    ∀ l1 m l2, l = l1 ++ m :: l2 → ∀ b ∈ m.bases, b ∈ l.map (·.path) → b ∈ l1.map (·.path) := by
  intro l1 m l2 hl b hb hbn
  have hsorted : SortedBy (baseKey (l.map (·.path))) l := by
    have := sortKey_sorted (baseKey (l.map (·.path))) l
    unfold bubblePass at hfix
    rwa [hfix] at this
  obtain ⟨j, hj', hjeq⟩ := List.getElem_of_mem hbn
  have hj : j < l.length := by simpa using hj'
  have hjp : l[j].path = b := by simpa using hjeq
  have hi : l1.length < l.length := by subst hl; simp
  have hmi : l[l1.length] = m := by subst hl; simp
  have := fixpoint_idx l hnd hns hsorted l.length l1.length j hi hj (by rw [hmi, hjp]; exact hb) (by omega)
  have hnames : l.map (·.path) = l1.map (·.path) ++ m.path :: l2.map (·.path) := by subst hl; simp
  apply mem_prefix_of_idx_lt hnames
  rw [List.length_map]
  have hpos := hnd.idxOf_getElem j (by simpa using hj)
  have : (l.map (·.path))[j]'(by simpa using hj) = b := by simpa using hjp
  rw [this] at hpos
  omega


/-! ### convergence of the bubble on acyclic inheritance (settled-prefix argument) -/

/-- inheritance restricted to the batch is acyclic: it is compatible with a rank -/
def Acyclic (l : List Model) : Prop :=
  ∃ rank : Path → Nat, ∀ m ∈ l, ∀ b ∈ m.bases, b ∈ l.map (·.path) → rank b < rank m.path

theorem Acyclic.perm {l l' : List Model} (h : Acyclic l) (hp : l'.Perm l) : Acyclic l' := by
  obtain ⟨rank, hr⟩ := h
  refine ⟨rank, fun m hm b hb hbn => hr m (hp.mem_iff.mp hm) b hb ?_⟩
  exact ((hp.map (·.path)).mem_iff).mp hbn

theorem Acyclic.noSelfBase {l : List Model} (h : Acyclic l) : ∀ m ∈ l, m.path ∉ m.bases := by
  obtain ⟨rank, hr⟩ := h
  intro m hm hb
  have := hr m hm m.path hb (List.mem_map.mpr ⟨m, hm, rfl⟩)
  omega

/-- A prefix `P` of the batch `P ++ R` is *settled* (keys taken w.r.t. `names`, the paths of
`P ++ R`): base-closed, sorted by key, and dominated by the rest. -/
structure Settled (names : List Path) (P R : List Model) : Prop where
  closed : ∀ p ∈ P, ∀ b ∈ p.bases, b ∈ names → b ∈ P.map (·.path)
  sorted : SortedBy (baseKey names) P
  dom : ∀ p ∈ P, ∀ r ∈ R, baseKey names p ≤ baseKey names r

theorem key_eq_of_closed {Pn Rn Rn' : List Path} {m : Model} (hR : ∀ b, b ∈ Rn ↔ b ∈ Rn')
    (hc : ∀ b ∈ m.bases, b ∈ Pn ++ Rn → b ∈ Pn) :
    baseKey (Pn ++ Rn) m = baseKey (Pn ++ Rn') m := by
  apply baseKey_congr
  · intro b _
    simp only [List.mem_append, hR b]
  · intro b hb hn
    have := hc b hb hn
    rw [List.idxOf_append, List.idxOf_append, if_pos this, if_pos this]

theorem key_gt_of_base_outside {Pn Rn : List Path} {m : Model} {b : Path} (hb : b ∈ m.bases)
    (hn : b ∈ Pn ++ Rn) (ho : b ∉ Pn) : Pn.length + 1 ≤ baseKey (Pn ++ Rn) m := by
  have := baseKey_ge hb hn
  rw [List.idxOf_append, if_neg ho] at this
  omega

theorem key_le_of_closed {Pn Rn : List Path} {m : Model}
    (hc : ∀ b ∈ m.bases, b ∈ Pn ++ Rn → b ∈ Pn) : baseKey (Pn ++ Rn) m ≤ Pn.length := by
  apply baseKey_le
  intro b hb hn
  have h := hc b hb hn
  rw [List.idxOf_append, if_pos h]
  have := List.idxOf_lt_length_of_mem h
  omega

theorem exists_min_rank (rank : Model → Nat) (R : List Model) (h : R ≠ []) :
    ∃ r ∈ R, ∀ r' ∈ R, rank r ≤ rank r' := by
  induction R with
  | nil => exact absurd rfl h
  | cons x xs ih =>
    cases xs with
    | nil => exact ⟨x, List.mem_cons_self .., by simp⟩
    | cons y ys =>
      obtain ⟨r, hr, hmin⟩ := ih (by simp)
      rcases Nat.le_total (rank x) (rank r) with hle | hle
      · refine ⟨x, List.mem_cons_self .., ?_⟩
        intro r' hr'
        rcases List.mem_cons.mp hr' with rfl | hr'
        · exact Nat.le_refl _
        · exact Nat.le_trans hle (hmin r' hr')
      · refine ⟨r, List.mem_cons_of_mem _ hr, ?_⟩
        intro r' hr'
        rcases List.mem_cons.mp hr' with rfl | hr'
        · exact hle
        · exact hmin r' hr'

/-- one pass keeps a settled prefix where it is and settles at least one more model -/
theorem settled_step (P R : List Model) (hnd : ((P ++ R).map (·.path)).Nodup)
    (hac : Acyclic (P ++ R)) (hS : Settled ((P ++ R).map (·.path)) P R) (hR : R ≠ []) :
    ∃ r₀ R', bubblePass (P ++ R) = (P ++ [r₀]) ++ R' ∧ (r₀ :: R').Perm R ∧
      Settled (((P ++ [r₀]) ++ R').map (·.path)) (P ++ [r₀]) R' := by
  let Pn := P.map (·.path)
  let Rn := R.map (·.path)
  have hnames : (P ++ R).map (·.path) = Pn ++ Rn := by simp [Pn, Rn]
  rw [hnames] at hS hnd
  -- the pass
  have hpass : bubblePass (P ++ R) = P ++ sortKey (baseKey (Pn ++ Rn)) R := by
    unfold bubblePass
    rw [hnames]
    exact sortKey_prefix _ P R hS.sorted hS.dom
  have hperm := sortKey_perm (baseKey (Pn ++ Rn)) R
  have hsrt := sortKey_sorted (baseKey (Pn ++ Rn)) R
  cases hsk : sortKey (baseKey (Pn ++ Rn)) R with
  | nil =>
    rw [hsk] at hperm
    exact absurd hperm.symm.eq_nil hR
  | cons r₀ R' =>
    rw [hsk] at hperm hsrt hpass
    have hmin : ∀ r ∈ R', baseKey (Pn ++ Rn) r₀ ≤ baseKey (Pn ++ Rn) r := (List.pairwise_cons.mp hsrt).1
    have hr₀R : r₀ ∈ R := hperm.mem_iff.mp (List.mem_cons_self ..)
    let Rn' := (r₀ :: R').map (·.path)
    have hRn : ∀ b, b ∈ Rn ↔ b ∈ Rn' := fun b => ((hperm.map (·.path)).mem_iff).symm
    have hdisj : ∀ b, b ∈ Rn → b ∉ Pn := by
      intro b hb hp
      exact (List.nodup_append.mp hnd).2.2 b hp b hb rfl
    -- a model of `R` without base inside `R`
    obtain ⟨rank, hrank⟩ := hac
    obtain ⟨rs, hrs, hrsmin⟩ := exists_min_rank (fun m => rank m.path) R hR
    have hrs_closed : ∀ b ∈ rs.bases, b ∈ Pn ++ Rn → b ∈ Pn := by
      intro b hb hn
      rcases List.mem_append.mp hn with h | h
      · exact h
      · obtain ⟨r', hr', rfl⟩ := List.mem_map.mp h
        have h1 := hrank rs (List.mem_append_right _ hrs) r'.path hb (by rw [hnames]; exact hn)
        have h2 : rank rs.path ≤ rank r'.path := hrsmin r' hr'
        omega
    have hrs_key : baseKey (Pn ++ Rn) rs ≤ Pn.length := key_le_of_closed hrs_closed
    have hr₀_key : baseKey (Pn ++ Rn) r₀ ≤ Pn.length := by
      rcases List.mem_cons.mp (hperm.mem_iff.mpr hrs) with rfl | h
      · exact hrs_key
      · exact Nat.le_trans (hmin rs h) hrs_key
    have hr₀_closed : ∀ b ∈ r₀.bases, b ∈ Pn ++ Rn → b ∈ Pn := by
      intro b hb hn
      apply Classical.byContradiction
      intro ho
      have := key_gt_of_base_outside hb hn ho
      omega
    have hnames' : ((P ++ [r₀]) ++ R').map (·.path) = Pn ++ Rn' := by simp [Pn, Rn']
    have hmemnames : ∀ b, b ∈ Pn ++ Rn' ↔ b ∈ Pn ++ Rn := by
      intro b; simp only [List.mem_append, hRn b]
    have hP_closed : ∀ p ∈ P, ∀ b ∈ p.bases, b ∈ Pn ++ Rn → b ∈ Pn := hS.closed
    have hkeyP : ∀ p ∈ P, baseKey (Pn ++ Rn') p = baseKey (Pn ++ Rn) p :=
      fun p hp => (key_eq_of_closed hRn (hP_closed p hp)).symm
    have hkeyr₀ : baseKey (Pn ++ Rn') r₀ = baseKey (Pn ++ Rn) r₀ :=
      (key_eq_of_closed hRn hr₀_closed).symm
    have hPle : ∀ p ∈ P, baseKey (Pn ++ Rn) p ≤ baseKey (Pn ++ Rn) r₀ := fun p hp => hS.dom p hp r₀ hr₀R
    refine ⟨r₀, R', by rw [hpass]; simp, hperm, ?_⟩
    rw [hnames']
    refine ⟨?_, ?_, ?_⟩
    · -- closed
      intro p hp b hb hn
      have hn' := (hmemnames b).mp hn
      rw [List.map_append, List.mem_append]
      left
      rcases List.mem_append.mp hp with hp | hp
      · exact hP_closed p hp b hb hn'
      · have : p = r₀ := by simpa using hp
        subst this
        exact hr₀_closed b hb hn'
    · -- sorted
      apply List.pairwise_append.mpr
      refine ⟨?_, by simp, ?_⟩
      · refine hS.sorted.imp_of_mem ?_
        intro a b ha hb hab
        rw [hkeyP a ha, hkeyP b hb]; exact hab
      · intro p hp q hq
        have : q = r₀ := by simpa using hq
        subst this
        rw [hkeyP p hp, hkeyr₀]
        exact hPle p hp
    · -- dominated
      intro x hx r hr
      have hxle : baseKey (Pn ++ Rn') x ≤ Pn.length := by
        rcases List.mem_append.mp hx with hx | hx
        · rw [hkeyP x hx]; exact Nat.le_trans (hPle x hx) hr₀_key
        · have : x = r₀ := by simpa using hx
          subst this
          rw [hkeyr₀]; exact hr₀_key
      by_cases hc : ∀ b ∈ r.bases, b ∈ Pn ++ Rn → b ∈ Pn
      · have hkr : baseKey (Pn ++ Rn') r = baseKey (Pn ++ Rn) r := (key_eq_of_closed hRn hc).symm
        rw [hkr]
        rcases List.mem_append.mp hx with hx | hx
        · rw [hkeyP x hx]; exact Nat.le_trans (hPle x hx) (hmin r hr)
        · have : x = r₀ := by simpa using hx
          subst this
          rw [hkeyr₀]; exact hmin r hr
      · have : ∃ b, b ∈ r.bases ∧ b ∈ Pn ++ Rn ∧ b ∉ Pn := by
          apply Classical.byContradiction
          intro hne
          apply hc
          intro b hb hn
          apply Classical.byContradiction
          intro ho
          exact hne ⟨b, hb, hn, ho⟩
        obtain ⟨b, hb, hn, ho⟩ := this
        have := key_gt_of_base_outside (Pn := Pn) (Rn := Rn') hb ((hmemnames b).mpr hn) ho
        omega

theorem bubblePass_perm (l : List Model) : (bubblePass l).Perm l := sortKey_perm _ l

/-- with a settled prefix `P` and `|R| < fuel` the loop finds its fix-point -/
theorem bubble_isSome_of_settled : ∀ (f : Nat) (P R : List Model), R.length < f →
    ((P ++ R).map (·.path)).Nodup → Acyclic (P ++ R) → Settled ((P ++ R).map (·.path)) P R →
    (bubble f (P ++ R)).isSome = true := by
  intro f
  induction f with
  | zero => intro P R h; omega
  | succ f ih =>
    intro P R hlen hnd hac hS
    simp only [bubble]
    split
    · rfl
    · rename_i hne
      have hR : R ≠ [] := by
        rintro rfl
        apply hne
        have := sortKey_prefix (baseKey ((P ++ []).map (fun (m : Model) => m.path))) P [] hS.sorted (by simp)
        simpa [bubblePass, sortKey, sortBy] using this
      obtain ⟨r₀, R', hpass, hperm, hS'⟩ := settled_step P R hnd hac hS hR
      rw [hpass]
      have hpl : ((P ++ [r₀]) ++ R').Perm (P ++ R) := by
        rw [List.append_assoc]
        exact List.Perm.append_left P hperm
      apply ih (P ++ [r₀]) R'
      · have := hperm.length_eq
        simp at this
        omega
      · exact ((hpl.map (·.path)).nodup_iff).mpr hnd
      · exact hac.perm hpl
      · exact hS'

/-- **convergence**: distinct paths and acyclic inheritance ⇒ the bounded loop reaches a
fix-point, i.e. the `else: raise` of the `for` is not taken -/
theorem bubble_isSome (l : List Model) (hnd : (l.map (·.path)).Nodup) (hac : Acyclic l) :
    (bubble (l.length + 1) l).isSome = true := by
  have := bubble_isSome_of_settled (l.length + 1) [] l (by omega) (by simpa using hnd) (by simpa using hac)
    ⟨by simp, by simp [SortedBy], by simp⟩
  simpa using this


/-! ### the ordering invariant of `sorted_data_models`

The invariant has a clause about dependencies in general (needs only distinct paths) and a clause
about base classes (needs in addition `WF` and the absence of self-bases). The parameter `B`
switches the second clause on, so that one induction serves both theorems. -/

/-- `reference_classes` contains the base-class paths (by its definition in model/base.py) -/
def WF (m : Model) : Prop := ∀ b ∈ m.bases, b ∈ m.refs

/-- what holds for a model `m` that is inserted when the dict is `pre`:
its bases are already there, and every other dependency is there or `m` is flagged for
forward-reference resolution -/
def OkAt (B : Prop) (pre : List Model) (u : List Path) (m : Model) : Prop :=
  (B → ∀ b ∈ m.bases, hasKey pre b = true) ∧
  (∀ r ∈ m.refs, r ≠ m.path → hasKey pre r = true ∨ m.path ∈ u)

def Good (B : Prop) (s : List Model) (u : List Path) : Prop :=
  ∀ l1 m l2, s = l1 ++ m :: l2 → OkAt B l1 u m

/-- hypotheses needed for the base clause -/
structure BaseHyp (ms : List Model) : Prop where
  wf : ∀ m ∈ ms, WF m
  noSelf : ∀ m ∈ ms, m.path ∉ m.bases

theorem BaseHyp.sub {ms ms' : List Model} (h : BaseHyp ms) (hs : ∀ m ∈ ms', m ∈ ms) : BaseHyp ms' :=
  ⟨fun m hm => h.wf m (hs m hm), fun m hm => h.noSelf m (hs m hm)⟩

variable {B : Prop}

theorem OkAt.mono {pre : List Model} {u u' : List Path} {m : Model} (h : OkAt B pre u m)
    (hu : ∀ p ∈ u, p ∈ u') : OkAt B pre u' m :=
  ⟨h.1, fun r hr hne => (h.2 r hr hne).imp id (hu _)⟩

theorem Good.mono {s : List Model} {u u' : List Path} (h : Good B s u) (hu : ∀ p ∈ u, p ∈ u') :
    Good B s u' := fun l1 m l2 hs => (h l1 m l2 hs).mono hu

theorem good_nil (u : List Path) : Good B [] u := by
  intro l1 m l2 h
  cases l1 <;> cases h

theorem good_snoc {s : List Model} {u : List Path} {m : Model} (hg : Good B s u) (hm : OkAt B s u m) :
    Good B (s ++ [m]) u := by
  intro l1 x l2 h
  rcases List.eq_nil_or_concat l2 with rfl | ⟨l2', y, rfl⟩
  · have h' : s ++ [m] = l1 ++ [x] := h
    obtain ⟨rfl, hx⟩ := List.append_inj' h' rfl
    cases hx
    exact hm
  · have h' : s ++ [m] = (l1 ++ x :: l2') ++ [y] := by simpa using h
    obtain ⟨rfl, _⟩ := List.append_inj' h' rfl
    exact hg l1 x l2' rfl

theorem pending_nil_iff {s : List Model} {m : Model} :
    (pending s m).isEmpty = true ↔ ∀ r ∈ m.refs, r ≠ m.path → hasKey s r = true := by
  simp only [pending, List.isEmpty_iff, List.filter_eq_nil_iff]
  constructor
  · intro h r hr hne
    have := h r hr
    simp only [Bool.and_eq_true, bne_iff_ne, ne_eq, Bool.not_eq_true', not_and, Bool.not_eq_false] at this
    exact this hne
  · intro h r hr
    simp only [Bool.and_eq_true, bne_iff_ne, ne_eq, Bool.not_eq_true', not_and, Bool.not_eq_false]
    exact h r hr

theorem okAt_of_pending_nil {s : List Model} {u : List Path} {m : Model}
    (hwf : B → WF m ∧ m.path ∉ m.bases)
    (hp : (pending s m).isEmpty = true) : OkAt B s u m := by
  have h := pending_nil_iff.mp hp
  refine ⟨fun hB b hb => h b ((hwf hB).1 b hb) ?_, fun r hr hne => Or.inl (h r hr hne)⟩
  rintro rfl
  exact (hwf hB).2 hb

theorem nodup_fresh {s ms : List Model} {m : Model}
    (hnd : ((s ++ m :: ms).map (·.path)).Nodup) : hasKey s m.path = false := by
  rw [hasKey_false_iff]
  intro hmem
  simp only [List.map_append, List.map_cons] at hnd
  exact (List.nodup_append.mp hnd).2.2 _ hmem _ (List.mem_cons_self ..) rfl

theorem nodup_shift {s ms : List Model} {m : Model}
    (hnd : ((s ++ m :: ms).map (·.path)).Nodup) : (((s ++ [m]) ++ ms).map (·.path)).Nodup := by
  simpa using hnd

theorem nodup_drop {s ms : List Model} {m : Model}
    (hnd : ((s ++ m :: ms).map (·.path)).Nodup) : ((s ++ ms).map (·.path)).Nodup := by
  have hsub : (s ++ ms).Sublist (s ++ m :: ms) :=
    List.Sublist.append_left (List.sublist_cons_self m ms) s
  exact (hsub.map (·.path)).nodup hnd

theorem selfBase_false_iff {m : Model} : selfBase m = false ↔ m.path ∉ m.bases := by
  simp [selfBase]

/-- the loop only completes when no model of the batch names itself as base -/
theorem classify_some_noSelf : ∀ (ms s : List Model) (u : List Path) (c : Cls),
    classify ms s u = some c → ∀ m ∈ ms, m.path ∉ m.bases := by
  intro ms
  induction ms with
  | nil => intro s u c _ m hm; cases hm
  | cons x ms ih =>
    intro s u c h m hm
    simp only [classify] at h
    split at h
    · cases h
    · rename_i hx
      have hx' : x.path ∉ x.bases := selfBase_false_iff.mp (by simpa using hx)
      have htail : ∀ m ∈ ms, m.path ∉ m.bases := by
        split at h
        · exact ih _ _ c h
        · obtain ⟨c0, hc0, _⟩ := Option.map_eq_some_iff.mp h
          exact ih _ _ c0 hc0
      rcases List.mem_cons.mp hm with rfl | hm
      · exact hx'
      · exact htail m hm

theorem classify_isSome : ∀ (ms s : List Model) (u : List Path), (∀ m ∈ ms, m.path ∉ m.bases) →
    ∃ c, classify ms s u = some c := by
  intro ms
  induction ms with
  | nil => intro s u _; exact ⟨_, rfl⟩
  | cons x ms ih =>
    intro s u h
    have hx : selfBase x = false := selfBase_false_iff.mpr (h x (List.mem_cons_self ..))
    have ht : ∀ m ∈ ms, m.path ∉ m.bases := fun m hm => h m (List.mem_cons_of_mem _ hm)
    simp only [classify, hx, Bool.false_eq_true, if_false]
    split
    · exact ih _ _ ht
    · obtain ⟨c, hc⟩ := ih s u ht
      exact ⟨_, by rw [hc]; rfl⟩

/-- the classification pass: keeps the invariant, loses nothing, only appends flags -/
theorem classify_spec : ∀ (ms s : List Model) (u : List Path) (c : Cls),
    ((s ++ ms).map (·.path)).Nodup → (B → BaseHyp ms) → Good B s u → classify ms s u = some c →
    Good B c.sorted c.upd ∧ (c.sorted ++ c.unres).Perm (s ++ ms) ∧ c.unres.Sublist ms := by
  intro ms
  induction ms with
  | nil =>
    intro s u c _ _ hg h
    simp only [classify, Option.some.injEq] at h
    subst h
    simpa using hg
  | cons m ms ih =>
    intro s u c hnd hbh hg h
    have hbh' : B → BaseHyp ms := fun hB => (hbh hB).sub (fun x hx => List.mem_cons_of_mem _ hx)
    simp only [classify] at h
    split at h
    · cases h
    · rw [classifyStep_eq] at h
      by_cases hp : (pending s m).isEmpty = true
      · simp only [hp, if_true] at h
        rw [dictSet_fresh (nodup_fresh hnd)] at h
        have hg' : Good B (s ++ [m]) (if m.refs.contains m.path then u ++ [m.path] else u) := by
          apply good_snoc
          · apply hg.mono; intro p hp'; split <;> simp [hp']
          · exact okAt_of_pending_nil
              (fun hB => ⟨(hbh hB).wf m (List.mem_cons_self ..), (hbh hB).noSelf m (List.mem_cons_self ..)⟩) hp
        obtain ⟨h1, h2, h3⟩ := ih (s ++ [m]) _ c (nodup_shift hnd) hbh' hg' h
        refine ⟨h1, ?_, h3.cons _⟩
        simpa using h2
      · simp only [hp] at h
        obtain ⟨c0, hc0, rfl⟩ := Option.map_eq_some_iff.mp h
        obtain ⟨h1, h2, h3⟩ := ih s u c0 (nodup_drop hnd) hbh' hg hc0
        refine ⟨h1, ?_, h3.cons_cons _⟩
        exact (List.perm_middle).trans ((List.Perm.cons m h2).trans List.perm_middle.symm)

theorem bubble_spec : ∀ (f : Nat) (l fx : List Model), bubble f l = some fx →
    bubblePass fx = fx ∧ fx.Perm l := by
  intro f
  induction f with
  | zero => intro l fx h; simp [bubble] at h
  | succ f ih =>
    intro l fx h
    simp only [bubble] at h
    split at h
    · rename_i heq
      cases h
      exact ⟨heq, List.Perm.refl _⟩
    · obtain ⟨h1, h2⟩ := ih _ _ h
      exact ⟨h1, h2.trans (bubblePass_perm l)⟩

/-- bases that belong to the batch are already in the dict or stand earlier in the rest of the batch -/
def BasesBefore (names : List Path) (todo s : List Model) : Prop :=
  ∀ l1 m l2, todo = l1 ++ m :: l2 → ∀ b ∈ m.bases, b ∈ names →
    hasKey s b = true ∨ b ∈ l1.map (·.path)

theorem circular_spec (names : List Path) : ∀ (todo s : List Model) (u : List Path) (s' : List Model)
    (u' : List Path), ((s ++ todo).map (·.path)).Nodup → (B → BaseHyp todo) → Good B s u →
    (B → BasesBefore names todo s) → circular names todo s u = .ok (s', u') →
    Good B s' u' ∧ s' = s ++ todo := by
  intro todo
  induction todo with
  | nil =>
    intro s u s' u' _ _ hg _ h
    simp only [circular, Except.ok.injEq, Prod.mk.injEq] at h
    obtain ⟨rfl, rfl⟩ := h
    exact ⟨hg, by simp⟩
  | cons m ms ih =>
    intro s u s' u' hnd hbh hg hbb h
    have hbh' : B → BaseHyp ms := fun hB => (hbh hB).sub (fun x hx => List.mem_cons_of_mem _ hx)
    have hm : B → WF m ∧ m.path ∉ m.bases :=
      fun hB => ⟨(hbh hB).wf m (List.mem_cons_self ..), (hbh hB).noSelf m (List.mem_cons_self ..)⟩
    have hbb' : B → BasesBefore names ms (s ++ [m]) := by
      intro hB l1 x l2 hx b hb hn
      rcases hbb hB (m :: l1) x l2 (by rw [hx]; rfl) b hb hn with h | h
      · left; rw [hasKey_append, h]; rfl
      · rcases List.mem_cons.mp h with rfl | h
        · left; rw [hasKey_append]; simp [hasKey]
        · right; exact h
    simp only [circular] at h
    rw [dictSet_fresh (nodup_fresh hnd)] at h
    by_cases hp : (pending s m).isEmpty = true
    · simp only [hp, if_true] at h
      have hg' : Good B (s ++ [m]) (if m.bases.any (fun b => u.contains b) then u ++ [m.path] else u) := by
        apply good_snoc
        · apply hg.mono; intro p hp'; split <;> simp [hp']
        · exact okAt_of_pending_nil hm hp
      obtain ⟨h1, h2⟩ := ih _ _ _ _ (nodup_shift hnd) hbh' hg' hbb' h
      exact ⟨h1, by rw [h2]; simp⟩
    · simp only [hp] at h
      by_cases hall : (pending s m).all (fun r => names.contains r) = true
      · simp only [hall, if_true] at h
        have hg' : Good B (s ++ [m]) (u ++ [m.path]) := by
          apply good_snoc
          · apply hg.mono; intro p hp'; simp [hp']
          · constructor
            · intro hB b hb
              have hne : b ≠ m.path := by rintro rfl; exact (hm hB).2 hb
              cases hk : hasKey s b with
              | true => rfl
              | false =>
                have hpend : b ∈ pending s m := by
                  simp only [pending, List.mem_filter]
                  exact ⟨(hm hB).1 b hb, by simp [hne, hk]⟩
                have hn : b ∈ names := by
                  have := (List.all_eq_true.mp hall) b hpend
                  simpa using this
                rcases hbb hB [] m ms rfl b hb hn with h | h
                · rw [hk] at h; cases h
                · simp at h
            · intro r _ _
              right; simp
        obtain ⟨h1, h2⟩ := ih _ _ _ _ (nodup_shift hnd) hbh' hg' hbb' h
        exact ⟨h1, by rw [h2]; simp⟩
      · rw [if_neg hall] at h
        cases h

theorem finish_spec (c : Cls) (out : Out) (hnd : ((c.sorted ++ c.unres).map (·.path)).Nodup)
    (hbh : B → BaseHyp c.unres) (hg : Good B c.sorted c.upd)
    (h : finish c = .ok out) :
    Good B out.sorted out.upd ∧ out.sorted.Perm (c.sorted ++ c.unres) := by
  unfold finish at h
  split at h
  · cases h
  · rename_i fx hb
    obtain ⟨hfix, hperm⟩ := bubble_spec _ _ _ hb
    split at h
    · cases h
    · rename_i s u hc
      cases h
      have hnd' : ((c.sorted ++ fx).map (·.path)).Nodup :=
        (((List.Perm.append_left c.sorted hperm).map (·.path)).nodup_iff).mpr hnd
      have hndfx : (fx.map (·.path)).Nodup := by
        rw [List.map_append] at hnd'
        exact (List.nodup_append.mp hnd').2.1
      have hbh' : B → BaseHyp fx := fun hB => (hbh hB).sub (fun m hm => hperm.mem_iff.mp hm)
      have hbb : B → BasesBefore (fx.map (·.path)) fx c.sorted := by
        intro hB l1 m l2 hl b hb hn
        right
        exact fixpoint_sound fx hndfx (hbh' hB).noSelf hfix l1 m l2 hl b hb hn
      obtain ⟨h1, h2⟩ := circular_spec _ fx c.sorted c.upd s u hnd' hbh' hg hbb hc
      refine ⟨h1, ?_⟩
      show s.Perm _
      rw [h2]
      exact List.Perm.append_left c.sorted hperm

/-- `sort_data_models` keeps the invariant and returns a permutation -/
theorem sortGo_spec : ∀ (rc : Nat) (ms s : List Model) (u : List Path) (out : Out),
    ((s ++ ms).map (·.path)).Nodup → (B → BaseHyp ms) → Good B s u →
    sortGo rc ms s u = .ok out →
    Good B out.sorted out.upd ∧ out.sorted.Perm (s ++ ms) := by
  intro rc
  induction rc with
  | zero =>
    intro ms s u out hnd hbh hg h
    simp only [sortGo] at h
    split at h
    · cases h
    · rename_i c hc
      obtain ⟨h1, h2, h3⟩ := classify_spec ms s u c hnd hbh hg hc
      split at h
      · rename_i he
        cases h
        have : c.unres = [] := by simpa using he
        rw [this] at h2
        exact ⟨h1, by simpa using h2⟩
      · obtain ⟨g1, g2⟩ := finish_spec _ out (((h2.map (·.path)).nodup_iff).mpr hnd)
          (fun hB => (hbh hB).sub (fun m hm => h3.subset hm)) h1 h
        exact ⟨g1, g2.trans h2⟩
  | succ rc ih =>
    intro ms s u out hnd hbh hg h
    simp only [sortGo] at h
    split at h
    · cases h
    · rename_i c hc
      obtain ⟨h1, h2, h3⟩ := classify_spec ms s u c hnd hbh hg hc
      split at h
      · rename_i he
        cases h
        have : c.unres = [] := by simpa using he
        rw [this] at h2
        exact ⟨h1, by simpa using h2⟩
      · split at h
        · obtain ⟨g1, g2⟩ := ih _ _ _ out (((h2.map (·.path)).nodup_iff).mpr hnd)
            (fun hB => (hbh hB).sub (fun m hm => h3.subset hm)) h1 h
          exact ⟨g1, g2.trans h2⟩
        · obtain ⟨g1, g2⟩ := finish_spec _ out (((h2.map (·.path)).nodup_iff).mpr hnd)
            (fun hB => (hbh hB).sub (fun m hm => h3.subset hm)) h1 h
          exact ⟨g1, g2.trans h2⟩

/-- a model that names itself as base makes the function raise, at once -/
theorem sortGo_ok_noSelf (rc : Nat) (ms s : List Model) (u : List Path) (out : Out)
    (h : sortGo rc ms s u = .ok out) : ∀ m ∈ ms, m.path ∉ m.bases := by
  cases rc with
  | zero =>
    simp only [sortGo] at h
    split at h
    · cases h
    · rename_i c hc; exact classify_some_noSelf ms s u c hc
  | succ rc =>
    simp only [sortGo] at h
    split at h
    · cases h
    · rename_i c hc; exact classify_some_noSelf ms s u c hc

theorem sortGo_selfBase (rc : Nat) (ms s : List Model) (u : List Path)
    (h : ∃ m ∈ ms, m.path ∈ m.bases) : sortGo rc ms s u = .error .circularBases := by
  have hnone : classify ms s u = none := by
    cases hc : classify ms s u with
    | none => rfl
    | some c =>
      obtain ⟨m, hm, hb⟩ := h
      exact absurd hb (classify_some_noSelf ms s u c hc m hm)
  cases rc <;> simp [sortGo, hnone]

/-! ### the recursion: `recursion_count` never runs out before the work does -/

theorem classify_unres_length : ∀ (ms s : List Model) (u : List Path) (c : Cls),
    classify ms s u = some c →
    c.unres.length ≤ ms.length ∧ (c.unres.length = ms.length → c.sorted = s) := by
  intro ms
  induction ms with
  | nil => intro s u c h; simp only [classify, Option.some.injEq] at h; subst h; simp
  | cons m ms ih =>
    intro s u c h
    simp only [classify] at h
    split at h
    · cases h
    · split at h
      · rename_i s' u' _
        have := (ih s' u' c h).1
        simp only [List.length_cons]
        exact ⟨by omega, by omega⟩
      · obtain ⟨c0, hc0, rfl⟩ := Option.map_eq_some_iff.mp h
        have := ih s u c0 hc0
        simp only [List.length_cons]
        exact ⟨by omega, fun h => this.2 (by omega)⟩

/-- one more unit of `recursion_count` changes nothing once it is at least the number of models -/
theorem sortGo_succ : ∀ (rc : Nat) (ms s : List Model) (u : List Path), ms.length ≤ rc →
    sortGo (rc + 1) ms s u = sortGo rc ms s u := by
  intro rc
  induction rc with
  | zero =>
    intro ms s u h
    have : ms = [] := List.eq_nil_of_length_eq_zero (by omega)
    subst this
    simp [sortGo, classify]
  | succ rc ih =>
    intro ms s u h
    rw [sortGo]
    conv => rhs; rw [sortGo]
    cases hc : classify ms s u with
    | none => rfl
    | some c =>
      have hl := classify_unres_length ms s u c hc
      simp only
      split
      · rfl
      · split
        · rename_i hne
          apply ih
          have : c.unres.length ≠ ms.length := by
            intro heq
            have := hl.2 heq
            rw [this] at hne
            simp at hne
          omega
        · rfl

theorem sortGo_fuel (ms s : List Model) (u : List Path) : ∀ k,
    sortGo (ms.length + k) ms s u = sortGo ms.length ms s u := by
  intro k
  induction k with
  | zero => rfl
  | succ k ih => rw [← Nat.add_assoc, sortGo_succ _ _ _ _ (by omega), ih]


/-! ### acyclic inheritance is never reported as circular -/

theorem Acyclic.sublist {l l' : List Model} (h : Acyclic l) (hs : l'.Sublist l) : Acyclic l' := by
  obtain ⟨rank, hr⟩ := h
  refine ⟨rank, fun m hm b hb hbn => hr m (hs.subset hm) b hb ?_⟩
  exact (hs.map (·.path)).subset hbn

theorem classify_unres_sublist : ∀ (ms s : List Model) (u : List Path) (c : Cls),
    classify ms s u = some c → c.unres.Sublist ms := by
  intro ms
  induction ms with
  | nil => intro s u c h; simp only [classify, Option.some.injEq] at h; subst h; simp
  | cons m ms ih =>
    intro s u c h
    simp only [classify] at h
    split at h
    · cases h
    · split at h
      · exact (ih _ _ c h).cons _
      · obtain ⟨c0, hc0, rfl⟩ := Option.map_eq_some_iff.mp h
        exact (ih _ _ c0 hc0).cons_cons _

theorem circular_error (names : List Path) : ∀ (todo s : List Model) (u : List Path) (e : Err),
    circular names todo s u = .error e → e = .unresolved := by
  intro todo
  induction todo with
  | nil => intro s u e h; simp [circular] at h
  | cons m ms ih =>
    intro s u e h
    simp only [circular] at h
    split at h
    · exact ih _ _ _ h
    · split at h
      · exact ih _ _ _ h
      · cases h; rfl

theorem finish_ne_circular (c : Cls) (hnd : (c.unres.map (·.path)).Nodup) (hac : Acyclic c.unres) :
    finish c ≠ .error .circularBases := by
  unfold finish
  have := bubble_isSome c.unres hnd hac
  split
  · rename_i hb; rw [hb] at this; cases this
  · split
    · rename_i e he
      have := circular_error _ _ _ _ _ he
      subst this
      intro h; cases h
    · intro h; cases h

theorem sortGo_ne_circular : ∀ (rc : Nat) (ms s : List Model) (u : List Path),
    (ms.map (·.path)).Nodup → Acyclic ms → sortGo rc ms s u ≠ .error .circularBases := by
  intro rc
  induction rc with
  | zero =>
    intro ms s u hnd hac
    obtain ⟨c, hc⟩ := classify_isSome ms s u hac.noSelfBase
    have hsub := classify_unres_sublist ms s u c hc
    simp only [sortGo, hc]
    split
    · intro h; cases h
    · exact finish_ne_circular _ ((hsub.map (·.path)).nodup hnd) (hac.sublist hsub)
  | succ rc ih =>
    intro ms s u hnd hac
    obtain ⟨c, hc⟩ := classify_isSome ms s u hac.noSelfBase
    have hsub := classify_unres_sublist ms s u c hc
    simp only [sortGo, hc]
    split
    · intro h; cases h
    · split
      · exact ih _ _ _ ((hsub.map (·.path)).nodup hnd) (hac.sublist hsub)
      · exact finish_ne_circular _ ((hsub.map (·.path)).nodup hnd) (hac.sublist hsub)

/-! ### an order with bases first is a witness of acyclicity -/

theorem acyclic_of_bases_first (ms fx : List Model) (hperm : fx.Perm ms)
    (hnd : (fx.map (·.path)).Nodup)
    (hfirst : ∀ l1 m l2, fx = l1 ++ m :: l2 → ∀ b ∈ m.bases, b ∈ fx.map (·.path) → b ∈ l1.map (·.path)) :
    Acyclic ms := by
  refine ⟨fun p => (fx.map (·.path)).idxOf p, ?_⟩
  intro m hm b hb hbn
  have hmfx : m ∈ fx := hperm.mem_iff.mpr hm
  obtain ⟨l1, l2, rfl⟩ := List.append_of_mem hmfx
  have hbfx : b ∈ (l1 ++ m :: l2).map (·.path) := ((hperm.map (·.path)).mem_iff).mpr hbn
  have hb1 := hfirst l1 m l2 rfl b hb hbfx
  have hm1 : m.path ∉ l1.map (·.path) := by
    intro h
    simp only [List.map_append, List.map_cons] at hnd
    exact (List.nodup_append.mp hnd).2.2 _ h _ (List.mem_cons_self ..) rfl
  simp only [List.map_append, List.map_cons]
  rw [List.idxOf_append, if_pos hb1, List.idxOf_append, if_neg hm1, List.idxOf_cons_self]
  have := List.idxOf_lt_length_of_mem hb1
  omega

/-! ### the 2-cycle -/

def cycA : Model := ⟨0, [1], [1]⟩
def cycB : Model := ⟨1, [0], [0]⟩

theorem pass_cycle_AB : bubblePass [cycA, cycB] = [cycB, cycA] := by decide
theorem pass_cycle_BA : bubblePass [cycB, cycA] = [cycA, cycB] := by decide

theorem bubble_cycle_none : ∀ f, bubble f [cycA, cycB] = none ∧ bubble f [cycB, cycA] = none := by
  intro f
  induction f with
  | zero => exact ⟨rfl, rfl⟩
  | succ f ih =>
    constructor
    · rw [bubble]; simp only [pass_cycle_AB]; rw [if_neg (by decide)]; exact ih.2
    · rw [bubble]; simp only [pass_cycle_BA]; rw [if_neg (by decide)]; exact ih.1


/-! ### `__sort_models`: what holds when the swap loop stops -/

theorem sweep_perm (nm : List (List Nat)) : ∀ (rest : List Named) (r : List (List Nat)) (cur : Named) (acc : List Named) (ch : Bool),
    (sweep nm r cur acc ch rest).1.Perm (acc ++ cur :: rest) := by
  intro rest
  induction rest with
  | nil => intro r cur acc ch; simp [sweep]
  | cons nxt rest ih =>
    intro r cur acc ch
    simp only [sweep]
    split
    · have := ih (cur.name :: r) nxt (acc ++ [cur]) ch
      simpa using this
    · have := ih r cur (acc ++ [nxt]) true
      refine this.trans ?_
      rw [List.append_assoc]
      exact List.Perm.append_left acc (List.Perm.swap cur nxt rest)

theorem sweep_changed (nm : List (List Nat)) : ∀ (rest : List Named) (r : List (List Nat)) (cur : Named) (acc : List Named),
    (sweep nm r cur acc true rest).2 = true := by
  intro rest
  induction rest with
  | nil => intro r cur acc; rfl
  | cons nxt rest ih =>
    intro r cur acc
    simp only [sweep]
    split
    · exact ih _ _ _
    · exact ih _ _ _

/-- a sweep that reports `changed = False` has left the list as it was and found the bases of
every model but the last among the imported names and the class names before it -/
theorem sweep_unchanged (nm : List (List Nat)) : ∀ (rest : List Named) (r : List (List Nat)) (cur : Named) (acc : List Named),
    (sweep nm r cur acc false rest).2 = false →
    (sweep nm r cur acc false rest).1 = acc ++ cur :: rest ∧
    ∀ p x q, cur :: rest = p ++ x :: q → q ≠ [] →
      basesResolved nm ((p.map (·.name)).reverse ++ r) x = true := by
  intro rest
  induction rest with
  | nil =>
    intro r cur acc _
    refine ⟨by simp [sweep], ?_⟩
    intro p x q h hq
    cases p with
    | nil => simp at h; exact absurd h.2.symm (Ne.symm hq)
    | cons a p => simp at h
  | cons nxt rest ih =>
    intro r cur acc h
    simp only [sweep] at h ⊢
    by_cases hres : basesResolved nm r cur = true
    · simp only [hres, if_true] at h ⊢
      obtain ⟨h1, h2⟩ := ih (cur.name :: r) nxt (acc ++ [cur]) h
      refine ⟨by rw [h1]; simp, ?_⟩
      intro p x q hp hq
      cases p with
      | nil =>
        simp only [List.nil_append, List.cons.injEq] at hp
        obtain ⟨rfl, _⟩ := hp
        simpa using hres
      | cons a p =>
        simp only [List.cons_append, List.cons.injEq] at hp
        obtain ⟨rfl, hp⟩ := hp
        have := h2 p x q hp hq
        simpa [List.append_assoc] using this
    · simp only [hres] at h
      have := sweep_changed nm rest r cur (acc ++ [nxt])
      simp at h
      rw [this] at h
      cases h

theorem swapLoop_spec (nm imp : List (List Nat)) : ∀ (f : Nat) (l l' : List Named),
    swapLoop nm imp f l = some l' →
    l'.Perm l ∧ ∀ p x q, l' = p ++ x :: q → q ≠ [] →
      basesResolved nm ((p.map (·.name)).reverse ++ imp) x = true := by
  intro f
  induction f with
  | zero => intro l l' h; simp [swapLoop] at h
  | succ f ih =>
    intro l l' h
    cases l with
    | nil =>
      simp only [swapLoop, Option.some.injEq] at h
      subst h
      refine ⟨List.Perm.refl _, ?_⟩
      intro p x q hp; cases p <;> cases hp
    | cons x xs =>
      simp only [swapLoop] at h
      have hperm := sweep_perm nm xs imp x [] false
      cases hsw : sweep nm imp x [] false xs with
      | mk l1 ch =>
        rw [hsw] at h hperm
        cases ch with
        | true =>
          simp only [if_true] at h
          obtain ⟨g1, g2⟩ := ih _ _ h
          exact ⟨g1.trans (by simpa using hperm), g2⟩
        | false =>
          simp only [Bool.false_eq_true, if_false, Option.some.injEq] at h
          subst h
          have hu := sweep_unchanged nm xs imp x [] (by rw [hsw])
          rw [hsw] at hu
          refine ⟨by simpa using hperm, ?_⟩
          intro p y q hp hq
          exact hu.2 p y q (by rw [← hp]; simpa using hu.1.symm) hq

/-! ### `__sort_models`: the swap loop stops on acyclic inheritance with every base available

A sweep leaves the leading models whose bases are resolved where they are, and carries the first
model that is not resolved to the very end (nothing it passes on the way is examined). So the
loop is a rotating queue behind a growing resolved prefix; acyclicity keeps a ready model in the
queue, and each rotation brings the first ready model one step closer to the front. -/

/-- the models of `P` pass one after the other, starting from the resolved names `r` -/
def Passes (nm : List (List Nat)) : List (List Nat) → List Named → Prop
  | _, [] => True
  | r, p :: P => basesResolved nm r p = true ∧ Passes nm (p.name :: r) P

def resAfter (r : List (List Nat)) (P : List Named) : List (List Nat) := (P.map (·.name)).reverse ++ r

theorem resAfter_cons (r : List (List Nat)) (p : Named) (P : List Named) :
    resAfter (p.name :: r) P = resAfter r (p :: P) := by
  simp [resAfter]

theorem passes_snoc (nm : List (List Nat)) : ∀ (P : List Named) (r : List (List Nat)) (y : Named), Passes nm r P →
    basesResolved nm (resAfter r P) y = true → Passes nm r (P ++ [y]) := by
  intro P
  induction P with
  | nil => intro r y _ h; exact ⟨by simpa [resAfter] using h, trivial⟩
  | cons p P ih =>
    intro r y hp h
    exact ⟨hp.1, ih (p.name :: r) y hp.2 (by rw [resAfter_cons]; exact h)⟩

theorem sweep_last (nm r : List (List Nat)) (y : Named) (acc : List Named) (ch : Bool) :
    sweep nm r y acc ch [] = (acc ++ [y], ch) := rfl

theorem sweep_bad (nm : List (List Nat)) : ∀ (R : List Named) (r : List (List Nat)) (y : Named) (acc : List Named) (ch : Bool),
    basesResolved nm r y = false → R ≠ [] → sweep nm r y acc ch R = (acc ++ R ++ [y], true) := by
  intro R
  induction R with
  | nil => intro r y acc ch _ h; exact absurd rfl h
  | cons z R ih =>
    intro r y acc ch hb _
    simp only [sweep, hb, Bool.false_eq_true, if_false]
    cases R with
    | nil => simp [sweep]
    | cons w R =>
      rw [ih r y (acc ++ [z]) true hb (by simp)]
      simp

/-- a sweep walks through a passing prefix without touching it -/
theorem sweep_prefix (nm : List (List Nat)) : ∀ (P : List Named) (r : List (List Nat)) (cur : Named) (acc : List Named)
    (ch : Bool) (y : Named) (R : List Named), Passes nm r (cur :: P) →
    sweep nm r cur acc ch (P ++ y :: R) = sweep nm (resAfter r (cur :: P)) y (acc ++ cur :: P) ch R := by
  intro P
  induction P with
  | nil =>
    intro r cur acc ch y R hp
    simp only [List.nil_append, sweep, hp.1, if_true]
    simp [resAfter]
  | cons p P ih =>
    intro r cur acc ch y R hp
    simp only [List.cons_append, sweep, hp.1, if_true]
    rw [ih (cur.name :: r) p (acc ++ [cur]) ch y R hp.2, resAfter_cons]
    simp

/-- the sweep of `P ++ y :: R` when `P` passes: it is decided at `y` -/
theorem sweep_at (nm imp : List (List Nat)) (P : List Named) (y : Named) (R : List Named)
    (hp : Passes nm imp P) :
    ∃ x xs, P ++ y :: R = x :: xs ∧
      sweep nm imp x [] false xs = sweep nm (resAfter imp P) y P false R := by
  cases P with
  | nil => exact ⟨y, R, rfl, by simp [resAfter]⟩
  | cons p P =>
    refine ⟨p, P ++ y :: R, rfl, ?_⟩
    rw [sweep_prefix nm P imp p [] false y R hp]
    simp

/-- inheritance among the classes of the module itself is acyclic (bases that are not classes of
the module do not take part in `__sort_models`) -/
def ModuleAcyclic (l0 : List Named) : Prop :=
  ∃ rank : List Nat → Nat, ∀ m ∈ l0, ∀ b ∈ m.bases, b ≠ m.name → b ∈ l0.map (·.name) →
    rank b < rank m.name

/-- a non-empty queue behind a passing prefix contains a ready model -/
theorem exists_ready (nm imp : List (List Nat)) (l0 P Q : List Named) (hperm : (P ++ Q).Perm l0)
    (hnm : ∀ b, b ∈ nm ↔ b ∈ l0.map (·.name)) (hyp : ModuleAcyclic l0) (hQ : Q ≠ []) :
    ∃ A z B, Q = A ++ z :: B ∧ basesResolved nm (resAfter imp P) z = true := by
  obtain ⟨rank, hrank⟩ := hyp
  -- a model of minimal rank in Q
  have hmin : ∃ z ∈ Q, ∀ z' ∈ Q, rank z.name ≤ rank z'.name := by
    clear hperm
    induction Q with
    | nil => exact absurd rfl hQ
    | cons x xs ih =>
      cases xs with
      | nil => exact ⟨x, List.mem_cons_self .., by simp⟩
      | cons y ys =>
        obtain ⟨z, hz, hm⟩ := ih (by simp)
        rcases Nat.le_total (rank x.name) (rank z.name) with hle | hle
        · refine ⟨x, List.mem_cons_self .., ?_⟩
          intro z' hz'
          rcases List.mem_cons.mp hz' with rfl | hz'
          · exact Nat.le_refl _
          · exact Nat.le_trans hle (hm z' hz')
        · refine ⟨z, List.mem_cons_of_mem _ hz, ?_⟩
          intro z' hz'
          rcases List.mem_cons.mp hz' with rfl | hz'
          · exact hle
          · exact hm z' hz'
  obtain ⟨z, hz, hm⟩ := hmin
  obtain ⟨A, B, rfl⟩ := List.append_of_mem hz
  refine ⟨A, z, B, rfl, ?_⟩
  have hz0 : z ∈ l0 := hperm.mem_iff.mp (List.mem_append_right _ hz)
  simp only [basesResolved, List.all_eq_true, Bool.or_eq_true, beq_iff_eq, List.contains_iff_mem,
    Bool.not_eq_true']
  intro b hb
  by_cases hin : b ∈ nm
  · by_cases hne : b = z.name
    · exact Or.inl (Or.inr hne)
    · right
      simp only [resAfter, List.mem_append, List.mem_reverse]
      left
      have h := (hnm b).mp hin
      have hb0 := hrank z hz0 b hb hne h
      have : b ∈ (P ++ (A ++ z :: B)).map (·.name) := ((hperm.map (·.name)).mem_iff).mpr h
      rw [List.map_append, List.mem_append] at this
      rcases this with h | h
      · exact h
      · obtain ⟨z', hz', rfl⟩ := List.mem_map.mp h
        have := hm z' hz'
        omega
  · left; left
    simpa using hin

/-- main induction: queue length, then distance of the first ready model from the head -/
theorem swapLoop_terminates_aux (nm imp : List (List Nat)) (l0 : List Named)
    (hnm : ∀ b, b ∈ nm ↔ b ∈ l0.map (·.name)) (hyp : ModuleAcyclic l0) :
    ∀ (q : Nat) (P Q : List Named), Q.length = q → (P ++ Q).Perm l0 → Passes nm imp P →
    ∃ f, (swapLoop nm imp f (P ++ Q)).isSome = true := by
  intro q
  induction q using Nat.strongRecOn with
  | _ q ihq =>
    -- inner statement, by induction on the position of a ready model
    have inner : ∀ (d : Nat) (P Q A : List Named) (z : Named) (B : List Named), Q.length = q →
        (P ++ Q).Perm l0 → Passes nm imp P → Q = A ++ z :: B → A.length = d →
        basesResolved nm (resAfter imp P) z = true →
        ∃ f, (swapLoop nm imp f (P ++ Q)).isSome = true := by
      intro d
      induction d with
      | zero =>
        intro P Q A z B hq hperm hp hQ hA hz
        have : A = [] := List.eq_nil_of_length_eq_zero hA
        subst this
        subst hQ
        -- the head is ready: it joins the prefix
        have := ihq B.length (by simp at hq; omega) (P ++ [z]) B rfl (by simpa using hperm)
          (passes_snoc nm P imp z hp hz)
        simpa using this
      | succ d ihd =>
        intro P Q A z B hq hperm hp hQ hA hz
        cases A with
        | nil => simp at hA
        | cons y A =>
          subst hQ
          by_cases hy : basesResolved nm (resAfter imp P) y = true
          · have := ihq (A ++ z :: B).length (by simp at hq ⊢; omega) (P ++ [y]) (A ++ z :: B) rfl
              (by simpa using hperm) (passes_snoc nm P imp y hp hy)
            simpa using this
          · have hy' : basesResolved nm (resAfter imp P) y = false := by simpa using hy
            -- one sweep rotates `y` to the end
            obtain ⟨x, xs, hx, hsw⟩ := sweep_at nm imp P y (A ++ z :: B) hp
            rw [sweep_bad nm (A ++ z :: B) _ y P false hy' (by simp)] at hsw
            have hrot : (P ++ ((A ++ z :: B) ++ [y])).Perm l0 := by
              refine (List.Perm.append_left P ?_).trans hperm
              simpa using (List.perm_append_comm (l₁ := A ++ z :: B) (l₂ := [y]))
            obtain ⟨f, hf⟩ := ihd P ((A ++ z :: B) ++ [y]) A z (B ++ [y]) (by simp at hq ⊢; omega) hrot hp
              (by simp) (by simpa using hA) hz
            refine ⟨f + 1, ?_⟩
            have hx' : P ++ (y :: A ++ z :: B) = x :: xs := by simpa using hx
            rw [hx']
            simp only [swapLoop, hsw, if_true]
            simpa [List.append_assoc] using hf
    intro P Q hq hperm hp
    by_cases hQ : Q = []
    · subst hQ
      -- everything passes: the first sweep changes nothing
      refine ⟨1, ?_⟩
      cases hP : P with
      | nil => simp [swapLoop]
      | cons p P' =>
        subst hP
        rcases List.eq_nil_or_concat P' with rfl | ⟨P'', y, hP'⟩
        · simp [swapLoop, sweep]
        · rw [List.concat_eq_append] at hP'
          subst hP'
          have hp' : Passes nm imp (p :: P'') := by
            clear hperm ihq inner hq
            have : ∀ (P : List Named) (r : List (List Nat)) (y : Named), Passes nm r (P ++ [y]) → Passes nm r P := by
              intro P
              induction P with
              | nil => intro r y _; trivial
              | cons a P ih => intro r y h; exact ⟨h.1, ih _ _ h.2⟩
            exact this (p :: P'') imp y hp
          have := sweep_prefix nm P'' imp p [] false y [] hp'
          simp only [List.append_nil, swapLoop]
          rw [this, sweep_last]
          simp
    · obtain ⟨A, z, B, hQe, hz⟩ := exists_ready nm imp l0 P Q hperm hnm hyp hQ
      exact inner A.length P Q A z B hq hperm hp hQe rfl hz

/-! ### `__sort_models` on a 2-cycle -/

def nmA : Named := ⟨[65], [[66]]⟩
def nmB : Named := ⟨[66], [[65], [66]]⟩

theorem swapLoop_cycle_none : ∀ f, swapLoop [[65], [66]] [] f [nmA, nmB] = none ∧
    swapLoop [[65], [66]] [] f [nmB, nmA] = none := by
  intro f
  induction f with
  | zero => exact ⟨rfl, rfl⟩
  | succ f ih =>
    constructor
    · have h : sweep [[65], [66]] [] nmA [] false [nmB] = ([nmB, nmA], true) := by decide
      simp only [swapLoop, h]
      exact ih.2
    · have h : sweep [[65], [66]] [] nmB [] false [nmA] = ([nmA, nmB], true) := by decide
      simp only [swapLoop, h]
      exact ih.1

end Dcg.Proofs.Sort
