import Dcg.Model.MemberRename
import Dcg.Proofs.Resolver
/-! Helper lemmas for the member-rename pass (C16). Property theorems are in `Dcg/Props/C16.lean`. -/
namespace Dcg.Proofs.MemberRename
open Dcg.Model.Resolver Dcg.Model.MemberRename Dcg.Proofs.Resolver

/-- on a fresh registry `add` is the unique-name loop over the valid form of the name -/
theorem renameOne_eq (cfg : Cfg) (m : Member) :
    renameOne cfg m = uniqueName cfg (State.init m.avoid) (cfg.vn m.name) false := by
  unfold renameOne add
  simp only [State.init, find, List.find?_nil, addName, Bool.false_eq_true, if_false, if_true]
  cases h : uniqueName cfg { refs := [], excl := m.avoid, root := [], next := 0 } (cfg.vn m.name) false with
  | none => simp [outName]
  | some u => simp [outName]

theorem taken_init (ex : List Str) : taken (State.init ex) = ex := by
  simp [taken, State.init]

end Dcg.Proofs.MemberRename
