import Dcg.Model.Enum
import Dcg.Proofs.Names
import Dcg.Proofs.Escape
/-
Helper lemmas for C09: shape of the member list built by `parse_enum`, quote stripping of
`find_member` on plain strings.
-/
namespace Dcg.Proofs.Enum
open Dcg.Model.Names Dcg.Model.Enum Dcg.Model.Escape Dcg.Gen.EscTables Dcg.Proofs.Names Dcg.Py.Ident

/-- the defaults of the members are the entries, in order -/
theorem members_defaults {E : Env} {cfg : Cfg} {o : EnumObj} :
    ∀ (vs : List JVal) (i : Nat) (excl : List (List Char)) (ms : List Member),
      foldMembers E cfg o vs i excl = .ok ms → ms.map (·.2) = vs.map memberDefault := by
  intro vs
  induction vs with
  | nil => intro i excl ms h; simp only [foldMembers, Res.ok.injEq] at h; subst h; rfl
  | cons v vs ih =>
    intro i excl ms h
    rw [foldMembers] at h
    split at h
    · split at h
      · rename_i n _
        cases hrest : foldMembers E cfg o vs (i + 1) (n :: excl) with
        | ok ms' =>
          rw [hrest] at h
          simp only [Res.map, Res.ok.injEq] at h
          subst h
          simp [ih _ _ _ hrest]
        | outOfFuel => rw [hrest] at h; simp [Res.map] at h
        | error => rw [hrest] at h; simp [Res.map] at h
      · cases h
      · cases h
    · cases h
    · cases h

/-- every member name came out of the enum resolver with the names before it excluded -/
theorem members_names {E : Env} {cfg : Cfg} {o : EnumObj} (P : List Char → Prop)
    (hP : ∀ src excl r, getValidName E .enum cfg src excl false false = .ok r → P r) :
    ∀ (vs : List JVal) (i : Nat) (excl : List (List Char)) (ms : List Member),
      foldMembers E cfg o vs i excl = .ok ms →
      (∀ m ∈ ms, P m.1) ∧ (ms.map (·.1)).Pairwise (· ≠ ·) ∧ ∀ m ∈ ms, m.1 ∉ excl := by
  intro vs
  induction vs with
  | nil => intro i excl ms h; simp only [foldMembers, Res.ok.injEq] at h; subst h; simp
  | cons v vs ih =>
    intro i excl ms h
    rw [foldMembers] at h
    split at h
    · rename_i src _
      split at h
      · rename_i n hn
        cases hrest : foldMembers E cfg o vs (i + 1) (n :: excl) with
        | ok ms' =>
          rw [hrest] at h
          simp only [Res.map, Res.ok.injEq] at h
          subst h
          obtain ⟨h1, h2, h3⟩ := ih _ _ _ hrest
          have hne := result_not_excluded hn
          refine ⟨?_, ?_, ?_⟩
          · intro m hm
            simp only [List.mem_cons] at hm
            rcases hm with hm | hm
            · subst hm; exact hP _ _ _ hn
            · exact h1 m hm
          · simp only [List.map_cons, List.pairwise_cons]
            refine ⟨?_, h2⟩
            intro g hg heq
            obtain ⟨m, hm, rfl⟩ := List.mem_map.mp hg
            exact h3 m hm (by rw [← heq]; exact List.mem_cons_self)
          · intro m hm
            simp only [List.mem_cons] at hm
            rcases hm with hm | hm
            · subst hm; exact hne
            · exact fun hin => h3 m hm (List.mem_cons_of_mem _ hin)
        | outOfFuel => rw [hrest] at h; simp [Res.map] at h
        | error => rw [hrest] at h; simp [Res.map] at h
      · cases h
      · cases h
    · cases h
    · cases h

/-! ### quote stripping -/

/-- a string `find_member` handles faithfully: non-empty, no quote at either end, nothing the
escape table rewrites -/
def plainStr (s : List Char) : Bool :=
  !s.isEmpty && !(s.head?.any isQ) && !(s.getLast?.any isQ) && (translate enumTable s == s)

theorem dropWhile_eq_self {p : Char → Bool} {l : List Char} (h : l.head?.any p = false) :
    l.dropWhile p = l := by
  cases l with
  | nil => rfl
  | cons c cs =>
    have h' : p c = false := by simpa using h
    simp [h']

theorem stripQ_plain {s : List Char} (h1 : s.head?.any isQ = false) (h2 : s.getLast?.any isQ = false) :
    stripQ s = s := by
  unfold stripQ
  rw [dropWhile_eq_self h1, dropWhile_eq_self (by simpa [List.head?_reverse] using h2), List.reverse_reverse]

theorem stripQ_wrapped {s : List Char} (hne : s ≠ []) (h1 : s.head?.any isQ = false)
    (h2 : s.getLast?.any isQ = false) : stripQ ('\'' :: s ++ ['\'']) = s := by
  unfold stripQ
  have hq : isQ '\'' = true := by decide
  have e1 : ('\'' :: s ++ ['\'']).dropWhile isQ = s ++ ['\''] := by
    rw [List.cons_append, List.dropWhile_cons, if_pos hq]
    apply dropWhile_eq_self
    rw [head?_append_of_ne_nil hne]; exact h1
  rw [e1]
  have e2 : (s ++ ['\'']).reverse = '\'' :: s.reverse := by simp
  rw [e2, List.dropWhile_cons, if_pos hq,
    dropWhile_eq_self (by simpa [List.head?_reverse] using h2), List.reverse_reverse]

theorem plainStr_spec {s : List Char} (h : plainStr s = true) :
    s ≠ [] ∧ s.head?.any isQ = false ∧ s.getLast?.any isQ = false ∧ translate enumTable s = s := by
  simp only [plainStr, Bool.and_eq_true, Bool.not_eq_eq_eq_not, Bool.not_true, beq_iff_eq] at h
  obtain ⟨⟨⟨h1, h2⟩, h3⟩, h4⟩ := h
  exact ⟨by intro hs; subst hs; simp at h1, h2, h3, h4⟩

theorem strip_member_plain {t : List Char} (h : plainStr t = true) :
    stripQ (memberDefault (.str t)).strOrEmpty = t := by
  obtain ⟨hne, h1, h2, h3⟩ := plainStr_spec h
  simp only [memberDefault, Default.strOrEmpty, quoted, h3]
  exact stripQ_wrapped hne h1 h2

end Dcg.Proofs.Enum
