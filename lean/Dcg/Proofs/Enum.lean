import Dcg.Model.Enum
import Dcg.Proofs.Names
import Dcg.Proofs.Escape
/-
Helper lemmas for C09: shape of the member list built by `parse_enum`, quote stripping of
`find_member` on plain strings.
-/
namespace Dcg.Proofs.Enum
open Dcg.Model.Names Dcg.Model.Enum Dcg.Model.Escape Dcg.Gen.EscTables Dcg.Proofs.Names Dcg.Py.Ident

/-- the defaults of the members are the entries, in order -/
theorem members_defaults {E : Env} {cfg : Cfg} {o : EnumObj} :
    ∀ (vs : List JVal) (i : Nat) (excl : List (List Char)) (ms : List Member),
      foldMembers E cfg o vs i excl = .ok ms → ms.map (·.2) = vs.map memberDefault := by
  intro vs
  induction vs with
  | nil => intro i excl ms h; simp only [foldMembers, Res.ok.injEq] at h; subst h; rfl
  | cons v vs ih =>
    intro i excl ms h
    rw [foldMembers] at h
    split at h
    · split at h
      · rename_i n _
        cases hrest : foldMembers E cfg o vs (i + 1) (n :: excl) with
        | ok ms' =>
          rw [hrest] at h
          simp only [Res.map, Res.ok.injEq] at h
          subst h
          simp [ih _ _ _ hrest]
        | outOfFuel => rw [hrest] at h; simp [Res.map] at h
        | error => rw [hrest] at h; simp [Res.map] at h
      · cases h
      · cases h
    · cases h
    · cases h

/-- every member name came out of the enum resolver with the names before it excluded -/
theorem members_names {E : Env} {cfg : Cfg} {o : EnumObj} (P : List Char → Prop)
    (hP : ∀ src excl r, getValidName E .enum cfg src excl false false = .ok r → P r) :
    ∀ (vs : List JVal) (i : Nat) (excl : List (List Char)) (ms : List Member),
      foldMembers E cfg o vs i excl = .ok ms →
      (∀ m ∈ ms, P m.1) ∧ (ms.map (·.1)).Pairwise (· ≠ ·) ∧ ∀ m ∈ ms, m.1 ∉ excl := by
  intro vs
  induction vs with
  | nil => intro i excl ms h; simp only [foldMembers, Res.ok.injEq] at h; subst h; simp
  | cons v vs ih =>
    intro i excl ms h
    rw [foldMembers] at h
    split at h
    · rename_i src _
      split at h
      · rename_i n hn
        cases hrest : foldMembers E cfg o vs (i + 1) (n :: excl) with
        | ok ms' =>
          rw [hrest] at h
          simp only [Res.map, Res.ok.injEq] at h
          subst h
          obtain ⟨h1, h2, h3⟩ := ih _ _ _ hrest
          have hne := result_not_excluded hn
          refine ⟨?_, ?_, ?_⟩
          · intro m hm
            simp only [List.mem_cons] at hm
            rcases hm with hm | hm
            · subst hm; exact hP _ _ _ hn
            · exact h1 m hm
          · simp only [List.map_cons, List.pairwise_cons]
            refine ⟨?_, h2⟩
            intro g hg heq
            obtain ⟨m, hm, rfl⟩ := List.mem_map.mp hg
            exact h3 m hm (by rw [← heq]; exact List.mem_cons_self)
          · intro m hm
            simp only [List.mem_cons] at hm
            rcases hm with hm | hm
            · subst hm; exact hne
            · exact fun hin => h3 m hm (List.mem_cons_of_mem _ hin)
        | outOfFuel => rw [hrest] at h; simp [Res.map] at h
        | error => rw [hrest] at h; simp [Res.map] at h
      · cases h
      · cases h
    · cases h
    · cases h

/-! ### quote stripping -/

/-- a string `find_member` handles faithfully: no quote at either end, nothing the escape table
rewrites (the empty string is one of them) -/
def plainStr (s : List Char) : Bool :=
  !(s.head?.any isQ) && !(s.getLast?.any isQ) && (translate enumTable s == s)

theorem dropWhile_eq_self {p : Char → Bool} {l : List Char} (h : l.head?.any p = false) :
    l.dropWhile p = l := by
  cases l with
  | nil => rfl
  | cons c cs =>
    have h' : p c = false := by simpa using h
    simp [h']

theorem stripQ_plain {s : List Char} (h1 : s.head?.any isQ = false) (h2 : s.getLast?.any isQ = false) :
    stripQ s = s := by
  unfold stripQ
  rw [dropWhile_eq_self h1, dropWhile_eq_self (by simpa [List.head?_reverse] using h2), List.reverse_reverse]

theorem stripQ_wrapped {s : List Char} (h1 : s.head?.any isQ = false)
    (h2 : s.getLast?.any isQ = false) : stripQ ('\'' :: s ++ ['\'']) = s := by
  by_cases hne : s = []
  · subst hne; decide
  unfold stripQ
  have hq : isQ '\'' = true := by decide
  have e1 : ('\'' :: s ++ ['\'']).dropWhile isQ = s ++ ['\''] := by
    rw [List.cons_append, List.dropWhile_cons, if_pos hq]
    apply dropWhile_eq_self
    rw [head?_append_of_ne_nil hne]; exact h1
  rw [e1]
  have e2 : (s ++ ['\'']).reverse = '\'' :: s.reverse := by simp
  rw [e2, List.dropWhile_cons, if_pos hq,
    dropWhile_eq_self (by simpa [List.head?_reverse] using h2), List.reverse_reverse]

theorem plainStr_spec {s : List Char} (h : plainStr s = true) :
    s.head?.any isQ = false ∧ s.getLast?.any isQ = false ∧ translate enumTable s = s := by
  simp only [plainStr, Bool.and_eq_true, Bool.not_eq_eq_eq_not, Bool.not_true, beq_iff_eq] at h
  obtain ⟨⟨h2, h3⟩, h4⟩ := h
  exact ⟨h2, h3, h4⟩

theorem strip_member_plain {t : List Char} (h : plainStr t = true) :
    stripQ (memberDefault (.str t)).pyStr = t := by
  obtain ⟨h1, h2, h3⟩ := plainStr_spec h
  simp only [memberDefault, Default.pyStr, quoted, h3]
  exact stripQ_wrapped h1 h2


/-! ### `__set_default_enum_member` over a whole run (heap of `Member` objects) -/

/-- the object `getMember` allocates, with the alias the step writes onto it afterwards -/
def stepCells (s : Step) : List MemberObj :=
  (foundNames s).map (fun n => { enumName := s.enumName, fieldName := n, alias := truthyAlias s.dtAlias })

/-- the addresses the step stores in the field, when the heap had `base` objects before -/
def stepOut (base : Nat) (s : Step) : Out :=
  match s.default, foundNames s with
  | _, [] => .unchanged
  | .scalar _ _, _ :: _ => .one base
  | .list _, ns => .many (List.range' base ns.length)

theorem setAliasAt_append_right (a : List Char) :
    ∀ (pre cells : Heap) (k : Nat), setAliasAt (pre ++ cells) (pre.length + k) a = pre ++ setAliasAt cells k a := by
  intro pre
  induction pre with
  | nil => intro cells k; simp
  | cons p ps ih =>
    intro cells k
    have e : (p :: ps).length + k = (ps.length + k) + 1 := by simp; omega
    rw [e, List.cons_append, setAliasAt, ih, List.cons_append]

/-- writing the alias onto the freshly allocated objects touches nothing else -/
theorem setAliases_fresh (a : List Char) :
    ∀ (cells pre : Heap),
      setAliases (pre ++ cells) (List.range' pre.length cells.length) a =
        pre ++ cells.map (fun m => { m with alias := some a }) := by
  intro cells
  induction cells with
  | nil => intro pre; simp [setAliases]
  | cons c cs ih =>
    intro pre
    have e1 : List.range' pre.length (c :: cs).length = pre.length :: List.range' (pre.length + 1) cs.length := by
      simp [List.range'_succ]
    have e2 : setAliasAt (pre ++ c :: cs) pre.length a = (pre ++ [{ c with alias := some a }]) ++ cs := by
      have := setAliasAt_append_right a pre (c :: cs) 0
      simp only [Nat.add_zero] at this
      rw [this]; simp [setAliasAt]
    have ih' := ih (pre ++ [{ c with alias := some a }])
    simp only [List.length_append, List.length_cons, List.length_nil, Nat.zero_add] at ih'
    unfold setAliases at ih' ⊢
    rw [e1, List.foldl_cons, e2, ih']
    simp

theorem findAll_closed (en : List Char) (ms : List Member) :
    ∀ (vs : List (JVal × List Char)) (h : Heap),
      findAll h en ms vs =
        (h ++ (vs.filterMap (fun p => findMember ms p.1 p.2)).map (fun n => ({ enumName := en, fieldName := n } : MemberObj)),
         List.range' h.length (vs.filterMap (fun p => findMember ms p.1 p.2)).length) := by
  intro vs
  induction vs with
  | nil => intro h; simp [findAll]
  | cons p rest ih =>
    intro h
    obtain ⟨v, r⟩ := p
    rw [findAll]
    cases hf : findMember ms v r with
    | none => simp only [hf, List.filterMap_cons]; exact ih h
    | some n =>
      simp only [hf, List.filterMap_cons, getMember, ih, List.length_append, List.length_cons, List.length_nil,
        Nat.zero_add, List.map_cons, List.append_assoc, List.cons_append, List.nil_append, List.range'_succ]

/-- CLOSED FORM of one step: it only appends its own objects (with its own alias) to the heap -/
theorem applyStep_closed (h : Heap) (s : Step) :
    applyStep h s = (h ++ stepCells s, stepOut h.length s) := by
  unfold applyStep stepCells stepOut foundNames
  cases hd : s.default with
  | scalar v r =>
    simp only
    by_cases hfz : v.isNull = true
    · simp [hfz]
    · simp only [hfz, Bool.false_eq_true, if_false]
      cases hf : findMember s.members v r with
      | none => simp
      | some n =>
        simp only [getMember, Option.toList_some, List.map_cons, List.map_nil]
        cases ha : truthyAlias s.dtAlias with
        | none => simp
        | some al =>
          have := setAliasAt_append_right al h [({ enumName := s.enumName, fieldName := n } : MemberObj)] 0
          simp only [Nat.add_zero] at this
          simp [this, setAliasAt]
  | list vs =>
    simp only [findAll_closed]
    cases hn : vs.filterMap (fun p => findMember s.members p.1 p.2) with
    | nil => simp
    | cons n ns =>
      simp only [List.map_cons, List.length_cons, List.range'_succ]
      cases ha : truthyAlias s.dtAlias with
      | none => simp
      | some al =>
        have := setAliases_fresh al
          (({ enumName := s.enumName, fieldName := n } : MemberObj) :: ns.map (fun n => ({ enumName := s.enumName, fieldName := n } : MemberObj))) h
        simp only [List.length_cons, List.length_map, List.range'_succ, List.map_cons, List.map_map] at this
        simp only [this]
        rfl

theorem reprAt_fresh (c : MemberObj) (h cs rest : Heap) :
    reprAt (h ++ c :: cs ++ rest) h.length = c.repr := by
  simp [reprAt]

/-- reading the freshly allocated objects back from ANY later heap (objects only ever get appended) -/
theorem map_reprAt_fresh :
    ∀ (cells h rest : Heap),
      (List.range' h.length cells.length).map (reprAt (h ++ cells ++ rest)) = cells.map MemberObj.repr := by
  intro cells
  induction cells with
  | nil => intro h rest; simp
  | cons c cs ih =>
    intro h rest
    have ih' := ih (h ++ [c]) rest
    simp only [List.length_append, List.length_cons, List.length_nil, Nat.zero_add, List.append_assoc,
      List.cons_append, List.nil_append] at ih'
    simp only [List.length_cons, List.range'_succ, List.map_cons, List.append_assoc, List.cons_append]
    rw [ih']
    congr 1
    have := reprAt_fresh c h cs rest
    simpa using this

theorem aliasOr_truthy (a : Option (List Char)) (en : List Char) : aliasOr (truthyAlias a) en = aliasOr a en := by
  cases a with
  | none => rfl
  | some l => cases l <;> rfl

/-- a step's rendered default, read from any later heap, is `stepText` of that step alone -/
theorem render_closed (h rest : Heap) (s : Step) :
    renderOut (h ++ stepCells s ++ rest) (stepOut h.length s) = stepText s := by
  have hm := map_reprAt_fresh (stepCells s) h rest
  have hrepr : (stepCells s).map MemberObj.repr = (foundNames s).map (memberText s) := by
    simp [stepCells, MemberObj.repr, memberText, aliasOr_truthy, Function.comp_def]
  have hlen : (stepCells s).length = (foundNames s).length := by simp [stepCells]
  rw [hrepr, hlen] at hm
  unfold stepOut stepText
  cases hd : s.default with
  | scalar v r =>
    cases hn : foundNames s with
    | nil => rfl
    | cons n ns =>
      simp only [renderOut]
      rw [hn] at hm
      simp only [List.length_cons, List.range'_succ, List.map_cons, List.cons.injEq] at hm
      rw [hm.1]
  | list vs =>
    cases hn : foundNames s with
    | nil => rfl
    | cons n ns =>
      simp only [renderOut]
      rw [hn] at hm
      rw [hm]


theorem takeWhile_eq_self {p : Char → Bool} : ∀ (l : List Char), (∀ c ∈ l, p c = true) → l.takeWhile p = l := by
  intro l
  induction l with
  | nil => intro _; rfl
  | cons c cs ih =>
    intro h
    rw [List.takeWhile_cons, if_pos (h c List.mem_cons_self), ih (fun d hd => h d (List.mem_cons_of_mem _ hd))]

end Dcg.Proofs.Enum
