import Dcg.Model.Graphql
/-! Helper lemmas for C17 (wrapper unrolling). Core Lean only. -/
namespace Dcg.Proofs.Graphql
open Dcg.Model.Graphql

theorem wrap_true (g : GType) : wrap true g = g := rfl
theorem wrap_false (g : GType) : wrap false g = .nonNull g := rfl

theorem rebuildDT_listOf (o : Bool) (d : DT) :
    rebuildDT (.listOf o d) = wrap o (.list (rebuildDT d)) := rfl

/-- what a chain denotes when the loop entered `t` with `is_optional = opt` on the current node:
a `!` at the head of `t` overrides `opt`, otherwise `opt` decides -/
def expect (opt : Bool) : GType → GType
  | .nonNull t => .nonNull t
  | t => wrap opt t

theorem expect_true (t : GType) : expect true t = t := by
  cases t <;> rfl

theorem unroll_denotes (t : GType) : t.wf = true → ∀ opt, rebuildDT (unroll t opt) = expect opt t := by
  induction t with
  | named n => intro _ opt; rfl
  | list t ih =>
    intro h opt
    have ht : t.wf = true := by simpa [GType.wf] using h
    rw [unroll, rebuildDT_listOf, ih ht true, expect_true]
    rfl
  | nonNull t ih =>
    intro h opt
    cases t with
    | named n => rfl
    | list s =>
      have hs : (GType.list s).wf = true := by simpa [GType.wf] using h
      simpa [unroll, expect, wrap] using ih hs false
    | nonNull s => simp [GType.wf] at h

theorem unroll_depth (t : GType) : ∀ opt, (unroll t opt).depth = t.listDepth := by
  induction t with
  | named n => intro _; rfl
  | list t ih => intro opt; simp [unroll, DT.depth, GType.listDepth, ih]
  | nonNull t ih => intro opt; simp [unroll, GType.listDepth, ih]

theorem unroll_typeName (t : GType) : ∀ opt, (unroll t opt).typeName = t.baseName := by
  induction t with
  | named n => intro _; rfl
  | list t ih => intro opt; simp [unroll, DT.typeName, GType.baseName, ih]
  | nonNull t ih => intro opt; simp [unroll, GType.baseName, ih]

/-- the optional flag of the outermost node: `opt` unless a `!` is met before the first list/name -/
theorem unroll_optional (t : GType) (h : t.wf = true) (opt : Bool) :
    (unroll t opt).optional = (opt && !t.isNonNull) := by
  cases t with
  | named n => simp [unroll, DT.optional, GType.isNonNull]
  | list t => simp [unroll, DT.optional, GType.isNonNull]
  | nonNull t =>
    cases t with
    | named n => simp [unroll, DT.optional, GType.isNonNull]
    | list s => simp [unroll, DT.optional, GType.isNonNull]
    | nonNull s => simp [GType.wf] at h

/-- without well-formedness: any stack of `!` at the head clears the flag -/
def GType.headNonNull : GType → Bool
  | .nonNull _ => true
  | _ => false

theorem unroll_optional_nonNull (t : GType) : ∀ opt, (unroll (.nonNull t) opt).optional = false := by
  induction t with
  | named n => intro _; rfl
  | list t _ => intro _; rfl
  | nonNull t ih => intro opt; simpa [unroll] using ih false

end Dcg.Proofs.Graphql
