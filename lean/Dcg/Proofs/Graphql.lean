import Dcg.Model.Graphql
/-! Helper lemmas for C17 (wrapper unrolling). Core Lean only. -/
namespace Dcg.Proofs.Graphql
open Dcg.Model.Graphql

theorem wrap_true (g : GType) : wrap true g = g := rfl
theorem wrap_false (g : GType) : wrap false g = .nonNull g := rfl

theorem rebuildDT_listOf (o : Bool) (d : DT) :
    rebuildDT (.listOf o d) = wrap o (.list (rebuildDT d)) := rfl

/-- what a chain denotes when the loop entered `t` with `is_optional = opt` on the current node:
a `!` at the head of `t` overrides `opt`, otherwise `opt` decides -/
def expect (opt : Bool) : GType → GType
  | .nonNull t => .nonNull t
  | t => wrap opt t

theorem expect_true (t : GType) : expect true t = t := by
  cases t <;> rfl

theorem unroll_denotes (t : GType) : t.wf = true → ∀ opt, rebuildDT (unroll t opt) = expect opt t := by
  induction t with
  | named n => intro _ opt; rfl
  | list t ih =>
    intro h opt
    have ht : t.wf = true := by simpa [GType.wf] using h
    rw [unroll, rebuildDT_listOf, ih ht true, expect_true]
    rfl
  | nonNull t ih =>
    intro h opt
    cases t with
    | named n => rfl
    | list s =>
      have hs : (GType.list s).wf = true := by simpa [GType.wf] using h
      simpa [unroll, expect, wrap] using ih hs false
    | nonNull s => simp [GType.wf] at h

theorem unroll_depth (t : GType) : ∀ opt, (unroll t opt).depth = t.listDepth := by
  induction t with
  | named n => intro _; rfl
  | list t ih => intro opt; simp [unroll, DT.depth, GType.listDepth, ih]
  | nonNull t ih => intro opt; simp [unroll, GType.listDepth, ih]

theorem unroll_typeName (t : GType) : ∀ opt, (unroll t opt).typeName = t.baseName := by
  induction t with
  | named n => intro _; rfl
  | list t ih => intro opt; simp [unroll, DT.typeName, GType.baseName, ih]
  | nonNull t ih => intro opt; simp [unroll, GType.baseName, ih]

/-- the optional flag of the outermost node: `opt` unless a `!` is met before the first list/name -/
theorem unroll_optional (t : GType) (h : t.wf = true) (opt : Bool) :
    (unroll t opt).optional = (opt && !t.isNonNull) := by
  cases t with
  | named n => simp [unroll, DT.optional, GType.isNonNull]
  | list t => simp [unroll, DT.optional, GType.isNonNull]
  | nonNull t =>
    cases t with
    | named n => simp [unroll, DT.optional, GType.isNonNull]
    | list s => simp [unroll, DT.optional, GType.isNonNull]
    | nonNull s => simp [GType.wf] at h

/-- without well-formedness: any stack of `!` at the head clears the flag -/
def GType.headNonNull : GType → Bool
  | .nonNull _ => true
  | _ => false

theorem unroll_optional_nonNull (t : GType) : ∀ opt, (unroll (.nonNull t) opt).optional = false := by
  induction t with
  | named n => intro _; rfl
  | list t _ => intro _; rfl
  | nonNull t ih => intro opt; simpa [unroll] using ih false

/-! ### member lookup in the class `parse_object_like` builds -/

theorem lookup_cons_pos (m : Member) (ms : List Member) (n : List Char) (h : m.name = n) :
    lookupMember (m :: ms) n = some m := by
  rw [lookupMember, if_pos h]

theorem lookup_cons_neg (m : Member) (ms : List Member) (n : List Char) (h : m.name ≠ n) :
    lookupMember (m :: ms) n = lookupMember ms n := by
  rw [lookupMember, if_neg h]

theorem lookup_own_field (fo : Bool) (fs : List (List Char × GType)) (f : List Char) (t : GType)
    (hmem : (f, t) ∈ fs) (hnd : (fs.map (·.1)).Nodup) (tail : List Member) :
    lookupMember (fs.map (fun x => Member.field x.1 (parseField fo x.2)) ++ tail) f
      = some (.field f (parseField fo t)) := by
  induction fs with
  | nil => cases hmem
  | cons x xs ih =>
    obtain ⟨a, b⟩ := x
    have hnd' : a ∉ xs.map (·.1) ∧ (xs.map (·.1)).Nodup := by
      simpa only [List.map_cons, List.nodup_cons] using hnd
    rw [List.map_cons, List.cons_append]
    by_cases hf : a = f
    · subst hf
      have hb : t = b := by
        rcases List.mem_cons.mp hmem with h | h
        · exact congrArg Prod.snd h
        · exact absurd (List.mem_map_of_mem (f := (·.1)) h) hnd'.1
      subst hb
      exact lookup_cons_pos _ _ _ rfl
    · rw [lookup_cons_neg (Member.field a (parseField fo b)) _ f hf]
      rcases List.mem_cons.mp hmem with h | h
      · exact absurd (congrArg Prod.fst h).symm hf
      · exact ih h hnd'.2

end Dcg.Proofs.Graphql
