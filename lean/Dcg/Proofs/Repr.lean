import Dcg.Py.Lex
import Dcg.Py.Repr
/-
`repr(s)` is read back by the lexer as exactly `s`, for every string and every notion of
printability (C01 lexical closure of repr-rendered slots, C05 default values, C09 literal mode,
C10 Field arguments).
-/
namespace Dcg.Proofs.Repr
open Dcg.Py.Lex Dcg.Py.Repr

/-- an escaping function all of whose images decode to the escaped character, whatever follows -/
def FnOK (q : Char) (f : Char → List Char) : Prop :=
  ∀ c rest, unit (f c ++ rest) = some ([c], rest) ∧ (f c ++ rest).head? ≠ some q

theorem scan_flatMap {q : Char} {f : Char → List Char} (hf : FnOK q f) (s rest : List Char) :
    scan q (s.flatMap f ++ q :: rest) = some (s, rest) := by
  induction s with
  | nil => rw [scan]; simp
  | cons c s ih =>
    have hu := hf c (s.flatMap f ++ q :: rest)
    have hcons : (c :: s).flatMap f ++ q :: rest = f c ++ (s.flatMap f ++ q :: rest) := by simp
    rw [hcons, scan, if_neg hu.2]
    split
    · rename_i h; rw [hu.1] at h; cases h
    · rename_i cs r h
      rw [hu.1] at h
      simp only [Option.some.injEq, Prod.mk.injEq] at h
      obtain ⟨rfl, rfl⟩ := h
      rw [ih]; simp

theorem lit_flatMap {q : Char} {f : Char → List Char} (hf : FnOK q f) (s rest : List Char)
    (hrest : rest.head? ≠ some q) :
    lit q (q :: s.flatMap f ++ [q] ++ rest) = some (s, rest) := by
  have hsc := scan_flatMap hf s rest
  simp only [List.cons_append, List.append_assoc, List.nil_append, lit, ne_eq, not_true_eq_false,
    if_false]
  cases s with
  | nil =>
    simp only [List.flatMap_nil, List.nil_append] at hsc ⊢
    cases rest with
    | nil => simpa using hsc
    | cons r0 rest' =>
      have : r0 ≠ q := by intro h; subst h; simp at hrest
      simp only [this, and_false, if_false]
      exact hsc
  | cons c s =>
    have hu := hf c (s.flatMap f ++ q :: rest)
    have hcons : (c :: s).flatMap f ++ q :: rest = f c ++ (s.flatMap f ++ q :: rest) := by simp
    rw [hcons] at hsc ⊢
    generalize hX : f c ++ (s.flatMap f ++ q :: rest) = X at *
    match X, hu, hsc with
    | [], hu, _ => simp [unit] at hu
    | [_], _, hsc => exact hsc
    | c1 :: c2 :: r2, hu, hsc =>
      have : c1 ≠ q := by intro h; subst h; simp at hu
      simp only [this, false_and, if_false]
      exact hsc

/-! ### hex digits -/

theorem hexVal_hexDigit : ∀ d : Fin 16, hexVal (hexDigit d.val) = some d.val := by decide

theorem hexDigits_lt (k : Nat) : ∀ n, ∀ d ∈ hexDigits n k, d < 16 := by
  induction k with
  | zero => intro n d h; simp [hexDigits] at h
  | succ k ih =>
    intro n d h
    simp only [hexDigits, List.mem_append, List.mem_singleton] at h
    rcases h with h | h
    · exact ih _ _ h
    · omega

theorem hexN_digits (ds : List Nat) (hds : ∀ d ∈ ds, d < 16) (rest : List Char) (acc : Nat) :
    hexN ds.length (ds.map hexDigit ++ rest) acc = some (ds.foldl (fun a d => a * 16 + d) acc, rest) := by
  induction ds generalizing acc with
  | nil => simp [hexN]
  | cons d ds ih =>
    have hd : d < 16 := hds d (by simp)
    have hv : hexVal (hexDigit d) = some d := hexVal_hexDigit ⟨d, hd⟩
    simp only [List.length_cons, List.map_cons, List.cons_append, hexN, hv, List.foldl_cons]
    exact ih (fun x hx => hds x (by simp [hx])) _

theorem foldl_hexDigits (k : Nat) : ∀ n acc,
    (hexDigits n k).foldl (fun a d => a * 16 + d) acc = acc * 16 ^ k + n % 16 ^ k := by
  induction k with
  | zero => intro n acc; simp [hexDigits, Nat.mod_one]
  | succ k ih =>
    intro n acc
    simp only [hexDigits, List.foldl_append, List.foldl_cons, List.foldl_nil, ih]
    have h1 : n % 16 ^ (k + 1) = (n / 16 % 16 ^ k) * 16 + n % 16 := by
      rw [Nat.pow_succ, Nat.mul_comm (16 ^ k) 16, Nat.mod_mul]
      omega
    rw [h1, Nat.pow_succ]
    have : acc * (16 ^ k * 16) = acc * 16 ^ k * 16 := by rw [Nat.mul_assoc]
    omega

theorem hexDigits_length (k : Nat) : ∀ n, (hexDigits n k).length = k := by
  induction k with
  | zero => intro n; simp [hexDigits]
  | succ k ih => intro n; simp [hexDigits, ih]

theorem hexN_hexK (k n : Nat) (hn : n < 16 ^ k) (rest : List Char) :
    hexN k (hexK k n ++ rest) 0 = some (n, rest) := by
  have h := hexN_digits (hexDigits n k) (hexDigits_lt k n) rest 0
  rw [hexDigits_length] at h
  unfold hexK
  rw [h, foldl_hexDigits, Nat.mod_eq_of_lt hn]; simp

theorem mkChar_toNat (c : Char) : mkChar c.toNat = some c := by
  unfold mkChar
  have hv : c.toNat.isValidChar := c.valid
  simp [hv, Char.ofNat_toNat]

theorem escHex_hexK (k : Nat) (c : Char) (hn : c.toNat < 16 ^ k) (rest : List Char) :
    escHex k (hexK k c.toNat ++ rest) = some ([c], rest) := by
  unfold escHex
  rw [hexN_hexK k _ hn]
  simp [mkChar_toNat]


theorem lookup_x : simpleEsc.lookup 'x' = none := by decide
theorem lookup_u : simpleEsc.lookup 'u' = none := by decide
theorem lookup_U : simpleEsc.lookup 'U' = none := by decide

theorem unit_x (c : Char) (h : c.toNat < 256) (rest : List Char) :
    unit ('\\' :: 'x' :: hexK 2 c.toNat ++ rest) = some ([c], rest) := by
  have := escHex_hexK 2 c (by simpa using h) rest
  simp [unit, escape, lookup_x, isOct, this]

theorem unit_u (c : Char) (h : c.toNat < 65536) (rest : List Char) :
    unit ('\\' :: 'u' :: hexK 4 c.toNat ++ rest) = some ([c], rest) := by
  have := escHex_hexK 4 c (by simpa using h) rest
  simp [unit, escape, lookup_u, isOct, this]

theorem unit_U (c : Char) (rest : List Char) :
    unit ('\\' :: 'U' :: hexK 8 c.toNat ++ rest) = some ([c], rest) := by
  have hv : c.toNat < 16 ^ 8 := by
    have := c.valid
    simp only [UInt32.isValidChar, Nat.isValidChar] at this
    have : c.toNat < 1114112 := by
      unfold Char.toNat; omega
    omega
  have := escHex_hexK 8 c hv rest
  simp [unit, escape, lookup_U, isOct, this]

/-- `repr`'s per-character escaping is decoded exactly by the lexer, for either quote and for
every notion of printability. -/
theorem reprChar_ok (pr : Char → Bool) (q : Char) (hq : q = '\'' ∨ q = '"') :
    FnOK q (reprChar pr q) := by
  intro c rest
  have hqb : q ≠ '\\' := by rcases hq with h | h <;> subst h <;> decide
  unfold reprChar
  split
  · rename_i h
    refine ⟨?_, by simp; exact fun h => hqb h.symm⟩
    rcases h with h | h
    · subst h
      rcases hq with h | h <;> subst h <;> simp [unit, escape, simpleEsc, List.lookup]
    · subst h; simp [unit, escape, simpleEsc, List.lookup]
  · rename_i h1
    simp only [not_or] at h1
    split
    · rename_i h; subst h
      refine ⟨by simp [unit, escape, simpleEsc, List.lookup], by simp; exact fun h => hqb h.symm⟩
    · split
      · rename_i h; subst h
        refine ⟨by simp [unit, escape, simpleEsc, List.lookup], by simp; exact fun h => hqb h.symm⟩
      · split
        · rename_i h; subst h
          refine ⟨by simp [unit, escape, simpleEsc, List.lookup], by simp; exact fun h => hqb h.symm⟩
        · rename_i ht hn hr
          split
          · rename_i hlow
            refine ⟨?_, by simp; exact fun h => hqb h.symm⟩
            have : c.toNat < 256 := by omega
            simpa using unit_x c this rest
          · rename_i hlow
            simp only [not_or] at hlow
            have hc0 : c ≠ Char.ofNat 0 := by
              intro h; subst h; simp at hlow
            have plain : unit (c :: rest) = some ([c], rest) := by
              simp [unit, hn, hr, hc0, h1.2]
            split
            · exact ⟨by simpa using plain, by simp; exact h1.1⟩
            · split
              · exact ⟨by simpa using plain, by simp; exact h1.1⟩
              · split
                · rename_i h256
                  exact ⟨by simpa using unit_x c h256 rest, by simp; exact fun h => hqb h.symm⟩
                · split
                  · rename_i h64k
                    exact ⟨by simpa using unit_u c h64k rest, by simp; exact fun h => hqb h.symm⟩
                  · exact ⟨by simpa using unit_U c rest, by simp; exact fun h => hqb h.symm⟩

theorem reprQuote_cases (s : List Char) : reprQuote s = '\'' ∨ reprQuote s = '"' := by
  unfold reprQuote; split <;> simp

/-- **repr round trip**: wherever `repr(s)` is written, the lexer reads back exactly `s` and
continues exactly behind it (provided the next character is not the same quote). -/
theorem repr_roundtrip (pr : Char → Bool) (s rest : List Char)
    (hrest : rest.head? ≠ some (reprQuote s)) :
    lit (reprQuote s) (Dcg.Py.Repr.reprStr pr s ++ rest) = some (s, rest) := by
  unfold Dcg.Py.Repr.reprStr
  exact lit_flatMap (reprChar_ok pr _ (reprQuote_cases s)) s rest hrest

end Dcg.Proofs.Repr
