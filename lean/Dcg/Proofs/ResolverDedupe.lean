import Dcg.Model.ResolverDedupe
/-! Helper lemmas for `Parser.__delete_duplicate_models` (C06). Core Lean only. -/
namespace Dcg.Proofs.ResolverDedupe
open Dcg.Model.ResolverDedupe

theorem snoc_mono {α : Type} {l : List α} {x v : α} {j : Nat} (h : l[j]? = some v) : (l ++ [x])[j]? = some v := by
  have hj : j < l.length := by
    rcases List.getElem?_eq_some_iff.mp h with ⟨hj, _⟩
    exact hj
  rw [List.getElem?_append_left hj]
  exact h

theorem snoc_last {α : Type} (l : List α) (x : α) : (l ++ [x])[l.length]? = some x := by
  rw [List.getElem?_append_right (Nat.le_refl _)]
  simp

theorem snoc_cases {α : Type} {l : List α} {x y : α} {i : Nat} (h : (l ++ [x])[i]? = some y) :
    l[i]? = some y ∨ (i = l.length ∧ y = x) := by
  by_cases hi : i < l.length
  · left
    rwa [List.getElem?_append_left hi] at h
  · right
    have hge : l.length ≤ i := Nat.le_of_not_lt hi
    rw [List.getElem?_append_right hge] at h
    cases hk : i - l.length with
    | zero =>
      rw [hk] at h
      simp only [List.getElem?_cons_zero, Option.some.injEq] at h
      exact ⟨by omega, h.symm⟩
    | succ k =>
      rw [hk] at h
      simp at h

theorem lt_of_get {α : Type} {l : List α} {v : α} {j : Nat} (h : l[j]? = some v) : j < l.length := by
  rcases List.getElem?_eq_some_iff.mp h with ⟨hj, _⟩
  exact hj

/-- what is true of the loop state after any number of iterations -/
structure Inv (st : DState) : Prop where
  len : st.outs.length = st.pre.length
  /-- a registered model is the model at its position, bears the name it is registered under, and is kept -/
  reg : ∀ (n : Str) (j : Nat) (o : DModel), st.reg.lookup n = some (j, o) → st.pre[j]? = some o ∧ o.name = n ∧ st.outs[j]? = some none
  /-- a dropped model has the key and the name of the (earlier, kept) model it is dropped for -/
  out : ∀ i j : Nat, st.outs[i]? = some (some j) →
    j < i ∧ ∃ mi mj : DModel, st.pre[i]? = some mi ∧ st.pre[j]? = some mj ∧ mi.key = mj.key ∧ mi.name = mj.name ∧
      st.outs[j]? = some none

theorem inv_init : Inv DState.init :=
  ⟨rfl, by intro n j o h; simp [DState.init] at h, by intro i j h; simp [DState.init] at h⟩

theorem step_pre (st : DState) (m : DModel) : (step st m).pre = st.pre ++ [m] := by
  unfold step
  dsimp only
  split
  · split <;> rfl
  · rfl

/-- lifting the `out` clause of the invariant over one appended model / verdict -/
theorem out_lift {st : DState} (h : Inv st) (m : DModel) (r : Option Nat)
    (hr : ∀ j, r = some j → j < st.pre.length ∧ ∃ mj : DModel, st.pre[j]? = some mj ∧ m.key = mj.key ∧ m.name = mj.name ∧
      st.outs[j]? = some none) :
    ∀ i j : Nat, (st.outs ++ [r])[i]? = some (some j) →
      j < i ∧ ∃ mi mj : DModel, (st.pre ++ [m])[i]? = some mi ∧ (st.pre ++ [m])[j]? = some mj ∧ mi.key = mj.key ∧
        mi.name = mj.name ∧ (st.outs ++ [r])[j]? = some none := by
  intro i j hij
  rcases snoc_cases hij with hold | ⟨hi, hrj⟩
  · obtain ⟨hlt, mi, mj, h1, h2, h3, h4, h5⟩ := h.out i j hold
    exact ⟨hlt, mi, mj, snoc_mono h1, snoc_mono h2, h3, h4, snoc_mono h5⟩
  · obtain ⟨hlt, mj, h2, h3, h4, h5⟩ := hr j hrj.symm
    rw [h.len] at hi
    refine ⟨by omega, m, mj, ?_, snoc_mono h2, h3, h4, snoc_mono h5⟩
    rw [hi]
    exact snoc_last _ _

theorem step_inv {st : DState} (h : Inv st) (m : DModel) : Inv (step st m) := by
  unfold step
  dsimp only
  split
  · rename_i j o hl
    obtain ⟨hj, hn, hk⟩ := h.reg m.name j o hl
    split
    · rename_i hkey
      -- dropped for the registered model
      refine ⟨by simp [h.len], ?_, ?_⟩
      · intro n j' o' hl'
        obtain ⟨a, b, c⟩ := h.reg n j' o' hl'
        exact ⟨snoc_mono a, b, snoc_mono c⟩
      · apply out_lift h m (some j)
        intro j' hj'
        cases hj'
        exact ⟨lt_of_get hj, o, hj, hkey.symm, hn.symm, hk⟩
    · -- replaces the registered model
      refine ⟨by simp [h.len], ?_, ?_⟩
      · intro n j' o' hl'
        simp only [List.lookup] at hl'
        split at hl'
        · rename_i hb
          cases hl'
          refine ⟨snoc_last _ _, (by simpa using hb : n = m.name).symm, ?_⟩
          rw [← h.len]
          exact snoc_last _ _
        · obtain ⟨a, b, c⟩ := h.reg n j' o' hl'
          exact ⟨snoc_mono a, b, snoc_mono c⟩
      · apply out_lift h m none
        intro j' hj'
        cases hj'
  · refine ⟨by simp [h.len], ?_, ?_⟩
    · intro n j' o' hl'
      simp only [List.lookup] at hl'
      split at hl'
      · rename_i hb
        cases hl'
        refine ⟨snoc_last _ _, (by simpa using hb : n = m.name).symm, ?_⟩
        rw [← h.len]
        exact snoc_last _ _
      · obtain ⟨a, b, c⟩ := h.reg n j' o' hl'
        exact ⟨snoc_mono a, b, snoc_mono c⟩
    · apply out_lift h m none
      intro j' hj'
      cases hj'

theorem foldl_inv (ms : List DModel) : ∀ st : DState, Inv st →
    Inv (ms.foldl step st) ∧ (ms.foldl step st).pre = st.pre ++ ms := by
  induction ms with
  | nil => intro st h; exact ⟨h, by simp⟩
  | cons m ms ih =>
    intro st h
    simp only [List.foldl_cons]
    obtain ⟨a, b⟩ := ih (step st m) (step_inv h m)
    refine ⟨a, ?_⟩
    rw [b, step_pre]
    simp

theorem run_inv (ms : List DModel) : Inv (run ms) ∧ (run ms).pre = ms := by
  have := foldl_inv ms DState.init inv_init
  exact ⟨this.1, by rw [run, this.2]; rfl⟩

end Dcg.Proofs.ResolverDedupe
