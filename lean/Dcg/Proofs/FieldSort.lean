import Dcg.Proofs.Field
/-! Exhaustive kernel evaluation over every valid reduced vector (closed-form template decision). -/
namespace Dcg.Proofs.Field
open Dcg.Model.Field

theorem sortKeyExact_closed : AllR (fun _ _ _ => true) (SortKeyExact closedDecision) := by decide +kernel

end Dcg.Proofs.Field
