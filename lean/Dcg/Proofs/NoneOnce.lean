import Dcg.Proofs.HintOp
import Dcg.Model.HintRegion
/-
Dcg.Proofs.NoneOnce — in the `|` spelling no `Optional[…]`/`Union[…]` subscription is ever written
(`opFree_hintE`, every tree), and a well-formed `|` expression without them mentions `None` at most
once at every union level (`rootOK_of_wfB`).
-/
namespace Dcg.Proofs.NoneOnce
open Dcg.Model.Types Dcg.Model.HintExpr Dcg.Proofs.Cover Dcg.Proofs.Types Dcg.Proofs.TypesOp Dcg.Proofs.HintOp
open Dcg.Sem.Typing hiding Str sNone sComma sPipe

theorem opFreeL_mem {es : List TExpr} (h : opFreeL es = true) : ∀ e ∈ es, opFree e = true := by
  induction es with
  | nil => intro e he; cases he
  | cons a l ih =>
    simp only [opFreeL, Bool.and_eq_true] at h
    intro e he
    cases he with
    | head => exact h.1
    | tail _ h' => exact ih h.2 e h'

theorem opFreeL_of_mem {es : List TExpr} (h : ∀ e ∈ es, opFree e = true) : opFreeL es = true := by
  induction es with
  | nil => rfl
  | cons a l ih =>
    simp only [opFreeL, Bool.and_eq_true]
    exact ⟨h a (List.mem_cons_self ..), ih (fun e he => h e (List.mem_cons_of_mem _ he))⟩

theorem opFree_eNone : opFree eNone = true := rfl

theorem opFree_borArgs (d : TExpr) (h : opFree d = true) : ∀ x ∈ borArgs d, opFree x = true := by
  cases d with
  | atom s => intro x hx; simp only [borArgs, List.mem_singleton] at hx; subst hx; exact h
  | app hd args => intro x hx; simp only [borArgs, List.mem_singleton] at hx; subst hx; exact h
  | bor args => simp only [opFree] at h; exact opFreeL_mem h

theorem opFree_mkBorE' (xs : List TExpr) (h : ∀ x ∈ xs, opFree x = true) : opFree (borFlat.mkBorE' xs) = true := by
  match xs, h with
  | [], _ => rfl
  | [p], h => exact h p (List.mem_cons_self ..)
  | p :: q :: r, h => simp only [borFlat.mkBorE', opFree]; exact opFreeL_of_mem h

theorem opFree_borFlat (ds : List TExpr) (h : ∀ d ∈ ds, opFree d = true) : opFree (borFlat ds) = true := by
  unfold borFlat
  apply opFree_mkBorE'
  intro x hx
  simp only [List.mem_flatMap] at hx
  obtain ⟨d, hd, hxd⟩ := hx
  exact opFree_borArgs d (h d hd) x hxd

theorem opFree_rmB (e : TExpr) (h : opFree e = true) : opFree (rmB e) = true := by
  cases e with
  | atom s => exact h
  | app hd args => exact h
  | bor args =>
    simp only [opFree] at h
    have hm := opFreeL_mem h
    simp only [rmB]
    have hf : ∀ y ∈ args.filter (fun e => !isNoneE e), opFree y = true :=
      fun y hy => hm y (List.mem_filter.mp hy).1
    generalize args.filter (fun e => !isNoneE e) = ys at hf
    match ys, hf with
    | [], _ => rfl
    | [p], hf => exact hf p (List.mem_cons_self ..)
    | p :: q :: r, hf => simp only [mkBorE, opFree]; exact opFreeL_of_mem hf

theorem opFree_loop : ∀ (hs acc : List TExpr) (f : Bool), (∀ h ∈ hs, opFree h = true) → (∀ a ∈ acc, opFree a = true) →
    ∀ d ∈ (unionLoopE true hs acc f).1, opFree d = true := by
  intro hs
  induction hs with
  | nil => intro acc f _ ha d hd; exact ha d hd
  | cons h hs ih =>
    intro acc f hh ha
    have hhs : ∀ x ∈ hs, opFree x = true := fun x hx => hh x (List.mem_cons_of_mem _ hx)
    simp only [unionLoopE]
    split
    · exact ih acc f hhs ha
    · split
      · exact ih acc true hhs ha
      · apply ih _ _ hhs
        intro x hx
        rcases List.mem_append.mp hx with hx | hx
        · exact ha x hx
        · simp only [List.mem_singleton] at hx
          subst hx
          simp only [rmE, if_true]
          exact opFree_rmB h (hh h (List.mem_cons_self ..))

theorem opFree_base (o : Opts) (ho : o.unionOp = true) (a : Attrs) (kidEs : List TExpr)
    (hk : ∀ k ∈ kidEs, opFree k = true) : opFree (baseE o a kidEs).1 = true := by
  unfold baseE
  split
  · rfl
  · match kidEs, hk with
    | k1 :: k2 :: ks, hk =>
      simp only [ho, if_true]
      have hl := opFree_loop (k1 :: k2 :: ks) [] a.isOptional hk (by intro x hx; cases hx)
      generalize unionLoopE true (k1 :: k2 :: ks) [] a.isOptional = r at hl
      obtain ⟨r1, r2⟩ := r
      simp only [] at hl ⊢
      match r1, hl with
      | [d], hl => exact hl d (List.mem_cons_self ..)
      | [], hl => exact opFree_borFlat _ hl
      | d1 :: d2 :: ds, hl => exact opFree_borFlat _ hl
    | [k], hk => exact hk k (List.mem_cons_self ..)
    | [], _ =>
      simp only []
      split
      · have : sLiteral ≠ sOptional ∧ sLiteral ≠ sUnion := by decide
        simp only [opFree, bne_iff_ne, ne_eq, this.1, this.2, not_false_eq_true, decide_true, Bool.true_and]
        apply opFreeL_of_mem
        intro e he
        simp only [List.mem_map] at he
        obtain ⟨tok, _, rfl⟩ := he
        rfl
      · split <;> rfl

theorem names_ne (o : Opts) : (listName o != sOptional) = true ∧ (listName o != sUnion) = true ∧
    (setName o != sOptional) = true ∧ (setName o != sUnion) = true ∧
    (dictName o != sOptional) = true ∧ (dictName o != sUnion) = true := by
  obtain ⟨u, s, g⟩ := o
  cases u <;> cases s <;> cases g <;> decide

theorem opFree_container (o : Opts) (a : Attrs) (keyE : Option TExpr) (b : TExpr) (hb : opFree b = true)
    (hkey : ∀ k, keyE = some k → opFree k = true) : opFree (containerE o a keyE b) = true := by
  obtain ⟨h1, h2, h3, h4, h5, h6⟩ := names_ne o
  unfold containerE
  split
  · unfold wrap1E; split
    · rfl
    · simp [opFree, opFreeL, h1, h2, hb]
  · split
    · unfold wrap1E; split
      · rfl
      · simp [opFree, opFreeL, h3, h4, hb]
    · split
      · split
        · have hk : opFree (keyE.getD (.atom sStr)) = true := by
            cases keyE with
            | none => rfl
            | some k => simpa using hkey k rfl
          have hv : opFree (if print b = [] then TExpr.atom sAny else b) = true := by
            split
            · rfl
            · exact hb
          simp [opFree, opFreeL, h5, h6, hk, hv]
        · rfl
      · exact hb

theorem opFree_finish (c : TExpr) (f : Bool) (hc : opFree c = true) : opFree (finishE true c f).1 = true := by
  unfold finishE
  split
  · simp only []
    unfold getOptionalE
    simp only [if_true]
    split
    · rfl
    · apply opFree_borFlat
      intro d hd
      simp only [List.mem_cons, List.not_mem_nil, or_false] at hd
      rcases hd with rfl | rfl
      · simp only [rmE, if_true]; exact opFree_rmB c hc
      · rfl
  · exact hc

/-- `no_double_optional`, `|` spelling, EVERY tree (no hypothesis on names): the structural rendering
under `use_union_operator` contains no `Optional[…]` and no `Union[…]` subscription at all. -/
theorem opFree_hintE (o : Opts) (ho : o.unionOp = true) : ∀ t, opFree (hintE o t).1 = true := by
  apply DT.ind
  intro a key kids ihk ihl
  have hkids : ∀ k ∈ hintEL o kids, opFree k = true := by
    clear ihk
    induction kids with
    | nil => intro k hk; cases hk
    | cons c cs ihc =>
      intro k hk
      simp only [hintEL, List.mem_cons] at hk
      rcases hk with rfl | hk
      · exact ihl c (List.mem_cons_self ..)
      · exact ihc (fun x hx => ihl x (List.mem_cons_of_mem _ hx)) k hk
  have hkey : ∀ k, hintEO o key = some k → opFree k = true := by
    cases key with
    | none => intro k hk; simp [hintEO] at hk
    | some kk =>
      intro k hk
      simp only [hintEO, Option.some.injEq] at hk
      subst hk; exact ihk kk rfl
  simp only [hintE, hintNodeE, ho]
  exact opFree_finish _ _ (opFree_container o a _ _ (opFree_base o ho a _ hkids) hkey)

/-! ### `None` at most once -/

theorem noneCount_unit (e : TExpr) (hf : opFree e = true) (hu : isBor e = false) (hn : isNoneE e = false) :
    noneCount e = 0 := by
  cases e with
  | atom s =>
    simp only [isNoneE, decide_eq_false_iff_not] at hn
    simp [noneCount, hn]
  | app h args =>
    simp only [opFree, Bool.and_eq_true, bne_iff_ne, ne_eq] at hf
    simp [noneCount, hf.1.1, hf.1.2]
  | bor args => simp [isBor] at hu

theorem noneCount_le_one (e : TExpr) (hf : opFree e = true) (hu : isBor e = false) : noneCount e ≤ 1 := by
  cases hn : isNoneE e with
  | false => rw [noneCount_unit e hf hu hn]; omega
  | true =>
    cases e with
    | atom s => simp only [noneCount]; split <;> omega
    | app h args => simp [isNoneE] at hn
    | bor args => simp [isNoneE] at hn

/-- a flat union whose `None` stands last mentions it at most once -/
theorem noneCountL_le_one : ∀ (args : List TExpr), (∀ a ∈ args, opFree a = true) → (∀ a ∈ args, isBor a = false) →
    (∀ a ∈ args.dropLast, isNoneE a = false) → noneCountL args ≤ 1 := by
  intro args
  induction args with
  | nil => intro _ _ _; simp [noneCountL]
  | cons a r ih =>
    intro hf hu hn
    cases r with
    | nil =>
      simp only [noneCountL, Nat.add_zero]
      exact noneCount_le_one a (hf a (List.mem_cons_self ..)) (hu a (List.mem_cons_self ..))
    | cons b r' =>
      have h0 : noneCount a = 0 :=
        noneCount_unit a (hf a (List.mem_cons_self ..)) (hu a (List.mem_cons_self ..)) (hn a (by simp [List.dropLast]))
      have := ih (fun x hx => hf x (List.mem_cons_of_mem _ hx)) (fun x hx => hu x (List.mem_cons_of_mem _ hx))
        (fun x hx => hn x (by simpa [List.dropLast] using Or.inr hx))
      simp only [noneCountL] at this ⊢
      omega

theorem innerOKL_of_mem {es : List TExpr} (h : ∀ e ∈ es, innerOK e = true) : innerOKL es = true := by
  induction es with
  | nil => rfl
  | cons a l ih =>
    simp only [innerOKL, Bool.and_eq_true]
    exact ⟨h a (List.mem_cons_self ..), ih (fun e he => h e (List.mem_cons_of_mem _ he))⟩

theorem rootOKL_of_mem {es : List TExpr} (h : ∀ e ∈ es, rootOK e = true) : rootOKL es = true := by
  induction es with
  | nil => rfl
  | cons a l ih =>
    simp only [rootOKL, Bool.and_eq_true]
    exact ⟨h a (List.mem_cons_self ..), ih (fun e he => h e (List.mem_cons_of_mem _ he))⟩

/-- `none_once` for well-formed `|` expressions: at every union level `None` is mentioned at most once -/
theorem rootOK_of_wfB : ∀ e, wfB e = true → opFree e = true → rootOK e = true ∧ innerOK e = true := by
  apply TExpr.ind
  · intro s _ _; exact ⟨rfl, rfl⟩
  · intro h args ih hw hf
    simp only [wfB, Bool.and_eq_true] at hw
    simp only [opFree, Bool.and_eq_true, bne_iff_ne, ne_eq] at hf
    have hr : rootOKL args = true :=
      rootOKL_of_mem (fun a ha => (ih a ha (wfBL_mem hw.2 a ha) (opFreeL_mem hf.2 a ha)).1)
    simp only [rootOK, innerOK, hf.1.1, hf.1.2, or_self, if_false]
    exact ⟨hr, hr⟩
  · intro args ih hw hf
    obtain ⟨_, hwf, hub, hnn⟩ := wfB_bor_parts hw
    simp only [opFree] at hf
    have hfm := opFreeL_mem hf
    have hi : innerOKL args = true :=
      innerOKL_of_mem (fun a ha => (ih a ha (hwf a ha) (hfm a ha)).2)
    simp only [rootOK, innerOK, Bool.and_eq_true, decide_eq_true_eq]
    exact ⟨⟨noneCountL_le_one args hfm hub hnn, hi⟩, hi⟩

end Dcg.Proofs.NoneOnce
