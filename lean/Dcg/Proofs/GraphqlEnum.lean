import Dcg.Proofs.EnumSites
import Dcg.Proofs.Escape
import Dcg.Gen.EscTables
/-
Helper lemmas for the enum half of C17 (`GraphQLParser.parse_enum`: member VALUES vs member NAMES).
The model is C09's `Dcg.Model.Enum.parseGraphqlEnum` (the member loop both enum call sites run); nothing is
modelled twice.  Kept apart from Props/C09 so that C17 does not import C09's ordering half.
-/
namespace Dcg.Proofs.GraphqlEnum
open Dcg.Model.Names Dcg.Model.Enum Dcg.Model.Escape Dcg.Gen.EscTables Dcg.Proofs.Escape Dcg.Proofs.EnumSites Dcg.Py.Lex

/-- the regenerated `escape_characters` table never lets a quote or a line end through (decided by the kernel
on the generated value, so re-checked whenever the table in /repo changes) -/
theorem enumTable_ok' : tableOK '\'' enumTable = true := by decide

/-- the right-hand side `'…'` written for a GraphQL value name, followed by the newline of the template, is read
back by Python's lexer as exactly that name -/
theorem gql_value_read_back (n : List Char) : evalDefault (memberDefault (.str n)) = some (.str n) := by
  simp only [memberDefault, evalDefault]
  rw [lit_quoted enumTable_ok' n ['\n'] (by decide)]
  rfl

/-- one member per value name, in order (the loop neither drops nor adds one) -/
theorem gql_fold_length {E : Env} {cfg : Cfg} (all : List (List Char)) :
    ∀ (names : List (List Char)) (i : Nat) (excl : List (List Char)) (ms : List Member),
      foldMembers E cfg (graphqlObj all) (names.map .str) i excl = .ok ms → ms.length = names.length := by
  intro names i excl ms h
  have := congrArg List.length (graphql_fold_defaults (E := E) (cfg := cfg) all names i excl ms h)
  simpa using this

end Dcg.Proofs.GraphqlEnum
