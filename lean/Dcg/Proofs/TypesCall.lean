import Dcg.Proofs.Types
/-!
`_remove_none_from_union` (`Union[…]` spelling, `Dcg.Model.Types.removeNoneU`, the character-level
transliteration) on unions whose members are CALLS — `conint(ge=0, le=100, multiple_of=2)`,
`constr(pattern=r'^q', min_length=3)`.

The splitter counts SQUARE brackets only, so the keyword arguments of a call are separate parts of
the split.  A member is therefore modelled as the splitter sees it: the list of its *fragments*, the
pieces between its `", "` (`conint(ge=0` · `le=100` · `multiple_of=2)`); its text is the fragments
joined by `", "`.  The theorem: whatever the fragments are — equal fragments in different members
included — every fragment of every member that is not `None` comes back, in order, exactly once.
-/
namespace Dcg.Proofs.TypesCall
open Dcg.Model.Types Dcg.Proofs.Types

/-- a member as the splitter sees it: its pieces between top-level `", "` -/
abbrev Member := List Str

/-- the rendered text of a member -/
def memberText (m : Member) : Str := joinSep sComma m

/-- `Union[m₁, m₂, …]` -/
def unionText (ms : List Member) : Str := sUnionPrefix ++ joinSep sComma (ms.map memberText) ++ [']']

/-- the member `None` -/
def isNoneM (m : Member) : Bool := m == [sNone]

/-- a fragment the theorem speaks about: not empty, no white space at its ends, square brackets
closed and no comma outside them (so it IS one piece of the split), not itself a `Union[`, and not
the text `None` (a fragment `None` inside a call — `constr(pattern=r'a, None, b')` — is dropped by
the code: outside) -/
def fragOK (f : Str) : Bool := closedLeaf f && f != sNone

def memberOK (m : Member) : Bool := !m.isEmpty && m.all fragOK

/-- every member is `None` or a list of good fragments -/
def unionOK (ms : List Member) : Bool := ms.all (fun m => isNoneM m || memberOK m)

/-- the three-way end of the function, on the list of parts -/
def mkText : List Str → Str
  | [] => sNone
  | [p] => p
  | ps => sUnionPrefix ++ joinSep sComma ps ++ [']']

/-- the members that are not `None` -/
def keep (ms : List Member) : List Member := ms.filter (fun m => !isNoneM m)

/-! ### `", ".join` of joined members is the join of all fragments -/

theorem joinSep_append (sep : Str) : ∀ (a b : List Str), a ≠ [] → b ≠ [] →
    joinSep sep (a ++ b) = joinSep sep a ++ sep ++ joinSep sep b := by
  intro a
  induction a with
  | nil => intro b h; exact absurd rfl h
  | cons x xs ih =>
    intro b _ hb
    cases xs with
    | nil =>
      cases b with
      | nil => exact absurd rfl hb
      | cons y ys => simp [joinSep]
    | cons y ys =>
      have := ih b (by simp) hb
      simp only [List.cons_append] at this ⊢
      rw [joinSep_cons_cons, this, joinSep_cons_cons]
      simp [List.append_assoc]

theorem flatten_ne_nil_of {ms : List Member} (h : ∀ m ∈ ms, m ≠ []) (hne : ms ≠ []) : ms.flatten ≠ [] := by
  cases ms with
  | nil => exact absurd rfl hne
  | cons m r =>
    have := h m (List.mem_cons_self ..)
    cases m with
    | nil => exact absurd rfl this
    | cons a b => simp

theorem joinSep_flatten : ∀ (ms : List Member), (∀ m ∈ ms, m ≠ []) →
    joinSep sComma (ms.map memberText) = joinSep sComma ms.flatten := by
  intro ms
  induction ms with
  | nil => intro _; rfl
  | cons m r ih =>
    intro h
    have hm := h m (List.mem_cons_self ..)
    have hr : ∀ x ∈ r, x ≠ [] := fun x hx => h x (List.mem_cons_of_mem _ hx)
    cases r with
    | nil => simp [joinSep, memberText]
    | cons q s =>
      simp only [List.map_cons, List.flatten_cons]
      rw [joinSep_cons_cons]
      have ih' := ih hr
      simp only [List.map_cons, List.flatten_cons] at ih'
      rw [ih']
      rw [joinSep_append sComma m (q ++ s.flatten) hm (by
        have := flatten_ne_nil_of (ms := q :: s) hr (by simp)
        simpa using this)]
      simp [memberText, List.append_assoc]

/-! ### the fragments as leaves of a union tree -/

theorem printUL_leaves (l : List Str) : printUL (l.map UTree.leaf) = l := by
  induction l with
  | nil => rfl
  | cons a r ih => simp [printUL, printU, ih]

theorem okUL_leaves (l : List Str) (h : ∀ f ∈ l, closedLeaf f = true) : okUL (l.map UTree.leaf) = true := by
  induction l with
  | nil => rfl
  | cons a r ih =>
    simp only [List.map_cons, okUL, okU, Bool.and_eq_true]
    exact ⟨h a (List.mem_cons_self ..), ih (fun f hf => h f (List.mem_cons_of_mem _ hf))⟩

theorem rmTreeL_leaves (l : List Str) :
    rmTreeL (l.map UTree.leaf) = (l.filter (fun f => f != sNone)).map UTree.leaf := by
  induction l with
  | nil => rfl
  | cons a r ih =>
    simp only [List.map_cons, rmTreeL, isNoneLeaf, decide_eq_true_eq]
    by_cases ha : a = sNone
    · simp [ha, ih]
    · simp [ha, ih, rmTree]

theorem printU_mkU_leaves (l : List Str) : printU (mkU (l.map UTree.leaf)) = mkText l := by
  match l with
  | [] => simp [mkU, printU, mkText]
  | [a] => simp [mkU, printU, mkText]
  | a :: b :: r =>
    simp only [List.map_cons, mkU, printU, mkText]
    have := printUL_leaves (a :: b :: r)
    simp only [List.map_cons] at this
    rw [this]

/-- the fragments of the members that are kept are the fragments that are not `None` -/
theorem filter_flatten (ms : List Member) (h : unionOK ms = true) :
    (ms.flatten).filter (fun f => f != sNone) = (keep ms).flatten := by
  induction ms with
  | nil => rfl
  | cons m r ih =>
    simp only [unionOK, List.all_cons, Bool.and_eq_true] at h
    have ihr := ih (by simpa [unionOK] using h.2)
    simp only [List.flatten_cons, List.filter_append, keep, List.filter_cons]
    by_cases hn : isNoneM m = true
    · have : m = [sNone] := by simpa [isNoneM] using hn
      subst this
      simp only [hn, Bool.not_true]
      simpa [keep] using ihr
    · have hok : memberOK m = true := by
        rcases Bool.or_eq_true _ _ |>.mp h.1 with h1 | h1
        · exact absurd h1 hn
        · exact h1
      simp only [memberOK, Bool.and_eq_true, List.all_eq_true, fragOK] at hok
      have hall : m.filter (fun f => f != sNone) = m := by
        apply List.filter_eq_self.mpr
        intro f hf
        exact (hok.2 f hf).2
      have hn' : isNoneM m = false := by simpa using hn
      simp only [hn', Bool.not_false, if_true, List.flatten_cons, hall]
      congr 1

theorem unionOK_members_ne_nil {ms : List Member} (h : unionOK ms = true) : ∀ m ∈ ms, m ≠ [] := by
  intro m hm
  simp only [unionOK, List.all_eq_true] at h
  have := h m hm
  rcases Bool.or_eq_true _ _ |>.mp this with h1 | h1
  · intro e; subst e; simp [isNoneM] at h1
  · intro e; subst e; simp [memberOK] at h1

theorem unionOK_frags_closed {ms : List Member} (h : unionOK ms = true) : ∀ f ∈ ms.flatten, closedLeaf f = true := by
  intro f hf
  simp only [List.mem_flatten] at hf
  obtain ⟨m, hm, hfm⟩ := hf
  simp only [unionOK, List.all_eq_true] at h
  rcases Bool.or_eq_true _ _ |>.mp (h m hm) with h1 | h1
  · have : m = [sNone] := by simpa [isNoneM] using h1
    subst this
    simp only [List.mem_singleton] at hfm
    subst hfm
    decide
  · simp only [memberOK, Bool.and_eq_true, List.all_eq_true, fragOK] at h1
    exact (h1.2 f hfm).1

/-- **the splitter on call-syntax members**: on `Union[m₁, …, mₖ]` whose members are `None` or
lists of good fragments, `_remove_none_from_union` returns the three-way end applied to ALL
fragments of the members that are not `None`, in order, each exactly once — no matter whether a
fragment of one member is textually equal to a fragment of another. -/
theorem removeNoneU_calls (ms : List Member) (h : unionOK ms = true) :
    removeNoneU (unionText ms) = mkText (keep ms).flatten := by
  have hne := unionOK_members_ne_nil h
  have htext : unionText ms = printU (.union ((ms.flatten).map UTree.leaf)) := by
    simp only [unionText, printU, printUL_leaves]
    rw [joinSep_flatten ms hne]
  have hok : okU (.union ((ms.flatten).map UTree.leaf)) = true := by
    simp only [okU]
    exact okUL_leaves _ (unionOK_frags_closed h)
  unfold removeNoneU
  rw [htext, removeNoneUF_printU _ hok _ (Nat.le_refl _)]
  simp only [rmTree, rmTreeL_leaves, printU_mkU_leaves]
  rw [filter_flatten ms h]

/-- with two or more fragments left the result is the union of the kept members, verbatim -/
theorem mkText_flatten_union (ks : List Member) (hne : ∀ m ∈ ks, m ≠ []) (h2 : 2 ≤ ks.flatten.length) :
    mkText ks.flatten = unionText ks := by
  unfold unionText
  rw [joinSep_flatten ks hne]
  match hk : ks.flatten, h2 with
  | a :: b :: r, _ => simp [mkText]
  | [], h2 => simp at h2
  | [_], h2 => simp at h2

end Dcg.Proofs.TypesCall
