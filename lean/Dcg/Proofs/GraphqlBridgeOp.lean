import Dcg.Proofs.GraphqlBridge
/-!
The `|` spelling (`use_union_operator`) of the annotation of a GraphQL field — helper lemmas for
`Props.C17.rendered_hint_mirrors_type_operator`. Self-contained string-level proof (nothing of C13's
`|` lemmas is used): on the texts of a GraphQL chain `_remove_none_from_union(…, use_union_operator=True)`
(`re.split(r"\s*\|\s*")`, drop the parts equal to `None`, re-join) is the identity, because every part
either carries a bracket or is the type name; so `get_optional_type` just appends ` | None`.
-/
set_option linter.unusedSimpArgs false
set_option linter.unusedVariables false
namespace Dcg.Proofs.GraphqlBridgeOp
open Dcg.Model.Graphql (GType FieldIR parseField unroll)
open Dcg.Model.Types Dcg.Model.HintExpr Dcg.Model.GraphqlBridge Dcg.Proofs.GraphqlBridge
open Dcg.Sem.Typing hiding Str sNone sComma sPipe

/-! ### `re.split(r"\s*\|\s*")` on solid segments joined by `" | "` -/

/-- no `|`, no white space -/
def solidC (c : Char) : Bool := c != '|' && !isSpace c
def solid (s : Str) : Bool := s.all solidC

theorem splitAux_solid : ∀ (seg : Str), solid seg = true → ∀ (rest : Str) (skip : Bool) (cur : Str),
    splitPipeAux (seg ++ rest) skip cur [] = splitPipeAux rest (skip && seg.isEmpty) (cur ++ seg) []
  | [], _, rest, skip, cur => by simp
  | c :: seg, h, rest, skip, cur => by
    simp only [solid, List.all_cons, Bool.and_eq_true, solidC, bne_iff_ne, ne_eq, Bool.not_eq_true'] at h
    obtain ⟨⟨h1, h2⟩, h3⟩ := h
    have ih := splitAux_solid seg h3 rest false (cur ++ [c])
    simp only [List.cons_append, splitPipeAux, h1, if_false, h2, Bool.false_eq_true, List.append_nil]
    rw [ih]
    simp

theorem splitAux_sep (rest cur : Str) :
    splitPipeAux (sPipe ++ rest) false cur [] = cur :: splitPipeAux rest true [] [] := by
  have hs : isSpace ' ' = true := by decide
  simp [sPipe, splitPipeAux, hs]

theorem splitAux_join : ∀ (r : List Str) (s : Str), (∀ x ∈ s :: r, solid x = true ∧ x ≠ []) →
    ∀ (skip : Bool) (cur : Str),
    splitPipeAux (joinSep sPipe (s :: r)) skip cur [] = (cur ++ s) :: r
  | [], s, hs, skip, cur => by
    have := splitAux_solid s (hs s (by simp)).1 [] skip cur
    simp only [List.append_nil] at this
    simp [joinSep, this, splitPipeAux]
  | t :: r, s, hs, skip, cur => by
    have h1 := (hs s (by simp))
    have hne : s.isEmpty = false := by
      cases s with
      | nil => exact absurd rfl h1.2
      | cons _ _ => rfl
    have ih := splitAux_join r t (fun x hx => hs x (List.mem_cons_of_mem _ hx)) true []
    have e : joinSep sPipe (s :: t :: r) = s ++ (sPipe ++ joinSep sPipe (t :: r)) := by
      simp [joinSep, List.append_assoc]
    rw [e, splitAux_solid s h1.1, hne, Bool.and_false, splitAux_sep, ih]
    simp

theorem splitPipe_join (segs : List Str) (hne : segs ≠ []) (hs : ∀ s ∈ segs, solid s = true ∧ s ≠ []) :
    splitPipe (joinSep sPipe segs) = segs := by
  cases segs with
  | nil => exact absurd rfl hne
  | cons a r =>
    unfold splitPipe
    rw [splitAux_join r a hs false []]
    simp

/-- `_remove_none_from_union(…, use_union_operator=True)` leaves a text alone whose parts are solid and
none of which is `None` -/
theorem removeNoneB_join (segs : List Str) (hne : segs ≠ []) (hs : ∀ s ∈ segs, solid s = true ∧ s ≠ [])
    (hn : sNone ∉ segs) : removeNoneB (joinSep sPipe segs) = joinSep sPipe segs := by
  unfold removeNoneB
  split
  · rw [splitPipe_join segs hne hs]
    have hf : segs.filter (· ≠ sNone) = segs := by
      apply List.filter_eq_self.mpr
      intro a ha
      simp only [ne_eq, decide_not, Bool.not_eq_true', decide_eq_false_iff_not]
      intro e; subst e; exact hn ha
    rw [hf]
    cases segs with
    | nil => exact absurd rfl hne
    | cons a r => rfl
  · rfl

/-! ### the texts of a chain as joined segments -/

def addPre (pre : Str) : List Str → List Str
  | [] => []
  | x :: r => (pre ++ x) :: r

def addPost (post : Str) : List Str → List Str
  | [] => []
  | [x] => [x ++ post]
  | x :: r => x :: addPost post r

theorem join_addPre (sep pre : Str) : ∀ l : List Str, l ≠ [] →
    joinSep sep (addPre pre l) = pre ++ joinSep sep l
  | [], h => absurd rfl h
  | [x], _ => by simp [addPre, joinSep]
  | x :: y :: r, _ => by simp [addPre, joinSep, List.append_assoc]

theorem join_addPost (sep post : Str) : ∀ l : List Str, l ≠ [] →
    joinSep sep (addPost post l) = joinSep sep l ++ post
  | [], h => absurd rfl h
  | [x], _ => by simp [addPost, joinSep]
  | x :: y :: r, _ => by
    have ih := join_addPost sep post (y :: r) (by simp)
    have : addPost post (x :: y :: r) = x :: addPost post (y :: r) := rfl
    rw [this]
    cases hr : addPost post (y :: r) with
    | nil =>
      cases r <;> simp [addPost] at hr
    | cons a b =>
      rw [hr] at ih
      simp only [joinSep, ih, List.append_assoc]

theorem join_snoc (sep z : Str) : ∀ l : List Str, l ≠ [] →
    joinSep sep (l ++ [z]) = joinSep sep l ++ sep ++ z
  | [], h => absurd rfl h
  | [x], _ => by simp [joinSep]
  | x :: y :: r, _ => by
    have ih := join_snoc sep z (y :: r) (by simp)
    have e : (x :: y :: r) ++ [z] = x :: ((y :: r) ++ [z]) := rfl
    rw [e]
    cases hr : (y :: r) ++ [z] with
    | nil => simp at hr
    | cons a b =>
      rw [hr] at ih
      simp only [joinSep, ih, List.append_assoc]

theorem addPre_ne_nil (pre : Str) (l : List Str) (h : l ≠ []) : addPre pre l ≠ [] := by
  cases l with
  | nil => exact absurd rfl h
  | cons _ _ => simp [addPre]

theorem addPost_ne_nil (post : Str) : ∀ (l : List Str), l ≠ [] → addPost post l ≠ []
  | [], h => absurd rfl h
  | [x], _ => by simp [addPost]
  | x :: y :: r, _ => by simp [addPost]

theorem mem_addPre {pre x : Str} {l : List Str} (h : x ∈ addPre pre l) :
    (∃ y, y ∈ l ∧ x = pre ++ y) ∨ x ∈ l := by
  cases l with
  | nil => simp [addPre] at h
  | cons a r =>
    simp only [addPre, List.mem_cons] at h
    rcases h with h | h
    · exact Or.inl ⟨a, by simp, h⟩
    · exact Or.inr (List.mem_cons_of_mem _ h)

theorem mem_addPost {post x : Str} : ∀ {l : List Str}, x ∈ addPost post l →
    (∃ y, y ∈ l ∧ x = y ++ post) ∨ x ∈ l
  | [], h => by simp [addPost] at h
  | [a], h => by
    simp only [addPost, List.mem_singleton] at h
    exact Or.inl ⟨a, by simp, h⟩
  | a :: b :: r, h => by
    have e : addPost post (a :: b :: r) = a :: addPost post (b :: r) := rfl
    rw [e, List.mem_cons] at h
    rcases h with h | h
    · exact Or.inr (by simp [h])
    · rcases mem_addPost (l := b :: r) h with ⟨y, hy, hx⟩ | h'
      · exact Or.inl ⟨y, List.mem_cons_of_mem _ hy, hx⟩
      · exact Or.inr (List.mem_cons_of_mem _ h')

/-- the segments of the text of a chain, without / with the trailing `None` of its top level -/
def coreSegs (o : Opts) : GDT → List Str
  | .leaf _ n => [n]
  | .listOf _ d =>
    addPre (listName o ++ ['[']) (addPost [']']
      (coreSegs o d ++ (if d.optional then [sNone] else [])))

def segs (o : Opts) (d : GDT) : List Str := coreSegs o d ++ (if d.optional then [sNone] else [])

/-- the text `type_hint` writes for the node, `|` spelling -/
def optS (b : Bool) (s : Str) : Str := if b then s ++ sPipe ++ sNone else s

def coreB (o : Opts) : GDT → Str
  | .leaf _ n => n
  | .listOf opt d => listName o ++ ['['] ++ optS d.optional (coreB o d) ++ [']']

def textB (o : Opts) (d : GDT) : Str := optS d.optional (coreB o d)

theorem coreSegs_ne_nil (o : Opts) : ∀ d : GDT, coreSegs o d ≠ []
  | .leaf _ n => by simp [coreSegs]
  | .listOf _ d => by
    apply addPre_ne_nil
    apply addPost_ne_nil
    simp [coreSegs_ne_nil o d]

theorem segs_ne_nil (o : Opts) (d : GDT) : segs o d ≠ [] := by
  simp [segs, coreSegs_ne_nil o d]

theorem solid_append {a b : Str} (ha : solid a = true) (hb : solid b = true) : solid (a ++ b) = true := by
  simp only [solid, List.all_append, Bool.and_eq_true] at *
  exact ⟨ha, hb⟩

theorem solid_listName (o : Opts) : solid (listName o ++ ['[']) = true := by
  rcases listName_cases o with h | h | h <;> rw [h] <;> decide

theorem solid_of_plainName {n : Str} (h : plainName n = true) : solid n = true := by
  simp only [plainName, Bool.and_eq_true, Bool.not_eq_true', List.all_eq_true] at h
  simp only [solid, List.all_eq_true, solidC, Bool.and_eq_true, bne_iff_ne, ne_eq, Bool.not_eq_true']
  intro c hc
  have := h.2 c hc
  simp only [special, Bool.or_eq_true, decide_eq_true_eq, not_or, Bool.not_eq_true',
    Bool.or_eq_false_iff, decide_eq_false_iff_not] at this
  exact ⟨this.1.2, this.2⟩

/-- every segment of the core is solid, non-empty, and carries a bracket or is the type name -/
def SegOK (n : Str) (x : Str) : Prop := solid x = true ∧ x ≠ [] ∧ ('[' ∈ x ∨ ']' ∈ x ∨ x = n)

theorem segOK_none_ne {n x : Str} (hn : n ≠ sNone) (h : SegOK n x) : x ≠ sNone := by
  intro e
  subst e
  rcases h.2.2 with h | h | h
  · exact absurd h (by decide)
  · exact absurd h (by decide)
  · exact hn h.symm

theorem addPost_snoc (post z : Str) : ∀ l : List Str, addPost post (l ++ [z]) = l ++ [z ++ post]
  | [] => by simp [addPost]
  | [x] => by simp [addPost]
  | x :: y :: r => by
    have ih := addPost_snoc post z (y :: r)
    have e : (x :: y :: r) ++ [z] = x :: y :: (r ++ [z]) := rfl
    have e' : (y :: r) ++ [z] = y :: (r ++ [z]) := rfl
    rw [e, addPost, ← e', ih]
    · rfl
    · simp

theorem coreSegs_ok (o : Opts) : ∀ d : GDT, okName d.typeName = true →
    ∀ x ∈ coreSegs o d, SegOK d.typeName x
  | .leaf _ n, hn, x, hx => by
    simp only [Dcg.Model.Graphql.DT.typeName] at hn ⊢
    simp only [coreSegs, List.mem_singleton] at hx
    subst hx
    exact ⟨solid_of_plainName (okName_plain hn), okName_ne_nil hn, Or.inr (Or.inr rfl)⟩
  | .listOf _ d, hn, x, hx => by
    simp only [Dcg.Model.Graphql.DT.typeName] at hn ⊢
    have ih := coreSegs_ok o d hn
    simp only [coreSegs] at hx
    have key : ∀ y ∈ addPost [']'] (coreSegs o d ++ (if d.optional then [sNone] else [])),
        SegOK d.typeName y := by
      intro y hy
      cases hopt : d.optional with
      | true =>
        rw [hopt] at hy
        simp only [if_true] at hy
        rw [addPost_snoc] at hy
        rcases List.mem_append.mp hy with hy | hy
        · exact ih y hy
        · simp only [List.mem_singleton] at hy
          subst hy
          exact ⟨by decide, by decide, Or.inr (Or.inl (by decide))⟩
      | false =>
        rw [hopt] at hy
        simp only [Bool.false_eq_true, if_false, List.append_nil] at hy
        rcases mem_addPost hy with ⟨z, hz, rfl⟩ | hy
        · exact ⟨solid_append (ih z hz).1 (by decide), by simp, Or.inr (Or.inl (by simp))⟩
        · exact ih y hy
    rcases mem_addPre hx with ⟨y, hy, rfl⟩ | hx
    · exact ⟨solid_append (solid_listName o) (key y hy).1, by simp, Or.inl (by simp)⟩
    · exact key x hx

/-! ### the texts -/

theorem optS_join (l : List Str) (h : l ≠ []) (b : Bool) :
    optS b (joinSep sPipe l) = joinSep sPipe (l ++ (if b then [sNone] else [])) := by
  cases b with
  | false => simp [optS]
  | true => simp [optS, join_snoc sPipe sNone l h]

theorem coreB_join (o : Opts) : ∀ d : GDT, coreB o d = joinSep sPipe (coreSegs o d)
  | .leaf _ n => by simp [coreB, coreSegs, joinSep]
  | .listOf _ d => by
    have ih := coreB_join o d
    have hne := coreSegs_ne_nil o d
    have hne2 : coreSegs o d ++ (if d.optional then [sNone] else []) ≠ [] := by simp [hne]
    simp only [coreB, coreSegs]
    rw [join_addPre _ _ _ (addPost_ne_nil _ _ hne2), join_addPost _ _ _ hne2, ih, optS_join _ hne]
    simp [List.append_assoc]

theorem removeNoneB_core (o : Opts) (d : GDT) (hn : okName d.typeName = true) :
    removeNoneB (coreB o d) = coreB o d := by
  rw [coreB_join]
  apply removeNoneB_join _ (coreSegs_ne_nil o d)
  · intro s hs
    exact ⟨(coreSegs_ok o d hn s hs).1, (coreSegs_ok o d hn s hs).2.1⟩
  · intro hm
    exact segOK_none_ne (okName_ne_none hn) (coreSegs_ok o d hn _ hm) rfl

theorem mem_bracket_coreB (o : Opts) (d : GDT) (hn : okName d.typeName = true) :
    coreB o d ≠ [] ∧ coreB o d ≠ sNone ∧ coreB o d ≠ sAny := by
  cases d with
  | leaf opt n =>
    simp only [Dcg.Model.Graphql.DT.typeName] at hn
    exact ⟨okName_ne_nil hn, okName_ne_none hn, okName_ne_any hn⟩
  | listOf opt d =>
    have hb : '[' ∈ coreB o (.listOf opt d) := by simp [coreB]
    refine ⟨?_, ?_, ?_⟩ <;> intro e <;> rw [e] at hb <;> exact absurd hb (by decide)

theorem getOptionalType_core (o : Opts) (d : GDT) (hn : okName d.typeName = true) :
    getOptionalType true (coreB o d) = coreB o d ++ sPipe ++ sNone := by
  obtain ⟨h1, h2, _⟩ := mem_bracket_coreB o d hn
  simp [getOptionalType, removeNone, removeNoneB_core o d hn, h1, h2]

theorem finishOf_core (o : Opts) (d : GDT) (hn : okName d.typeName = true) (opt : Bool) :
    finishOf true (coreB o d) opt = (optS opt (coreB o d), opt) := by
  obtain ⟨_, _, h3⟩ := mem_bracket_coreB o d hn
  cases opt with
  | false => simp [finishOf, optS]
  | true => simp [finishOf, optS, h3, getOptionalType_core o d hn]

theorem textB_ne_nil (o : Opts) (d : GDT) (hn : okName d.typeName = true) : textB o d ≠ [] := by
  obtain ⟨h1, _, _⟩ := mem_bracket_coreB o d hn
  unfold textB
  cases d.optional <;> simp [optS, h1, sNone]

theorem hintNode_leaf (o : Opts) (ho : o.unionOp = true) (opt : Bool) (n : Str) (r : Option Ref)
    (hr : ∀ x, r = some x → x.nullable = false) (hne : n ≠ []) :
    hintNode o { ty := n, isOptional := opt, ref := r } none [] = finishOf true n opt := by
  have : refNullable { ty := n, isOptional := opt, ref := r } = false := by
    cases r with
    | none => rfl
    | some x => simpa [refNullable] using hr x rfl
  simp [hintNode, baseOf, containerOf, this, hne, ho]

theorem hintNode_list (o : Opts) (ho : o.unionOp = true) (opt : Bool) (h : Str) (hh : h ≠ []) :
    hintNode o { isList := true, isOptional := opt } none [h] =
      finishOf true (listName o ++ ['['] ++ h ++ [']']) opt := by
  simp [hintNode, baseOf, containerOf, wrap1, refNullable, hh, ho]

/-- `DataType.type_hint` on a chain, `|` spelling -/
theorem typeHint_chainB (o : Opts) (ho : o.unionOp = true) (isEnum : Str → Bool) :
    ∀ d : GDT, okName d.typeName = true → typeHint o (toTypes isEnum d) = (textB o d, d.optional)
  | .leaf opt n, hn => by
    have hfin := finishOf_core o (.leaf opt n) hn opt
    simp only [Dcg.Model.Graphql.DT.typeName] at hn
    have hne := okName_ne_nil hn
    simp only [toTypes, typeHint, typeHintO, typeHintL]
    rw [hintNode_leaf o ho opt n _ (by intro x hx; split at hx <;> simp at hx; subst hx; rfl) hne]
    exact hfin
  | .listOf opt d, hn => by
    have hfin := finishOf_core o (.listOf opt d) hn opt
    simp only [Dcg.Model.Graphql.DT.typeName] at hn
    have ih := typeHint_chainB o ho isEnum d hn
    have hp := textB_ne_nil o d hn
    simp only [toTypes, typeHint, typeHintO, typeHintL, ih]
    rw [hintNode_list o ho opt _ hp]
    exact hfin


/-! ### the member level, `|` spelling -/

theorem coreB_setOpt (o : Opts) (b : Bool) (d : GDT) : coreB o (setOpt b d) = coreB o d := by
  cases d <;> rfl

theorem fieldHint_chainB (o : Opts) (ho : o.unionOp = true) (isEnum : Str → Bool) (d : GDT)
    (hn : okName d.typeName = true) (r : Bool) :
    fieldTypeHint o { required := r } (toTypes isEnum d) =
      textB o (if d.optional || r then d else setOpt true d) := by
  have h := typeHint_chainB o ho isEnum d hn
  have hne := textB_ne_nil o d hn
  have hty := attrs_ty_ne_any isEnum d hn
  unfold fieldTypeHint
  simp only [h, ho]
  cases hopt : d.optional with
  | true => simp [fieldDecide, hne, hty]
  | false =>
    cases r with
    | true => simp [fieldDecide, hne]
    | false =>
      have hc : textB o d = coreB o d := by simp [textB, hopt, optS]
      have hs : textB o (setOpt true d) = coreB o d ++ sPipe ++ sNone := by
        simp [textB, optional_setOpt, coreB_setOpt, optS]
      simp only [fieldDecide, hne, if_false, Bool.false_eq_true, false_and, or_self, Bool.or_false]
      rw [hc, getOptionalType_core o d hn, hs]
      simp

theorem annotationB_eq (o : Opts) (ho : o.unionOp = true) (isEnum : Str → Bool) (fo : Bool) (t : GType)
    (hwf : t.wf = true) (hn : okName t.baseName = true) :
    annotation o isEnum fo t = textB o (unroll (declared fo t) true) := by
  have hn' : okName (unroll t true).typeName = true := by
    rw [Dcg.Proofs.Graphql.unroll_typeName]; exact hn
  unfold annotation
  simp only [parseField, fieldBits]
  rw [fieldHint_chainB o ho isEnum _ hn', ← member_chain fo t hwf]

/-! ### the expression the text prints, and what it denotes -/

def optBE (b : Bool) (e : TExpr) : TExpr := if b then .bor [e, eNone] else e

def coreBE (o : Opts) : GDT → TExpr
  | .leaf _ n => .atom n
  | .listOf _ d => .app (listName o) [optBE d.optional (coreBE o d)]

/-- the PEP 604 expression of a chain: `X | None` for a nullable level -/
def chainB (o : Opts) (d : GDT) : TExpr := optBE d.optional (coreBE o d)

theorem print_optBE (b : Bool) (e : TExpr) : print (optBE b e) = optS b (print e) := by
  cases b with
  | false => rfl
  | true => simp [optBE, optS, print, printL, eNone, Dcg.Sem.Typing.sPipe, sPipe, Dcg.Sem.Typing.sNone, sNone]

theorem print_coreBE (o : Opts) : ∀ d : GDT, print (coreBE o d) = coreB o d
  | .leaf _ n => by simp [coreBE, coreB, print]
  | .listOf _ d => by
    simp [coreBE, coreB, print, printL, print_optBE, print_coreBE o d]

theorem print_chainB (o : Opts) (d : GDT) : print (chainB o d) = textB o d := by
  simp [chainB, textB, print_optBE, print_coreBE]

theorem denote_bor_none (e : TExpr) (x : Ty) (ha : alts e = [x]) :
    denote (.bor [e, eNone]) = .union [x] true := by
  have h1 : alts (.bor [e, eNone]) = alts e := by
    simp [alts, altsL, eNone]
  have h2 : hasNone (.bor [e, eNone]) = true := by simp [hasNone, hasNoneL, eNone]
  unfold denote
  rw [h1, h2, ha, mkTy_single_true]

theorem denote_chainB (o : Opts) : ∀ d : GDT, okName d.typeName = true →
    alts (coreBE o d) = [coreTy d] ∧ hasNone (coreBE o d) = false ∧ denote (chainB o d) = denChain d
  | .leaf opt n, hn => by
    simp only [Dcg.Model.Graphql.DT.typeName] at hn
    have h1 : n ≠ Dcg.Sem.Typing.sNone := okName_ne_none hn
    have hb := okName_normBare hn
    have ha : alts (.atom n) = [Ty.atom n] := by simp [alts, h1, hb]
    have hh : hasNone (.atom n) = false := by simp [hasNone, h1]
    refine ⟨by simpa [coreBE, coreTy] using ha, by simpa [coreBE] using hh, ?_⟩
    cases opt with
    | false => simpa [chainB, coreBE, optBE, denChain, withNone, Dcg.Model.Graphql.DT.optional] using denote_plain _ _ ha hh
    | true => simpa [chainB, coreBE, optBE, denChain, withNone, Dcg.Model.Graphql.DT.optional] using denote_bor_none _ _ ha
  | .listOf opt d, hn => by
    simp only [Dcg.Model.Graphql.DT.typeName] at hn
    obtain ⟨_, _, ih⟩ := denote_chainB o d hn
    have hd : denoteL [chainB o d] = [denChain d] := by
      have : denote (chainB o d) = mkTy (alts (chainB o d)) (hasNone (chainB o d)) := rfl
      simp [denoteL, ← this, ih]
    have hfold : optBE d.optional (coreBE o d) = chainB o d := rfl
    have ha : alts (.app (listName o) [chainB o d]) = [Ty.app nList [denChain d]] := by
      simp [alts, listName_ne_optional o, listName_ne_union o, normHead_listName o, hd]
    have hh : hasNone (.app (listName o) [chainB o d]) = false := by
      simp [hasNone, listName_ne_optional o, listName_ne_union o]
    refine ⟨by simpa [coreBE, coreTy, hfold] using ha, by simpa [coreBE, hfold] using hh, ?_⟩
    cases opt with
    | false =>
      simpa [chainB, coreBE, optBE, denChain, withNone, Dcg.Model.Graphql.DT.optional, hfold] using denote_plain _ _ ha hh
    | true =>
      simpa [chainB, coreBE, optBE, denChain, withNone, Dcg.Model.Graphql.DT.optional, hfold] using denote_bor_none _ _ ha

end Dcg.Proofs.GraphqlBridgeOp
