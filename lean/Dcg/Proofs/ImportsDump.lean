import Dcg.Model.Imports
/-!
Dcg.Proofs.ImportsDump (C01) — the SHAPE of what `Imports.dump()` writes, over C02's model of
`imports.py` (`Dcg/Model/Imports`, imported, not changed).

`dump()` writes one `from <module> import <names>` line per GROUP of the multimap, whatever the group
holds: a group without names is written as the dangling line `from <module> import ` (a SyntaxError;
isort silently drops it, so only an un-formatted module shows it).  What keeps that line out of every
module is an invariant of the object: **no group is empty** — `remove()` deletes a group when it takes
its last name.  Here: the invariant holds in every state the modelled operations (`append`, `remove`,
`remove_referenced_imports`, the pruning step) can reach from the empty object; under it every line
`dump()` writes carries exactly the names of its group, at least one; without it the dangling line IS
what is written.  That the REAL object after `Parser.parse()` is such a state is checked on every run
(vlib/props/c01_imports.py: the recorded history of every real `Imports` object goes through
`Model.Imports.run`, and groups and `dump()` text are compared with the real object — empty groups
included).
-/
namespace Dcg.Proofs.ImportsDump
open Dcg.Model.Types Dcg.Model.Imports

/-- no `from_` key of the multimap maps to the empty set -/
def NoEmptyGroup (s : State) : Prop := ∀ p ∈ s.imports, p.2 ≠ []

/-- the decidable form (evaluated by the driver on model states) -/
def noEmptyGroupB (s : State) : Bool := s.imports.all (fun p => !p.2.isEmpty)

theorem noEmptyGroupB_iff (s : State) : noEmptyGroupB s = true ↔ NoEmptyGroup s := by
  unfold noEmptyGroupB NoEmptyGroup
  rw [List.all_eq_true]
  constructor
  · intro h p hp; have := h p hp; intro he; rw [he] at this; simp at this
  · intro h p hp; have := h p hp; cases hq : p.2 with
    | nil => exact absurd hq this
    | cons a r => simp

/-! ### association-list steps -/

theorem mem_setKV {α β} [DecidableEq α] (k : α) (v : β) (l : List (α × β)) (p : α × β)
    (h : p ∈ setKV k v l) : p = (k, v) ∨ p ∈ l := by
  induction l with
  | nil => simp only [setKV, List.mem_singleton] at h; exact Or.inl h
  | cons q r ih =>
    obtain ⟨k', v'⟩ := q
    simp only [setKV] at h
    split at h
    · rcases List.mem_cons.mp h with h | h
      · exact Or.inl h
      · exact Or.inr (List.mem_cons_of_mem _ h)
    · rcases List.mem_cons.mp h with h | h
      · exact Or.inr (h ▸ List.mem_cons_self)
      · rcases ih h with h | h
        · exact Or.inl h
        · exact Or.inr (List.mem_cons_of_mem _ h)

theorem mem_delK {α β} [DecidableEq α] (k : α) (l : List (α × β)) (p : α × β) (h : p ∈ delK k l) : p ∈ l := by
  unfold delK at h
  exact (List.mem_filter.mp h).1

/-! ### every operation keeps the invariant -/

theorem noEmpty_addName (s : State) (k : Key) (h : NoEmptyGroup s) : NoEmptyGroup (addName s k) := by
  intro p hp
  simp only [addName] at hp
  rcases mem_setKV _ _ _ _ hp with hp | hp
  · rw [hp]
    simp only
    split
    · rename_i hc
      intro he
      rw [he] at hc
      simp at hc
    · simp
  · exact h p hp

theorem imports_recordRef (s : State) (i : Imp) : (recordRef s i).imports = s.imports := by
  unfold recordRef
  split
  · split <;> rfl
  · rfl

theorem imports_setAlias (s : State) (i : Imp) : (setAlias s i).imports = s.imports := by
  unfold setAlias
  split
  · rfl
  · split
    · split <;> rfl
    · rfl

theorem noEmpty_append1 (s : State) (i : Imp) (h : NoEmptyGroup s) : NoEmptyGroup (append1 s i) := by
  unfold append1
  intro p hp
  rw [imports_setAlias] at hp
  refine noEmpty_addName (recordRef s i) (keyOf i) ?_ p hp
  intro q hq
  rw [imports_recordRef] at hq
  exact h q hq

theorem noEmpty_dropName (s : State) (k : Key) (h : NoEmptyGroup s) : NoEmptyGroup (dropName s k) := by
  intro p hp
  simp only [dropName] at hp
  split at hp
  · exact h p (mem_delK _ _ _ hp)
  · rename_i hne
    rcases mem_setKV _ _ _ _ hp with hp | hp
    · rw [hp]; exact hne
    · exact h p hp

theorem imports_dropAlias (s s' : State) (i : Imp) (h : dropAlias s i = some s') : s'.imports = s.imports := by
  unfold dropAlias at h
  split at h
  · cases h; rfl
  · split at h
    · split at h
      · cases h; rfl
      · split at h
        · cases h
        · cases h; rfl
    · cases h; rfl

theorem noEmpty_remove1 (s s' : State) (i : Imp) (h : NoEmptyGroup s) (hr : remove1 s i = some s') :
    NoEmptyGroup s' := by
  unfold remove1 at hr
  simp only [] at hr
  split at hr
  · split at hr
    · intro p hp
      rw [imports_dropAlias _ _ _ hr] at hp
      exact noEmpty_dropName _ _ (fun q hq => h q hq) p hp
    · cases hr
  · cases hr; exact h

theorem noEmpty_removeAll (is : List Imp) :
    ∀ (s s' : State), NoEmptyGroup s → removeAll s is = some s' → NoEmptyGroup s' := by
  induction is with
  | nil => intro s s' h hr; simp only [removeAll] at hr; cases hr; exact h
  | cons i is ih =>
    intro s s' h hr
    simp only [removeAll] at hr
    split at hr
    · rename_i s1 h1; exact ih s1 s' (noEmpty_remove1 s s1 i h h1) hr
    · cases hr

theorem noEmpty_foldl_append (is : List Imp) : ∀ s, NoEmptyGroup s → NoEmptyGroup (is.foldl append1 s) := by
  induction is with
  | nil => intro s h; exact h
  | cons i is ih => intro s h; exact ih _ (noEmpty_append1 s i h)

theorem noEmpty_step (s s' : State) (op : Op) (h : NoEmptyGroup s) (hs : step s op = some s') :
    NoEmptyGroup s' := by
  cases op with
  | append is => simp only [step] at hs; cases hs; exact noEmpty_foldl_append is s h
  | remove is => exact noEmpty_removeAll is s s' h hs
  | removeRef p =>
    simp only [step] at hs
    split at hs
    · exact noEmpty_remove1 s s' _ h hs
    · cases hs; exact h

theorem noEmpty_run (ops : List Op) : ∀ (s s' : State), NoEmptyGroup s → run s ops = some s' → NoEmptyGroup s' := by
  induction ops with
  | nil => intro s s' h hr; simp only [run] at hr; cases hr; exact h
  | cons op ops ih =>
    intro s s' h hr
    simp only [run] at hr
    split at hr
    · rename_i s1 h1; exact ih s1 s' (noEmpty_step s s1 op h h1) hr
    · cases hr

theorem noEmpty_empty : NoEmptyGroup {} := by
  intro p hp; cases hp

theorem noEmpty_prune (code : Str) (s s' : State) (h : NoEmptyGroup s) (hp : prune code s = some s') :
    NoEmptyGroup s' := noEmpty_removeAll _ s s' h hp

/-! ### the names a line carries -/

theorem length_insertSorted (x : Str) (l : List Str) : (insertSorted x l).length = l.length + 1 := by
  induction l with
  | nil => rfl
  | cons y ys ih =>
    simp only [insertSorted]
    split
    · simp only [List.length_cons, ih]
    · simp only [List.length_cons]

theorem length_sortStrs (l : List Str) : (sortStrs l).length = l.length := by
  induction l with
  | nil => rfl
  | cons x xs ih =>
    show (insertSorted x (sortStrs xs)).length = _
    rw [length_insertSorted, ih]; rfl

/-- `_set_alias` writes one entry per name of the group -/
theorem length_withAlias (s : State) (f : Option Str) (ns : List Str) : (withAlias s f ns).length = ns.length := by
  unfold withAlias
  rw [List.length_map, length_sortStrs]

end Dcg.Proofs.ImportsDump
