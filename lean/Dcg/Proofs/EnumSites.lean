import Dcg.Proofs.Enum
import Dcg.Props.C07
/-
Helper lemmas for C09 (call sites of the enum resolver): the member loop `foldMembers` started from ANY
initial excludes set. They rest on C07's theorems about one call of the resolver.
-/
namespace Dcg.Proofs.EnumSites
open Dcg.Model.Names Dcg.Model.Enum Dcg.Proofs.Names Dcg.Proofs.Enum Dcg.Py.Ident

/-- the member loop from ANY initial excludes: when `mro` is reserved — by the resolver itself
(`resolverExcludes`) or by the set the caller starts from — every member name is an identifier, no keyword, not
`mro`, does not start with `_`; the names are pairwise distinct and none is one of the initial excludes -/
theorem fold_names_legal_distinct {E : Env} {cfg : Cfg} {o : EnumObj} (hp : PrefixOK cfg) (hE : CaseOK E)
    (init : List (List Char)) (hmro : mro ∈ Dcg.Gen.EnumSites.resolverExcludes ++ init)
    (vs : List JVal) (i : Nat) (ms : List Member) (h : foldMembers E cfg o vs i init = .ok ms) :
    (∀ m ∈ ms, isIdentifier m.1 = true ∧ isKeyword m.1 = false ∧ m.1 ≠ mro ∧ m.1.head? ≠ some '_') ∧
    (ms.map (·.1)).Pairwise (· ≠ ·) ∧ ∀ m ∈ ms, m.1 ∉ init := by
  have := members_names
    (fun r => isIdentifier r = true ∧ isKeyword r = false ∧
      (∀ x ∈ Dcg.Gen.EnumSites.resolverExcludes, r ≠ x) ∧ r.head? ≠ some '_')
    (fun src excl r hr => by
      have hl := Dcg.Props.C07.result_legal E .enum cfg src excl false false (prefixStart_of_prefixOK hp) hE r hr
      exact ⟨hl.1, hl.2.1, hl.2.2.2 rfl,
        Dcg.Props.C07.result_no_leading_underscore E .enum cfg src excl false hp hE r hr⟩)
    vs i init ms h
  obtain ⟨h1, h2, h3⟩ := this
  refine ⟨?_, h2, h3⟩
  intro m hm
  obtain ⟨a, b, c, d⟩ := h1 m hm
  refine ⟨a, b, ?_, d⟩
  rcases List.mem_append.mp hmro with hmro | hmro
  · exact c mro hmro
  · intro heq; exact h3 m hm (heq ▸ hmro)

/-- the member loop never runs out of fuel, whatever the initial excludes -/
theorem fold_terminates {E : Env} {cfg : Cfg} {o : EnumObj} (hp : PrefixStart cfg) (hE : CaseOK E) :
    ∀ (vs : List JVal) (i : Nat) (excl : List (List Char)), foldMembers E cfg o vs i excl ≠ .outOfFuel := by
  intro vs
  induction vs with
  | nil => intro i excl h; simp [foldMembers] at h
  | cons v vs ih =>
    intro i excl h
    rw [foldMembers] at h
    split at h
    · rename_i src _
      split at h
      · rename_i n _
        cases hr : foldMembers E cfg o vs (i + 1) (n :: excl) with
        | ok _ => rw [hr] at h; simp [Res.map] at h
        | outOfFuel => exact ih _ _ hr
        | error => rw [hr] at h; simp [Res.map] at h
      · rename_i hn
        exact Dcg.Props.C07.retry_terminates E .enum cfg src excl false false hp hE hn
      · cases h
    · rename_i hs
      unfold nameSource at hs
      repeat' split at hs
      all_goals cases hs
    · cases h

/-- GraphQL site: the member defaults are the quoted literals of the value names, in order -/
theorem graphql_fold_defaults {E : Env} {cfg : Cfg} (all : List (List Char)) :
    ∀ (names : List (List Char)) (i : Nat) (excl : List (List Char)) (ms : List Member),
      foldMembers E cfg (graphqlObj all) (names.map .str) i excl = .ok ms →
      ms.map (·.2) = names.map (fun n => memberDefault (.str n)) := by
  intro names i excl ms h
  have := members_defaults _ _ _ _ h
  rw [this, List.map_map]
  rfl

end Dcg.Proofs.EnumSites
