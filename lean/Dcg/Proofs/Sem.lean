import Dcg.Sem.Pyd
/-
Helper lemmas for C03 / C04 / C14: three-valued logic, association lists, the constraint tables
as a decidable side condition (`tableOK`), and one lemma per schema constructor for
`valid_accepted`.
-/
namespace Dcg.Proofs.Sem
open Dcg.Sem Dcg.Sem.Pyd Dcg.Model.Constraints Dcg.Model.Translate

/-! ### Tri -/

theorem and_ne_reject {a b : Tri} : Tri.and a b ≠ .reject ↔ a ≠ .reject ∧ b ≠ .reject := by
  cases a <;> cases b <;> simp [Tri.and]

theorem all_ne_reject {xs : List Tri} : Tri.all xs ≠ .reject ↔ ∀ x ∈ xs, x ≠ .reject := by
  induction xs with
  | nil => simp [Tri.all]
  | cons x xs ih =>
    have : Tri.all (x :: xs) = Tri.and x (Tri.all xs) := rfl
    rw [this, and_ne_reject, ih]
    simp

theorem or_ne_reject {a b : Tri} : Tri.or a b ≠ .reject ↔ a ≠ .reject ∨ b ≠ .reject := by
  cases a <;> cases b <;> simp [Tri.or]

theorem any_ne_reject {xs : List Tri} : Tri.any xs ≠ .reject ↔ ∃ x ∈ xs, x ≠ .reject := by
  induction xs with
  | nil => simp [Tri.any]
  | cons x xs ih =>
    have : Tri.any (x :: xs) = Tri.or x (Tri.any xs) := rfl
    rw [this, or_ne_reject, ih]
    simp

theorem ofBool_ne_reject {b : Bool} : Tri.ofBool b ≠ .reject ↔ b = true := by
  cases b <;> simp [Tri.ofBool]

/-! ### association lists -/

theorem lookup_mem {α : Type} (kvs : List (List Char × α)) (k : List Char) (v : α)
    (h : kvs.lookup k = some v) : (k, v) ∈ kvs := by
  induction kvs with
  | nil => simp [List.lookup] at h
  | cons p ps ih =>
    obtain ⟨k', v'⟩ := p
    simp only [List.lookup] at h
    split at h
    · rename_i heq
      have : k = k' := by simpa using heq
      simp at h
      subst this; subst h
      simp
    · exact List.mem_cons_of_mem _ (ih h)

theorem mem_lookup_of_nodup {α : Type} (ps : List (List Char × α)) (k : List Char) (v : α)
    (hn : namesNodup (ps.map (·.1)) = true) (h : (k, v) ∈ ps) : ps.lookup k = some v := by
  induction ps with
  | nil => simp at h
  | cons p ps ih =>
    obtain ⟨k', v'⟩ := p
    simp only [List.map, namesNodup, Bool.and_eq_true, Bool.not_eq_true'] at hn
    simp only [List.mem_cons, Prod.mk.injEq] at h
    cases h with
    | inl h =>
      obtain ⟨rfl, rfl⟩ := h
      simp [List.lookup]
    | inr h =>
      have hne : k ≠ k' := by
        intro heq
        subst heq
        have : (ps.map (·.1)).contains k = true := by
          simp only [List.contains_iff_mem, List.mem_map]
          exact ⟨(k, v), h, rfl⟩
        rw [this] at hn
        exact absurd hn.1 (by simp)
      simp only [List.lookup]
      have : (k == k') = false := by simpa using hne
      rw [this]
      exact ih hn.2 h

theorem lookup_trDefs (st : Style) (o : Opts) (defs : Defs) (n : List Char) :
    (trDefs st o defs).lookup n = (defs.lookup n).map (tr st o .top) := by
  induction defs with
  | nil => simp [trDefs, List.lookup]
  | cons p ps ih =>
    simp only [trDefs, List.lookup]
    split <;> simp_all

theorem propsInSubset_mem {ps : List (List Char × Schema)} (h : Schema.propsInSubset ps = true)
    {p : List Char × Schema} (hp : p ∈ ps) : p.2.inSubset = true := by
  induction ps with
  | nil => simp at hp
  | cons q qs ih =>
    simp only [Schema.propsInSubset, Bool.and_eq_true] at h
    cases List.mem_cons.mp hp with
    | inl e => subst e; exact h.1
    | inr e => exact ih h.2 e

theorem allInSubset_mem {ss : List Schema} (h : Schema.allInSubset ss = true)
    {s : Schema} (hs : s ∈ ss) : s.inSubset = true := by
  induction ss with
  | nil => simp at hs
  | cons q qs ih =>
    simp only [Schema.allInSubset, Bool.and_eq_true] at h
    cases List.mem_cons.mp hs with
    | inl e => subst e; exact h.1
    | inr e => exact ih h.2 e

theorem defs_lookup_inSubset {defs : Defs} (h : defsInSubset defs = true) {n : List Char}
    {s : Schema} (hl : defs.lookup n = some s) : s.inSubset = true :=
  propsInSubset_mem (p := (n, s)) h (lookup_mem defs n s hl)

theorem trAlts_eq_map (st : Style) (o : Opts) (alts : List Schema) :
    trAlts st o alts = alts.map (tr st o (.item false)) := by
  induction alts with
  | nil => simp [trAlts]
  | cons a as ih => simp [trAlts, ih]

theorem trProps_eq_map (st : Style) (o : Opts) (req : List (List Char))
    (ps : List (List Char × Schema)) :
    trProps st o req ps = ps.map (fun p =>
      (p.1, req.contains p.1 && !constDefaulted st p.2, fieldCons st o p.2, tr st o .plain p.2)) := by
  induction ps with
  | nil => simp [trProps]
  | cons a as ih => simp [trProps, ih]

end Dcg.Proofs.Sem

namespace Dcg.Proofs.Sem
open Dcg.Sem Dcg.Sem.Pyd Dcg.Model.Constraints Dcg.Model.Translate

/-! ### the constraint tables as a decidable side condition -/

def patKw : Style → String
  | .v1 => "regex"
  | .v2 => "pattern"

def minItemsKw : Style → String
  | .v1 => "min_items"
  | .v2 => "min_length"

def maxItemsKw : Style → String
  | .v1 => "max_items"
  | .v2 => "max_length"

/-- What `valid_accepted` needs from the generated tables (`kwargs_schema_to_model`, the filter
sets, the `Constraints` alias maps): every supported keyword is routed to the pydantic keyword
that enforces it. Decidable; re-checked by the kernel against the tables of the current tree. -/
def TableOK (st : Style) : Prop :=
  (conTypeKw st .int "minimum" = some "ge" ∧ conTypeKw st .int "maximum" = some "le" ∧
   conTypeKw st .int "exclusiveMinimum" = some "gt" ∧ conTypeKw st .int "exclusiveMaximum" = some "lt" ∧
   conTypeKw st .int "multipleOf" = some "multiple_of") ∧
  (conTypeKw st .num "minimum" = some "ge" ∧ conTypeKw st .num "maximum" = some "le" ∧
   conTypeKw st .num "exclusiveMinimum" = some "gt" ∧ conTypeKw st .num "exclusiveMaximum" = some "lt" ∧
   conTypeKw st .num "multipleOf" = some "multiple_of") ∧
  (conTypeKw st .str "minLength" = some "min_length" ∧ conTypeKw st .str "maxLength" = some "max_length" ∧
   conTypeKw st .str "pattern" = some (patKw st)) ∧
  (fieldKw st "minimum" = some "ge" ∧ fieldKw st "maximum" = some "le" ∧
   fieldKw st "exclusiveMinimum" = some "gt" ∧ fieldKw st "exclusiveMaximum" = some "lt" ∧
   fieldKw st "multipleOf" = some "multiple_of") ∧
  (fieldKw st "minLength" = some "min_length" ∧ fieldKw st "maxLength" = some "max_length" ∧
   fieldKw st "pattern" = some (patKw st)) ∧
  (fieldKw st "minItems" = some (minItemsKw st) ∧ fieldKw st "maxItems" = some (maxItemsKw st)) ∧
  (extraOf st .absent ≠ .forbid ∧ extraOf st .allow ≠ .forbid) ∧
  extraOf st .forbid = .forbid

instance (st : Style) : Decidable (TableOK st) := by unfold TableOK; infer_instance

theorem ofInt_trunc_of_integral (v : Dec) (h : (v.e == 0) = true) : Dec.ofInt v.trunc = v := by
  obtain ⟨m, e⟩ := v
  have : e = 0 := by simpa using h
  subst this
  simp [Dec.ofInt, Dec.trunc]

theorem checkNum_empty (x : Dec) : checkNum {} x = true := by simp [checkNum]

theorem checkStr_empty (st : Style) (re : Regex) (s : List Char) : checkStr st re {} s = true := by
  cases st <;> simp [checkStr, patOf]

theorem checkLen_empty (st : Style) (n : Nat) : checkLen st {} n = true := by
  cases st <;> simp [checkLen]

theorem checkCons_empty (st : Style) (re : Regex) (v : Json) : checkCons st re {} v = .accept := by
  cases v <;> simp [checkCons, checkNum_empty, checkStr_empty, checkLen_empty, Tri.ofBool]

end Dcg.Proofs.Sem

namespace Dcg.Proofs.Sem
open Dcg.Sem Dcg.Sem.Pyd Dcg.Model.Constraints Dcg.Model.Translate

/-! ### constraints written through the tables are the constraints of the schema -/

theorem checkNum_consOfBounds (route : String → Option String) (cast : String → Dec → Dec)
    (b : Bounds) (x : Dec)
    (h1 : route "minimum" = some "ge") (h2 : route "maximum" = some "le")
    (h3 : route "exclusiveMinimum" = some "gt") (h4 : route "exclusiveMaximum" = some "lt")
    (h5 : route "multipleOf" = some "multiple_of")
    (hns : b.noString = true)
    (hc : ∀ pk d, (d ∈ b.minimum ∨ d ∈ b.maximum ∨ d ∈ b.exclMin ∨ d ∈ b.exclMax ∨ d ∈ b.multipleOf) → cast pk d = d) :
    checkNum (consOfBounds route cast b) x = numOK b x := by
  obtain ⟨mn, mx, xmn, xmx, mul, minl, maxl, pat⟩ := b
  simp only [Bounds.noString, Bool.and_eq_true, Option.isNone_iff_eq_none] at hns
  obtain ⟨⟨rfl, rfl⟩, rfl⟩ := hns
  cases mn <;> cases mx <;> cases xmn <;> cases xmx <;> cases mul <;>
    simp_all [consOfBounds, put, Cons.set, checkNum, numOK]

theorem checkStr_consOfBounds (st : Style) (re : Regex) (route : String → Option String)
    (cast : String → Dec → Dec) (b : Bounds) (s : List Char)
    (h1 : route "minLength" = some "min_length") (h2 : route "maxLength" = some "max_length")
    (h3 : route "pattern" = some (patKw st)) (hnn : b.noNumeric = true) :
    checkStr st re (consOfBounds route cast b) s = strOK re b s := by
  obtain ⟨mn, mx, xmn, xmx, mul, minl, maxl, pat⟩ := b
  simp only [Bounds.noNumeric, Bool.and_eq_true, Option.isNone_iff_eq_none] at hnn
  obtain ⟨⟨⟨⟨rfl, rfl⟩, rfl⟩, rfl⟩, rfl⟩ := hnn
  cases st <;> cases minl <;> cases maxl <;> cases pat <;>
    simp_all [consOfBounds, put, Cons.set, checkStr, strOK, patKw, patOf]

theorem checkLen_consOfItems (st : Style) (route : String → Option String) (mn mx : Option Nat)
    (n : Nat) (h1 : route "minItems" = some (minItemsKw st))
    (h2 : route "maxItems" = some (maxItemsKw st)) :
    checkLen st (consOfItems route mn mx) n = lenOK mn mx n := by
  cases st <;> cases mn <;> cases mx <;>
    simp_all [consOfItems, put, Cons.set, checkLen, lenOK, minItemsKw, maxItemsKw]

theorem castValue_integral (r : Routing) (fam : Fam) (pk : String) (d : Dec)
    (h : (d.e == 0) = true) : castValue r fam pk d = d := by
  cases fam <;> cases r <;> simp [castValue, ofInt_trunc_of_integral d h] <;> split <;> simp

theorem integral_mem (b : Bounds) (h : b.integral = true) (d : Dec)
    (hd : d ∈ b.minimum ∨ d ∈ b.maximum ∨ d ∈ b.exclMin ∨ d ∈ b.exclMax ∨ d ∈ b.multipleOf) :
    (d.e == 0) = true := by
  simp only [Bounds.integral, decIntegral, Bool.and_eq_true] at h
  obtain ⟨⟨⟨⟨h1, h2⟩, h3⟩, h4⟩, h5⟩ := h
  rcases hd with hd | hd | hd | hd | hd <;> simp only [Option.mem_def] at hd
  · rw [hd] at h1; simpa using h1
  · rw [hd] at h2; simpa using h2
  · rw [hd] at h3; simpa using h3
  · rw [hd] at h4; simpa using h4
  · rw [hd] at h5; simpa using h5

end Dcg.Proofs.Sem

namespace Dcg.Proofs.Sem
open Dcg.Sem Dcg.Sem.Pyd Dcg.Model.Constraints Dcg.Model.Translate

/-! ### scalars -/

/-- the constrained type accepts every non-null value the scalar schema admits -/
theorem acceptsScalar_typeCons (st : Style) (o : Opts) (re : Regex) (h : TableOK st) (ty : STy)
    (b : Bounds) (v : Json) (hok : scalarOK ty b = true) (hv : validScalar re ty b v = true) :
    acceptsScalar st re ty (typeCons st o ty b) v ≠ .reject := by
  obtain ⟨⟨i1, i2, i3, i4, i5⟩, ⟨n1, n2, n3, n4, n5⟩, ⟨s1, s2, s3⟩, _, _, _, _, _⟩ := h
  unfold typeCons
  cases hfc : o.fieldConstraints
  · -- constrained types
    cases ty <;> cases v <;> simp [validScalar] at hv <;>
      simp only [scalarOK, Bool.and_eq_true] at hok <;>
      simp only [famOf, acceptsScalar, Bool.false_eq_true, if_false]
    · obtain ⟨hi, hn⟩ := hv
      rw [checkNum_consOfBounds _ _ _ _ i1 i2 i3 i4 i5 hok.1
        (fun pk d hd => castValue_integral _ _ _ _ (integral_mem _ hok.2 d hd))]
      simp [hi, hn, Tri.ofBool]
    · rw [checkNum_consOfBounds _ _ _ _ n1 n2 n3 n4 n5 hok (fun pk d _ => by simp [castValue])]
      simp [hv, Tri.ofBool]
    · rw [checkStr_consOfBounds st re _ _ _ _ s1 s2 s3 hok]
      simp [hv, Tri.ofBool]
    · simp
  · cases ty <;> cases v <;> simp [validScalar] at hv <;>
      simp [acceptsScalar, checkNum_empty, checkStr_empty, Tri.ofBool, hv]

/-- the `Field()` arguments of a scalar member accept every non-null value the schema admits -/
theorem checkCons_fieldConsOfBounds (st : Style) (re : Regex) (h : TableOK st) (ty : STy)
    (b : Bounds) (v : Json) (hok : scalarOK ty b = true) (hv : validScalar re ty b v = true) :
    checkCons st re (fieldConsOfBounds st ty b) v ≠ .reject := by
  obtain ⟨_, _, _, ⟨f1, f2, f3, f4, f5⟩, ⟨g1, g2, g3⟩, _, _, _⟩ := h
  unfold fieldConsOfBounds
  cases ty <;> cases v <;> simp [validScalar] at hv <;>
    simp only [scalarOK, Bool.and_eq_true] at hok <;>
    simp only [famOf, checkCons, Option.getD]
  · rw [checkNum_consOfBounds _ _ _ _ f1 f2 f3 f4 f5 hok.1
      (fun pk d hd => castValue_integral _ _ _ _ (integral_mem _ hok.2 d hd))]
    simp [hv.2, Tri.ofBool]
  · rw [checkNum_consOfBounds _ _ _ _ f1 f2 f3 f4 f5 hok (fun pk d _ => by simp [castValue])]
    simp [hv, Tri.ofBool]
  · rw [checkStr_consOfBounds st re _ _ _ _ g1 g2 g3 hok]
    simp [hv, Tri.ofBool]
  · simp

end Dcg.Proofs.Sem

namespace Dcg.Proofs.Sem
open Dcg.Sem Dcg.Sem.Pyd Dcg.Model.Constraints Dcg.Model.Translate

/-! ### `valid_accepted`: one lemma per schema constructor -/

section
variable (st : Style) (o : Opts) (re : Regex) (defs : Defs)

/-- the statement proved by induction on the fuel `g` of the accepting side -/
def IH (g : Nat) : Prop :=
  ∀ f ctx s v, s.inSubset = true → validJ re f defs s v = true →
    acceptsTy st re g (trDefs st o defs) (tr st o ctx s) v ≠ .reject

def IHle (g : Nat) : Prop := ∀ g', g' ≤ g → IH st o re defs g'

theorem validScalar_null (ty : STy) (b : Bounds) : validScalar re ty b .null = false := by
  cases ty <;> simp [validScalar]

theorem acceptsTy_scalarCore (h : TableOK st) (ty : STy) (nullable : Bool) (b : Bounds) (v : Json)
    (hok : scalarOK ty b = true)
    (hv : ((nullable && v.isNull) || validScalar re ty b v) = true) (g : Nat) (D : IRDefs) :
    acceptsTy st re g D (scalarCore st o ty nullable b) v ≠ .reject := by
  cases g with
  | zero => simp [acceptsTy]
  | succ g =>
    unfold scalarCore
    cases nullable with
    | false =>
      simp only [Bool.false_and, Bool.false_or] at hv
      simp only [Bool.false_eq_true, if_false, acceptsTy]
      exact acceptsScalar_typeCons st o re h ty b v hok hv
    | true =>
      simp only [if_true, acceptsTy]
      cases hn : v.isNull with
      | true => simp
      | false =>
        simp only [hn, Bool.and_false, Bool.false_or] at hv
        simp only [Bool.false_eq_true, if_false]
        cases g with
        | zero => simp [acceptsTy]
        | succ g =>
          simp only [acceptsTy]
          exact acceptsScalar_typeCons st o re h ty b v hok hv

theorem checkCons_rootCons_scalar (h : TableOK st) (ty : STy) (nullable : Bool) (b : Bounds)
    (v : Json) (hok : scalarOK ty b = true)
    (hv : ((nullable && v.isNull) || validScalar re ty b v) = true) :
    checkCons st re (rootCons o (fieldConsOfBounds st ty b)) v ≠ .reject := by
  unfold rootCons
  cases o.fieldConstraints with
  | false => simp [checkCons_empty]
  | true =>
    simp only [if_true]
    cases hn : v.isNull with
    | true => cases v <;> simp [Json.isNull] at hn; simp [checkCons]
    | false =>
      simp only [hn, Bool.and_false, Bool.false_or] at hv
      exact checkCons_fieldConsOfBounds st re h ty b v hok hv

theorem scalar_case (h : TableOK st) (g : Nat) (ctx : Ctx) (ty : STy) (nullable : Bool)
    (b : Bounds) (v : Json) (D : IRDefs) (hok : scalarOK ty b = true)
    (hv : ((nullable && v.isNull) || validScalar re ty b v) = true) :
    acceptsTy st re (g + 1) D (tr st o ctx (.scalar ty nullable b)) v ≠ .reject := by
  have hcore := acceptsTy_scalarCore st o re h ty nullable b v hok hv
  have hroot := checkCons_rootCons_scalar st o re h ty nullable b v hok hv
  cases ctx with
  | top =>
    simp only [tr, acceptsTy]
    exact and_ne_reject.mpr ⟨hcore g D, hroot⟩
  | plain =>
    simp only [tr]
    exact hcore (g + 1) D
  | item phc =>
    simp only [tr]
    split
    · simp only [acceptsTy]
      exact and_ne_reject.mpr ⟨hcore g D, hroot⟩
    · exact hcore (g + 1) D


end
end Dcg.Proofs.Sem

namespace Dcg.Proofs.Sem
open Dcg.Sem Dcg.Sem.Pyd Dcg.Model.Constraints Dcg.Model.Translate

section
variable (st : Style) (o : Opts) (re : Regex) (defs : Defs)

/-- a list type accepts an array all of whose items are valid, at any fuel `k ≤ g + 1` -/
theorem list_ne (g : Nat) (ih : IHle st o re defs g) (ctx : Ctx) (items : Schema) (f : Nat)
    (xs : List Json) (hsub : items.inSubset = true)
    (hv : xs.all (fun x => validJ re f defs items x) = true) (k : Nat) (hk : k ≤ g + 1) :
    acceptsTy st re k (trDefs st o defs) (.list (tr st o ctx items)) (.arr xs) ≠ .reject := by
  cases k with
  | zero => simp [acceptsTy]
  | succ k =>
    simp only [acceptsTy]
    rw [all_ne_reject]
    intro t ht
    simp only [List.mem_map] at ht
    obtain ⟨x, hx, rfl⟩ := ht
    have hvx : validJ re f defs items x = true := by
      rw [List.all_eq_true] at hv
      exact hv x hx
    exact ih k (by omega) f ctx items x hsub hvx

theorem array_case (h : TableOK st) (g : Nat) (ih : IHle st o re defs g) (ctx : Ctx)
    (items : Schema) (mn mx : Option Nat) (f : Nat) (v : Json) (hsub : items.inSubset = true)
    (hv : validJ re (f + 1) defs (.array items mn mx) v = true) :
    acceptsTy st re (g + 1) (trDefs st o defs) (tr st o ctx (.array items mn mx)) v ≠ .reject := by
  obtain ⟨_, _, _, _, _, ⟨a1, a2⟩, _, _⟩ := h
  cases v <;> simp [validJ] at hv
  rename_i xs
  obtain ⟨hlen, hall⟩ := hv
  have hall' : xs.all (fun x => validJ re f defs items x) = true := by
    rw [List.all_eq_true]; intro x hx; exact hall x hx
  have hl := list_ne st o re defs g ih (.item (mn.isSome || mx.isSome)) items f xs hsub hall'
  have hc : ∀ c, c = consOfItems (fieldKw st) mn mx → checkCons st re (rootCons o c) (.arr xs) ≠ .reject := by
    intro c hc
    unfold rootCons
    cases o.fieldConstraints <;> simp [checkCons_empty]
    subst hc
    simp [checkCons, checkLen_consOfItems st _ mn mx _ a1 a2, hlen, Tri.ofBool]
  cases ctx with
  | top =>
    simp only [tr, acceptsTy]
    refine and_ne_reject.mpr ⟨hl g (by omega), ?_⟩
    simp [checkCons, checkLen_consOfItems st _ mn mx _ a1 a2, hlen, Tri.ofBool]
  | plain =>
    simp only [tr]
    exact hl (g + 1) (by omega)
  | item phc =>
    simp only [tr]
    split
    · simp only [acceptsTy]
      exact and_ne_reject.mpr ⟨hl g (by omega), hc _ rfl⟩
    · exact hl (g + 1) (by omega)

/-- the `Field()` arguments of a member accept every value its schema admits -/
theorem checkCons_fieldCons (h : TableOK st) (s : Schema) (hsub : s.inSubset = true) (f : Nat)
    (x : Json) (hv : validJ re f defs s x = true) :
    checkCons st re (fieldCons st o s) x ≠ .reject := by
  cases f with
  | zero => simp [validJ] at hv
  | succ f =>
    cases s <;> simp only [fieldCons, checkCons_empty, ne_eq, not_false_eq_true, reduceCtorEq]
    · -- scalar
      rename_i ty nullable b
      simp only [validJ] at hv
      simp only [Schema.inSubset] at hsub
      cases o.fieldConstraints with
      | false => simp [checkCons_empty]
      | true =>
        simp only [if_true]
        cases hn : x.isNull with
        | true => cases x <;> simp [Json.isNull] at hn; simp [checkCons]
        | false =>
          simp only [hn, Bool.and_false, Bool.false_or] at hv
          exact checkCons_fieldConsOfBounds st re h ty b x hsub hv
    · -- array
      rename_i items mn mx
      obtain ⟨_, _, _, _, _, ⟨a1, a2⟩, _, _⟩ := h
      cases x <;> simp [validJ] at hv
      simp [checkCons, checkLen_consOfItems st _ mn mx _ a1 a2, hv.1, Tri.ofBool]


end
end Dcg.Proofs.Sem

namespace Dcg.Proofs.Sem
open Dcg.Sem Dcg.Sem.Pyd Dcg.Model.Constraints Dcg.Model.Translate

section
variable (st : Style) (o : Opts) (re : Regex) (defs : Defs)

theorem object_case (h : TableOK st) (g : Nat) (ih : IHle st o re defs g) (ctx : Ctx)
    (props : List (List Char × Schema)) (req : List (List Char)) (addl : Addl) (f : Nat) (v : Json)
    (hsub : (Schema.object props req addl).inSubset = true)
    (hv : validJ re (f + 1) defs (.object props req addl) v = true) :
    acceptsTy st re (g + 1) (trDefs st o defs) (tr st o ctx (.object props req addl)) v ≠ .reject := by
  simp only [Schema.inSubset, Bool.and_eq_true] at hsub
  obtain ⟨⟨hps, _⟩, _⟩ := hsub
  cases v <;> simp only [validJ, Bool.false_eq_true] at hv
  rename_i kvs
  simp only [Bool.and_eq_true, List.all_eq_true] at hv
  obtain ⟨⟨hreq, hprops⟩, hextra⟩ := hv
  simp only [tr, acceptsTy]
  refine and_ne_reject.mpr ⟨?_, ?_⟩
  · -- every declared member
    rw [all_ne_reject, trProps_eq_map]
    intro t ht
    simp only [List.map_map, List.mem_map, Function.comp] at ht
    obtain ⟨p, hp, rfl⟩ := ht
    obtain ⟨nm, s⟩ := p
    simp only
    have hpx := hprops (nm, s) hp
    simp only at hpx
    cases hl : kvs.lookup nm with
    | none =>
      simp only
      cases hr : req.contains nm with
      | false => simp
      | true =>
        have : nm ∈ req := by simpa using hr
        have := hreq nm this
        simp [hasKey, hl] at this
    | some x =>
      simp only
      split
      · simp
      · rw [hl] at hpx
        simp only at hpx
        have hs : s.inSubset = true := propsInSubset_mem (p := (nm, s)) hps hp
        exact and_ne_reject.mpr ⟨ih g (Nat.le_refl _) f .plain s x hs hpx,
          checkCons_fieldCons st o re defs h s hs f x hpx⟩
  · -- extra members
    have hnames : (trProps st o req props).map (·.1) = props.map (·.1) := by
      rw [trProps_eq_map, List.map_map]; rfl
    rw [hnames]
    obtain ⟨_, _, _, _, _, _, ⟨e1, e2⟩, _⟩ := h
    cases hex : extraOf st addl == Extra.forbid with
    | false => simp
    | true =>
      have haddl : addl = .forbid := by
        have hx : extraOf st addl = .forbid := by simpa using hex
        cases addl with
        | absent => exact absurd hx e1
        | allow => exact absurd hx e2
        | forbid => rfl
      subst haddl
      simp only [if_true]
      rw [ofBool_ne_reject, List.all_eq_true]
      simpa using hextra

/-- own fields of a class: each declared member that is present is accepted, each required one is
present (shared by the object and the allOf case) -/
theorem fields_ne_reject (h : TableOK st) (g : Nat) (ih : IHle st o re defs g)
    (props : List (List Char × Schema)) (rq : List (List Char)) (kvs : List (List Char × Json)) (f : Nat)
    (hps : Schema.propsInSubset props = true)
    (hreq : ∀ k ∈ rq, hasKey kvs k = true)
    (hprops : ∀ p ∈ props, (match kvs.lookup p.1 with
      | some x => validJ re f defs p.2 x
      | none => true) = true) :
    Tri.all ((trProps st o rq props).map (fun fld =>
      match kvs.lookup fld.1 with
      | none => if fld.2.1 then (if isOpt fld.2.2.2 then .laxZone else .reject) else .accept
      | some x =>
        if x.isNull && !fld.2.1 && !isConst fld.2.2.2 then .accept
        else Tri.and (acceptsTy st re g (trDefs st o defs) fld.2.2.2 x) (checkCons st re fld.2.2.1 x)))
      ≠ .reject := by
  rw [all_ne_reject, trProps_eq_map]
  intro t ht
  simp only [List.map_map, List.mem_map, Function.comp] at ht
  obtain ⟨p, hp, rfl⟩ := ht
  obtain ⟨nm, s⟩ := p
  simp only
  have hpx := hprops (nm, s) hp
  simp only at hpx
  cases hl : kvs.lookup nm with
  | none =>
    simp only
    cases hr : rq.contains nm with
    | false => simp
    | true =>
      have : nm ∈ rq := by simpa using hr
      have := hreq nm this
      simp [hasKey, hl] at this
  | some x =>
    simp only
    split
    · simp
    · rw [hl] at hpx
      simp only at hpx
      have hs : s.inSubset = true := propsInSubset_mem (p := (nm, s)) hps hp
      exact and_ne_reject.mpr ⟨ih g (Nat.le_refl _) f .plain s x hs hpx,
        checkCons_fieldCons st o re defs h s hs f x hpx⟩

theorem allOf_case (h : TableOK st) (hd : defsInSubset defs = true) (g : Nat)
    (ih : IHle st o re defs g) (ctx : Ctx) (refs : List (List Char))
    (props : List (List Char × Schema)) (req xreq : List (List Char)) (f : Nat) (v : Json)
    (hsub : (Schema.allOf refs props req xreq).inSubset = true)
    (hv : validJ re (f + 1) defs (.allOf refs props req xreq) v = true) :
    acceptsTy st re (g + 1) (trDefs st o defs) (tr st o ctx (.allOf refs props req xreq)) v ≠ .reject := by
  simp only [Schema.inSubset, Bool.and_eq_true] at hsub
  obtain ⟨⟨hps, _⟩, _⟩ := hsub
  cases v <;> simp only [validJ, Bool.false_eq_true] at hv
  rename_i kvs
  simp only [Bool.and_eq_true, List.all_eq_true] at hv
  obtain ⟨⟨⟨hrefs, hreq⟩, hxreq⟩, hprops⟩ := hv
  -- a referenced part accepts the value
  have hbase : ∀ r ∈ refs, (match (trDefs st o defs).lookup r with
      | some d => acceptsTy st re g (trDefs st o defs) d (.obj kvs)
      | none => .reject) ≠ .reject := by
    intro r hr
    have := hrefs r hr
    rw [lookup_trDefs]
    cases hl : defs.lookup r with
    | none => simp [hl] at this
    | some t =>
      simp only [hl] at this
      simp only [Option.map]
      exact ih g (Nat.le_refl _) f .top t (.obj kvs) (defs_lookup_inSubset hd hl) this
  have hder : acceptsTy st re (g + 1) (trDefs st o defs)
      (.derived refs (trProps st o (req ++ xreq) props) .unset) (.obj kvs) ≠ .reject := by
    simp only [acceptsTy]
    refine and_ne_reject.mpr ⟨?_, ?_⟩
    · rw [all_ne_reject]
      intro t ht
      simp only [List.mem_map] at ht
      obtain ⟨r, hr, rfl⟩ := ht
      exact hbase r hr
    · refine fields_ne_reject st o re defs h g ih props (req ++ xreq) kvs f hps ?_ hprops
      intro k hk
      cases List.mem_append.mp hk with
      | inl e => exact hreq k e
      | inr e => exact hxreq k e
  cases ctx with
  | top => simpa only [tr] using hder
  | plain =>
    cases refs with
    | nil => simpa only [tr] using hder
    | cons r rs =>
      cases rs with
      | cons r2 rs2 => simpa only [tr] using hder
      | nil =>
        cases props with
        | cons p ps => simpa only [tr] using hder
        | nil =>
          simp only [tr, acceptsTy]
          exact hbase r (by simp)
  | item phc =>
    cases refs with
    | nil => simpa only [tr] using hder
    | cons r rs =>
      cases rs with
      | cons r2 rs2 => simpa only [tr] using hder
      | nil =>
        cases props with
        | cons p ps => simpa only [tr] using hder
        | nil =>
          simp only [tr, acceptsTy]
          exact hbase r (by simp)

theorem dict_case (g : Nat) (ih : IHle st o re defs g) (ctx : Ctx) (value : Schema) (f : Nat)
    (v : Json) (hsub : value.inSubset = true)
    (hv : validJ re (f + 1) defs (.dict value) v = true) :
    acceptsTy st re (g + 1) (trDefs st o defs) (tr st o ctx (.dict value)) v ≠ .reject := by
  cases v <;> simp [validJ] at hv
  rename_i kvs
  simp only [tr, acceptsTy]
  rw [all_ne_reject]
  intro t ht
  simp only [List.mem_map] at ht
  obtain ⟨kv, hkv, rfl⟩ := ht
  exact ih g (Nat.le_refl _) f .plain value kv.2 hsub (hv kv.1 kv.2 hkv)

theorem ref_case (hd : defsInSubset defs = true) (g : Nat) (ih : IHle st o re defs g) (ctx : Ctx)
    (n : List Char) (f : Nat) (v : Json)
    (hv : validJ re (f + 1) defs (.ref n) v = true) :
    acceptsTy st re (g + 1) (trDefs st o defs) (tr st o ctx (.ref n)) v ≠ .reject := by
  simp only [validJ] at hv
  simp only [tr, acceptsTy, lookup_trDefs]
  cases hl : defs.lookup n with
  | none => simp [hl] at hv
  | some s =>
    simp only [hl] at hv
    simp only [Option.map]
    exact ih g (Nat.le_refl _) f .top s v (defs_lookup_inSubset hd hl) hv

theorem union_ne (g : Nat) (ih : IHle st o re defs g) (alts : List Schema) (f : Nat) (v : Json)
    (hsub : Schema.allInSubset alts = true)
    (hv : ∃ a ∈ alts, validJ re f defs a v = true) :
    acceptsTy st re (g + 1) (trDefs st o defs) (.union (trAlts st o alts)) v ≠ .reject := by
  obtain ⟨a, ha, hva⟩ := hv
  simp only [acceptsTy]
  rw [any_ne_reject, trAlts_eq_map]
  refine ⟨_, ?_, ih g (Nat.le_refl _) f (.item false) a v (allInSubset_mem hsub ha) hva⟩
  simp only [List.map_map, List.mem_map, Function.comp]
  exact ⟨a, ha, rfl⟩

theorem countTrue_pos {bs : List Bool} (h : countTrue bs = 1) : true ∈ bs := by
  unfold countTrue at h
  have : (bs.filter id) ≠ [] := by intro e; rw [e] at h; simp at h
  obtain ⟨b, hb⟩ := List.exists_mem_of_ne_nil _ this
  rw [List.mem_filter] at hb
  have : b = true := by simpa using hb.2
  exact this ▸ hb.1

/-- MAIN INDUCTION: for every fuel of the accepting side -/
theorem valid_accepted_all (h : TableOK st) (hd : defsInSubset defs = true) :
    ∀ g, IHle st o re defs g := by
  intro g
  induction g with
  | zero =>
    intro g' hg' f ctx s v _ _
    have : g' = 0 := by omega
    subst this
    simp [acceptsTy]
  | succ g ih =>
    intro g' hg'
    by_cases hle : g' ≤ g
    · exact ih g' hle
    · have : g' = g + 1 := by omega
      subst this
      intro f ctx s v hsub hv
      cases f with
      | zero => simp [validJ] at hv
      | succ f =>
        cases s with
        | any => simp [tr, acceptsTy]
        | null =>
          simp only [validJ] at hv
          simp [tr, acceptsTy, hv]
        | scalar ty nullable b =>
          simp only [validJ] at hv
          simp only [Schema.inSubset] at hsub
          exact scalar_case st o re h g ctx ty nullable b v _ hsub hv
        | enum vals =>
          simp only [validJ] at hv
          simp [tr, acceptsTy, Tri.ofBool, hv]
        | const a =>
          simp only [validJ] at hv
          simp [tr, acceptsTy, Tri.ofBool, hv]
        | array items mn mx =>
          simp only [Schema.inSubset] at hsub
          exact array_case st o re defs h g ih ctx items mn mx f v hsub hv
        | object props req addl => exact object_case st o re defs h g ih ctx props req addl f v hsub hv
        | dict value =>
          simp only [Schema.inSubset] at hsub
          exact dict_case st o re defs g ih ctx value f v hsub hv
        | ref n => exact ref_case st o re defs hd g ih ctx n f v hv
        | anyOf alts =>
          simp only [Schema.inSubset] at hsub
          simp only [validJ, List.any_eq_true] at hv
          simp only [tr]
          exact union_ne st o re defs g ih alts f v hsub hv
        | oneOf alts =>
          simp only [Schema.inSubset] at hsub
          simp only [validJ, beq_iff_eq] at hv
          simp only [tr]
          have := countTrue_pos hv
          simp only [List.mem_map] at this
          obtain ⟨a, ha, hva⟩ := this
          exact union_ne st o re defs g ih alts f v hsub ⟨a, ha, hva⟩
        | allOf refs props req xreq => exact allOf_case st o re defs h hd g ih ctx refs props req xreq f v hsub hv


end
end Dcg.Proofs.Sem

namespace Dcg.Proofs.Sem
open Dcg.Sem Dcg.Sem.Pyd Dcg.Model.Constraints Dcg.Model.Translate

/-! ### C14: stage 1 reads the options only through `field_constraints` -/

theorem fieldCons_congr (st : Style) (o o' : Opts) (h : o.fieldConstraints = o'.fieldConstraints)
    (s : Schema) : fieldCons st o s = fieldCons st o' s := by
  cases s <;> simp [fieldCons, h]

mutual
/-- stage 1 reads the option vector only through `field_constraints` -/
theorem tr_congr (st : Style) (o o' : Opts) (h : o.fieldConstraints = o'.fieldConstraints) :
    ∀ (ctx : Ctx) (s : Schema), tr st o ctx s = tr st o' ctx s
  | _, .any => by simp [tr]
  | _, .null => by simp [tr]
  | ctx, .scalar ty n b => by
    cases ctx <;> simp [tr, scalarCore, typeCons, rootCons, h]
  | _, .enum _ => by simp [tr]
  | _, .const _ => by simp [tr]
  | ctx, .array items mn mx => by
    cases ctx <;> simp [tr, rootCons, h, tr_congr st o o' h _ items]
  | _, .object props req addl => by simp [tr, trProps_congr st o o' h req props]
  | _, .dict value => by simp [tr, tr_congr st o o' h .plain value]
  | _, .ref _ => by simp [tr]
  | _, .anyOf alts => by simp [tr, trAlts_congr st o o' h alts]
  | _, .oneOf alts => by simp [tr, trAlts_congr st o o' h alts]
  | ctx, .allOf refs props req xreq => by
    simp only [tr, trProps_congr st o o' h (req ++ xreq) props]
theorem trProps_congr (st : Style) (o o' : Opts) (h : o.fieldConstraints = o'.fieldConstraints)
    (req : List (List Char)) :
    ∀ ps : List (List Char × Schema), trProps st o req ps = trProps st o' req ps
  | [] => by simp [trProps]
  | p :: ps => by
    simp [trProps, tr_congr st o o' h .plain p.2, trProps_congr st o o' h req ps,
      fieldCons_congr st o o' h p.2]
theorem trAlts_congr (st : Style) (o o' : Opts) (h : o.fieldConstraints = o'.fieldConstraints) :
    ∀ alts : List Schema, trAlts st o alts = trAlts st o' alts
  | [] => by simp [trAlts]
  | a :: as => by simp [trAlts, tr_congr st o o' h (.item false) a, trAlts_congr st o o' h as]
end

theorem trDefs_congr (st : Style) (o o' : Opts) (h : o.fieldConstraints = o'.fieldConstraints)
    (defs : Defs) : trDefs st o defs = trDefs st o' defs := by
  induction defs with
  | nil => simp [trDefs]
  | cons p ps ih => simp [trDefs, ih, tr_congr st o o' h .top p.2]


end Dcg.Proofs.Sem

namespace Dcg.Proofs.Sem
open Dcg.Sem Dcg.Sem.Pyd Dcg.Model.Constraints Dcg.Model.Translate

/-! ### C14: compatibility of verdicts -/

/-- two verdicts do not contradict each other (`laxZone` = unknown is compatible with everything) -/
def Compat (a b : Tri) : Prop := ¬(a = .accept ∧ b = .reject) ∧ ¬(a = .reject ∧ b = .accept)

theorem compat_refl (a : Tri) : Compat a a := by cases a <;> simp [Compat]
theorem compat_symm {a b : Tri} (h : Compat a b) : Compat b a := ⟨fun x => h.2 ⟨x.2, x.1⟩, fun x => h.1 ⟨x.2, x.1⟩⟩
theorem compat_lax_left (b : Tri) : Compat .laxZone b := by simp [Compat]
theorem compat_lax_right (a : Tri) : Compat a .laxZone := by simp [Compat]
theorem compat_of_eq {a b : Tri} (h : a = b) : Compat a b := h ▸ compat_refl a

theorem compat_and {a a' b b' : Tri} (h1 : Compat a a') (h2 : Compat b b') :
    Compat (Tri.and a b) (Tri.and a' b') := by
  cases a <;> cases a' <;> cases b <;> cases b' <;> simp_all [Compat, Tri.and]

theorem compat_or {a a' b b' : Tri} (h1 : Compat a a') (h2 : Compat b b') :
    Compat (Tri.or a b) (Tri.or a' b') := by
  cases a <;> cases a' <;> cases b <;> cases b' <;> simp_all [Compat, Tri.or]

theorem compat_all_map {α : Type} (xs : List α) (f f' : α → Tri)
    (h : ∀ x ∈ xs, Compat (f x) (f' x)) : Compat (Tri.all (xs.map f)) (Tri.all (xs.map f')) := by
  induction xs with
  | nil => simp [Tri.all, Compat]
  | cons x xs ih =>
    have e1 : Tri.all ((x :: xs).map f) = Tri.and (f x) (Tri.all (xs.map f)) := rfl
    have e2 : Tri.all ((x :: xs).map f') = Tri.and (f' x) (Tri.all (xs.map f')) := rfl
    rw [e1, e2]
    exact compat_and (h x (by simp)) (ih (fun y hy => h y (by simp [hy])))

theorem compat_any_map {α : Type} (xs : List α) (f f' : α → Tri)
    (h : ∀ x ∈ xs, Compat (f x) (f' x)) : Compat (Tri.any (xs.map f)) (Tri.any (xs.map f')) := by
  induction xs with
  | nil => simp [Tri.any, Compat]
  | cons x xs ih =>
    have e1 : Tri.any ((x :: xs).map f) = Tri.or (f x) (Tri.any (xs.map f)) := rfl
    have e2 : Tri.any ((x :: xs).map f') = Tri.or (f' x) (Tri.any (xs.map f')) := rfl
    rw [e1, e2]
    exact compat_or (h x (by simp)) (ih (fun y hy => h y (by simp [hy])))


end Dcg.Proofs.Sem

namespace Dcg.Proofs.Sem
open Dcg.Sem Dcg.Sem.Pyd Dcg.Model.Constraints Dcg.Model.Translate

/-- fuel-free verdict of a (possibly nullable) scalar leaf with keyword arguments `kw` -/
def coreVerdict (st : Style) (re : Regex) (ty : STy) (nullable : Bool) (kw : Cons) (v : Json) : Tri :=
  if nullable && v.isNull then .accept else acceptsScalar st re ty kw v

theorem acceptsScalar_null (st : Style) (re : Regex) (ty : STy) (kw : Cons) :
    acceptsScalar st re ty kw .null = .reject := by
  cases ty <;> simp [acceptsScalar]

/-- with any fuel, a scalar leaf gives its fuel-free verdict or `laxZone` -/
theorem acceptsTy_core_cases (st : Style) (o : Opts) (re : Regex) (ty : STy) (nullable : Bool)
    (b : Bounds) (v : Json) (g : Nat) (D : IRDefs) :
    acceptsTy st re g D (scalarCore st o ty nullable b) v = .laxZone ∨
    acceptsTy st re g D (scalarCore st o ty nullable b) v =
      coreVerdict st re ty nullable (typeCons st o ty b) v := by
  cases g with
  | zero => left; simp [acceptsTy]
  | succ g =>
    unfold scalarCore coreVerdict
    cases nullable with
    | false => right; simp [acceptsTy]
    | true =>
      simp only [if_true, acceptsTy, Bool.true_and]
      cases hn : v.isNull with
      | true => right; simp
      | false =>
        simp only [Bool.false_eq_true, if_false]
        cases g with
        | zero => left; simp [acceptsTy]
        | succ g => right; simp [acceptsTy]


end Dcg.Proofs.Sem

namespace Dcg.Proofs.Sem
open Dcg.Sem Dcg.Sem.Pyd Dcg.Model.Constraints Dcg.Model.Translate

section
variable (st : Style) (re : Regex) (oF oC : Opts)

/-- The three facts that make the two routings of a scalar leaf agree:
`cvF` = verdict of the bare type (constraints in `Field()`), `ccF` = verdict of the `Field()`
arguments, `cvC` = verdict of the constrained type. -/
theorem leaf_facts (h : TableOK st) (hF : oF.fieldConstraints = true)
    (hC : oC.fieldConstraints = false) (ty : STy) (n : Bool) (b : Bounds) (v : Json)
    (hok : scalarOK ty b = true) :
    let cvF := coreVerdict st re ty n (typeCons st oF ty b) v
    let ccF := checkCons st re (fieldConsOfBounds st ty b) v
    let cvC := coreVerdict st re ty n (typeCons st oC ty b) v
    (cvC = .accept → ccF ≠ .reject) ∧ (cvF = .accept → ccF = .accept → cvC ≠ .reject) ∧
    (cvF = .reject → cvC ≠ .accept) := by
  obtain ⟨⟨i1, i2, i3, i4, i5⟩, ⟨n1, n2, n3, n4, n5⟩, ⟨s1, s2, s3⟩, ⟨f1, f2, f3, f4, f5⟩,
    ⟨g1, g2, g3⟩, _, _, _⟩ := h
  have hint : ty = .integer → ∀ pk d, (d ∈ b.minimum ∨ d ∈ b.maximum ∨ d ∈ b.exclMin ∨ d ∈ b.exclMax ∨
      d ∈ b.multipleOf) → ∀ r, castValue r .int pk d = d := by
    intro hty pk d hd r
    subst hty
    simp only [scalarOK, Bool.and_eq_true] at hok
    exact castValue_integral _ _ _ _ (integral_mem _ hok.2 d hd)
  simp only [coreVerdict, typeCons, hF, hC, if_true, Bool.false_eq_true, if_false, fieldConsOfBounds]
  cases hnn : (n && v.isNull) with
  | true =>
    have : v = .null := by
      cases v <;> simp [Json.isNull] at hnn
      rfl
    subst this
    simp [checkCons]
  | false =>
    simp only [Bool.false_eq_true, if_false]
    cases ty <;> cases v <;>
      simp only [scalarOK, Bool.and_eq_true] at hok <;>
      simp [acceptsScalar, checkCons, famOf, checkNum_empty, checkStr_empty, Tri.ofBool]
    · -- integer, number value
      rename_i x
      have e1 := checkNum_consOfBounds _ _ b x i1 i2 i3 i4 i5 hok.1 (fun pk d hd => hint rfl pk d hd .conType)
      have e2 := checkNum_consOfBounds _ _ b x f1 f2 f3 f4 f5 hok.1 (fun pk d hd => hint rfl pk d hd .field)
      simp only [e1, e2]
      cases x.isInt <;> cases numOK b x <;> simp
    · -- number
      rename_i x
      have e1 := checkNum_consOfBounds (conTypeKw st .num) (castValue .conType .num) b x n1 n2 n3 n4 n5 hok
        (fun pk d _ => by simp [castValue])
      have e2 := checkNum_consOfBounds (fieldKw st) (castValue .field .num) b x f1 f2 f3 f4 f5 hok
        (fun pk d _ => by simp [castValue])
      simp only [e1, e2]
      cases numOK b x <;> simp
    · -- string
      rename_i s
      have e1 := checkStr_consOfBounds st re (conTypeKw st .str) (castValue .conType .str) b s s1 s2 s3 hok
      have e2 := checkStr_consOfBounds st re (fieldKw st) (castValue .field .str) b s g1 g2 g3 hok
      simp only [e1, e2]
      cases strOK re b s <;> simp

/-- the routing-independent verdict of a scalar leaf, at any two fuels -/
theorem leaf_compat (h : TableOK st) (hF : oF.fieldConstraints = true)
    (hC : oC.fieldConstraints = false) (ty : STy) (n : Bool) (b : Bounds) (v : Json)
    (hok : scalarOK ty b = true) (X Y : Tri)
    (hX : X = .laxZone ∨ X = coreVerdict st re ty n (typeCons st oF ty b) v)
    (hY : Y = .laxZone ∨ Y = coreVerdict st re ty n (typeCons st oC ty b) v) :
    Compat (Tri.and X (checkCons st re (fieldConsOfBounds st ty b) v)) Y := by
  obtain ⟨F1, F2, F3⟩ := leaf_facts st re oF oC h hF hC ty n b v hok
  rcases hY with rfl | rfl
  · exact compat_lax_right _
  · rcases hX with rfl | rfl
    · generalize checkCons st re (fieldConsOfBounds st ty b) v = cc at *
      generalize coreVerdict st re ty n (typeCons st oC ty b) v = cv at *
      cases cc <;> cases cv <;> simp_all [Compat, Tri.and]
    · generalize checkCons st re (fieldConsOfBounds st ty b) v = cc at *
      generalize coreVerdict st re ty n (typeCons st oC ty b) v = cv at *
      generalize coreVerdict st re ty n (typeCons st oF ty b) v = cf at *
      cases cc <;> cases cv <;> cases cf <;> simp_all [Compat, Tri.and]

end
end Dcg.Proofs.Sem

namespace Dcg.Proofs.Sem
open Dcg.Sem Dcg.Sem.Pyd Dcg.Model.Constraints Dcg.Model.Translate

def isScalar : Schema → Bool
  | .scalar _ _ _ => true
  | _ => false

mutual
/-- Where the two constraint routings are claimed to agree. Excluded (and refuted on the pinned
tree): a constrained scalar as `additionalProperties` value (D11) and item-count constraints on an
array that is itself an array item / union alternative (D31). -/
def routingSafe : Ctx → Schema → Bool
  | ctx, .scalar _ _ b => ctx != .plain || !boundsHasConstraint b
  | ctx, .array items mn mx =>
    (match ctx with
      | .item _ => !(mn.isSome || mx.isSome)
      | _ => true) && routingSafe (.item (mn.isSome || mx.isSome)) items
  | _, .object props _ _ => propsRoutingSafe props
  | _, .dict value => routingSafe .plain value
  | _, .anyOf alts => altsRoutingSafe alts
  | _, .oneOf alts => altsRoutingSafe alts
  | _, .allOf _ _ _ _ => false
  | _, _ => true
/-- members: a scalar member may carry constraints (they travel in its `Field()`) -/
def propsRoutingSafe : List (List Char × Schema) → Bool
  | [] => true
  | p :: ps => (isScalar p.2 || routingSafe .plain p.2) && propsRoutingSafe ps
def altsRoutingSafe : List Schema → Bool
  | [] => true
  | a :: as => routingSafe (.item false) a && altsRoutingSafe as
end

def defsRoutingSafe : Defs → Bool
  | [] => true
  | p :: ps => routingSafe .top p.2 && defsRoutingSafe ps

theorem propsRoutingSafe_mem {ps : List (List Char × Schema)} (h : propsRoutingSafe ps = true)
    {p : List Char × Schema} (hp : p ∈ ps) :
    (isScalar p.2 || routingSafe .plain p.2) = true := by
  induction ps with
  | nil => simp at hp
  | cons q qs ih =>
    simp only [propsRoutingSafe, Bool.and_eq_true] at h
    cases List.mem_cons.mp hp with
    | inl e => subst e; exact h.1
    | inr e => exact ih h.2 e

theorem altsRoutingSafe_mem {as : List Schema} (h : altsRoutingSafe as = true) {a : Schema}
    (ha : a ∈ as) : routingSafe (.item false) a = true := by
  induction as with
  | nil => simp at ha
  | cons q qs ih =>
    simp only [altsRoutingSafe, Bool.and_eq_true] at h
    cases List.mem_cons.mp ha with
    | inl e => subst e; exact h.1
    | inr e => exact ih h.2 e

theorem defsRoutingSafe_lookup {defs : Defs} (h : defsRoutingSafe defs = true) {n : List Char}
    {s : Schema} (hl : defs.lookup n = some s) : routingSafe .top s = true := by
  induction defs with
  | nil => simp [List.lookup] at hl
  | cons p ps ih =>
    obtain ⟨k, t⟩ := p
    simp only [defsRoutingSafe, Bool.and_eq_true] at h
    simp only [List.lookup] at hl
    split at hl
    · simp at hl; subst hl; exact h.1
    · exact ih h.2 hl

theorem consOfBounds_noCons (route : String → Option String) (cast : String → Dec → Dec)
    (b : Bounds) (h : boundsHasConstraint b = false) : consOfBounds route cast b = {} := by
  obtain ⟨mn, mx, xmn, xmx, mul, minl, maxl, pat⟩ := b
  simp only [boundsHasConstraint, Bool.or_eq_false_iff, Option.isSome_eq_false_iff,
    Option.isNone_iff_eq_none] at h
  obtain ⟨⟨⟨⟨⟨⟨⟨rfl, rfl⟩, rfl⟩, rfl⟩, rfl⟩, rfl⟩, rfl⟩, rfl⟩ := h
  simp [consOfBounds, put]

theorem and_accept (a : Tri) : Tri.and a .accept = a := by cases a <;> rfl

theorem isConst_tr (st : Style) (o : Opts) (s : Schema) :
    isConst (tr st o .plain s) = (match s with
      | .const _ => true
      | _ => false) := by
  cases s
  case allOf refs props req xreq =>
    cases refs with
    | nil => simp [tr, isConst]
    | cons r rs => cases rs <;> cases props <;> simp [tr, isConst]
  case scalar ty n b => cases n <;> simp [tr, isConst, scalarCore]
  all_goals simp [tr, isConst]


end Dcg.Proofs.Sem

namespace Dcg.Proofs.Sem
open Dcg.Sem Dcg.Sem.Pyd Dcg.Model.Constraints Dcg.Model.Translate

section
variable (st : Style) (re : Regex) (oF oC : Opts) (defs : Defs)

/-- statement of the routing induction at fuel `g` -/
def RC (g : Nat) : Prop :=
  ∀ ctx s v, s.inSubset = true → routingSafe ctx s = true →
    Compat (acceptsTy st re g (trDefs st oF defs) (tr st oF ctx s) v)
           (acceptsTy st re g (trDefs st oC defs) (tr st oC ctx s) v)

def RCle (g : Nat) : Prop := ∀ g', g' ≤ g → RC st re oF oC defs g'

/-- a scalar leaf does not look at the definitions environment -/
theorem acceptsTy_core_indep (o : Opts) (ty : STy) (n : Bool) (b : Bounds) (v : Json) (g : Nat)
    (D D' : IRDefs) :
    acceptsTy st re g D (scalarCore st o ty n b) v = acceptsTy st re g D' (scalarCore st o ty n b) v := by
  cases g with
  | zero => simp [acceptsTy]
  | succ g =>
    cases n with
    | false => simp [scalarCore, acceptsTy]
    | true =>
      simp only [scalarCore, if_true, acceptsTy]
      cases g <;> simp [acceptsTy]

theorem rc_scalar (h : TableOK st) (hF : oF.fieldConstraints = true)
    (hC : oC.fieldConstraints = false) (g : Nat) (ctx : Ctx) (ty : STy) (n : Bool) (b : Bounds)
    (v : Json) (hok : scalarOK ty b = true) (hs : routingSafe ctx (.scalar ty n b) = true) :
    Compat (acceptsTy st re (g + 1) (trDefs st oF defs) (tr st oF ctx (.scalar ty n b)) v)
           (acceptsTy st re (g + 1) (trDefs st oC defs) (tr st oC ctx (.scalar ty n b)) v) := by
  have cF := fun k => acceptsTy_core_cases st oF re ty n b v k (trDefs st oF defs)
  have cC := fun k => acceptsTy_core_cases st oC re ty n b v k (trDefs st oC defs)
  have leaf := fun X Y hX hY => leaf_compat st re oF oC h hF hC ty n b v hok X Y hX hY
  -- without constraints both routings produce the same type
  have hsame : boundsHasConstraint b = false → scalarCore st oF ty n b = scalarCore st oC ty n b := by
    intro hb
    simp only [scalarCore, typeCons, hF, hC, if_true, Bool.false_eq_true, if_false]
    cases famOf ty <;> simp [consOfBounds_noCons _ _ b hb]
  cases ctx with
  | top =>
    simp only [tr, acceptsTy, rootCons, hF, hC, if_true, Bool.false_eq_true, if_false,
      checkCons_empty, and_accept]
    exact leaf _ _ (cF g) (cC g)
  | plain =>
    simp only [routingSafe, bne_self_eq_false, Bool.false_or, Bool.not_eq_true'] at hs
    simp only [tr, hsame hs]
    exact compat_of_eq (acceptsTy_core_indep st re oC ty n b v (g + 1) _ _)
  | item phc =>
    simp only [tr, hF, hC, Bool.or_true, Bool.and_true, Bool.or_false]
    cases hb : boundsHasConstraint b with
    | false =>
      simp only [Bool.false_and, Bool.false_eq_true, if_false, hsame hb]
      exact compat_of_eq (acceptsTy_core_indep st re oC ty n b v (g + 1) _ _)
    | true =>
      cases phc with
      | true =>
        simp only [Bool.true_and, if_true, acceptsTy, rootCons, hF, hC, Bool.false_eq_true, if_false,
          checkCons_empty, and_accept]
        exact leaf _ _ (cF g) (cC g)
      | false =>
        simp only [Bool.true_and, if_true, Bool.false_eq_true, if_false, acceptsTy, rootCons, hF]
        exact leaf _ _ (cF g) (cC (g + 1))

end
end Dcg.Proofs.Sem

namespace Dcg.Proofs.Sem
open Dcg.Sem Dcg.Sem.Pyd Dcg.Model.Constraints Dcg.Model.Translate

section
variable (st : Style) (re : Regex) (oF oC : Opts) (defs : Defs)

theorem rc_list (g : Nat) (ih : RCle st re oF oC defs g) (ctx : Ctx) (items : Schema) (v : Json)
    (hsub : items.inSubset = true) (hs : routingSafe ctx items = true) (k : Nat) (hk : k ≤ g + 1) :
    Compat (acceptsTy st re k (trDefs st oF defs) (.list (tr st oF ctx items)) v)
           (acceptsTy st re k (trDefs st oC defs) (.list (tr st oC ctx items)) v) := by
  cases k with
  | zero => simp [acceptsTy, compat_refl]
  | succ k =>
    cases v <;> simp only [acceptsTy, compat_refl]
    rename_i xs
    exact compat_all_map xs _ _ (fun x _ => ih k (by omega) ctx items x hsub hs)

theorem rc_array (g : Nat) (ih : RCle st re oF oC defs g) (ctx : Ctx) (items : Schema)
    (mn mx : Option Nat) (v : Json) (hsub : items.inSubset = true)
    (hs : routingSafe ctx (.array items mn mx) = true) :
    Compat (acceptsTy st re (g + 1) (trDefs st oF defs) (tr st oF ctx (.array items mn mx)) v)
           (acceptsTy st re (g + 1) (trDefs st oC defs) (tr st oC ctx (.array items mn mx)) v) := by
  simp only [routingSafe, Bool.and_eq_true] at hs
  obtain ⟨hctx, hitems⟩ := hs
  have hl := rc_list st re oF oC defs g ih (.item (mn.isSome || mx.isSome)) items v hsub hitems
  cases ctx with
  | top =>
    simp only [tr, acceptsTy]
    exact compat_and (hl g (by omega)) (compat_refl _)
  | plain =>
    simp only [tr]
    exact hl (g + 1) (by omega)
  | item phc =>
    have hc : (mn.isSome || mx.isSome) = false := by simpa using hctx
    have hl' := hl (g + 1) (by omega)
    simp only [hc] at hl'
    simp only [tr, hc, Bool.false_and, Bool.false_eq_true, if_false]
    exact hl'

theorem fieldCons_nonscalar (o o' : Opts) (s : Schema) (h : isScalar s = false) :
    fieldCons st o s = fieldCons st o' s := by
  cases s <;> simp [fieldCons] <;> simp [isScalar] at h

theorem rc_object (h : TableOK st) (hF : oF.fieldConstraints = true)
    (hC : oC.fieldConstraints = false) (g : Nat) (ih : RCle st re oF oC defs g) (ctx : Ctx)
    (props : List (List Char × Schema)) (req : List (List Char)) (addl : Addl) (v : Json)
    (hsub : (Schema.object props req addl).inSubset = true)
    (hs : routingSafe ctx (.object props req addl) = true) :
    Compat (acceptsTy st re (g + 1) (trDefs st oF defs) (tr st oF ctx (.object props req addl)) v)
           (acceptsTy st re (g + 1) (trDefs st oC defs) (tr st oC ctx (.object props req addl)) v) := by
  simp only [Schema.inSubset, Bool.and_eq_true] at hsub
  obtain ⟨⟨hps, _⟩, _⟩ := hsub
  simp only [routingSafe] at hs
  cases v <;> simp only [tr, acceptsTy, compat_refl]
  rename_i kvs
  have hnames : ∀ o, (trProps st o req props).map (·.1) = props.map (·.1) := by
    intro o; rw [trProps_eq_map, List.map_map]; rfl
  refine compat_and ?_ ?_
  · rw [trProps_eq_map, trProps_eq_map, List.map_map, List.map_map]
    refine compat_all_map props _ _ ?_
    intro p hp
    obtain ⟨nm, s⟩ := p
    have hsafe := propsRoutingSafe_mem hs hp
    have hsub' : s.inSubset = true := propsInSubset_mem (p := (nm, s)) hps hp
    simp only [Function.comp]
    cases kvs.lookup nm with
    | none =>
      simp only
      cases (req.contains nm && !constDefaulted st s) <;> simp [compat_refl]
      split <;> split <;> simp [Compat]
    | some x =>
      simp only
      have hic : isConst (tr st oF .plain s) = isConst (tr st oC .plain s) := by
        rw [isConst_tr, isConst_tr]
      rw [hic]
      cases (x.isNull && !(req.contains nm && !constDefaulted st s) && !isConst (tr st oC .plain s)) with
      | true => simp [compat_refl]
      | false =>
        simp only [Bool.false_eq_true, if_false]
        cases s with
        | scalar ty n b =>
          simp only [Schema.inSubset] at hsub'
          simp only [tr, fieldCons, hF, hC, if_true, Bool.false_eq_true, if_false, checkCons_empty,
            and_accept]
          exact leaf_compat st re oF oC h hF hC ty n b x hsub' _ _
            (acceptsTy_core_cases st oF re ty n b x g _) (acceptsTy_core_cases st oC re ty n b x g _)
        | _ =>
          simp only [isScalar, Bool.false_or] at hsafe
          rw [fieldCons_nonscalar st oF oC _ (by simp [isScalar])]
          exact compat_and (ih g (Nat.le_refl _) .plain _ x hsub' hsafe) (compat_refl _)
  · rw [hnames oF, hnames oC]
    exact compat_refl _

theorem rc_all (h : TableOK st) (hF : oF.fieldConstraints = true) (hC : oC.fieldConstraints = false)
    (hd : defsInSubset defs = true) (hds : defsRoutingSafe defs = true) :
    ∀ g, RCle st re oF oC defs g := by
  intro g
  induction g with
  | zero =>
    intro g' hg' ctx s v _ _
    have : g' = 0 := by omega
    subst this
    simp [acceptsTy, compat_refl]
  | succ g ih =>
    intro g' hg'
    by_cases hle : g' ≤ g
    · exact ih g' hle
    · have : g' = g + 1 := by omega
      subst this
      intro ctx s v hsub hs
      cases s with
      | any => simp [tr, acceptsTy, compat_refl]
      | null => simp [tr, acceptsTy, compat_refl]
      | scalar ty n b =>
        simp only [Schema.inSubset] at hsub
        exact rc_scalar st re oF oC defs h hF hC g ctx ty n b v hsub hs
      | enum vals => simp [tr, acceptsTy, compat_refl]
      | const a => simp [tr, acceptsTy, compat_refl]
      | array items mn mx =>
        simp only [Schema.inSubset] at hsub
        exact rc_array st re oF oC defs g ih ctx items mn mx v hsub hs
      | object props req addl => exact rc_object st re oF oC defs h hF hC g ih ctx props req addl v hsub hs
      | dict value =>
        simp only [Schema.inSubset] at hsub
        simp only [routingSafe] at hs
        cases v <;> simp only [tr, acceptsTy, compat_refl]
        rename_i kvs
        exact compat_all_map kvs _ _ (fun kv _ => ih g (Nat.le_refl _) .plain value kv.2 hsub hs)
      | ref n =>
        simp only [tr, acceptsTy, lookup_trDefs]
        cases hl : defs.lookup n with
        | none => simp [compat_refl]
        | some t =>
          simp only [Option.map]
          exact ih g (Nat.le_refl _) .top t v (defs_lookup_inSubset hd hl) (defsRoutingSafe_lookup hds hl)
      | anyOf alts =>
        simp only [Schema.inSubset] at hsub
        simp only [routingSafe] at hs
        simp only [tr, acceptsTy, trAlts_eq_map, List.map_map]
        exact compat_any_map alts _ _ (fun a ha =>
          ih g (Nat.le_refl _) (.item false) a v (allInSubset_mem hsub ha) (altsRoutingSafe_mem hs ha))
      | oneOf alts =>
        simp only [Schema.inSubset] at hsub
        simp only [routingSafe] at hs
        simp only [tr, acceptsTy, trAlts_eq_map, List.map_map]
        exact compat_any_map alts _ _ (fun a ha =>
          ih g (Nat.le_refl _) (.item false) a v (allInSubset_mem hsub ha) (altsRoutingSafe_mem hs ha))
      | allOf refs props req xreq => simp [routingSafe] at hs


end
end Dcg.Proofs.Sem

namespace Dcg.Proofs.Sem
open Dcg.Sem Dcg.Sem.Pyd Dcg.Model.Constraints Dcg.Model.Translate

/-! ### C04: an accepted value is valid (up to `null` for a non-required member) -/

theorem propsOneOfFree_mem {ps : List (List Char × Schema)} (h : Schema.propsOneOfFree ps = true)
    {p : List Char × Schema} (hp : p ∈ ps) : p.2.oneOfFree = true := by
  induction ps with
  | nil => simp at hp
  | cons q qs ih =>
    simp only [Schema.propsOneOfFree, Bool.and_eq_true] at h
    cases List.mem_cons.mp hp with
    | inl e => subst e; exact h.1
    | inr e => exact ih h.2 e

theorem allOneOfFree_mem {ss : List Schema} (h : Schema.allOneOfFree ss = true)
    {s : Schema} (hs : s ∈ ss) : s.oneOfFree = true := by
  induction ss with
  | nil => simp at hs
  | cons q qs ih =>
    simp only [Schema.allOneOfFree, Bool.and_eq_true] at h
    cases List.mem_cons.mp hs with
    | inl e => subst e; exact h.1
    | inr e => exact ih h.2 e

/-- more fuel keeps a value valid (no `oneOf`: there more fuel could make a second alternative valid) -/
theorem validJN_mono (re : Regex) (defs : Defs) (hd : Schema.propsOneOfFree defs = true) :
    ∀ f s v, s.oneOfFree = true → validJN re f defs s v = true → validJN re (f + 1) defs s v = true := by
  intro f
  induction f with
  | zero => intro s v _ h; simp [validJN] at h
  | succ f ih =>
    intro s v hs h
    cases s with
    | any => simp [validJN]
    | null => simpa [validJN] using h
    | scalar ty n b => simpa [validJN] using h
    | enum vals => simpa [validJN] using h
    | const a => simpa [validJN] using h
    | array items mn mx =>
      simp only [Schema.oneOfFree] at hs
      cases v <;> simp only [validJN, Bool.false_eq_true] at h
      rename_i xs
      simp only [Bool.and_eq_true, List.all_eq_true] at h
      simp only [validJN, Bool.and_eq_true, List.all_eq_true]
      exact ⟨h.1, fun x hx => ih items x hs (h.2 x hx)⟩
    | object props req addl =>
      simp only [Schema.oneOfFree] at hs
      cases v <;> simp only [validJN, Bool.false_eq_true] at h
      rename_i kvs
      simp only [Bool.and_eq_true, List.all_eq_true] at h
      obtain ⟨⟨h1, h2⟩, h3⟩ := h
      simp only [validJN, Bool.and_eq_true, List.all_eq_true]
      refine ⟨⟨h1, ?_⟩, h3⟩
      intro p hp
      have := h2 p hp
      cases hl : kvs.lookup p.1 with
      | none => simp
      | some x =>
        simp only [hl, Bool.or_eq_true] at this
        simp only [Bool.or_eq_true]
        cases this with
        | inl e => exact Or.inl e
        | inr e => exact Or.inr (ih p.2 x (propsOneOfFree_mem hs hp) e)
    | dict value =>
      simp only [Schema.oneOfFree] at hs
      cases v <;> simp only [validJN, Bool.false_eq_true] at h
      rename_i kvs
      simp only [List.all_eq_true] at h
      simp only [validJN, List.all_eq_true]
      exact fun kv hkv => ih value kv.2 hs (h kv hkv)
    | ref n =>
      simp only [validJN] at h ⊢
      cases hl : defs.lookup n with
      | none => simp [hl] at h
      | some t =>
        simp only [hl] at h ⊢
        exact ih t v (propsOneOfFree_mem (p := (n, t)) hd (lookup_mem defs n t hl)) h
    | anyOf alts =>
      simp only [Schema.oneOfFree] at hs
      simp only [validJN, List.any_eq_true] at h ⊢
      obtain ⟨a, ha, hva⟩ := h
      exact ⟨a, ha, ih a v (allOneOfFree_mem hs ha) hva⟩
    | oneOf alts => simp [Schema.oneOfFree] at hs
    | allOf refs props req xreq => simp [Schema.oneOfFree] at hs

theorem validJN_mono_le (re : Regex) (defs : Defs) (hd : Schema.propsOneOfFree defs = true)
    (s : Schema) (v : Json) (hs : s.oneOfFree = true) (f f' : Nat) (hle : f ≤ f')
    (h : validJN re f defs s v = true) : validJN re f' defs s v = true := by
  induction hle with
  | refl => exact h
  | step _ ih => exact validJN_mono re defs hd _ s v hs ih


end Dcg.Proofs.Sem

namespace Dcg.Proofs.Sem
open Dcg.Sem Dcg.Sem.Pyd Dcg.Model.Constraints Dcg.Model.Translate

mutual
/-- Where the generated model is claimed to reject whatever the schema rejects (standalone
places: document/definition, array item, union alternative, `additionalProperties` value).
Excluded — each refuted on the pinned tree: a constrained scalar in a plain standalone place under
`field_constraints` (D11), item-count constraints on an array that is not a member / definition
without `field_constraints` (D31), `oneOf` (a Union accepts when two alternatives match), and in
`propsStrict` a required `const` member in v1-style output (D30). -/
def strictSafe (st : Style) (fc : Bool) : Ctx → Schema → Bool
  | ctx, .scalar _ _ b => !(ctx == .plain && fc) || !boundsHasConstraint b
  | ctx, .array items mn mx =>
    (match ctx with
      | .top => true
      | .plain => !(mn.isSome || mx.isSome)
      | .item _ => !(mn.isSome || mx.isSome) || fc) &&
    strictSafe st fc (.item (mn.isSome || mx.isSome)) items
  | _, .object props req _ => propsStrict st fc req props
  | _, .dict value => strictSafe st fc .plain value
  | _, .anyOf alts => altsStrict st fc alts
  | _, .oneOf _ => false
  | _, _ => true
/-- a member: its scalar / item-count constraints travel in the type or in `Field()` -/
def memberStrict (st : Style) (fc : Bool) : Schema → Bool
  | .scalar _ _ _ => true
  | .array items mn mx => strictSafe st fc (.item (mn.isSome || mx.isSome)) items
  | .object props req _ => propsStrict st fc req props
  | .dict value => strictSafe st fc .plain value
  | .anyOf alts => altsStrict st fc alts
  | .oneOf _ => false
  | _ => true
def propsStrict (st : Style) (fc : Bool) (req : List (List Char)) : List (List Char × Schema) → Bool
  | [] => true
  | p :: ps =>
    !(constDefaulted st p.2 && req.contains p.1) && memberStrict st fc p.2 && propsStrict st fc req ps
def altsStrict (st : Style) (fc : Bool) : List Schema → Bool
  | [] => true
  | a :: as => strictSafe st fc (.item false) a && altsStrict st fc as
end

def defsStrict (st : Style) (fc : Bool) : Defs → Bool
  | [] => true
  | p :: ps => strictSafe st fc .top p.2 && defsStrict st fc ps

theorem propsStrict_mem {st : Style} {fc : Bool} {req : List (List Char)}
    {ps : List (List Char × Schema)} (h : propsStrict st fc req ps = true)
    {p : List Char × Schema} (hp : p ∈ ps) :
    (constDefaulted st p.2 && req.contains p.1) = false ∧ memberStrict st fc p.2 = true := by
  induction ps with
  | nil => simp at hp
  | cons q qs ih =>
    simp only [propsStrict, Bool.and_eq_true, Bool.not_eq_true'] at h
    cases List.mem_cons.mp hp with
    | inl e => subst e; exact ⟨h.1.1, h.1.2⟩
    | inr e => exact ih h.2 e

theorem altsStrict_mem {st : Style} {fc : Bool} {as : List Schema} (h : altsStrict st fc as = true)
    {a : Schema} (ha : a ∈ as) : strictSafe st fc (.item false) a = true := by
  induction as with
  | nil => simp at ha
  | cons q qs ih =>
    simp only [altsStrict, Bool.and_eq_true] at h
    cases List.mem_cons.mp ha with
    | inl e => subst e; exact h.1
    | inr e => exact ih h.2 e

theorem defsStrict_lookup {st : Style} {fc : Bool} {defs : Defs} (h : defsStrict st fc defs = true)
    {n : List Char} {s : Schema} (hl : defs.lookup n = some s) : strictSafe st fc .top s = true := by
  induction defs with
  | nil => simp [List.lookup] at hl
  | cons p ps ih =>
    obtain ⟨k, t⟩ := p
    simp only [defsStrict, Bool.and_eq_true] at h
    simp only [List.lookup] at hl
    split at hl
    · simp at hl; subst hl; exact h.1
    · exact ih h.2 hl

theorem and_eq_accept {a b : Tri} : Tri.and a b = .accept ↔ a = .accept ∧ b = .accept := by
  cases a <;> cases b <;> simp [Tri.and]

theorem all_eq_accept {xs : List Tri} : Tri.all xs = .accept ↔ ∀ x ∈ xs, x = .accept := by
  induction xs with
  | nil => simp [Tri.all]
  | cons x xs ih =>
    have : Tri.all (x :: xs) = Tri.and x (Tri.all xs) := rfl
    rw [this, and_eq_accept, ih]
    simp

theorem or_eq_accept {a b : Tri} : Tri.or a b = .accept ↔ a = .accept ∨ b = .accept := by
  cases a <;> cases b <;> simp [Tri.or]

theorem any_eq_accept {xs : List Tri} : Tri.any xs = .accept ↔ ∃ x ∈ xs, x = .accept := by
  induction xs with
  | nil => simp [Tri.any]
  | cons x xs ih =>
    have : Tri.any (x :: xs) = Tri.or x (Tri.any xs) := rfl
    rw [this, or_eq_accept, ih]
    constructor
    · rintro (h | ⟨y, hy, rfl⟩)
      · exact ⟨x, by simp, h⟩
      · exact ⟨_, by simp [hy], rfl⟩
    · rintro ⟨y, hy, rfl⟩
      cases List.mem_cons.mp hy with
      | inl e => exact Or.inl e.symm
      | inr e => exact Or.inr ⟨_, e, rfl⟩

theorem ofBool_eq_accept {b : Bool} : Tri.ofBool b = .accept ↔ b = true := by
  cases b <;> simp [Tri.ofBool]

theorem numOK_noCons (b : Bounds) (h : boundsHasConstraint b = false) (x : Dec) : numOK b x = true := by
  obtain ⟨mn, mx, xmn, xmx, mul, minl, maxl, pat⟩ := b
  simp only [boundsHasConstraint, Bool.or_eq_false_iff, Option.isSome_eq_false_iff,
    Option.isNone_iff_eq_none] at h
  obtain ⟨⟨⟨⟨⟨⟨⟨rfl, rfl⟩, rfl⟩, rfl⟩, rfl⟩, rfl⟩, rfl⟩, rfl⟩ := h
  simp [numOK]

theorem strOK_noCons (re : Regex) (b : Bounds) (h : boundsHasConstraint b = false) (s : List Char) :
    strOK re b s = true := by
  obtain ⟨mn, mx, xmn, xmx, mul, minl, maxl, pat⟩ := b
  simp only [boundsHasConstraint, Bool.or_eq_false_iff, Option.isSome_eq_false_iff,
    Option.isNone_iff_eq_none] at h
  obtain ⟨⟨⟨⟨⟨⟨⟨rfl, rfl⟩, rfl⟩, rfl⟩, rfl⟩, rfl⟩, rfl⟩, rfl⟩ := h
  simp [strOK]

/-- a scalar leaf that says `accept` has a value the schema admits — provided its constraints
are somewhere: in the type (no `field_constraints`), in the accompanying `Field()`, or absent -/
theorem scalar_accept_valid (st : Style) (re : Regex) (o : Opts) (h : TableOK st) (ty : STy)
    (n : Bool) (b : Bounds) (v : Json) (hok : scalarOK ty b = true)
    (hacc : coreVerdict st re ty n (typeCons st o ty b) v = .accept)
    (hcons : o.fieldConstraints = false ∨ checkCons st re (fieldConsOfBounds st ty b) v = .accept ∨
      boundsHasConstraint b = false) :
    ((n && v.isNull) || validScalar re ty b v) = true := by
  obtain ⟨⟨i1, i2, i3, i4, i5⟩, ⟨n1, n2, n3, n4, n5⟩, ⟨s1, s2, s3⟩, ⟨f1, f2, f3, f4, f5⟩,
    ⟨g1, g2, g3⟩, _, _, _⟩ := h
  have hint : ty = .integer → ∀ pk d, (d ∈ b.minimum ∨ d ∈ b.maximum ∨ d ∈ b.exclMin ∨ d ∈ b.exclMax ∨
      d ∈ b.multipleOf) → ∀ r, castValue r .int pk d = d := by
    intro hty pk d hd r
    subst hty
    simp only [scalarOK, Bool.and_eq_true] at hok
    exact castValue_integral _ _ _ _ (integral_mem _ hok.2 d hd)
  simp only [coreVerdict] at hacc
  cases hnn : (n && v.isNull) with
  | true => simp
  | false =>
    simp only [hnn, Bool.false_eq_true, if_false] at hacc
    simp only [Bool.false_or]
    unfold typeCons at hacc
    unfold fieldConsOfBounds at hcons
    cases ty <;> cases v <;> simp [acceptsScalar] at hacc <;>
      simp only [scalarOK, Bool.and_eq_true] at hok <;>
      simp only [validScalar, famOf, Option.getD, checkCons] at hcons ⊢
    · -- integer
      rename_i x
      have e1 := checkNum_consOfBounds _ _ b x i1 i2 i3 i4 i5 hok.1 (fun pk d hd => hint rfl pk d hd .conType)
      have e2 := checkNum_consOfBounds _ _ b x f1 f2 f3 f4 f5 hok.1 (fun pk d hd => hint rfl pk d hd .field)
      rcases hcons with hc | hc | hc
      · simp [hc, famOf, e1, Tri.ofBool] at hacc
        cases hi : x.isInt <;> simp_all
      · cases hfc : o.fieldConstraints <;> simp [hfc, famOf, e1, checkNum_empty, Tri.ofBool] at hacc <;>
          simp [e2, Tri.ofBool] at hc <;> cases hi : x.isInt <;> simp_all
      · cases hfc : o.fieldConstraints <;> simp [hfc, famOf, e1, checkNum_empty, Tri.ofBool] at hacc <;>
          cases hi : x.isInt <;> simp_all [numOK_noCons b hc x]
    · -- number
      rename_i x
      have e1 := checkNum_consOfBounds (conTypeKw st .num) (castValue .conType .num) b x n1 n2 n3 n4 n5 hok
        (fun pk d _ => by simp [castValue])
      have e2 := checkNum_consOfBounds (fieldKw st) (castValue .field .num) b x f1 f2 f3 f4 f5 hok
        (fun pk d _ => by simp [castValue])
      rcases hcons with hc | hc | hc
      · simp [hc, famOf, e1, Tri.ofBool] at hacc
        exact hacc
      · simp [e2, Tri.ofBool] at hc
        exact hc
      · exact numOK_noCons b hc x
    · -- string
      rename_i s
      have e1 := checkStr_consOfBounds st re (conTypeKw st .str) (castValue .conType .str) b s s1 s2 s3 hok
      have e2 := checkStr_consOfBounds st re (fieldKw st) (castValue .field .str) b s g1 g2 g3 hok
      rcases hcons with hc | hc | hc
      · simp [hc, famOf, e1, Tri.ofBool] at hacc
        exact hacc
      · simp [e2, Tri.ofBool] at hc
        exact hc
      · exact strOK_noCons re b hc s


end Dcg.Proofs.Sem

namespace Dcg.Proofs.Sem
open Dcg.Sem Dcg.Sem.Pyd Dcg.Model.Constraints Dcg.Model.Translate

section
variable (st : Style) (o : Opts) (re : Regex) (defs : Defs)

/-- statement of the soundness induction at fuel `g` -/
def SD (g : Nat) : Prop :=
  ∀ ctx s v, s.inSubset = true → s.oneOfFree = true → strictSafe st o.fieldConstraints ctx s = true →
    acceptsTy st re g (trDefs st o defs) (tr st o ctx s) v = .accept → validJN re g defs s v = true

def SDle (g : Nat) : Prop := ∀ g', g' ≤ g → SD st o re defs g'

theorem core_accept (ty : STy) (n : Bool) (b : Bounds) (v : Json) (g : Nat) (D : IRDefs)
    (h : acceptsTy st re g D (scalarCore st o ty n b) v = .accept) :
    coreVerdict st re ty n (typeCons st o ty b) v = .accept := by
  rcases acceptsTy_core_cases st o re ty n b v g D with e | e
  · rw [e] at h; cases h
  · rw [e] at h; exact h

theorem sd_scalar (h : TableOK st) (g : Nat) (ctx : Ctx) (ty : STy) (n : Bool) (b : Bounds)
    (v : Json) (hok : scalarOK ty b = true)
    (hs : strictSafe st o.fieldConstraints ctx (.scalar ty n b) = true)
    (hacc : acceptsTy st re (g + 1) (trDefs st o defs) (tr st o ctx (.scalar ty n b)) v = .accept) :
    validJN re (g + 1) defs (.scalar ty n b) v = true := by
  simp only [validJN]
  have key := scalar_accept_valid st re o h ty n b v hok
  cases ctx with
  | top =>
    simp only [tr, acceptsTy, and_eq_accept] at hacc
    refine key (core_accept st o re ty n b v g _ hacc.1) ?_
    cases hfc : o.fieldConstraints with
    | false => exact Or.inl rfl
    | true => simp only [rootCons, hfc, if_true] at hacc; exact Or.inr (Or.inl hacc.2)
  | plain =>
    simp only [tr] at hacc
    refine key (core_accept st o re ty n b v (g + 1) _ hacc) ?_
    cases hfc : o.fieldConstraints with
    | false => exact Or.inl rfl
    | true =>
      simp only [strictSafe, hfc, beq_self_eq_true, Bool.and_true, Bool.not_true, Bool.false_or,
        Bool.not_eq_true'] at hs
      exact Or.inr (Or.inr hs)
  | item phc =>
    simp only [tr] at hacc
    cases hfc : o.fieldConstraints with
    | false =>
      split at hacc
      · simp only [acceptsTy, and_eq_accept] at hacc
        exact key (core_accept st o re ty n b v g _ hacc.1) (Or.inl hfc)
      · exact key (core_accept st o re ty n b v (g + 1) _ hacc) (Or.inl hfc)
    | true =>
      simp only [hfc, Bool.or_true, Bool.and_true] at hacc
      cases hb : boundsHasConstraint b with
      | false =>
        simp only [hb, Bool.false_eq_true, if_false] at hacc
        exact key (core_accept st o re ty n b v (g + 1) _ hacc) (Or.inr (Or.inr hb))
      | true =>
        simp only [hb, if_true, acceptsTy, and_eq_accept, rootCons, hfc] at hacc
        exact key (core_accept st o re ty n b v g _ hacc.1) (Or.inr (Or.inl hacc.2))

/-- a list type that accepts an array: every item is valid (at the fuel the items were checked with) -/
theorem sd_list (hdo : Schema.propsOneOfFree defs = true) (g : Nat) (ih : SDle st o re defs g)
    (ctx : Ctx) (items : Schema) (v : Json) (hsub : items.inSubset = true)
    (hof : items.oneOfFree = true) (hs : strictSafe st o.fieldConstraints ctx items = true)
    (k : Nat) (hk : k ≤ g + 1)
    (hacc : acceptsTy st re k (trDefs st o defs) (.list (tr st o ctx items)) v = .accept) :
    ∃ xs, v = .arr xs ∧ ∀ x ∈ xs, validJN re g defs items x = true := by
  cases k with
  | zero => simp [acceptsTy] at hacc
  | succ k =>
    cases v <;> simp only [acceptsTy, reduceCtorEq] at hacc
    rename_i xs
    refine ⟨xs, rfl, ?_⟩
    intro x hx
    rw [all_eq_accept] at hacc
    have hxa := hacc _ (List.mem_map.mpr ⟨x, hx, rfl⟩)
    have := ih k (by omega) ctx items x hsub hof hs hxa
    exact validJN_mono_le re defs hdo items x hof k g (by omega) this


end
end Dcg.Proofs.Sem

namespace Dcg.Proofs.Sem
open Dcg.Sem Dcg.Sem.Pyd Dcg.Model.Constraints Dcg.Model.Translate

section
variable (st : Style) (o : Opts) (re : Regex) (defs : Defs)

theorem checkCons_items_accept (h : TableOK st) (mn mx : Option Nat) (xs : List Json)
    (hc : checkCons st re (consOfItems (fieldKw st) mn mx) (.arr xs) = .accept) :
    lenOK mn mx xs.length = true := by
  obtain ⟨_, _, _, _, _, ⟨a1, a2⟩, _, _⟩ := h
  simpa [checkCons, checkLen_consOfItems st _ mn mx _ a1 a2, Tri.ofBool] using hc

theorem lenOK_none (n : Nat) : lenOK none none n = true := by simp [lenOK]

theorem sd_array (h : TableOK st) (hdo : Schema.propsOneOfFree defs = true) (g : Nat)
    (ih : SDle st o re defs g) (ctx : Ctx) (items : Schema) (mn mx : Option Nat) (v : Json)
    (hsub : items.inSubset = true) (hof : items.oneOfFree = true)
    (hs : strictSafe st o.fieldConstraints ctx (.array items mn mx) = true)
    (hacc : acceptsTy st re (g + 1) (trDefs st o defs) (tr st o ctx (.array items mn mx)) v = .accept) :
    validJN re (g + 1) defs (.array items mn mx) v = true := by
  simp only [strictSafe, Bool.and_eq_true] at hs
  obtain ⟨hctx, hitems⟩ := hs
  have hl := sd_list st o re defs hdo g ih (.item (mn.isSome || mx.isSome)) items v hsub hof hitems
  have fin : ∀ xs, v = .arr xs → (∀ x ∈ xs, validJN re g defs items x = true) →
      lenOK mn mx xs.length = true → validJN re (g + 1) defs (.array items mn mx) v = true := by
    intro xs hv hall hlen
    subst hv
    simp only [validJN, Bool.and_eq_true, List.all_eq_true]
    exact ⟨hlen, hall⟩
  have noc : (mn.isSome || mx.isSome) = false → ∀ n, lenOK mn mx n = true := by
    intro hc n
    cases mn <;> cases mx <;> simp at hc
    exact lenOK_none n
  cases ctx with
  | top =>
    simp only [tr, acceptsTy, and_eq_accept] at hacc
    obtain ⟨xs, hv, hall⟩ := hl g (by omega) hacc.1
    subst hv
    exact fin xs rfl hall (checkCons_items_accept st re h mn mx xs hacc.2)
  | plain =>
    simp only [tr] at hacc
    obtain ⟨xs, hv, hall⟩ := hl (g + 1) (by omega) hacc
    have hc : (mn.isSome || mx.isSome) = false := by simpa using hctx
    exact fin xs hv hall (noc hc _)
  | item phc =>
    simp only [tr] at hacc
    cases hc : (mn.isSome || mx.isSome) with
    | false =>
      simp only [hc, Bool.false_and, Bool.false_eq_true, if_false] at hacc
      rw [hc] at hl
      obtain ⟨xs, hv, hall⟩ := hl (g + 1) (by omega) hacc
      exact fin xs hv hall (noc hc _)
    | true =>
      simp only [hc, Bool.not_true, Bool.false_or] at hctx
      simp only [hc, hctx, Bool.or_true, Bool.and_true, if_true, acceptsTy, and_eq_accept, rootCons] at hacc
      rw [hc] at hl
      obtain ⟨xs, hv, hall⟩ := hl g (by omega) hacc.1
      subst hv
      exact fin xs rfl hall (checkCons_items_accept st re h mn mx xs hacc.2)

/-- a member: its type verdict together with its `Field()` arguments -/
theorem sd_member (h : TableOK st) (hdo : Schema.propsOneOfFree defs = true) (g : Nat)
    (ih : SDle st o re defs g) (s : Schema) (x : Json) (hsub : s.inSubset = true)
    (hof : s.oneOfFree = true) (hs : memberStrict st o.fieldConstraints s = true)
    (hacc : Tri.and (acceptsTy st re g (trDefs st o defs) (tr st o .plain s) x)
      (checkCons st re (fieldCons st o s) x) = .accept) :
    validJN re g defs s x = true := by
  rw [and_eq_accept] at hacc
  obtain ⟨ht, hc⟩ := hacc
  cases g with
  | zero => simp [acceptsTy] at ht
  | succ g =>
    have ihg : SDle st o re defs g := fun g' hg' => ih g' (by omega)
    cases s with
    | scalar ty n b =>
      simp only [Schema.inSubset] at hsub
      simp only [tr] at ht
      simp only [validJN]
      refine scalar_accept_valid st re o h ty n b x hsub (core_accept st o re ty n b x (g + 1) _ ht) ?_
      cases hfc : o.fieldConstraints with
      | false => exact Or.inl rfl
      | true => simp only [fieldCons, hfc, if_true] at hc; exact Or.inr (Or.inl hc)
    | array items mn mx =>
      simp only [Schema.inSubset] at hsub
      simp only [Schema.oneOfFree] at hof
      simp only [memberStrict] at hs
      simp only [tr] at ht
      obtain ⟨xs, hv, hall⟩ := sd_list st o re defs hdo g ihg (.item (mn.isSome || mx.isSome)) items x hsub hof hs
        (g + 1) (by omega) ht
      subst hv
      simp only [fieldCons] at hc
      simp only [validJN, Bool.and_eq_true, List.all_eq_true]
      exact ⟨checkCons_items_accept st re h mn mx xs hc, hall⟩
    | any => exact ih (g + 1) (Nat.le_refl _) .plain _ x hsub hof (by simp [strictSafe]) ht
    | null => exact ih (g + 1) (Nat.le_refl _) .plain _ x hsub hof (by simp [strictSafe]) ht
    | enum vals => exact ih (g + 1) (Nat.le_refl _) .plain _ x hsub hof (by simp [strictSafe]) ht
    | const a => exact ih (g + 1) (Nat.le_refl _) .plain _ x hsub hof (by simp [strictSafe]) ht
    | ref n => exact ih (g + 1) (Nat.le_refl _) .plain _ x hsub hof (by simp [strictSafe]) ht
    | object props req addl =>
      exact ih (g + 1) (Nat.le_refl _) .plain _ x hsub hof (by simpa [strictSafe, memberStrict] using hs) ht
    | dict value =>
      exact ih (g + 1) (Nat.le_refl _) .plain _ x hsub hof (by simpa [strictSafe, memberStrict] using hs) ht
    | anyOf alts =>
      exact ih (g + 1) (Nat.le_refl _) .plain _ x hsub hof (by simpa [strictSafe, memberStrict] using hs) ht
    | oneOf alts => simp [Schema.oneOfFree] at hof
    | allOf refs props req xreq => simp [Schema.oneOfFree] at hof


end
end Dcg.Proofs.Sem

namespace Dcg.Proofs.Sem
open Dcg.Sem Dcg.Sem.Pyd Dcg.Model.Constraints Dcg.Model.Translate

section
variable (st : Style) (o : Opts) (re : Regex) (defs : Defs)

theorem sd_object (h : TableOK st) (hdo : Schema.propsOneOfFree defs = true) (g : Nat)
    (ih : SDle st o re defs g) (ctx : Ctx) (props : List (List Char × Schema))
    (req : List (List Char)) (addl : Addl) (v : Json)
    (hsub : (Schema.object props req addl).inSubset = true)
    (hof : (Schema.object props req addl).oneOfFree = true)
    (hs : strictSafe st o.fieldConstraints ctx (.object props req addl) = true)
    (hacc : acceptsTy st re (g + 1) (trDefs st o defs) (tr st o ctx (.object props req addl)) v = .accept) :
    validJN re (g + 1) defs (.object props req addl) v = true := by
  simp only [Schema.inSubset, Bool.and_eq_true, List.all_eq_true] at hsub
  obtain ⟨⟨hps, hnd⟩, hreqdecl⟩ := hsub
  simp only [Schema.oneOfFree] at hof
  simp only [strictSafe] at hs
  cases v <;> simp only [tr, acceptsTy, reduceCtorEq] at hacc
  rename_i kvs
  rw [and_eq_accept, all_eq_accept, trProps_eq_map] at hacc
  obtain ⟨hfields, hextra⟩ := hacc
  -- the verdict of one declared member
  have hfield : ∀ p ∈ props,
      (match kvs.lookup p.1 with
        | none => if (req.contains p.1 && !constDefaulted st p.2) = true then
            (if isOpt (tr st o .plain p.2) = true then Tri.laxZone else Tri.reject) else Tri.accept
        | some x => if (x.isNull && !(req.contains p.1 && !constDefaulted st p.2) &&
              !isConst (tr st o .plain p.2)) = true then Tri.accept
            else Tri.and (acceptsTy st re g (trDefs st o defs) (tr st o .plain p.2) x)
              (checkCons st re (fieldCons st o p.2) x)) = Tri.accept := by
    intro p hp
    have := hfields _ (List.mem_map.mpr ⟨(p.1, req.contains p.1 && !constDefaulted st p.2,
      fieldCons st o p.2, tr st o .plain p.2), List.mem_map.mpr ⟨p, hp, rfl⟩, rfl⟩)
    exact this
  simp only [validJN, Bool.and_eq_true, List.all_eq_true]
  refine ⟨⟨?_, ?_⟩, ?_⟩
  · -- required members are present
    intro k hk
    have hdecl : (props.map (·.1)).contains k = true := hreqdecl k hk
    simp only [List.contains_iff_mem, List.mem_map] at hdecl
    obtain ⟨p, hp, rfl⟩ := hdecl
    have hstrict := (propsStrict_mem hs hp).1
    have hf := hfield p hp
    have hrk : req.contains p.1 = true := by simpa using hk
    simp only [hrk, Bool.and_true] at hstrict
    cases hl : kvs.lookup p.1 with
    | none =>
      simp only [hl, hrk, hstrict, Bool.not_false, Bool.and_self, if_true] at hf
      split at hf <;> cases hf
    | some x => simp [hasKey, hl]
  · -- every declared member that is present
    intro p hp
    have hf := hfield p hp
    have hstrict := propsStrict_mem hs hp
    cases hl : kvs.lookup p.1 with
    | none => simp
    | some x =>
      simp only [hl] at hf
      simp only [Bool.or_eq_true, Bool.and_eq_true, Bool.not_eq_true']
      split at hf
      · rename_i hcond
        simp only [Bool.and_eq_true, Bool.not_eq_true', Bool.and_eq_false_iff] at hcond
        obtain ⟨⟨hnull, hnreq⟩, hnc⟩ := hcond
        left
        refine ⟨?_, hnull⟩
        rcases hnreq with hr | hr
        · exact hr
        · -- the member is `const` with a default: then its IR is `const`, contradiction
          simp only [Bool.not_eq_false'] at hr
          rw [isConst_tr] at hnc
          cases hp2 : p.2 <;> simp [hp2, constDefaulted] at hr hnc
      · right
        exact sd_member st o re defs h hdo g ih p.2 x (propsInSubset_mem hps hp)
          (propsOneOfFree_mem hof hp) hstrict.2 hf
  · -- extra members
    have hn2 : (List.map (fun p : List Char × Schema =>
        (p.1, req.contains p.1 && !constDefaulted st p.2, fieldCons st o p.2, tr st o .plain p.2)) props).map
          (·.1) = props.map (·.1) := by
      rw [List.map_map]; rfl
    obtain ⟨_, _, _, _, _, _, _, e3⟩ := h
    cases addl with
    | absent => simp
    | allow => simp
    | forbid =>
      simp only [e3, beq_self_eq_true, if_true] at hextra
      rw [hn2, ofBool_eq_accept] at hextra
      simpa using hextra

theorem sd_all (h : TableOK st) (hd : defsInSubset defs = true)
    (hdo : Schema.propsOneOfFree defs = true)
    (hds : defsStrict st o.fieldConstraints defs = true) : ∀ g, SDle st o re defs g := by
  intro g
  induction g with
  | zero =>
    intro g' hg' ctx s v _ _ _ hacc
    have : g' = 0 := by omega
    subst this
    simp [acceptsTy] at hacc
  | succ g ih =>
    intro g' hg'
    by_cases hle : g' ≤ g
    · exact ih g' hle
    · have : g' = g + 1 := by omega
      subst this
      intro ctx s v hsub hof hs hacc
      cases s with
      | any => simp [validJN]
      | null =>
        simp only [tr, acceptsTy] at hacc
        simp only [validJN]
        cases hn : v.isNull <;> simp [hn] at hacc ⊢
      | scalar ty n b =>
        simp only [Schema.inSubset] at hsub
        exact sd_scalar st o re defs h g ctx ty n b v hsub hs hacc
      | enum vals =>
        simp only [tr, acceptsTy, ofBool_eq_accept] at hacc
        simpa [validJN] using hacc
      | const a =>
        simp only [tr, acceptsTy, ofBool_eq_accept] at hacc
        simpa [validJN] using hacc
      | array items mn mx =>
        simp only [Schema.inSubset] at hsub
        simp only [Schema.oneOfFree] at hof
        exact sd_array st o re defs h hdo g ih ctx items mn mx v hsub hof hs hacc
      | object props req addl => exact sd_object st o re defs h hdo g ih ctx props req addl v hsub hof hs hacc
      | dict value =>
        simp only [Schema.inSubset] at hsub
        simp only [Schema.oneOfFree] at hof
        simp only [strictSafe] at hs
        cases v <;> simp only [tr, acceptsTy, reduceCtorEq] at hacc
        rename_i kvs
        rw [all_eq_accept] at hacc
        simp only [validJN, List.all_eq_true]
        intro kv hkv
        exact ih g (Nat.le_refl _) .plain value kv.2 hsub hof hs
          (hacc _ (List.mem_map.mpr ⟨kv, hkv, rfl⟩))
      | ref n =>
        simp only [tr, acceptsTy, lookup_trDefs] at hacc
        simp only [validJN]
        cases hl : defs.lookup n with
        | none => simp [hl] at hacc
        | some t =>
          simp only [hl, Option.map] at hacc
          exact ih g (Nat.le_refl _) .top t v (defs_lookup_inSubset hd hl)
            (propsOneOfFree_mem (p := (n, t)) hdo (lookup_mem defs n t hl)) (defsStrict_lookup hds hl) hacc
      | anyOf alts =>
        simp only [Schema.inSubset] at hsub
        simp only [Schema.oneOfFree] at hof
        simp only [strictSafe] at hs
        simp only [tr, acceptsTy, trAlts_eq_map, List.map_map] at hacc
        rw [any_eq_accept] at hacc
        obtain ⟨t, ht, hta⟩ := hacc
        simp only [List.mem_map, Function.comp] at ht
        obtain ⟨a, ha, rfl⟩ := ht
        simp only [validJN, List.any_eq_true]
        exact ⟨a, ha, ih g (Nat.le_refl _) (.item false) a v (allInSubset_mem hsub ha)
          (allOneOfFree_mem hof ha) (altsStrict_mem hs ha) hta⟩
      | oneOf alts => simp [Schema.oneOfFree] at hof
      | allOf refs props req xreq => simp [Schema.oneOfFree] at hof


end
end Dcg.Proofs.Sem
