import Dcg.Proofs.SemValid
import Dcg.Proofs.SemSound
import Dcg.Proofs.SemDump
import Dcg.Proofs.SemEnv
import Dcg.Proofs.SemReport
import Dcg.Proofs.SemInherit
/-
Helper lemmas for C03 / C04 / C14 (umbrella): SemBase (three-valued logic, association lists, the
constraint tables as a decidable side condition), SemValid (C03), SemOpts (C14), SemSound (C04), SemInherit (C04: `required` naming an inherited member).
-/
