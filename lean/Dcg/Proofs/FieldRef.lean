import Dcg.Model.FieldRef
import Dcg.Proofs.FieldUnionMember
/-!
`$ref`-typed members (C05): the nullable-reference rule reads the definition wherever it stands
(`sourceOf_of_mem`, `sourceOf_perm`), and the member is rendered as the scalar member `RefVec.asVec`
(`renderR_eq`), so the exhaustive lemmas about scalar members carry over.
-/
namespace Dcg.Proofs.Field
open Dcg.Model.Field

theorem sourceOf_some_mem {r : Nat} {n : Bool} : ∀ {evs : List Ev}, sourceOf r evs = some n → Ev.define r n ∈ evs
  | [], h => by simp [sourceOf] at h
  | .use _ :: es, h => List.mem_cons_of_mem _ (sourceOf_some_mem (evs := es) h)
  | .define r' m :: es, h => by
    simp only [sourceOf] at h
    cases hs : sourceOf r es with
    | some k =>
      rw [hs] at h
      cases h
      exact List.mem_cons_of_mem _ (sourceOf_some_mem hs)
    | none =>
      rw [hs] at h
      by_cases hr : r' = r
      · subst hr; simp at h; subst h; exact List.mem_cons_self
      · simp [hr] at h

theorem mem_definedRefs {r : Nat} {evs : List Ev} : r ∈ definedRefs evs ↔ ∃ n, Ev.define r n ∈ evs := by
  simp only [definedRefs, List.mem_filterMap]
  constructor
  · rintro ⟨e, he, h⟩
    cases e with
    | use _ => cases h
    | define r' n => simp at h; subst h; exact ⟨n, he⟩
  · rintro ⟨n, h⟩
    exact ⟨_, h, rfl⟩

theorem sourceOf_of_mem {r : Nat} {n : Bool} : ∀ {evs : List Ev}, Ev.define r n ∈ evs → (definedRefs evs).Nodup →
    sourceOf r evs = some n
  | [], h, _ => by cases h
  | .use x :: es, h, hn => by
    have : Ev.define r n ∈ es := by
      rcases List.mem_cons.mp h with h | h
      · cases h
      · exact h
    exact sourceOf_of_mem (evs := es) this hn
  | .define r' m :: es, h, hn => by
    have hn' : r' ∉ definedRefs es ∧ (definedRefs es).Nodup := by
      simpa [definedRefs] using hn
    simp only [sourceOf]
    rcases List.mem_cons.mp h with h | h
    · cases h
      have : sourceOf r es = none := by
        cases hs : sourceOf r es with
        | none => rfl
        | some k => exact absurd (mem_definedRefs.mpr ⟨k, sourceOf_some_mem hs⟩) hn'.1
      simp [this]
    · rw [sourceOf_of_mem (evs := es) h hn'.2]

theorem sourceOf_none_of_not_defined {r : Nat} {evs : List Ev} (h : r ∉ definedRefs evs) : sourceOf r evs = none := by
  cases hs : sourceOf r evs with
  | none => rfl
  | some k => exact absurd (mem_definedRefs.mpr ⟨k, sourceOf_some_mem hs⟩) h

theorem definedRefs_perm {a b : List Ev} (h : a.Perm b) : (definedRefs a).Perm (definedRefs b) :=
  h.filterMap _

theorem sourceOf_perm {a b : List Ev} (h : a.Perm b) (hn : (definedRefs a).Nodup) (r : Nat) :
    sourceOf r a = sourceOf r b := by
  have hnb : (definedRefs b).Nodup := (definedRefs_perm h).nodup_iff.mp hn
  by_cases hr : r ∈ definedRefs a
  · obtain ⟨n, hm⟩ := mem_definedRefs.mp hr
    rw [sourceOf_of_mem hm hn, sourceOf_of_mem (h.mem_iff.mp hm) hnb]
  · have hrb : r ∉ definedRefs b := fun hb => hr ((definedRefs_perm h).mem_iff.mpr hb)
    rw [sourceOf_none_of_not_defined hr, sourceOf_none_of_not_defined hrb]


theorem lazyOptional_perm {a b : List Ev} (h : a.Perm b) (hn : (definedRefs a).Nodup) (r : Nat) :
    lazyOptional a r = lazyOptional b r := by
  simp only [lazyOptional, sourceOf_perm h hn r]

theorem lazyOptional_of_mem {evs : List Ev} {r : Nat} {n : Bool} (hm : Ev.define r n ∈ evs)
    (hn : (definedRefs evs).Nodup) : lazyOptional evs r = n := by
  simp only [lazyOptional, sourceOf_of_mem hm hn]
  cases n <;> rfl

theorem RefVec.flag_eq (r : RefVec) : r.flag = definitionNullable r.target := by
  obtain ⟨b, t, f⟩ := r
  cases f <;> cases t <;> rfl

theorem refAsVec_kind (r : RefVec) : r.asVec.reduce.kind = r.base.kind := rfl

theorem renderR_reduces (dec : Kind → Env → Decision) (r : RefVec) :
    renderRD dec r = renderD dec r.asVec.reduce := by
  have h_dio : dataTypeIsOptional r.asVec.reduce = r.flag := by
    cases hfl : r.flag <;> simp [dataTypeIsOptional, typeListHasNull, RefVec.asVec, Vec.reduce, hfl]
  have h_snf : schemaNullableFlag r.asVec.reduce = false := by
    cases hfl : r.flag <;> simp [schemaNullableFlag, RefVec.asVec, Vec.reduce, hfl]
  have h_thn : r.flag = true ∨ false = typeListHasNull r.asVec.reduce := by
    cases hfl : r.flag <;> simp [typeListHasNull, RefVec.asVec, Vec.reduce, hfl]
  have h_c : (Cons.none == Cons.keyword) = (constraintsOf r.asVec.reduce == .keyword) := by
    simp [constraintsOf, RefVec.asVec, Vec.reduce]; split <;> rfl
  have h := renderFieldD_congr dec r.base.kind r.asVec.reduce.required
    (if r.asVec.reduce.sn && (r.asVec.reduce.dflt.given || (r.asVec.reduce.required && !r.asVec.reduce.late)) then some false else none)
    r.asVec.reduce.dflt.given r.asVec.reduce.dflt false (typeListHasNull r.asVec.reduce) r.asVec.reduce.sd r.flag
    r.asVec.reduce.an r.asVec.reduce.hasAlias .none (constraintsOf r.asVec.reduce) .scalar h_thn h_c
  unfold renderRD renderD fromReduced fromRef
  rw [h_dio, h_snf]
  exact h

theorem renderR_eq (r : RefVec) : renderR r = render r.asVec := renderR_reduces _ r

theorem semR_eq (r : RefVec) : semR r = sem r.asVec := by
  simp only [semR, renderR_eq]; rfl


/-- a data type that is optional makes the written annotation admit `None`, whatever the template decides -/
theorem renderFieldD_opt_of_dio (dec : Kind → Env → Decision) (k : Kind) (f : FieldRec)
    (h : f.dataTypeIsOptional = true) : (renderFieldD dec k f).opt = true := by
  have hf : fieldTypeHintOptional k f = true := by simp [fieldTypeHintOptional, h]
  unfold renderFieldD
  simp only
  split
  · cases k <;> simp [fieldView, hf]
  · exact hf

end Dcg.Proofs.Field
