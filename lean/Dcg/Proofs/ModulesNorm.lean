import Dcg.Model.ModulesNorm
import Dcg.Proofs.Modules
/-
Helper lemmas for the C12 theorems about (1) the class-name setter (`setClassName` keeps the module
path) and (2) the normalisation of the keys of the result dict (`rekey`, `resultsHyphen`,
`resultsFinal`).
-/
namespace Dcg.Proofs.Modules
open Dcg.Py.Import Dcg.Model.Modules

/-! ### `split(".")` / `".".join` -/

theorem splitDot_ne_nil (s : List Char) : splitDot s ≠ [] := by
  induction s with
  | nil => simp [splitDot]
  | cons c cs ih =>
    simp only [splitDot]
    split
    · simp
    · split
      · simp
      · simp

theorem splitDot_noDot {s : List Char} (h : '.' ∉ s) : splitDot s = [s] := by
  induction s with
  | nil => rfl
  | cons c cs ih =>
    have hc : c ≠ '.' := fun e => h (by simp [e])
    have hcs : '.' ∉ cs := fun e => h (List.mem_cons_of_mem _ e)
    simp only [splitDot, if_neg hc, ih hcs]

theorem splitDot_append (a b : List Char) : splitDot (a ++ '.' :: b) = splitDot a ++ splitDot b := by
  induction a with
  | nil => simp [splitDot]
  | cons c cs ih =>
    simp only [List.cons_append, splitDot]
    split
    · rw [ih]; rfl
    · rw [ih]
      cases hs : splitDot cs with
      | nil => exact absurd hs (splitDot_ne_nil cs)
      | cons h t => simp

theorem splitDot_parts_noDot {s p : List Char} (hp : p ∈ splitDot s) : '.' ∉ p := by
  induction s generalizing p with
  | nil => simp [splitDot] at hp; subst hp; simp
  | cons c cs ih =>
    simp only [splitDot] at hp
    split at hp
    · rcases List.mem_cons.mp hp with rfl | hp
      · simp
      · exact ih hp
    · rename_i hc
      cases hs : splitDot cs with
      | nil => exact absurd hs (splitDot_ne_nil cs)
      | cons h t =>
        rw [hs] at hp
        rcases List.mem_cons.mp hp with rfl | hp
        · intro hmem
          rcases List.mem_cons.mp hmem with e | hmem
          · exact hc e.symm
          · exact ih (p := h) (by rw [hs]; simp) hmem
        · exact ih (p := p) (by rw [hs]; exact List.mem_cons_of_mem _ hp)

theorem splitDot_joinDot {P : List Name} (hne : P ≠ []) (hP : ∀ p ∈ P, '.' ∉ p) :
    splitDot (joinDot P) = P := by
  induction P with
  | nil => exact absurd rfl hne
  | cons a rest ih =>
    cases rest with
    | nil => simpa [joinDot] using splitDot_noDot (hP a (by simp))
    | cons b rest' =>
      simp only [joinDot]
      rw [splitDot_append, splitDot_noDot (hP a (by simp)), ih (by simp) (fun p hp => hP p (List.mem_cons_of_mem _ hp))]
      rfl

theorem joinDot_splitDot (s : List Char) : joinDot (splitDot s) = s := by
  induction s with
  | nil => rfl
  | cons c cs ih =>
    simp only [splitDot]
    split
    · rename_i hc
      cases hs : splitDot cs with
      | nil => exact absurd hs (splitDot_ne_nil cs)
      | cons h t => rw [hs] at ih; simp only [joinDot, List.nil_append, ih, hc]
    · cases hs : splitDot cs with
      | nil => exact absurd hs (splitDot_ne_nil cs)
      | cons h t =>
        rw [hs] at ih
        cases t with
        | nil => simp only [joinDot] at ih ⊢; rw [ih]
        | cons h2 t2 => simp only [joinDot, List.cons_append] at ih ⊢; rw [ih]

theorem two_le_splitDot_length {s : List Char} (h : '.' ∈ s) : 2 ≤ (splitDot s).length := by
  induction s with
  | nil => simp at h
  | cons c cs ih =>
    simp only [splitDot]
    split
    · have := List.length_pos_iff.mpr (splitDot_ne_nil cs)
      simp only [List.length_cons]; omega
    · rename_i hc
      have hcs : '.' ∈ cs := by
        rcases List.mem_cons.mp h with e | e
        · exact absurd e.symm hc
        · exact e
      have := ih hcs
      cases hs : splitDot cs with
      | nil => exact absurd hs (splitDot_ne_nil cs)
      | cons h t => rw [hs] at this; simpa using this

/-! ### the class-name setter -/

theorem splitDot_setClassName (name cls : List Char) (hcls : '.' ∉ cls) :
    splitDot (setClassName name cls) = (splitDot name).dropLast ++ [cls] := by
  unfold setClassName
  split
  · rename_i hdot
    have hlen := two_le_splitDot_length hdot
    have hne : (splitDot name).dropLast ≠ [] := by
      intro e
      have := congrArg List.length e
      simp only [List.length_dropLast, List.length_nil] at this
      omega
    rw [splitDot_append, splitDot_noDot hcls,
      splitDot_joinDot hne (fun p hp => splitDot_parts_noDot (List.dropLast_subset _ hp))]
  · rename_i hdot
    rw [splitDot_noDot hcls, splitDot_noDot hdot]
    rfl

theorem dropLast_splitDot_setClassName (name cls : List Char) (hcls : '.' ∉ cls) :
    (splitDot (setClassName name cls)).dropLast = (splitDot name).dropLast := by
  rw [splitDot_setClassName name cls hcls, List.dropLast_concat]

theorem getModulePath_setClassName (t : Bool) (name cls : List Char) (file : Option (List Name × Name))
    (hcls : '.' ∉ cls) :
    getModulePath t (setClassName name cls) file = getModulePath t name file := by
  unfold getModulePath
  rw [dropLast_splitDot_setClassName name cls hcls]

theorem className_setClassName (name cls : List Char) (hcls : '.' ∉ cls) :
    className (setClassName name cls) = cls := by
  unfold className
  rw [splitDot_setClassName name cls hcls]
  simp

/-! ### `"-"` → `"_"` -/

theorem normHyphen_hyphenFree (s : Name) : hyphenFreeName (normHyphen s) = true := by
  simp only [hyphenFreeName, normHyphen, List.all_map, List.all_eq_true]
  intro c _
  simp only [Function.comp]
  split <;> simp_all

theorem all_normHyphen_hyphenFree (d : MPath) : (d.map normHyphen).all hyphenFreeName = true := by
  simp only [List.all_map, List.all_eq_true]
  intro x _
  exact normHyphen_hyphenFree x

theorem FileKey.normHyphen_hyphenFree (k : FileKey) : k.normHyphen.hyphenFree = true := by
  cases k with
  | init d => simp only [FileKey.normHyphen, FileKey.hyphenFree]; exact all_normHyphen_hyphenFree d
  | py d s =>
    simp only [FileKey.normHyphen, FileKey.hyphenFree, Bool.and_eq_true]
    exact ⟨all_normHyphen_hyphenFree d, Dcg.Proofs.Modules.normHyphen_hyphenFree s⟩

theorem normHyphen_of_hyphenFree {s : Name} (h : hyphenFreeName s = true) : normHyphen s = s := by
  simp only [hyphenFreeName, List.all_eq_true] at h
  simp only [normHyphen]
  conv => rhs; rw [← List.map_id s]
  apply List.map_congr_left
  intro c hc
  have := h c hc
  split
  · rename_i e; subst e; simp at this
  · rfl

/-! ### keys of a re-keyed dict -/

theorem mem_keys_foldl_rekey (f : FileKey → FileKey) (fm acc : FileMap) (k : FileKey) :
    k ∈ keys (fm.foldl (fun acc e => upsert acc (f e.1) e.2) acc) ↔
      k ∈ keys acc ∨ ∃ k0 ∈ keys fm, f k0 = k := by
  induction fm generalizing acc with
  | nil => simp [keys]
  | cons e rest ih =>
    simp only [List.foldl_cons, ih, mem_keys_upsert]
    constructor
    · rintro ((h | h) | ⟨k0, hk0, h⟩)
      · exact Or.inl h
      · exact Or.inr ⟨e.1, by simp [keys], h.symm⟩
      · exact Or.inr ⟨k0, by simp only [keys, List.map_cons, List.mem_cons] at hk0 ⊢; exact Or.inr hk0, h⟩
    · rintro (h | ⟨k0, hk0, h⟩)
      · exact Or.inl (Or.inl h)
      · simp only [keys, List.map_cons, List.mem_cons] at hk0
        rcases hk0 with rfl | hk0
        · exact Or.inl (Or.inr h.symm)
        · exact Or.inr ⟨k0, hk0, h⟩

theorem mem_keys_rekey {f : FileKey → FileKey} {fm : FileMap} {k : FileKey} :
    k ∈ keys (rekey f fm) ↔ ∃ k0 ∈ keys fm, f k0 = k := by
  unfold rekey
  rw [mem_keys_foldl_rekey]
  simp [keys]

/-! ### one entry per key -/

theorem nodup_keys_upsert {fm : FileMap} (h : (keys fm).Nodup) (k : FileKey) (v : Option MPath) :
    (keys (upsert fm k v)).Nodup := by
  induction fm with
  | nil => simp [upsert, keys]
  | cons e rest ih =>
    obtain ⟨k0, v0⟩ := e
    simp only [keys, List.map_cons, List.nodup_cons] at h
    simp only [upsert]
    split
    · rename_i e; subst e
      simp only [keys, List.map_cons, List.nodup_cons]
      exact h
    · rename_i hne
      simp only [keys, List.map_cons, List.nodup_cons]
      refine ⟨?_, ih h.2⟩
      intro hmem
      have := (mem_keys_upsert (fm := rest) (k := k0) (k' := k) (v := v)).mp hmem
      rcases this with h1 | h1
      · exact h.1 h1
      · exact hne h1

theorem nodup_keys_foldl_rekey (f : FileKey → FileKey) (fm acc : FileMap) (h : (keys acc).Nodup) :
    (keys (fm.foldl (fun acc e => upsert acc (f e.1) e.2) acc)).Nodup := by
  induction fm generalizing acc with
  | nil => exact h
  | cons e rest ih => exact ih _ (nodup_keys_upsert h _ _)

theorem nodup_keys_rekey (f : FileKey → FileKey) (fm : FileMap) : (keys (rekey f fm)).Nodup :=
  nodup_keys_foldl_rekey f fm [] (by simp [keys])

theorem nodup_keys_foldl_upsert_init {fm : FileMap} (ds : List MPath) (body : Option MPath)
    (h : (keys fm).Nodup) : (keys (ds.foldl (fun acc d => upsert acc (.init d) body) fm)).Nodup := by
  induction ds generalizing fm with
  | nil => exact h
  | cons d rest ih => exact ih (nodup_keys_upsert h _ _)

theorem nodup_keys_postTreatDot {fm : FileMap} (h : (keys fm).Nodup) : (keys (postTreatDot fm)).Nodup := by
  unfold postTreatDot
  split
  · exact h
  · exact nodup_keys_foldl_upsert_init _ _ h

/-! ### the later passes keep the keys free of `"-"` -/

theorem hyphenFreeName_iff {s : Name} : hyphenFreeName s = true ↔ ∀ c ∈ s, c ≠ '-' := by
  simp [hyphenFreeName]

theorem mem_joinDot_of_mem {P : List Name} {p : Name} {c : Char} (hp : p ∈ P) (hc : c ∈ p) :
    c ∈ joinDot P := by
  induction P with
  | nil => simp at hp
  | cons a rest ih =>
    cases rest with
    | nil =>
      simp only [List.mem_singleton] at hp
      subst hp
      simpa [joinDot] using hc
    | cons b rest' =>
      simp only [joinDot, List.mem_append, List.mem_cons]
      rcases List.mem_cons.mp hp with rfl | hp
      · exact Or.inl hc
      · exact Or.inr (Or.inr (ih hp))

theorem mem_joinDot {P : List Name} {c : Char} (hc : c ∈ joinDot P) : c = '.' ∨ ∃ p ∈ P, c ∈ p := by
  induction P with
  | nil => simp [joinDot] at hc
  | cons a rest ih =>
    cases rest with
    | nil => exact Or.inr ⟨a, by simp, by simpa [joinDot] using hc⟩
    | cons b rest' =>
      simp only [joinDot, List.mem_append, List.mem_cons] at hc
      rcases hc with h | h | h
      · exact Or.inr ⟨a, by simp, h⟩
      · exact Or.inl h
      · rcases ih h with h | ⟨p, hp, h⟩
        · exact Or.inl h
        · exact Or.inr ⟨p, List.mem_cons_of_mem _ hp, h⟩

theorem mem_of_mem_splitDot {s p : List Char} {c : Char} (hp : p ∈ splitDot s) (hc : c ∈ p) : c ∈ s := by
  rw [← joinDot_splitDot s]
  exact mem_joinDot_of_mem hp hc

theorem hyphenFree_dotsToUnderscore {s : Name} (h : hyphenFreeName s = true) :
    hyphenFreeName (dotsToUnderscore s) = true := by
  rw [hyphenFreeName_iff] at h ⊢
  intro c hc
  simp only [dotsToUnderscore, List.mem_map] at hc
  obtain ⟨c0, hc0, rfl⟩ := hc
  split
  · decide
  · exact h c0 hc0

theorem hyphenFree_dotsButLast {s : Name} (h : hyphenFreeName s = true) :
    hyphenFreeName (dotsButLast s) = true := by
  unfold dotsButLast
  split
  · exact h
  · exact h
  · rename_i last before _hne hrev
    have hparts : ∀ p ∈ splitDot s, ∀ c ∈ p, c ≠ '-' := fun p hp c hc =>
      (hyphenFreeName_iff.mp h) c (mem_of_mem_splitDot hp hc)
    have hmem : ∀ p, p ∈ last :: before → p ∈ splitDot s := by
      intro p hp
      have : p ∈ (splitDot s).reverse := by rw [hrev]; exact hp
      exact List.mem_reverse.mp this
    rw [hyphenFreeName_iff]
    intro c hc
    simp only [List.mem_append, List.mem_cons] at hc
    rcases hc with hc | hc | hc
    · have h1 : hyphenFreeName (joinDot before.reverse) = true := by
        rw [hyphenFreeName_iff]
        intro c' hc'
        rcases mem_joinDot hc' with e | ⟨p, hp, hcp⟩
        · rw [e]; decide
        · exact hparts p (hmem p (List.mem_cons_of_mem _ (List.mem_reverse.mp hp))) c' hcp
      exact (hyphenFreeName_iff.mp (hyphenFree_dotsToUnderscore h1)) c hc
    · rw [hc]; decide
    · exact hparts last (hmem last (by simp)) c hc

theorem FileKey.flattenDots_hyphenFree {k : FileKey} (h : k.hyphenFree = true) :
    k.flattenDots.hyphenFree = true := by
  cases k with
  | init d =>
    simp only [FileKey.hyphenFree, FileKey.flattenDots, List.all_map, List.all_eq_true] at h ⊢
    intro x hx
    exact hyphenFree_dotsButLast (h x hx)
  | py d s =>
    simp only [FileKey.hyphenFree, FileKey.flattenDots, List.all_map, List.all_eq_true, Bool.and_eq_true] at h ⊢
    exact ⟨fun x hx => hyphenFree_dotsButLast (h.1 x hx), hyphenFree_dotsToUnderscore h.2⟩

theorem hyphenFree_keys_rekey_normHyphen (fm : FileMap) :
    ∀ k ∈ keys (rekey FileKey.normHyphen fm), k.hyphenFree = true := by
  intro k hk
  obtain ⟨k0, _, rfl⟩ := mem_keys_rekey.mp hk
  exact FileKey.normHyphen_hyphenFree k0

theorem hyphenFree_keys_rekey_flattenDots {fm : FileMap} (h : ∀ k ∈ keys fm, k.hyphenFree = true) :
    ∀ k ∈ keys (rekey FileKey.flattenDots fm), k.hyphenFree = true := by
  intro k hk
  obtain ⟨k0, hk0, rfl⟩ := mem_keys_rekey.mp hk
  exact FileKey.flattenDots_hyphenFree (h k0 hk0)

theorem FileKey.dir_hyphenFree {k : FileKey} (h : k.hyphenFree = true) : k.dir.all hyphenFreeName = true := by
  cases k with
  | init d => exact h
  | py d s => simp only [FileKey.hyphenFree, Bool.and_eq_true] at h; exact h.1

theorem hyphenFree_keys_postTreatDot {fm : FileMap} (h : ∀ k ∈ keys fm, k.hyphenFree = true) :
    ∀ k ∈ keys (postTreatDot fm), k.hyphenFree = true := by
  unfold postTreatDot
  split
  · exact h
  · intro k hk
    rcases mem_keys_foldl_upsert.mp hk with hk | ⟨d, hd, rfl⟩
    · exact h k hk
    · obtain ⟨e, he, hde⟩ := List.mem_flatMap.mp hd
      obtain ⟨j, _, rfl⟩ := mem_nonemptyPrefixes.mp hde
      have hdir := FileKey.dir_hyphenFree (h e.1 (by simp only [keys, List.mem_map]; exact ⟨e, he, rfl⟩))
      simp only [FileKey.hyphenFree, List.all_eq_true] at hdir ⊢
      intro x hx
      exact hdir x (List.mem_of_mem_take hx)

/-! ### values: what is stored under a key -/

theorem lookup_upsert_self (fm : FileMap) (k : FileKey) (v : Option MPath) :
    (upsert fm k v).lookup k = some v := by
  induction fm with
  | nil => simp [upsert]
  | cons e rest ih =>
    obtain ⟨k0, v0⟩ := e
    simp only [upsert]
    split
    · simp [List.lookup]
    · rename_i hne
      have : (k == k0) = false := by simpa using fun e => hne e.symm
      simp only [List.lookup, this, ih]

theorem lookup_upsert_ne (fm : FileMap) {k k' : FileKey} (v : Option MPath) (hne : k ≠ k') :
    (upsert fm k' v).lookup k = fm.lookup k := by
  induction fm with
  | nil =>
    have : (k == k') = false := by simpa using hne
    simp [upsert, List.lookup, this]
  | cons e rest ih =>
    obtain ⟨k0, v0⟩ := e
    simp only [upsert]
    split
    · rename_i e; subst e
      have : (k == k0) = false := by simpa using hne
      simp only [List.lookup, this]
    · by_cases hk : k = k0
      · subst hk; simp [List.lookup]
      · have : (k == k0) = false := by simpa using hk
        simp only [List.lookup, this, ih]

theorem lookup_of_mem_nodup {fm : FileMap} (h : (keys fm).Nodup) {k : FileKey} {v : Option MPath}
    (hm : (k, v) ∈ fm) : fm.lookup k = some v := by
  induction fm with
  | nil => simp at hm
  | cons e rest ih =>
    obtain ⟨k0, v0⟩ := e
    simp only [keys, List.map_cons, List.nodup_cons] at h
    rcases List.mem_cons.mp hm with e | hm'
    · cases e; simp [List.lookup]
    · have hk : k ≠ k0 := by
        intro e; subst e
        exact h.1 (by simp only [List.mem_map]; exact ⟨(k, v), hm', rfl⟩)
      have : (k == k0) = false := by simpa using hk
      simp only [List.lookup, this]
      exact ih h.2 hm'

theorem lookup_renderLoopW_skip {as : List Assigned} {k : FileKey} (fm : FileMap)
    (h : ∀ b ∈ as, b.written = true → writtenKey b ≠ k) :
    (renderLoopW fm as).lookup k = fm.lookup k := by
  induction as generalizing fm with
  | nil => rfl
  | cons b rest ih =>
    simp only [renderLoopW]
    split
    · rename_i hw
      rw [ih _ (fun c hc => h c (List.mem_cons_of_mem _ hc))]
      exact lookup_upsert_ne fm _ (fun e => h b (by simp) hw e.symm)
    · exact ih _ (fun c hc => h c (List.mem_cons_of_mem _ hc))

theorem lookup_renderLoopW {as : List Assigned} {k : FileKey} {v : Option MPath} (fm : FileMap)
    (hall : ∀ b ∈ as, b.written = true → writtenKey b = k → bodyOf b = v)
    (hex : ∃ b ∈ as, b.written = true ∧ writtenKey b = k) :
    (renderLoopW fm as).lookup k = some v := by
  induction as generalizing fm with
  | nil => obtain ⟨b, hb, _⟩ := hex; simp at hb
  | cons b rest ih =>
    have hall' : ∀ c ∈ rest, c.written = true → writtenKey c = k → bodyOf c = v :=
      fun c hc => hall c (List.mem_cons_of_mem _ hc)
    by_cases hrest : ∃ c ∈ rest, c.written = true ∧ writtenKey c = k
    · simp only [renderLoopW]
      split
      · exact ih _ hall' hrest
      · exact ih _ hall' hrest
    · have hb : b.written = true ∧ writtenKey b = k := by
        obtain ⟨c, hc, hcw⟩ := hex
        rcases List.mem_cons.mp hc with rfl | hc
        · exact hcw
        · exact absurd ⟨c, hc, hcw⟩ hrest
      have hskip : ∀ c ∈ rest, c.written = true → writtenKey c ≠ k :=
        fun c hc hw e => hrest ⟨c, hc, hw, e⟩
      simp only [renderLoopW, hb.1, if_true]
      rw [lookup_renderLoopW_skip _ hskip, hb.2, ← hall b (by simp) hb.1 hb.2, ← hb.2]
      exact lookup_upsert_self fm _ _

theorem lookup_foldl_rekey_skip (f : FileKey → FileKey) {fm : FileMap} {k : FileKey} (acc : FileMap)
    (h : ∀ e ∈ fm, f e.1 ≠ k) :
    (fm.foldl (fun acc e => upsert acc (f e.1) e.2) acc).lookup k = acc.lookup k := by
  induction fm generalizing acc with
  | nil => rfl
  | cons e rest ih =>
    simp only [List.foldl_cons]
    rw [ih _ (fun c hc => h c (List.mem_cons_of_mem _ hc))]
    exact lookup_upsert_ne acc _ (fun e' => h e (by simp) e'.symm)

theorem lookup_foldl_rekey (f : FileKey → FileKey) {fm : FileMap} {k : FileKey} {v : Option MPath}
    (acc : FileMap) (hall : ∀ e ∈ fm, f e.1 = k → e.2 = v) (hex : ∃ e ∈ fm, f e.1 = k) :
    (fm.foldl (fun acc e => upsert acc (f e.1) e.2) acc).lookup k = some v := by
  induction fm generalizing acc with
  | nil => obtain ⟨e, he, _⟩ := hex; simp at he
  | cons e rest ih =>
    have hall' : ∀ c ∈ rest, f c.1 = k → c.2 = v := fun c hc => hall c (List.mem_cons_of_mem _ hc)
    simp only [List.foldl_cons]
    by_cases hrest : ∃ c ∈ rest, f c.1 = k
    · exact ih _ hall' hrest
    · have he : f e.1 = k := by
        obtain ⟨c, hc, hck⟩ := hex
        rcases List.mem_cons.mp hc with rfl | hc
        · exact hck
        · exact absurd ⟨c, hc, hck⟩ hrest
      rw [lookup_foldl_rekey_skip f _ (fun c hc e' => hrest ⟨c, hc, e'⟩), ← he, ← hall e (by simp) he]
      exact lookup_upsert_self acc _ _

/-- the value under a re-keyed key, when no other key of the dict falls on it -/
theorem lookup_rekey (f : FileKey → FileKey) {fm : FileMap} (hnd : (keys fm).Nodup) {k : FileKey}
    {v : Option MPath} (hk : fm.lookup k = some v) (hmem : (k, v) ∈ fm)
    (hinj : ∀ k' ∈ keys fm, f k' = f k → k' = k) :
    (rekey f fm).lookup (f k) = some v := by
  unfold rekey
  apply lookup_foldl_rekey f []
  · intro e he hfe
    have hek : e.1 = k := hinj e.1 (by simp only [keys, List.mem_map]; exact ⟨e, he, rfl⟩) hfe
    have : fm.lookup k = some e.2 := lookup_of_mem_nodup hnd (by rw [← hek]; exact he)
    rw [hk] at this
    cases this; rfl
  · exact ⟨(k, v), hmem, rfl⟩

theorem mem_of_lookup {fm : FileMap} {k : FileKey} {v : Option MPath} (h : fm.lookup k = some v) :
    (k, v) ∈ fm := by
  induction fm with
  | nil => simp [List.lookup] at h
  | cons e rest ih =>
    obtain ⟨k0, v0⟩ := e
    by_cases hk : k = k0
    · subst hk
      simp [List.lookup] at h
      subst h; simp
    · have : (k == k0) = false := by simpa using hk
      simp only [List.lookup, this] at h
      exact List.mem_cons_of_mem _ (ih h)

/-! ### the raw dict has one entry per key -/

theorem nodup_addParent {res : List FileKey} (h : res.Nodup) (m : MPath) : (addParent res m).Nodup := by
  unfold addParent
  split
  · exact h
  · split
    · exact h
    · rename_i hn
      exact List.nodup_append.mpr ⟨h, by simp, by
        intro a ha b hb
        simp only [List.mem_singleton] at hb
        subst hb
        intro e; subst e; exact hn ha⟩

theorem nodup_parentsAfter {res : List FileKey} (h : res.Nodup) (l : List Proc) : (parentsAfter res l).Nodup := by
  induction l generalizing res with
  | nil => exact h
  | cons p ps ih => exact ih (nodup_addParent h p.mod)

theorem nodup_keys_renderLoopW {fm : FileMap} (h : (keys fm).Nodup) (as : List Assigned) :
    (keys (renderLoopW fm as)).Nodup := by
  induction as generalizing fm with
  | nil => exact h
  | cons a rest ih =>
    simp only [renderLoopW]
    split
    · exact ih (nodup_keys_upsert h _ _)
    · exact ih h

theorem nodup_keys_resultsRaw (mods : List MPath) : (keys (resultsRaw mods)).Nodup := by
  unfold resultsRaw
  apply nodup_keys_renderLoopW
  simp only [keys, List.map_map]
  have : ((fun x : FileKey × Option MPath => x.1) ∘ fun x : FileKey => (x, (none : Option MPath))) = id := rfl
  rw [this, List.map_id]
  exact nodup_parentsAfter List.nodup_nil _

/-- the body of a processed module, in the dict before the final passes -/
theorem lookup_resultsRaw {mods : List MPath} {a : Assigned} (ha : a ∈ assign [] (procOrder mods))
    (hw : a.written = true)
    (hsole : ∀ b ∈ assign [] (procOrder mods), b.written = true → writtenKey b = writtenKey a → bodyOf b = bodyOf a) :
    (resultsRaw mods).lookup (writtenKey a) = some (bodyOf a) := by
  unfold resultsRaw
  exact lookup_renderLoopW _ hsole ⟨a, ha, hw, rfl⟩

/-! ### package files and their placeholders -/

theorem mem_keys_renderLoopW {fm : FileMap} {as : List Assigned} {k : FileKey} :
    k ∈ keys (renderLoopW fm as) ↔ k ∈ keys fm ∨ ∃ a ∈ as, a.written = true ∧ writtenKey a = k := by
  induction as generalizing fm with
  | nil => simp [renderLoopW]
  | cons a rest ih =>
    simp only [renderLoopW]
    split
    · rename_i h
      rw [ih, mem_keys_upsert]
      constructor
      · rintro ((h1 | h1) | ⟨b, hb, h2, h3⟩)
        · exact Or.inl h1
        · exact Or.inr ⟨a, by simp, h, h1.symm⟩
        · exact Or.inr ⟨b, List.mem_cons_of_mem _ hb, h2, h3⟩
      · rintro (h1 | ⟨b, hb, h2, h3⟩)
        · exact Or.inl (Or.inl h1)
        · rcases List.mem_cons.mp hb with rfl | hb
          · exact Or.inl (Or.inr h3.symm)
          · exact Or.inr ⟨b, hb, h2, h3⟩
    · rename_i h
      rw [ih]
      constructor
      · rintro (h1 | ⟨b, hb, h2, h3⟩)
        · exact Or.inl h1
        · exact Or.inr ⟨b, List.mem_cons_of_mem _ hb, h2, h3⟩
      · rintro (h1 | ⟨b, hb, h2, h3⟩)
        · exact Or.inl h1
        · rcases List.mem_cons.mp hb with rfl | hb
          · exact absurd h2 h
          · exact Or.inr ⟨b, hb, h2, h3⟩

theorem mem_keys_resultsRaw {mods : List MPath} {k : FileKey} :
    k ∈ keys (resultsRaw mods) ↔
      k ∈ parentsAfter [] (procOrder mods) ∨
      ∃ a ∈ assign [] (procOrder mods), a.written = true ∧ writtenKey a = k := by
  simp only [resultsRaw]
  rw [mem_keys_renderLoopW]
  simp [keys, List.map_map, Function.comp]

/-- a module processed with `init = True` is stored under the raw key `(*module, "__init__.py")`, and that
key is one of the parent placeholders created before -/
theorem init_key_is_placeholder {mods : List MPath} {a : Assigned}
    (ha : a ∈ assign [] (procOrder mods)) (hi : a.init = true) :
    writtenKey a = .init a.mod ∧ FileKey.init a.mod ∈ parentsAfter [] (procOrder mods) := by
  obtain ⟨l1, p, l2, hl, rfl⟩ := mem_assign ha
  rcases assignOne_cases (parentsAfter [] l1) p with ⟨_, _, hf⟩ | ⟨hne, hmem, hkey, _⟩ | ⟨_, _, _, hf⟩
  · rw [hf] at hi; cases hi
  · refine ⟨by simp only [writtenKey, hkey, assignOne_mod], ?_⟩
    rw [assignOne_mod, hl, mem_parentsAfter]
    right
    rcases mem_addParent.mp hmem with h | ⟨h1, h2⟩
    · rcases mem_parentsAfter.mp h with h | ⟨q, hq, h1, h2⟩
      · simp at h
      · exact ⟨q, by simp [hq], h1, h2⟩
    · exact ⟨p, by simp, h1, h2⟩
  · rw [hf] at hi; cases hi

theorem soleWriter_spec {mods : List MPath} {a : Assigned} (h : soleWriter mods a = true) :
    ∀ b ∈ assign [] (procOrder mods), b.written = true → writtenKey b = writtenKey a → bodyOf b = bodyOf a := by
  intro b hb hw hk
  simp only [soleWriter, List.all_eq_true] at h
  have := h b hb
  simp only [hw, hk, Bool.true_and, beq_self_eq_true, Bool.not_true, Bool.false_or, beq_iff_eq] at this
  exact this

theorem solePath_spec {mods : List MPath} {a : Assigned} (h : solePath mods a = true) :
    ∀ k ∈ keys (resultsRaw mods), k.normHyphen = (writtenKey a).normHyphen → k = writtenKey a := by
  intro k hk he
  simp only [solePath, List.all_eq_true] at h
  have := h k hk
  simp only [he, beq_self_eq_true, Bool.not_true, Bool.false_or, beq_iff_eq] at this
  exact this

/-- the body of a processed module is found, in the dict `parse()` returns, under the normalised key -/
theorem lookup_resultsHyphen {mods : List MPath} {a : Assigned} (ha : a ∈ assign [] (procOrder mods))
    (hw : a.written = true) (hs : soleWriter mods a = true) (hp : solePath mods a = true) :
    (resultsHyphen mods).lookup (writtenKey a).normHyphen = some (bodyOf a) := by
  have hraw := lookup_resultsRaw ha hw (soleWriter_spec hs)
  exact lookup_rekey FileKey.normHyphen (nodup_keys_resultsRaw mods) hraw (mem_of_lookup hraw) (solePath_spec hp)

end Dcg.Proofs.Modules
