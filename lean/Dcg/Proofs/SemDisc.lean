import Dcg.Proofs.SemBase
/-
Discriminators (C03): what `Parser.__apply_discriminator_type` does to the class of an alternative
(`patchTag`) keeps every value that carries one of the tag literals; the mapping in effect is
functional; every key of the mapping that points at a definition is one of its tag literals.
-/
namespace Dcg.Proofs.Sem
open Dcg.Sem Dcg.Sem.Pyd Dcg.Model.Constraints Dcg.Model.Translate

/-! ### the mapping -/

/-- EVERY key of the mapping in effect that points at `r` is a tag literal of `r` -/
theorem mem_tagsOf {m : List (List Char × List Char)} {k r : List Char} (h : (k, r) ∈ m) :
    k ∈ tagsOf m r := by
  simp only [tagsOf, List.mem_map, List.mem_filter]
  exact ⟨(k, r), ⟨h, by simp⟩, rfl⟩

theorem of_mem_tagsOf {m : List (List Char × List Char)} {k r : List Char} (h : k ∈ tagsOf m r) :
    (k, r) ∈ m := by
  simp only [tagsOf, List.mem_map, List.mem_filter] at h
  obtain ⟨e, ⟨he, hr⟩, rfl⟩ := h
  have : e.2 = r := by simpa using hr
  subst this
  exact he

theorem lookup_isSome_of_mem {α : Type} (l : List (List Char × α)) (k : List Char) (v : α)
    (h : (k, v) ∈ l) : (l.lookup k).isSome = true := by
  induction l with
  | nil => simp at h
  | cons p ps ih =>
    obtain ⟨k', v'⟩ := p
    simp only [List.lookup]
    cases hk : (k == k') with
    | true => simp
    | false =>
      simp only
      have hne : k ≠ k' := by simpa using hk
      cases List.mem_cons.mp h with
      | inl e => exact absurd (Prod.mk.inj e).1 hne
      | inr e => exact ih e

/-- the mapping in effect sends a tag to at most one definition -/
theorem effMapping_functional (refs : List (List Char)) (m : List (List Char × List Char))
    (hn : namesNodup (m.map (·.1)) = true) {k r r' : List Char}
    (h1 : (k, r') ∈ effMapping refs m) (h2 : (effMapping refs m).lookup k = some r) : r' = r := by
  unfold effMapping at h1 h2
  split at h1
  · -- implicit mapping: every name selects itself
    rename_i he
    simp only [he, if_true] at h2
    have h2' := lookup_mem _ _ _ h2
    simp only [List.mem_map, Prod.mk.injEq] at h1 h2'
    obtain ⟨a, _, rfl, rfl⟩ := h1
    obtain ⟨b, _, hb1, hb2⟩ := h2'
    rw [← hb2, hb1]
  · rename_i he
    simp only [he, Bool.false_eq_true, if_false] at h2
    have := mem_lookup_of_nodup m k r' hn h1
    rw [this] at h2
    exact Option.some.inj h2

/-! ### the patched class accepts what the class accepts, if the tag is one of the literals -/

theorem litTy_ne (st : Style) (re : Regex) (g : Nat) (D : IRDefs) (tags : List Atom) (tag : List Char)
    (ht : tags.any (fun a => a.matches (.str tag)) = true) :
    acceptsTy st re g D (litTy tags) (.str tag) ≠ .reject := by
  cases g with
  | zero => simp [acceptsTy]
  | succ g =>
    match tags, ht with
    | [a], ht =>
      simp only [List.any_cons, List.any_nil, Bool.or_false] at ht
      simp [litTy, acceptsTy, Tri.ofBool, ht]
    | [], ht => simp at ht
    | a :: b :: cs, ht => simp only [litTy, acceptsTy, ht, Tri.ofBool, if_true]; simp

/-- the verdict of one declared member (the function mapped over the fields by `acceptsTy`) -/
abbrev fieldVerdict (st : Style) (re : Regex) (g : Nat) (D : IRDefs) (kvs : List (List Char × Json))
    (fld : List Char × Bool × Cons × Ty) : Tri :=
  match kvs.lookup fld.1 with
  | none => if fld.2.1 then (if isOpt fld.2.2.2 then .laxZone else .reject) else .accept
  | some x =>
    if x.isNull && !fld.2.1 && !isConst fld.2.2.2 then .accept
    else Tri.and (acceptsTy st re g D fld.2.2.2 x) (checkCons st re fld.2.2.1 x)

theorem patchFields_ne (st : Style) (re : Regex) (g : Nat) (D : IRDefs) (kvs : List (List Char × Json))
    (prop : List Char) (tags : List Atom) (tag : List Char)
    (hl : kvs.lookup prop = some (.str tag))
    (ht : tags.any (fun a => a.matches (.str tag)) = true) :
    ∀ fields : List (List Char × Bool × Cons × Ty),
      Tri.all (fields.map (fieldVerdict st re g D kvs)) ≠ .reject →
      Tri.all ((patchFields prop tags fields).map (fieldVerdict st re g D kvs)) ≠ .reject := by
  intro fields
  induction fields with
  | nil =>
    intro _
    rw [all_ne_reject]
    intro t ht'
    simp only [patchFields, List.map_cons, List.map_nil, List.mem_singleton] at ht'
    subst ht'
    simp only [fieldVerdict, hl, Json.isNull, Bool.false_and, Bool.false_eq_true, if_false]
    exact and_ne_reject.mpr ⟨litTy_ne st re g D tags tag ht, by simp [checkCons_empty]⟩
  | cons f fs ih =>
    intro h
    have hc : Tri.all ((f :: fs).map (fieldVerdict st re g D kvs)) =
        Tri.and (fieldVerdict st re g D kvs f) (Tri.all (fs.map (fieldVerdict st re g D kvs))) := rfl
    rw [hc, and_ne_reject] at h
    simp only [patchFields]
    by_cases hp : (f.1 == prop) = true
    · simp only [hp, if_true]
      have hc2 : ∀ x, Tri.all ((x :: fs).map (fieldVerdict st re g D kvs)) =
          Tri.and (fieldVerdict st re g D kvs x) (Tri.all (fs.map (fieldVerdict st re g D kvs))) :=
        fun _ => rfl
      rw [hc2, and_ne_reject]
      refine ⟨?_, h.2⟩
      have hfp : f.1 = prop := by simpa using hp
      have hf := h.1
      simp only [fieldVerdict, hfp, hl, Json.isNull, Bool.false_and, Bool.false_eq_true, if_false] at hf ⊢
      rw [and_ne_reject] at hf
      exact and_ne_reject.mpr ⟨litTy_ne st re g D tags tag ht, hf.2⟩
    · simp only [hp, Bool.false_eq_true, if_false]
      have hc2 : Tri.all ((f :: patchFields prop tags fs).map (fieldVerdict st re g D kvs)) =
          Tri.and (fieldVerdict st re g D kvs f)
            (Tri.all ((patchFields prop tags fs).map (fieldVerdict st re g D kvs))) := rfl
      rw [hc2, and_ne_reject]
      exact ⟨h.1, ih h.2⟩

/-- the pass only adds a member name -/
theorem patchFields_names (prop : List Char) (tags : List Atom)
    (fields : List (List Char × Bool × Cons × Ty)) (k : List Char)
    (h : k ∈ fields.map (·.1)) : k ∈ (patchFields prop tags fields).map (·.1) := by
  induction fields with
  | nil => simp at h
  | cons f fs ih =>
    simp only [patchFields]
    by_cases hp : (f.1 == prop) = true
    · simp only [hp, if_true]
      have hfp : f.1 = prop := by simpa using hp
      simp only [List.map_cons, List.mem_cons] at h ⊢
      rcases h with h | h
      · exact Or.inl (h.trans hfp)
      · exact Or.inr h
    · simp only [hp, Bool.false_eq_true, if_false, List.map_cons, List.mem_cons] at h ⊢
      rcases h with h | h
      · exact Or.inl h
      · exact Or.inr (ih h)

/-- MAIN LEMMA of the discriminator pass: the class with its tag member rewritten to `Literal[tags]`
still accepts (does not reject) an object that the original class does not reject, provided the
object carries one of the tags -/
theorem patchTag_ne_reject (st : Style) (re : Regex) (g : Nat) (D : IRDefs) (d : Ty)
    (kvs : List (List Char × Json)) (prop : List Char) (tags : List Atom) (tag : List Char)
    (hl : kvs.lookup prop = some (.str tag))
    (ht : tags.any (fun a => a.matches (.str tag)) = true)
    (h : acceptsTy st re g D d (.obj kvs) ≠ .reject) :
    acceptsTy st re g D (patchTag prop tags d) (.obj kvs) ≠ .reject := by
  cases g with
  | zero => simp [acceptsTy]
  | succ g =>
    cases d with
    | model fields extra =>
      simp only [patchTag, acceptsTy] at h ⊢
      rw [and_ne_reject] at h ⊢
      refine ⟨patchFields_ne st re g D kvs prop tags tag hl ht fields h.1, ?_⟩
      have h2 := h.2
      split
      · rename_i hex
        simp only [hex, if_true] at h2
        rw [ofBool_ne_reject, List.all_eq_true] at h2 ⊢
        intro kv hkv
        have := h2 kv hkv
        simp only [List.contains_iff_mem] at this ⊢
        exact patchFields_names prop tags fields kv.1 this
      · simp
    | derived bases fields extra =>
      simp only [patchTag, acceptsTy] at h ⊢
      rw [and_ne_reject] at h ⊢
      exact ⟨h.1, patchFields_ne st re g D kvs prop tags tag hl ht fields h.2⟩
    | any => simpa only [patchTag] using h
    | null => simpa only [patchTag] using h
    | scalar p kw => simpa only [patchTag] using h
    | const a => simpa only [patchTag] using h
    | enumCls vals => simpa only [patchTag] using h
    | list item => simpa only [patchTag] using h
    | dict val => simpa only [patchTag] using h
    | root c t => simpa only [patchTag] using h
    | ref n => simpa only [patchTag] using h
    | opt t => simpa only [patchTag] using h
    | union ts => simpa only [patchTag] using h
    | tagged p bs => simpa only [patchTag] using h

end Dcg.Proofs.Sem
