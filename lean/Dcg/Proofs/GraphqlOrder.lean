import Dcg.Model.GraphqlOrder
/-
Helper lemmas for the ordering half of C17 (`Dcg/Model/GraphqlOrder.lean`).
-/
namespace Dcg.Proofs.GraphqlOrder
open Dcg.Model.GraphqlOrder

/-! ### the alias template -/

/-- what `condFrom lo` claims to know under `lo ≤ n` is what `evalCond` computes -/
theorem condFrom_sound (lo : Nat) (env : String → Bool) (n : Nat) (h : lo ≤ n) :
    ∀ (c : UCond) (b b' : Bool), condFrom lo c = some b → evalCond env n c = some b' → b' = b := by
  intro c
  induction c with
  | tt => intro b b' h1 h2; simp [condFrom] at h1; simp [evalCond] at h2; rw [h1, h2]
  | lenGt k =>
    intro b b' h1 h2
    simp only [condFrom] at h1
    split at h1
    · simp only [Option.some.injEq] at h1
      simp only [evalCond, Option.some.injEq] at h2
      rw [← h1, ← h2]; simp; omega
    · simp at h1
  | var v => intro b b' h1; simp [condFrom] at h1
  | unknown t => intro b b' h1; simp [condFrom] at h1
  | not c ih =>
    intro b b' h1 h2
    simp only [condFrom, Option.map_eq_some_iff] at h1
    simp only [evalCond, Option.map_eq_some_iff] at h2
    obtain ⟨x, hx, rfl⟩ := h1
    obtain ⟨y, hy, rfl⟩ := h2
    rw [ih x y hx hy]
  | and a b iha ihb =>
    intro r r' h1 h2
    simp only [evalCond] at h2
    cases hea : evalCond env n a with
    | none => simp [hea] at h2
    | some x =>
      cases heb : evalCond env n b with
      | none => simp [hea, heb] at h2
      | some y =>
        simp only [hea, heb, Option.some.injEq] at h2
        subst h2
        have ha : ∀ u, condFrom lo a = some u → x = u := fun u hu => iha u x hu hea
        have hb : ∀ v, condFrom lo b = some v → y = v := fun v hv => ihb v y hv heb
        simp only [condFrom] at h1
        rcases hca : condFrom lo a with _ | (_ | _) <;> rcases hcb : condFrom lo b with _ | (_ | _) <;>
          simp [hca, hcb] at h1 ha hb <;> simp_all
  | or a b iha ihb =>
    intro r r' h1 h2
    simp only [evalCond] at h2
    cases hea : evalCond env n a with
    | none => simp [hea] at h2
    | some x =>
      cases heb : evalCond env n b with
      | none => simp [hea, heb] at h2
      | some y =>
        simp only [hea, heb, Option.some.injEq] at h2
        subst h2
        have ha : ∀ u, condFrom lo a = some u → x = u := fun u hu => iha u x hu hea
        have hb : ∀ v, condFrom lo b = some v → y = v := fun v hv => ihb v y hv heb
        simp only [condFrom] at h1
        rcases hca : condFrom lo a with _ | (_ | _) <;> rcases hcb : condFrom lo b with _ | (_ | _) <;>
          simp [hca, hcb] at h1 ha hb <;> simp_all

theorem siteOccs_deferred (members : List Name) (s : USite) (l : Lex) (a : List Occ)
    (hd : siteDeferred s l = true) (h : siteOccs members s l = some a) : ∀ o ∈ a, o.eager = false := by
  cases l with
  | comment =>
    simp only [siteOccs, Option.some.injEq] at h
    subst h; simp
  | code =>
    cases s <;> simp [siteDeferred] at hd
    simp only [siteOccs, Option.some.injEq] at h
    subst h; simp
  | str =>
    cases s with
    | className => simp only [siteOccs, Option.some.injEq] at h; subst h; simp
    | firstMember =>
      cases members with
      | nil => simp [siteOccs] at h
      | cons m ms =>
        simp only [siteOccs, Option.some.injEq] at h
        subst h; simp [Occ.eager]
    | eachMember =>
      simp only [siteOccs, Option.some.injEq] at h
      subst h; simp [Occ.eager]
    | other e =>
      simp only [siteOccs, Option.some.injEq] at h
      subst h; simp [Occ.eager]

/-- `safeFrom lo` does what it says: with `lo` or more members no occurrence is eager, whatever the
template variables are -/
theorem safeFrom_sound (lo : Nat) (env : String → Bool) (members : List Name) (hlo : lo ≤ members.length) :
    ∀ (tpl : UTpl) (os : List Occ), safeFrom lo tpl = true → occs env members tpl = some os →
      ∀ o ∈ os, o.eager = false := by
  intro tpl
  induction tpl with
  | done => intro os _ h; simp [occs] at h; subst h; simp
  | site s l rest ih =>
    intro os hs h
    simp only [safeFrom, Bool.and_eq_true] at hs
    simp only [occs] at h
    cases h1 : siteOccs members s l with
    | none => simp [h1] at h
    | some a =>
      cases h3 : occs env members rest with
      | none => simp [h1, h3] at h
      | some b =>
        simp only [h1, h3, Option.some.injEq] at h
        subst h
        intro o ho
        rcases List.mem_append.mp ho with ho | ho
        · exact siteOccs_deferred members s l a hs.1 h1 o ho
        · exact ih b hs.2 h3 o ho
  | ite c t e rest iht ihe ihr =>
    intro os hs h
    simp only [safeFrom, Bool.and_eq_true] at hs
    simp only [occs] at h
    cases hc : evalCond env members.length c with
    | none => simp [hc] at h
    | some bv =>
      cases h3 : occs env members rest with
      | none => cases bv <;> simp [hc, h3] at h <;> (split at h <;> simp at h)
      | some b =>
        have hrest := ihr b hs.2 h3
        cases bv with
        | true =>
          cases h4 : occs env members t with
          | none => simp [hc, h4] at h
          | some a =>
            simp only [hc, h4, h3, Option.some.injEq] at h
            subst h
            have hst : safeFrom lo t = true := by
              have := hs.1
              cases hc2 : condFrom lo c with
              | none => simp only [hc2, Bool.and_eq_true] at this; exact this.1
              | some v =>
                have hv := condFrom_sound lo env members.length hlo c v true hc2 hc
                subst hv
                simpa [hc2] using this
            intro o ho
            rcases List.mem_append.mp ho with ho | ho
            · exact iht a hst h4 o ho
            · exact hrest o ho
        | false =>
          cases h4 : occs env members e with
          | none => simp [hc, h4] at h
          | some a =>
            simp only [hc, h4, h3, Option.some.injEq] at h
            subst h
            have hse : safeFrom lo e = true := by
              have := hs.1
              cases hc2 : condFrom lo c with
              | none => simp only [hc2, Bool.and_eq_true] at this; exact this.2
              | some v =>
                have hv := condFrom_sound lo env members.length hlo c v false hc2 hc
                subst hv
                simpa [hc2] using this
            intro o ho
            rcases List.mem_append.mp ho with ho | ho
            · exact ihe a hse h4 o ho
            · exact hrest o ho

theorem eagerMembers_nil_of_none_eager (os : List Occ) (h : ∀ o ∈ os, o.eager = false) :
    eagerMembers os = [] := by
  induction os with
  | nil => rfl
  | cons o os ih =>
    have ho := h o (by simp)
    have := ih (fun x hx => h x (by simp [hx]))
    cases o with
    | member n e => simp only [Occ.eager] at ho; subst ho; simpa [eagerMembers] using this
    | other x e => simpa [eagerMembers] using this

/-- every member occurrence names a member -/
theorem occs_members (env : String → Bool) (members : List Name) :
    ∀ (tpl : UTpl) (os : List Occ), occs env members tpl = some os →
      ∀ n e, Occ.member n e ∈ os → n ∈ members := by
  intro tpl
  induction tpl with
  | done => intro os h; simp [occs] at h; subst h; simp
  | site s l rest ih =>
    intro os h n e hm
    simp only [occs] at h
    cases h1 : siteOccs members s l with
    | none => simp [h1] at h
    | some a =>
      cases h3 : occs env members rest with
      | none => simp [h1, h3] at h
      | some b =>
        simp only [h1, h3, Option.some.injEq] at h
        subst h
        rcases List.mem_append.mp hm with hm | hm
        · cases l with
          | comment => simp only [siteOccs, Option.some.injEq] at h1; subst h1; simp at hm
          | code =>
            cases s with
            | className => simp only [siteOccs, Option.some.injEq] at h1; subst h1; simp at hm
            | firstMember =>
              cases members with
              | nil => simp [siteOccs] at h1
              | cons m ms =>
                simp only [siteOccs, Option.some.injEq] at h1; subst h1
                simp at hm; simp [hm.1]
            | eachMember =>
              simp only [siteOccs, Option.some.injEq] at h1; subst h1
              simp at hm; obtain ⟨a, ha, rfl, _⟩ := hm; exact ha
            | other x => simp only [siteOccs, Option.some.injEq] at h1; subst h1; simp at hm
          | str =>
            cases s with
            | className => simp only [siteOccs, Option.some.injEq] at h1; subst h1; simp at hm
            | firstMember =>
              cases members with
              | nil => simp [siteOccs] at h1
              | cons m ms =>
                simp only [siteOccs, Option.some.injEq] at h1; subst h1
                simp at hm; simp [hm.1]
            | eachMember =>
              simp only [siteOccs, Option.some.injEq] at h1; subst h1
              simp at hm; obtain ⟨a, ha, rfl, _⟩ := hm; exact ha
            | other x => simp only [siteOccs, Option.some.injEq] at h1; subst h1; simp at hm
        · exact ih b h3 n e hm
  | ite c t e' rest iht ihe ihr =>
    intro os h n e hm
    simp only [occs] at h
    cases hc : evalCond env members.length c with
    | none => simp [hc] at h
    | some bv =>
      cases h3 : occs env members rest with
      | none => cases bv <;> simp [hc, h3] at h <;> (split at h <;> simp at h)
      | some b =>
        cases bv with
        | true =>
          cases h4 : occs env members t with
          | none => simp [hc, h4] at h
          | some a =>
            simp only [hc, h4, h3, Option.some.injEq] at h
            subst h
            rcases List.mem_append.mp hm with hm | hm
            · exact iht a h4 n e hm
            · exact ihr b h3 n e hm
        | false =>
          cases h4 : occs env members e' with
          | none => simp [hc, h4] at h
          | some a =>
            simp only [hc, h4, h3, Option.some.injEq] at h
            subst h
            rcases List.mem_append.mp hm with hm | hm
            · exact ihe a h4 n e hm
            · exact ihr b h3 n e hm

theorem mem_eagerMembers (os : List Occ) (n : Name) : n ∈ eagerMembers os ↔ Occ.member n true ∈ os := by
  induction os with
  | nil => simp [eagerMembers]
  | cons o os ih =>
    cases o with
    | member m e =>
      cases e <;> simp [eagerMembers] at ih ⊢ <;> simp [ih] <;> constructor <;> intro h <;> simpa [eq_comm] using h
    | other x e => simp [eagerMembers] at ih ⊢; exact ih

theorem evalCond_known (env : String → Bool) (n : Nat) :
    ∀ c : UCond, condKnown c = true → ∃ b, evalCond env n c = some b := by
  intro c
  induction c with
  | tt => intro _; exact ⟨true, rfl⟩
  | lenGt k => intro _; exact ⟨_, rfl⟩
  | var v => intro _; exact ⟨_, rfl⟩
  | unknown t => intro h; simp [condKnown] at h
  | not c ih =>
    intro h
    obtain ⟨b, hb⟩ := ih (by simpa [condKnown] using h)
    exact ⟨!b, by simp [evalCond, hb]⟩
  | and a b iha ihb =>
    intro h
    simp only [condKnown, Bool.and_eq_true] at h
    obtain ⟨x, hx⟩ := iha h.1
    obtain ⟨y, hy⟩ := ihb h.2
    exact ⟨x && y, by simp [evalCond, hx, hy]⟩
  | or a b iha ihb =>
    intro h
    simp only [condKnown, Bool.and_eq_true] at h
    obtain ⟨x, hx⟩ := iha h.1
    obtain ⟨y, hy⟩ := ihb h.2
    exact ⟨x || y, by simp [evalCond, hx, hy]⟩

/-- a template whose tests are all understood renders for every non-empty member list -/
theorem occs_total (env : String → Bool) (members : List Name) (hne : members ≠ []) :
    ∀ tpl : UTpl, tplKnown tpl = true → ∃ os, occs env members tpl = some os := by
  intro tpl
  induction tpl with
  | done => intro _; exact ⟨[], rfl⟩
  | site s l rest ih =>
    intro h
    obtain ⟨b, hb⟩ := ih (by simpa [tplKnown] using h)
    have : ∃ a, siteOccs members s l = some a := by
      cases members with
      | nil => exact absurd rfl hne
      | cons m ms => cases s <;> cases l <;> exact ⟨_, rfl⟩
    obtain ⟨a, ha⟩ := this
    exact ⟨a ++ b, by simp [occs, ha, hb]⟩
  | ite c t e rest iht ihe ihr =>
    intro h
    simp only [tplKnown, Bool.and_eq_true] at h
    obtain ⟨bv, hc⟩ := evalCond_known env members.length c h.1.1.1
    obtain ⟨a, ha⟩ := iht h.1.1.2
    obtain ⟨a', ha'⟩ := ihe h.1.2
    obtain ⟨b, hb⟩ := ihr h.2
    cases bv with
    | true => exact ⟨a ++ b, by simp [occs, hc, ha, hb]⟩
    | false => exact ⟨a' ++ b, by simp [occs, hc, ha', hb]⟩

/-! ### which members the alias lists -/

/-- knowledge about the member count that is true of `n` -/
def LenKnow.trueOf (a : LenKnow) (n : Nat) : Prop := ∀ k b, a k = some b → decide (k < n) = b

theorem know2_trueOf (n : Nat) (h : 2 ≤ n) : LenKnow.trueOf know2 n := by
  intro k b hk
  simp only [know2] at hk
  split at hk
  · simp only [Option.some.injEq] at hk; subst hk; simp; omega
  · simp at hk

theorem know1_trueOf : LenKnow.trueOf know1 1 := by
  intro k b hk
  simp only [know1, Option.some.injEq] at hk
  exact hk

theorem condA_sound (a : LenKnow) (env : String → Bool) (n : Nat) (ha : LenKnow.trueOf a n) :
    ∀ (c : UCond) (b b' : Bool), condA a c = some b → evalCond env n c = some b' → b' = b := by
  intro c
  induction c with
  | tt => intro b b' h1 h2; simp [condA] at h1; simp [evalCond] at h2; rw [h1, h2]
  | lenGt k =>
    intro b b' h1 h2
    simp only [condA] at h1
    simp only [evalCond, Option.some.injEq] at h2
    rw [← h2]; exact ha k b h1
  | var v => intro b b' h1; simp [condA] at h1
  | unknown t => intro b b' h1; simp [condA] at h1
  | not c ih =>
    intro b b' h1 h2
    simp only [condA, Option.map_eq_some_iff] at h1
    simp only [evalCond, Option.map_eq_some_iff] at h2
    obtain ⟨x, hx, rfl⟩ := h1
    obtain ⟨y, hy, rfl⟩ := h2
    rw [ih x y hx hy]
  | and p q ihp ihq =>
    intro r r' h1 h2
    simp only [evalCond] at h2
    cases hea : evalCond env n p with
    | none => simp [hea] at h2
    | some x =>
      cases heb : evalCond env n q with
      | none => simp [hea, heb] at h2
      | some y =>
        simp only [hea, heb, Option.some.injEq] at h2
        subst h2
        have hp : ∀ u, condA a p = some u → x = u := fun u hu => ihp u x hu hea
        have hq : ∀ v, condA a q = some v → y = v := fun v hv => ihq v y hv heb
        simp only [condA] at h1
        rcases hca : condA a p with _ | (_ | _) <;> rcases hcb : condA a q with _ | (_ | _) <;>
          simp [hca, hcb] at h1 hp hq <;> simp_all
  | or p q ihp ihq =>
    intro r r' h1 h2
    simp only [evalCond] at h2
    cases hea : evalCond env n p with
    | none => simp [hea] at h2
    | some x =>
      cases heb : evalCond env n q with
      | none => simp [hea, heb] at h2
      | some y =>
        simp only [hea, heb, Option.some.injEq] at h2
        subst h2
        have hp : ∀ u, condA a p = some u → x = u := fun u hu => ihp u x hu hea
        have hq : ∀ v, condA a q = some v → y = v := fun v hv => ihq v y hv heb
        simp only [condA] at h1
        rcases hca : condA a p with _ | (_ | _) <;> rcases hcb : condA a q with _ | (_ | _) <;>
          simp [hca, hcb] at h1 hp hq <;> simp_all

theorem siteOccs_forget (members : List Name) (s : USite) (l : Lex) (os : List Occ)
    (h : siteOccs members s l = some os) :
    os.map Occ.forget = (liveSite s l).flatMap (siteForget members) := by
  cases l with
  | comment => simp only [siteOccs, Option.some.injEq] at h; subst h; simp [liveSite]
  | code =>
    cases s with
    | className => simp only [siteOccs, Option.some.injEq] at h; subst h; simp [liveSite]
    | firstMember =>
      cases members with
      | nil => simp [siteOccs] at h
      | cons m ms => simp only [siteOccs, Option.some.injEq] at h; subst h; simp [liveSite, siteForget, Occ.forget]
    | eachMember =>
      simp only [siteOccs, Option.some.injEq] at h; subst h
      simp [liveSite, siteForget, Occ.forget, Function.comp_def]
    | other e => simp only [siteOccs, Option.some.injEq] at h; subst h; simp [liveSite, siteForget, Occ.forget]
  | str =>
    cases s with
    | className => simp only [siteOccs, Option.some.injEq] at h; subst h; simp [liveSite]
    | firstMember =>
      cases members with
      | nil => simp [siteOccs] at h
      | cons m ms => simp only [siteOccs, Option.some.injEq] at h; subst h; simp [liveSite, siteForget, Occ.forget]
    | eachMember =>
      simp only [siteOccs, Option.some.injEq] at h; subst h
      simp [liveSite, siteForget, Occ.forget, Function.comp_def]
    | other e => simp only [siteOccs, Option.some.injEq] at h; subst h; simp [liveSite, siteForget, Occ.forget]

/-- `shapeA` does what it says: when the knowledge is true of the member count, the rendered alias has
exactly the live sites of the shape, in order, whatever the template variables are -/
theorem shapeA_sound (a : LenKnow) (env : String → Bool) (members : List Name) (ha : LenKnow.trueOf a members.length) :
    ∀ (tpl : UTpl) (sh : List USite) (os : List Occ), shapeA a tpl = some sh →
      occs env members tpl = some os → os.map Occ.forget = sh.flatMap (siteForget members) := by
  intro tpl
  induction tpl with
  | done => intro sh os h1 h2; simp [shapeA] at h1; simp [occs] at h2; subst h1; subst h2; simp
  | site s l rest ih =>
    intro sh os h1 h2
    simp only [shapeA, Option.map_eq_some_iff] at h1
    obtain ⟨r, hr, rfl⟩ := h1
    simp only [occs] at h2
    cases h3 : siteOccs members s l with
    | none => simp [h3] at h2
    | some x =>
      cases h4 : occs env members rest with
      | none => simp [h3, h4] at h2
      | some y =>
        simp only [h3, h4, Option.some.injEq] at h2
        subst h2
        rw [List.map_append, List.flatMap_append, siteOccs_forget members s l x h3, ih r y hr h4]
  | ite c t e rest iht ihe ihr =>
    intro sh os h1 h2
    simp only [shapeA] at h1
    cases hr : shapeA a rest with
    | none => simp [hr] at h1
    | some r =>
      simp only [hr] at h1
      simp only [occs] at h2
      cases hc : evalCond env members.length c with
      | none => simp [hc] at h2
      | some bv =>
        cases h4 : occs env members rest with
        | none => cases bv <;> simp [hc, h4] at h2 <;> (split at h2 <;> simp at h2)
        | some y =>
          have hrest := ihr r y hr h4
          -- the branch taken, and its shape
          have key : ∀ (br : UTpl) (x : List Occ), occs env members br = some x →
              (∀ shb, shapeA a br = some shb → x.map Occ.forget = shb.flatMap (siteForget members)) →
              (∃ shb, shapeA a br = some shb ∧ sh = shb ++ r) →
              (x ++ y).map Occ.forget = sh.flatMap (siteForget members) := by
            intro br x _ hx hsh
            obtain ⟨shb, hshb, rfl⟩ := hsh
            rw [List.map_append, List.flatMap_append, hx shb hshb, hrest]
          cases bv with
          | true =>
            cases h5 : occs env members t with
            | none => simp [hc, h5] at h2
            | some x =>
              simp only [hc, h5, h4, Option.some.injEq] at h2
              subst h2
              refine key t x h5 (fun shb hs => iht shb x hs h5) ?_
              cases hca : condA a c with
              | none =>
                simp only [hca] at h1
                cases hst : shapeA a t with
                | none => simp [hst] at h1
                | some xs =>
                  cases hse : shapeA a e with
                  | none => simp [hst, hse] at h1
                  | some ys =>
                    simp only [hst, hse] at h1
                    split at h1
                    · simp only [Option.some.injEq] at h1; exact ⟨xs, rfl, h1.symm⟩
                    · simp at h1
              | some v =>
                have hv := condA_sound a env members.length ha c v true hca hc
                subst hv
                simp only [hca, Option.map_eq_some_iff] at h1
                obtain ⟨xs, hxs, rfl⟩ := h1
                exact ⟨xs, hxs, rfl⟩
          | false =>
            cases h5 : occs env members e with
            | none => simp [hc, h5] at h2
            | some x =>
              simp only [hc, h5, h4, Option.some.injEq] at h2
              subst h2
              refine key e x h5 (fun shb hs => ihe shb x hs h5) ?_
              cases hca : condA a c with
              | none =>
                simp only [hca] at h1
                cases hst : shapeA a t with
                | none => simp [hst] at h1
                | some xs =>
                  cases hse : shapeA a e with
                  | none => simp [hst, hse] at h1
                  | some ys =>
                    simp only [hst, hse] at h1
                    split at h1
                    · rename_i heq
                      simp only [Option.some.injEq] at h1
                      exact ⟨ys, rfl, by rw [← h1, heq]⟩
                    · simp at h1
              | some v =>
                have hv := condA_sound a env members.length ha c v false hca hc
                subst hv
                simp only [hca, Option.map_eq_some_iff] at h1
                obtain ⟨xs, hxs, rfl⟩ := h1
                exact ⟨xs, hxs, rfl⟩

/-! ### one pass of `sort_data_models` -/

/-- a pass appends the names of the models it places, in their order; every model is placed or kept -/
theorem pass_spec : ∀ (t : List Node) (s : List Name),
    ∃ placed : List Node, (pass s t).1 = s ++ placed.map (·.name) ∧
      placed.Sublist t ∧ List.Perm t (placed ++ (pass s t).2) := by
  intro t
  induction t with
  | nil => intro s; exact ⟨[], by simp [pass], List.Sublist.refl _, by simp [pass]⟩
  | cons d ds ih =>
    intro s
    by_cases hr : ready s d = true
    · obtain ⟨p, h1, h2, h3⟩ := ih (s ++ [d.name])
      refine ⟨d :: p, ?_, h2.cons_cons d, ?_⟩
      · simp [pass, hr, h1]
      · simpa [pass, hr] using h3
    · obtain ⟨p, h1, h2, h3⟩ := ih s
      refine ⟨p, ?_, h2.cons d, ?_⟩
      · simp [pass, hr, h1]
      · simp only [pass, hr]
        exact (List.Perm.cons d h3).trans List.perm_middle.symm

/-- a model without reference classes is placed by the pass that meets it -/
theorem pass_places_ref_free : ∀ (t : List Node) (s : List Name) (d : Node),
    d ∈ t → d.refs = [] → d.name ∈ (pass s t).1 := by
  intro t
  induction t with
  | nil => intro s d h; simp at h
  | cons x xs ih =>
    intro s d hd hr
    have grow : ∀ (t : List Node) (s : List Name) (n : Name), n ∈ s → n ∈ (pass s t).1 := by
      intro t s n hn
      obtain ⟨p, h1, _, _⟩ := pass_spec t s
      rw [h1]; exact List.mem_append_left _ hn
    rcases List.mem_cons.mp hd with rfl | hd
    · have : ready s d = true := by simp [ready, hr]
      simp only [pass, this, if_true]
      exact grow xs _ _ (by simp)
    · by_cases hx : ready s x = true
      · simp only [pass, hx, if_true]; exact ih _ d hd hr
      · simp only [pass, hx]; exact ih _ d hd hr

/-! ### the loop -/

theorem sortLoop_prefix : ∀ (fuel : Nat) (s : List Name) (t : List Node),
    ∃ rest, (sortLoop fuel s t).1 = s ++ rest := by
  intro fuel
  induction fuel with
  | zero =>
    intro s t
    cases t with
    | nil => exact ⟨[], by simp [sortLoop]⟩
    | cons d ds => exact ⟨(d :: ds).map (·.name), by simp [sortLoop]⟩
  | succ f ih =>
    intro s t
    cases t with
    | nil => exact ⟨[], by simp [sortLoop]⟩
    | cons d ds =>
      simp only [sortLoop]
      split
      · exact ⟨(d :: ds).map (·.name), rfl⟩
      · obtain ⟨p, h1, _, _⟩ := pass_spec (d :: ds) s
        obtain ⟨r, hr⟩ := ih (pass s (d :: ds)).1 (pass s (d :: ds)).2
        exact ⟨p.map (·.name) ++ r, by rw [hr, h1, List.append_assoc]⟩

/-- nothing is lost or invented: the emitted names are the given names -/
theorem sortLoop_perm : ∀ (fuel : Nat) (s : List Name) (t : List Node),
    List.Perm (sortLoop fuel s t).1 (s ++ t.map (·.name)) := by
  intro fuel
  induction fuel with
  | zero =>
    intro s t
    cases t with
    | nil => simp [sortLoop]
    | cons d ds => simp [sortLoop]
  | succ f ih =>
    intro s t
    cases t with
    | nil => simp [sortLoop]
    | cons d ds =>
      simp only [sortLoop]
      split
      · exact List.Perm.refl _
      · obtain ⟨p, h1, _, h3⟩ := pass_spec (d :: ds) s
        refine (ih _ _).trans ?_
        rw [h1, List.append_assoc]
        refine List.Perm.append_left s ?_
        rw [← List.map_append]
        exact (h3.map (·.name)).symm

/-- the first pass's output is a prefix of the final order -/
theorem sortLoop_first_pass (n : Nat) (t : List Node) :
    ∃ rest, (sortLoop (n + 1) [] t).1 = (pass [] t).1 ++ rest := by
  cases t with
  | nil => exact ⟨[], by simp [sortLoop, pass]⟩
  | cons d ds =>
    simp only [sortLoop]
    split
    · rename_i h
      obtain ⟨p, h1, _, _⟩ := pass_spec (d :: ds) []
      have hp : p = [] := by
        have : (pass [] (d :: ds)).1.length = 0 := by simpa using h
        rw [h1] at this
        simpa using this
      refine ⟨(d :: ds).map (·.name), ?_⟩
      rw [h1, hp]; simp
    · exact sortLoop_prefix n _ _

/-! ### the fuel suffices: an acyclic reference graph is sorted completely -/

theorem ready_mono (s s' : List Name) (d : Node) (hss : ∀ x ∈ s, x ∈ s') (h : ready s d = true) :
    ready s' d = true := by
  simp only [ready, List.all_eq_true, Bool.or_eq_true, beq_iff_eq, List.contains_iff_mem] at h ⊢
  intro r hr
  rcases h r hr with h | h
  · exact Or.inl h
  · exact Or.inr (hss r h)

theorem pass_kept_le (t : List Node) (s : List Name) : (pass s t).2.length ≤ t.length := by
  obtain ⟨p, _, _, h3⟩ := pass_spec t s
  have := h3.length_eq
  simp only [List.length_append] at this
  omega

/-- a pass that meets a ready model places something -/
theorem pass_progress : ∀ (t : List Node) (s : List Name) (d : Node), d ∈ t → ready s d = true →
    (pass s t).2.length < t.length := by
  intro t
  induction t with
  | nil => intro s d hd; simp at hd
  | cons x xs ih =>
    intro s d hd hr
    by_cases hx : ready s x = true
    · simp only [pass, hx, if_true, List.length_cons]
      have := pass_kept_le xs (s ++ [x.name])
      omega
    · have hdx : d ∈ xs := by
        rcases List.mem_cons.mp hd with h | h
        · subst h; exact absurd hr hx
        · exact h
      have := ih s d hdx hr
      simp only [pass, hx, Bool.false_eq_true, if_false, List.length_cons]
      omega

/-- every reference of a model still to be sorted is the model itself, already sorted, or a model
still to be sorted of smaller rank: the reference graph is acyclic and closed -/
def Ranked (rank : Name → Nat) (s : List Name) (t : List Node) : Prop :=
  ∀ d ∈ t, ∀ r ∈ d.refs, r = d.name ∨ r ∈ s ∨ ∃ d' ∈ t, d'.name = r ∧ rank r < rank d.name

theorem exists_min_rank (rank : Name → Nat) : ∀ (t : List Node), t ≠ [] →
    ∃ d ∈ t, ∀ d' ∈ t, rank d.name ≤ rank d'.name := by
  intro t
  induction t with
  | nil => intro h; exact absurd rfl h
  | cons x xs ih =>
    intro _
    cases xs with
    | nil => exact ⟨x, by simp, by intro d' hd'; simp at hd'; subst hd'; exact Nat.le_refl _⟩
    | cons y ys =>
      obtain ⟨m, hm, hmin⟩ := ih (by simp)
      by_cases hxm : rank x.name ≤ rank m.name
      · refine ⟨x, by simp, ?_⟩
        intro d' hd'
        rcases List.mem_cons.mp hd' with h | h
        · subst h; exact Nat.le_refl _
        · exact Nat.le_trans hxm (hmin d' h)
      · refine ⟨m, List.mem_cons_of_mem _ hm, ?_⟩
        intro d' hd'
        rcases List.mem_cons.mp hd' with h | h
        · subst h; omega
        · exact hmin d' h

theorem ranked_has_ready (rank : Name → Nat) (s : List Name) (t : List Node) (hne : t ≠ [])
    (h : Ranked rank s t) : ∃ d ∈ t, ready s d = true := by
  obtain ⟨d, hd, hmin⟩ := exists_min_rank rank t hne
  refine ⟨d, hd, ?_⟩
  simp only [ready, List.all_eq_true, Bool.or_eq_true, beq_iff_eq, List.contains_iff_mem]
  intro r hr
  rcases h d hd r hr with h1 | h1 | ⟨d', hd', hn, hlt⟩
  · exact Or.inl h1
  · exact Or.inr h1
  · have := hmin d' hd'
    rw [hn] at this
    omega

theorem ranked_pass (rank : Name → Nat) (s : List Name) (t : List Node) (h : Ranked rank s t) :
    Ranked rank (pass s t).1 (pass s t).2 := by
  obtain ⟨p, h1, _, h3⟩ := pass_spec t s
  intro d hd r hr
  have hdt : d ∈ t := h3.symm.subset (List.mem_append_right _ hd)
  rcases h d hdt r hr with h' | h' | ⟨d', hd', hn, hlt⟩
  · exact Or.inl h'
  · right; left; rw [h1]; exact List.mem_append_left _ h'
  · rcases List.mem_append.mp (h3.subset hd') with hp | hk
    · right; left
      rw [h1, ← hn]
      exact List.mem_append_right _ (List.mem_map_of_mem hp)
    · exact Or.inr (Or.inr ⟨d', hk, hn, hlt⟩)

/-- THE FUEL SUFFICES: with at least as much fuel as models, an acyclic closed reference graph is
sorted without the fall-back -/
theorem sortLoop_complete (rank : Name → Nat) : ∀ (fuel : Nat) (s : List Name) (t : List Node),
    t.length ≤ fuel → Ranked rank s t → (sortLoop fuel s t).2 = true := by
  intro fuel
  induction fuel with
  | zero =>
    intro s t hl _
    have : t = [] := List.eq_nil_of_length_eq_zero (by omega)
    subst this; simp [sortLoop]
  | succ f ih =>
    intro s t hl hr
    cases t with
    | nil => simp [sortLoop]
    | cons d ds =>
      obtain ⟨x, hx, hready⟩ := ranked_has_ready rank s (d :: ds) (by simp) hr
      have hprog := pass_progress (d :: ds) s x hx hready
      obtain ⟨p, h1, _, h3⟩ := pass_spec (d :: ds) s
      have hlen := h3.length_eq
      simp only [List.length_append] at hlen
      have hgrow : ¬ ((pass s (d :: ds)).1.length == s.length) = true := by
        rw [h1]
        simp only [List.length_append, List.length_map, beq_iff_eq]
        omega
      simp only [sortLoop, hgrow, Bool.false_eq_true, if_false]
      exact ih _ _ (by simp only [List.length_cons] at hl hprog; omega) (ranked_pass rank s _ hr)

/-! ### `definedBefore` -/

theorem definedBefore_append_of_mem (l1 l2 : List Name) (a b : Name) (hb : b ∈ l1) :
    definedBefore (l1 ++ l2) a b = definedBefore l1 a b := by
  induction l1 with
  | nil => simp at hb
  | cons x xs ih =>
    by_cases hx : x = b
    · subst hx; simp [definedBefore, List.takeWhile]
    · have hb' : b ∈ xs := by
        rcases List.mem_cons.mp hb with h | h
        · exact absurd h.symm hx
        · exact h
      have := ih hb'
      simp only [definedBefore] at this ⊢
      simp only [List.cons_append, List.takeWhile_cons, bne_iff_ne, ne_eq, hx, not_false_eq_true,
        if_true, List.contains_cons]
      rw [this]

theorem definedBefore_mem (l : List Name) (a b : Name) (h : definedBefore l a b = true) : a ∈ l := by
  simp only [definedBefore, List.contains_iff_mem] at h
  exact (List.takeWhile_sublist _).subset h

theorem definedBefore_append_left (l1 l2 : List Name) (a b : Name) (ha : a ∈ l1) (hb : b ∉ l1) :
    definedBefore (l1 ++ l2) a b = true := by
  simp only [definedBefore, List.contains_iff_mem]
  have : ∀ x ∈ l1, (x != b) = true := by
    intro x hx
    simp only [bne_iff_ne, ne_eq]
    intro h; subst h; exact hb hx
  rw [List.takeWhile_append_of_pos this]
  exact List.mem_append_left _ ha

/-- a model that a pass keeps back is not among the names it placed (names distinct) -/
theorem kept_not_placed (t : List Node) (hnd : (t.map (·.name)).Nodup) (x : Node) (hx : x ∈ (pass [] t).2) :
    x.name ∉ (pass [] t).1 := by
  obtain ⟨p, h1, _, h3⟩ := pass_spec t []
  have hnd' : ((p ++ (pass [] t).2).map (·.name)).Nodup := (h3.map (·.name)).nodup_iff.mp hnd
  rw [List.map_append, List.nodup_append] at hnd'
  rw [h1]
  simp only [List.nil_append]
  intro hmem
  exact hnd'.2.2 _ hmem _ (List.mem_map_of_mem hx) rfl

/-- LATE: a model kept back by the first pass is still unbound when any model that the first pass
placed — in particular every model without reference classes — is executed -/
theorem late_not_defined_before (n : Nat) (t : List Node) (hnd : (t.map (·.name)).Nodup)
    (x u : Node) (hx : x ∈ (pass [] t).2) (hu : u ∈ t) (hur : u.refs = []) :
    definedBefore (sortLoop (n + 1) [] t).1 x.name u.name = false := by
  obtain ⟨rest, hrest⟩ := sortLoop_first_pass n t
  have hu1 : u.name ∈ (pass [] t).1 := pass_places_ref_free t [] u hu hur
  rw [hrest, definedBefore_append_of_mem _ _ _ _ hu1]
  cases h : definedBefore (pass [] t).1 x.name u.name with
  | false => rfl
  | true => exact absurd (definedBefore_mem _ _ _ h) (kept_not_placed t hnd x hx)

/-- EARLY: when the models split into a front part `A` and a back part `B` (all unions, as `parse_order`
ends with UNION), a model of `A` that the first pass places is bound when any model of `B` is executed -/
theorem early_defined_before (n : Nat) (A B : List Node) (hnd : ((A ++ B).map (·.name)).Nodup)
    (x u : Node) (hxA : x ∈ A) (hx : x.name ∈ (pass [] (A ++ B)).1) (hu : u ∈ B) :
    definedBefore (sortLoop (n + 1) [] (A ++ B)).1 x.name u.name = true := by
  obtain ⟨rest, hrest⟩ := sortLoop_first_pass n (A ++ B)
  obtain ⟨p, h1, h2, _⟩ := pass_spec (A ++ B) []
  obtain ⟨pA, pB, hp, hsA, hsB⟩ := List.sublist_append_iff.mp h2
  rw [List.map_append, List.nodup_append] at hnd
  have hdisj : ∀ a ∈ A.map (·.name), ∀ b ∈ B.map (·.name), a ≠ b := hnd.2.2
  rw [hrest, h1, hp]
  simp only [List.nil_append, List.map_append, List.append_assoc]
  apply definedBefore_append_left
  · -- x is among the placed models of A
    rw [h1, hp] at hx
    simp only [List.nil_append, List.map_append, List.mem_append] at hx
    rcases hx with hx | hx
    · exact hx
    · obtain ⟨y, hy, hyn⟩ := List.mem_map.mp hx
      exact absurd hyn.symm (hdisj _ (List.mem_map_of_mem hxA) _ (List.mem_map_of_mem (hsB.subset hy)))
  · intro hmem
    obtain ⟨y, hy, hyn⟩ := List.mem_map.mp hmem
    exact hdisj _ (List.mem_map_of_mem (hsA.subset hy)) _ (List.mem_map_of_mem hu) hyn

/-! ### from `Def`s to nodes -/

theorem results_union_last (pre : List Kind) (defs : List Def) :
    results (pre ++ [.union]) defs = results pre defs ++ defs.filter (fun d => d.kind == .union) := by
  simp [results, List.flatMap_append]

theorem nodes_union_last (pre : List Kind) (defs : List Def) :
    nodes (pre ++ [.union]) defs =
      (results pre defs).map (fun d => { name := d.name, refs := refs defs d }) ++
      (defs.filter (fun d => d.kind == .union)).map (fun d => { name := d.name, refs := refs defs d }) := by
  simp [nodes, results_union_last]

theorem mem_results (order : List Kind) (defs : List Def) (d : Def) :
    d ∈ results order defs ↔ d ∈ defs ∧ d.kind ∈ order := by
  simp only [results, List.mem_flatMap, List.mem_filter, beq_iff_eq]
  constructor
  · rintro ⟨k, hk, hd, rfl⟩; exact ⟨hd, hk⟩
  · rintro ⟨hd, hk⟩; exact ⟨d.kind, hk, hd, rfl⟩

theorem refs_union (defs : List Def) (u : Def) (h : u.kind = .union) : refs defs u = [] := by
  simp [refs, h]

/-- every emitted model is placed by the first pass or kept back by it -/
theorem early_or_late (order : List Kind) (defs : List Def) (d : Def) (hd : d ∈ results order defs) :
    early order defs d.name = true ∨ late order defs d.name = true := by
  obtain ⟨p, h1, _, h3⟩ := pass_spec (nodes order defs) []
  have hn : ({ name := d.name, refs := refs defs d } : Node) ∈ nodes order defs :=
    List.mem_map.mpr ⟨d, hd, rfl⟩
  rcases List.mem_append.mp (h3.subset hn) with h | h
  · left
    simp only [early, firstPass, List.contains_iff_mem, h1, List.nil_append]
    exact List.mem_map.mpr ⟨_, h, rfl⟩
  · right
    simp only [late, firstPass, List.any_eq_true, beq_iff_eq]
    exact ⟨_, h, rfl⟩

/-- LATE, for the schema: a type the first pass keeps back is not yet bound when the alias of any
union is executed -/
theorem late_unbound (order : List Kind) (hou : Kind.union ∈ order) (defs : List Def)
    (hnd : ((nodes order defs).map (·.name)).Nodup) (u : Def) (hu : u ∈ defs) (huk : u.kind = .union)
    (m : Name) (hm : late order defs m = true) :
    definedBefore (emitOrder order defs) m u.name = false := by
  simp only [late, firstPass, List.any_eq_true, beq_iff_eq] at hm
  obtain ⟨x, hx, rfl⟩ := hm
  have hun : ({ name := u.name, refs := refs defs u } : Node) ∈ nodes order defs :=
    List.mem_map.mpr ⟨u, (mem_results order defs u).mpr ⟨hu, huk ▸ hou⟩, rfl⟩
  have hlen : (nodes order defs).length = ((nodes order defs).length - 1) + 1 := by
    have := List.length_pos_of_mem hun
    omega
  simp only [emitOrder, emit]
  rw [hlen]
  exact late_not_defined_before _ _ hnd x _ hx hun (refs_union defs u huk)

/-- EARLY, for the schema: `parse_order` ends with the unions, so a type of another kind that the first
pass places is bound when the alias of any union is executed -/
theorem early_bound (pre : List Kind) (defs : List Def)
    (hnd : ((nodes (pre ++ [.union]) defs).map (·.name)).Nodup) (u : Def) (hu : u ∈ defs)
    (huk : u.kind = .union) (d : Def) (hd : d ∈ defs) (hdk : d.kind ∈ pre)
    (he : early (pre ++ [.union]) defs d.name = true) :
    definedBefore (emitOrder (pre ++ [.union]) defs) d.name u.name = true := by
  have hun : ({ name := u.name, refs := refs defs u } : Node) ∈ nodes (pre ++ [.union]) defs :=
    List.mem_map.mpr ⟨u, (mem_results _ defs u).mpr ⟨hu, by simp [huk]⟩, rfl⟩
  have hlen : (nodes (pre ++ [.union]) defs).length = ((nodes (pre ++ [.union]) defs).length - 1) + 1 := by
    have := List.length_pos_of_mem hun
    omega
  simp only [early, firstPass, List.contains_iff_mem] at he
  simp only [emitOrder, emit]
  rw [hlen]
  generalize (nodes (pre ++ [.union]) defs).length - 1 = n
  rw [nodes_union_last] at hnd he ⊢
  exact early_defined_before n _ _ hnd
    { name := d.name, refs := refs defs d } { name := u.name, refs := refs defs u }
    (List.mem_map.mpr ⟨d, (mem_results pre defs d).mpr ⟨hd, hdk⟩, rfl⟩) he
    (List.mem_map.mpr ⟨u, List.mem_filter.mpr ⟨hu, by simp [huk]⟩, rfl⟩)

end Dcg.Proofs.GraphqlOrder
