import Dcg.Proofs.FieldMust
import Dcg.Proofs.FieldOmit
import Dcg.Proofs.FieldValue
import Dcg.Proofs.FieldMutable
import Dcg.Proofs.FieldNull
import Dcg.Proofs.FieldSort
/-! From the exhaustive lemmas (reduced vectors, closed-form template decision) to statements about
every vector of the full space and the table-driven model. -/
namespace Dcg.Proofs.Field
open Dcg.Model.Field

theorem required_of_not_omittable (v : Vec) (ho : v.omittable = false) : v.reduce.required = true := by
  have h := Vec.omittable_eq v
  rw [ho] at h
  cases hr : v.reduce.required
  · rw [hr] at h; cases h
  · rfl

theorem not_required_of_omittable (v : Vec) (ho : v.omittable = true) : v.reduce.required = false := by
  have h := Vec.omittable_eq v
  rw [ho] at h
  cases hr : v.reduce.required
  · rfl
  · rw [hr] at h; cases h

theorem mustExact (v : Vec) (hv : v.valid = true) (ho : v.omittable = false) :
    MustExact tableDecision v.reduce := by
  have h := allR mustExact_closed v.reduce (Vec.valid_reduce v hv) (required_of_not_omittable v ho)
  rwa [← decision_eq] at h

theorem mustFamiliesNeedNull' (v : Vec) (hv : v.valid = true) (ho : v.omittable = false)
    (hn : v.admitsNull = false) : MustFamiliesNeedNull v.reduce := by
  refine allR mustFamiliesNeedNull v.reduce (Vec.valid_reduce v hv) ?_
  have hr := required_of_not_omittable v ho
  have hn' : v.reduce.nullsrc.admitsNull = false := hn
  simp [hr, hn']

theorem omitExact (v : Vec) (hv : v.valid = true) (ho : v.omittable = true) :
    OmitExact tableDecision v.reduce := by
  have h := allR omitExact_closed v.reduce (Vec.valid_reduce v hv) (by simp [not_required_of_omittable v ho])
  rwa [← decision_eq] at h

theorem valueExact (v : Vec) (hv : v.valid = true) (ho : v.omittable = true) (hd : v.dflt.isNone = false) :
    ValueExact tableDecision v.reduce := by
  have h := allR valueExact_closed v.reduce (Vec.valid_reduce v hv) (by
    have : v.reduce.dflt = v.dflt := rfl
    simp [not_required_of_omittable v ho, this, hd])
  rwa [← decision_eq] at h

theorem noneReads (v : Vec) (hv : v.valid = true) (ho : v.omittable = true) (hd : v.dflt.isNone = true) :
    NoneReads tableDecision v.reduce := by
  have h := allR noneReads_closed v.reduce (Vec.valid_reduce v hv) (by
    have : v.reduce.dflt = v.dflt := rfl
    simp [not_required_of_omittable v ho, this, hd])
  rwa [← decision_eq] at h

theorem mutableExact (v : Vec) (hv : v.valid = true) (ho : v.omittable = true) (hd : v.dflt.isMutable = true) :
    MutableExact tableDecision v.reduce := by
  have h := allR mutableExact_closed v.reduce (Vec.valid_reduce v hv) (by
    have : v.reduce.dflt = v.dflt := rfl
    simp [not_required_of_omittable v ho, this, hd])
  rwa [← decision_eq] at h

theorem dcFactory (v : Vec) (hv : v.valid = true) (ho : v.omittable = true) (hd : v.dflt.isMutable = true) :
    DcFactory tableDecision v.reduce := by
  have h := allR dcFactory_closed v.reduce (Vec.valid_reduce v hv) (by
    have : v.reduce.dflt = v.dflt := rfl
    simp [not_required_of_omittable v ho, this, hd])
  rwa [← decision_eq] at h

theorem nullExact (v : Vec) (hv : v.valid = true) (hn : v.admitsNull = true) :
    NullExact tableDecision v.reduce := by
  have h := allR nullExact_closed v.reduce (Vec.valid_reduce v hv) hn
  rwa [← decision_eq] at h

theorem sortKeyExact (v : Vec) (hv : v.valid = true) : SortKeyExact tableDecision v.reduce := by
  have h := allR sortKeyExact_closed v.reduce (Vec.valid_reduce v hv) rfl
  rwa [← decision_eq] at h

end Dcg.Proofs.Field
