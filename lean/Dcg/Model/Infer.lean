import Dcg.Sem.JsonLite
/-
Dcg.Model.Infer — genson's schema inference as `generate()` uses it for raw data
(`SchemaBuilder().add_object(obj).to_schema()`, __init__.py), transliterated from
genson/schema/node.py and genson/schema/strategies/{scalar,array,object}.py.

A `SchemaNode` holds at most one active strategy of each kind:
  Null, Boolean, String               → a flag each
  Number                              → `integer`, turned into `number` by the first float
  List   (items : SchemaNode)         → `arr = some items`; an items node without strategies is
                                        falsy, so `to_schema` writes no `items` keyword
  Object (properties, required)       → `hasObj`, `props` in insertion order, `req`
`to_schema` joins the strategies as `{"type": [...]}` / `{"anyOf": [...]}`; a node without
strategies is the schema `{}`.
-/
namespace Dcg.Model.Infer
open Dcg.Sem.JsonLite

inductive NumT where
  | integer | number
  deriving Repr, DecidableEq, Inhabited

inductive Node where
  | mk (null bool str : Bool) (num : Option NumT) (arr : Option Node)
       (hasObj : Bool) (props : List (Key × Node)) (req : List Key)
  deriving Repr, Inhabited

namespace Node
def empty : Node := .mk false false false none none false [] []
def null : Node → Bool | .mk x _ _ _ _ _ _ _ => x
def bool : Node → Bool | .mk _ x _ _ _ _ _ _ => x
def str : Node → Bool | .mk _ _ x _ _ _ _ _ => x
def num : Node → Option NumT | .mk _ _ _ x _ _ _ _ => x
def arr : Node → Option Node | .mk _ _ _ _ x _ _ _ => x
def hasObj : Node → Bool | .mk _ _ _ _ _ x _ _ => x
def props : Node → List (Key × Node) | .mk _ _ _ _ _ _ x _ => x
def req : Node → List Key | .mk _ _ _ _ _ _ _ x => x
/-- `len(node) == 0`: no active strategy; `to_schema()` is `{}` -/
def isEmpty (n : Node) : Bool :=
  !n.null && !n.bool && !n.str && n.num.isNone && n.arr.isNone && !n.hasObj
end Node

/-- `self._properties[prop]` of a `defaultdict(node_class)` followed by an in-place update:
an existing key keeps its position, a new key goes to the end -/
def upsert : List (Key × Node) → Key → Node → List (Key × Node)
  | [], k, n => [(k, n)]
  | (k', n') :: r, k, n => if k == k' then (k', n) :: r else (k', n') :: upsert r k n

def dedup : List Key → List Key
  | [] => []
  | k :: r => if r.contains k then dedup r else k :: dedup r

mutual
/-- `SchemaNode.add_object(obj)`: find (or create) the strategy matching `obj`, let it absorb `obj` -/
def add : Node → Json → Node
  | .mk _ bo st nm ar ho ps rq, .null => .mk true bo st nm ar ho ps rq
  | .mk nu _ st nm ar ho ps rq, .bool _ => .mk nu true st nm ar ho ps rq
  | .mk nu bo _ nm ar ho ps rq, .str _ => .mk nu bo true nm ar ho ps rq
  -- Number: created as 'integer'; an int never changes the type
  | .mk nu bo st nm ar ho ps rq, .int _ => .mk nu bo st (some (nm.getD .integer)) ar ho ps rq
  -- Number.add_object: isinstance(obj, float) → 'number'
  | .mk nu bo st _ ar ho ps rq, .flt _ => .mk nu bo st (some .number) ar ho ps rq
  -- List.add_object: every item goes into the one items node
  | .mk nu bo st nm ar ho ps rq, .arr xs =>
      .mk nu bo st nm (some (addList (ar.getD .empty) xs)) ho ps rq
  -- Object.add_object: every value into the node of its key; required = keys, or ∩ keys
  | .mk nu bo st nm ar ho ps rq, .obj kvs =>
      .mk nu bo st nm ar true (addProps ps kvs)
        (if ho then rq.filter (fun r => (keys kvs).contains r) else dedup (keys kvs))
def addList : Node → List Json → Node
  | n, [] => n
  | n, x :: xs => addList (add n x) xs
def addProps : List (Key × Node) → List (Key × Json) → List (Key × Node)
  | ps, [] => ps
  | ps, (k, v) :: r => addProps (upsert ps k (add ((ps.lookup k).getD .empty) v)) r
end

/-- the schema `generate()` hands to the JSON-Schema parser for the raw document `v` -/
def infer (v : Json) : Node := add .empty v

/-- the keys of the mapping `next(csv.DictReader(f))` in iteration order, for a header without duplicates: the header
names (a missing cell is filled with `restval`, the key stays), then the rest key `None` when the row has surplus cells -/
def dictReaderKeys (header : List Key) (row : List (List Char)) : List (Option Key) :=
  header.map some ++ (if header.length < row.length then [none] else [])

/-- `get_header_and_first_line` of the CSV branch of `generate()`:
`dict(zip(csv_reader.fieldnames, next(csv_reader)))`. Iterating the row mapping yields its KEYS, and `zip` stops at the
shorter side, i.e. at the end of the header: every header name is paired with a string, no matter how many cells the row
has (a surplus cell has no column; the rest key `None` is never reached). Domain: header names pairwise distinct. -/
def csvSample (header : List Key) (row : List (List Char)) : Json :=
  .obj ((header.zip (dictReaderKeys header row)).filterMap (fun p => p.2.map (fun k => (p.1, Json.str k))))

mutual
/-- JSON-Schema validity of `w` against `to_schema n`, for the schema shapes inference produces:
`{}` accepts everything; otherwise `w` must be accepted by the alternative of its own type;
properties not named in `properties` are unconstrained; `required` names must be present. -/
def validL : Node → Json → Bool
  | n, .null => n.isEmpty || n.null
  | n, .bool _ => n.isEmpty || n.bool
  | n, .str _ => n.isEmpty || n.str
  | n, .int _ => n.isEmpty || n.num.isSome
  | n, .flt integral => n.isEmpty || n.num == some .number || (integral && n.num == some .integer)
  | n, .arr xs => n.isEmpty || (match n.arr with
      | none => false
      | some items => validList items xs)
  | n, .obj kvs => n.isEmpty || (n.hasObj && validProps n.props kvs
      && n.req.all (fun r => (keys kvs).contains r))
def validList : Node → List Json → Bool
  | _, [] => true
  | items, x :: xs => validL items x && validList items xs
def validProps : List (Key × Node) → List (Key × Json) → Bool
  | _, [] => true
  | ps, (k, v) :: r => (match ps.lookup k with
      | none => true
      | some pn => validL pn v) && validProps ps r
end

mutual
/-- `covers n w`: `w` is one of the values `n` has absorbed, or looks like one at every level — the
invariant of `add` (stronger than validity: no escape through `{}` or through unnamed properties). -/
def covers : Node → Json → Bool
  | n, .null => n.null
  | n, .bool _ => n.bool
  | n, .str _ => n.str
  | n, .int _ => n.num.isSome
  | n, .flt _ => n.num == some .number
  | n, .arr xs => (match n.arr with
      | none => false
      | some items => coversList items xs)
  | n, .obj kvs => n.hasObj && coversProps n.props kvs && n.req.all (fun r => (keys kvs).contains r)
def coversList : Node → List Json → Bool
  | _, [] => true
  | items, x :: xs => covers items x && coversList items xs
def coversProps : List (Key × Node) → List (Key × Json) → Bool
  | _, [] => true
  | ps, (k, v) :: r => (match ps.lookup k with
      | none => false
      | some pn => covers pn v) && coversProps ps r
end

end Dcg.Model.Infer
