/-
Dcg.Model.TemplateSyntax — deep embedding of the fragment of Jinja2 that the generator's class
templates (`src/datamodel_code_generator/model/template/**/*.jinja2`) are written in.

The values of these types are GENERATED (`Dcg/Gen/TemplateAst.lean`, translator
`vlib/translate/template_ast.py`) from jinja2's own parser (`Environment().parse`), i.e. after
Jinja has applied its white-space control; nothing here is edited by hand when a template changes.
Anything outside the fragment becomes an explicit `unsupported` node (counted; every analysis
rejects a template that contains one).
-/
namespace Dcg.Model.TemplateSyntax

inductive CmpOp where
  | eq | ne | lt | le | gt | ge | isIn | notIn
  deriving DecidableEq, Repr

/-- filters the templates use; `other` = not modelled -/
inductive Filter where
  | escapeDocstring                    -- the project's own filter (model/base.py escape_docstring)
  | indent (width : Nat)               -- jinja2 `indent(width)` (first=False, blank=False)
  | replace (old new : List Char)      -- jinja2 `replace(old, new)`
  | length
  | defaultEmptyDict                   -- `default({})`
  | other (src : String)
  deriving DecidableEq, Repr

inductive Expr where
  | name (n : String)
  | attr (e : Expr) (a : String)                 -- `e.a`
  | item (e : Expr) (i : Expr)                   -- `e[i]`
  | str (s : List Char)
  | int (n : Int)
  | bool (b : Bool)
  | none
  | not (e : Expr)
  | and (a b : Expr)
  | or (a b : Expr)
  | cmp (op : CmpOp) (a b : Expr)                -- single comparison `a op b`
  | filter (e : Expr) (f : Filter)               -- `e | f`
  | isDefined (e : Expr)                         -- `e is defined`
  | isNone (e : Expr)                            -- `e is none`
  | mcall (e : Expr) (method : String) (args : String)
      -- `e.method(args)`; `args` is the canonical text of the argument list ("" or e.g.
      -- "exclude_unset=True"); the interpreter knows a fixed list of (method, args) pairs
  | unsupported (src : String)
  deriving DecidableEq, Repr

inductive Tpl where
  | text (s : List Char)                          -- literal template data (white-space control applied)
  | out (e : Expr)                                -- `{{ e }}`
  | ite (c : Expr) (thn els : List Tpl)           -- `{% if %}`; `elif` = nested `ite` in `els`
  | forIn (vars : List String) (iter : Expr) (body : List Tpl)   -- `{% for v in iter %}` / `for k, v in iter`
  | setVar (v : String) (e : Expr)                -- `{% set v = e %}`
  | incl (name resolved : String) (body : List Tpl)
      -- `{% include 'name' %}`; `resolved` = key of the included template in the generated table,
      -- `body` = its AST as resolved by the translator (checked against the table by `decide`)
  | filterBlock (f : Filter) (body : List Tpl)    -- `{% filter f %}…{% endfilter %}`
  | macroDef (name : String) (params : List String) (body : List Tpl)   -- `{% macro name(params) %}`
  | callMacro (name : String) (params : List String) (args : List Expr) (body : List Tpl)
      -- `{{ name(args) }}` of a macro defined in the same template (params/body copied from the
      -- definition by the translator; checked against the `macroDef` by `decide`)
  | unsupported (src : String)
  deriving Repr

/-! ### canonical source text of an expression (the `expr` column of `Gen/Templates`) -/

def CmpOp.src : CmpOp → String
  | .eq => "==" | .ne => "!=" | .lt => "<" | .le => "<=" | .gt => ">" | .ge => ">="
  | .isIn => " in " | .notIn => " not in "

def Filter.name : Filter → String
  | .escapeDocstring => "escape_docstring"
  | .indent _ => "indent"
  | .replace _ _ => "replace"
  | .length => "length"
  | .defaultEmptyDict => "default"
  | .other s => s

/-- the expression under its filters, and the filters outermost last (`a|f|g` ↦ (a, [f, g])) -/
def Expr.unfilter : Expr → Expr × List Filter
  | .filter e f => let (b, fs) := e.unfilter; (b, fs ++ [f])
  | e => (e, [])

/-- source text without white space, as the site table of `vlib/translate/templates.py` prints it;
only the forms that occur as interpolation sites need to print faithfully -/
def Expr.src : Expr → String
  | .name n => n
  | .attr e a => e.src ++ "." ++ a
  | .item e i => e.src ++ "[" ++ i.src ++ "]"
  | .str s => "'" ++ String.ofList s ++ "'"
  | .int n => toString n
  | .bool b => if b then "True" else "False"
  | .none => "None"
  | .not e => "not " ++ e.src
  | .and a b => a.src ++ " and " ++ b.src
  | .or a b => a.src ++ " or " ++ b.src
  | .cmp op a b => a.src ++ op.src ++ b.src
  | .filter e f => e.src ++ "|" ++ f.name
  | .isDefined e => e.src ++ " is defined"
  | .isNone e => e.src ++ " is none"
  | .mcall e m args => e.src ++ "." ++ m ++ "(" ++ args ++ ")"
  | .unsupported s => s

/-- does the expression contain a node outside the modelled fragment? -/
def Expr.hasUnsupported : Expr → Bool
  | .unsupported _ => true
  | .filter _ (.other _) => true
  | .attr e _ | .not e | .isDefined e | .isNone e | .mcall e _ _ | .filter e _ => e.hasUnsupported
  | .item a b | .and a b | .or a b | .cmp _ a b => a.hasUnsupported || b.hasUnsupported
  | _ => false

mutual
/-- number of nodes outside the modelled fragment (an expression counts once per statement) -/
def Tpl.unsupportedCount : Tpl → Nat
  | .text _ => 0
  | .out e => if e.hasUnsupported then 1 else 0
  | .ite c t e => (if c.hasUnsupported then 1 else 0) + Tpl.unsupportedCountL t + Tpl.unsupportedCountL e
  | .forIn _ it b => (if it.hasUnsupported then 1 else 0) + Tpl.unsupportedCountL b
  | .setVar _ e => if e.hasUnsupported then 1 else 0
  | .incl _ _ b => Tpl.unsupportedCountL b
  | .filterBlock f b => (match f with | .other _ => 1 | _ => 0) + Tpl.unsupportedCountL b
  | .macroDef _ _ b => Tpl.unsupportedCountL b
  | .callMacro _ _ args b => (if args.any Expr.hasUnsupported then 1 else 0) + Tpl.unsupportedCountL b
  | .unsupported _ => 1
def Tpl.unsupportedCountL : List Tpl → Nat
  | [] => 0
  | t :: r => t.unsupportedCount + Tpl.unsupportedCountL r
end

end Dcg.Model.TemplateSyntax
